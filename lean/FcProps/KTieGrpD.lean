/-
  Kernel tie, groups, alloc-only build (no `std` feature) — the set-view bookkeeping of `FutureGroup` / `StreamGroup`
  (`with_capacity`, `len`, `is_empty`, `capacity`, `contains_key`, `reserve`, `insert`, `remove`) TRANSLATED FROM THE
  CURRENT SOURCE in the no_std flavour (FcGen/KSrcGrpD.lean: namespaces GrpFD / GrpSD) refines the group operations of
  Fc/Groups.lean (`GEng.reserve`, `GEng.grow`, `GEng.insertAt`, `GEng.remove`) run in a `direct` world.
  Port of FcProps/KTieGrp.lean; abstraction and `WfG` from FcProps/KTieGrpDir.lean.

  DIFFERENCE WITH THE STD FLAVOUR.  The readiness set of no_std.rs stores only the parent waker: no flags, NO LENGTH.
  `absF g b` therefore takes `World.cap` (like `bits`, `count`) from the ghost `b`, whereas the model's `GEng.reserve`
  does move `cap` in `direct` mode (`World.resize`: `cap := len` when it grows).  So the clause `cap` of
  `core (absF g' b) = core (GEng.reserve (absF g b) add)` is FALSE in this flavour as soon as the model grows beyond
  the ghost's `cap` (counterexamples by `decide` below: `reserve_cap_clause_false`, `insert_cap_clause_false`).
  Minimal repair: the ghost of the state after the call carries the model's new `cap` — `reCap b n` is `b` with
  `w.cap := n` and nothing else touched — i.e. `core (absF g' (reCap b (<model result>).w.cap)) = core <model result>`:
  all fourteen clauses of `core`, thirteen of them about the very same `b`.  `reserve_tie_exact` / `insert_tie_exact`
  give the verbatim std statement under `hcap : (<model result>).w.cap = b.w.cap` (no growth of `cap`).
  `remove_tie`, `queries_tie` are verbatim.  `with_capacity_tie`: `mode := .direct`, and `cap` / `bits` / `count` are the
  ghost's (`with_capacity_tie_init`: the literal `World.init .direct k` values for a ghost that is that world;
  `with_capacity_literal_false`: the literal clause fails for another ghost).
  The hypotheses of the std theorems that only served the flag table (`WfG.rd`, `WfG.nw`) are gone with `WfG`'s clauses;
  every other hypothesis (`hn` of `insert`, `hocc` of `remove`) stays.
-/
import FcProps.KTieGrpDir
import FcLemmas.KTieGrpDBase

set_option linter.unusedSimpArgs false
set_option linter.unusedVariables false

namespace Fc
open Rs Src

namespace TieGrpFD
open GrpFD

local macro "unroles" : tactic =>
  `(tactic| try simp only [absF, FutureGroup.roleSlab, FutureGroup.roleWakers, FutureGroup.roleStates,
      FutureGroup.roleKeys, FutureGroup.roleCapacity] at *)

theorem queries_tie (g : FutureGroup) (b : Eng Grp) (k : Nat) :
    FutureGroup.len g = some (absF g b).s.len ∧
    FutureGroup.capacity_fn g = some (absF g b).s.capacity ∧
    FutureGroup.is_empty g = some (decide ((absF g b).s.len = 0)) ∧
    FutureGroup.contains_key g k = some (g, (absF g b).s.keys.contains k) := by
  refine ⟨rfl, rfl, ?_, rfl⟩
  unfold FutureGroup.is_empty
  unroles
  simp only [Slab.isEmpty, pure]
  first | (congr 1; done) | (congr 1; simp; done) | (congr 1; rw [Bool.eq_iff_iff]; simp)

/-- `reserve(additional)` = `GEng.reserve`; the ghost of the new state carries the model's new `cap` -/
theorem reserve_tie (g : FutureGroup) (b : Eng Grp) (add : Nat) (h : WfG g) :
    ∃ g', FutureGroup.reserve g add = some (g', ()) ∧ WfG g' ∧
      core (absF g' (reCap b (GEng.reserve (absF g b) add).w.cap)) = core (GEng.reserve (absF g b) add) := by
  obtain ⟨hsl, hsh⟩ := h
  have hrz := sv_resize_direct (absF g b).w (g.roleCapacity + add) rfl
  unfold FutureGroup.reserve FutureGroup.len
  by_cases hc : g.roleSlab.len + add < g.roleCapacity
  · unroles
    simp [uadd, hc, GEng.reserve, core, TieDir.absV, reCap]
    exact ⟨hsl, hsh⟩
  · unroles
    simp [uadd, hc, GEng.reserve, core, WakerVecD.resize, (TieDir.vec_tie _ b.w 0 0 _).2.2.2.2.2.2.2.2.2.2, reCap, hrz]
    refine ⟨⟨?_, ?_⟩, ?_⟩
    · unroles; simp [PVec.resize]
    · intro j hj
      have hlt : ¬ j < g.roleStates.len := by rw [hsl]; unroles; omega
      unroles
      simp [PVec.resize, hlt]
    · simp only [TieDir.absV, true_and]
      funext i
      by_cases hi : i < g.roleStates.len
      · unroles; simp [PVec.resize, hi]
      · have := hsh i (by rw [← hsl]; unroles; omega)
        unroles
        simp [PVec.resize, hi, this]

/-- `insert(member c)` = `GEng.insertAt (GEng.grow ·) c`: the capacity check and growth `2·cap+1`, the slab's
    next key, the key set, the state table (`set_ready` does nothing here); the returned key is the slab's next key -/
theorem insert_tie (g : FutureGroup) (b : Eng Grp) (c : Nat) (keep : Bool) (h : WfG g)
    (hn : (GEng.grow (absF g b)).s.next < (GEng.grow (absF g b)).s.capacity) :
    ∃ g', FutureGroup.insert g c = some (g', (absF g b).s.next) ∧ WfG g' ∧
      core (absF g' (reCap b (GEng.grow (absF g b)).w.cap)) =
        core (GEng.insertAt (GEng.grow (absF g b)) c keep) := by
  obtain ⟨g1, hg1, hw1, hc1⟩ := reserve_tie g b (g.roleCapacity * 2 + 1) h
  unfold FutureGroup.insert FutureGroup.len
  by_cases hcap : g.roleCapacity ≤ g.roleSlab.len
  · -- grows first
    have hgrow : GEng.grow (absF g b) = GEng.reserve (absF g b) (g.roleCapacity * 2 + 1) := by
      unfold GEng.grow; unroles; simp [hcap]
    rw [hgrow] at hn ⊢
    generalize (GEng.reserve (absF g b) (g.roleCapacity * 2 + 1)).w.cap = n at hc1 ⊢
    obtain ⟨hsl, hsh⟩ := hw1
    have hcore := hc1
    simp only [core, GCore.mk.injEq] at hcore
    obtain ⟨-, -, -, -, -, hcapy, hst, hmem, hvac, hent, hnext, hlen, hkeys, -⟩ := hcore
    have hn1 : g1.roleSlab.next < g1.roleCapacity := by
      have h1 : (absF g1 (reCap b n)).s.next = g1.roleSlab.next := rfl
      have h2 : (absF g1 (reCap b n)).s.capacity = g1.roleCapacity := rfl
      rw [← h1, ← h2, hnext, hcapy]; exact hn
    have hs1 : DirVec.ReadinessVec.set_ready g1.roleWakers.readiness g1.roleSlab.next
        = some (g1.roleWakers.readiness, false) := (TieDir.vec_tie _ b.w _ 0 0).2.2.2.1
    have hkl : g1.roleSlab.next < g1.roleStates.len := by rw [hsl]; exact hn1
    have hnx : g1.roleSlab.next = g.roleSlab.next := by
      have h1 : (absF g1 (reCap b n)).s.next = g1.roleSlab.next := rfl
      rw [← h1, hnext]; simp [GEng.reserve]; split <;> rfl
    rw [core_insertAt (GEng.reserve (absF g b) (g.roleCapacity * 2 + 1)) (absF g1 (reCap b n)) c keep keep hc1.symm]
    unroles
    rw [hnx] at hkl hs1 hn1
    simp [hcap, uadd, hg1, Slab_insert_snd, PVec.idx, PVec.set, hkl, PS.PollState.set_pending, hs1, hnx]
    refine ⟨⟨?_, ?_⟩, ?_⟩
    · unroles; exact hsl
    · intro j hj; unroles
      have : j ≠ g.roleSlab.next := by unroles; omega
      unroles
      simp [this]; exact hsh j hj
    · simp only [core, GEng.insertAt, Grp.slabInsert, Slab.insert, BTree.insert, insertSorted_eq, World.emit,
        GCore.mk.injEq, hnx, sv_setReady_direct _ _ (show (TieDir.absV _ _).mode = .direct from rfl)]
      by_cases hne : g.roleSlab.next = g1.roleSlab.entries
      · unroles; simp only [if_pos hne]; simp
        refine ⟨?_, ?_⟩ <;> (funext j; by_cases hj : j = g.roleSlab.next <;> (unroles; simp [upd, hj, TiePS.abs]))
      · unroles; simp only [if_neg hne]; simp
        refine ⟨?_, ?_⟩ <;> (funext j; by_cases hj : j = g.roleSlab.next <;> (unroles; simp [upd, hj, TiePS.abs]))
  · -- enough room
    have hgrow : GEng.grow (absF g b) = absF g b := by
      unfold GEng.grow; unroles; simp [hcap]
    rw [hgrow] at hn ⊢
    have hrc : reCap b (absF g b).w.cap = b := rfl
    rw [hrc]
    obtain ⟨hsl, hsh⟩ := h
    have hn1 : g.roleSlab.next < g.roleCapacity := hn
    have hs1 : DirVec.ReadinessVec.set_ready g.roleWakers.readiness g.roleSlab.next
        = some (g.roleWakers.readiness, false) := (TieDir.vec_tie _ b.w _ 0 0).2.2.2.1
    have hkl : g.roleSlab.next < g.roleStates.len := by rw [hsl]; exact hn1
    unroles
    simp [hcap, uadd, Slab_insert_snd, PVec.idx, PVec.set, hkl, PS.PollState.set_pending, hs1]
    refine ⟨⟨?_, ?_⟩, ?_⟩
    · unroles; exact hsl
    · intro j hj; unroles
      have : j ≠ g.roleSlab.next := by unroles; omega
      unroles
      simp [this]; exact hsh j hj
    · simp only [core, GEng.insertAt, Grp.slabInsert, Slab.insert, BTree.insert, insertSorted_eq, World.emit,
        GCore.mk.injEq, sv_setReady_direct _ _ (show (TieDir.absV _ _).mode = .direct from rfl)]
      by_cases hne : g.roleSlab.next = g.roleSlab.entries
      · unroles; simp only [if_pos hne]; simp
        refine ⟨?_, ?_⟩ <;> (funext j; by_cases hj : j = g.roleSlab.next <;> (unroles; simp [upd, hj, TiePS.abs]))
      · unroles; simp only [if_neg hne]; simp
        refine ⟨?_, ?_⟩ <;> (funext j; by_cases hj : j = g.roleSlab.next <;> (unroles; simp [upd, hj, TiePS.abs]))

/-- the statement of the std flavour, verbatim, holds whenever the model's `cap` does not move (no growth, or the
    ghost's `cap` is already at least the new capacity) -/
theorem reserve_tie_exact (g : FutureGroup) (b : Eng Grp) (add : Nat) (h : WfG g)
    (hcap : (GEng.reserve (absF g b) add).w.cap = b.w.cap) :
    ∃ g', FutureGroup.reserve g add = some (g', ()) ∧ WfG g' ∧
      core (absF g' b) = core (GEng.reserve (absF g b) add) := by
  obtain ⟨g', h1, h2, h3⟩ := reserve_tie g b add h
  rw [hcap] at h3
  exact ⟨g', h1, h2, h3⟩

theorem insert_tie_exact (g : FutureGroup) (b : Eng Grp) (c : Nat) (keep : Bool) (h : WfG g)
    (hn : (GEng.grow (absF g b)).s.next < (GEng.grow (absF g b)).s.capacity)
    (hcap : (GEng.grow (absF g b)).w.cap = b.w.cap) :
    ∃ g', FutureGroup.insert g c = some (g', (absF g b).s.next) ∧ WfG g' ∧
      core (absF g' b) = core (GEng.insertAt (GEng.grow (absF g b)) c keep) := by
  obtain ⟨g', h1, h2, h3⟩ := insert_tie g b c keep h hn
  rw [hcap] at h3
  exact ⟨g', h1, h2, h3⟩

/-- `remove(key)` = `GEng.remove`: answers whether the key was present; a present key leaves the key set, its
    state becomes `None`, its slab entry joins the vacant chain (the member is dropped by `Slab::remove`) -/
theorem remove_tie (g : FutureGroup) (b : Eng Grp) (k : Nat) (h : WfG g)
    (hocc : g.roleKeys.elems.contains k = true →
      k < g.roleCapacity ∧ k < g.roleSlab.entries ∧ ∃ c, g.roleSlab.member k = some c) :
    ∃ g', FutureGroup.remove g k = some (g', (absF g b).s.keys.contains k) ∧ WfG g' ∧
      core (absF g' b) = core (removeKey (absF g b) k) := by
  obtain ⟨hsl, hsh⟩ := h
  unfold FutureGroup.remove
  by_cases hk : g.roleKeys.elems.contains k = true
  · obtain ⟨hkc, hke, c, hkm⟩ := hocc hk
    have hkl : k < g.roleStates.len := by rw [hsl]; exact hkc
    have hk' : k ∈ g.roleKeys.elems := by simpa using hk
    unroles
    simp [BTree.remove, hk', PVec.idx, PVec.set, hkl, PS.PollState.set_none, Slab.remove, hkm, hke, removeKey,
      BTree.contains]
    refine ⟨⟨?_, ?_⟩, ?_⟩
    · unroles; exact hsl
    · intro j hj; unroles
      by_cases hjk : j = k
      · simp [hjk]
      · simp [hjk]; exact hsh j hj
    · simp only [core, Grp.slabRemove, World.emit, TieDir.absV, GCore.mk.injEq]
      simp
      refine ⟨?_, ?_, ?_⟩ <;> (funext j; by_cases hj : j = k <;> simp [upd, hj, TiePS.abs])
  · have hk' : ¬ k ∈ g.roleKeys.elems := by simpa using hk
    have hfil : List.filter (fun x => !decide (x = k)) g.roleKeys.elems = g.roleKeys.elems := by
      apply List.filter_eq_self.mpr
      intro a ha
      have : a ≠ k := fun h => hk' (h ▸ ha)
      simp [this]
    unroles
    simp [BTree.remove, hk', removeKey, BTree.contains, hfil]
    refine ⟨⟨hsl, hsh⟩, ?_⟩
    simp [core, World.emit, TieDir.absV]

/-- `with_capacity(k)` (and `new()` = `with_capacity(0)`): the empty group with `k` state slots and no parent waker.
    The flavour stores neither flags nor a length: `cap`, `bits`, `count` are the ghost's -/
theorem with_capacity_tie (k : Nat) (b : Eng Grp) :
    ∃ g, FutureGroup.with_capacity k = some g ∧ WfG g ∧ FutureGroup.new = FutureGroup.with_capacity 0 ∧
      core (absF g b) =
        { mode := .direct, cap := b.w.cap, bits := b.w.bits, count := b.w.count, parent := none, capacity := k,
          st := fun _ => .none, member := fun _ => none, vac := fun _ => 0, entries := 0, next := 0, len := 0,
          keys := [], queue := b.s.queue } := by
  obtain ⟨r, hr1, hr2⟩ : ∃ r0, DirVec.ReadinessVec.new = some r0 ∧ r0.roleParent = none := ⟨_, rfl, rfl⟩
  unfold FutureGroup.with_capacity
  simp only [WakerVecD.new, hr1]
  refine ⟨_, rfl, ⟨?_, ?_⟩, ?_, ?_⟩
  · unroles; simp [PVec.replicate]
  · intro j _; unroles; simp [PVec.replicate]
  · unfold FutureGroup.new FutureGroup.with_capacity; simp [WakerVecD.new, hr1]
  · unroles
    simp only [core, TieDir.absV, GCore.mk.injEq]
    simp [PVec.replicate, Slab.empty, BTree.empty, TiePS.abs, hr2]

/-- the statement of the std flavour with `mode := .direct`, for a ghost whose world is the model's initial world
    `World.init .direct k …` -/
theorem with_capacity_tie_init (k : Nat) (b : Eng Grp) (sc : Nat → List Step) (hb : b.w = World.init .direct k sc) :
    ∃ g, FutureGroup.with_capacity k = some g ∧ WfG g ∧ FutureGroup.new = FutureGroup.with_capacity 0 ∧
      core (absF g b) =
        { mode := .direct, cap := k, bits := fun i => decide (i < k), count := k, parent := none, capacity := k,
          st := fun _ => .none, member := fun _ => none, vac := fun _ => 0, entries := 0, next := 0, len := 0,
          keys := [], queue := b.s.queue } := by
  obtain ⟨g, h1, h2, h3, h4⟩ := with_capacity_tie k b
  refine ⟨g, h1, h2, h3, ?_⟩
  rw [h4, hb]; rfl

end TieGrpFD

namespace TieGrpSD
open GrpSD
open TieGrpFD (reCap sv_resize_direct sv_setReady_direct)

local macro "unroles" : tactic =>
  `(tactic| try simp only [absS, StreamGroup.roleSlab, StreamGroup.roleWakers, StreamGroup.roleStates,
      StreamGroup.roleKeys, StreamGroup.roleCapacity, StreamGroup.roleQueue] at *)

theorem queries_tie (g : StreamGroup) (b : Eng Grp) (k : Nat) :
    StreamGroup.len g = some (absS g b).s.len ∧
    StreamGroup.capacity_fn g = some (absS g b).s.capacity ∧
    StreamGroup.is_empty g = some (decide ((absS g b).s.len = 0)) ∧
    StreamGroup.contains_key g k = some (g, (absS g b).s.keys.contains k) := by
  refine ⟨rfl, rfl, ?_, rfl⟩
  unfold StreamGroup.is_empty
  unroles
  simp only [Slab.isEmpty, pure]
  first | (congr 1; done) | (congr 1; simp; done) | (congr 1; rw [Bool.eq_iff_iff]; simp)

/-- `reserve(additional)` = `GEng.reserve`; the ghost of the new state carries the model's new `cap` -/
theorem reserve_tie (g : StreamGroup) (b : Eng Grp) (add : Nat) (h : WfG g) :
    ∃ g', StreamGroup.reserve g add = some (g', ()) ∧ WfG g' ∧
      core (absS g' (reCap b (GEng.reserve (absS g b) add).w.cap)) = core (GEng.reserve (absS g b) add) := by
  obtain ⟨hsl, hsh⟩ := h
  have hrz := sv_resize_direct (absS g b).w (g.roleCapacity + add) rfl
  unfold StreamGroup.reserve StreamGroup.len
  by_cases hc : g.roleSlab.len + add < g.roleCapacity
  · unroles
    simp [uadd, hc, GEng.reserve, core, TieDir.absV, reCap]
    exact ⟨hsl, hsh⟩
  · unroles
    simp [uadd, hc, GEng.reserve, core, WakerVecD.resize, (TieDir.vec_tie _ b.w 0 0 _).2.2.2.2.2.2.2.2.2.2, reCap, hrz]
    refine ⟨⟨?_, ?_⟩, ?_⟩
    · unroles; simp [PVec.resize]
    · intro j hj
      have hlt : ¬ j < g.roleStates.len := by rw [hsl]; unroles; omega
      unroles
      simp [PVec.resize, hlt]
    · simp only [TieDir.absV, true_and]
      funext i
      by_cases hi : i < g.roleStates.len
      · unroles; simp [PVec.resize, hi]
      · have := hsh i (by rw [← hsl]; unroles; omega)
        unroles
        simp [PVec.resize, hi, this]

/-- `insert(member c)` = `GEng.insertAt (GEng.grow ·) c`: the capacity check and growth `2·cap+1`, the slab's
    next key, the key set, the state table (`set_ready` does nothing here); the returned key is the slab's next key -/
theorem insert_tie (g : StreamGroup) (b : Eng Grp) (c : Nat) (keep : Bool) (h : WfG g)
    (hn : (GEng.grow (absS g b)).s.next < (GEng.grow (absS g b)).s.capacity) :
    ∃ g', StreamGroup.insert g c = some (g', (absS g b).s.next) ∧ WfG g' ∧
      core (absS g' (reCap b (GEng.grow (absS g b)).w.cap)) =
        core (GEng.insertAt (GEng.grow (absS g b)) c keep) := by
  obtain ⟨g1, hg1, hw1, hc1⟩ := reserve_tie g b (g.roleCapacity * 2 + 1) h
  unfold StreamGroup.insert StreamGroup.len
  by_cases hcap : g.roleCapacity ≤ g.roleSlab.len
  · -- grows first
    have hgrow : GEng.grow (absS g b) = GEng.reserve (absS g b) (g.roleCapacity * 2 + 1) := by
      unfold GEng.grow; unroles; simp [hcap]
    rw [hgrow] at hn ⊢
    generalize (GEng.reserve (absS g b) (g.roleCapacity * 2 + 1)).w.cap = n at hc1 ⊢
    obtain ⟨hsl, hsh⟩ := hw1
    have hcore := hc1
    simp only [core, GCore.mk.injEq] at hcore
    obtain ⟨-, -, -, -, -, hcapy, hst, hmem, hvac, hent, hnext, hlen, hkeys, -⟩ := hcore
    have hn1 : g1.roleSlab.next < g1.roleCapacity := by
      have h1 : (absS g1 (reCap b n)).s.next = g1.roleSlab.next := rfl
      have h2 : (absS g1 (reCap b n)).s.capacity = g1.roleCapacity := rfl
      rw [← h1, ← h2, hnext, hcapy]; exact hn
    have hs1 : DirVec.ReadinessVec.set_ready g1.roleWakers.readiness g1.roleSlab.next
        = some (g1.roleWakers.readiness, false) := (TieDir.vec_tie _ b.w _ 0 0).2.2.2.1
    have hkl : g1.roleSlab.next < g1.roleStates.len := by rw [hsl]; exact hn1
    have hnx : g1.roleSlab.next = g.roleSlab.next := by
      have h1 : (absS g1 (reCap b n)).s.next = g1.roleSlab.next := rfl
      rw [← h1, hnext]; simp [GEng.reserve]; split <;> rfl
    rw [core_insertAt (GEng.reserve (absS g b) (g.roleCapacity * 2 + 1)) (absS g1 (reCap b n)) c keep keep hc1.symm]
    unroles
    rw [hnx] at hkl hs1 hn1
    simp [hcap, uadd, hg1, Slab_insert_snd, PVec.idx, PVec.set, hkl, PS.PollState.set_pending, hs1, hnx]
    refine ⟨⟨?_, ?_⟩, ?_⟩
    · unroles; exact hsl
    · intro j hj; unroles
      have : j ≠ g.roleSlab.next := by unroles; omega
      unroles
      simp [this]; exact hsh j hj
    · simp only [core, GEng.insertAt, Grp.slabInsert, Slab.insert, BTree.insert, insertSorted_eq, World.emit,
        GCore.mk.injEq, hnx, sv_setReady_direct _ _ (show (TieDir.absV _ _).mode = .direct from rfl)]
      by_cases hne : g.roleSlab.next = g1.roleSlab.entries
      · unroles; simp only [if_pos hne]; simp
        refine ⟨?_, ?_⟩ <;> (funext j; by_cases hj : j = g.roleSlab.next <;> (unroles; simp [upd, hj, TiePS.abs]))
      · unroles; simp only [if_neg hne]; simp
        refine ⟨?_, ?_⟩ <;> (funext j; by_cases hj : j = g.roleSlab.next <;> (unroles; simp [upd, hj, TiePS.abs]))
  · -- enough room
    have hgrow : GEng.grow (absS g b) = absS g b := by
      unfold GEng.grow; unroles; simp [hcap]
    rw [hgrow] at hn ⊢
    have hrc : reCap b (absS g b).w.cap = b := rfl
    rw [hrc]
    obtain ⟨hsl, hsh⟩ := h
    have hn1 : g.roleSlab.next < g.roleCapacity := hn
    have hs1 : DirVec.ReadinessVec.set_ready g.roleWakers.readiness g.roleSlab.next
        = some (g.roleWakers.readiness, false) := (TieDir.vec_tie _ b.w _ 0 0).2.2.2.1
    have hkl : g.roleSlab.next < g.roleStates.len := by rw [hsl]; exact hn1
    unroles
    simp [hcap, uadd, Slab_insert_snd, PVec.idx, PVec.set, hkl, PS.PollState.set_pending, hs1]
    refine ⟨⟨?_, ?_⟩, ?_⟩
    · unroles; exact hsl
    · intro j hj; unroles
      have : j ≠ g.roleSlab.next := by unroles; omega
      unroles
      simp [this]; exact hsh j hj
    · simp only [core, GEng.insertAt, Grp.slabInsert, Slab.insert, BTree.insert, insertSorted_eq, World.emit,
        GCore.mk.injEq, sv_setReady_direct _ _ (show (TieDir.absV _ _).mode = .direct from rfl)]
      by_cases hne : g.roleSlab.next = g.roleSlab.entries
      · unroles; simp only [if_pos hne]; simp
        refine ⟨?_, ?_⟩ <;> (funext j; by_cases hj : j = g.roleSlab.next <;> (unroles; simp [upd, hj, TiePS.abs]))
      · unroles; simp only [if_neg hne]; simp
        refine ⟨?_, ?_⟩ <;> (funext j; by_cases hj : j = g.roleSlab.next <;> (unroles; simp [upd, hj, TiePS.abs]))

/-- the statement of the std flavour, verbatim, holds whenever the model's `cap` does not move (no growth, or the
    ghost's `cap` is already at least the new capacity) -/
theorem reserve_tie_exact (g : StreamGroup) (b : Eng Grp) (add : Nat) (h : WfG g)
    (hcap : (GEng.reserve (absS g b) add).w.cap = b.w.cap) :
    ∃ g', StreamGroup.reserve g add = some (g', ()) ∧ WfG g' ∧
      core (absS g' b) = core (GEng.reserve (absS g b) add) := by
  obtain ⟨g', h1, h2, h3⟩ := reserve_tie g b add h
  rw [hcap] at h3
  exact ⟨g', h1, h2, h3⟩

theorem insert_tie_exact (g : StreamGroup) (b : Eng Grp) (c : Nat) (keep : Bool) (h : WfG g)
    (hn : (GEng.grow (absS g b)).s.next < (GEng.grow (absS g b)).s.capacity)
    (hcap : (GEng.grow (absS g b)).w.cap = b.w.cap) :
    ∃ g', StreamGroup.insert g c = some (g', (absS g b).s.next) ∧ WfG g' ∧
      core (absS g' b) = core (GEng.insertAt (GEng.grow (absS g b)) c keep) := by
  obtain ⟨g', h1, h2, h3⟩ := insert_tie g b c keep h hn
  rw [hcap] at h3
  exact ⟨g', h1, h2, h3⟩

/-- `remove(key)` = `GEng.remove`: answers whether the key was present; a present key leaves the key set, its
    state becomes `None`, its slab entry joins the vacant chain (the member is dropped by `Slab::remove`) -/
theorem remove_tie (g : StreamGroup) (b : Eng Grp) (k : Nat) (h : WfG g)
    (hocc : g.roleKeys.elems.contains k = true →
      k < g.roleCapacity ∧ k < g.roleSlab.entries ∧ ∃ c, g.roleSlab.member k = some c) :
    ∃ g', StreamGroup.remove g k = some (g', (absS g b).s.keys.contains k) ∧ WfG g' ∧
      core (absS g' b) = core (removeKey (absS g b) k) := by
  obtain ⟨hsl, hsh⟩ := h
  unfold StreamGroup.remove
  by_cases hk : g.roleKeys.elems.contains k = true
  · obtain ⟨hkc, hke, c, hkm⟩ := hocc hk
    have hkl : k < g.roleStates.len := by rw [hsl]; exact hkc
    have hk' : k ∈ g.roleKeys.elems := by simpa using hk
    unroles
    simp [BTree.remove, hk', PVec.idx, PVec.set, hkl, PS.PollState.set_none, Slab.remove, hkm, hke, removeKey,
      BTree.contains]
    refine ⟨⟨?_, ?_⟩, ?_⟩
    · unroles; exact hsl
    · intro j hj; unroles
      by_cases hjk : j = k
      · simp [hjk]
      · simp [hjk]; exact hsh j hj
    · simp only [core, Grp.slabRemove, World.emit, TieDir.absV, GCore.mk.injEq]
      simp
      refine ⟨?_, ?_, ?_⟩ <;> (funext j; by_cases hj : j = k <;> simp [upd, hj, TiePS.abs])
  · have hk' : ¬ k ∈ g.roleKeys.elems := by simpa using hk
    have hfil : List.filter (fun x => !decide (x = k)) g.roleKeys.elems = g.roleKeys.elems := by
      apply List.filter_eq_self.mpr
      intro a ha
      have : a ≠ k := fun h => hk' (h ▸ ha)
      simp [this]
    unroles
    simp [BTree.remove, hk', removeKey, BTree.contains, hfil]
    refine ⟨⟨hsl, hsh⟩, ?_⟩
    simp [core, World.emit, TieDir.absV]

/-- `with_capacity(k)` (and `new()` = `with_capacity(0)`): the empty group with `k` state slots and no parent waker.
    The flavour stores neither flags nor a length: `cap`, `bits`, `count` are the ghost's -/
theorem with_capacity_tie (k : Nat) (b : Eng Grp) :
    ∃ g, StreamGroup.with_capacity k = some g ∧ WfG g ∧ StreamGroup.new = StreamGroup.with_capacity 0 ∧
      core (absS g b) =
        { mode := .direct, cap := b.w.cap, bits := b.w.bits, count := b.w.count, parent := none, capacity := k,
          st := fun _ => .none, member := fun _ => none, vac := fun _ => 0, entries := 0, next := 0, len := 0,
          keys := [], queue := [] } := by
  obtain ⟨r, hr1, hr2⟩ : ∃ r0, DirVec.ReadinessVec.new = some r0 ∧ r0.roleParent = none := ⟨_, rfl, rfl⟩
  unfold StreamGroup.with_capacity
  simp only [WakerVecD.new, hr1]
  refine ⟨_, rfl, ⟨?_, ?_⟩, ?_, ?_⟩
  · unroles; simp [PVec.replicate]
  · intro j _; unroles; simp [PVec.replicate]
  · unfold StreamGroup.new StreamGroup.with_capacity; simp [WakerVecD.new, hr1]
  · unroles
    simp only [core, TieDir.absV, GCore.mk.injEq]
    simp [PVec.replicate, Slab.empty, BTree.empty, TiePS.abs, hr2]

/-- the statement of the std flavour with `mode := .direct`, for a ghost whose world is the model's initial world
    `World.init .direct k …` -/
theorem with_capacity_tie_init (k : Nat) (b : Eng Grp) (sc : Nat → List Step) (hb : b.w = World.init .direct k sc) :
    ∃ g, StreamGroup.with_capacity k = some g ∧ WfG g ∧ StreamGroup.new = StreamGroup.with_capacity 0 ∧
      core (absS g b) =
        { mode := .direct, cap := k, bits := fun i => decide (i < k), count := k, parent := none, capacity := k,
          st := fun _ => .none, member := fun _ => none, vac := fun _ => 0, entries := 0, next := 0, len := 0,
          keys := [], queue := [] } := by
  obtain ⟨g, h1, h2, h3, h4⟩ := with_capacity_tie k b
  refine ⟨g, h1, h2, h3, ?_⟩
  rw [h4, hb]; rfl

end TieGrpSD

/-! ## the `cap` clause of the std statements is false in this flavour (and why the repair is needed) -/

/-- ghost = the model's initial direct world and initial group -/
def TieGrpFD.svGhost (stream : Bool) : Eng Grp := { w := World.init .direct 0 (fun _ => []), s := Grp.init stream false }

/-- `new()` then `reserve(1)`: the translated state read with the same ghost has `cap = 0`, the model has `cap = 1` -/
theorem TieGrpFD.reserve_cap_clause_false :
    ∃ g g', GrpFD.FutureGroup.new = some g ∧ TieGrpFD.WfG g ∧ GrpFD.FutureGroup.reserve g 1 = some (g', ()) ∧
      (core (TieGrpFD.absF g' (TieGrpFD.svGhost false))).cap ≠ (core (GEng.reserve (TieGrpFD.absF g (TieGrpFD.svGhost false)) 1)).cap := by
  refine ⟨_, _, rfl, ⟨rfl, fun _ _ => rfl⟩, rfl, ?_⟩
  decide

/-- the same for `insert` on the empty group (capacity 0 → 1) -/
theorem TieGrpFD.insert_cap_clause_false :
    ∃ g g', GrpFD.FutureGroup.new = some g ∧ TieGrpFD.WfG g ∧ GrpFD.FutureGroup.insert g 100 = some (g', 0) ∧
      (core (TieGrpFD.absF g' (TieGrpFD.svGhost false))).cap ≠
        (core (GEng.insertAt (GEng.grow (TieGrpFD.absF g (TieGrpFD.svGhost false))) 100 true)).cap := by
  refine ⟨_, _, rfl, ⟨rfl, fun _ _ => rfl⟩, rfl, ?_⟩
  decide

theorem TieGrpSD.reserve_cap_clause_false :
    ∃ g g', GrpSD.StreamGroup.new = some g ∧ TieGrpSD.WfG g ∧ GrpSD.StreamGroup.reserve g 1 = some (g', ()) ∧
      (core (TieGrpSD.absS g' (TieGrpFD.svGhost true))).cap ≠ (core (GEng.reserve (TieGrpSD.absS g (TieGrpFD.svGhost true)) 1)).cap := by
  refine ⟨_, _, rfl, ⟨rfl, fun _ _ => rfl⟩, rfl, ?_⟩
  decide

theorem TieGrpSD.insert_cap_clause_false :
    ∃ g g', GrpSD.StreamGroup.new = some g ∧ TieGrpSD.WfG g ∧ GrpSD.StreamGroup.insert g 100 = some (g', 0) ∧
      (core (TieGrpSD.absS g' (TieGrpFD.svGhost true))).cap ≠
        (core (GEng.insertAt (GEng.grow (TieGrpSD.absS g (TieGrpFD.svGhost true))) 100 true)).cap := by
  refine ⟨_, _, rfl, ⟨rfl, fun _ _ => rfl⟩, rfl, ?_⟩
  decide

/-- `with_capacity(1)` read with the ghost `svGhost` (whose world is `World.init .direct 0`): the literal `cap := k`,
    `count := k` of the std statement fail — they are the ghost's -/
theorem TieGrpFD.with_capacity_literal_false :
    ∃ g, GrpFD.FutureGroup.with_capacity 1 = some g ∧
      (core (TieGrpFD.absF g (TieGrpFD.svGhost false))).cap ≠ 1 ∧ (core (TieGrpFD.absF g (TieGrpFD.svGhost false))).count ≠ 1 ∧
      (core (TieGrpFD.absF g (TieGrpFD.svGhost false))).bits 0 ≠ decide (0 < 1) := by
  refine ⟨_, rfl, ?_, ?_, ?_⟩ <;> decide

theorem TieGrpSD.with_capacity_literal_false :
    ∃ g, GrpSD.StreamGroup.with_capacity 1 = some g ∧
      (core (TieGrpSD.absS g (TieGrpFD.svGhost true))).cap ≠ 1 ∧ (core (TieGrpSD.absS g (TieGrpFD.svGhost true))).count ≠ 1 ∧
      (core (TieGrpSD.absS g (TieGrpFD.svGhost true))).bits 0 ≠ decide (0 < 1) := by
  refine ⟨_, rfl, ?_, ?_, ?_⟩ <;> decide

/-! ## non-vacuity: concrete runs of the translated group code, compared with the model in a `World.init .direct …` world -/

/-- the decidable part of a `GCore`: the scalars, and the tables below `n` -/
structure TieGrpFD.SvView where
  mode : Mode
  cap : Nat
  count : Nat
  parent : Option Nat
  capacity : Nat
  entries : Nat
  next : Nat
  len : Nat
  keys : List Nat
  queue : List Nat
  tab : List (Bool × PS × Option Nat × Nat)
  deriving DecidableEq

def TieGrpFD.svView (c : GCore) (n : Nat) : TieGrpFD.SvView :=
  { mode := c.mode, cap := c.cap, count := c.count, parent := c.parent, capacity := c.capacity, entries := c.entries,
    next := c.next, len := c.len, keys := c.keys, queue := c.queue,
    tab := (List.range n).map (fun i => (c.bits i, c.st i, c.member i, c.vac i)) }

open TieGrpFD (svView svGhost reCap) in
/-- `with_capacity(2)`, three inserts (the third grows 2 → 2 + (2·2+1) = 7), removal of the first key, a stale second
    removal: same `core` as the model's `reserve 2; insert; insert; insert; remove #0; remove #0` -/
example :
    let m := GEng.remove (GEng.remove (GEng.insert (GEng.insert (GEng.insert (GEng.reserve (svGhost false) 2) 100) 101) 102) 0) 0
    (do let g ← GrpFD.FutureGroup.with_capacity 2
        let (g, k0) ← GrpFD.FutureGroup.insert g 100
        let (g, k1) ← GrpFD.FutureGroup.insert g 101
        let (g, k2) ← GrpFD.FutureGroup.insert g 102
        let (g, r1) ← GrpFD.FutureGroup.remove g k0
        let (g, r2) ← GrpFD.FutureGroup.remove g k0
        pure ([k0, k1, k2], r1, r2, svView (core (TieGrpFD.absF g (reCap (svGhost false) m.w.cap))) 9))
      = some (m.s.ret, true, false, svView (core m) 9) ∧ m.w.cap = 7 ∧ m.s.capacity = 7 ∧ m.s.keys = [1, 2] := by
  intro m; decide

open TieGrpFD (svView svGhost reCap) in
/-- `new()`, two inserts (capacity 0 → 1 → 4), removal of key 0, one more insert (key 0 is reused), with the queries -/
example :
    let m := GEng.insert (GEng.remove (GEng.insert (GEng.insert (svGhost false) 100) 101) 0) 102
    (do let g ← GrpFD.FutureGroup.new
        let (g, k0) ← GrpFD.FutureGroup.insert g 100
        let c1 ← GrpFD.FutureGroup.capacity_fn g
        let (g, k1) ← GrpFD.FutureGroup.insert g 101
        let (g, r1) ← GrpFD.FutureGroup.remove g k0
        let (g, k2) ← GrpFD.FutureGroup.insert g 102
        let (_, has1) ← GrpFD.FutureGroup.contains_key g 1
        pure (([k0, k1, k2], c1, r1), (has1, ← GrpFD.FutureGroup.len g, ← GrpFD.FutureGroup.is_empty g),
              svView (core (TieGrpFD.absF g (reCap (svGhost false) m.w.cap))) 6))
      = some ((m.s.ret, 1, true), (true, m.s.len, false), svView (core m) 6) ∧ m.s.ret = [0, 1, 0] ∧ m.w.cap = 4 := by
  intro m; decide

open TieGrpFD (svView svGhost reCap) in
example :
    let m := GEng.remove (GEng.remove (GEng.insert (GEng.insert (GEng.insert (GEng.reserve (svGhost true) 2) 100) 101) 102) 0) 0
    (do let g ← GrpSD.StreamGroup.with_capacity 2
        let (g, k0) ← GrpSD.StreamGroup.insert g 100
        let (g, k1) ← GrpSD.StreamGroup.insert g 101
        let (g, k2) ← GrpSD.StreamGroup.insert g 102
        let (g, r1) ← GrpSD.StreamGroup.remove g k0
        let (g, r2) ← GrpSD.StreamGroup.remove g k0
        pure ([k0, k1, k2], r1, r2, svView (core (TieGrpSD.absS g (reCap (svGhost true) m.w.cap))) 9))
      = some (m.s.ret, true, false, svView (core m) 9) ∧ m.w.cap = 7 ∧ m.s.capacity = 7 ∧ m.s.keys = [1, 2] := by
  intro m; decide

open TieGrpFD (svView svGhost reCap) in
/-- `with_capacity(2)`, a `reserve(1)` that does not grow, insert, remove (the group is empty again), insert (key reused) -/
example :
    let m := GEng.insert (GEng.remove (GEng.insert (GEng.reserve (GEng.reserve (svGhost true) 2) 1) 7) 0) 8
    (do let g ← GrpSD.StreamGroup.with_capacity 2
        let (g, _) ← GrpSD.StreamGroup.reserve g 1
        let (g, k0) ← GrpSD.StreamGroup.insert g 7
        let e1 ← GrpSD.StreamGroup.is_empty g
        let (g, r1) ← GrpSD.StreamGroup.remove g k0
        let e2 ← GrpSD.StreamGroup.is_empty g
        let (g, k1) ← GrpSD.StreamGroup.insert g 8
        pure (([k0, k1], e1, r1), (e2, ← GrpSD.StreamGroup.capacity_fn g),
              svView (core (TieGrpSD.absS g (reCap (svGhost true) m.w.cap))) 4))
      = some ((m.s.ret, false, true), (true, 2), svView (core m) 4) ∧ m.s.ret = [0, 0] ∧ m.w.cap = 2 := by
  intro m; decide

#print axioms TieGrpFD.queries_tie
#print axioms TieGrpFD.reserve_tie
#print axioms TieGrpFD.insert_tie
#print axioms TieGrpFD.reserve_tie_exact
#print axioms TieGrpFD.insert_tie_exact
#print axioms TieGrpFD.remove_tie
#print axioms TieGrpFD.with_capacity_tie
#print axioms TieGrpFD.with_capacity_tie_init
#print axioms TieGrpFD.reserve_cap_clause_false
#print axioms TieGrpFD.insert_cap_clause_false
#print axioms TieGrpFD.with_capacity_literal_false
#print axioms TieGrpSD.queries_tie
#print axioms TieGrpSD.reserve_tie
#print axioms TieGrpSD.insert_tie
#print axioms TieGrpSD.reserve_tie_exact
#print axioms TieGrpSD.insert_tie_exact
#print axioms TieGrpSD.remove_tie
#print axioms TieGrpSD.with_capacity_tie
#print axioms TieGrpSD.with_capacity_tie_init
#print axioms TieGrpSD.reserve_cap_clause_false
#print axioms TieGrpSD.insert_cap_clause_false
#print axioms TieGrpSD.with_capacity_literal_false

end Fc
