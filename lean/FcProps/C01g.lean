/-
  C01 (groups) — No lost wake-ups, FutureGroup / StreamGroup.

  Monitor `Mon.holds_C01 n` (Fc/Monitors.lean):
    * `c01Boundaries`: at every operation boundary (poll, wake-up, insert, remove, query, drop) at
      which the group is alive and its last poll returned Pending — `quiet`: every child c < n whose
      last result was Pending, which was not released (`gone`: completed, removed or dropped with the
      group) and whose latest waker was invoked since that poll began ("owes") implies that the task
      waker of the most recent top-level poll has been invoked since that poll began;
    * the same at the end of the trace;
    * `c01NoPanic`: no waker invocation panics, and a poll only unwinds if a member panicked in it.

  Model: `Fc/Groups.lean` — the `group` policy (early `!any_ready → Pending`, scan of `keys`, members
  in slab slots, `key_removal_queue`), `insert` (grow + arm the slot), `remove`, `reserve`, `extend`,
  the queries; both waker strategies (std: sub-wakers + readiness bits with an exact ready count
  across `resize`; direct: alloc-only build).

  Hypotheses: `c.kindOk` (a future never yields / ends, a stream never resolves — Rust's types) is
  necessary: see `C01_group_needs_kindOk` below.  `Case.insertsFresh` (a member id is inserted at
  most once) is what the proof uses to tie a member to its slot.
-/
import FcLemmas.GrpFinal
import Fc.Holds

namespace Fc
open Mon

/-- the statement without the kind hypothesis — it is FALSE (`C01_group_needs_kindOk`) -/
def C01_no_lost_wake_group_statement : Prop :=
  ∀ (c : Case), c.fam.isGroup = true → Case.insertsFresh c → ∀ n : Nat, holds_C01 n c.trace = true

/-- C01 for FutureGroup and StreamGroup (plain and keyed), both waker strategies: every member
    script (Pending steps with wake-ups of any handed-out waker of any member during the poll —
    current, stale, of removed members —, outputs / items / end of stream, panics), every history of
    inserts, removes, reserves, extends, queries, polls with arbitrary task wakers, wake-ups between
    polls (also after removal, after completion, after the drop) and the drop. -/
theorem C01_no_lost_wake_group (c : Case) (hg : c.fam.isGroup = true) (hk : c.kindOk)
    (hw : Case.insertsFresh c) (n : Nat) : holds_C01 n c.trace = true :=
  (G.group_holds c hg hk hw n).1

/-! ### why `kindOk` is needed

  A FutureGroup member that answers `Ready(None)`-like (`fin`, impossible for a future) is queued in
  `key_removal_queue`; a later `Ready` exit leaves the queue unflushed; the freed key is reused by a
  new member, and the next complete scan flushes the stale queue entry — removing the NEW member's
  key from `keys`.  That member is never polled again: its wake-up is lost. -/
def C01g_badKind : Case :=
  { fam := .futGroup, mode := .std, keyed := false, n := 4,
    scripts := fun c => if c = 0 then [⟨.fin, []⟩] else if c = 1 then [⟨.ready true 7, []⟩] else [],
    ops := [.insert 0, .insert 1, .poll 1, .insert 2, .insert 3, .poll 2, .fire 3 0, .poll 3,
            .fire 3 0, .poll 4] }

example : C01g_badKind.fam.isGroup = true := by decide
example : Case.insertsFresh C01g_badKind := by unfold Case.insertsFresh; decide
example : holds_C01 4 C01g_badKind.trace = false := by decide
example : holds_C01 4 ({ C01g_badKind with mode := .direct } : Case).trace = false := by decide
example : holds_C01 4 ({ C01g_badKind with fam := .strGroup } : Case).trace = false := by decide

theorem C01_group_needs_kindOk : ¬ C01_no_lost_wake_group_statement := by
  intro h
  have := h C01g_badKind (by decide) (by unfold Case.insertsFresh; decide) 4
  revert this
  decide

/-! ### non-vacuity

  A std-mode keyed FutureGroup: member 0 wakes itself from inside its first poll (bit 0 set again,
  task woken: `woke 1`); member 1 is removed and its stale waker fires afterwards (`woke 2`; the bit
  of the vacant slot 1 is set); member 2 is inserted into the reused slot 1 and polled at once;
  members 3, 4, 5 grow the group across the capacity boundary 4 → 13 while 0 and 2 are pending;
  wake-ups of 2 and 0 lead to their completion; the drop; a wake-up after the drop. -/
def C01g_example : Case :=
  { fam := .futGroup, mode := .std, keyed := true, n := 6,
    scripts := fun c => if c = 0 then [⟨.pend, [(0, 0)]⟩, ⟨.pend, []⟩, ⟨.ready true 10, []⟩]
                        else if c = 2 then [⟨.pend, []⟩, ⟨.ready true 12, []⟩] else [],
    ops := [.insert 0, .insert 1, .poll 1, .poll 2, .remove 1, .fire 1 0, .insert 2, .poll 3,
            .insert 3, .insert 4, .insert 5, .qCapacity, .fire 2 0, .poll 4, .fire 0 0, .poll 5,
            .poll 6, .drop, .fire 3 0] }

example : C01g_example.fam.isGroup = true := by decide
example : Case.insertsFresh C01g_example := by unfold Case.insertsFresh; decide
example : C01g_example.kindOk := by
  intro ch st h
  unfold C01g_example at h
  simp only at h
  split at h
  · simp at h; rcases h with rfl | rfl | rfl <;> rfl
  · split at h
    · simp at h; rcases h with rfl | rfl <;> rfl
    · simp at h
/-- the self-wake inside the first poll, the stale wake after removal, the wakes of 2 and 0, and the
    wake after the drop: five `woke` events, with the task wakers of the respective latest polls -/
example : C01g_example.run.filter (fun e => match e with | .woke _ => true | _ => false)
    = [.woke 1, .woke 2, .woke 3, .woke 4, .woke 6] := by decide
/-- slot 1 is reused by member 2, which is polled with the sub-waker of slot 1 -/
example : C01g_example.run.contains (.inserted 2 1) = true ∧
    C01g_example.run.contains (.childBegin 2 1 (.sub 1)) = true := by decide
/-- growth across the capacity boundary -/
example : C01g_example.run.contains (.answer 3 13) = true := by decide
example : C01g_example.run.contains (.pollEnd (.some 1 [12])) = true ∧
    C01g_example.run.contains (.pollEnd (.some 0 [10])) = true := by decide
example : (C01g_example.run.filter (fun e => e == .pollEnd .pending)).length = 4 := by decide

/-- the monitor rejects a lost wake-up: member 0 waits, its sub-waker fires, nobody wakes the task
    (trace newest first) -/
example : holds_C01 1
    [.pollBegin 2, .fired 0 0 (some (.sub 0)), .pollEnd .pending, .childEnd 0 .pend,
     .childBegin 0 0 (.sub 0), .pollBegin 1, .inserted 0 0] = false := by decide
/-- … accepts it when the task is woken … -/
example : holds_C01 1
    [.pollBegin 2, .woke 1, .fired 0 0 (some (.sub 0)), .pollEnd .pending, .childEnd 0 .pend,
     .childBegin 0 0 (.sub 0), .pollBegin 1, .inserted 0 0] = true := by decide
/-- … or when the member was removed before (`gone`) … -/
example : holds_C01 1
    [.pollBegin 2, .fired 0 0 (some (.sub 0)), .removed 0 true, .childDropped 0, .pollEnd .pending,
     .childEnd 0 .pend, .childBegin 0 0 (.sub 0), .pollBegin 1, .inserted 0 0] = true := by decide
/-- … and rejects a panicking wake-up -/
example : holds_C01 1 [.wakePanic, .fired 0 0 (some (.sub 0))] = false := by decide

end Fc

#print axioms Fc.C01_no_lost_wake_group
#print axioms Fc.C01_group_needs_kindOk
