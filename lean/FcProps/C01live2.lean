/-
  C01 (second sentence) — liveness of `race`, `try_join` and `race_ok` under a wake-only executor.

  Setting (Fc/Exec.lean, as in FcProps/C01live.lean): the executor polls the combinator — with a
  FRESH task waker on every poll — only if the task has been woken since the previous poll began, or
  was never polled (`Exec.shouldPoll`).  Otherwise the environment lets the first waiting child
  (latest answer `Pending`, scripted steps left: `Exec.firstWaiting`) make progress by invoking the
  waker that child was handed in its most recent poll (`e.fire c 0`).  `Exec.runFor P n k` runs up to
  `k` such rounds.  A well-behaved future (`Exec.futureScript`) answers `Pending` any number of times,
  each time with arbitrary in-poll wake-ups of arbitrary (also stale) wakers of arbitrary children,
  then `Ready` (`Ok` or `Err`).

  Theorems: for every number of children (at least one for race: a race over nothing is `Pending`
  for ever), all well-behaved children, every model of the family and both waker strategies (race
  and race_ok always hand the caller's waker through: `Fam.modeOf`), the run reaches the
  combinator's final `Ready` within `3 * stepsLeft + 1` rounds: no schedule of this executor leaves
  the combinator pending with no wake-up outstanding.  race: `Ready [v]`; try_join and race_ok:
  `Ready ok vals` with either `ok` (all `Ok` / first `Err`, resp. first `Ok` / all `Err`).

  The proof (FcLemmas/Live2.lean) is the join proof (FcLemmas/LiveRun.lean) with the policy
  abstracted to `Live2.FutLike`: C01 (`quiet`) ⇒ after a prod the next round polls; C20 (`c20At`) ⇒
  that poll consumes a step of the prodded child, and after a `Pending` every unresolved child is
  waiting; the functional invariant of the family (C06 / C05 / C07, FcLemmas/Live2Inst.lean) ⇒ a
  `Pending` leaves some child unresolved, and no child is polled after it resolved.
-/
import FcLemmas.Live2Inst
import Fc.Holds

namespace Fc
open Mon

/-- liveness of race: the run resolves to one value within `3 * stepsLeft + 1` rounds -/
theorem C01_race_resolves (m : Mode) (n : Nat) (hn : 0 < n) (scripts : Nat → List Step)
    (hs : ∀ c, c < n → Exec.futureScript (scripts c) = true) :
    ∃ k, k ≤ 3 * Exec.stepsLeft n (FEng.init .race m n scripts) + 1 ∧
      ∃ v, Mon.lastOut (Exec.runFor Fc.race n k (FEng.init .race m n scripts)).w.trace = some (.ready true [v]) := by
  obtain ⟨k, hk, ok, vals, hv, hok, v, hvals⟩ :=
    Live2.resolves_of_lb (Live2.futLike_race n hn) _ (Live2.lb_init_race m n scripts hs) rfl
  subst hok; subst hvals
  exact ⟨k, hk, v, hv⟩

/-- liveness of try_join (array/Vec model and tuple model) -/
theorem C01_try_join_resolves (slice : Bool) (m : Mode) (n : Nat) (scripts : Nat → List Step)
    (hs : ∀ c, c < n → Exec.futureScript (scripts c) = true) :
    ∃ k, k ≤ 3 * Exec.stepsLeft n (FEng.init (if slice then .tryJoinSlice else .tryJoinTuple) m n scripts) + 1 ∧
      ∃ ok vals, Mon.lastOut (Exec.runFor (if slice then Fc.tryJoinSlice else Fc.tryJoinTuple) n k
                (FEng.init (if slice then .tryJoinSlice else .tryJoinTuple) m n scripts)).w.trace
              = some (.ready ok vals) := by
  cases slice
  · simp only [Bool.false_eq_true, if_false]
    obtain ⟨k, hk, ok, vals, hv, _⟩ :=
      Live2.resolves_of_lb (Live2.futLike_tryJoinTuple n) _ (Live2.lb_init_tryJoinTuple m n scripts hs) rfl
    exact ⟨k, hk, ok, vals, hv⟩
  · simp only [if_true]
    obtain ⟨k, hk, ok, vals, hv, _⟩ :=
      Live2.resolves_of_lb (Live2.futLike_tryJoinSlice n) _ (Live2.lb_init_tryJoinSlice m n scripts hs) rfl
    exact ⟨k, hk, ok, vals, hv⟩

/-- liveness of race_ok (array, Vec and tuple variants) -/
theorem C01_race_ok_resolves (fam : Fam) (hf : fam = .raceOkArr ∨ fam = .raceOkVec ∨ fam = .raceOkTup)
    (m : Mode) (n : Nat) (scripts : Nat → List Step)
    (hs : ∀ c, c < n → Exec.futureScript (scripts c) = true) :
    ∃ k, k ≤ 3 * Exec.stepsLeft n (FEng.init fam m n scripts) + 1 ∧
      ∃ ok vals, Mon.lastOut (Exec.runFor fam.policy n k (FEng.init fam m n scripts)).w.trace = some (.ready ok vals) := by
  rcases hf with rfl | rfl | rfl
  · obtain ⟨k, hk, ok, vals, hv, _⟩ :=
      Live2.resolves_of_lb (Live2.futLike_raceOk false false conc_raceOkArr n) _
        (Live2.lb_init_raceOkArr m n scripts hs) rfl
    exact ⟨k, hk, ok, vals, hv⟩
  · obtain ⟨k, hk, ok, vals, hv, _⟩ :=
      Live2.resolves_of_lb (Live2.futLike_raceOk false true conc_raceOkVec n) _
        (Live2.lb_init_raceOkVec m n scripts hs) rfl
    exact ⟨k, hk, ok, vals, hv⟩
  · obtain ⟨k, hk, ok, vals, hv, _⟩ :=
      Live2.resolves_of_lb (Live2.futLike_raceOk true false conc_raceOkTup n) _
        (Live2.lb_init_raceOkTup m n scripts hs) rfl
    exact ⟨k, hk, ok, vals, hv⟩

/-! ### on the bound

  As for join, the factor 3 is needed for try_join in std mode (a child whose every `Pending` step
  invokes the stale waker of an already resolved sibling costs three rounds per step: a poll that
  polls nothing, the prod, the productive poll): the bound `2 * stepsLeft + 2` is false. -/

def C01_try_join_resolves_bound2_statement : Prop :=
  ∀ (slice : Bool) (m : Mode) (n : Nat) (scripts : Nat → List Step),
    (∀ c, c < n → Exec.futureScript (scripts c) = true) →
    ∃ k, k ≤ 2 * Exec.stepsLeft n (FEng.init (if slice then .tryJoinSlice else .tryJoinTuple) m n scripts) + 2 ∧
      ∃ ok vals, Mon.lastOut (Exec.runFor (if slice then Fc.tryJoinSlice else Fc.tryJoinTuple) n k
                (FEng.init (if slice then .tryJoinSlice else .tryJoinTuple) m n scripts)).w.trace
              = some (.ready ok vals)

/-- child 0 resolves at once; each of child 1's seven `Pending` steps invokes child 0's stale waker -/
def C01live2_slow : Nat → List Step := fun c =>
  if c = 0 then [⟨.ready true 10, []⟩]
  else if c = 1 then
    [⟨.pend, [(0, 0)]⟩, ⟨.pend, [(0, 0)]⟩, ⟨.pend, [(0, 0)]⟩, ⟨.pend, [(0, 0)]⟩, ⟨.pend, [(0, 0)]⟩,
     ⟨.pend, [(0, 0)]⟩, ⟨.pend, [(0, 0)]⟩, ⟨.ready true 11, []⟩]
  else []

set_option maxRecDepth 100000 in
/-- 9 scripted steps, but after `2 * 9 + 2 = 20` rounds the tuple try_join (std mode) is still pending -/
theorem C01_try_join_resolves_bound2_false : ¬ C01_try_join_resolves_bound2_statement := by
  intro h
  have h1 := h false .std 2 C01live2_slow (by decide)
  simp only [Bool.false_eq_true, if_false] at h1
  obtain ⟨k, hk, ok, vals, hv⟩ := h1
  have hS : Exec.stepsLeft 2 (FEng.init .tryJoinTuple .std 2 C01live2_slow) = 9 := by decide
  rw [hS] at hk
  have hall : ∀ k, k ≤ 20 → Exec.finalOut (Mon.lastOut
      (Exec.runFor Fc.tryJoinTuple 2 k (FEng.init .tryJoinTuple .std 2 C01live2_slow)).w.trace) = false := by
    decide
  have := hall k (by omega)
  rw [hv] at this
  exact Bool.noConfusion this

/-! ### non-vacuity -/

/-- race of 3: child 1 wins with its third answer; nobody wakes anything on its own, so the
    environment has to prod twice (child 0, the first waiting child, both times) -/
def C01live2_race : Nat → List Step := fun c =>
  if c = 0 then [⟨.pend, []⟩, ⟨.pend, []⟩, ⟨.pend, []⟩, ⟨.ready true 10, []⟩]
  else if c = 1 then [⟨.pend, []⟩, ⟨.pend, []⟩, ⟨.ready true 11, []⟩]
  else if c = 2 then [⟨.pend, []⟩, ⟨.pend, []⟩, ⟨.pend, []⟩, ⟨.pend, []⟩, ⟨.ready true 12, []⟩] else []

example : ∀ c, c < 3 → Exec.futureScript (C01live2_race c) = true := by decide
example : Exec.stepsLeft 3 (FEng.init .race .std 3 C01live2_race) = 12 := by decide

set_option maxRecDepth 100000 in
/-- 3 polls and 2 prods: pending after 4 rounds, resolved by the 5th -/
example : Mon.lastOut (Exec.runFor Fc.race 3 4 (FEng.init .race .std 3 C01live2_race)).w.trace
      = some .pending ∧
    Mon.lastOut (Exec.runFor Fc.race 3 5 (FEng.init .race .std 3 C01live2_race)).w.trace
      = some (.ready true [11]) := by decide
set_option maxRecDepth 100000 in
example : Exec.pollCount (Exec.runFor Fc.race 3 30 (FEng.init .race .std 3 C01live2_race)).w.trace = 3 ∧
    ((Exec.runFor Fc.race 3 30 (FEng.init .race .std 3 C01live2_race)).w.trace.filter
      (fun e => match e with | .fired _ _ _ => true | _ => false)).length = 2 := by decide

/-- `0 < n` is needed: a race over zero futures answers `Pending`, and the executor is stuck -/
example : Mon.lastOut (Exec.runFor Fc.race 0 5 (FEng.init .race .std 0 (fun _ => []))).w.trace
      = some .pending ∧
    (Exec.round Fc.race 0 (Exec.runFor Fc.race 0 5 (FEng.init .race .std 0 (fun _ => [])))).isNone = true := by
  decide

/-- try_join of 3: the middle child wakes its own waker from inside its first poll, then fails -/
def C01live2_tryJoin : Nat → List Step := fun c =>
  if c = 0 then [⟨.pend, []⟩, ⟨.ready true 10, []⟩]
  else if c = 1 then [⟨.pend, [(1, 0)]⟩, ⟨.ready false 7, []⟩]
  else if c = 2 then [⟨.pend, []⟩, ⟨.pend, []⟩, ⟨.ready true 12, []⟩] else []

example : ∀ c, c < 3 → Exec.futureScript (C01live2_tryJoin c) = true := by decide

set_option maxRecDepth 100000 in
/-- tuple model, std mode: the second poll (no prod needed) polls only child 1 and returns its error -/
example : (Exec.runFor Fc.tryJoinTuple 3 30 (FEng.init .tryJoinTuple .std 3 C01live2_tryJoin)).w.trace.head?
      = some (.pollEnd (.ready false [7])) ∧
    Exec.pollCount (Exec.runFor Fc.tryJoinTuple 3 30 (FEng.init .tryJoinTuple .std 3 C01live2_tryJoin)).w.trace
      = 2 := by decide
set_option maxRecDepth 100000 in
/-- array/Vec model, direct mode -/
example : (Exec.runFor Fc.tryJoinSlice 3 30 (FEng.init .tryJoinSlice .direct 3 C01live2_tryJoin)).w.trace.head?
      = some (.pollEnd (.ready false [7])) := by decide

/-- the same children, but the middle one succeeds: `Ok` with every value at its position -/
def C01live2_tryJoinOk : Nat → List Step := fun c =>
  if c = 0 then [⟨.pend, []⟩, ⟨.ready true 10, []⟩]
  else if c = 1 then [⟨.pend, [(1, 0)]⟩, ⟨.ready true 11, []⟩]
  else if c = 2 then [⟨.pend, []⟩, ⟨.pend, []⟩, ⟨.ready true 12, []⟩] else []

set_option maxRecDepth 100000 in
example : (Exec.runFor Fc.tryJoinTuple 3 30 (FEng.init .tryJoinTuple .std 3 C01live2_tryJoinOk)).w.trace.head?
      = some (.pollEnd (.ready true [10, 11, 12])) := by decide

/-- race_ok of 2: child 0 fails in the first poll, child 1 in the second (after one prod) -/
def C01live2_raceOk : Nat → List Step := fun c =>
  if c = 0 then [⟨.ready false 5, []⟩]
  else if c = 1 then [⟨.pend, []⟩, ⟨.ready false 6, []⟩] else []

example : ∀ c, c < 2 → Exec.futureScript (C01live2_raceOk c) = true := by decide

set_option maxRecDepth 100000 in
/-- tuple variant: `Err` with both errors, after 2 polls and 1 prod -/
example : Mon.lastOut (Exec.runFor (Fc.raceOk true false) 2 2 (FEng.init .raceOkTup .std 2 C01live2_raceOk)).w.trace
      = some .pending ∧
    (Exec.runFor (Fc.raceOk true false) 2 3 (FEng.init .raceOkTup .std 2 C01live2_raceOk)).w.trace.head?
      = some (.pollEnd (.ready false [5, 6])) := by decide
set_option maxRecDepth 100000 in
example : (Exec.runFor (Fc.raceOk false true) 2 30 (FEng.init .raceOkVec .std 2 C01live2_raceOk)).w.trace.head?
      = some (.pollEnd (.ready false [5, 6])) ∧
    (Exec.runFor (Fc.raceOk false false) 2 30 (FEng.init .raceOkArr .std 2 C01live2_raceOk)).w.trace.head?
      = some (.pollEnd (.ready false [5, 6])) := by decide

/-- … and if child 1 succeeds instead: `Ok 6` -/
def C01live2_raceOkOk : Nat → List Step := fun c =>
  if c = 0 then [⟨.ready false 5, []⟩]
  else if c = 1 then [⟨.pend, []⟩, ⟨.ready true 6, []⟩] else []

set_option maxRecDepth 100000 in
example : (Exec.runFor (Fc.raceOk true false) 2 30 (FEng.init .raceOkTup .std 2 C01live2_raceOkOk)).w.trace.head?
      = some (.pollEnd (.ready true [6])) := by decide

/-- the hypothesis is needed: a child that stays Pending for ever leaves the executor with nothing
    to do while the race is pending -/
def C01live2_stuck : Nat → List Step := fun c =>
  if c = 0 then [⟨.pend, []⟩] else if c = 1 then [⟨.pend, []⟩] else []

example : Exec.futureScript (C01live2_stuck 0) = false := by decide
set_option maxRecDepth 100000 in
example : Mon.lastOut (Exec.runFor Fc.race 2 30 (FEng.init .race .std 2 C01live2_stuck)).w.trace
      = some .pending ∧
    (Exec.round Fc.race 2
      (Exec.runFor Fc.race 2 30 (FEng.init .race .std 2 C01live2_stuck))).isNone = true := by
  decide

end Fc

#print axioms Fc.C01_race_resolves
#print axioms Fc.C01_try_join_resolves
#print axioms Fc.C01_race_ok_resolves
#print axioms Fc.C01_try_join_resolves_bound2_false
