/-
  Kernel tie, groups, alloc-only build (no `std` feature) — the POLL function of `StreamGroup`.
  `StreamGroup::poll_next_inner` of FcGen/KSrcGrpD.lean (namespace GrpSD: the text of stream_group.rs compiled against
  src/utils/wakers/vec/no_std.rs — no flags, `clear_ready` answers `true`, `any_ready` is `true`, `set_ready` does
  nothing, `WakerVec::get` hands out the stored parent waker) refines one `Eng.poll group` of the model in `direct`
  mode (the reading `TieGrpSD.absS`, FcProps/KTieGrpDir.lean).  Same statement and same proof structure as the std
  flavour (FcProps/KTieGrpPoll.lean, namespace TieGrpS); the proof is FcLemmas/KTieGrpPollDS.lean.

  `poll_tie`: from a well-formed group (`WfG`) whose keys are occupied slab entries below the capacity (`GoodKeys`),
  whose members are named by their keys (`SlotNamed`, see below) and answer like streams without panicking, one call
  of the translated function with task waker `w`
    * does not panic,
    * returns the `Poll` value that corresponds to the model's outcome (`outcomeOf`),
    * leaves a group and an environment whose reading is the model's state after `Eng.poll group · w`: same mode,
      parent waker, capacity, states, slab, keys, queue — and the same (unused) `cap` / `bits` / `count`, which the
      reading takes from the environment and the translated environment never touches — (`core`), same remaining
      scripts, same handed-out wakers (every one the caller's own `Wk.par w`), the same event trace (the model's
      additional `pollEnd` is logged by the caller),
    * and preserves `WfG` and `GoodKeys`.
  `poll_tie_inv` returns in addition what the next poll needs again: `SlotNamed g'` and `StreamSteps env'`.
  No hypothesis on the wakers handed out earlier (`HandedOk` of the std flavour) is needed: invoking a `.par` waker
  only logs `woke`, a stale `.sub` waker does nothing on either side.

  ONE CHANGE with respect to the statement as first written (`poll_tie_statement_v0` below keeps it): the new
  hypothesis `SlotNamed g : ∀ k c, member k = some c → c = k`.  Without it the statement is false (`v0_false`): the
  slot annotation of `childBegin` for a member that is handed a `.par` waker is `Rs.slotOf (.par _) c = c` in the
  environment (Fc/RustEnv.lean: the member's own number — the convention of the fixed-children families, where child
  `c` sits in slot `c`), whereas the model logs the KEY of the member (`World.pollChild c k`).  A group built by
  `insert 200; insert 201` (keys 0, 1) gives `childBegin 200 200 (par 1)` in the translated environment against
  `childBegin 200 0 (par 1)` in the model; everything else of the trace, and every other clause, agrees.
-/
import FcLemmas.KTieGrpPollDS

namespace Fc
open Rs Src

namespace TieGrpSD
open GrpSD

/-- `poll_tie` together with what the next poll needs again (the added hypothesis `SlotNamed`, and the assumption on
    the scripted members for the environment that is left), so that the theorem can be chained over a sequence of
    polls -/
theorem poll_tie_inv (g : StreamGroup) (b : Eng Grp) (w : Nat)
    (hw : WfG g) (hk : GoodKeys g) (hn : SlotNamed g) (hf : StreamSteps b.w)
    (hst : b.s.stream = true) (hd : b.s.dead = false) :
    ∃ g' env' ret,
      StreamGroup.poll_next_inner g w ((absS g b).w.emit (.pollBegin w)) = some (g', env', ret) ∧
      WfG g' ∧ GoodKeys g' ∧
      core (absS g' b) = core (Eng.poll group (absS g b) w) ∧
      env'.scripts = (Eng.poll group (absS g b) w).w.scripts ∧
      env'.handed = (Eng.poll group (absS g b) w).w.handed ∧
      (Eng.poll group (absS g b) w).w.trace = .pollEnd (outcomeOf b.s.keyed ret) :: env'.trace ∧
      SlotNamed g' ∧ StreamSteps env' :=
  poll_tie_main g b w hw hk hn hf hst hd

theorem poll_tie : poll_tie_statement := by
  intro g b w hw hk hn hf hst hd
  obtain ⟨g', env', ret, h1, h2, h3, h4, h5, h6, h7, _⟩ := poll_tie_inv g b w hw hk hn hf hst hd
  exact ⟨g', env', ret, h1, h2, h3, h4, h5, h6, h7⟩

/-- the statement as first written: no assumption on the names of the members -/
def poll_tie_statement_v0 : Prop :=
  ∀ (g : StreamGroup) (b : Eng Grp) (w : Nat),
    WfG g → GoodKeys g → StreamSteps b.w → b.s.stream = true → b.s.dead = false →
    ∃ g' env' ret,
      StreamGroup.poll_next_inner g w ((absS g b).w.emit (.pollBegin w)) = some (g', env', ret) ∧
      WfG g' ∧ GoodKeys g' ∧
      core (absS g' b) = core (Eng.poll group (absS g b) w) ∧
      env'.scripts = (Eng.poll group (absS g b) w).w.scripts ∧
      env'.handed = (Eng.poll group (absS g b) w).w.handed ∧
      (Eng.poll group (absS g b) w).w.trace = .pollEnd (outcomeOf b.s.keyed ret) :: env'.trace

/-! ### non-vacuity: a concrete run (two polls of a group of two streams), model and translation side by side -/

/-- member 0 yields 5 (waking the other member's latest waker — none yet) and then ends; member 1 is pending once
    (waking itself), then ends -/
def exScripts : Nat → List Step := fun c =>
  if c = 0 then [⟨.item 5, [(1, 0)]⟩, ⟨.fin, []⟩]
  else if c = 1 then [⟨.pend, [(1, 0)]⟩, ⟨.fin, []⟩] else []

/-- capacity 2, members 0 and 1 under the keys 0 and 1 -/
def exG : Option StreamGroup := do
  let g ← StreamGroup.with_capacity 2
  let (g, _) ← StreamGroup.insert g 0
  let (g, _) ← StreamGroup.insert g 1
  pure g

/-- the world of the alloc-only build: `direct` mode; `cap` = 3 (so `bits` / `count` are not trivial): the flavour never
    looks at these fields and never changes them -/
def exB : Eng Grp := { w := World.init .direct 3 exScripts, s := Grp.init true true }

theorem exG_some : exG.isSome = true := by rfl

/-- the concrete group satisfies the structural hypotheses of `poll_tie` … -/
theorem ex_wf (g : StreamGroup) (h : exG = some g) : WfG g ∧ GoodKeys g ∧ SlotNamed g := by
  have h' : some g = exG := h.symm
  simp [exG, StreamGroup.with_capacity, StreamGroup.insert, WakerVecD.new, DirVec.ReadinessVec.new,
    StreamGroup.len, Slab.insert, Slab.empty, BTree.insert, BTree.empty, BTree.insertSorted, PVec.idx, PVec.set,
    PVec.replicate, PS.PollState.set_pending, DirVec.ReadinessVec.set_ready,
    uadd, StreamGroup.reserve] at h'
  subst h'
  refine ⟨⟨rfl, ?_⟩, ⟨by decide, ?_, by decide, rfl, rfl⟩, ?_⟩
  · intro j hj
    have hj' : 2 ≤ j := hj
    show (if j = 1 then PS.PollState.pending else if j = 0 then PS.PollState.pending else PS.PollState.none_) = _
    rw [if_neg (by omega), if_neg (by omega)]
  · intro k hk
    have hk' : k ∈ [0, 1] := hk
    simp at hk'
    rcases hk' with rfl | rfl
    · exact ⟨by decide, by decide, 0, rfl⟩
    · exact ⟨by decide, by decide, 1, rfl⟩
  · intro k c hm
    have hm' : (if k = 1 then some 1 else if k = 0 then some 0 else none) = some c := hm
    split at hm'
    · next h1 => cases hm'; exact h1.symm
    · split at hm'
      · next h0 => cases hm'; exact h0.symm
      · cases hm'

theorem ex_env : StreamSteps exB.w := by
  intro c st hm
  have hm' : st ∈ exScripts c := hm
  unfold exScripts at hm'
  split at hm'
  · simp at hm'; rcases hm' with rfl | rfl
    · exact Or.inr (Or.inr ⟨_, rfl⟩)
    · exact Or.inr (Or.inl rfl)
  · split at hm'
    · simp at hm'; rcases hm' with rfl | rfl
      · exact Or.inl rfl
      · exact Or.inr (Or.inl rfl)
    · cases hm'

/-- the hypotheses of `poll_tie` hold for the concrete group, so it applies … -/
example (g : StreamGroup) (h : exG = some g) :
    ∃ g' env' ret, StreamGroup.poll_next_inner g 1 ((absS g exB).w.emit (.pollBegin 1)) = some (g', env', ret) ∧
      core (absS g' exB) = core (Eng.poll group (absS g exB) 1) ∧
      (Eng.poll group (absS g exB) 1).w.trace = .pollEnd (outcomeOf exB.s.keyed ret) :: env'.trace := by
  obtain ⟨g', env', ret, h1, _, _, h4, _, _, h7⟩ :=
    poll_tie g exB 1 (ex_wf g h).1 (ex_wf g h).2.1 (ex_wf g h).2.2 ex_env rfl rfl
  exact ⟨g', env', ret, h1, h4, h7⟩

/-- … and the conclusion by evaluation.  poll 1 (task waker 1): member 0 yields 5 — `Ready(Some((0, 5)))`, the loop
    breaks, member 1 is not polled; poll 2 (task waker 2): member 0 ends and leaves through the removal queue, member 1
    is pending and wakes itself through the waker it was just handed, `Wk.par 2` (`woke 2`) — `Pending`.  After each
    poll the translation's trace + `pollEnd` is the model's trace; keys / len / queue / parent waker agree, the unused
    `cap` / `count` of the environment are still 3 on both sides, and the handed-out wakers are the task wakers -/
example :
    exG.bind (fun g =>
      (StreamGroup.poll_next_inner g 1 ((absS g exB).w.emit (.pollBegin 1))).bind (fun (g1, env1, ret1) =>
        let m1 := Eng.poll group (absS g exB) 1
        let b1 : Eng Grp := { w := env1, s := m1.s }
        (StreamGroup.poll_next_inner g1 2 ((absS g1 b1).w.emit (.pollBegin 2))).map (fun (g2, env2, ret2) =>
          let m2 := Eng.poll group (absS g1 b1) 2
          (decide (m1.w.trace = Ev.pollEnd (outcomeOf true ret1) :: env1.trace),
           decide (ret1 matches .ready (some (0, 5))),
           decide (m2.w.trace = Ev.pollEnd (outcomeOf true ret2) :: env2.trace),
           decide (ret2 matches .pending),
           decide ((absS g2 b1).s.keys = m2.s.keys), m2.s.keys, decide ((absS g2 b1).s.len = m2.s.len), m2.s.len,
           decide ((absS g2 b1).s.queue = m2.s.queue), decide ((absS g2 b1).w.parent = m2.w.parent), m2.w.parent,
           decide ((absS g2 b1).w.count = m2.w.count), m2.w.count, m2.w.cap,
           decide (env2.handed 1 = m2.w.handed 1), m2.w.handed 1, m2.w.handed 0,
           m2.w.trace.take 4))))
      = some (true, true, true, true, true, [1], true, 1, true, true, some 2, true, 3, 3,
              true, [.par 2], [.par 2, .par 1],
              [.pollEnd .pending, .childEnd 1 .pend, .woke 2, .fired 1 0 (some (.par 2))]) := by rfl

/-- a second run on the same group, the `Keyed` view switched off and both members ending in the same poll: the
    removal queue has two keys, `done_count == stream_count` — `Ready(None)`, an empty group is left; the next poll
    of the empty group answers `Ready(None)` at once -/
def exScripts2 : Nat → List Step := fun c => if c = 0 then [⟨.fin, []⟩] else if c = 1 then [⟨.fin, [(0, 0)]⟩] else []

def exB2 : Eng Grp := { w := World.init .direct 0 exScripts2, s := Grp.init true false }

example :
    exG.bind (fun g =>
      (StreamGroup.poll_next_inner g 7 ((absS g exB2).w.emit (.pollBegin 7))).bind (fun (g1, env1, ret1) =>
        let m1 := Eng.poll group (absS g exB2) 7
        let b1 : Eng Grp := { w := env1, s := m1.s }
        (StreamGroup.poll_next_inner g1 8 ((absS g1 b1).w.emit (.pollBegin 8))).map (fun (_, env2, ret2) =>
          let m2 := Eng.poll group (absS g1 b1) 8
          (decide (m1.w.trace = Ev.pollEnd (outcomeOf false ret1) :: env1.trace),
           decide (ret1 matches .ready none),
           decide ((absS g1 exB2).s.keys = m1.s.keys), m1.s.keys, decide ((absS g1 exB2).s.len = m1.s.len), m1.s.len,
           decide ((absS g1 exB2).s.queue = m1.s.queue), m1.s.queue, env1.trace.length,
           decide (m2.w.trace = Ev.pollEnd (outcomeOf false ret2) :: env2.trace),
           decide (ret2 matches .ready none), decide (env2.trace.length = env1.trace.length + 1)))))
      = some (true, true, true, [], true, 0, true, [], 9, true, true, true) := by rfl

/-! ### the counterexample to the statement as first written (the change of the header) -/

/-- members 200 and 201 under the keys 0 and 1: well-formed, good keys — but not named by their keys -/
def badG : Option StreamGroup := do
  let g ← StreamGroup.with_capacity 2
  let (g, _) ← StreamGroup.insert g 200
  let (g, _) ← StreamGroup.insert g 201
  pure g

def badB : Eng Grp :=
  { w := World.init .direct 0 (fun c => if c = 200 then [⟨.item 5, []⟩] else []), s := Grp.init true true }

theorem badG_some : badG.isSome = true := by rfl

theorem bad_wf (g : StreamGroup) (h : badG = some g) : WfG g ∧ GoodKeys g := by
  have h' : some g = badG := h.symm
  simp [badG, StreamGroup.with_capacity, StreamGroup.insert, WakerVecD.new, DirVec.ReadinessVec.new,
    StreamGroup.len, Slab.insert, Slab.empty, BTree.insert, BTree.empty, BTree.insertSorted, PVec.idx, PVec.set,
    PVec.replicate, PS.PollState.set_pending, DirVec.ReadinessVec.set_ready,
    uadd, StreamGroup.reserve] at h'
  subst h'
  refine ⟨⟨rfl, ?_⟩, ⟨by decide, ?_, by decide, rfl, rfl⟩⟩
  · intro j hj
    have hj' : 2 ≤ j := hj
    show (if j = 1 then PS.PollState.pending else if j = 0 then PS.PollState.pending else PS.PollState.none_) = _
    rw [if_neg (by omega), if_neg (by omega)]
  · intro k hk
    have hk' : k ∈ [0, 1] := hk
    simp at hk'
    rcases hk' with rfl | rfl
    · exact ⟨by decide, by decide, 200, rfl⟩
    · exact ⟨by decide, by decide, 201, rfl⟩

/-- the translated function runs (no panic) and answers like the model, but the traces differ … -/
theorem bad_trace :
    badG.bind (fun g =>
      (StreamGroup.poll_next_inner g 1 ((absS g badB).w.emit (.pollBegin 1))).map (fun (_, env', ret) =>
        (decide ((Eng.poll group (absS g badB) 1).w.trace = .pollEnd (outcomeOf badB.s.keyed ret) :: env'.trace),
         decide (ret matches .ready (some (0, 5))))))
      = some (false, true) := by rfl

/-- … in the slot annotation of `childBegin` only: the model names the key 0, the environment the member 200 -/
example :
    badG.bind (fun g =>
      (StreamGroup.poll_next_inner g 1 ((absS g badB).w.emit (.pollBegin 1))).map (fun (_, env', _) =>
        ((Eng.poll group (absS g badB) 1).w.trace, env'.trace)))
      = some ([.pollEnd (.some 0 [5]), .childEnd 200 (.item 5), .childBegin 200 0 (.par 1), .pollBegin 1],
              [.childEnd 200 (.item 5), .childBegin 200 200 (.par 1), .pollBegin 1]) := by rfl

theorem v0_false : ¬ poll_tie_statement_v0 := by
  intro h
  cases hg : badG with
  | none => have := badG_some; rw [hg] at this; cases this
  | some g =>
    have hf : StreamSteps badB.w := by
      intro c st hm
      have hm' : st ∈ (if c = 200 then [(⟨.item 5, []⟩ : Step)] else []) := hm
      split at hm'
      · simp at hm'; subst hm'; exact Or.inr (Or.inr ⟨_, rfl⟩)
      · cases hm'
    obtain ⟨g', env', ret, h1, _, _, _, _, _, h7⟩ := h g badB 1 (bad_wf g hg).1 (bad_wf g hg).2 hf rfl rfl
    have := bad_trace
    rw [hg] at this
    simp only [Option.bind_some, h1, Option.map_some, Option.some.injEq, Prod.mk.injEq] at this
    have h8 := this.1
    rw [h7] at h8
    simp at h8

end TieGrpSD

#print axioms TieGrpSD.poll_tie_inv
#print axioms TieGrpSD.poll_tie
#print axioms TieGrpSD.v0_false
#print axioms TieGrpSD.exG_some
#print axioms TieGrpSD.ex_wf
#print axioms TieGrpSD.ex_env
#print axioms TieGrpSD.badG_some
#print axioms TieGrpSD.bad_wf
#print axioms TieGrpSD.bad_trace

end Fc
