/-
  Kernel tie — the crate's waker kernel, TRANSLATED FROM ITS CURRENT SOURCE on every run
  (tools/rs2lean.py → FcGen/KSrc{Std,Dir,Idx,PS}.lean), refines the hand-written kernel of Fc/Kernel.lean
  that every C01 / C16 / C17 / C20 theorem is about.

  For each translated function the theorem says: on a well-formed readiness set (the cached count
  is the number of set flags, no flag beyond the length — for the `FixedBitSet` of `ReadinessVec`: no flag
  that the public API shows; its stored bits beyond the length are unconstrained and not part of the
  reading, see `TieVec.abs`) and an index inside it, the function does
  not panic, returns what the hand-written kernel function returns, leaves a state whose abstraction
  is the hand-written function's result, and keeps the state well-formed.  `abs` reads the
  translated struct through the *roles* the translator detected (count, flags, parent waker,
  maximum), so private field names do not matter.

    std   ReadinessArray / ReadinessVec : new, set_ready, clear_ready, set_all_ready, any_ready,
          set_waker, resize (growth = `World.resize`; shrinking keeps the count exact),
          InlineWaker{Array,Vec}::wake = `World.fireWk (.sub id)` (forward to the parent iff the
          flag was clear; the `expect` panics exactly where the model logs `wakePanic`)
    direct (alloc-only / no_std) : the constants of `Mode.direct`
    Indexer::iter / IndexIter::next : the rotated order `Fix.rot` and the bumped offset
    PollState : the three-valued table of Fc/Families.lean

  A change of the kernel source that alters its behaviour changes the generated definitions and
  these proofs stop checking; the check then searches for a failing input (DESIGN §15.9).
-/
import FcGen.KSrcStd
import FcLemmas.KernelTie
import Fc.Kernel

namespace Fc
open Rs Src

/-- a `World` whose readiness part is given explicitly (std strategy) -/
def World.withStd (b : World) (cap : Nat) (bits : Nat → Bool) (count : Nat) (parent : Option Nat) : World :=
  { b with mode := .std, cap := cap, bits := bits, count := count, parent := parent }

/-! ## std, arrays and tuples: `ReadinessArray<N>` -/
namespace TieArr
open StdArr

def abs (r : ReadinessArray) (b : World) : World :=
  b.withStd r.roleFlags.len r.roleFlags.get r.roleCount r.roleParent

/-- the role abbreviations, as a simp set (the proofs never name a field of the translated struct) -/
local macro "unroles" : tactic =>
  `(tactic| try simp only [abs, World.withStd, ReadinessArray.roleFlags, ReadinessArray.roleCount,
      ReadinessArray.roleParent] at *)

structure Wf (N : Nat) (r : ReadinessArray) : Prop where
  len : r.roleFlags.len = N
  hi  : ∀ i, N ≤ i → r.roleFlags.get i = false
  cnt : r.roleCount = countRange r.roleFlags.get 0 N

theorem new_tie (N : Nat) (b : World) :
    ∃ r, ReadinessArray.new N = some r ∧ Wf N r ∧
      abs r b = b.withStd N (fun i => decide (i < N)) N none := by
  refine ⟨_, rfl, ⟨rfl, ?_, ?_⟩, ?_⟩
  · intro i hi; simp [ReadinessArray.roleFlags, BArr.replicate]; omega
  · simp only [ReadinessArray.roleFlags, ReadinessArray.roleCount, BArr.replicate]
    rw [countRange_all]; intro i _ h; simp; omega
  · simp [abs, World.withStd, ReadinessArray.roleFlags, ReadinessArray.roleCount,
      ReadinessArray.roleParent, BArr.replicate]

theorem set_ready_tie (N : Nat) (r : ReadinessArray) (b : World) (i : Nat) (h : Wf N r) (hi : i < N) :
    ∃ r', ReadinessArray.set_ready N r i = some (r', (abs r b).isSet i) ∧ Wf N r' ∧
      abs r' b = (abs r b).setReady i := by
  obtain ⟨hl, hh, hc⟩ := h
  have hu := countRange_upd r.roleFlags.get 0 N i true (Nat.zero_le _) (by omega)
  unfold ReadinessArray.set_ready
  cases hb : r.roleFlags.get i <;> unroles
  · simp [hb] at hu
    simp_all [BArr.idx, BArr.set, uadd, World.isSet, World.setReady]
    refine ⟨⟨rfl, ?_, hu.symm⟩, ?_⟩
    · intro j hj; simp [hh j hj]; omega
    · funext j; by_cases hji : j = i <;> simp [upd, hji]
  · simp_all [BArr.idx, BArr.set, uadd, World.isSet, World.setReady]
    exact ⟨hl, hh, hc⟩

theorem clear_ready_tie (N : Nat) (r : ReadinessArray) (b : World) (i : Nat) (h : Wf N r) (hi : i < N) :
    ∃ r', ReadinessArray.clear_ready N r i = some (r', (abs r b).isSet i) ∧ Wf N r' ∧
      abs r' b = (abs r b).clearReady i := by
  obtain ⟨hl, hh, hc⟩ := h
  have hu := countRange_upd r.roleFlags.get 0 N i false (Nat.zero_le _) (by omega)
  unfold ReadinessArray.clear_ready
  cases hb : r.roleFlags.get i
  · unroles
    simp_all [BArr.idx, BArr.set, usub, World.isSet, World.clearReady]
    exact ⟨hl, hh, hc⟩
  · have hp := countRange_pos r.roleFlags.get 0 N i (Nat.zero_le _) (by omega) hb
    have hge : 1 ≤ r.roleCount := by rw [hc]; exact hp
    unroles
    simp [hb] at hu
    simp_all [BArr.idx, BArr.set, usub, World.isSet, World.clearReady]
    refine ⟨⟨rfl, ?_, by unroles <;> omega⟩, ?_⟩
    · intro j hj; simp [hh j hj]
    · funext j; by_cases hji : j = i <;> simp [upd, hji]

theorem set_all_ready_tie (N : Nat) (r : ReadinessArray) (b : World) (h : Wf N r) :
    ∃ r', ReadinessArray.set_all_ready N r = some (r', ()) ∧ Wf N r' ∧
      abs r' b = (abs r b).setAllReady := by
  obtain ⟨hl, hh, hc⟩ := h
  unfold ReadinessArray.set_all_ready
  unroles
  refine ⟨_, rfl, ⟨?_, ?_, ?_⟩, ?_⟩
  · simpa [BArr.fill] using hl
  · intro j hj; simp_all [BArr.fill]
  · simp_all [BArr.fill]; rw [countRange_all]; intro j _ hj; simp; omega
  · simp_all [BArr.fill, World.setAllReady]

theorem any_ready_tie (N : Nat) (r : ReadinessArray) (b : World) :
    ReadinessArray.any_ready N r = some (abs r b).anyReady := by
  unfold ReadinessArray.any_ready
  unroles
  first
    | rfl
    | (simp [World.anyReady, pure]; done)
    | (simp [World.anyReady, pure] <;> omega)
    | (simp only [World.anyReady, pure]; congr 1; rw [Bool.eq_iff_iff]; simp <;> omega)

theorem set_waker_tie (N : Nat) (r : ReadinessArray) (b : World) (p : Nat) (h : Wf N r) :
    ∃ r', ReadinessArray.set_waker N r p = some (r', ()) ∧ Wf N r' ∧
      abs r' b = (abs r b).setWaker p := by
  obtain ⟨hl, hh, hc⟩ := h
  unfold ReadinessArray.set_waker
  cases hp : r.roleParent <;> unroles <;> simp_all [World.setWaker] <;>
    (refine ⟨?_, ?_, ?_⟩ <;> unroles <;> assumption)

/-- `InlineWakerArray::wake` is `World.fireWk (.sub id)`: nothing happens when the flag is already
    set; otherwise the flag is set, the count adjusted and the stored parent waker invoked — and
    the `expect` panics exactly when no parent waker is stored (the model's `wakePanic`). -/
theorem wake_tie (N : Nat) (r : ReadinessArray) (b : World) (id : Nat) (h : Wf N r) (hi : id < N) :
    (r.roleParent = none ∧ (abs r b).isSet id = false → InlineWakerArray.wake N ⟨id⟩ r = none) ∧
    (r.roleParent ≠ none ∨ (abs r b).isSet id = true →
      ∃ r' ws, InlineWakerArray.wake N ⟨id⟩ r = some (r', ws, ()) ∧ Wf N r' ∧
        (abs r' b).emits (ws.map .woke) = (abs r b).fireWk (.sub id)) := by
  obtain ⟨hl, hh, hc⟩ := h
  have hu := countRange_upd r.roleFlags.get 0 N id true (Nat.zero_le _) (by omega)
  unfold InlineWakerArray.wake ReadinessArray.set_ready ReadinessArray.parent_waker_fn
  cases hb : r.roleFlags.get id <;> cases hp : r.roleParent <;> unroles <;> simp [hb] at hu <;>
    simp_all [BArr.idx, BArr.set, uadd, expect, World.isSet, World.fireWk, World.setReady, World.emits,
      World.emit]
  · refine ⟨_, _, ⟨rfl, rfl⟩, ⟨rfl, ?_, by unroles <;> omega⟩, ?_⟩
    · intro j hj; unroles; simp [hh j hj]; omega
    · simp; funext j; by_cases hji : j = id <;> simp [upd, hji]
  · exact ⟨r, [], ⟨rfl, rfl⟩, ⟨hl, hh, hc⟩, hl, rfl, hc, hp, rfl⟩
  · exact ⟨r, [], ⟨rfl, rfl⟩, ⟨hl, hh, hc⟩, hl, rfl, hc, hp, rfl⟩

end TieArr

/-! ## std, Vec and groups: `ReadinessVec` -/
namespace TieVec
open StdVec

/-- the flags are read through the public API (`Index` = `BitSet.idx`): the stored bits of a `FixedBitSet` beyond
    its length (`BitSet.get` at or above `len`) are not part of the reading — and are not zero in general, see the
    examples at the end of this namespace -/
def abs (r : ReadinessVec) (b : World) : World :=
  b.withStd r.roleFlags.len r.roleFlags.idx r.roleCount r.roleParent

local macro "unroles" : tactic =>
  `(tactic| try simp only [abs, World.withStd, ReadinessVec.roleFlags, ReadinessVec.roleCount,
      ReadinessVec.roleParent, ReadinessVec.roleMax] at *)

/-- `hi` is about what the public API answers (it follows from `len`); nothing is assumed about the hidden bits -/
structure Wf (N : Nat) (r : ReadinessVec) : Prop where
  len : r.roleFlags.len = N
  hi  : ∀ i, N ≤ i → r.roleFlags.idx i = false
  cnt : r.roleCount = countRange r.roleFlags.get 0 N
  max : r.roleMax = N

theorem Wf.mk2 {N : Nat} {r : ReadinessVec} (hl : r.roleFlags.len = N)
    (hc : r.roleCount = countRange r.roleFlags.get 0 N) (hm : r.roleMax = N) : Wf N r :=
  ⟨hl, fun i hi => by simp [BitSet.idx, hl]; omega, hc, hm⟩

theorem idx_lt {s : BitSet} {i : Nat} (h : i < s.len) : s.idx i = s.get i := by simp [BitSet.idx, h]
theorem idx_ge {s : BitSet} {i : Nat} (h : s.len ≤ i) : s.idx i = false := by
  simp [BitSet.idx]; intro h'; omega

theorem new_tie (N : Nat) (b : World) :
    ∃ r, ReadinessVec.new N = some r ∧ Wf N r ∧
      abs r b = b.withStd N (fun i => decide (i < N)) N none := by
  have hw : N ≤ wordCeil N := by unfold wordCeil; omega
  have hb : (BitSet.ones N).idx = fun i => decide (i < N) := by
    funext i
    by_cases h : i < N
    · have : i < wordCeil N := by omega
      simp [BitSet.idx, BitSet.ones, h, this]
    · simp [BitSet.idx, BitSet.ones, h]
  have hlen : (BitSet.ones N).len = N := rfl
  refine ⟨_, rfl, Wf.mk2 rfl ?_ rfl, ?_⟩
  · simp only [ReadinessVec.roleFlags, ReadinessVec.roleCount, BitSet.ones]
    rw [countRange_all]; intro i _ h; simp; omega
  · simp [abs, World.withStd, ReadinessVec.roleFlags, ReadinessVec.roleCount,
      ReadinessVec.roleParent, hb, hlen]

theorem set_ready_tie (N : Nat) (r : ReadinessVec) (b : World) (i : Nat) (h : Wf N r) (hi : i < N) :
    ∃ r', ReadinessVec.set_ready r i = some (r', (abs r b).isSet i) ∧ Wf N r' ∧
      abs r' b = (abs r b).setReady i := by
  obtain ⟨hl, hh, hc, hm⟩ := h
  have hu := countRange_upd r.roleFlags.get 0 N i true (Nat.zero_le _) (by omega)
  have hix : r.roleFlags.idx i = r.roleFlags.get i := idx_lt (by omega)
  unfold ReadinessVec.set_ready
  cases hb : r.roleFlags.get i <;> rw [hb] at hix <;> unroles
  · simp [hb] at hu
    simp [hix, BitSet.set, hl, hi, uadd, World.isSet, World.setReady]
    refine ⟨Wf.mk2 rfl (by unroles; omega) (by unroles; exact hm), ?_⟩
    funext j; by_cases hji : j = i <;> simp [upd, hji, BitSet.idx, hl, hi]
  · simp [hix, World.isSet, World.setReady]
    exact ⟨hl, hh, hc, hm⟩

theorem clear_ready_tie (N : Nat) (r : ReadinessVec) (b : World) (i : Nat) (h : Wf N r) (hi : i < N) :
    ∃ r', ReadinessVec.clear_ready r i = some (r', (abs r b).isSet i) ∧ Wf N r' ∧
      abs r' b = (abs r b).clearReady i := by
  obtain ⟨hl, hh, hc, hm⟩ := h
  have hu := countRange_upd r.roleFlags.get 0 N i false (Nat.zero_le _) (by omega)
  have hix : r.roleFlags.idx i = r.roleFlags.get i := idx_lt (by omega)
  unfold ReadinessVec.clear_ready
  cases hb : r.roleFlags.get i <;> rw [hb] at hix
  · unroles
    simp [hix, World.isSet, World.clearReady]
    exact ⟨hl, hh, hc, hm⟩
  · have hp := countRange_pos r.roleFlags.get 0 N i (Nat.zero_le _) (by omega) hb
    have hge : 1 ≤ r.roleCount := by rw [hc]; exact hp
    unroles
    simp [hb] at hu
    simp [hix, BitSet.set, hl, hi, usub, hge, World.isSet, World.clearReady]
    refine ⟨Wf.mk2 rfl (by unroles; omega) (by unroles; exact hm), ?_⟩
    funext j; by_cases hji : j = i <;> simp [upd, hji, BitSet.idx, hl, hi]

theorem set_all_ready_tie (N : Nat) (r : ReadinessVec) (b : World) (h : Wf N r) :
    ∃ r', ReadinessVec.set_all_ready r = some (r', ()) ∧ Wf N r' ∧
      abs r' b = (abs r b).setAllReady := by
  obtain ⟨hl, hh, hc, hm⟩ := h
  unfold ReadinessVec.set_all_ready
  unroles
  refine ⟨_, rfl, Wf.mk2 ?_ ?_ ?_, ?_⟩
  · unroles; simpa [BitSet.setAll] using hl
  · unroles; simp only [BitSet.setAll, hm]; rw [countRange_all]; intro j _ hj; simp; omega
  · unroles; exact hm
  · unroles; simp [BitSet.setAll, World.setAllReady, hm, hl]
    funext j; by_cases hj : j < N <;> simp [BitSet.idx, hl, hj]

theorem any_ready_tie (r : ReadinessVec) (b : World) :
    ReadinessVec.any_ready r = some (abs r b).anyReady := by
  unfold ReadinessVec.any_ready
  unroles
  first
    | rfl
    | (simp [World.anyReady, pure]; done)
    | (simp [World.anyReady, pure] <;> omega)
    | (simp only [World.anyReady, pure]; congr 1; rw [Bool.eq_iff_iff]; simp <;> omega)

theorem set_waker_tie (N : Nat) (r : ReadinessVec) (b : World) (p : Nat) (h : Wf N r) :
    ∃ r', ReadinessVec.set_waker r p = some (r', ()) ∧ Wf N r' ∧
      abs r' b = (abs r b).setWaker p := by
  obtain ⟨hl, hh, hc, hm⟩ := h
  unfold ReadinessVec.set_waker
  cases hp : r.roleParent <;> unroles <;> simp_all [World.setWaker] <;>
    (refine ⟨?_, ?_, ?_, ?_⟩ <;> unroles <;> assumption)

/-- `ReadinessVec::resize` when the set does not shrink is `World.resize`: new slots are armed,
    old flags and the parent waker are untouched, the count grows by the number of new slots. -/
theorem resize_grow_tie (N : Nat) (r : ReadinessVec) (b : World) (len : Nat) (h : Wf N r) (hlen : N ≤ len) :
    ∃ r', ReadinessVec.resize r len = some (r', ()) ∧ Wf len r' ∧
      abs r' b = (abs r b).resize len := by
  obtain ⟨hl, hh, hc, hm⟩ := h
  rcases Nat.lt_or_eq_of_le hlen with hlt | heq
  · have hcmp : compare len N = .gt := Nat.compare_eq_gt.mpr hlt
    have hbc : N ≤ blockCeil N := by unfold blockCeil; omega
    -- the stored bits after `grow(len)` and `set_range(N..len, true)`: whatever `grow` exposed is overwritten
    let F : Nat → Bool := fun i =>
      if N ≤ i ∧ i < len then true else (decide (i < blockCeil N) && r.roleFlags.get i)
    have hgs : (BitSet.grow r.roleFlags len).setRange N len true = some ⟨len, F⟩ := by
      simp only [BitSet.grow, BitSet.setRange, hl, hlt, if_true, hlen, Nat.le_refl, and_self]
      rfl
    have hcnt : countRange F 0 len = countRange r.roleFlags.get 0 N + (len - N) := by
      have hsplit := countRange_split F 0 N (len - N)
      rw [show N + (len - N) = len by omega] at hsplit
      rw [hsplit]
      congr 1
      · apply countRange_congr
        intro i _ hi
        have h1 : ¬ (N ≤ i ∧ i < len) := by omega
        have h2 : i < blockCeil N := by omega
        simp only [F, h1, if_false, h2, decide_true, Bool.true_and]
      · apply countRange_all
        intro i h1 h2
        have h3 : N ≤ i ∧ i < len := by omega
        simp only [F, h3, and_self, if_true]
    refine ⟨{ ready_count := r.roleCount + (len - N), max_count := len, readiness_list := ⟨len, F⟩,
              parent_waker := r.roleParent }, ?_, Wf.mk2 rfl ?_ rfl, ?_⟩
    · unfold ReadinessVec.resize
      unroles
      have hnlt : ¬ len < N := by omega
      have hgt : len > N := hlt
      simp [hcmp, hl, hgs, usub, uadd, hlen, hlt, hnlt, hgt]
    · show r.roleCount + (len - N) = countRange F 0 len
      rw [hcnt, hc]
    · unroles
      simp [World.resize, hl, hlt]
      funext j
      by_cases hj1 : N ≤ j <;> by_cases hj2 : j < len
      · simp [BitSet.idx, F, hj1, hj2]
      · have h3 : ¬ j < N := by omega
        simp [BitSet.idx, hj1, hj2, hl, h3]
      · have h3 : j < N := by omega
        have h4 : j < blockCeil N := by omega
        simp [BitSet.idx, F, hj1, hj2, hl, h3, h4]
      · omega
  · subst heq
    have hcmp : compare N r.roleFlags.len = .eq := by rw [hl]; exact Nat.compare_eq_eq.mpr rfl
    unfold ReadinessVec.resize
    unroles
    simp [hcmp, hl]
    refine ⟨⟨hl, hh, hc, rfl⟩, ?_⟩
    simp [World.resize, hl]

/-- shrinking (not reachable through the public API: the groups only ever grow) keeps the state
    well-formed — the cached count stays exact -/
theorem resize_shrink_wf (N : Nat) (r : ReadinessVec) (len : Nat) (h : Wf N r) (hlen : len < N) :
    ∃ r', ReadinessVec.resize r len = some (r', ()) ∧ Wf len r' ∧
      (∀ i, i < len → r'.roleFlags.get i = r.roleFlags.get i) ∧ r'.roleParent = r.roleParent := by
  obtain ⟨hl, hh, hc, hm⟩ := h
  have hcmp : compare len N = .lt := Nat.compare_eq_lt.mpr hlen
  have hsplit := countRange_split r.roleFlags.get 0 len (N - len)
  have hlen2 : len + (N - len) = N := by omega
  rw [hlen2, Nat.zero_add] at hsplit
  have hle : len ≤ N := by omega
  have hw1 : len ≤ wordCeil len := by unfold wordCeil; omega
  have hw2 : wordCeil len ≤ wordCeil N := by unfold wordCeil; omega
  have hge : countRange r.roleFlags.get len (N - len) ≤ r.roleCount := by omega
  have hcf : BitSet.countFrom r.roleFlags len = some (countRange r.roleFlags.get len (N - len)) := by
    simp [BitSet.countFrom, hl, hle]
  -- the copied words: the old bits below `wordCeil len`
  have hget : ∀ i, i < len → (BitSet.truncate r.roleFlags len).get i = r.roleFlags.get i := by
    intro i hi
    have h1 : i < wordCeil len := by omega
    have h2 : i < wordCeil N := by omega
    simp [BitSet.truncate, hl, h1, h2]
  refine ⟨{ ready_count := r.roleCount - countRange r.roleFlags.get len (N - len), max_count := len,
            readiness_list := BitSet.truncate r.roleFlags len, parent_waker := r.roleParent },
          ?_, Wf.mk2 rfl ?_ rfl, hget, rfl⟩
  · unfold ReadinessVec.resize
    unroles
    have hnl : ¬ N < len := by omega
    simp [hl, hcmp, hcf, usub, hge, hlen, hnl]
  · show r.roleCount - countRange r.roleFlags.get len (N - len)
        = countRange (BitSet.truncate r.roleFlags len).get 0 len
    rw [countRange_congr _ r.roleFlags.get 0 len (fun i _ hi => hget i (by omega))]
    omega

/-- `InlineWakerVec::wake` is `World.fireWk (.sub id)` -/
theorem wake_tie (N : Nat) (r : ReadinessVec) (b : World) (id : Nat) (h : Wf N r) (hi : id < N) :
    (r.roleParent = none ∧ (abs r b).isSet id = false → InlineWakerVec.wake ⟨id⟩ r = none) ∧
    (r.roleParent ≠ none ∨ (abs r b).isSet id = true →
      ∃ r' ws, InlineWakerVec.wake ⟨id⟩ r = some (r', ws, ()) ∧ Wf N r' ∧
        (abs r' b).emits (ws.map .woke) = (abs r b).fireWk (.sub id)) := by
  obtain ⟨hl, hh, hc, hm⟩ := h
  have hu := countRange_upd r.roleFlags.get 0 N id true (Nat.zero_le _) (by omega)
  have hix : r.roleFlags.idx id = r.roleFlags.get id := idx_lt (by omega)
  unfold InlineWakerVec.wake ReadinessVec.set_ready ReadinessVec.parent_waker_fn
  cases hb : r.roleFlags.get id <;> rw [hb] at hix <;> cases hp : r.roleParent <;> unroles <;>
    simp [hb] at hu <;>
    simp [hix, hp, BitSet.set, hl, hi, uadd, expect, World.isSet, World.fireWk, World.setReady, World.emits,
      World.emit]
  · refine ⟨_, _, ⟨rfl, rfl⟩, Wf.mk2 rfl (by unroles; omega) (by unroles; exact hm), ?_⟩
    simp; funext j; by_cases hji : j = id <;> simp [upd, hji, BitSet.idx, hl, hi]
  · exact ⟨r, [], ⟨rfl, rfl⟩, ⟨hl, hh, hc, hm⟩, hl, rfl, rfl, hp, rfl⟩
  · exact ⟨r, [], ⟨rfl, rfl⟩, ⟨hl, hh, hc, hm⟩, hl, rfl, rfl, hp, rfl⟩

/-! ### the hidden bits of a `FixedBitSet` (why `abs` reads through `idx`)

  `FixedBitSet::with_capacity_and_blocks(n, repeat(!0))` (fixedbitset 0.5.7, src/lib.rs l. 127-133) writes whole `usize`
  words through `as_mut_slice()` (l. 738-748) and does not mask the last one; `grow` (l. 137-149, `grow_inner`
  l. 155-168) keeps the old storage blocks and appends zeroed `SimdBlock`s.  So after `new(3)` a `grow(5)` alone shows
  the bits 3 and 4 as SET; only from the next 128-bit block on are the new bits clear.  `resize` overwrites the
  exposed bits (`set_range(old_len..len, true)`) and adds `len - old_len` to the count, so it does not depend on them
  (`resize_grow_tie` assumes nothing about hidden bits); a `resize` that armed the new slots through `set_ready`
  would skip the stale ones and leave the count short. -/
example : (BitSet.grow (BitSet.ones 3) 5).idx 3 = true := by decide
example : (BitSet.grow (BitSet.ones 3) 5).idx 4 = true := by decide
example : (BitSet.grow (BitSet.ones 3) 70).idx 63 = true ∧ (BitSet.grow (BitSet.ones 3) 70).idx 64 = false := by decide
example : (BitSet.grow (BitSet.ones 128) 130).idx 128 = false := by decide
/-- the unchanged `resize` is indifferent to them: 3 → 5 gives five visible set bits and a count of 5 -/
example : (do let r ← ReadinessVec.new 3
              let (r, _) ← ReadinessVec.resize r 5
              pure (r.roleCount, (List.range 6).map r.roleFlags.idx))
            = some (5, [true, true, true, true, true, false]) := by decide
/-- shrinking hides bits without clearing them (`with_capacity_and_blocks(len, old words)` copies whole words):
    after 5 → 3 the stored bit 3 is still set, and a bare `grow` would show it again -/
example : (do let r ← ReadinessVec.new 5
              let (r, _) ← ReadinessVec.resize r 3
              pure (r.roleCount, r.roleFlags.idx 3, (BitSet.grow r.roleFlags 5).idx 3)) = some (3, false, true) := by decide

end TieVec

/-! ## non-vacuity: concrete runs of the translated code -/

/-- three children; child 1 is polled (flag cleared), wakes itself, is woken again (no second
    notification), and a spurious second `clear_ready` finds the flag clear -/
example :
    (do let r ← StdArr.ReadinessArray.new 3
        let (r, _) ← StdArr.ReadinessArray.set_waker 3 r 7
        let (r, c1) ← StdArr.ReadinessArray.clear_ready 3 r 1
        let (r, c2) ← StdArr.ReadinessArray.clear_ready 3 r 1
        let (r, w1, _) ← StdArr.InlineWakerArray.wake 3 ⟨1⟩ r
        let (r, w2, _) ← StdArr.InlineWakerArray.wake 3 ⟨1⟩ r
        pure (c1, c2, w1, w2, r.roleCount, ← StdArr.ReadinessArray.any_ready 3 r))
      = some (true, false, [7], [], 3, true) := by decide

/-- a wake-up before any poll stored a parent waker panics (the `expect`) only if the flag is clear -/
example : (do let r ← StdVec.ReadinessVec.new 2
              let (r, _) ← StdVec.ReadinessVec.clear_ready r 0
              StdVec.InlineWakerVec.wake ⟨0⟩ r) = none := by decide

example : (do let r ← StdVec.ReadinessVec.new 2
              let (r, _) ← StdVec.ReadinessVec.resize r 5
              let (r, _) ← StdVec.ReadinessVec.clear_ready r 4
              let (r, _) ← StdVec.ReadinessVec.resize r 3
              pure (r.roleCount, r.roleMax, r.roleFlags.len)) = some (3, 3, 3) := by decide

#print axioms TieArr.new_tie
#print axioms TieArr.set_ready_tie
#print axioms TieArr.clear_ready_tie
#print axioms TieArr.set_all_ready_tie
#print axioms TieArr.any_ready_tie
#print axioms TieArr.set_waker_tie
#print axioms TieArr.wake_tie
#print axioms TieVec.new_tie
#print axioms TieVec.set_ready_tie
#print axioms TieVec.clear_ready_tie
#print axioms TieVec.set_all_ready_tie
#print axioms TieVec.any_ready_tie
#print axioms TieVec.set_waker_tie
#print axioms TieVec.resize_grow_tie
#print axioms TieVec.resize_shrink_wf
#print axioms TieVec.wake_tie
#print axioms TieVec.Wf.mk2
#print axioms TieVec.idx_lt
#print axioms TieVec.idx_ge

end Fc
