/-
  Kernel tie — the crate's waker kernel, TRANSLATED FROM ITS CURRENT SOURCE on every run
  (tools/rs2lean.py → FcGen/KSrc{Std,Dir,Idx,PS}.lean), refines the hand-written kernel of Fc/Kernel.lean
  that every C01 / C16 / C17 / C20 theorem is about.

  For each translated function the theorem says: on a well-formed readiness set (the cached count
  is the number of set flags, no flag beyond the length) and an index inside it, the function does
  not panic, returns what the hand-written kernel function returns, leaves a state whose abstraction
  is the hand-written function's result, and keeps the state well-formed.  `abs` reads the
  translated struct through the *roles* the translator detected (count, flags, parent waker,
  maximum), so private field names do not matter.

    std   ReadinessArray / ReadinessVec : new, set_ready, clear_ready, set_all_ready, any_ready,
          set_waker, resize (growth = `World.resize`; shrinking keeps the count exact),
          InlineWaker{Array,Vec}::wake = `World.fireWk (.sub id)` (forward to the parent iff the
          flag was clear; the `expect` panics exactly where the model logs `wakePanic`)
    direct (alloc-only / no_std) : the constants of `Mode.direct`
    Indexer::iter / IndexIter::next : the rotated order `Fix.rot` and the bumped offset
    PollState : the three-valued table of Fc/Families.lean

  A change of the kernel source that alters its behaviour changes the generated definitions and
  these proofs stop checking; the check then searches for a failing input (DESIGN §15.9).
-/
import FcGen.KSrcStd
import FcLemmas.KernelTie
import Fc.Kernel

namespace Fc
open Rs Src

/-- a `World` whose readiness part is given explicitly (std strategy) -/
def World.withStd (b : World) (cap : Nat) (bits : Nat → Bool) (count : Nat) (parent : Option Nat) : World :=
  { b with mode := .std, cap := cap, bits := bits, count := count, parent := parent }

/-! ## std, arrays and tuples: `ReadinessArray<N>` -/
namespace TieArr
open StdArr

def abs (r : ReadinessArray) (b : World) : World :=
  b.withStd r.roleFlags.len r.roleFlags.get r.roleCount r.roleParent

/-- the role abbreviations, as a simp set (the proofs never name a field of the translated struct) -/
local macro "unroles" : tactic =>
  `(tactic| try simp only [abs, World.withStd, ReadinessArray.roleFlags, ReadinessArray.roleCount,
      ReadinessArray.roleParent] at *)

structure Wf (N : Nat) (r : ReadinessArray) : Prop where
  len : r.roleFlags.len = N
  hi  : ∀ i, N ≤ i → r.roleFlags.get i = false
  cnt : r.roleCount = countRange r.roleFlags.get 0 N

theorem new_tie (N : Nat) (b : World) :
    ∃ r, ReadinessArray.new N = some r ∧ Wf N r ∧
      abs r b = b.withStd N (fun i => decide (i < N)) N none := by
  refine ⟨_, rfl, ⟨rfl, ?_, ?_⟩, ?_⟩
  · intro i hi; simp [ReadinessArray.roleFlags, BArr.replicate]; omega
  · simp only [ReadinessArray.roleFlags, ReadinessArray.roleCount, BArr.replicate]
    rw [countRange_all]; intro i _ h; simp; omega
  · simp [abs, World.withStd, ReadinessArray.roleFlags, ReadinessArray.roleCount,
      ReadinessArray.roleParent, BArr.replicate]

theorem set_ready_tie (N : Nat) (r : ReadinessArray) (b : World) (i : Nat) (h : Wf N r) (hi : i < N) :
    ∃ r', ReadinessArray.set_ready N r i = some (r', (abs r b).isSet i) ∧ Wf N r' ∧
      abs r' b = (abs r b).setReady i := by
  obtain ⟨hl, hh, hc⟩ := h
  have hu := countRange_upd r.roleFlags.get 0 N i true (Nat.zero_le _) (by omega)
  unfold ReadinessArray.set_ready
  cases hb : r.roleFlags.get i <;> unroles
  · simp [hb] at hu
    simp_all [BArr.idx, BArr.set, uadd, World.isSet, World.setReady]
    refine ⟨⟨rfl, ?_, hu.symm⟩, ?_⟩
    · intro j hj; simp [hh j hj]; omega
    · funext j; by_cases hji : j = i <;> simp [upd, hji]
  · simp_all [BArr.idx, BArr.set, uadd, World.isSet, World.setReady]
    exact ⟨hl, hh, hc⟩

theorem clear_ready_tie (N : Nat) (r : ReadinessArray) (b : World) (i : Nat) (h : Wf N r) (hi : i < N) :
    ∃ r', ReadinessArray.clear_ready N r i = some (r', (abs r b).isSet i) ∧ Wf N r' ∧
      abs r' b = (abs r b).clearReady i := by
  obtain ⟨hl, hh, hc⟩ := h
  have hu := countRange_upd r.roleFlags.get 0 N i false (Nat.zero_le _) (by omega)
  unfold ReadinessArray.clear_ready
  cases hb : r.roleFlags.get i
  · unroles
    simp_all [BArr.idx, BArr.set, usub, World.isSet, World.clearReady]
    exact ⟨hl, hh, hc⟩
  · have hp := countRange_pos r.roleFlags.get 0 N i (Nat.zero_le _) (by omega) hb
    have hge : 1 ≤ r.roleCount := by rw [hc]; exact hp
    unroles
    simp [hb] at hu
    simp_all [BArr.idx, BArr.set, usub, World.isSet, World.clearReady]
    refine ⟨⟨rfl, ?_, by unroles <;> omega⟩, ?_⟩
    · intro j hj; simp [hh j hj]
    · funext j; by_cases hji : j = i <;> simp [upd, hji]

theorem set_all_ready_tie (N : Nat) (r : ReadinessArray) (b : World) (h : Wf N r) :
    ∃ r', ReadinessArray.set_all_ready N r = some (r', ()) ∧ Wf N r' ∧
      abs r' b = (abs r b).setAllReady := by
  obtain ⟨hl, hh, hc⟩ := h
  unfold ReadinessArray.set_all_ready
  unroles
  refine ⟨_, rfl, ⟨?_, ?_, ?_⟩, ?_⟩
  · simpa [BArr.fill] using hl
  · intro j hj; simp_all [BArr.fill]
  · simp_all [BArr.fill]; rw [countRange_all]; intro j _ hj; simp; omega
  · simp_all [BArr.fill, World.setAllReady]

theorem any_ready_tie (N : Nat) (r : ReadinessArray) (b : World) :
    ReadinessArray.any_ready N r = some (abs r b).anyReady := by
  unfold ReadinessArray.any_ready
  unroles
  first
    | rfl
    | (simp [World.anyReady, pure]; done)
    | (simp [World.anyReady, pure] <;> omega)
    | (simp only [World.anyReady, pure]; congr 1; rw [Bool.eq_iff_iff]; simp <;> omega)

theorem set_waker_tie (N : Nat) (r : ReadinessArray) (b : World) (p : Nat) (h : Wf N r) :
    ∃ r', ReadinessArray.set_waker N r p = some (r', ()) ∧ Wf N r' ∧
      abs r' b = (abs r b).setWaker p := by
  obtain ⟨hl, hh, hc⟩ := h
  unfold ReadinessArray.set_waker
  cases hp : r.roleParent <;> unroles <;> simp_all [World.setWaker] <;>
    (refine ⟨?_, ?_, ?_⟩ <;> unroles <;> assumption)

/-- `InlineWakerArray::wake` is `World.fireWk (.sub id)`: nothing happens when the flag is already
    set; otherwise the flag is set, the count adjusted and the stored parent waker invoked — and
    the `expect` panics exactly when no parent waker is stored (the model's `wakePanic`). -/
theorem wake_tie (N : Nat) (r : ReadinessArray) (b : World) (id : Nat) (h : Wf N r) (hi : id < N) :
    (r.roleParent = none ∧ (abs r b).isSet id = false → InlineWakerArray.wake N ⟨id⟩ r = none) ∧
    (r.roleParent ≠ none ∨ (abs r b).isSet id = true →
      ∃ r' ws, InlineWakerArray.wake N ⟨id⟩ r = some (r', ws, ()) ∧ Wf N r' ∧
        (abs r' b).emits (ws.map .woke) = (abs r b).fireWk (.sub id)) := by
  obtain ⟨hl, hh, hc⟩ := h
  have hu := countRange_upd r.roleFlags.get 0 N id true (Nat.zero_le _) (by omega)
  unfold InlineWakerArray.wake ReadinessArray.set_ready ReadinessArray.parent_waker_fn
  cases hb : r.roleFlags.get id <;> cases hp : r.roleParent <;> unroles <;> simp [hb] at hu <;>
    simp_all [BArr.idx, BArr.set, uadd, expect, World.isSet, World.fireWk, World.setReady, World.emits,
      World.emit]
  · refine ⟨_, _, ⟨rfl, rfl⟩, ⟨rfl, ?_, by unroles <;> omega⟩, ?_⟩
    · intro j hj; unroles; simp [hh j hj]; omega
    · simp; funext j; by_cases hji : j = id <;> simp [upd, hji]
  · exact ⟨r, [], ⟨rfl, rfl⟩, ⟨hl, hh, hc⟩, hl, rfl, hc, hp, rfl⟩
  · exact ⟨r, [], ⟨rfl, rfl⟩, ⟨hl, hh, hc⟩, hl, rfl, hc, hp, rfl⟩

end TieArr

/-! ## std, Vec and groups: `ReadinessVec` -/
namespace TieVec
open StdVec

def abs (r : ReadinessVec) (b : World) : World :=
  b.withStd r.roleFlags.len r.roleFlags.get r.roleCount r.roleParent

local macro "unroles" : tactic =>
  `(tactic| try simp only [abs, World.withStd, ReadinessVec.roleFlags, ReadinessVec.roleCount,
      ReadinessVec.roleParent, ReadinessVec.roleMax] at *)

structure Wf (N : Nat) (r : ReadinessVec) : Prop where
  len : r.roleFlags.len = N
  hi  : ∀ i, N ≤ i → r.roleFlags.get i = false
  cnt : r.roleCount = countRange r.roleFlags.get 0 N
  max : r.roleMax = N

theorem new_tie (N : Nat) (b : World) :
    ∃ r, ReadinessVec.new N = some r ∧ Wf N r ∧
      abs r b = b.withStd N (fun i => decide (i < N)) N none := by
  refine ⟨_, rfl, ⟨rfl, ?_, ?_, rfl⟩, ?_⟩
  · intro i hi; simp [ReadinessVec.roleFlags, BitSet.ones]; omega
  · simp only [ReadinessVec.roleFlags, ReadinessVec.roleCount, BitSet.ones]
    rw [countRange_all]; intro i _ h; simp; omega
  · simp [abs, World.withStd, ReadinessVec.roleFlags, ReadinessVec.roleCount,
      ReadinessVec.roleParent, BitSet.ones]

theorem set_ready_tie (N : Nat) (r : ReadinessVec) (b : World) (i : Nat) (h : Wf N r) (hi : i < N) :
    ∃ r', ReadinessVec.set_ready r i = some (r', (abs r b).isSet i) ∧ Wf N r' ∧
      abs r' b = (abs r b).setReady i := by
  obtain ⟨hl, hh, hc, hm⟩ := h
  have hu := countRange_upd r.roleFlags.get 0 N i true (Nat.zero_le _) (by omega)
  unfold ReadinessVec.set_ready
  cases hb : r.roleFlags.get i <;> unroles
  · simp [hb] at hu
    simp_all [BitSet.idx, BitSet.set, uadd, World.isSet, World.setReady]
    refine ⟨⟨rfl, ?_, by unroles <;> omega, by unroles <;> exact hm⟩, ?_⟩
    · intro j hj; unroles; simp [hh j hj]; omega
    · funext j; by_cases hji : j = i <;> simp [upd, hji]
  · simp_all [BitSet.idx, BitSet.set, uadd, World.isSet, World.setReady]
    exact ⟨hl, hh, hc, hm⟩

theorem clear_ready_tie (N : Nat) (r : ReadinessVec) (b : World) (i : Nat) (h : Wf N r) (hi : i < N) :
    ∃ r', ReadinessVec.clear_ready r i = some (r', (abs r b).isSet i) ∧ Wf N r' ∧
      abs r' b = (abs r b).clearReady i := by
  obtain ⟨hl, hh, hc, hm⟩ := h
  have hu := countRange_upd r.roleFlags.get 0 N i false (Nat.zero_le _) (by omega)
  unfold ReadinessVec.clear_ready
  cases hb : r.roleFlags.get i
  · unroles
    simp_all [BitSet.idx, BitSet.set, usub, World.isSet, World.clearReady]
    exact ⟨hl, hh, hc, hm⟩
  · have hp := countRange_pos r.roleFlags.get 0 N i (Nat.zero_le _) (by omega) hb
    have hge : 1 ≤ r.roleCount := by rw [hc]; exact hp
    unroles
    simp [hb] at hu
    simp_all [BitSet.idx, BitSet.set, usub, World.isSet, World.clearReady]
    refine ⟨⟨rfl, ?_, by unroles <;> omega, by unroles <;> exact hm⟩, ?_⟩
    · intro j hj; unroles; simp [hh j hj]
    · funext j; by_cases hji : j = i <;> simp [upd, hji]

theorem set_all_ready_tie (N : Nat) (r : ReadinessVec) (b : World) (h : Wf N r) :
    ∃ r', ReadinessVec.set_all_ready r = some (r', ()) ∧ Wf N r' ∧
      abs r' b = (abs r b).setAllReady := by
  obtain ⟨hl, hh, hc, hm⟩ := h
  unfold ReadinessVec.set_all_ready
  unroles
  refine ⟨_, rfl, ⟨?_, ?_, ?_, ?_⟩, ?_⟩
  · unroles; simpa [BitSet.setAll] using hl
  · intro j hj; unroles; simp_all [BitSet.setAll]
  · unroles; simp_all [BitSet.setAll]; rw [countRange_all]; intro j _ hj; simp; omega
  · unroles; exact hm
  · unroles; simp_all [BitSet.setAll, World.setAllReady]

theorem any_ready_tie (r : ReadinessVec) (b : World) :
    ReadinessVec.any_ready r = some (abs r b).anyReady := by
  unfold ReadinessVec.any_ready
  unroles
  first
    | rfl
    | (simp [World.anyReady, pure]; done)
    | (simp [World.anyReady, pure] <;> omega)
    | (simp only [World.anyReady, pure]; congr 1; rw [Bool.eq_iff_iff]; simp <;> omega)

theorem set_waker_tie (N : Nat) (r : ReadinessVec) (b : World) (p : Nat) (h : Wf N r) :
    ∃ r', ReadinessVec.set_waker r p = some (r', ()) ∧ Wf N r' ∧
      abs r' b = (abs r b).setWaker p := by
  obtain ⟨hl, hh, hc, hm⟩ := h
  unfold ReadinessVec.set_waker
  cases hp : r.roleParent <;> unroles <;> simp_all [World.setWaker] <;>
    (refine ⟨?_, ?_, ?_, ?_⟩ <;> unroles <;> assumption)

/-- `ReadinessVec::resize` when the set does not shrink is `World.resize`: new slots are armed,
    old flags and the parent waker are untouched, the count grows by the number of new slots. -/
theorem resize_grow_tie (N : Nat) (r : ReadinessVec) (b : World) (len : Nat) (h : Wf N r) (hlen : N ≤ len) :
    ∃ r', ReadinessVec.resize r len = some (r', ()) ∧ Wf len r' ∧
      abs r' b = (abs r b).resize len := by
  obtain ⟨hl, hh, hc, hm⟩ := h
  unfold ReadinessVec.resize
  rcases Nat.lt_or_eq_of_le hlen with hlt | heq
  · have hcmp : compare len N = .gt := Nat.compare_eq_gt.mpr hlt
    have hsplit := countRange_split (fun i => decide (N ≤ i) && decide (i < len) || decide (i < N) && r.roleFlags.get i) 0 N (len - N)
    have h1 : countRange (fun i => decide (N ≤ i) && decide (i < len) || decide (i < N) && r.roleFlags.get i) 0 N
        = countRange r.roleFlags.get 0 N :=
      countRange_congr _ _ _ _ (fun i _ hi => by
        have : ¬ N ≤ i := by omega
        have h2 : i < N := by omega
        simp [this, h2])
    have h2 : countRange (fun i => decide (N ≤ i) && decide (i < len) || decide (i < N) && r.roleFlags.get i) (0 + N) (len - N)
        = len - N :=
      countRange_all _ _ _ (fun i hi1 hi2 => by
        have : N ≤ i := by omega
        have h3 : i < len := by omega
        simp [this, h3])
    have hlen2 : N + (len - N) = len := by omega
    rw [hlen2, h1, h2] at hsplit
    have hnlt : ¬ len < N := by omega
    have hgt : len > N := hlt
    unroles
    simp [hcmp, BitSet.grow, BitSet.setRange, hl, hlt, hnlt, hgt, usub, uadd, hlen]
    refine ⟨⟨rfl, ?_, ?_, rfl⟩, ?_⟩
    · intro i hi; unroles
      have : ¬ i < len := by omega
      have h3 : ¬ i < N := by omega
      simp [this, h3]
    · unroles; omega
    · simp [World.resize, hlt]
      funext j
      by_cases hj1 : N ≤ j <;> by_cases hj2 : j < len <;> simp [hj1, hj2]
      all_goals first
        | (intro hx; rw [hh j hj1] at hx; exact absurd hx (by simp))
        | (have : j < N := by omega
           simp [this])
        | omega
  · subst heq
    have hcmp : compare N r.roleFlags.len = .eq := by rw [hl]; exact Nat.compare_eq_eq.mpr rfl
    unroles
    simp [hcmp, hl]
    refine ⟨⟨hl, hh, hc, rfl⟩, ?_⟩
    simp [World.resize, hl]

/-- shrinking (not reachable through the public API: the groups only ever grow) keeps the state
    well-formed — the cached count stays exact -/
theorem resize_shrink_wf (N : Nat) (r : ReadinessVec) (len : Nat) (h : Wf N r) (hlen : len < N) :
    ∃ r', ReadinessVec.resize r len = some (r', ()) ∧ Wf len r' ∧
      (∀ i, i < len → r'.roleFlags.get i = r.roleFlags.get i) ∧ r'.roleParent = r.roleParent := by
  obtain ⟨hl, hh, hc, hm⟩ := h
  unfold ReadinessVec.resize
  have hcmp : compare len N = .lt := Nat.compare_eq_lt.mpr hlen
  have hsplit := countRange_split r.roleFlags.get 0 len (N - len)
  have hlen2 : len + (N - len) = N := by omega
  rw [hlen2, Nat.zero_add] at hsplit
  have hle : len ≤ N := by omega
  have h1 : countRange (fun i => decide (i < len) && (decide (i < N) && r.roleFlags.get i)) 0 len
      = countRange r.roleFlags.get 0 len :=
    countRange_congr _ _ _ _ (fun i _ hi => by
      have h2 : i < len := by omega
      have h3 : i < N := by omega
      simp [h2, h3])
  have hge : countRange r.roleFlags.get len (N - len) ≤ r.roleCount := by omega
  unroles
  simp [hcmp, BitSet.countFrom, BitSet.truncate, BitSet.idx, hl, hle, hlen, usub]
  simp [hge]
  refine ⟨⟨rfl, ?_, ?_, rfl⟩, ?_⟩
  · intro i hi; unroles
    have : ¬ i < len := by omega
    simp [this]
  · unroles; rw [h1]; omega
  · intro i hi
    have : i < N := by omega
    simp [hi, this]

/-- `InlineWakerVec::wake` is `World.fireWk (.sub id)` -/
theorem wake_tie (N : Nat) (r : ReadinessVec) (b : World) (id : Nat) (h : Wf N r) (hi : id < N) :
    (r.roleParent = none ∧ (abs r b).isSet id = false → InlineWakerVec.wake ⟨id⟩ r = none) ∧
    (r.roleParent ≠ none ∨ (abs r b).isSet id = true →
      ∃ r' ws, InlineWakerVec.wake ⟨id⟩ r = some (r', ws, ()) ∧ Wf N r' ∧
        (abs r' b).emits (ws.map .woke) = (abs r b).fireWk (.sub id)) := by
  obtain ⟨hl, hh, hc, hm⟩ := h
  have hu := countRange_upd r.roleFlags.get 0 N id true (Nat.zero_le _) (by omega)
  unfold InlineWakerVec.wake ReadinessVec.set_ready ReadinessVec.parent_waker_fn
  cases hb : r.roleFlags.get id <;> cases hp : r.roleParent <;> unroles <;> simp [hb] at hu <;>
    simp_all [BitSet.idx, BitSet.set, uadd, expect, World.isSet, World.fireWk, World.setReady, World.emits,
      World.emit]
  · refine ⟨_, _, ⟨rfl, rfl⟩, ⟨rfl, ?_, by unroles <;> omega, by unroles <;> exact hm⟩, ?_⟩
    · intro j hj; unroles; simp [hh j hj]; omega
    · simp; funext j; by_cases hji : j = id <;> simp [upd, hji]
  · exact ⟨r, [], ⟨rfl, rfl⟩, ⟨hl, hh, hc, hm⟩, hl, rfl, hc, hp, rfl⟩
  · exact ⟨r, [], ⟨rfl, rfl⟩, ⟨hl, hh, hc, hm⟩, hl, rfl, hc, hp, rfl⟩

end TieVec

/-! ## non-vacuity: concrete runs of the translated code -/

/-- three children; child 1 is polled (flag cleared), wakes itself, is woken again (no second
    notification), and a spurious second `clear_ready` finds the flag clear -/
example :
    (do let r ← StdArr.ReadinessArray.new 3
        let (r, _) ← StdArr.ReadinessArray.set_waker 3 r 7
        let (r, c1) ← StdArr.ReadinessArray.clear_ready 3 r 1
        let (r, c2) ← StdArr.ReadinessArray.clear_ready 3 r 1
        let (r, w1, _) ← StdArr.InlineWakerArray.wake 3 ⟨1⟩ r
        let (r, w2, _) ← StdArr.InlineWakerArray.wake 3 ⟨1⟩ r
        pure (c1, c2, w1, w2, r.roleCount, ← StdArr.ReadinessArray.any_ready 3 r))
      = some (true, false, [7], [], 3, true) := by decide

/-- a wake-up before any poll stored a parent waker panics (the `expect`) only if the flag is clear -/
example : (do let r ← StdVec.ReadinessVec.new 2
              let (r, _) ← StdVec.ReadinessVec.clear_ready r 0
              StdVec.InlineWakerVec.wake ⟨0⟩ r) = none := by decide

example : (do let r ← StdVec.ReadinessVec.new 2
              let (r, _) ← StdVec.ReadinessVec.resize r 5
              let (r, _) ← StdVec.ReadinessVec.clear_ready r 4
              let (r, _) ← StdVec.ReadinessVec.resize r 3
              pure (r.roleCount, r.roleMax, r.roleFlags.len)) = some (3, 3, 3) := by decide

#print axioms TieArr.new_tie
#print axioms TieArr.set_ready_tie
#print axioms TieArr.clear_ready_tie
#print axioms TieArr.set_all_ready_tie
#print axioms TieArr.any_ready_tie
#print axioms TieArr.set_waker_tie
#print axioms TieArr.wake_tie
#print axioms TieVec.new_tie
#print axioms TieVec.set_ready_tie
#print axioms TieVec.clear_ready_tie
#print axioms TieVec.set_all_ready_tie
#print axioms TieVec.any_ready_tie
#print axioms TieVec.set_waker_tie
#print axioms TieVec.resize_grow_tie
#print axioms TieVec.resize_shrink_wf
#print axioms TieVec.wake_tie

end Fc
