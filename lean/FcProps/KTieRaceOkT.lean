/-
  Kernel tie, the TUPLE container of `race_ok` — `(A, B, …).race_ok()` (src/future/race_ok/tuple/mod.rs,
  `impl_race_ok_tuple!`, the structs `RaceOk1 … RaceOk12`), direct strategy, policy `raceOk true false` (ROTATING order, a
  `done` flag).  Source of the translation: rustc's macro expansion of the current source, normalised over a const generic
  `N` by tools/tuple_norm.py → tools/rs2lean.py → FcGen/KSrcTup7.lean, namespace `RaceOkT`.

  `TieRaceOkT.poll_tie`, `drop_tie`, `drop_failed_tie` prove the three statements of FcProps/KTieRaceOkTup.lean.  The
  propositions are UNCHANGED (they were first validated on the concrete runs at the end of this file: every clause holds
  in a `Pending` poll with a stored error, in the poll that returns `Ok` after another child failed, and in the poll that
  returns the aggregate; no `_v0` was needed); the only edit of that file is that `outcomeOfRaceOk` now lives inside the
  namespace `TieRaceOkT` (FcProps/KTieRaceOkArr.lean owns `Fc.outcomeOfRaceOk`; the two files could not be imported
  together).  For every arity `N` and every translated `RaceOk` value `g` that is well-formed (`WfK N g`: the three tables
  have `N` entries, the indexer's maximum is `N`, `0 < N`, a slot is `Ready` exactly when it stores the error of its failed
  child, `completed` counts those slots) and not `done`, and every environment whose children are scripted futures
  (`FutStepsF`), the poll function TRANSLATED FROM THE SOURCE (`RaceOkT.RaceOk.poll N`) does not panic and agrees with one
  `Eng.poll (raceOk true false)` of the model on: number of children, `completed` (in the polls that do not return `Ok` —
  the crate also counts the winner: `poll_tie_strong` says it is then the model's `cnt + 1`), the indexer offset, the
  `done` flag, the state table, the stored errors (until the aggregate moves them out), when the combinator is finished,
  the remaining scripts, the wakers handed out, and the whole event trace (the model's trace is the translated code's
  trace plus the closing `pollEnd` of the returned value; the aggregate lists the errors BY POSITION, not in the rotated
  order in which they arrived).  The destructor releases exactly the stored errors in slot order (none after the aggregate
  was returned); with the children dropped by the drop glue this is `Eng.drop (raceOk true false)`.

  `poll_tie_strong` adds what the next poll needs again (`FutStepsF` of the environment and of the model's world, the number
  of children), the counter after `Ok`, and that the poll returning the aggregate leaves a `WfFailed` combinator (the
  hypothesis of `drop_failed_tie`); `drop_tie_strong` adds what the destructor leaves behind; `new_wf`: `RaceOk::new` on
  `0 < N` children does not panic and builds a `WfK`, not `done` value over these children (`new_wf_strong`: offset 0,
  `completed = 0`); `new_poll_tie`: the constructor feeds `poll_tie`.

  Proof structure (helpers in FcLemmas/KTieRaceOkT{Model,Main,Poll,Drop}.lean).  What differs from the array proof
  (FcProps/KTieRaceOkA.lean) and where the proof sees it:
    * the loop runs over `Indexer::iter`: `TieLoop.iter_collect` turns `Idx.Indexer.iter` + `Idx.IndexIter.collect` into the
      model's `Fix.rot` and the bumped offset (`Fix.bump`); `rt_poll_live` unfolds `Eng.poll` to a scan of `s.rot` from
      `s.bump`; the loop invariant `Inv` carries the offset and `done = false`;
    * the child poll sits under the folded dispatch `if i < N`: `forCtl_scan` is run with the index predicate `· < N`
      (every `(k + off) % N` is `< N` as `0 < N`), so the guard is true and the `else` branch unreachable;
    * `Ok` sets `done` and increments `completed`: the exit relation `Fin` says `cnt + 1 = completed` and no longer `WfK`
      (the count clause `WfK.pc` is false after the winner was counted; the statement asks for `WfK` after `Pending` only);
    * the aggregate is built after the loop (`rt_post_done`: `vec_assume_init` of a full row is the model's `outs`:
      `TieRaceOkA.rk_filter_full`, `TieTryJoinV.tj_mapM_some`) and sets `done`.
  Imported unchanged (container-independent): `TieDirect.*` (FcLemmas/KTieFamEnv.lean), `TieLoop.*`
  (FcLemmas/KTieFamLoop.lean, FcLemmas/KTieLoopCore.lean), the list facts `TieRaceOkA.rk_count_set`, `rk_filter_full`,
  `rk_abs_ready` (FcLemmas/KTieRaceOkAModel.lean), `rk_flatMap_congr` (FcLemmas/KTieRaceOkADrop.lean), `TieTryJoinV.*`
  (FcLemmas/KTieListFacts.lean).  Ported (they mention the translated structure or the policy): the `visit` / `close`
  lemmas for `raceOk true false`, `Inv`, `Fin`, `Post`, the destructor's loop.
  The proofs address the generated structure through its `role…` abbreviations only.
-/
import FcProps.KTieRaceOkTup
import FcLemmas.KTieRaceOkTPoll
import FcLemmas.KTieRaceOkTDrop

set_option linter.unusedSimpArgs false
set_option linter.unusedVariables false

namespace Fc
open Rs Src

namespace TieRaceOkT
open RaceOkT
open TieRaceOkA (rk_abs_ready)

/-- the statement, plus: the scripts stay scripted futures (for the environment and for the model's world, which is the
    `b` of the next poll), the number of children is kept, `completed` after `Ok` is the model's `cnt + 1`, and the
    aggregate leaves a `WfFailed` combinator -/
theorem poll_tie_strong (N : Nat) (g : RaceOk) (b : Eng Fix) (w : Nat)
    (hW : WfK N g) (hS : FutStepsF b.w) (hd : g.roleDone = false) :
    ∃ g' env' ret,
      RaceOk.poll N g w (((absK g b).w.emit (.pollBegin w)).setWaker w) = some (g', env', ret) ∧
      (ret = .pending → WfK N g') ∧
      (absK g' b).s.n = (Eng.poll (raceOk true false) (absK g b) w).s.n ∧
      ((∀ v, ret ≠ .ready (.ok v)) → (absK g' b).s.cnt = (Eng.poll (raceOk true false) (absK g b) w).s.cnt) ∧
      (absK g' b).s.off = (Eng.poll (raceOk true false) (absK g b) w).s.off ∧
      (absK g' b).s.dead = (Eng.poll (raceOk true false) (absK g b) w).s.dead ∧
      (∀ i, i < N → (absK g' b).s.st i = (Eng.poll (raceOk true false) (absK g b) w).s.st i) ∧
      ((∀ es, ret ≠ .ready (.err es)) → (absK g' b).s.out = (Eng.poll (raceOk true false) (absK g b) w).s.out) ∧
      ((∃ es, ret = .ready (.err es)) → ∀ i, (absK g' b).s.out i = none) ∧
      ((Eng.poll (raceOk true false) (absK g b) w).s.dead = true ↔ ret ≠ .pending) ∧
      env'.scripts = (Eng.poll (raceOk true false) (absK g b) w).w.scripts ∧
      env'.handed = (Eng.poll (raceOk true false) (absK g b) w).w.handed ∧
      (Eng.poll (raceOk true false) (absK g b) w).w.trace = .pollEnd (outcomeOfRaceOk ret) :: env'.trace ∧
      (FutStepsF env' ∧ FutStepsF (Eng.poll (raceOk true false) (absK g b) w).w ∧ g'.roleKids.len = N) ∧
      ((∃ v, ret = .ready (.ok v)) → (absK g' b).s.cnt = (Eng.poll (raceOk true false) (absK g b) w).s.cnt + 1) ∧
      ((∃ es, ret = .ready (.err es)) → WfFailed N g') := by
  obtain ⟨g', env', ret, h1, h2⟩ := rt_poll_core N g b w hW hS hd
  exact ⟨g', env', ret, h1, h2⟩

theorem poll_tie : poll_tie_statement := by
  intro N g b w hW hS hd
  obtain ⟨g', env', ret, h1, a1, a2, a3, a4, a5, a6, a7, a8, a9, a10, a11, a12, _⟩ := poll_tie_strong N g b w hW hS hd
  exact ⟨g', env', ret, h1, a1, a2, a3, a4, a5, a6, a7, a8, a9, a10, a11, a12⟩

/-- the destructor on any `RaceOk` whose tables have `N` entries and whose `Ready` slots hold a value (`WfK` and `WfFailed`
    are instances): no panic, the model's trace; afterwards the tables still have `N` entries and no slot is `Ready` -/
theorem drop_tie_strong (N : Nat) (g : RaceOk) (b : Eng Fix)
    (hkn : g.roleKids.len = N) (hsl : g.roleStates.len = N) (hic : g.roleItems.cap = N)
    (hrs : ∀ i, i < N → g.roleStates.get i = PS.PollState.ready → ∃ v, g.roleItems.get i = some v) :
    ∃ g' env',
      RaceOk.drop N g ((absK g b).w.emit .dropBegin) = some (g', env', ()) ∧
      (Eng.drop (raceOk true false) (absK g b)).w.trace =
        .dropEnd :: (((List.range N).map (fun i => Ev.childDropped i)).reverse ++ env'.trace) ∧
      g'.roleKids.len = N ∧ g'.roleStates.len = N ∧ g'.roleItems.cap = N ∧
      (∀ i, i < N → g'.roleStates.get i ≠ PS.PollState.ready) := by
  obtain ⟨g', env', h1, h2, h3, h4, h5, h6⟩ := rt_drop_core N g b hkn hsl hic
    (fun i hi h => hrs i hi (rk_abs_ready.mp h))
  exact ⟨g', env', h1, h2, h3, h4, h5, fun i hi h => h6 i hi (rk_abs_ready.mpr h)⟩

theorem drop_tie : drop_tie_statement := by
  intro N g b hW
  obtain ⟨g', env', h1, h2, _⟩ := drop_tie_strong N g b hW.kn hW.sl hW.ic (by
    intro i hi h
    rcases hW.rs i hi with ⟨h1, _⟩ | ⟨_, h2⟩
    · rw [h1] at h; cases h
    · exact h2)
  exact ⟨g', env', h1, h2⟩

theorem drop_failed_tie : drop_failed_tie_statement := by
  intro N g b hW
  obtain ⟨g', env', h1, h2, _⟩ := drop_tie_strong N g b hW.kn hW.sl hW.ic (by
    intro i hi h
    rw [hW.rs i hi] at h; cases h)
  exact ⟨g', env', h1, h2⟩

/-- `RaceOk::new` on a tuple of `0 < N` futures: no errors stored, every state `Pending`, `completed = 0`, not `done`, the
    indexer at offset 0 -/
theorem new_wf_strong (N : Nat) (kids : Rs.Kids) (hk : kids.len = N) (hN : 0 < N) :
    ∃ g, RaceOk.new N kids = some g ∧ WfK N g ∧ g.roleDone = false ∧ g.roleKids = kids ∧
      g.roleIndexer.roleOffset = 0 ∧ g.roleCount = 0 := by
  simp only [RaceOk.new, Idx.Indexer.new, Option.bind_eq_bind, Option.bind_some, Option.pure_def]
  refine ⟨_, rfl, ⟨hk, rfl, rfl, rfl, hN, ?_, ?_⟩, rfl, rfl, rfl, rfl⟩
  · simp only [RaceOk.roleCount, RaceOk.roleStates, Rs.PVec.replicate]
    induction (List.range N) <;> simp_all
  · intro i _
    exact Or.inl ⟨rfl, rfl⟩

/-- the hypotheses `WfK N`, `roleDone = false` of `poll_tie` hold initially.  (`0 < N` is needed for `WfK.pos` only —
    `RaceOk::new` itself does not panic for `N = 0`; the crate has no `RaceOk0`.) -/
theorem new_wf (N : Nat) (kids : Rs.Kids) (hk : kids.len = N) (hN : 0 < N) :
    ∃ g, RaceOk.new N kids = some g ∧ WfK N g ∧ g.roleDone = false ∧ g.roleKids = kids := by
  obtain ⟨g, h1, h2, h3, h4, _⟩ := new_wf_strong N kids hk hN
  exact ⟨g, h1, h2, h3, h4⟩

/-- the first poll of a freshly built race_ok: `new_wf` feeds `poll_tie` -/
theorem new_poll_tie (N : Nat) (kids : Rs.Kids) (b : Eng Fix) (w : Nat) (hk : kids.len = N) (hN : 0 < N)
    (hS : FutStepsF b.w) :
    ∃ g g' env' ret, RaceOk.new N kids = some g ∧
      RaceOk.poll N g w (((absK g b).w.emit (.pollBegin w)).setWaker w) = some (g', env', ret) ∧
      (ret = .pending → WfK N g') ∧
      (Eng.poll (raceOk true false) (absK g b) w).w.trace = .pollEnd (outcomeOfRaceOk ret) :: env'.trace := by
  obtain ⟨g, hg, hwf, hd, -⟩ := new_wf N kids hk hN
  obtain ⟨g', env', ret, h1, h2, -, -, -, -, -, -, -, -, -, -, h12⟩ := poll_tie N g b w hwf hS hd
  exact ⟨g, g', env', ret, hg, h1, h2, h12⟩

/-! ### concrete runs: the hypotheses hold, the conclusions are checked by evaluation -/

/-- all three children fail (7, 8, 9), in the second poll / the first / the second -/
def scr : Nat → List Step := fun c =>
  if c = 0 then [⟨.pend, []⟩, ⟨.ready false 7, []⟩]
  else if c = 1 then [⟨.ready false 8, [(0, 0)]⟩]
  else [⟨.pend, [(2, 0)]⟩, ⟨.ready false 9, []⟩]
/-- the same, but child 2 succeeds with 9 in its second poll -/
def scrOk : Nat → List Step := fun c =>
  if c = 0 then [⟨.pend, []⟩, ⟨.ready false 7, []⟩]
  else if c = 1 then [⟨.ready false 8, [(0, 0)]⟩]
  else [⟨.pend, [(2, 0)]⟩, ⟨.ready true 9, []⟩]
def mk (s : Nat → List Step) : Eng Fix := { w := World.init .direct 3 s, s := Fix.init 3 0 }
/-- `RaceOk::new` on three children (fields in the struct's order: `completed`, `done`, `indexer`, `errors`,
    `errors_states`, the children) -/
def g0 : RaceOk := ⟨0, false, ⟨0, 3⟩, Rs.OutVec.uninit 3, Rs.PVec.replicate 3 PS.PollState.pending, ⟨3⟩⟩
/-- the same after the first poll of `scr` / `scrOk`: slot 1 stores the error 8, the offset is 1 -/
def g1 : RaceOk :=
  ⟨1, false, ⟨1, 3⟩, ⟨3, fun j => if j = 1 then some 8 else none⟩,
   ⟨3, fun j => if j = 1 then PS.PollState.ready else PS.PollState.pending⟩, ⟨3⟩⟩
def b1 (s : Nat → List Step) : Eng Fix := Eng.poll (raceOk true false) (absK g0 (mk s)) 1

/-- `g0` is `RaceOk::new((f0, f1, f2))` -/
example : RaceOk.new 3 ⟨3⟩ = some g0 := rfl
example : ∃ g, RaceOk.new 3 ⟨3⟩ = some g ∧ WfK 3 g ∧ g.roleDone = false ∧ g.roleKids = ⟨3⟩ :=
  new_wf 3 ⟨3⟩ rfl (by decide)
example : WfK 3 g0 := by
  obtain ⟨g, h1, h2, _⟩ := new_wf 3 ⟨3⟩ rfl (by decide)
  cases h1; exact h2
example : WfK 3 g1 ∧ g1.roleDone = false := by
  refine ⟨⟨rfl, rfl, rfl, rfl, by decide, by decide, ?_⟩, rfl⟩
  intro i hi
  have : i = 0 ∨ i = 1 ∨ i = 2 := by omega
  rcases this with rfl | rfl | rfl
  · exact Or.inl ⟨rfl, rfl⟩
  · exact Or.inr ⟨rfl, 8, rfl⟩
  · exact Or.inl ⟨rfl, rfl⟩
example : FutStepsF (mk scr).w := by
  intro c st h
  simp only [mk, World.init, scr] at h
  split at h
  · simp at h; rcases h with rfl | rfl <;> simp
  · split at h
    · simp at h; subst h; simp
    · simp at h; rcases h with rfl | rfl <;> simp
example : FutStepsF (mk scrOk).w := by
  intro c st h
  simp only [mk, World.init, scrOk] at h
  split at h
  · simp at h; rcases h with rfl | rfl <;> simp
  · split at h
    · simp at h; subst h; simp
    · simp at h; rcases h with rfl | rfl <;> simp

/-- is the returned value `Ready(Ok(_))` / `Ready(Err(_))` -/
def isOk : Rs.Poll (Rs.ResultE Nat (List Nat)) → Bool
  | .ready (.ok _) => true
  | _ => false
def isErr : Rs.Poll (Rs.ResultE Nat (List Nat)) → Bool
  | .ready (.err _) => true
  | _ => false

/-- every clause of the theorem's conclusion, as a Boolean (the conditional clauses with their conditions; functions are
    compared on the positions `0 … N`), and the outcome -/
def agrees (N : Nat) (g : RaceOk) (b : Eng Fix) (w : Nat) : Option (Bool × Outcome) :=
  let m := Eng.poll (raceOk true false) (absK g b) w
  (RaceOk.poll N g w (((absK g b).w.emit (.pollBegin w)).setWaker w)).map fun y =>
    (decide ((absK y.1 b).s.n = m.s.n) &&
    (isOk y.2.2 || decide ((absK y.1 b).s.cnt = m.s.cnt)) &&
    decide ((absK y.1 b).s.off = m.s.off) &&
    decide ((absK y.1 b).s.dead = m.s.dead) &&
    decide ((List.range N).map (absK y.1 b).s.st = (List.range N).map m.s.st) &&
    (isErr y.2.2 || decide ((List.range (N + 1)).map (absK y.1 b).s.out = (List.range (N + 1)).map m.s.out)) &&
    (!isErr y.2.2 || decide ((List.range (N + 1)).map (absK y.1 b).s.out = (List.range (N + 1)).map fun _ => none)) &&
    decide (m.s.dead = true ↔ outcomeOfRaceOk y.2.2 ≠ .pending) &&
    decide (m.w.trace = .pollEnd (outcomeOfRaceOk y.2.2) :: y.2.1.trace) &&
    decide ((List.range 4).map (fun c => (y.2.1.scripts c).map fun st => (st.res, st.fires)) =
      (List.range 4).map (fun c => (m.w.scripts c).map fun st => (st.res, st.fires))) &&
    decide ((List.range 4).map y.2.1.handed = (List.range 4).map m.w.handed), outcomeOfRaceOk y.2.2)

/-- the `cnt` clause WITHOUT its condition -/
def cntAgrees (N : Nat) (g : RaceOk) (b : Eng Fix) (w : Nat) : Option (Nat × Nat) :=
  (RaceOk.poll N g w (((absK g b).w.emit (.pollBegin w)).setWaker w)).map fun y =>
    ((absK y.1 b).s.cnt, (Eng.poll (raceOk true false) (absK g b) w).s.cnt)

/-- what the translated poll leaves in the combinator, listed: children, states, stored errors, `completed` -/
def tables (N : Nat) (g : RaceOk) : Nat × List PS.PollState × List (Option Nat) × Nat :=
  (g.roleKids.len, (List.range N).map g.roleStates.get, (List.range N).map g.roleItems.get, g.roleCount)
/-- … and `done`, the indexer's offset, its maximum -/
def flags (g : RaceOk) : Bool × Nat × Nat := (g.roleDone, g.roleIndexer.roleOffset, g.roleIndexer.roleMax)

/-- first poll (offset 0, order 0, 1, 2): child 0 pending, child 1 fails with 8 (and wakes the task while it is polled),
    child 2 pending: `Pending` -/
example : agrees 3 g0 (mk scr) 1 = some (true, .pending) := by decide
example : (Eng.poll (raceOk true false) (absK g0 (mk scr)) 1).w.trace =
    [.pollEnd .pending, .childEnd 2 .pend, .woke 1, .fired 2 0 (some (.par 1)), .childBegin 2 2 (.par 1),
     .childEnd 1 (.ready false 8), .woke 1, .fired 0 0 (some (.par 1)), .childBegin 1 1 (.par 1),
     .childEnd 0 .pend, .childBegin 0 0 (.par 1), .pollBegin 1] := by decide
/-- … and it leaves `g1` (one error stored, `completed = 1`, offset 1) -/
example : (RaceOk.poll 3 g0 1 (((absK g0 (mk scr)).w.emit (.pollBegin 1)).setWaker 1)).map (fun y => tables 3 y.1)
    = some (tables 3 g1) := by decide
example : (RaceOk.poll 3 g0 1 (((absK g0 (mk scr)).w.emit (.pollBegin 1)).setWaker 1)).map (fun y => flags y.1)
    = some (false, 1, 3) := by decide
/-- the same through the constructor -/
example : (RaceOk.new 3 ⟨3⟩).bind (fun g => agrees 3 g (mk scr) 1) = some (true, .pending) := by decide
/-- second poll (offset 1, order 1, 2, 0): slot 1 is skipped, child 2 fails with 9, then child 0 with 7: the aggregate
    lists the errors BY POSITION -/
example : agrees 3 g1 (b1 scr) 2 = some (true, .ready false [7, 8, 9]) := by decide
example : (Eng.poll (raceOk true false) (absK g1 (b1 scr)) 2).w.trace.take 6 =
    [.pollEnd (.ready false [7, 8, 9]), .childEnd 0 (.ready false 7), .childBegin 0 0 (.par 2),
     .childEnd 2 (.ready false 9), .childBegin 2 2 (.par 2), .pollBegin 2] := by decide
/-- … the errors have been moved out, every state is `None`, `completed` stays 3, `done` is set, the offset is 2 -/
example : (RaceOk.poll 3 g1 2 (((absK g1 (b1 scr)).w.emit (.pollBegin 2)).setWaker 2)).map (fun y => tables 3 y.1)
    = some (3, [.none_, .none_, .none_], [none, none, none], 3) := by decide
example : (RaceOk.poll 3 g1 2 (((absK g1 (b1 scr)).w.emit (.pollBegin 2)).setWaker 2)).map (fun y => flags y.1)
    = some (true, 2, 3) := by decide
/-- second poll of the other script (order 1, 2, 0): slot 1 is skipped, child 2 succeeds: `Ok(9)`; child 0 is not polled -/
example : agrees 3 g1 (b1 scrOk) 2 = some (true, .ready true [9]) := by decide
example : (Eng.poll (raceOk true false) (absK g1 (b1 scrOk)) 2).w.trace.take 4 =
    [.pollEnd (.ready true [9]), .childEnd 2 (.ready true 9), .childBegin 2 2 (.par 2), .pollBegin 2] := by decide
/-- … the stored error stays in its slot (the destructor releases it), `done` is set, and `completed` is 2 — the winner
    is counted too, where the model's `cnt` stays 1: the `cnt` clause is stated for the polls that do not return `Ok` -/
example : (RaceOk.poll 3 g1 2 (((absK g1 (b1 scrOk)).w.emit (.pollBegin 2)).setWaker 2)).map (fun y => tables 3 y.1)
    = some (3, [.pending, .ready, .pending], [none, some 8, none], 2) := by decide
example : (RaceOk.poll 3 g1 2 (((absK g1 (b1 scrOk)).w.emit (.pollBegin 2)).setWaker 2)).map (fun y => flags y.1)
    = some (true, 2, 3) := by decide
example : cntAgrees 3 g1 (b1 scrOk) 2 = some (2, 1) := by decide
/-- dropping `g1`: the stored error 8 is released, then the three children -/
example : (RaceOk.drop 3 g1 ((absK g1 (b1 scr)).w.emit .dropBegin)).map (fun y =>
    (decide ((Eng.drop (raceOk true false) (absK g1 (b1 scr))).w.trace =
      .dropEnd :: (((List.range 3).map (fun i => Ev.childDropped i)).reverse ++ y.2.1.trace)),
     y.2.1.trace.take 2))
    = some (true, [.valDropped 8, .dropBegin]) := by decide
example : (RaceOk.drop 3 g1 ((absK g1 (b1 scr)).w.emit .dropBegin)).map (fun y => tables 3 y.1)
    = some (3, [.pending, .none_, .pending], [none, none, none], 1) := by decide
/-- the hypothesis `FutStepsF` is needed: a child answering like a stream is ill-typed for `Future::poll`, the translated
    code panics there -/
example : (RaceOk.poll 3 g0 1 (World.init .direct 3 (fun _ => [⟨.item 5, []⟩]))).isNone = true := by decide
/-- so is `g.roleDone = false`: polling a race_ok that has returned panics ("Futures must not be polled after completing") -/
example : (RaceOk.poll 3 ⟨1, true, ⟨1, 3⟩, g1.roleItems, g1.roleStates, ⟨3⟩⟩ 1 (mk scr).w).isNone = true := by decide
/-- and `WfK.kn`: with FEWER children than the arity the indexer yields an index without a child (`expect` panics) -/
example : (RaceOk.poll 3 ⟨0, false, ⟨0, 3⟩, Rs.OutVec.uninit 3, Rs.PVec.replicate 3 PS.PollState.pending, ⟨2⟩⟩ 1
    (mk scr).w).isNone = true := by decide
/-- and `WfK.pos`: with no children `Indexer::iter` divides by zero -/
example : (RaceOk.poll 0 ⟨0, false, ⟨0, 0⟩, Rs.OutVec.uninit 0, Rs.PVec.replicate 0 PS.PollState.pending, ⟨0⟩⟩ 1
    (World.init .direct 0 scr)).isNone = true := by decide
/-- and `WfK.rs`: a `Ready` slot without a stored error makes the destructor read uninitialised memory -/
example : (RaceOk.drop 3 ⟨3, false, ⟨0, 3⟩, Rs.OutVec.uninit 3, Rs.PVec.replicate 3 PS.PollState.ready, ⟨3⟩⟩
    (World.init .direct 3 scr)).isNone = true := by decide

end TieRaceOkT

#print axioms TieRaceOkT.poll_tie_strong
#print axioms TieRaceOkT.poll_tie
#print axioms TieRaceOkT.drop_tie_strong
#print axioms TieRaceOkT.drop_tie
#print axioms TieRaceOkT.drop_failed_tie
#print axioms TieRaceOkT.new_wf_strong
#print axioms TieRaceOkT.new_wf
#print axioms TieRaceOkT.new_poll_tie

end Fc
