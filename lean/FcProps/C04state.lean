/-
  C04 / C05 — the poll-state table behind them.

  The array / Vec `join` and `try_join` print their `PollState` table under `{:?}`; the harness
  logs it after every poll and the driver compares it with the model's `st` (`Fc/Snap.lean`,
  `Case.psTables`).  These theorems say what that table means in the model at EVERY operation
  boundary of every history (any list of operations, so the final state is an arbitrary
  reachable boundary), while the combinator has not finished, unwound or been dropped:

    * slot `i` is `Pending` exactly when child `i` has not resolved (try_join: not resolved `Ok`),
      and `Ready` exactly when it has, in which case the output slot holds the very value the
      child resolved to;
    * the counter (`pending` in the array / Vec types, `completed` in the tuple types) is the
      number of `Pending` resp. `Ready` slots;
    * try_join: no child has failed yet.

  They are projections of the invariants C04_join and C05_try_join are proved with.
-/
import FcLemmas.C04
import FcLemmas.C05
import Fc.Snap

namespace Fc
open Mon

/-- join, array / Vec model and tuple model -/
theorem C04_poll_state (c : Case) (hf : c.fam = .joinSlice ∨ c.fam = .joinTuple)
    (hd : c.finalFix.s.dead = false) :
    (∀ i, i < c.n →
      (c.finalFix.s.st i = .pending ∧ resolvedVal c.finalFix.w.trace i = none) ∨
      (c.finalFix.s.st i = .ready ∧
        ∃ v, resolvedVal c.finalFix.w.trace i = some v ∧ c.finalFix.s.out i = some v)) ∧
    c.finalFix.s.cnt =
      (if c.fam = .joinSlice then cntP (fun i => c.finalFix.s.st i = .pending) c.n
       else cntP (fun i => c.finalFix.s.st i = .ready) c.n) := by
  rcases hf with hf | hf
  · have h := Sim.runFix (C04.sim_joinSlice c.n (Fam.joinSlice.modeOf c.mode)) c.ops
      (FEng.init .joinSlice c.mode c.n c.scripts) rfl (Sim.scriptsOk_any _)
      (by simpa [FEng.init, Fam.initCnt, World.init] using C04.inv_init true c.n)
    simp only [Case.finalFix, hf, Fam.policy] at hd ⊢
    exact ⟨h.live hd, by simpa using h.cnt hd⟩
  · have h := Sim.runFix (C04.sim_joinTuple c.n (Fam.joinTuple.modeOf c.mode)) c.ops
      (FEng.init .joinTuple c.mode c.n c.scripts) rfl (Sim.scriptsOk_any _)
      (by simpa [FEng.init, Fam.initCnt, World.init] using C04.inv_init false c.n)
    simp only [Case.finalFix, hf, Fam.policy] at hd ⊢
    exact ⟨h.live hd, by simpa using h.cnt hd⟩

/-- try_join, array / Vec model and tuple model -/
theorem C05_poll_state (c : Case) (hf : c.fam = .tryJoinSlice ∨ c.fam = .tryJoinTuple)
    (hd : c.finalFix.s.dead = false) :
    (∀ i, i < c.n →
      (c.finalFix.s.st i = .pending ∧ okVal c.finalFix.w.trace i = none) ∨
      (c.finalFix.s.st i = .ready ∧
        ∃ v, okVal c.finalFix.w.trace i = some v ∧ c.finalFix.s.out i = some v)) ∧
    errs c.finalFix.w.trace = [] ∧
    c.finalFix.s.cnt =
      (if c.fam = .tryJoinSlice then cntP (fun i => c.finalFix.s.st i = .pending) c.n
       else cntP (fun i => c.finalFix.s.st i = .ready) c.n) := by
  rcases hf with hf | hf
  · have h := Sim.runFix (C05.sim_tryJoinSlice c.n (Fam.tryJoinSlice.modeOf c.mode)) c.ops
      (FEng.init .tryJoinSlice c.mode c.n c.scripts) rfl (Sim.scriptsOk_any _)
      (by simpa [FEng.init, Fam.initCnt, World.init] using C05.inv_init true c.n)
    simp only [Case.finalFix, hf, Fam.policy] at hd ⊢
    exact ⟨h.live hd, h.noerr hd, by simpa using h.cnt hd⟩
  · have h := Sim.runFix (C05.sim_tryJoinTuple c.n (Fam.tryJoinTuple.modeOf c.mode)) c.ops
      (FEng.init .tryJoinTuple c.mode c.n c.scripts) rfl (Sim.scriptsOk_any _)
      (by simpa [FEng.init, Fam.initCnt, World.init] using C05.inv_init false c.n)
    simp only [Case.finalFix, hf, Fam.policy] at hd ⊢
    exact ⟨h.live hd, h.noerr hd, by simpa using h.cnt hd⟩

/-! ### non-vacuity: the tables of a concrete run, as the harness compares them -/

def C04state_example : Case :=
  { fam := .joinSlice, mode := .std, keyed := false, n := 3,
    scripts := fun c => if c = 0 then [⟨.pend, []⟩, ⟨.ready true 10, []⟩]
                        else if c = 1 then [⟨.ready true 11, []⟩]
                        else if c = 2 then [⟨.pend, []⟩, ⟨.ready true 12, []⟩] else [],
    ops := [.poll 1, .fire 0 0, .poll 2, .fire 2 0, .poll 3] }

example : C04state_example.hasPsTable = true := by decide
example : C04state_example.psTables =
    ["[Pending, Ready, Pending]", "[Ready, Ready, Pending]", "[None, None, None]"] := by decide
/-- before the last poll the hypothesis `dead = false` holds and the table is non-trivial -/
example : ({ C04state_example with ops := C04state_example.ops.take 4 } : Case).finalFix.s.dead = false := by
  decide

def C05state_example : Case :=
  { fam := .tryJoinSlice, mode := .std, keyed := false, n := 3,
    ops := [.poll 1, .fire 0 0, .poll 2, .fire 2 0, .poll 3],
    scripts := fun c => if c = 0 then [⟨.pend, []⟩, ⟨.ready false 10, []⟩]
                        else if c = 1 then [⟨.ready true 11, []⟩]
                        else if c = 2 then [⟨.pend, []⟩, ⟨.ready true 12, []⟩] else [] }

/-- on the error path only the failing slot is emptied (the others are dropped with the value) -/
example : C05state_example.psTables =
    ["[Pending, Ready, Pending]", "[None, Ready, Pending]", "[None, Ready, Pending]"] := by decide

#print axioms C04_poll_state
#print axioms C05_poll_state
