/-
  Kernel tie, `Indexer` — see FcProps/KTieStd.lean for the description.
-/
import FcGen.KSrcIdx
import Fc.Families

namespace Fc
open Rs Src

/-! ## `Indexer` (utils/indexer.rs): the rotated scan order of race, race_ok (tuple) and merge -/
namespace TieIdx
open Idx

/-- drain an `IndexIter`: call `next` until it answers `None` (at most `fuel` times) -/
def drain : Nat → IndexIter → Option (List Nat)
  | 0, _ => some []
  | fuel + 1, it =>
    match IndexIter.next it with
    | none => none
    | some (_, none) => some []
    | some (it', some v) => (drain fuel it').map (v :: ·)

theorem drain_eq (off n k : Nat) (hk : k ≤ n) (hn : 0 < n) (fuel : Nat) (hf : n - k ≤ fuel) :
    drain fuel ⟨⟨k, n⟩, off⟩ = some ((List.range' k (n - k)).map (fun pos => (pos + off) % n)) := by
  induction fuel generalizing k with
  | zero =>
    have : n - k = 0 := by omega
    simp [drain, this]
  | succ fuel ih =>
    by_cases hlt : k < n
    · have hne : n ≠ 0 := by omega
      have hstep : n - k = (n - (k + 1)) + 1 := by omega
      simp [drain, IndexIter.next, Range.next, hlt, uadd, urem, hne, ih (k + 1) (by omega) (by omega), hstep,
        List.range'_succ]
    · have : n - k = 0 := by omega
      simp [drain, IndexIter.next, Range.next, hlt, this]

/-- `Indexer::iter` on a state `s` with at least one child: the iterator yields exactly `s.rot`,
    and the stored offset becomes `s.bump.off`; `Indexer::new` starts at offset 0 -/
theorem iter_tie (s : Fix) (hn : 0 < s.n) :
    ∃ ix it, Indexer.iter ⟨s.off, s.n⟩ = some (ix, it) ∧ ix = ⟨s.bump.off, s.n⟩ ∧
      drain (s.n + 1) it = some s.rot := by
  have hne : s.n ≠ 0 := by omega
  have hd := drain_eq s.off s.n 0 (Nat.zero_le _) hn (s.n + 1) (by omega)
  refine ⟨⟨(s.off + 1) % s.n, s.n⟩, ⟨⟨0, s.n⟩, s.off⟩, ?_, rfl, ?_⟩
  · simp [Indexer.iter, uadd, urem, hne]
  · simpa [Fix.rot, List.range_eq_range'] using hd

theorem new_tie (n : Nat) : Indexer.new n = some ⟨(Fix.init n 0).off, n⟩ := rfl

/-- with no children `Indexer::iter` panics (remainder by zero) — the defect D1 that the merge fix
    avoids by returning early, and the reason race over zero futures is outside C06 -/
theorem iter_zero_panics (off : Nat) : Indexer.iter ⟨off, 0⟩ = none := by
  simp [Indexer.iter, uadd, urem]

end TieIdx

example : TieIdx.drain 5 ⟨⟨0, 4⟩, 3⟩ = some [3, 0, 1, 2] := by decide

#print axioms TieIdx.drain_eq
#print axioms TieIdx.iter_tie
#print axioms TieIdx.new_tie
#print axioms TieIdx.iter_zero_panics

end Fc
