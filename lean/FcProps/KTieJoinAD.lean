/-
  Kernel tie, fixed families, no_std / alloc-only builds — `[Fut; N]::join()` (the ARRAY container): the translated
  `Join::poll` and the `PinnedDrop` destructor `Join::drop` of the flavour compiled WITHOUT the `std` feature
  (FcGen/KSrcArr1D.lean, generated from src/future/join/array.rs against src/utils/wakers/array/no_std.rs, namespace
  `JoinAD`) refine `Eng.poll joinSlice` and `Eng.drop joinSlice` of the model in `direct` mode.
  Statements: FcProps/KTieJoinDir.lean (`TieJoinAD.poll_tie_statement`, `TieJoinAD.drop_tie_statement`, proved here
  UNCHANGED); proofs: FcLemmas/KTieJoinAD{Env,Defs,Poll,Drop}.lean — a port of the std proof (FcProps/KTieJoinA.lean,
  FcLemmas/KTieJoinA{Env,Defs,Poll,Drop}.lean); the container- and flavour-independent lemmas of the Vec files (model
  side, list facts, loop rules) are imported, not copied.

  `poll_tie`: from a well-formed `Join` (`WfJ N`: the array holds `N` children, the sizes of the state table / output
  slots are `N`, `pending` counts the `Pending` states, every `Ready` slot holds an output; there is no flag table in
  this flavour) that has not completed and an environment whose scripted children answer like futures (`FutStepsF`),
  one call of the translated `poll` with task waker `w` does not panic (no out-of-bounds index, no underflow of
  `pending`, `WakerArray::get` finds the parent waker that `set_waker` has just stored, the `debug_assert`s of the
  completion path hold, no unwritten output slot is read), polls EVERY child still pending with the caller's own waker
  `Wk.par w`, returns the `Poll` value of the model's outcome and leaves a combinator + environment whose reading (`absJ`)
  is the model state after `Eng.poll joinSlice · w`: same mode (`direct`) / parent waker, states, `pending` counter
  (`fcore`), output slots and `consumed` flag (`jcore`), same remaining scripts, same handed-out wakers, same trace (the
  model's closing `pollEnd` is logged by the caller); `WfJ N` is kept while the join is pending.  As for the std flavour
  the `jcore` clause is stated for `ret = Pending`; for the completing poll the clause `TieJoinV.doneAgree`
  (FcProps/KTieCore.lean) says what agrees (the counterexample to the unconditional clause is repeated at the end of
  this file).  The hypothesis of the statement about the sub-wakers handed out before is NOT needed in this flavour (a
  stale sub-waker does nothing on either side in `direct` mode: `poll_tie_free` below is the statement without it); it
  is kept in `poll_tie` because the statement is proved unchanged.

  `drop_tie`: dropping a well-formed join releases the outputs of the `Ready` slots, then the children still
  `Pending`, in the order of the model's `Fix.dropStates`; scripts and handed-out wakers are untouched.
-/
import FcProps.KTieJoinDir
import FcLemmas.KTieJoinADPoll
import FcLemmas.KTieJoinADDrop

namespace Fc
open Rs Src

namespace TieJoinAD
open JoinAD

theorem poll_tie : poll_tie_statement := poll_tie_mainJ

theorem drop_tie : drop_tie_statement := drop_tie_mainJ

/-- the same refinement, and in addition what the NEXT call (a poll, or the drop) needs again: the children are the
    same in number, every sub-waker handed out so far belongs to a slot (no sub-waker is handed out by this flavour:
    the new ones are the caller's own `Wk.par w`), the remaining scripts still answer like futures, and the join is
    consumed exactly when it returned `Ready` -/
theorem poll_tie_strong (N : Nat) (g : Join) (b : Eng Fix) (w : Nat) (hW : WfJ N g) (hS : FutStepsF b.w)
    (hH : HandedIn N b.w) (hd : g.roleDone = false) :
    ∃ g' env' ret,
      Join.poll N g w ((absJ g b).w.emit (.pollBegin w)) = some (g', env', ret) ∧
      (ret = .pending → WfJ N g') ∧
      (ret = .pending → jcore (absJ g' b) = jcore (Eng.poll joinSlice (absJ g b) w)) ∧
      (ret ≠ .pending → TieJoinV.doneAgree (absJ g' b) (Eng.poll joinSlice (absJ g b) w)) ∧
      (env'.scripts = (Eng.poll joinSlice (absJ g b) w).w.scripts ∧
       env'.handed = (Eng.poll joinSlice (absJ g b) w).w.handed ∧
       (Eng.poll joinSlice (absJ g b) w).w.trace = .pollEnd (outcomeOfJoin ret) :: env'.trace) ∧
      g'.roleKids.len = N ∧ HandedIn N env' ∧ FutStepsF env' ∧
      (g'.roleDone = false ↔ ret = .pending) :=
  by
  obtain ⟨g', env', ret, h1, h2, h3, h4, h5, h6, h7, h8, h9⟩ := poll_tie_strongJ N g b w hW hS hd
  exact ⟨g', env', ret, h1, h2, h3, h4, h5, h6, h7 hH, h8, h9⟩

/-- the hypothesis about the wakers handed out before is not needed in this flavour: whatever the children were handed
    earlier (even sub-wakers of slots that do not exist), the refinement holds -/
theorem poll_tie_free (N : Nat) (g : Join) (b : Eng Fix) (w : Nat) (hW : WfJ N g) (hS : FutStepsF b.w)
    (hd : g.roleDone = false) :
    ∃ g' env' ret,
      Join.poll N g w ((absJ g b).w.emit (.pollBegin w)) = some (g', env', ret) ∧
      (ret = .pending → WfJ N g') ∧
      (ret = .pending → jcore (absJ g' b) = jcore (Eng.poll joinSlice (absJ g b) w)) ∧
      (ret ≠ .pending → TieJoinV.doneAgree (absJ g' b) (Eng.poll joinSlice (absJ g b) w)) ∧
      (env'.scripts = (Eng.poll joinSlice (absJ g b) w).w.scripts ∧
       env'.handed = (Eng.poll joinSlice (absJ g b) w).w.handed ∧
       (Eng.poll joinSlice (absJ g b) w).w.trace = .pollEnd (outcomeOfJoin ret) :: env'.trace) ∧
      g'.roleKids.len = N ∧ FutStepsF env' ∧
      (g'.roleDone = false ↔ ret = .pending) :=
  by
  obtain ⟨g', env', ret, h1, h2, h3, h4, h5, h6, _, h8, h9⟩ := poll_tie_strongJ N g b w hW hS hd
  exact ⟨g', env', ret, h1, h2, h3, h4, h5, h6, h8, h9⟩

/-- `Join::new` on an array of `N` children builds a well-formed join that has not completed (the hypotheses of
    `poll_tie` / `drop_tie` hold initially, for every `N`) -/
theorem new_wf (N : Nat) (kids : Rs.Kids) (hk : kids.len = N) :
    ∃ g, Join.new N kids = some g ∧ WfJ N g ∧ g.roleDone = false ∧ g.roleKids = kids := by
  obtain ⟨r, hr⟩ : ∃ r, DirArr.ReadinessArray.new N = some r := ⟨_, rfl⟩
  have h : ∃ g, Join.new N kids = some g ∧ g.roleDone = false ∧ g.roleCount = N ∧ g.roleItems = Rs.OutVec.uninit N ∧
      g.roleWakers = ⟨r⟩ ∧ g.roleStates = Rs.PVec.replicate N PS.PollState.pending ∧ g.roleKids = kids := by
    simp only [Join.new, WakerArrayD.new, hr, Option.bind_eq_bind, Option.bind_some, Option.pure_def]
    exact ⟨_, rfl, rfl, rfl, rfl, rfl, rfl, rfl⟩
  obtain ⟨g, h0, h1, h2, h3, h4, h5, h6⟩ := h
  refine ⟨g, h0, ⟨?_, ?_, ?_, ?_, ?_⟩, h1, h6⟩
  · rw [h6]; exact hk
  · rw [h5]; rfl
  · rw [h3]; rfl
  · have : (List.range N).filter (fun i => decide ((Rs.PVec.replicate N PS.PollState.pending).get i
        = PS.PollState.pending)) = List.range N := by
      apply List.filter_eq_self.mpr
      intro a _
      simp [Rs.PVec.replicate]
    rw [h2, h5, this, List.length_range]
  · intro i _
    rw [h5]
    exact Or.inl rfl

end TieJoinAD

/-! ## non-vacuity: a concrete instance of the hypotheses, and the conclusions checked by evaluation -/
namespace TieJoinADEx
open JoinAD TieJoinAD

/-- three futures; the first poll finds child 0 pending (it invokes the waker it is handed — the caller's own — during
    the poll), children 1 and 2 resolve -/
def sc : Nat → List Step := fun c =>
  if c = 0 then [⟨.pend, [(0, 0)]⟩, ⟨.ready true 7, []⟩]
  else if c = 1 then [⟨.ready true 8, []⟩]
  else if c = 2 then [⟨.ready true 9, []⟩] else []

def b0 : Eng Fix := { w := World.init .direct 3 sc, s := Fix.init 3 3 }

example : FutStepsF b0.w := by
  intro c st h
  simp only [b0, World.init, sc] at h
  split at h
  · simp at h; rcases h with rfl | rfl <;> simp
  · split at h
    · simp at h; subst h; simp
    · split at h
      · simp at h; subst h; simp
      · simp at h

example : ∀ c i, Wk.sub i ∈ b0.w.handed c → i < 3 := by
  intro c i h; simp [b0, World.init] at h

/-- the well-formedness hypothesis holds for the join the constructor builds from an array of three futures -/
example : ∃ g, Join.new 3 ⟨3⟩ = some g ∧ WfJ 3 g ∧ g.roleDone = false ∧ g.roleKids = ⟨3⟩ := new_wf 3 ⟨3⟩ rfl

/-- first poll of `Join::new([3 futures])`, checked by evaluation: the translated function does not panic, returns
    `Pending` like the model, and trace, `pending` counter, mode and parent waker, the states / output slots of the
    three children, the remaining scripts and the handed-out wakers (the caller's own waker `Wk.par 1`, three times)
    agree; the wake-up of child 0 during its poll is logged as `woke 1` and leaves no other mark -/
example :
    (do let g ← Join.new 3 ⟨3⟩
        let (g', env', ret) ← Join.poll 3 g 1 ((absJ g b0).w.emit (.pollBegin 1))
        let m := Eng.poll joinSlice (absJ g b0) 1
        let a := absJ g' b0
        pure (decide (m.w.trace = .pollEnd (outcomeOfJoin ret) :: env'.trace) &&
              decide (outcomeOfJoin ret = .pending) &&
              decide (a.s.n = m.s.n ∧ a.s.cnt = m.s.cnt ∧ m.s.cnt = 1 ∧ a.s.dead = m.s.dead) &&
              decide (a.w.mode = m.w.mode ∧ m.w.mode = .direct ∧ a.w.count = m.w.count ∧ a.w.cap = m.w.cap ∧
                a.w.parent = m.w.parent ∧ m.w.parent = some 1) &&
              (List.range 3).all (fun i => a.w.bits i == m.w.bits i && decide (a.s.st i = m.s.st i) &&
                decide (a.s.out i = m.s.out i) && decide (env'.handed i = m.w.handed i) &&
                decide (env'.handed i = [.par 1]) &&
                decide ((env'.scripts i).map (·.res) = (m.w.scripts i).map (·.res))) &&
              decide (env'.trace.take 3 = [.childDropped 2, .childEnd 2 (.ready true 9), .childBegin 2 2 (.par 1)]) &&
              decide (Ev.woke 1 ∈ env'.trace) &&
              decide (env'.trace.length = 11)))
      = some true := by decide

/-- second poll (child 0 resolves): the join completes with `[7, 8, 9]`, like the model; both sides are consumed -/
example :
    (do let g ← Join.new 3 ⟨3⟩
        let (g1, env1, _) ← Join.poll 3 g 1 ((absJ g b0).w.emit (.pollBegin 1))
        let b1 : Eng Fix := { w := env1.emit (.pollEnd .pending), s := b0.s }
        let (g2, env2, ret) ← Join.poll 3 g1 2 ((absJ g1 b1).w.emit (.pollBegin 2))
        let m := Eng.poll joinSlice (absJ g1 b1) 2
        let a := absJ g2 b1
        pure (decide (m.w.trace = .pollEnd (outcomeOfJoin ret) :: env2.trace) &&
              decide (outcomeOfJoin ret = .ready true [7, 8, 9]) &&
              decide (a.s.n = m.s.n ∧ a.s.cnt = m.s.cnt ∧ a.s.dead = true ∧ m.s.dead = true) &&
              decide (a.w.count = m.w.count ∧ a.w.parent = m.w.parent ∧ m.w.parent = some 2) &&
              (List.range 3).all (fun i => a.w.bits i == m.w.bits i && decide (a.s.st i = m.s.st i) &&
                decide (a.s.out i = none))))
      = some true := by decide

/-- the join dropped after the first poll: the output values 8 and 9 are released, then child 0 -/
example :
    (do let g ← Join.new 3 ⟨3⟩
        let (g1, env1, _) ← Join.poll 3 g 1 ((absJ g b0).w.emit (.pollBegin 1))
        let b1 : Eng Fix := { w := env1.emit (.pollEnd .pending), s := b0.s }
        let (_, env2, _) ← Join.drop 3 g1 ((absJ g1 b1).w.emit .dropBegin)
        pure (decide ((Eng.drop joinSlice (absJ g1 b1)).w.trace = .dropEnd :: env2.trace) &&
              decide (env2.trace.take 4 = [.childDropped 0, .valDropped 9, .valDropped 8, .dropBegin])))
      = some true := by decide

/-- what distinguishes this flavour from the std one: a child that is still pending is polled AGAIN on the next poll
    although nobody woke it (there is no flag to consult), and with the new task waker.  Two futures: child 0 answers
    `Pending` without invoking any waker, child 1 resolves; on the second poll child 0 is polled with `Wk.par 2` -/
def scQ : Nat → List Step := fun c =>
  if c = 0 then [⟨.pend, []⟩, ⟨.pend, []⟩] else if c = 1 then [⟨.ready true 8, []⟩] else []
def bQ : Eng Fix := { w := World.init .direct 2 scQ, s := Fix.init 2 2 }

example :
    (do let g ← Join.new 2 ⟨2⟩
        let (g1, env1, _) ← Join.poll 2 g 1 ((absJ g bQ).w.emit (.pollBegin 1))
        let b1 : Eng Fix := { w := env1.emit (.pollEnd .pending), s := bQ.s }
        let (g2, env2, ret) ← Join.poll 2 g1 2 ((absJ g1 b1).w.emit (.pollBegin 2))
        let m := Eng.poll joinSlice (absJ g1 b1) 2
        pure (decide (m.w.trace = .pollEnd (outcomeOfJoin ret) :: env2.trace) &&
              decide (outcomeOfJoin ret = .pending) &&
              decide ((absJ g2 b1).s.cnt = m.s.cnt ∧ m.s.cnt = 1) &&
              decide (env2.trace.take 3 = [.childEnd 0 .pend, .childBegin 0 0 (.par 2), .pollBegin 2]) &&
              decide (env2.handed 0 = [.par 2, .par 1] ∧ env2.handed 1 = [.par 1])))
      = some true := by decide

/-- the hypothesis of `poll_tie` about the sub-wakers handed out before is not needed (`poll_tie_free`): an environment
    in which child 0 still holds a sub-waker of the non-existent slot 99 and invokes it during its poll — nothing
    happens on either side, the traces agree -/
def scS : Nat → List Step := fun c => if c = 0 then [⟨.pend, [(0, 1), (0, 0)]⟩] else []
def bS : Eng Fix :=
  { w := { World.init .direct 1 scS with handed := fun c => if c = 0 then [.sub 99] else [] }, s := Fix.init 1 1 }

example : ¬ (∀ c i, Wk.sub i ∈ bS.w.handed c → i < 1) := by
  intro h
  have := h 0 99 (by simp [bS])
  omega

example :
    (do let g ← Join.new 1 ⟨1⟩
        let (_, env', ret) ← Join.poll 1 g 5 ((absJ g bS).w.emit (.pollBegin 5))
        let m := Eng.poll joinSlice (absJ g bS) 5
        pure (decide (m.w.trace = .pollEnd (outcomeOfJoin ret) :: env'.trace) &&
              decide (env'.trace = [.childEnd 0 .pend, .woke 5, .fired 0 0 (some (.par 5)),
                .fired 0 1 (some (.sub 99)), .childBegin 0 0 (.par 5), .pollBegin 5]) &&
              decide (env'.handed 0 = m.w.handed 0)))
      = some true := by decide

/-- why the `jcore` clause of the statement is restricted to `ret = Pending` (as for the std flavour): one child that
    resolves with 7 — after the completing poll the crate's slot 0 is empty (`OutputArray::take`) where the model's `out 0`
    still holds 7, and the crate's state of the non-existent slot 5 is what `PollArray::new` put there where the model's
    table is reset -/
def scC : Nat → List Step := fun c => if c = 0 then [⟨.ready true 7, []⟩] else []
def bC : Eng Fix := { w := World.init .direct 1 scC, s := Fix.init 1 1 }

example :
    (do let g ← Join.new 1 ⟨1⟩
        let (g', _, _) ← Join.poll 1 g 1 ((absJ g bC).w.emit (.pollBegin 1))
        let m := Eng.poll joinSlice (absJ g bC) 1
        let a := absJ g' bC
        pure (decide (a.s.out 0 = none ∧ m.s.out 0 = some 7 ∧ a.s.st 5 = .pending ∧ m.s.st 5 = .none)))
      = some true := by decide

end TieJoinADEx

#print axioms TieJoinAD.poll_tie
#print axioms TieJoinAD.drop_tie
#print axioms TieJoinAD.poll_tie_strong
#print axioms TieJoinAD.poll_tie_free
#print axioms TieJoinAD.new_wf

end Fc
