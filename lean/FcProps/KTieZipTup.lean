/-
  Kernel tie, the TUPLE container of `zip` — `(A, B, …).zip()` and `StreamExt::zip` (src/stream/zip/tuple.rs,
  `impl_zip_for_tuple!`, the structs `Zip1 … Zip12`).  The source of this unit is rustc's macro expansion of the CURRENT
  tuple.rs, normalised by tools/tuple_norm.py over a const generic `N` after checking that the twelve arities agree (the
  children are fields of the struct itself and are read as one array; the row buffer `<mod>::Output` — one `MaybeUninit` per
  child, `Default` = all uninitialised — is read as the array of the array container; the dispatch `match index {
  <mod>::F => { … } … _ => unreachable!() }` over the constants `<mod>::F = Indexes::F as usize` is folded into one indexed
  body behind `assert!(index < N)`; the per-child `if state[<mod>::F].is_ready() { output.F.assume_init_drop() }` of the
  destructor is folded into a loop) → tools/rs2lean.py → FcGen/KSrcTup4.lean, namespace `ZipT`.  The translated
  `Zip::poll_next` / `Zip::drop` refine `Eng.poll zip` / `Eng.drop zip` of the model, as for the array container
  (FcProps/KTieZipArr.lean).  Proofs: FcProps/KTieZipT.lean.
-/
import FcGen.KSrcTup4
import FcProps.KTieCore
import FcProps.KTieStd
import FcProps.KTiePS

namespace Fc
open Rs Src

namespace TieZipT
open ZipT

def absZ (g : Zip) (b : Eng Fix) : Eng Fix :=
  { w := TieArr.abs g.roleWakers.readiness b.w,
    s := { b.s with n := g.roleKids.len, st := fun i => TiePS.abs (g.roleStates.get i), out := g.roleItems.get,
                    dead := g.roleDone } }

/-- a slot is `Ready` exactly when it buffers an item of the current row; at least one input -/
structure WfZ (N : Nat) (g : Zip) : Prop where
  kn : g.roleKids.len = N
  rd : TieArr.Wf N g.roleWakers.readiness
  sl : g.roleStates.len = N
  ic : g.roleItems.cap = N
  pos : 0 < N
  rs : ∀ i, i < N → ((g.roleStates.get i = PS.PollState.pending ∧ g.roleItems.get i = none) ∨
        (g.roleStates.get i = PS.PollState.ready ∧ ∃ v, g.roleItems.get i = some v))

def poll_tie_statement : Prop :=
  ∀ (N : Nat) (g : Zip) (b : Eng Fix) (w : Nat),
    WfZ N g → StreamStepsF b.w → (∀ c i, Wk.sub i ∈ b.w.handed c → i < N) → g.roleDone = false →
    ∃ g' env' ret,
      Zip.poll_next N g w ((absZ g b).w.emit (.pollBegin w)) = some (g', env', ret) ∧
      (ret ≠ .ready none → WfZ N g') ∧
      jcore (absZ g' b) = jcore (Eng.poll zip (absZ g b) w) ∧
      env'.scripts = (Eng.poll zip (absZ g b) w).w.scripts ∧
      env'.handed = (Eng.poll zip (absZ g b) w).w.handed ∧
      (Eng.poll zip (absZ g b) w).w.trace = .pollEnd (outcomeOfZip ret) :: env'.trace

/-- `PinnedDrop::drop` releases the buffered items of the unfinished row (they are never yielded); the inputs themselves
    are plain fields, dropped by the struct's drop glue right after, in order -/
def drop_tie_statement : Prop :=
  ∀ (N : Nat) (g : Zip) (b : Eng Fix),
    WfZ N g →
    ∃ g' env',
      Zip.drop N g ((absZ g b).w.emit .dropBegin) = some (g', env', ()) ∧
      (Eng.drop zip (absZ g b)).w.trace =
        .dropEnd :: (((List.range N).map (fun i => Ev.childDropped i)).reverse ++ env'.trace)

end TieZipT
end Fc
