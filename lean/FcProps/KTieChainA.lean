/-
  Kernel tie, fixed families — `[S; N]::chain()` (src/stream/chain/array.rs), direct strategy, policy `chain`.
  The array counterpart of FcProps/KTieChainA.lean, ported from it.

  `TieChainA.poll_tie` proves `TieChainA.poll_tie_statement` of FcProps/KTieChainArr.lean, unchanged: for every length
  `N` (the const generic of the source), every translated `Chain` value `g` that is well-formed (`WfC N`: there are `N`
  inputs, `len = N`, `index ≤ len`) and not yet `done`, and every environment whose children are scripted streams
  (`StreamStepsF`), the `poll_next` function TRANSLATED FROM THE SOURCE (`ChainA.Chain.poll_next N`,
  FcGen/KSrcArr5.lean; the Rust `loop` is `Rs.loopFuel` with fuel `index + len + 1`) does not panic and does not run
  out of fuel, returns a well-formed `g'`, and agrees with one `Eng.poll chain` of the model on: number of inputs,
  current index, `done` flag, the remaining scripts, the wakers handed out, and the whole event trace (the model's
  trace is the translated code's trace plus the closing `pollEnd` of the returned value).
  `poll_tie_strong` adds what is needed to apply the theorem to the next poll: `StreamStepsF env'`, same inputs.
  (`Chain` has no `PinnedDrop` in the source and KTieChainArr.lean states no drop tie for it: there is no `drop_tie`.
  No constructor `new` is translated into FcGen/KSrcArr5.lean either — as for the Vec container — so there is no
  `new_wf`; the examples below build the initial value by hand.)

  Proof structure (helpers in FcLemmas/KTieChainEnv.lean — shared with the Vec proof, it does not mention the
  container — and FcLemmas/KTieChainALoop.lean):
    (a) `TieDirect.pollChild_tie` (race's direct-strategy lemma) lifted to `Rs.pollStream`:
        `ch_pollStream_pend/item/fin`   `Rs.pollStream … (Wk.par cx)` = `World.pollChild c c`;
    (b) `ch_visit_pend/item/fin`, `ch_poll_live`, `ch_close_some/none`   the model side unfolded for chain;
    (c) `BodySpec`   what one iteration of the translated loop body does, by cases, through roles only;
        `poll_tie_strong` below proves it for the body taken from the generated definition by unification;
    (d) `ch_loop`    `Rs.loopFuel` with that body refines `Eng.close chain ∘ Eng.scan chain` over
        `List.range' index (len - index)` (induction on the number of inputs still to visit; fuel suffices).
  The proofs address the generated structure through its `role…` abbreviations only.
-/
import FcProps.KTieChainArr
import FcLemmas.KTieChainALoop
import FcLemmas.KTieLoopCore

set_option linter.unusedSimpArgs false
set_option linter.unusedVariables false

namespace Fc
open Rs Src

namespace TieChainA
open ChainA TieDirect TieLoop TieChainEnv

local macro "unroles" : tactic =>
  `(tactic| try simp only [absC, Chain.roleKids, Chain.roleIndex, Chain.roleLen, Chain.roleDone] at *)

/-- the statement, plus: the environment handed back is again one of scripted streams (so the theorem applies to the
    next poll as well) and the number of inputs is unchanged -/
theorem poll_tie_strong (N : Nat) (g : Chain) (b : Eng Fix) (w : Nat) (hwf : WfC N g) (hfs : StreamStepsF b.w)
    (hd : g.roleDone = false) :
    ∃ g' env' ret,
      Chain.poll_next N g w (((absC g b).w.emit (.pollBegin w)).setWaker w) = some (g', env', ret) ∧
      (WfC N g' ∧
      (absC g' b).s.n = (Eng.poll chain (absC g b) w).s.n ∧
      (absC g' b).s.cnt = (Eng.poll chain (absC g b) w).s.cnt ∧
      (absC g' b).s.dead = (Eng.poll chain (absC g b) w).s.dead ∧
      env'.scripts = (Eng.poll chain (absC g b) w).w.scripts ∧
      env'.handed = (Eng.poll chain (absC g b) w).w.handed ∧
      (Eng.poll chain (absC g b) w).w.trace = .pollEnd (outcomeOfStream ret) :: env'.trace) ∧
      StreamStepsF env' ∧ g'.roleKids.len = g.roleKids.len := by
  obtain ⟨hkn, hln, hix⟩ := hwf
  have hlive : (absC g b).s.dead = false := hd
  rw [ch_poll_live _ _ hlive]
  generalize he0 : ({ w := ((absC g b).w.emit (.pollBegin w)).setWaker w, s := (absC g b).s } : Eng Fix) = e0
  have hcnt : (absC g b).s.cnt = g.roleIndex := rfl
  have hn : (absC g b).s.n = g.roleLen := rfl
  rw [hcnt, hn]
  generalize hE : Eng.close chain (Eng.scan chain (List.range' g.roleIndex (g.roleLen - g.roleIndex)) e0) = E
  suffices hs : ∃ y : Chain × World × Rs.Poll (Option Nat),
      Chain.poll_next N g w (((absC g b).w.emit (.pollBegin w)).setWaker w) = some y ∧
      (WfC N y.1 ∧ (absC y.1 b).s.n = E.s.n ∧ (absC y.1 b).s.cnt = E.s.cnt ∧ (absC y.1 b).s.dead = E.s.dead ∧
        y.2.1.scripts = E.w.scripts ∧ y.2.1.handed = E.w.handed ∧
        E.w.trace = .pollEnd (outcomeOfStream y.2.2) :: y.2.1.trace) ∧
        StreamStepsF y.2.1 ∧ y.1.roleKids.len = g.roleKids.len by
    obtain ⟨⟨g', env', ret⟩, h1, h2⟩ := hs
    exact ⟨g', env', ret, h1, h2⟩
  unfold Chain.poll_next
  have hd' := hd
  unroles
  simp only [hd', Bool.not_false, if_true, Option.pure_def, Option.bind_eq_bind, Option.bind_some]
  refine bind_spec _ _ (Post g.roleLen E) _ ?_ ?_
  · -- the loop
    rw [← hE]
    refine ch_loop w g.roleLen _ ?hb (g.roleLen - g.roleIndex) g _ e0 _ ?_ ?_ rfl (hkn.trans hln.symm) hd ?_ ?_ ?_ ?_ rfl rfl hfs
    case hb =>
      refine ⟨?_, ?_, ?_, ?_⟩
      · intro g env h
        unroles
        simp only [h, beq_self_eq_true, if_true]
        exact ⟨_, rfl, rfl, rfl, rfl, rfl⟩
      · intro g env env' hne hlt hp
        have hb : (g.roleIndex == g.roleLen) = false := by simpa using hne
        unroles
        simp [hb, Kids.get, hlt, expect, hp]
      · intro g env env' v hne hlt hp
        have hb : (g.roleIndex == g.roleLen) = false := by simpa using hne
        unroles
        simp [hb, Kids.get, hlt, expect, hp]
      · intro g env env' hne hlt hp
        have hb : (g.roleIndex == g.roleLen) = false := by simpa using hne
        refine ⟨?g', ?h, ?_, ?_, ?_, ?_⟩
        case h =>
          unroles
          simp only [hb, Kids.get, hlt, expect, hp, uadd, Bool.false_eq_true, if_false, if_true, Option.pure_def,
            Option.bind_eq_bind, Option.bind_some]
          rfl
        all_goals rfl
    · unroles; omega
    · unroles; omega
    · subst he0; rfl
    · subst he0; rfl
    · subst he0; rfl
    · subst he0; exact hd
  · -- after the loop
    rintro ⟨⟨self, env⟩, r⟩ ⟨v, hr, hl, hk, hi, hEn, hEc, hEd, hsc, hha, htr, hss⟩
    simp only at hr hl hk hi hEn hEc hEd hsc hha htr hss
    subst hr
    exact ⟨(self, env, v), rfl, ⟨⟨hk.trans hln, hl.trans hln, by rw [hl]; exact hi⟩, hl.trans hEn.symm, hEc.symm, hEd.symm,
      hsc, hha, htr⟩, hss, hk.trans (hkn.trans hln.symm).symm⟩

theorem poll_tie : poll_tie_statement := by
  intro N g b w hwf hfs hd
  obtain ⟨g', env', ret, h1, h2, -, -⟩ := poll_tie_strong N g b w hwf hfs hd
  exact ⟨g', env', ret, h1, h2⟩

/-! ### a concrete run: the hypotheses hold, the conclusion is checked by evaluation -/

def scr : Nat → List Step := fun c =>
  if c = 0 then [⟨.item 1, []⟩, ⟨.pend, [(0, 0)]⟩, ⟨.item 2, []⟩, ⟨.fin, []⟩]
  else if c = 1 then [⟨.fin, []⟩] else [⟨.item 7, []⟩, ⟨.fin, []⟩]

def b0 : Eng Fix := { w := World.init .direct 3 scr, s := Fix.init 3 0 }
/-- three inputs, at the first one, not done -/
def g0 : Chain := ⟨⟨3⟩, 0, 3, false⟩

example : WfC 3 g0 := ⟨rfl, rfl, by decide⟩
example : g0.roleDone = false := rfl
example : StreamStepsF b0.w := by
  intro c st h
  simp only [b0, World.init, scr] at h
  split at h
  · simp at h; rcases h with rfl | rfl | rfl | rfl <;> simp
  · split at h
    · simp at h; subst h; simp
    · simp at h; rcases h with rfl | rfl <;> simp

/-- everything the theorem's conclusion compares, as a Boolean (`N = 3`) -/
def agrees (g : Chain) (b : Eng Fix) (w : Nat) : Option Bool :=
  (Chain.poll_next 3 g w (((absC g b).w.emit (.pollBegin w)).setWaker w)).map fun y =>
    decide ((absC y.1 b).s.n = (Eng.poll chain (absC g b) w).s.n) &&
    decide ((absC y.1 b).s.cnt = (Eng.poll chain (absC g b) w).s.cnt) &&
    decide ((absC y.1 b).s.dead = (Eng.poll chain (absC g b) w).s.dead) &&
    decide ((Eng.poll chain (absC g b) w).w.trace = .pollEnd (outcomeOfStream y.2.2) :: y.2.1.trace) &&
    decide ((List.range 4).map (fun c => (y.2.1.scripts c).map fun st => (st.res, st.fires)) =
      (List.range 4).map (fun c => ((Eng.poll chain (absC g b) w).w.scripts c).map fun st => (st.res, st.fires))) &&
    decide ((List.range 4).map y.2.1.handed = (List.range 4).map (Eng.poll chain (absC g b) w).w.handed)

/-- the translated code, iterated: the state after the polls with the given task wakers -/
def runT : List Nat → Option (Chain × World)
  | [] => some (g0, b0.w)
  | w :: ws => do
    let (g, env) ← runT ws
    let (g', env', r) ← Chain.poll_next 3 g w ((env.emit (.pollBegin w)).setWaker w)
    pure (g', env'.emit (.pollEnd (outcomeOfStream r)))

/-- first poll: input 0 yields 1 -/
example : agrees g0 b0 1 = some true := by decide
example : (Eng.poll chain (absC g0 b0) 1).w.trace =
    [.pollEnd (.some 0 [1]), .childEnd 0 (.item 1), .childBegin 0 0 (.par 1), .pollBegin 1] := by decide
/-- fourth poll (item, pending + self-wake, item before): input 0 ends, input 1 ends at once, input 2 yields 7 —
    three turns of the `loop` in one `poll_next`, the index moves from 0 to 2 -/
def g3 : Chain := ⟨⟨3⟩, 0, 3, false⟩
def b3 : Eng Fix := Eng.poll chain (Eng.poll chain (Eng.poll chain (absC g0 b0) 1) 2) 3
example : agrees g3 b3 4 = some true := by decide
/-- `g3`, `b3` are where the translated code itself stands after three polls -/
example : (runT [3, 2, 1]).map (fun x => (x.1.roleIndex, x.1.roleDone, decide (x.2.trace = b3.w.trace))) =
    some (g3.roleIndex, g3.roleDone, true) := by decide
example : ((Chain.poll_next 3 g3 4 (((absC g3 b3).w.emit (.pollBegin 4)).setWaker 4)).map
    fun y => (y.1.roleIndex, y.1.roleDone, outcomeOfStream y.2.2)) = some (2, false, .some 0 [7]) := by decide
/-- fifth poll: input 2 ends, nothing is left: `done` is set, `Ready(None)` -/
def g4 : Chain := ⟨⟨3⟩, 2, 3, false⟩
def b4 : Eng Fix := Eng.poll chain (absC g3 b3) 4
example : agrees g4 b4 5 = some true := by decide
example : (runT [4, 3, 2, 1]).map (fun x => (x.1.roleIndex, x.1.roleDone, decide (x.2.trace = b4.w.trace))) =
    some (g4.roleIndex, g4.roleDone, true) := by decide
example : ((Chain.poll_next 3 g4 5 (((absC g4 b4).w.emit (.pollBegin 5)).setWaker 5)).map
    fun y => (y.1.roleIndex, y.1.roleDone, outcomeOfStream y.2.2)) = some (3, true, .none) := by decide
/-- the hypothesis `StreamStepsF` is needed: a child answering like a future is ill-typed for `Stream::poll_next`, the
    translated code panics there -/
example : (Chain.poll_next 3 g0 1 (World.init .direct 3 (fun _ => [⟨.ready true 5, []⟩]))).isNone = true := by decide
/-- so is `WfC.kn` (with `ln`): with `N = len = 2` but one input actually present the indexing `streams[index]` panics -/
example : (Chain.poll_next 2 ⟨⟨1⟩, 1, 2, false⟩ 1 (World.init .direct 1 scr)).isNone = true := by decide
/-- and `roleDone = false`: polling a finished chain is the `assert!` at the top of `poll_next` -/
example : (Chain.poll_next 3 ⟨⟨3⟩, 3, 3, true⟩ 1 (World.init .direct 3 scr)).isNone = true := by decide

end TieChainA

#print axioms TieChainA.poll_tie_strong
#print axioms TieChainA.poll_tie

end Fc
