/-
  C01 (second sentence) — liveness of a NEST of combinators (one level of nesting) under a wake-only
  executor.

  Setting.  Fc/Nest.lean: an outer combinator some of whose children are inner combinator instances
  over scripted leaves (leaf `g` of the inner instance in outer slot `c` has the global id
  `Nest.leafId c g = 100 * (c + 1) + g`).  Fc/ExecN.lean: the executor polls the nest — with a FRESH
  task waker on every poll — only if the task has been woken since the previous top-level poll began
  (`Mon.wokeSince` on the OUTER trace), or the nest was never polled, or the previous poll yielded an
  item (`Exec.shouldPoll`).  Otherwise the environment lets the first waiting scripted child
  (`ExecN.firstWaiting`: a plain outer child whose latest answer was `Pending`, or a leaf whose
  latest answer to its inner instance was `Pending` while the nested child's latest answer to the
  outer instance was `Pending` and it has not been released; scripted step left) make progress by
  invoking the waker it was handed in its most recent poll (`Nest.fire nc s id 0`).  `ExecN.round` is
  one such step (`none`: final outcome, or stuck); `ExecN.runFor nc k` runs up to `k` rounds;
  `ExecN.stepsLeft` = scripted steps left of the plain children and of the leaves of the nested
  children that have not been released.

  Hypotheses, all on `nc`:
    * `ExecN.futFam fam k` — `fam` is one of join / try_join (array/Vec and tuple models), race,
      race_ok (three variants); a race has at least one child;
      `ExecN.strFam fam k` — `fam` is one of merge, chain, zip; a zip has at least one input;
    * `ExecN.wellFormed nc` — at most 100 outer children and at most 100 leaves per inner instance
      (so that global ids decode);
    * `ExecN.futScripts nc` — every plain child and every leaf is a well-behaved future
      (`Exec.futureScript`: `Pending` any number of times, each time with ARBITRARY in-poll wake-ups,
      then `Ready`); `LiveN.strScripts nc` — … a well-behaved stream (`streamScript`: any finite mix
      of `Pending` steps with arbitrary in-poll wake-ups and items, then the end).
      The generator's restriction on the targets of in-poll wake-ups (header of Fc/Nest.lean) is NOT
      needed.

  Theorems: the run from `Nest.init nc` reaches the final outcome of the outer instance within
  `3 * stepsLeft + 1` rounds —
    `C01_nest_join_join_resolves`  (a) outer join, every child nested, every inner instance a join;
    `C01_nest_join_resolves`       (b) outer join, any mix of plain children and nested children
                                   whose inner family is join / try_join / race / race_ok;
    `C01_nest_race_resolves`       (c) outer race (at least one child), same mix;
    `C01_nest_fut_resolves`        outer any of the eight future families, same mix: `Ready`;
    `C01_nest_stream_ends`         (d) outer merge / chain / zip over any mix of plain streams and
                                   nested merge / chain / zip: `None`.
  Measured (21 000 pseudo-random nests of futures and of streams, up to 3 outer children, up to 3
  leaves each, scripts of up to 4 steps with up to 2 in-poll wake-ups of current and stale wakers):
  no stuck run, `rounds ≤ 3 * stepsLeft + 1` always, with equality only for `stepsLeft = 0`; the
  factor 3 is attained asymptotically (`C01_nest_resolves_bound2_false`: the tentative bound
  `2 * stepsLeft + 2` is false — a leaf whose every `Pending` step invokes the stale waker of a
  resolved sibling leaf costs an unproductive top-level poll, a prod and a productive poll per step).

  Proof (FcLemmas/LiveN*.lean).  The nest is ONE system: its measure is the number of scripted steps
  left of the plain children and of the leaves of the nested children that have not resolved /
  ended; its run invariant (`LiveN.LBN` for futures, `LiveN.SBN` for streams) is the safety invariant
  of the nest (`Nest.NInv` behind `C01_nest`), the flat liveness invariant (`Live2.LB`; `Live3.LBS` /
  `Live3.LBC` through the interface `LiveN.SLive`) of every inner instance whose nested child has not
  finished, and the flat liveness invariant of the OUTER instance with VIRTUAL scripts for the nested
  children: in the model a nested child owns the one-step script computed from the inner instance's
  speculative poll; `Nest.poll_ss` shows that a poll only looks at the first step of each script
  when no slot is scanned twice, so the outer poll equals the poll of the outer instance in which
  the nested child owns `[step, Ready]` (`[step, None]`), a well-behaved script — and the flat
  lemmas apply to it unchanged.  A prod of a waiting leaf wakes the task (`C01_nest`'s link
  invariant + C01 of both levels), the next round polls the nest, the outer instance polls the
  nested child (C20 for the outer instance; for an outer chain: C01 in pass-through mode), the
  speculative inner poll is committed and the inner instance polls the leaf (C20 for the inner
  instance), which consumes a step.  A top-level poll in which ANY waker was invoked polled a child
  with in-poll wake-ups (`Nest.poll_woke_fires`): a plain child (a step consumed), or a nested child
  whose inner instance invoked a waker, hence polled a leaf — so a poll that consumes no step leaves
  the task unwoken, and the next round is a prod.  A top-level poll that yields an item polled a
  child that answered with an item (`LiveN.poll_item`): a plain stream (a step consumed) or a nested
  one whose inner instance yielded, hence consumed a step.
-/
import FcLemmas.LiveNInst
import FcLemmas.LiveNSInst
import Fc.Holds

namespace Fc
open Mon

/-- (d) outer ∈ {merge, chain, zip} over any mix of plain streams and nested stream combinators
    (merge, chain, zip; a zip has at least one input): the nest ends within `3 * stepsLeft + 1`
    rounds -/
theorem C01_nest_stream_ends (nc : Nest.NCase) (ho : ExecN.strFam nc.outer nc.n = true)
    (hi : ∀ c fam k, nc.inner c = some (fam, k) → ExecN.strFam fam k = true)
    (hwf : ExecN.wellFormed nc = true) (hs : LiveN.strScripts nc = true) :
    ∃ k, k ≤ 3 * ExecN.stepsLeft nc (Nest.init nc) + 1 ∧
      lastOut (ExecN.runFor nc k (Nest.init nc)).out.w.trace = some .none :=
  LiveN.nest_str_ends nc ho hi hwf hs

/-- outer = any future family, children = any mix of plain futures and nested future
    combinators: the nest resolves within `3 * stepsLeft + 1` rounds -/
theorem C01_nest_fut_resolves (nc : Nest.NCase) (ho : ExecN.futFam nc.outer nc.n = true)
    (hi : ∀ c fam k, nc.inner c = some (fam, k) → ExecN.futFam fam k = true)
    (hwf : ExecN.wellFormed nc = true) (hs : ExecN.futScripts nc = true) :
    ∃ k, k ≤ 3 * ExecN.stepsLeft nc (Nest.init nc) + 1 ∧
      ∃ ok vals, lastOut (ExecN.runFor nc k (Nest.init nc)).out.w.trace = some (.ready ok vals) := by
  obtain ⟨k, hk, ok, vals, hv, _⟩ := LiveN.nest_fut_resolves nc ho hi hwf hs
  exact ⟨k, hk, ok, vals, hv⟩

/-- (b) outer = join (both models), any mix of plain children and nested children whose inner
    family is join / try_join / race / race_ok -/
theorem C01_nest_join_resolves (nc : Nest.NCase)
    (ho : nc.outer = .joinSlice ∨ nc.outer = .joinTuple)
    (hi : ∀ c fam k, nc.inner c = some (fam, k) → ExecN.futFam fam k = true)
    (hwf : ExecN.wellFormed nc = true) (hs : ExecN.futScripts nc = true) :
    ∃ k, k ≤ 3 * ExecN.stepsLeft nc (Nest.init nc) + 1 ∧
      ∃ vals, lastOut (ExecN.runFor nc k (Nest.init nc)).out.w.trace = some (.ready true vals) := by
  have hof : ExecN.futFam nc.outer nc.n = true := by
    rcases ho with h | h <;> rw [h] <;> rfl
  obtain ⟨k, hk, ok, vals, hv, hF⟩ := LiveN.nest_fut_resolves nc hof hi hwf hs
  have hok : ok = true := by
    rcases ho with h | h <;> rw [h] at hF <;> exact hF
  subst hok
  exact ⟨k, hk, vals, hv⟩

/-- (a) outer = join (both models), every child nested, every inner instance a join (both
    models) -/
theorem C01_nest_join_join_resolves (nc : Nest.NCase)
    (ho : nc.outer = .joinSlice ∨ nc.outer = .joinTuple)
    (hi : ∀ c, ∃ k, nc.inner c = some (.joinSlice, k) ∨ nc.inner c = some (.joinTuple, k))
    (hwf : ExecN.wellFormed nc = true) (hs : ExecN.futScripts nc = true) :
    ∃ k, k ≤ 3 * ExecN.stepsLeft nc (Nest.init nc) + 1 ∧
      ∃ vals, lastOut (ExecN.runFor nc k (Nest.init nc)).out.w.trace = some (.ready true vals) := by
  refine C01_nest_join_resolves nc ho ?_ hwf hs
  intro c fam k hin
  obtain ⟨k', h | h⟩ := hi c <;> rw [h] at hin <;> cases hin <;> rfl

/-- (c) outer = race with at least one child: the nest resolves to one value -/
theorem C01_nest_race_resolves (nc : Nest.NCase) (ho : nc.outer = .race) (hn : 0 < nc.n)
    (hi : ∀ c fam k, nc.inner c = some (fam, k) → ExecN.futFam fam k = true)
    (hwf : ExecN.wellFormed nc = true) (hs : ExecN.futScripts nc = true) :
    ∃ k, k ≤ 3 * ExecN.stepsLeft nc (Nest.init nc) + 1 ∧
      ∃ v, lastOut (ExecN.runFor nc k (Nest.init nc)).out.w.trace = some (.ready true [v]) := by
  have hof : ExecN.futFam nc.outer nc.n = true := by
    rw [ho]; simpa [ExecN.futFam] using hn
  obtain ⟨k, hk, ok, vals, hv, hF⟩ := LiveN.nest_fut_resolves nc hof hi hwf hs
  rw [ho] at hF
  obtain ⟨hok, v, hvals⟩ := hF
  subst hok; subst hvals
  exact ⟨k, hk, v, hv⟩

/-! ### the factor 3 -/

/-- the statement with the tentative bound `2 * stepsLeft + 2` -/
def C01_nest_resolves_bound2_statement : Prop :=
  ∀ nc : Nest.NCase, (nc.outer = .joinSlice ∨ nc.outer = .joinTuple) →
    (∀ c fam k, nc.inner c = some (fam, k) → ExecN.futFam fam k = true) →
    ExecN.wellFormed nc = true → ExecN.futScripts nc = true →
    ∃ k, k ≤ 2 * ExecN.stepsLeft nc (Nest.init nc) + 2 ∧
      ∃ vals, lastOut (ExecN.runFor nc k (Nest.init nc)).out.w.trace = some (.ready true vals)

/-- a join of one nested join (std mode): leaf 100 resolves at once; each of leaf 101's seven
    `Pending` steps invokes leaf 100's stale waker -/
def C01liveN_slow : Nest.NCase :=
  { mode := .std, outer := .joinTuple, n := 1,
    inner := fun c => if c = 0 then some (.joinTuple, 2) else none,
    scripts := fun id =>
      if id = 100 then [⟨.ready true 1, []⟩]
      else if id = 101 then
        [⟨.pend, [(100, 0)]⟩, ⟨.pend, [(100, 0)]⟩, ⟨.pend, [(100, 0)]⟩, ⟨.pend, [(100, 0)]⟩,
         ⟨.pend, [(100, 0)]⟩, ⟨.pend, [(100, 0)]⟩, ⟨.pend, [(100, 0)]⟩, ⟨.ready true 2, []⟩]
      else [],
    ops := [] }

set_option maxRecDepth 100000 in
/-- 9 scripted steps, but after `2 * 9 + 2 = 20` rounds the nest is still pending (it resolves in
    round 22) -/
theorem C01_nest_resolves_bound2_false : ¬ C01_nest_resolves_bound2_statement := by
  intro h
  have h1 := h C01liveN_slow (Or.inr rfl) (by
    intro c fam k hin
    simp only [C01liveN_slow] at hin
    split at hin
    · cases hin; rfl
    · cases hin) (by decide) (by decide)
  obtain ⟨k, hk, vals, hv⟩ := h1
  have hS : ExecN.stepsLeft C01liveN_slow (Nest.init C01liveN_slow) = 9 := by decide
  rw [hS] at hk
  have hall : ∀ k, k ≤ 20 → Exec.finalOut (Mon.lastOut
      (ExecN.runFor C01liveN_slow k (Nest.init C01liveN_slow)).out.w.trace) = false := by
    decide
  have := hall k (by omega)
  rw [hv] at this
  exact Bool.noConfusion this

/-! ### non-vacuity -/

/-- outer join (tuple model) over 2 children: child 0 = an inner join over the leaves 100, 101;
    child 1 plain.  Leaf 100 resolves at once; each `Pending` step of leaf 101 invokes the STALE
    waker of its resolved sibling leaf 100 (std mode: the inner join's sub-waker of slot 0 sets the
    bit and wakes the inner instance's task waker, which is the waker the outer join handed to child
    0 — the outer join wakes the task: an unproductive top-level poll follows) -/
def C01liveN_example (m : Mode) : Nest.NCase :=
  { mode := m, outer := .joinTuple, n := 2,
    inner := fun c => if c = 0 then some (.joinTuple, 2) else none,
    scripts := fun id =>
      if id = 100 then [⟨.ready true 1, []⟩]
      else if id = 101 then [⟨.pend, [(100, 0)]⟩, ⟨.pend, [(100, 0)]⟩, ⟨.ready true 2, []⟩]
      else if id = 1 then [⟨.pend, []⟩, ⟨.ready true 5, []⟩]
      else [],
    ops := [] }

example : ExecN.wellFormed (C01liveN_example .std) = true := by decide
example : ExecN.futScripts (C01liveN_example .std) = true := by decide
example : ExecN.stepsLeft (C01liveN_example .std) (Nest.init (C01liveN_example .std)) = 6 := by decide

set_option maxRecDepth 100000 in
/-- std mode: resolves after 6 top-level polls and 3 prods (9 rounds ≤ 3 * 6 + 1) -/
example : lastOut (ExecN.runFor (C01liveN_example .std) 9 (Nest.init (C01liveN_example .std))).out.w.trace
    = some (.ready true [9000, 5]) := by decide
set_option maxRecDepth 100000 in
example : lastOut (ExecN.runFor (C01liveN_example .std) 8 (Nest.init (C01liveN_example .std))).out.w.trace
    = some .pending := by decide
set_option maxRecDepth 100000 in
example : Exec.pollCount
    (ExecN.runFor (C01liveN_example .std) 9 (Nest.init (C01liveN_example .std))).out.w.trace = 6 := by decide
set_option maxRecDepth 100000 in
/-- the inner join was polled 5 times (the last top-level poll does not poll the resolved nested
    child), two of these polls polled no leaf -/
example : Exec.pollCount
    ((ExecN.runFor (C01liveN_example .std) 9 (Nest.init (C01liveN_example .std))).inn 0).w.trace = 5 := by
  decide
set_option maxRecDepth 100000 in
/-- the first prod goes to leaf 101 (global id), the last one to the plain child 1 -/
example : ExecN.firstWaiting (C01liveN_example .std)
    (ExecN.runFor (C01liveN_example .std) 2 (Nest.init (C01liveN_example .std))) = some 101 := by decide
set_option maxRecDepth 100000 in
example : ExecN.firstWaiting (C01liveN_example .std)
    (ExecN.runFor (C01liveN_example .std) 7 (Nest.init (C01liveN_example .std))) = some 1 := by decide

set_option maxRecDepth 100000 in
/-- direct mode (every poll polls every unresolved child / leaf): 3 polls, 1 prod -/
example : lastOut (ExecN.runFor (C01liveN_example .direct) 4 (Nest.init (C01liveN_example .direct))).out.w.trace
    = some (.ready true [9000, 5]) := by decide

/-- outer race over a nested try_join (leaf 101 fails) and a plain child -/
def C01liveN_race : Nest.NCase :=
  { mode := .std, outer := .race, n := 2,
    inner := fun c => if c = 0 then some (.tryJoinSlice, 2) else none,
    scripts := fun id =>
      if id = 100 then [⟨.pend, [(101, 0)]⟩, ⟨.ready true 1, []⟩]
      else if id = 101 then [⟨.pend, []⟩, ⟨.ready false 2, []⟩]
      else if id = 1 then [⟨.pend, []⟩, ⟨.pend, []⟩, ⟨.pend, []⟩, ⟨.ready true 5, []⟩]
      else [],
    ops := [] }

example : ExecN.futScripts C01liveN_race = true := by decide
set_option maxRecDepth 100000 in
example : lastOut (ExecN.runFor C01liveN_race 19 (Nest.init C01liveN_race)).out.w.trace
    = some (.ready true [9000]) := by decide

/-- the hypothesis is needed: leaves that stay `Pending` for ever (their scripts are not
    `futureScript`s) leave the executor with nothing to do while the nest is pending -/
def C01liveN_stuck : Nest.NCase :=
  { mode := .std, outer := .joinTuple, n := 2,
    inner := fun c => if c = 0 then some (.race, 2) else none,
    scripts := fun id =>
      if id = 100 then [⟨.pend, []⟩]
      else if id = 101 then [⟨.pend, []⟩, ⟨.pend, []⟩]
      else if id = 1 then [⟨.ready true 5, []⟩]
      else [],
    ops := [] }

example : ExecN.futScripts C01liveN_stuck = false := by decide
set_option maxRecDepth 100000 in
example : lastOut (ExecN.runFor C01liveN_stuck 30 (Nest.init C01liveN_stuck)).out.w.trace
      = some .pending ∧
    (ExecN.round C01liveN_stuck
      (ExecN.runFor C01liveN_stuck 30 (Nest.init C01liveN_stuck))).isNone = true := by
  decide

/-! ### non-vacuity, streams -/

/-- outer `o` over 2 inputs: input 0 = an inner `i` over the leaves 100, 101; input 1 plain.  Leaf
    100's `Pending` step invokes the current waker of its sibling 101, leaf 101's `Pending` step a
    STALE waker of leaf 100 -/
def C01liveN_streams (m : Mode) (o i : Fam) : Nest.NCase :=
  { mode := m, outer := o, n := 2,
    inner := fun c => if c = 0 then some (i, 2) else none,
    scripts := fun id =>
      if id = 100 then [⟨.pend, [(101, 0)]⟩, ⟨.item 1, []⟩, ⟨.fin, []⟩]
      else if id = 101 then [⟨.item 2, []⟩, ⟨.pend, [(100, 1)]⟩, ⟨.item 3, []⟩, ⟨.fin, []⟩]
      else if id = 1 then [⟨.pend, []⟩, ⟨.item 5, []⟩, ⟨.fin, []⟩]
      else [],
    ops := [] }

/-- the items a run yielded, oldest first -/
def yieldedItems (t : List Ev) : List (List Nat) :=
  t.reverse.filterMap (fun e => match e with | .pollEnd (.some _ v) => some v | _ => none)

example : LiveN.strScripts (C01liveN_streams .std .merge .zip) = true := by decide
example : ExecN.stepsLeft (C01liveN_streams .std .merge .zip)
    (Nest.init (C01liveN_streams .std .merge .zip)) = 10 := by decide

set_option maxRecDepth 100000 in
/-- merge over a zip: the zip yields one row, then ends with its first input -/
example : lastOut (ExecN.runFor (C01liveN_streams .std .merge .zip) 7
      (Nest.init (C01liveN_streams .std .merge .zip))).out.w.trace = some .none ∧
    yieldedItems (ExecN.runFor (C01liveN_streams .std .merge .zip) 7
      (Nest.init (C01liveN_streams .std .merge .zip))).out.w.trace = [[9001], [5]] := by decide
set_option maxRecDepth 100000 in
example : lastOut (ExecN.runFor (C01liveN_streams .std .merge .zip) 6
      (Nest.init (C01liveN_streams .std .merge .zip))).out.w.trace ≠ some .none := by decide

set_option maxRecDepth 100000 in
/-- chain over a merge: the three items of the inner merge, then the plain input's item -/
example : lastOut (ExecN.runFor (C01liveN_streams .std .chain .merge) 11
      (Nest.init (C01liveN_streams .std .chain .merge))).out.w.trace = some .none ∧
    yieldedItems (ExecN.runFor (C01liveN_streams .std .chain .merge) 11
      (Nest.init (C01liveN_streams .std .chain .merge))).out.w.trace
        = [[9001], [9002], [9003], [5]] := by decide

set_option maxRecDepth 100000 in
/-- zip over a chain -/
example : lastOut (ExecN.runFor (C01liveN_streams .std .zip .chain) 6
      (Nest.init (C01liveN_streams .std .zip .chain))).out.w.trace = some .none := by decide

/-- a leaf that stays `Pending` for ever leaves the nest of streams stuck -/
def C01liveN_stuckS : Nest.NCase :=
  { mode := .std, outer := .merge, n := 1,
    inner := fun c => if c = 0 then some (.chain, 2) else none,
    scripts := fun id =>
      if id = 100 then [⟨.item 1, []⟩, ⟨.pend, []⟩]
      else if id = 101 then [⟨.fin, []⟩]
      else [],
    ops := [] }

example : LiveN.strScripts C01liveN_stuckS = false := by decide
set_option maxRecDepth 100000 in
example : lastOut (ExecN.runFor C01liveN_stuckS 30 (Nest.init C01liveN_stuckS)).out.w.trace
      = some .pending ∧
    (ExecN.round C01liveN_stuckS
      (ExecN.runFor C01liveN_stuckS 30 (Nest.init C01liveN_stuckS))).isNone = true := by
  decide

end Fc

#print axioms Fc.C01_nest_stream_ends
#print axioms Fc.C01_nest_fut_resolves
#print axioms Fc.C01_nest_join_resolves
#print axioms Fc.C01_nest_join_join_resolves
#print axioms Fc.C01_nest_race_resolves
#print axioms Fc.C01_nest_resolves_bound2_false
