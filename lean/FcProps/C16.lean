/-
  C16 — Selective polling (std): a pending child is re-polled only after its waker fired.

  Monitor: `Mon.holds_C16` (Fc/Monitors.lean): every `childBegin c slot` event satisfies
    `lastRes c ≠ Pending  ∨  a sub-waker of `slot` was invoked since c's previous poll began`.
-/
import FcLemmas.C16
import FcLemmas.Lawful2
import Fc.Holds

namespace Fc
open Mon

/-- the property, at full strength: every case in `std` mode of a family that uses the
    readiness set (join, try_join, merge, zip, FutureGroup, StreamGroup) -/
def C16_statement : Prop :=
  ∀ c : Case, c.inC16 = true → holds_C16 c.trace = true

/-- C16 for every combinator over a fixed set of children: all sizes `n`, all child scripts,
    all operation histories (polls with arbitrary wakers, wake-ups of any handed-out waker at
    any time and inside any child's poll, drop). -/
theorem C16_selective_fixed (c : Case) (hg : c.fam.isGroup = false)
    (hm : c.fam.modeOf c.mode = .std) : holds_C16 c.trace = true := by
  unfold Case.trace
  rw [hg]
  simp only [Bool.false_eq_true, if_false]
  exact (C16.einv_run (lawful_policy c.fam hg) c.ops _
    (C16.einv_init c.fam c.n c.scripts c.mode hm)).k.mon

/-- non-vacuity: a concrete join of two children with a self-wake inside a poll, a wake between
    polls, a spurious poll and a drop satisfies the hypotheses and produces child polls -/
def C16_example : Case :=
  { fam := .joinSlice, mode := .std, keyed := false, n := 2,
    scripts := fun c => if c = 0 then [⟨.pend, [(0, 0)]⟩, ⟨.ready true 1, []⟩]
                        else if c = 1 then [⟨.pend, []⟩, ⟨.ready true 101, []⟩] else [],
    ops := [.poll 1, .poll 2, .fire 1 0, .poll 3, .drop] }

example : C16_example.fam.isGroup = false ∧ C16_example.fam.modeOf C16_example.mode = .std := by
  decide

example : (C16_example.run.filter (fun e => match e with | .childBegin .. => true | _ => false)).length = 4 := by
  decide

example : C16_example.run.getLast? = some .dropEnd := by decide

end Fc

#print axioms Fc.C16_selective_fixed
