/-
  Kernel tie, `PollState` — see FcProps/KTieStd.lean for the description.
-/
import FcGen.KSrcPS
import Fc.Families

namespace Fc
open Rs Src

/-! ## `PollState` (utils/poll_state/poll_state.rs) is the three-valued `PS` of Fc/Families.lean -/
namespace TiePS
open Src.PS

def abs : PollState → Fc.PS
  | .none_ => .none
  | .pending => .pending
  | .ready => .ready

theorem tie (p : PollState) :
    PollState.is_none p = some (decide (abs p = .none)) ∧
    PollState.is_pending p = some (decide (abs p = .pending)) ∧
    PollState.is_ready p = some (decide (abs p = .ready)) ∧
    (∃ q, PollState.set_none p = some (q, ()) ∧ abs q = .none) ∧
    (∃ q, PollState.set_pending p = some (q, ()) ∧ abs q = .pending) ∧
    (∃ q, PollState.set_ready p = some (q, ()) ∧ abs q = .ready) := by
  cases p <;> exact ⟨rfl, rfl, rfl, ⟨_, rfl, rfl⟩, ⟨_, rfl, rfl⟩, ⟨_, rfl, rfl⟩⟩

end TiePS

#print axioms TiePS.tie

end Fc
