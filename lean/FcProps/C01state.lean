/-
  C01 — the internal state behind it (std waker strategy).

  The correspondence check does not only compare observable events: with the crate's `fc-verif`
  hook the harness reads, after every operation, the readiness bits, the cached ready count and
  whether a parent waker is stored, and the driver compares them with the model's `World`
  (`Fc/Snap.lean`, `Case.snaps`).  These theorems say what that internal state satisfies in the
  model at EVERY operation boundary of every history (a history is any list of operations, so the
  final state of a history is an arbitrary reachable boundary):

    * the cached count is exact: `count` = number of set bits below the capacity;
    * no bit is set at or beyond the capacity;
    * the capacity is the number of children (fixed families) / the group's capacity (groups);
    * once any child has been handed a waker, a parent waker is stored (so a sub-waker that fires
      has a task to forward to; `InlineWaker::wake` never finds `None` there).

  They are projections of the invariants the C01 theorems are proved with (`C01.BInv`, `G.SB`).
-/
import FcLemmas.C01Dir
import FcLemmas.Conc
import FcLemmas.GrpFinal
import Fc.Snap

namespace Fc
open Mon

/-- number of set bits below the capacity -/
def World.setBits (w : World) : Nat := ((List.range w.cap).filter (fun i => w.bits i)).length

/-- join, try_join (both models), merge, zip — and race / race_ok if they were run in std mode,
    which `Fam.modeOf` never does: every reachable boundary state -/
theorem C01_kernel_state_fixed (c : Case) (hf : c.fam.isConc = true)
    (hm : c.fam.modeOf c.mode = .std) :
    c.finalFix.w.count = c.finalFix.w.setBits ∧
    (∀ i, c.finalFix.w.cap ≤ i → c.finalFix.w.bits i = false) ∧
    c.finalFix.w.cap = c.finalFix.s.n ∧
    ((∃ ch, c.finalFix.w.handed ch ≠ []) → c.finalFix.w.parent ≠ none) := by
  have h := C01.binv_run (n := c.n) (conc_policy c.fam hf) c.ops _
    (C01.binv_init c.fam c.n c.scripts c.mode hm)
  exact ⟨h.ks.cnt, h.ks.hi, h.cap, h.ks.par⟩

/-- FutureGroup / StreamGroup, plain and keyed, over every group history with fresh members of the
    right kind: every reachable boundary state -/
theorem C01_kernel_state_group (c : Case) (hg : c.fam.isGroup = true) (hk : c.kindOk)
    (hw : Case.insertsFresh c) (hm : c.mode = .std) :
    c.finalGrp.w.count = c.finalGrp.w.setBits ∧
    (∀ i, c.finalGrp.w.cap ≤ i → c.finalGrp.w.bits i = false) ∧
    c.finalGrp.s.capacity = c.finalGrp.w.cap ∧
    ((∃ ch, c.finalGrp.w.handed ch ≠ []) → c.finalGrp.w.parent ≠ none) := by
  have h : G.SB 0 c.finalGrp := by
    unfold Case.finalGrp
    rw [hm]
    exact G.run_fresh G.sb_steps c.ops _
      (G.sb_init 0 _ c.keyed c.scripts (G.scriptsOk_group c hg hk _ rfl)) hw (fun _ _ => rfl)
  exact ⟨h.gk.bc.cnt, h.gk.bc.hi, h.cb.cap, h.gk.par⟩

/-! ### non-vacuity: the snapshot strings of a concrete run (what the harness compares) -/

def C01state_example : Case :=
  { fam := .merge, mode := .std, keyed := false, n := 3,
    scripts := fun c => if c = 0 then [⟨.pend, []⟩, ⟨.item 1, []⟩, ⟨.fin, []⟩]
                        else if c = 1 then [⟨.pend, [(0, 0)]⟩, ⟨.fin, []⟩]
                        else if c = 2 then [⟨.pend, []⟩] else [],
    ops := [.poll 1, .fire 2 0, .poll 2, .poll 3] }

example : C01state_example.fam.isConc = true := by decide
example : C01state_example.fam.modeOf C01state_example.mode = .std := by decide
example : C01state_example.snaps = ["100/1/p", "101/2/p", "100/1/p", "000/0/p"] := by decide
example : C01state_example.hasKernel = true := by decide

def C01state_group_example : Case :=
  { fam := .futGroup, mode := .std, keyed := true, n := 0,
    scripts := fun c => if c = 0 then [⟨.pend, []⟩, ⟨.ready true 5, []⟩]
                        else if c = 1 then [⟨.ready true 6, []⟩] else [],
    ops := [.reserve 3, .insert 0, .insert 1, .poll 1, .fire 0 0, .poll 2, .poll 3] }

example : C01state_group_example.kindOk := by
  intro ch st hm
  by_cases h0 : ch = 0
  · subst h0; simp [C01state_group_example] at hm; rcases hm with h | h <;> subst h <;> decide
  · by_cases h1 : ch = 1
    · subst h1; simp [C01state_group_example] at hm; subst hm; decide
    · simp [C01state_group_example, h0, h1] at hm
example : Case.insertsFresh C01state_group_example := by unfold Case.insertsFresh; decide
/-- capacity 3: the bit of the slot that is never occupied stays set (as in the crate: `resize` arms
    new slots, nothing clears a vacant one), so the count never drops to 0 here -/
example : C01state_group_example.snaps =
    ["111/3/-", "111/3/-", "111/3/-", "001/1/p", "101/2/p", "001/1/p", "001/1/p"] := by decide

#print axioms C01_kernel_state_fixed
#print axioms C01_kernel_state_group
