/-
  Kernel tie, `[Fut; N]::race_ok()` (src/future/race_ok/array/mod.rs), direct strategy, policy `raceOk false false`.

  `TieRaceOkA.poll_tie`, `drop_tie`, `drop_failed_tie` prove the three statements of FcProps/KTieRaceOkArr.lean, unchanged:
  for every translated `RaceOk` value `g` that is well-formed (`WfK N g`: the three tables have `N` entries, a slot is `Ready`
  exactly when it stores the error of its failed child, `completed` counts those slots), every environment whose children are
  scripted futures (`FutStepsF`) and a model that has not completed, the poll function TRANSLATED FROM THE SOURCE
  (`RaceOkA.RaceOk.poll`, FcGen/KSrcArr7.lean) does not panic and agrees with one `Eng.poll (raceOk false false)` of the
  model on: number of children, `completed`, the state table, the stored errors (until the aggregate moves them out), when
  the combinator is finished, the remaining scripts, the wakers handed out, and the whole event trace (the model's trace is
  the translated code's trace plus the closing `pollEnd` of the returned value; the aggregate lists the errors by position).
  The destructor releases exactly the stored errors in slot order (none after the aggregate was returned); with the
  children dropped by the drop glue this is `Eng.drop (raceOk false false)`.

  `poll_tie_strong` adds what the next poll needs again (`FutStepsF` of the environment and of the model's world, the number
  of children) and that the poll returning the aggregate leaves a `WfFailed` combinator (the hypothesis of `drop_failed_tie`);
  `drop_tie_strong` adds what the destructor leaves behind; `new_wf`: the value `race_ok()` builds is `WfK`.

  Proof structure (helpers in FcLemmas/KTieRaceOkA{Model,Main,Poll,Drop}.lean; reused: FcLemmas/KTieFamEnv.lean,
  FcLemmas/KTieFamLoop.lean, the list facts of FcLemmas/KTieTryJoinAux.lean):
    (a) `TieDirect.pollChild_tie`  `Rs.pollChild … (Wk.par cx)` with the dummy wake function = `World.pollChild c c`;
    (b) `rk_visit_skip/pend/ok/err`   `Eng.visit (raceOk false false)` in the four cases the loop body distinguishes;
    (c) the step case of `rk_poll_core`: one iteration of the translated loop body = one `Eng.visit`, `WfK` is kept
        (`rk_count_set`: a slot becoming `Ready` raises the count by one);
    (d) `TieLoop.forCtl_scan`      `Rs.forCtl` over a list refines `Eng.scan`;
    (e) `rk_poll_live`, `rk_close_some/pending/done`, `rk_post_of_rel`, `rk_post_done` (`vec_assume_init` of a full row is
        the model's `outs`: `rk_filter_full`, `tj_mapM_some`);
    (f) `rk_drop_loop` / `rk_drop_core`: the `for` loop of `PinnedDrop::drop` (`Rs.forBreak`, never breaks).
  The proofs address the generated structure through its `role…` abbreviations only.
-/
import FcProps.KTieRaceOkArr
import FcLemmas.KTieRaceOkAPoll
import FcLemmas.KTieRaceOkADrop

set_option linter.unusedSimpArgs false
set_option linter.unusedVariables false

namespace Fc
open Rs Src

namespace TieRaceOkA
open RaceOkA

/-- the statement, plus: the scripts stay scripted futures (for the environment and for the model's world, which is the
    `b` of the next poll), the number of children is kept, and the aggregate leaves a `WfFailed` combinator -/
theorem poll_tie_strong (N : Nat) (g : RaceOk) (b : Eng Fix) (w : Nat)
    (hW : WfK N g) (hS : FutStepsF b.w) (hd : b.s.dead = false) :
    ∃ g' env' ret,
      RaceOk.poll N g w (((absK g b).w.emit (.pollBegin w)).setWaker w) = some (g', env', ret) ∧
      ((∀ es, ret ≠ .ready (.err es)) → WfK N g') ∧
      (absK g' b).s.n = (Eng.poll (raceOk false false) (absK g b) w).s.n ∧
      (absK g' b).s.cnt = (Eng.poll (raceOk false false) (absK g b) w).s.cnt ∧
      (∀ i, i < N → (absK g' b).s.st i = (Eng.poll (raceOk false false) (absK g b) w).s.st i) ∧
      ((∀ es, ret ≠ .ready (.err es)) → (absK g' b).s.out = (Eng.poll (raceOk false false) (absK g b) w).s.out) ∧
      ((∃ es, ret = .ready (.err es)) → ∀ i, (absK g' b).s.out i = none) ∧
      ((Eng.poll (raceOk false false) (absK g b) w).s.dead = true ↔ ret ≠ .pending) ∧
      env'.scripts = (Eng.poll (raceOk false false) (absK g b) w).w.scripts ∧
      env'.handed = (Eng.poll (raceOk false false) (absK g b) w).w.handed ∧
      (Eng.poll (raceOk false false) (absK g b) w).w.trace = .pollEnd (outcomeOfRaceOk ret) :: env'.trace ∧
      (FutStepsF env' ∧ FutStepsF (Eng.poll (raceOk false false) (absK g b) w).w ∧ g'.roleKids.len = N) ∧
      ((∃ es, ret = .ready (.err es)) → WfFailed N g') := by
  obtain ⟨g', env', ret, h1, h2⟩ := rk_poll_core N g b w hW hS hd
  exact ⟨g', env', ret, h1, h2⟩

theorem poll_tie : poll_tie_statement := by
  intro N g b w hW hS hd
  obtain ⟨g', env', ret, h1, a1, a2, a3, a4, a5, a6, a7, a8, a9, a10, _, _⟩ := poll_tie_strong N g b w hW hS hd
  exact ⟨g', env', ret, h1, a1, a2, a3, a4, a5, a6, a7, a8, a9, a10⟩

/-- the destructor on any `RaceOk` whose tables have `N` entries and whose `Ready` slots hold a value (`WfK` and `WfFailed`
    are instances): no panic, the model's trace; afterwards the tables still have `N` entries and no slot is `Ready` -/
theorem drop_tie_strong (N : Nat) (g : RaceOk) (b : Eng Fix)
    (hkn : g.roleKids.len = N) (hsl : g.roleStates.len = N) (hic : g.roleItems.cap = N)
    (hrs : ∀ i, i < N → g.roleStates.get i = PS.PollState.ready → ∃ v, g.roleItems.get i = some v) :
    ∃ g' env',
      RaceOk.drop N g ((absK g b).w.emit .dropBegin) = some (g', env', ()) ∧
      (Eng.drop (raceOk false false) (absK g b)).w.trace =
        .dropEnd :: (((List.range N).map (fun i => Ev.childDropped i)).reverse ++ env'.trace) ∧
      g'.roleKids.len = N ∧ g'.roleStates.len = N ∧ g'.roleItems.cap = N ∧
      (∀ i, i < N → g'.roleStates.get i ≠ PS.PollState.ready) := by
  obtain ⟨g', env', h1, h2, h3, h4, h5, h6⟩ := rk_drop_core N g b hkn hsl hic
    (fun i hi h => hrs i hi (rk_abs_ready.mp h))
  exact ⟨g', env', h1, h2, h3, h4, h5, fun i hi h => h6 i hi (rk_abs_ready.mpr h)⟩

theorem drop_tie : drop_tie_statement := by
  intro N g b hW
  obtain ⟨g', env', h1, h2, _⟩ := drop_tie_strong N g b hW.kn hW.sl hW.ic (by
    intro i hi h
    rcases hW.rs i hi with ⟨h1, _⟩ | ⟨_, h2⟩
    · rw [h1] at h; cases h
    · exact h2)
  exact ⟨g', env', h1, h2⟩

theorem drop_failed_tie : drop_failed_tie_statement := by
  intro N g b hW
  obtain ⟨g', env', h1, h2, _⟩ := drop_tie_strong N g b hW.kn hW.sl hW.ic (by
    intro i hi h
    rw [hW.rs i hi] at h; cases h)
  exact ⟨g', env', h1, h2⟩

/-- the value `[Fut; N]::race_ok()` builds (`RaceOk::new`: no errors stored, every state `Pending`, `completed = 0`) -/
theorem new_wf (N : Nat) (g : RaceOk) (hk : g.roleKids.len = N) (hi : g.roleItems = Rs.OutVec.uninit N)
    (hs : g.roleStates = Rs.PVec.replicate N PS.PollState.pending) (hc : g.roleCount = 0) : WfK N g := by
  refine ⟨hk, by rw [hs]; rfl, by rw [hi]; rfl, ?_, ?_⟩
  · rw [hc, hs]
    simp only [Rs.PVec.replicate]
    induction (List.range N) <;> simp_all
  · intro i _
    left
    rw [hs, hi]
    exact ⟨rfl, rfl⟩

/-! ### concrete runs: the hypotheses hold, the conclusions are checked by evaluation -/

/-- all three children fail (7, 8, 9), in the second poll / the first / the second -/
def scr : Nat → List Step := fun c =>
  if c = 0 then [⟨.pend, []⟩, ⟨.ready false 7, []⟩]
  else if c = 1 then [⟨.ready false 8, [(0, 0)]⟩]
  else [⟨.pend, [(2, 0)]⟩, ⟨.ready false 9, []⟩]
/-- the same, but child 2 succeeds with 9 in its second poll -/
def scrOk : Nat → List Step := fun c =>
  if c = 0 then [⟨.pend, []⟩, ⟨.ready false 7, []⟩]
  else if c = 1 then [⟨.ready false 8, [(0, 0)]⟩]
  else [⟨.pend, [(2, 0)]⟩, ⟨.ready true 9, []⟩]
def mk (s : Nat → List Step) : Eng Fix := { w := World.init .direct 3 s, s := Fix.init 3 0 }
/-- `RaceOk::new` on three children -/
def g0 : RaceOk := ⟨⟨3⟩, Rs.OutVec.uninit 3, Rs.PVec.replicate 3 PS.PollState.pending, 0⟩
/-- the same after the first poll of `scr` / `scrOk`: slot 1 stores the error 8 -/
def g1 : RaceOk :=
  ⟨⟨3⟩, ⟨3, fun j => if j = 1 then some 8 else none⟩,
   ⟨3, fun j => if j = 1 then PS.PollState.ready else PS.PollState.pending⟩, 1⟩
def b1 (s : Nat → List Step) : Eng Fix := Eng.poll (raceOk false false) (absK g0 (mk s)) 1

example : WfK 3 g0 := new_wf 3 g0 rfl rfl rfl rfl
example : WfK 3 g1 := by
  refine ⟨rfl, rfl, rfl, by decide, ?_⟩
  intro i hi
  have : i = 0 ∨ i = 1 ∨ i = 2 := by omega
  rcases this with rfl | rfl | rfl
  · exact Or.inl ⟨rfl, rfl⟩
  · exact Or.inr ⟨rfl, 8, rfl⟩
  · exact Or.inl ⟨rfl, rfl⟩
example : (mk scr).s.dead = false := rfl
example : (b1 scr).s.dead = false := by decide
example : (b1 scrOk).s.dead = false := by decide
example : FutStepsF (mk scr).w := by
  intro c st h
  simp only [mk, World.init, scr] at h
  split at h
  · simp at h; rcases h with rfl | rfl <;> simp
  · split at h
    · simp at h; subst h; simp
    · simp at h; rcases h with rfl | rfl <;> simp
example : FutStepsF (mk scrOk).w := by
  intro c st h
  simp only [mk, World.init, scrOk] at h
  split at h
  · simp at h; rcases h with rfl | rfl <;> simp
  · split at h
    · simp at h; subst h; simp
    · simp at h; rcases h with rfl | rfl <;> simp

/-- everything the theorem's conclusion compares, as a Boolean, and the outcome -/
def agrees (N : Nat) (g : RaceOk) (b : Eng Fix) (w : Nat) : Option (Bool × Outcome) :=
  let m := Eng.poll (raceOk false false) (absK g b) w
  (RaceOk.poll N g w (((absK g b).w.emit (.pollBegin w)).setWaker w)).map fun y =>
    (decide ((absK y.1 b).s.n = m.s.n) &&
    decide ((absK y.1 b).s.cnt = m.s.cnt) &&
    decide ((List.range N).map (absK y.1 b).s.st = (List.range N).map m.s.st) &&
    decide (m.s.dead = true ↔ outcomeOfRaceOk y.2.2 ≠ .pending) &&
    decide (m.w.trace = .pollEnd (outcomeOfRaceOk y.2.2) :: y.2.1.trace) &&
    decide ((List.range 4).map (fun c => (y.2.1.scripts c).map fun st => (st.res, st.fires)) =
      (List.range 4).map (fun c => (m.w.scripts c).map fun st => (st.res, st.fires))) &&
    decide ((List.range 4).map y.2.1.handed = (List.range 4).map m.w.handed), outcomeOfRaceOk y.2.2)

/-- what the translated poll leaves in the tables, listed -/
def tables (N : Nat) (g : RaceOk) : Nat × List PS.PollState × List (Option Nat) × Nat :=
  (g.roleKids.len, (List.range N).map g.roleStates.get, (List.range N).map g.roleItems.get, g.roleCount)

/-- first poll: child 0 pending, child 1 fails with 8 (and wakes the task while it is polled), child 2 pending: `Pending` -/
example : agrees 3 g0 (mk scr) 1 = some (true, .pending) := by decide
example : (Eng.poll (raceOk false false) (absK g0 (mk scr)) 1).w.trace =
    [.pollEnd .pending, .childEnd 2 .pend, .woke 1, .fired 2 0 (some (.par 1)), .childBegin 2 2 (.par 1),
     .childEnd 1 (.ready false 8), .woke 1, .fired 0 0 (some (.par 1)), .childBegin 1 1 (.par 1),
     .childEnd 0 .pend, .childBegin 0 0 (.par 1), .pollBegin 1] := by decide
/-- … and it leaves `g1` -/
example : (RaceOk.poll 3 g0 1 (((absK g0 (mk scr)).w.emit (.pollBegin 1)).setWaker 1)).map (fun y => tables 3 y.1)
    = some (tables 3 g1) := by decide
/-- second poll: slot 1 is skipped, children 0 and 2 fail: the aggregate lists the errors BY POSITION -/
example : agrees 3 g1 (b1 scr) 2 = some (true, .ready false [7, 8, 9]) := by decide
/-- … the errors have been moved out, every state is `None`, `completed` stays 3 -/
example : (RaceOk.poll 3 g1 2 (((absK g1 (b1 scr)).w.emit (.pollBegin 2)).setWaker 2)).map (fun y => tables 3 y.1)
    = some (3, [.none_, .none_, .none_], [none, none, none], 3) := by decide
/-- second poll of the other script: child 0 fails, child 2 succeeds: `Ok(9)` -/
example : agrees 3 g1 (b1 scrOk) 2 = some (true, .ready true [9]) := by decide
/-- … the two stored errors stay in their slots (the destructor releases them) -/
example : (RaceOk.poll 3 g1 2 (((absK g1 (b1 scrOk)).w.emit (.pollBegin 2)).setWaker 2)).map (fun y => tables 3 y.1)
    = some (3, [.ready, .ready, .pending], [some 7, some 8, none], 2) := by decide
/-- dropping `g1`: the stored error 8 is released, then the three children -/
example : (RaceOk.drop 3 g1 ((absK g1 (b1 scr)).w.emit .dropBegin)).map (fun y =>
    (decide ((Eng.drop (raceOk false false) (absK g1 (b1 scr))).w.trace =
      .dropEnd :: (((List.range 3).map (fun i => Ev.childDropped i)).reverse ++ y.2.1.trace)),
     y.2.1.trace.take 2))
    = some (true, [.valDropped 8, .dropBegin]) := by decide
example : (RaceOk.drop 3 g1 ((absK g1 (b1 scr)).w.emit .dropBegin)).map (fun y => tables 3 y.1)
    = some (3, [.pending, .none_, .pending], [none, none, none], 1) := by decide
/-- N = 0: the aggregate of no errors at once, on both sides -/
example : agrees 0 ⟨⟨0⟩, Rs.OutVec.uninit 0, Rs.PVec.replicate 0 PS.PollState.pending, 0⟩
    { w := World.init .direct 0 scr, s := Fix.init 0 0 } 1 = some (true, .ready false []) := by decide
/-- the hypothesis `FutStepsF` is needed: a child answering like a stream is ill-typed for `Future::poll`, the translated
    code panics there -/
example : (RaceOk.poll 3 g0 1 (World.init .direct 3 (fun _ => [⟨.item 5, []⟩]))).isNone = true := by decide
/-- so is `WfK.rs`: a `Ready` slot without a stored error makes the destructor read uninitialised memory -/
example : (RaceOk.drop 3 ⟨⟨3⟩, Rs.OutVec.uninit 3, Rs.PVec.replicate 3 PS.PollState.ready, 3⟩
    (World.init .direct 3 scr)).isNone = true := by decide

end TieRaceOkA

#print axioms TieRaceOkA.poll_tie_strong
#print axioms TieRaceOkA.poll_tie
#print axioms TieRaceOkA.drop_tie_strong
#print axioms TieRaceOkA.drop_tie
#print axioms TieRaceOkA.drop_failed_tie
#print axioms TieRaceOkA.new_wf

end Fc
