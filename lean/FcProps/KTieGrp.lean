/-
  Kernel tie, groups — the set-view bookkeeping of `FutureGroup` / `StreamGroup`
  (`with_capacity`, `len`, `is_empty`, `capacity`, `contains_key`, `reserve`, `insert`, `remove`),
  TRANSLATED FROM THE CURRENT SOURCE of src/future/future_group.rs and src/stream/stream_group.rs
  (tools/rs2lean.py → FcGen/KSrcGrp.lean), refines the group operations of Fc/Groups.lean
  (`GEng.reserve`, `GEng.grow`, `GEng.insertAt`, `GEng.remove`) that the C11 / C12 / C01 / C16 / C20
  group theorems are about.  See FcProps/KTieStd.lean for the general description.

  `absF g b` reads a translated group `g` as a model state: the slab fields, the key set, the
  capacity, the `PollState` table through `TiePS.abs`, the readiness set through `TieVec.abs`;
  everything the crate does not store (the event trace, the harness's handle table `ret`, the
  per-poll counters) comes from `b`.  `core` projects a model state onto what the crate stores,
  so that `core (absF g' b) = core (<model operation> (absF g b))` says: same readiness bits, count,
  capacity, states, slab, keys.  `WfG`: the readiness set is well-formed for the capacity, the
  waker table and the state table have `capacity` entries.

  Hypotheses that are not about the translated function but about the state it runs in (`insert`
  needs the slab's next key below the new capacity, `remove` of a present key needs that key to be
  an occupied slab entry below the capacity) are what C11's structural invariant provides for every
  reachable state (FcLemmas/C11Inv.lean); without them the real code panics (index out of bounds /
  "invalid key"), and so does the translation.
-/
import FcGen.KSrcGrp
import FcProps.KTieStd
import FcProps.KTiePS
import Fc.Groups

namespace Fc
open Rs Src

/-- what the crate stores of a group, as the model sees it -/
structure GCore where
  mode : Mode
  cap : Nat
  bits : Nat → Bool
  count : Nat
  parent : Option Nat
  capacity : Nat
  st : Nat → PS
  member : Nat → Option Nat
  vac : Nat → Nat
  entries : Nat
  next : Nat
  len : Nat
  keys : List Nat
  queue : List Nat

def core (e : Eng Grp) : GCore :=
  { mode := e.w.mode, cap := e.w.cap, bits := e.w.bits, count := e.w.count, parent := e.w.parent,
    capacity := e.s.capacity, st := e.s.st, member := e.s.member, vac := e.s.vac, entries := e.s.entries,
    next := e.s.next, len := e.s.len, keys := e.s.keys, queue := e.s.queue }

theorem insertSorted_eq (k : Nat) (l : List Nat) : Rs.BTree.insertSorted k l = Grp.insertSorted k l := by
  induction l with
  | nil => rfl
  | cons x xs ih => simp [Rs.BTree.insertSorted, Grp.insertSorted, ih]

/-- `insertAt` acts on what the crate stores only -/
theorem core_insertAt (e e' : Eng Grp) (c : Nat) (k k' : Bool) (h : core e = core e') :
    core (GEng.insertAt e c k) = core (GEng.insertAt e' c k') := by
  simp only [core, GCore.mk.injEq] at h
  obtain ⟨h1, h2, h3, h4, h5, h6, h7, h8, h9, h10, h11, h12, h13, h14⟩ := h
  simp only [core, GEng.insertAt, Grp.slabInsert, World.setReady, World.emit, GCore.mk.injEq]
  rw [h1, h3, h4, h11, h10, h8, h9, h12, h7, h13, h2, h5, h6, h14]
  cases hm : e'.w.mode <;> by_cases hb : e'.w.bits e'.s.next = true <;>
    by_cases hne : e'.s.next = e'.s.entries <;> simp_all

/-- `GEng.remove` for a key given directly (the model addresses keys through the harness's handle table) -/
def removeKey (e : Eng Grp) (k : Nat) : Eng Grp :=
  if e.s.keys.contains k then
    { w := (e.w.emit (.childDropped ((e.s.member k).getD 0))).emit (.removed k true),
      s := { (e.s.slabRemove k) with st := upd e.s.st k .none, keys := e.s.keys.filter (· ≠ k) } }
  else { e with w := e.w.emit (.removed k false) }

theorem remove_eq_removeKey (e : Eng Grp) (j k : Nat) (h : e.s.ret[j]? = some k) :
    GEng.remove e j = removeKey e k := by
  simp [GEng.remove, removeKey, h]

theorem Slab_insert_snd (s : Rs.Slab) (c : Nat) : (Rs.Slab.insert s c).2 = s.next := by
  unfold Rs.Slab.insert; split <;> rfl

namespace TieGrpF
open GrpF

def absF (g : FutureGroup) (b : Eng Grp) : Eng Grp :=
  { w := TieVec.abs g.roleWakers.readiness b.w,
    s := { b.s with capacity := g.roleCapacity, st := fun i => TiePS.abs (g.roleStates.get i),
                    member := g.roleSlab.member, vac := g.roleSlab.vac, entries := g.roleSlab.entries,
                    next := g.roleSlab.next, len := g.roleSlab.len, keys := g.roleKeys.elems } }

structure WfG (g : FutureGroup) : Prop where
  rd : TieVec.Wf g.roleCapacity g.roleWakers.readiness
  nw : g.roleWakers.nwakers = g.roleCapacity
  sl : g.roleStates.len = g.roleCapacity
  sh : ∀ j, g.roleCapacity ≤ j → g.roleStates.get j = PS.PollState.none_

local macro "unroles" : tactic =>
  `(tactic| try simp only [absF, FutureGroup.roleSlab, FutureGroup.roleWakers, FutureGroup.roleStates,
      FutureGroup.roleKeys, FutureGroup.roleCapacity] at *)

theorem queries_tie (g : FutureGroup) (b : Eng Grp) (k : Nat) :
    FutureGroup.len g = some (absF g b).s.len ∧
    FutureGroup.capacity_fn g = some (absF g b).s.capacity ∧
    FutureGroup.is_empty g = some (decide ((absF g b).s.len = 0)) ∧
    FutureGroup.contains_key g k = some (g, (absF g b).s.keys.contains k) := by
  refine ⟨rfl, rfl, ?_, rfl⟩
  unfold FutureGroup.is_empty
  unroles
  simp only [Slab.isEmpty, pure]
  first | (congr 1; done) | (congr 1; simp; done) | (congr 1; rw [Bool.eq_iff_iff]; simp)

/-- `reserve(additional)` = `GEng.reserve` -/
theorem reserve_tie (g : FutureGroup) (b : Eng Grp) (add : Nat) (h : WfG g) :
    ∃ g', FutureGroup.reserve g add = some (g', ()) ∧ WfG g' ∧
      core (absF g' b) = core (GEng.reserve (absF g b) add) := by
  obtain ⟨hrd, hnw, hsl, hsh⟩ := h
  obtain ⟨r', hr1, hr2, hr3⟩ := TieVec.resize_grow_tie g.roleCapacity g.roleWakers.readiness b.w
    (g.roleCapacity + add) hrd (Nat.le_add_right _ _)
  unfold FutureGroup.reserve FutureGroup.len
  by_cases hc : g.roleSlab.len + add < g.roleCapacity
  · unroles
    simp [uadd, hc, GEng.reserve, core, TieVec.abs, World.withStd]
    exact ⟨hrd, hnw, hsl, hsh⟩
  · unroles
    simp [uadd, hc, GEng.reserve, core, WakerVec.resize, hr1]
    refine ⟨⟨?_, ?_, ?_, ?_⟩, ?_⟩
    · unroles; exact hr2
    · unroles
    · unroles; simp [PVec.resize]
    · intro j hj
      have hlt : ¬ j < g.roleStates.len := by rw [hsl]; unroles; omega
      unroles
      simp [PVec.resize, hlt]
    · rw [hr3]
      refine ⟨rfl, rfl, rfl, rfl, rfl, ?_⟩
      funext i
      by_cases hi : i < g.roleStates.len
      · unroles; simp [PVec.resize, hi]
      · have := hsh i (by rw [← hsl]; unroles; omega)
        unroles
        simp [PVec.resize, hi, this]

/-- `insert(member c)` = `GEng.insertAt (GEng.grow ·) c`: the capacity check and growth `2·cap+1`, the slab's
    next key, the key set, the state table and the readiness flag; the returned key is the slab's next key -/
theorem insert_tie (g : FutureGroup) (b : Eng Grp) (c : Nat) (keep : Bool) (h : WfG g)
    (hn : (GEng.grow (absF g b)).s.next < (GEng.grow (absF g b)).s.capacity) :
    ∃ g', FutureGroup.insert g c = some (g', (absF g b).s.next) ∧ WfG g' ∧
      core (absF g' b) = core (GEng.insertAt (GEng.grow (absF g b)) c keep) := by
  obtain ⟨g1, hg1, hw1, hc1⟩ := reserve_tie g b (g.roleCapacity * 2 + 1) h
  unfold FutureGroup.insert FutureGroup.len
  by_cases hcap : g.roleCapacity ≤ g.roleSlab.len
  · -- grows first
    have hgrow : GEng.grow (absF g b) = GEng.reserve (absF g b) (g.roleCapacity * 2 + 1) := by
      unfold GEng.grow; unroles; simp [hcap]
    rw [hgrow] at hn ⊢
    obtain ⟨hrd, hnw, hsl, hsh⟩ := hw1
    have hcore := hc1
    simp only [core, GCore.mk.injEq] at hcore
    obtain ⟨-, -, -, -, -, hcapy, hst, hmem, hvac, hent, hnext, hlen, hkeys, -⟩ := hcore
    have hn1 : g1.roleSlab.next < g1.roleCapacity := by
      have h1 : (absF g1 b).s.next = g1.roleSlab.next := rfl
      have h2 : (absF g1 b).s.capacity = g1.roleCapacity := rfl
      rw [← h1, ← h2, hnext, hcapy]; exact hn
    obtain ⟨r', hs1, hs2, hs3⟩ := TieVec.set_ready_tie g1.roleCapacity g1.roleWakers.readiness b.w
      g1.roleSlab.next hrd hn1
    have hkl : g1.roleSlab.next < g1.roleStates.len := by rw [hsl]; exact hn1
    have hnx : g1.roleSlab.next = g.roleSlab.next := by
      have h1 : (absF g1 b).s.next = g1.roleSlab.next := rfl
      rw [← h1, hnext]; simp [GEng.reserve]; split <;> rfl
    rw [core_insertAt (GEng.reserve (absF g b) (g.roleCapacity * 2 + 1)) (absF g1 b) c keep keep hc1.symm]
    unroles
    rw [hnx] at hkl hs1 hs3 hn1
    simp [hcap, uadd, hg1, Slab_insert_snd, PVec.idx, PVec.set, hkl, PS.PollState.set_pending, hs1, hnx]
    refine ⟨⟨?_, ?_, ?_, ?_⟩, ?_⟩
    · unroles; exact hs2
    · unroles; exact hnw
    · unroles; exact hsl
    · intro j hj; unroles
      have : j ≠ g.roleSlab.next := by unroles; omega
      unroles
      simp [this]; exact hsh j hj
    · rw [hs3]
      simp only [core, GEng.insertAt, Grp.slabInsert, Slab.insert, BTree.insert, insertSorted_eq, World.emit,
        GCore.mk.injEq, hnx]
      by_cases hne : g.roleSlab.next = g1.roleSlab.entries
      · unroles; simp only [if_pos hne]; simp
        refine ⟨?_, ?_⟩ <;> (funext j; by_cases hj : j = g.roleSlab.next <;> (unroles; simp [upd, hj, TiePS.abs]))
      · unroles; simp only [if_neg hne]; simp
        refine ⟨?_, ?_⟩ <;> (funext j; by_cases hj : j = g.roleSlab.next <;> (unroles; simp [upd, hj, TiePS.abs]))
  · -- enough room
    have hgrow : GEng.grow (absF g b) = absF g b := by
      unfold GEng.grow; unroles; simp [hcap]
    rw [hgrow] at hn ⊢
    obtain ⟨hrd, hnw, hsl, hsh⟩ := h
    have hn1 : g.roleSlab.next < g.roleCapacity := hn
    obtain ⟨r', hs1, hs2, hs3⟩ := TieVec.set_ready_tie g.roleCapacity g.roleWakers.readiness b.w
      g.roleSlab.next hrd hn1
    have hkl : g.roleSlab.next < g.roleStates.len := by rw [hsl]; exact hn1
    unroles
    simp [hcap, uadd, Slab_insert_snd, PVec.idx, PVec.set, hkl, PS.PollState.set_pending, hs1]
    refine ⟨⟨?_, ?_, ?_, ?_⟩, ?_⟩
    · unroles; exact hs2
    · unroles; exact hnw
    · unroles; exact hsl
    · intro j hj; unroles
      have : j ≠ g.roleSlab.next := by unroles; omega
      unroles
      simp [this]; exact hsh j hj
    · rw [hs3]
      simp only [core, GEng.insertAt, Grp.slabInsert, Slab.insert, BTree.insert, insertSorted_eq, World.emit,
        GCore.mk.injEq]
      by_cases hne : g.roleSlab.next = g.roleSlab.entries
      · unroles; simp only [if_pos hne]; simp
        refine ⟨?_, ?_⟩ <;> (funext j; by_cases hj : j = g.roleSlab.next <;> (unroles; simp [upd, hj, TiePS.abs]))
      · unroles; simp only [if_neg hne]; simp
        refine ⟨?_, ?_⟩ <;> (funext j; by_cases hj : j = g.roleSlab.next <;> (unroles; simp [upd, hj, TiePS.abs]))

/-- `remove(key)` = `GEng.remove`: answers whether the key was present; a present key leaves the key set, its
    state becomes `None`, its slab entry joins the vacant chain (the member is dropped by `Slab::remove`) -/
theorem remove_tie (g : FutureGroup) (b : Eng Grp) (k : Nat) (h : WfG g)
    (hocc : g.roleKeys.elems.contains k = true →
      k < g.roleCapacity ∧ k < g.roleSlab.entries ∧ ∃ c, g.roleSlab.member k = some c) :
    ∃ g', FutureGroup.remove g k = some (g', (absF g b).s.keys.contains k) ∧ WfG g' ∧
      core (absF g' b) = core (removeKey (absF g b) k) := by
  obtain ⟨hrd, hnw, hsl, hsh⟩ := h
  unfold FutureGroup.remove
  by_cases hk : g.roleKeys.elems.contains k = true
  · obtain ⟨hkc, hke, c, hkm⟩ := hocc hk
    have hkl : k < g.roleStates.len := by rw [hsl]; exact hkc
    have hk' : k ∈ g.roleKeys.elems := by simpa using hk
    unroles
    simp [BTree.remove, hk', PVec.idx, PVec.set, hkl, PS.PollState.set_none, Slab.remove, hkm, hke, removeKey,
      BTree.contains]
    refine ⟨⟨?_, ?_, ?_, ?_⟩, ?_⟩
    · unroles; exact hrd
    · unroles; exact hnw
    · unroles; exact hsl
    · intro j hj; unroles
      by_cases hjk : j = k
      · simp [hjk]
      · simp [hjk]; exact hsh j hj
    · simp only [core, Grp.slabRemove, World.emit, TieVec.abs, World.withStd, GCore.mk.injEq]
      simp
      refine ⟨?_, ?_, ?_⟩ <;> (funext j; by_cases hj : j = k <;> simp [upd, hj, TiePS.abs])
  · have hk' : ¬ k ∈ g.roleKeys.elems := by simpa using hk
    have hfil : List.filter (fun x => !decide (x = k)) g.roleKeys.elems = g.roleKeys.elems := by
      apply List.filter_eq_self.mpr
      intro a ha
      have : a ≠ k := fun h => hk' (h ▸ ha)
      simp [this]
    unroles
    simp [BTree.remove, hk', removeKey, BTree.contains, hfil]
    refine ⟨⟨hrd, hnw, hsl, hsh⟩, ?_⟩
    simp [core, World.emit, TieVec.abs, World.withStd]

/-- `with_capacity(k)` (and `new()` = `with_capacity(0)`): the empty group whose bookkeeping has `k` armed slots —
    the state the model reaches by `reserve(k)` on its initial group -/
theorem with_capacity_tie (k : Nat) (b : Eng Grp) :
    ∃ g, FutureGroup.with_capacity k = some g ∧ WfG g ∧ FutureGroup.new = FutureGroup.with_capacity 0 ∧
      core (absF g b) =
        { mode := .std, cap := k, bits := fun i => decide (i < k), count := k, parent := none, capacity := k,
          st := fun _ => .none, member := fun _ => none, vac := fun _ => 0, entries := 0, next := 0, len := 0,
          keys := [], queue := b.s.queue } := by
  obtain ⟨r, hr1, hr2, hr3⟩ := TieVec.new_tie k b.w
  unfold FutureGroup.with_capacity
  simp only [WakerVec.new, hr1]
  refine ⟨_, rfl, ⟨?_, ?_, ?_, ?_⟩, ?_, ?_⟩
  · unroles; exact hr2
  · unroles
  · unroles; simp [PVec.replicate]
  · intro j _; unroles; simp [PVec.replicate]
  · unfold FutureGroup.new; simp; rfl
  · unroles
    simp only [core, hr3, World.withStd, GCore.mk.injEq]
    simp [PVec.replicate, Slab.empty, BTree.empty, TiePS.abs]

end TieGrpF

namespace TieGrpS
open GrpS

def absS (g : StreamGroup) (b : Eng Grp) : Eng Grp :=
  { w := TieVec.abs g.roleWakers.readiness b.w,
    s := { b.s with capacity := g.roleCapacity, st := fun i => TiePS.abs (g.roleStates.get i),
                    member := g.roleSlab.member, vac := g.roleSlab.vac, entries := g.roleSlab.entries,
                    next := g.roleSlab.next, len := g.roleSlab.len, keys := g.roleKeys.elems, queue := g.roleQueue } }

structure WfG (g : StreamGroup) : Prop where
  rd : TieVec.Wf g.roleCapacity g.roleWakers.readiness
  nw : g.roleWakers.nwakers = g.roleCapacity
  sl : g.roleStates.len = g.roleCapacity
  sh : ∀ j, g.roleCapacity ≤ j → g.roleStates.get j = PS.PollState.none_

local macro "unroles" : tactic =>
  `(tactic| try simp only [absS, StreamGroup.roleSlab, StreamGroup.roleWakers, StreamGroup.roleStates,
      StreamGroup.roleKeys, StreamGroup.roleCapacity, StreamGroup.roleQueue] at *)

theorem queries_tie (g : StreamGroup) (b : Eng Grp) (k : Nat) :
    StreamGroup.len g = some (absS g b).s.len ∧
    StreamGroup.capacity_fn g = some (absS g b).s.capacity ∧
    StreamGroup.is_empty g = some (decide ((absS g b).s.len = 0)) ∧
    StreamGroup.contains_key g k = some (g, (absS g b).s.keys.contains k) := by
  refine ⟨rfl, rfl, ?_, rfl⟩
  unfold StreamGroup.is_empty
  unroles
  simp only [Slab.isEmpty, pure]
  first | (congr 1; done) | (congr 1; simp; done) | (congr 1; rw [Bool.eq_iff_iff]; simp)

/-- `reserve(additional)` = `GEng.reserve` -/
theorem reserve_tie (g : StreamGroup) (b : Eng Grp) (add : Nat) (h : WfG g) :
    ∃ g', StreamGroup.reserve g add = some (g', ()) ∧ WfG g' ∧
      core (absS g' b) = core (GEng.reserve (absS g b) add) := by
  obtain ⟨hrd, hnw, hsl, hsh⟩ := h
  obtain ⟨r', hr1, hr2, hr3⟩ := TieVec.resize_grow_tie g.roleCapacity g.roleWakers.readiness b.w
    (g.roleCapacity + add) hrd (Nat.le_add_right _ _)
  unfold StreamGroup.reserve StreamGroup.len
  by_cases hc : g.roleSlab.len + add < g.roleCapacity
  · unroles
    simp [uadd, hc, GEng.reserve, core, TieVec.abs, World.withStd]
    exact ⟨hrd, hnw, hsl, hsh⟩
  · unroles
    simp [uadd, hc, GEng.reserve, core, WakerVec.resize, hr1]
    refine ⟨⟨?_, ?_, ?_, ?_⟩, ?_⟩
    · unroles; exact hr2
    · unroles
    · unroles; simp [PVec.resize]
    · intro j hj
      have hlt : ¬ j < g.roleStates.len := by rw [hsl]; unroles; omega
      unroles
      simp [PVec.resize, hlt]
    · rw [hr3]
      refine ⟨rfl, rfl, rfl, rfl, rfl, ?_⟩
      funext i
      by_cases hi : i < g.roleStates.len
      · unroles; simp [PVec.resize, hi]
      · have := hsh i (by rw [← hsl]; unroles; omega)
        unroles
        simp [PVec.resize, hi, this]

/-- `insert(member c)` = `GEng.insertAt (GEng.grow ·) c`: the capacity check and growth `2·cap+1`, the slab's
    next key, the key set, the state table and the readiness flag; the returned key is the slab's next key -/
theorem insert_tie (g : StreamGroup) (b : Eng Grp) (c : Nat) (keep : Bool) (h : WfG g)
    (hn : (GEng.grow (absS g b)).s.next < (GEng.grow (absS g b)).s.capacity) :
    ∃ g', StreamGroup.insert g c = some (g', (absS g b).s.next) ∧ WfG g' ∧
      core (absS g' b) = core (GEng.insertAt (GEng.grow (absS g b)) c keep) := by
  obtain ⟨g1, hg1, hw1, hc1⟩ := reserve_tie g b (g.roleCapacity * 2 + 1) h
  unfold StreamGroup.insert StreamGroup.len
  by_cases hcap : g.roleCapacity ≤ g.roleSlab.len
  · -- grows first
    have hgrow : GEng.grow (absS g b) = GEng.reserve (absS g b) (g.roleCapacity * 2 + 1) := by
      unfold GEng.grow; unroles; simp [hcap]
    rw [hgrow] at hn ⊢
    obtain ⟨hrd, hnw, hsl, hsh⟩ := hw1
    have hcore := hc1
    simp only [core, GCore.mk.injEq] at hcore
    obtain ⟨-, -, -, -, -, hcapy, hst, hmem, hvac, hent, hnext, hlen, hkeys, -⟩ := hcore
    have hn1 : g1.roleSlab.next < g1.roleCapacity := by
      have h1 : (absS g1 b).s.next = g1.roleSlab.next := rfl
      have h2 : (absS g1 b).s.capacity = g1.roleCapacity := rfl
      rw [← h1, ← h2, hnext, hcapy]; exact hn
    obtain ⟨r', hs1, hs2, hs3⟩ := TieVec.set_ready_tie g1.roleCapacity g1.roleWakers.readiness b.w
      g1.roleSlab.next hrd hn1
    have hkl : g1.roleSlab.next < g1.roleStates.len := by rw [hsl]; exact hn1
    have hnx : g1.roleSlab.next = g.roleSlab.next := by
      have h1 : (absS g1 b).s.next = g1.roleSlab.next := rfl
      rw [← h1, hnext]; simp [GEng.reserve]; split <;> rfl
    rw [core_insertAt (GEng.reserve (absS g b) (g.roleCapacity * 2 + 1)) (absS g1 b) c keep keep hc1.symm]
    unroles
    rw [hnx] at hkl hs1 hs3 hn1
    simp [hcap, uadd, hg1, Slab_insert_snd, PVec.idx, PVec.set, hkl, PS.PollState.set_pending, hs1, hnx]
    refine ⟨⟨?_, ?_, ?_, ?_⟩, ?_⟩
    · unroles; exact hs2
    · unroles; exact hnw
    · unroles; exact hsl
    · intro j hj; unroles
      have : j ≠ g.roleSlab.next := by unroles; omega
      unroles
      simp [this]; exact hsh j hj
    · rw [hs3]
      simp only [core, GEng.insertAt, Grp.slabInsert, Slab.insert, BTree.insert, insertSorted_eq, World.emit,
        GCore.mk.injEq, hnx]
      by_cases hne : g.roleSlab.next = g1.roleSlab.entries
      · unroles; simp only [if_pos hne]; simp
        refine ⟨?_, ?_⟩ <;> (funext j; by_cases hj : j = g.roleSlab.next <;> (unroles; simp [upd, hj, TiePS.abs]))
      · unroles; simp only [if_neg hne]; simp
        refine ⟨?_, ?_⟩ <;> (funext j; by_cases hj : j = g.roleSlab.next <;> (unroles; simp [upd, hj, TiePS.abs]))
  · -- enough room
    have hgrow : GEng.grow (absS g b) = absS g b := by
      unfold GEng.grow; unroles; simp [hcap]
    rw [hgrow] at hn ⊢
    obtain ⟨hrd, hnw, hsl, hsh⟩ := h
    have hn1 : g.roleSlab.next < g.roleCapacity := hn
    obtain ⟨r', hs1, hs2, hs3⟩ := TieVec.set_ready_tie g.roleCapacity g.roleWakers.readiness b.w
      g.roleSlab.next hrd hn1
    have hkl : g.roleSlab.next < g.roleStates.len := by rw [hsl]; exact hn1
    unroles
    simp [hcap, uadd, Slab_insert_snd, PVec.idx, PVec.set, hkl, PS.PollState.set_pending, hs1]
    refine ⟨⟨?_, ?_, ?_, ?_⟩, ?_⟩
    · unroles; exact hs2
    · unroles; exact hnw
    · unroles; exact hsl
    · intro j hj; unroles
      have : j ≠ g.roleSlab.next := by unroles; omega
      unroles
      simp [this]; exact hsh j hj
    · rw [hs3]
      simp only [core, GEng.insertAt, Grp.slabInsert, Slab.insert, BTree.insert, insertSorted_eq, World.emit,
        GCore.mk.injEq]
      by_cases hne : g.roleSlab.next = g.roleSlab.entries
      · unroles; simp only [if_pos hne]; simp
        refine ⟨?_, ?_⟩ <;> (funext j; by_cases hj : j = g.roleSlab.next <;> (unroles; simp [upd, hj, TiePS.abs]))
      · unroles; simp only [if_neg hne]; simp
        refine ⟨?_, ?_⟩ <;> (funext j; by_cases hj : j = g.roleSlab.next <;> (unroles; simp [upd, hj, TiePS.abs]))

/-- `remove(key)` = `GEng.remove`: answers whether the key was present; a present key leaves the key set, its
    state becomes `None`, its slab entry joins the vacant chain (the member is dropped by `Slab::remove`) -/
theorem remove_tie (g : StreamGroup) (b : Eng Grp) (k : Nat) (h : WfG g)
    (hocc : g.roleKeys.elems.contains k = true →
      k < g.roleCapacity ∧ k < g.roleSlab.entries ∧ ∃ c, g.roleSlab.member k = some c) :
    ∃ g', StreamGroup.remove g k = some (g', (absS g b).s.keys.contains k) ∧ WfG g' ∧
      core (absS g' b) = core (removeKey (absS g b) k) := by
  obtain ⟨hrd, hnw, hsl, hsh⟩ := h
  unfold StreamGroup.remove
  by_cases hk : g.roleKeys.elems.contains k = true
  · obtain ⟨hkc, hke, c, hkm⟩ := hocc hk
    have hkl : k < g.roleStates.len := by rw [hsl]; exact hkc
    have hk' : k ∈ g.roleKeys.elems := by simpa using hk
    unroles
    simp [BTree.remove, hk', PVec.idx, PVec.set, hkl, PS.PollState.set_none, Slab.remove, hkm, hke, removeKey,
      BTree.contains]
    refine ⟨⟨?_, ?_, ?_, ?_⟩, ?_⟩
    · unroles; exact hrd
    · unroles; exact hnw
    · unroles; exact hsl
    · intro j hj; unroles
      by_cases hjk : j = k
      · simp [hjk]
      · simp [hjk]; exact hsh j hj
    · simp only [core, Grp.slabRemove, World.emit, TieVec.abs, World.withStd, GCore.mk.injEq]
      simp
      refine ⟨?_, ?_, ?_⟩ <;> (funext j; by_cases hj : j = k <;> simp [upd, hj, TiePS.abs])
  · have hk' : ¬ k ∈ g.roleKeys.elems := by simpa using hk
    have hfil : List.filter (fun x => !decide (x = k)) g.roleKeys.elems = g.roleKeys.elems := by
      apply List.filter_eq_self.mpr
      intro a ha
      have : a ≠ k := fun h => hk' (h ▸ ha)
      simp [this]
    unroles
    simp [BTree.remove, hk', removeKey, BTree.contains, hfil]
    refine ⟨⟨hrd, hnw, hsl, hsh⟩, ?_⟩
    simp [core, World.emit, TieVec.abs, World.withStd]

/-- `with_capacity(k)` (and `new()` = `with_capacity(0)`): the empty group whose bookkeeping has `k` armed slots —
    the state the model reaches by `reserve(k)` on its initial group -/
theorem with_capacity_tie (k : Nat) (b : Eng Grp) :
    ∃ g, StreamGroup.with_capacity k = some g ∧ WfG g ∧ StreamGroup.new = StreamGroup.with_capacity 0 ∧
      core (absS g b) =
        { mode := .std, cap := k, bits := fun i => decide (i < k), count := k, parent := none, capacity := k,
          st := fun _ => .none, member := fun _ => none, vac := fun _ => 0, entries := 0, next := 0, len := 0,
          keys := [], queue := [] } := by
  obtain ⟨r, hr1, hr2, hr3⟩ := TieVec.new_tie k b.w
  unfold StreamGroup.with_capacity
  simp only [WakerVec.new, hr1]
  refine ⟨_, rfl, ⟨?_, ?_, ?_, ?_⟩, ?_, ?_⟩
  · unroles; exact hr2
  · unroles
  · unroles; simp [PVec.replicate]
  · intro j _; unroles; simp [PVec.replicate]
  · unfold StreamGroup.new; simp; rfl
  · unroles
    simp only [core, hr3, World.withStd, GCore.mk.injEq]
    simp [PVec.replicate, Slab.empty, BTree.empty, TiePS.abs]

end TieGrpS
/-! ## non-vacuity: a concrete run of the translated group code -/

/-- `new()`, two inserts (capacity 0 → 1 → 4 by the `2·cap+1` rule; keys 0 and 1), removal of key 0, a stale second
    removal, one more insert (key 0 is reused) -/
example :
    (do let g ← GrpF.FutureGroup.new
        let (g, k0) ← GrpF.FutureGroup.insert g 100
        let c1 ← GrpF.FutureGroup.capacity_fn g
        let (g, k1) ← GrpF.FutureGroup.insert g 101
        let c2 ← GrpF.FutureGroup.capacity_fn g
        let (g, r1) ← GrpF.FutureGroup.remove g k0
        let (g, r2) ← GrpF.FutureGroup.remove g k0
        let (g, k2) ← GrpF.FutureGroup.insert g 102
        let (_, has1) ← GrpF.FutureGroup.contains_key g 1
        pure (k0, c1, k1, c2, r1, r2, k2, has1, ← GrpF.FutureGroup.len g, g.roleWakers.readiness.roleCount))
      = some (0, 1, 1, 4, true, false, 0, true, 2, 4) := by rfl

example : (do let g ← GrpS.StreamGroup.with_capacity 2
              let (g, _) ← GrpS.StreamGroup.reserve g 1
              let (g, k) ← GrpS.StreamGroup.insert g 7
              pure (k, ← GrpS.StreamGroup.capacity_fn g, ← GrpS.StreamGroup.is_empty g)) = some (0, 2, false) := by rfl

#print axioms insertSorted_eq
#print axioms core_insertAt
#print axioms remove_eq_removeKey
#print axioms Slab_insert_snd
#print axioms TieGrpF.queries_tie
#print axioms TieGrpF.reserve_tie
#print axioms TieGrpF.insert_tie
#print axioms TieGrpF.remove_tie
#print axioms TieGrpF.with_capacity_tie
#print axioms TieGrpS.queries_tie
#print axioms TieGrpS.reserve_tie
#print axioms TieGrpS.insert_tie
#print axioms TieGrpS.remove_tie
#print axioms TieGrpS.with_capacity_tie

end Fc
