/-
  Kernel tie, `[S; N]::merge()` (src/stream/merge/array.rs): `Merge::poll_next`, TRANSLATED FROM THE CURRENT SOURCE
  (tools/rs2lean.py → FcGen/KSrcArr3.lean), refines one `Eng.poll merge` of the model.  The array counterpart of
  `TieMergeV` in FcProps/KTieFam.lean (see FcProps/KTieJoinArr.lean for what differs).  Proofs: FcProps/KTieMergeA.lean.
-/
import FcGen.KSrcArr3
import FcProps.KTieCore
import FcProps.KTieStd
import FcProps.KTiePS
import FcProps.KTieIdx
import Fc.Families

namespace Fc
open Rs Src

namespace TieMergeA
open MergeA

def absM (g : Merge) (b : Eng Fix) : Eng Fix :=
  { w := TieArr.abs g.roleWakers.readiness b.w,
    s := { b.s with n := g.roleKids.len, st := fun i => TiePS.abs (g.roleStates.get i), cnt := g.roleCount,
                    off := g.roleIndexer.roleOffset } }

structure WfM (N : Nat) (g : Merge) : Prop where
  kn : g.roleKids.len = N
  rd : TieArr.Wf N g.roleWakers.readiness
  sl : g.roleStates.len = N
  mx : g.roleIndexer.roleMax = N
  /-- `complete` counts the inputs that have ended, and not all have -/
  cn : g.roleCount < N ∨ N = 0

def poll_tie_statement : Prop :=
  ∀ (N : Nat) (g : Merge) (b : Eng Fix) (w : Nat),
    WfM N g → StreamStepsF b.w → (∀ c i, Wk.sub i ∈ b.w.handed c → i < N) → b.s.dead = false →
    ∃ g' env' ret,
      Merge.poll_next N g w ((absM g b).w.emit (.pollBegin w)) = some (g', env', ret) ∧
      (ret ≠ .ready none ∨ N = 0 → WfM N g') ∧
      fcore (absM g' b) = fcore (Eng.poll merge (absM g b) w) ∧
      env'.scripts = (Eng.poll merge (absM g b) w).w.scripts ∧
      env'.handed = (Eng.poll merge (absM g b) w).w.handed ∧
      (Eng.poll merge (absM g b) w).w.trace = .pollEnd (outcomeOfStream ret) :: env'.trace

end TieMergeA
end Fc
