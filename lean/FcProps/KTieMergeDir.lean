/-
  Kernel tie, no_std / alloc-only builds — `merge()` over `Vec` and arrays.  Without the `std` feature the SAME family sources are compiled
  against src/utils/wakers/{vec,array}/no_std.rs: the readiness set has no flags (`clear_ready` answers `true`, `any_ready` is
  `true`, `set_ready` does nothing) and `WakerVec::get` / `WakerArray::get` hand out the stored parent waker, so every
  unfinished child is polled on every poll with the caller's own waker — the model's `direct` mode.  tools/rs2lean.py
  produces this flavour from the translated source of the family (FcGen/KSrcFamD.lean, KSrcArr3D.lean: the text of the std
  flavour with the functions of no_std.rs, translated in FcGen/KSrcDir.lean, in place of those of the std waker module).
  The statements are those of the std flavour (FcProps/KTieFam.lean, KTieMergeArr.lean) read through `TieDir.absV` / `absA`; the
  clauses about the flag table are gone.  Proofs: FcProps/KTieMergeVD.lean, KTieMergeAD.lean.
-/
import FcGen.KSrcFamD
import FcGen.KSrcArr3D
import FcProps.KTieCore
import FcProps.KTieDir
import FcProps.KTiePS
import FcProps.KTieIdx
import Fc.Families

namespace Fc
open Rs Src

namespace TieMergeVD
open MergeVD

def absM (g : Merge) (b : Eng Fix) : Eng Fix :=
  { w := TieDir.absV g.roleWakers.readiness b.w,
    s := { b.s with n := g.roleKids.len, st := fun i => TiePS.abs (g.roleStates.get i), cnt := g.roleCount,
                    off := g.roleIndexer.roleOffset } }

structure WfM (g : Merge) : Prop where
  sl : g.roleStates.len = g.roleKids.len
  mx : g.roleIndexer.roleMax = g.roleKids.len
  /-- `complete` counts the inputs that have ended, and not all have -/
  cn : g.roleCount < g.roleKids.len ∨ g.roleKids.len = 0

def poll_tie_statement : Prop :=
  ∀ (g : Merge) (b : Eng Fix) (w : Nat),
    WfM g → StreamStepsF b.w → (∀ c i, Wk.sub i ∈ b.w.handed c → i < g.roleKids.len) → b.s.dead = false →
    ∃ g' env' ret,
      Merge.poll_next g w ((absM g b).w.emit (.pollBegin w)) = some (g', env', ret) ∧
      (ret ≠ .ready none ∨ g.roleKids.len = 0 → WfM g') ∧
      fcore (absM g' b) = fcore (Eng.poll merge (absM g b) w) ∧
      env'.scripts = (Eng.poll merge (absM g b) w).w.scripts ∧
      env'.handed = (Eng.poll merge (absM g b) w).w.handed ∧
      (Eng.poll merge (absM g b) w).w.trace = .pollEnd (outcomeOfStream ret) :: env'.trace

end TieMergeVD

namespace TieMergeAD
open MergeAD

def absM (g : Merge) (b : Eng Fix) : Eng Fix :=
  { w := TieDir.absA g.roleWakers.readiness b.w,
    s := { b.s with n := g.roleKids.len, st := fun i => TiePS.abs (g.roleStates.get i), cnt := g.roleCount,
                    off := g.roleIndexer.roleOffset } }

structure WfM (N : Nat) (g : Merge) : Prop where
  kn : g.roleKids.len = N
  sl : g.roleStates.len = N
  mx : g.roleIndexer.roleMax = N
  /-- `complete` counts the inputs that have ended, and not all have -/
  cn : g.roleCount < N ∨ N = 0

def poll_tie_statement : Prop :=
  ∀ (N : Nat) (g : Merge) (b : Eng Fix) (w : Nat),
    WfM N g → StreamStepsF b.w → (∀ c i, Wk.sub i ∈ b.w.handed c → i < N) → b.s.dead = false →
    ∃ g' env' ret,
      Merge.poll_next N g w ((absM g b).w.emit (.pollBegin w)) = some (g', env', ret) ∧
      (ret ≠ .ready none ∨ N = 0 → WfM N g') ∧
      fcore (absM g' b) = fcore (Eng.poll merge (absM g b) w) ∧
      env'.scripts = (Eng.poll merge (absM g b) w).w.scripts ∧
      env'.handed = (Eng.poll merge (absM g b) w).w.handed ∧
      (Eng.poll merge (absM g b) w).w.trace = .pollEnd (outcomeOfStream ret) :: env'.trace

end TieMergeAD

end Fc
