/-
  Kernel tie, fixed families — `Vec<S>::merge()`: the translated `Merge::poll_next` (FcGen/KSrcFam.lean, generated from
  src/stream/merge/vec.rs) refines one `Eng.poll merge` of the model.  Statement: FcProps/KTieFam.lean
  (`TieMergeV.poll_tie_statement`); proof: FcLemmas/KTieFam{Env,Model,Loop,Main}.lean.

  From a well-formed `Merge` (`WfM`), an environment whose scripted children answer like streams (`StreamStepsF`) and
  whose handed-out sub-wakers all belong to a slot of the combinator, one call of the translated function with task
  waker `w` does not panic, returns the `Poll` value of the model's outcome, and leaves a combinator + environment
  whose reading (`absM`) is the model state after `Eng.poll merge · w`: same readiness bits / count / parent waker /
  capacity, states, `complete` counter, indexer offset (`fcore`), same remaining scripts, same handed-out wakers, same
  trace (the model's closing `pollEnd` is logged by the caller); `WfM` is kept unless the stream has just ended.

  The hypothesis on the handed-out wakers was ADDED to the statement: without it the statement is false — see the
  counterexample at the end of this file (a stale sub-waker of a slot that does not exist: the crate's `wake` indexes
  the bit set out of bounds and panics, the model sets a bit beyond the capacity).
-/
import FcProps.KTieFam
import FcLemmas.KTieMergeMain

namespace Fc
open Rs Src

namespace TieMergeV
open MergeV

theorem poll_tie : poll_tie_statement := poll_tie_main

/-- the same refinement, and in addition what the NEXT call needs again: the children are the same, every sub-waker
    handed out so far (including those of this poll) belongs to a slot, the remaining scripts still answer like streams -/
theorem poll_tie_strong (g : Merge) (b : Eng Fix) (w : Nat) (hW : WfM g) (hS : StreamStepsF b.w)
    (hH : HandedIn g.roleKids.len b.w) (hd : b.s.dead = false) :
    ∃ g' env' ret,
      Merge.poll_next g w ((absM g b).w.emit (.pollBegin w)) = some (g', env', ret) ∧
      (ret ≠ .ready none ∨ g.roleKids.len = 0 → WfM g') ∧
      (fcore (absM g' b) = fcore (Eng.poll merge (absM g b) w) ∧
       env'.scripts = (Eng.poll merge (absM g b) w).w.scripts ∧
       env'.handed = (Eng.poll merge (absM g b) w).w.handed ∧
       (Eng.poll merge (absM g b) w).w.trace = .pollEnd (outcomeOfStream ret) :: env'.trace) ∧
      g'.roleKids.len = g.roleKids.len ∧ HandedIn g.roleKids.len env' ∧ StreamStepsF env' :=
  poll_tie_core g b w hW hS hH hd

end TieMergeV

/-! ## non-vacuity: a concrete instance of the hypotheses, and the conclusion checked by evaluation -/
namespace TieMergeVEx
open MergeV TieMergeV

/-- three streams; the first poll finds child 0 pending (it wakes itself during the poll), child 1 yields 8 -/
def sc : Nat → List Step := fun c =>
  if c = 0 then [⟨.pend, [(0, 0)]⟩, ⟨.item 7, []⟩, ⟨.fin, []⟩]
  else if c = 1 then [⟨.item 8, []⟩, ⟨.fin, []⟩]
  else if c = 2 then [⟨.fin, []⟩] else []

def b0 : Eng Fix := { w := World.init .std 3 sc, s := Fix.init 3 0 }

example : StreamStepsF b0.w := by
  intro c st h
  simp only [b0, World.init, sc] at h
  split at h
  · simp at h; rcases h with rfl | rfl | rfl <;> simp
  · split at h
    · simp at h; rcases h with rfl | rfl <;> simp
    · split at h
      · simp at h; subst h; simp
      · simp at h

example : ∀ c i, Wk.sub i ∈ b0.w.handed c → i < 3 := by
  intro c i h; simp [b0, World.init] at h

example : b0.s.dead = false := rfl

/-- the conclusion on `Merge::new(3 streams)`, checked by evaluation: the translated function does not panic, the
    returned value is the model's outcome, and trace, counters, offset, readiness count and parent waker, the flags and
    states of the three slots, the remaining scripts and the handed-out wakers of the three children agree -/
example :
    (do let g ← Merge.new ⟨3⟩
        let (g', env', ret) ← Merge.poll_next g 1 ((absM g b0).w.emit (.pollBegin 1))
        let m := Eng.poll merge (absM g b0) 1
        let a := absM g' b0
        pure (decide (m.w.trace = .pollEnd (outcomeOfStream ret) :: env'.trace) &&
              decide (outcomeOfStream ret = .some 0 [8]) &&
              decide (a.s.n = m.s.n ∧ a.s.cnt = m.s.cnt ∧ a.s.off = m.s.off ∧ m.s.off = 1) &&
              decide (a.w.count = m.w.count ∧ a.w.cap = m.w.cap ∧ a.w.parent = m.w.parent ∧ m.w.parent = some 1) &&
              (List.range 3).all (fun i => a.w.bits i == m.w.bits i && decide (a.s.st i = m.s.st i) &&
                decide (env'.handed i = m.w.handed i) &&
                decide ((env'.scripts i).map (·.res) = (m.w.scripts i).map (·.res))) &&
              decide (env'.trace.length = 7)))
      = some true := by decide

/-- the statement without the hypothesis on the handed-out wakers is false: child 0 was handed the sub-waker of a
    slot 5 that a one-stream merge does not have and invokes it during its poll — the translated `wake` panics
    (`set` out of bounds), the model does not -/
def bC : Eng Fix :=
  { w := { World.init .std 1 (fun c => if c = 0 then [⟨.pend, [(0, 1)]⟩] else []) with
           handed := fun c => if c = 0 then [.sub 5] else [] },
    s := Fix.init 1 0 }

example : ((Merge.new ⟨1⟩).map fun g => (Merge.poll_next g 9 ((absM g bC).w.emit (.pollBegin 9))).isSome)
    = some false := by decide

end TieMergeVEx

#print axioms TieMergeV.poll_tie
#print axioms TieMergeV.poll_tie_strong

end Fc
