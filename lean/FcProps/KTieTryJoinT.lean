/-
  Kernel tie, `(A, B, …).try_join()` (the TUPLE container, src/future/try_join/tuple.rs, `impl_try_join_tuple!`): the
  translated `TryJoin::poll` and the translated `PinnedDrop` destructor `TryJoin::drop` (FcGen/KSrcTup2.lean, generated
  from rustc's expansion of the current source after the normalisation of tools/tuple_norm.py, namespace `TryJoinT`)
  refine `Eng.poll tryJoinTuple` / `Eng.drop tryJoinTuple` of the model, for every arity `0 < N`.  Statements:
  FcProps/KTieTryJoinTup.lean (proved here UNCHANGED); proofs: FcLemmas/KTieTryJoinT{Defs,Poll,Drop}.lean.  Imported as
  they are: the environment lemmas of the array try_join (FcLemmas/KTieTryJoinAEnv.lean — the readiness set of a tuple is
  `ReadinessArray<N>`), the facts about scripted futures and `PollState` of the Vec try_join
  (FcLemmas/KTieTryJoin{Loop,Main}.lean), the list facts (FcLemmas/KTieListFacts.lean), the rule for a `for` loop that can
  `return` (`TieLoop.forCtl_scan`, FcLemmas/KTieLoopCore.lean — the rule of the merge ties) and the rule for a `for` loop
  that cannot (`forBreak_bindJ`, FcLemmas/KTieJoinDefs.lean).

  What differs from the array / Vec try_join, and is therefore proved here and not ported: `any_ready` is tested at the
  top of EVERY iteration (`loopAny`), so the poll can answer `Pending` from inside the loop; the flag of a slot is cleared
  BEFORE its state is looked at (`clearFirst`; the stale flag of a finished child is cleared too); `completed` counts UP
  (the `Ready` slots, and the child that failed); the `Ok` of the LAST outstanding child moves the outputs out and
  returns them from inside the loop, as the `Err` of a failing child returns from inside the loop (the model's `handle`
  exits in both cases), and the code after the loop only ever answers `Pending`; the destructor tests the state of every
  slot in turn instead of walking `ready_indexes()` / `pending_indexes()`.

  `poll_tie`: from a well-formed live try_join of `N` children (`WfT N`: `0 < N` children, the readiness set is well
  formed, the tables have size `N`, `completed < N` counts the `Ready` slots, a `Ready` slot holds a value;
  `consumed = false`), an environment whose children answer like futures (`FutStepsF`) and whose handed-out sub-wakers all
  belong to a slot, one call of the translated `poll` with task waker `w` does not panic (the `assert!(!consumed)` holds,
  no index out of bounds, `WakerArray::get` finds the sub-waker, no uninitialised output slot is read by the completing
  `take`), returns the `Poll<Result<(T1, …), E>>` of the model's outcome (`Pending`; `Ready(Err(e))` at the first child
  that fails — the scan is left at once; `Ready(Ok(outputs in slot order))` when the last child succeeds), and leaves a
  combinator + environment whose reading (`absT`) is the model state after `Eng.poll tryJoinTuple · w` (`jcore`), same
  remaining scripts, same handed-out wakers, same trace (the model's closing `pollEnd` is logged by the caller); `WfT N`
  and `consumed = false` are kept while the answer is `Pending`.  As for the other containers the `jcore` clause is stated
  for `Pending` and `Ready(Err(_))`; for `Ready(Ok(_))` it is `jcoreDone` (`outputs.take()` moves the values out while the
  model keeps `out`; counterexample to the stronger clause: `TieTryJoinTEx.jcore_clause_false_when_done` below).

  `drop_tie` / `drop_failed_tie`: the destructor of a live try_join (`WfT N`) resp. of one that failed (`WfFailed N`: one
  slot `None`, the others `Pending` or `Ready` with a value) does not panic (every `Ready` slot is initialised) and logs
  what `Eng.drop tryJoinTuple` logs: the values already produced are released in slot order, then the children still
  pending are dropped in slot order.
-/
import FcProps.KTieTryJoinTup
import FcLemmas.KTieTryJoinTPoll
import FcLemmas.KTieTryJoinTDrop

set_option linter.unusedSimpArgs false
set_option linter.unusedVariables false

namespace Fc
open Rs Src

namespace TieTryJoinT
open TryJoinT

/-- the same refinement, and in addition what the NEXT call (a poll, or the drop) needs again: the children are the same
    in number, every sub-waker handed out so far (including those of this poll) belongs to a slot, the remaining scripts
    still answer like futures, and the try_join is `consumed` exactly when it returned `Ready` -/
theorem poll_tie_strong (N : Nat) (g : TryJoin) (b : Eng Fix) (w : Nat) (hW : WfT N g) (hS : FutStepsF b.w)
    (hH : HandedIn N b.w) (hd : g.roleDone = false) :
    ∃ g' env' ret,
      TryJoin.poll N g w ((absT g b).w.emit (.pollBegin w)) = some (g', env', ret) ∧
      (ret = .pending → WfT N g' ∧ g'.roleDone = false) ∧
      ((∀ vs, ret ≠ .ready (.ok vs)) → jcore (absT g' b) = jcore (Eng.poll tryJoinTuple (absT g b) w)) ∧
      ((∃ vs, ret = .ready (.ok vs)) → TieTryJoinV.jcoreDone N (absT g' b) (Eng.poll tryJoinTuple (absT g b) w)) ∧
      env'.scripts = (Eng.poll tryJoinTuple (absT g b) w).w.scripts ∧
      env'.handed = (Eng.poll tryJoinTuple (absT g b) w).w.handed ∧
      (Eng.poll tryJoinTuple (absT g b) w).w.trace = .pollEnd (outcomeOfTryJoin ret) :: env'.trace ∧
      g'.roleKids.len = N ∧ HandedIn N env' ∧ FutStepsF env' ∧
      (ret ≠ .pending → g'.roleDone = true) := by
  obtain ⟨⟨g', env', ret⟩, h1, X, hp, hex⟩ := ttj_poll_core N g b w hW hS hH hd
  dsimp only at hp hex
  refine ⟨g', env', ret, h1, ?_, ?_, ?_, ?_, ?_, ?_, hex.kids, hex.hin, hex.sok, hex.dn⟩
  · intro hr
    exact ⟨(hex.pend hr).wf hW.pos, (hex.pend hr).done⟩
  · intro hno
    rw [hp]
    show jcore (absT g' b) = jcore X
    cases ret with
    | pending => exact (hex.pend rfl).jcore_eq
    | ready r =>
      cases r with
      | ok vs => exact absurd rfl (hno vs)
      | err x => exact hex.err x rfl
  · rintro ⟨vs, hr⟩
    rw [hp]
    exact hex.ok vs hr
  · rw [hp]
    simp only [Eng.emit, World.emit, hex.ew]
    rfl
  · rw [hp]
    simp only [Eng.emit, World.emit, hex.ew]
    rfl
  · rw [hp]
    simp only [Eng.emit, World.emit, hex.ew]
    rfl

theorem poll_tie : poll_tie_statement := by
  intro N g b w hW hS hH hd
  obtain ⟨g', env', ret, h1, h2, h3, h4, h5, h6, h7, _⟩ := poll_tie_strong N g b w hW hS hH hd
  exact ⟨g', env', ret, h1, h2, h3, h4, h5, h6, h7⟩

theorem drop_tie : drop_tie_statement := by
  intro N g b hW _
  obtain ⟨⟨g', env', ⟨⟩⟩, h1, h2, h3, h4⟩ := ttj_drop_core N g b hW.kn hW.sl hW.ic
    (fun i hi hr => by
      rcases hW.rs i hi with h | ⟨_, h⟩
      · rw [h] at hr; cases hr
      · exact h)
  exact ⟨g', env', h1, h2, h3, h4⟩

theorem drop_failed_tie : drop_failed_tie_statement := by
  intro N g b hW
  obtain ⟨⟨g', env', ⟨⟩⟩, h1, h2, _, _⟩ := ttj_drop_core N g b hW.kn hW.sl hW.ic
    (fun i hi hr => by
      rcases hW.rs i hi with h | h | ⟨_, h⟩
      · rw [h] at hr; cases hr
      · rw [h] at hr; cases hr
      · exact h)
  exact ⟨g', env', h1, h2⟩

/-- `TryJoin::new` on `N ≥ 1` children builds a well-formed live try_join: the hypotheses `WfT N` / `roleDone = false` of
    the theorems above hold of every freshly built combinator -/
theorem new_wf (N : Nat) (kids : Rs.Kids) (hk : kids.len = N) (hN : 0 < N) :
    ∃ g, TryJoin.new N kids = some g ∧ WfT N g ∧ g.roleDone = false ∧ g.roleKids = kids := by
  obtain ⟨r, hr, hwf, _⟩ := TieArr.new_tie N (World.init .std N (fun _ => []))
  simp only [TryJoin.new, WakerArray.new, hr, Option.bind_eq_bind, Option.bind_some, Option.pure_def]
  refine ⟨_, rfl, ?_, ?_, ?_⟩
  · refine ⟨hN, hk, hwf, rfl, rfl, ?_, hN, fun i _ => Or.inl rfl⟩
    simp only [Rs.PVec.replicate, TryJoin.roleCount, TryJoin.roleStates]
    rw [List.filter_eq_nil_iff.mpr (fun _ _ => by simp), List.length_nil]
  · rfl
  · rfl

end TieTryJoinT

/-! ## non-vacuity: concrete instances of the hypotheses, and the conclusions checked by evaluation -/
namespace TieTryJoinTEx
open TryJoinT TieTryJoinT

/-- three futures: child 0 is pending at first (it wakes itself during the poll) and then resolves to `Ok(7)`, child 1
    resolves to `Ok(8)` at once (waking itself on the way), child 2 is pending at first (it wakes itself) and then fails
    with `Err(9)` -/
def sc : Nat → List Step := fun c =>
  if c = 0 then [⟨.pend, [(0, 0)]⟩, ⟨.ready true 7, []⟩]
  else if c = 1 then [⟨.ready true 8, [(1,0)]⟩]
  else if c = 2 then [⟨.pend, [(2,0)]⟩, ⟨.ready false 9, []⟩] else []

def b0 : Eng Fix := { w := World.init .std 3 sc, s := Fix.init 3 3 }

example : FutStepsF b0.w := by
  intro c st h
  simp only [b0, World.init, sc] at h
  split at h
  · simp at h; rcases h with rfl | rfl <;> simp
  · split at h
    · simp at h; subst h; simp
    · split at h
      · simp at h; rcases h with rfl | rfl <;> simp
      · simp at h

example : ∀ c i, Wk.sub i ∈ b0.w.handed c → i < 3 := by
  intro c i h; simp [b0, World.init] at h

example : ∃ g, TryJoin.new 3 ⟨3⟩ = some g ∧ WfT 3 g ∧ g.roleDone = false ∧ g.roleKids = ⟨3⟩ :=
  new_wf 3 ⟨3⟩ rfl (by decide)

/-- the conclusion of `poll_tie` on `TryJoin::new((3 futures))`, first poll, checked by evaluation: no panic, the answer
    is `Pending` as in the model, and trace, `completed` counter (one child is done), `consumed`, readiness count and
    parent waker, the flags, states and output slots of the three slots, the remaining scripts and the handed-out wakers
    agree -/
example :
    (do let g ← TryJoin.new 3 ⟨3⟩
        let (g', env', ret) ← TryJoin.poll 3 g 1 ((absT g b0).w.emit (.pollBegin 1))
        let m := Eng.poll tryJoinTuple (absT g b0) 1
        let a := absT g' b0
        pure (decide (m.w.trace = .pollEnd (outcomeOfTryJoin ret) :: env'.trace) &&
              decide (outcomeOfTryJoin ret = .pending) &&
              decide (a.s.n = m.s.n ∧ a.s.cnt = m.s.cnt ∧ m.s.cnt = 1 ∧ a.s.dead = m.s.dead) &&
              decide (a.w.count = m.w.count ∧ a.w.cap = m.w.cap ∧ a.w.parent = m.w.parent ∧ m.w.parent = some 1) &&
              (List.range 3).all (fun i => a.w.bits i == m.w.bits i && decide (a.s.st i = m.s.st i) &&
                decide (a.s.out i = m.s.out i) && decide (env'.handed i = m.w.handed i) &&
                decide ((env'.scripts i).map (·.res) = (m.w.scripts i).map (·.res)))))
      = some true := by decide

/-- the second poll (children 0 and 2 woke themselves): child 0 resolves to `Ok(7)`, child 2 fails — the poll answers
    `Ready(Err(9))` from inside the loop (`poll_tie`, the `jcore` clause); then the drop after the failure
    (`drop_failed_tie`) releases the two values 7 and 8 that were produced and drops no child -/
example :
    (do let g ← TryJoin.new 3 ⟨3⟩
        let (g1, env1, _) ← TryJoin.poll 3 g 1 ((absT g b0).w.emit (.pollBegin 1))
        let b1 : Eng Fix := { w := env1.emit (.pollEnd .pending), s := b0.s }
        let (g2, env2, ret) ← TryJoin.poll 3 g1 2 ((absT g1 b1).w.emit (.pollBegin 2))
        let m := Eng.poll tryJoinTuple (absT g1 b1) 2
        let a := absT g2 b1
        let b3 : Eng Fix := { w := env2.emit (.pollEnd (outcomeOfTryJoin ret)), s := b0.s }
        let (_, env3, _) ← TryJoin.drop 3 g2 ((absT g2 b3).w.emit .dropBegin)
        pure (decide (m.w.trace = .pollEnd (outcomeOfTryJoin ret) :: env2.trace) &&
              decide (outcomeOfTryJoin ret = .ready false [9]) &&
              decide (a.s.n = m.s.n ∧ a.s.cnt = m.s.cnt ∧ a.s.dead = true ∧ m.s.dead = true) &&
              decide (a.w.count = m.w.count ∧ a.w.parent = m.w.parent) &&
              (List.range 3).all (fun i => a.w.bits i == m.w.bits i && decide (a.s.st i = m.s.st i) &&
                decide (a.s.out i = m.s.out i)) &&
              decide ((Eng.drop tryJoinTuple (absT g2 b3)).w.trace = .dropEnd :: env3.trace) &&
              decide (env3.trace.take 3 = [.valDropped 8, .valDropped 7, .dropBegin])))
      = some true := by decide

/-- the try_join is dropped mid-flight after the first poll (`drop_tie`): child 1's `Ok(8)` is released, then children 0
    and 2 are dropped, as in the model -/
example :
    (do let g ← TryJoin.new 3 ⟨3⟩
        let (g1, env1, _) ← TryJoin.poll 3 g 1 ((absT g b0).w.emit (.pollBegin 1))
        let b1 : Eng Fix := { w := env1.emit (.pollEnd .pending), s := b0.s }
        let (_, env2, _) ← TryJoin.drop 3 g1 ((absT g1 b1).w.emit .dropBegin)
        pure (decide ((Eng.drop tryJoinTuple (absT g1 b1)).w.trace = .dropEnd :: env2.trace) &&
              decide (env2.trace.take 4 = [.childDropped 2, .childDropped 0, .valDropped 8, .dropBegin])))
      = some true := by decide

/-- a try_join of two futures that both succeed completes with `Ready(Ok((7, 8)))` from inside the loop -/
def sc2 : Nat → List Step := fun c =>
  if c = 0 then [⟨.ready true 7, []⟩] else if c = 1 then [⟨.ready true 8, []⟩] else []

def b2 : Eng Fix := { w := World.init .std 2 sc2, s := Fix.init 2 2 }

example :
    (do let g ← TryJoin.new 2 ⟨2⟩
        let (g', env', ret) ← TryJoin.poll 2 g 1 ((absT g b2).w.emit (.pollBegin 1))
        let m := Eng.poll tryJoinTuple (absT g b2) 1
        let a := absT g' b2
        pure (decide (m.w.trace = .pollEnd (outcomeOfTryJoin ret) :: env'.trace) &&
              decide (outcomeOfTryJoin ret = .ready true [7, 8]) &&
              decide (a.s.n = m.s.n ∧ a.s.cnt = m.s.cnt ∧ m.s.cnt = 2 ∧ a.s.dead = m.s.dead ∧ m.s.dead = true) &&
              (List.range 2).all (fun i => a.w.bits i == m.w.bits i && decide (a.s.st i = m.s.st i))))
      = some true := by decide

/-- why the `jcore` clause is not stated for `Ready(Ok(_))` (as for the array / Vec containers): on the completing poll
    above the output slot 0 of the translated combinator is empty after the values were moved out, the model still holds
    `some 7` -/
theorem jcore_clause_false_when_done :
    (do let g ← TryJoin.new 2 ⟨2⟩
        let (g', _, _) ← TryJoin.poll 2 g 1 ((absT g b2).w.emit (.pollBegin 1))
        let m := Eng.poll tryJoinTuple (absT g b2) 1
        pure (decide ((jcore (absT g' b2)).out 0 = none ∧ (jcore m).out 0 = some 7)))
      = some true := by decide

end TieTryJoinTEx

#print axioms TieTryJoinT.poll_tie
#print axioms TieTryJoinT.poll_tie_strong
#print axioms TieTryJoinT.drop_tie
#print axioms TieTryJoinT.drop_failed_tie
#print axioms TieTryJoinT.new_wf
#print axioms TieTryJoinTEx.jcore_clause_false_when_done

end Fc
