/-
  C01 — No lost wake-ups.

  Monitor `Mon.holds_C01 n` (Fc/Monitors.lean):
    * `c01Boundaries`: at every operation boundary at which the combinator is alive and its last
      poll returned Pending — `quiet`: every child c < n whose last result was Pending and whose
      latest waker was invoked since that poll began ("owes") implies that the task waker of the
      most recent top-level poll has been invoked since that poll began;
    * the same at the end of the trace;
    * `c01NoPanic`: no waker invocation panics, and a poll only unwinds if a child panicked in it.
-/
import FcLemmas.C01Dir
import FcLemmas.Conc
import Fc.Holds

namespace Fc
open Mon

/-- the property at full strength: every family, container size, configuration and history -/
def C01_statement : Prop := ∀ (c : Case) (n : Nat), holds_C01 n c.trace = true

/-- C01 for join, try_join (array/Vec and tuple models), race, race_ok (all three variants),
    merge and zip: every number of children, every child script (any mix of Pending steps with
    wake-ups of any handed-out waker of any child during the poll, results, panics), every
    history of polls with arbitrary task wakers, wake-ups between polls (current, stale, repeated,
    after completion, after the drop) and the drop; both waker strategies (std: sub-wakers and
    readiness bits; direct: alloc-only / no_std builds and the pass-through families). -/
theorem C01_no_lost_wake_conc (c : Case) (hf : c.fam.isConc = true) (n : Nat) :
    holds_C01 n c.trace = true := by
  have hg : c.fam.isGroup = false := by
    cases hfam : c.fam <;> simp_all [Fam.isConc, Fam.isGroup]
  unfold Case.trace
  rw [hg]
  simp only [Bool.false_eq_true, if_false]
  cases hm : c.fam.modeOf c.mode with
  | std =>
    exact C01.binv_holds _ (C01.binv_run (conc_policy c.fam hf) c.ops _
      (C01.binv_init c.fam c.n c.scripts c.mode hm))
  | direct =>
    exact C01D.binv_holds _ (C01D.binv_run (conc_policy c.fam hf) c.ops _
      (C01D.binv_init c.fam c.n c.scripts c.mode hm))

/-- non-vacuity: a std-mode merge in which a child wakes a sibling from inside its own poll, a
    stale waker fires after the poll, the task waker changes on every poll -/
def C01_example : Case :=
  { fam := .merge, mode := .std, keyed := false, n := 2,
    scripts := fun c => if c = 0 then [⟨.pend, []⟩, ⟨.item 1, []⟩, ⟨.fin, []⟩]
                        else if c = 1 then [⟨.pend, [(0, 0)]⟩, ⟨.pend, [(1, 0)]⟩, ⟨.fin, []⟩] else [],
    ops := [.poll 1, .fire 0 0, .poll 2, .fire 1 1, .poll 3, .poll 4, .drop, .fire 1 0] }

example : C01_example.fam.isConc = true := by decide
example : (C01_example.run.filter (fun e => match e with | .woke _ => true | _ => false)).length = 2 := by
  decide
example : C01_example.run.contains (.pollEnd (.some 0 [1])) = true := by decide

end Fc

#print axioms Fc.C01_no_lost_wake_conc
