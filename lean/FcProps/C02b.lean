/-
  C02 — exactly-once ownership, for the families that own their children as plain fields and
  buffer (almost) nothing: race, merge, chain, wait_until over a future and over a stream.

  Monitor `Mon.holds_C02 fixed n` (Fc/Monitors.lean), on a trace in which a drop of the combinator
  completed (`dropEnd` occurs; otherwise it holds trivially):
    * nothing is released after the destructor returned (`quietAfterDrop`);
    * every child `c < n` is dropped exactly once (`childDropped c` occurs exactly once), hence —
      these families release children only in their drop glue — before that drop returns;
    * for every value `v` some child produced (`childEnd _ (ready _ v)` / `childEnd _ (item v)`):
        #times `v` was returned to the caller (in a `pollEnd (ready|some _ vs)`)
          + #times it was released by the combinator (`valDropped v`)  =  #times it was produced
      (multiset accounting: equal values from different children are fine);
    * no value is returned or released that no child produced.
  The theorem covers every point at which the drop can happen: before the first poll, between
  polls, after completion, after a child's panic unwound through the combinator; polls and
  wake-ups after the drop change nothing.

  Hypotheses.
    * `hk : c.kindOk` — a future child never yields/ends, a stream child never resolves (Rust's
      types).  Without it e.g. `merge` would ignore a `Ready v` answer and `v` would count as leaked.
    * `hw` — wait_until has exactly two children (deadline, inner); its drop glue names them.
    * `h1` — the history drops the combinator at most once.  The model's `Eng.drop` can be applied
      again and then releases every child again (see `C02_double_drop` below), which is not a
      behaviour of the crate (a value is dropped once) and the harness never does it.
-/
import FcLemmas.C02bSim
import Fc.Holds

namespace Fc
open Mon

theorem C02_exactly_once_plain (c : Case)
    (hf : c.fam = .race ∨ c.fam = .merge ∨ c.fam = .chain ∨ c.fam = .waitF ∨ c.fam = .waitS)
    (hk : c.kindOk) (hw : (c.fam = .waitF ∨ c.fam = .waitS) → c.n = 2)
    (h1 : (c.ops.filter (fun o => match o with | .drop => true | _ => false)).length ≤ 1) :
    holds_C02 true c.n c.trace = true := by
  have h1' : (c.ops.filter C02b.isDrop).length ≤ 1 := by
    rw [List.filter_congr (fun o _ => C02b.isDrop_eq o)]; exact h1
  unfold Case.trace
  rcases hf with hf | hf | hf | hf | hf
  · simp only [hf, Fam.isGroup, Bool.false_eq_true, if_false, Case.finalFix, Fam.policy]
    exact C02b.holds_of_inv
      (Sim.runFix (C02b.sim_race c.n (Fam.race.modeOf c.mode)) c.ops _ rfl
        (hf ▸ Sim.scriptsOk_kind c hk _ rfl) (C02b.inv_init false c.n _))
      (by rw [C02b.nd_run lawful_race]; simpa [FEng.init, World.init, C02b.nd] using h1')
  · simp only [hf, Fam.isGroup, Bool.false_eq_true, if_false, Case.finalFix, Fam.policy]
    exact C02b.holds_of_inv
      (Sim.runFix (C02b.sim_merge c.n (Fam.merge.modeOf c.mode)) c.ops _ rfl
        (hf ▸ Sim.scriptsOk_kind c hk _ rfl) (C02b.inv_init false c.n _))
      (by rw [C02b.nd_run lawful_merge]; simpa [FEng.init, World.init, C02b.nd] using h1')
  · simp only [hf, Fam.isGroup, Bool.false_eq_true, if_false, Case.finalFix, Fam.policy]
    exact C02b.holds_of_inv
      (Sim.runFix (C02b.sim_chain c.n (Fam.chain.modeOf c.mode)) c.ops _ rfl
        (hf ▸ Sim.scriptsOk_kind c hk _ rfl) (C02b.inv_init false c.n _))
      (by rw [C02b.nd_run lawful_chain]; simpa [FEng.init, World.init, C02b.nd] using h1')
  · have h2 := hw (Or.inl hf)
    simp only [hf, h2, Fam.isGroup, Bool.false_eq_true, if_false, Case.finalFix, Fam.policy]
    exact C02b.holds_of_inv
      (Sim.runFix (C02b.sim_waitF (Fam.waitF.modeOf c.mode)) c.ops _ rfl
        (hf ▸ Sim.scriptsOk_kind c hk _ rfl) (C02b.inv_init false 2 _))
      (by rw [C02b.nd_run lawful_waitUntilF]; simpa [FEng.init, World.init, C02b.nd] using h1')
  · have h2 := hw (Or.inr hf)
    simp only [hf, h2, Fam.isGroup, Bool.false_eq_true, if_false, Case.finalFix, Fam.policy]
    exact C02b.holds_of_inv
      (Sim.runFix C02b.sim_waitS c.ops _ rfl
        (hf ▸ Sim.scriptsOk_kind c hk _ rfl) (C02b.inv_init true 2 _))
      (by rw [C02b.nd_run lawful_waitUntilS]; simpa [FEng.init, World.init, C02b.nd] using h1')

/-! ### non-vacuity -/

/-- merge of three streams, dropped mid-flight after yielding 10 and 20 (30 and 21 are never
    produced); polled and woken again after the drop -/
def C02_merge_example : Case :=
  { fam := .merge, mode := .std, keyed := false, n := 3,
    scripts := fun c => if c = 0 then [⟨.item 10, []⟩, ⟨.pend, []⟩, ⟨.item 30, []⟩]
                        else if c = 1 then [⟨.pend, []⟩, ⟨.item 20, []⟩, ⟨.item 21, []⟩]
                        else if c = 2 then [⟨.fin, []⟩] else [],
    ops := [.poll 1, .poll 1, .fire 1 0, .poll 2, .drop, .poll 3, .fire 0 0] }

example : holds_C02 true 3 C02_merge_example.trace = true := by decide
example : C02_merge_example.run.contains (.pollEnd (.some 0 [10])) = true := by decide
example : C02_merge_example.run.contains (.pollEnd (.some 0 [20])) = true := by decide
example : producedVals C02_merge_example.trace = [20, 10] := by decide
example : droppedChildren C02_merge_example.trace = [2, 1, 0] := by decide
example : dropCompleted C02_merge_example.trace = true := by decide

/-- wait_until over a stream, dropped right after the deadline resolved (to 7) and the inner
    stream pended: the deadline's output is released inside that poll, both children at the drop -/
def C02_waitS_example : Case :=
  { fam := .waitS, mode := .std, keyed := false, n := 2,
    scripts := fun c => if c = 0 then [⟨.ready true 7, []⟩]
                        else if c = 1 then [⟨.pend, []⟩, ⟨.item 3, []⟩] else [],
    ops := [.poll 1, .drop, .poll 2] }

example : holds_C02 true 2 C02_waitS_example.trace = true := by decide
example : C02_waitS_example.run =
    [.pollBegin 1, .childBegin 0 0 (.par 1), .childEnd 0 (.ready true 7),
     .childBegin 1 1 (.par 1), .childEnd 1 .pend, .valDropped 7, .pollEnd .pending,
     .dropBegin, .childDropped 1, .childDropped 0, .dropEnd,
     .pollBegin 2, .pollEnd .misuse] := by decide

/-- a race whose winner is returned, then dropped: the value is returned, not released -/
def C02_race_example : Case :=
  { fam := .race, mode := .direct, keyed := false, n := 2,
    scripts := fun c => if c = 0 then [⟨.pend, []⟩] else if c = 1 then [⟨.ready true 5, []⟩] else [],
    ops := [.poll 1, .drop] }

example : holds_C02 true 2 C02_race_example.trace = true := by decide
example : returnedVals C02_race_example.trace = [5] ∧ droppedVals C02_race_example.trace = [] := by
  decide

/-- why `h1`: a second `Op.drop` makes the model release every child again -/
def C02_double_drop : Case := { C02_race_example with ops := [.poll 1, .drop, .drop] }
example : holds_C02 true 2 C02_double_drop.trace = false := by decide

/-- the statement without `h1` is false in the model (and only because of a repeated `Op.drop`) -/
def C02_exactly_once_plain_any_history : Prop :=
  ∀ c : Case,
    (c.fam = .race ∨ c.fam = .merge ∨ c.fam = .chain ∨ c.fam = .waitF ∨ c.fam = .waitS) →
    c.kindOk → ((c.fam = .waitF ∨ c.fam = .waitS) → c.n = 2) →
    holds_C02 true c.n c.trace = true

theorem C02_needs_single_drop : ¬ C02_exactly_once_plain_any_history := by
  intro h
  have hk : C02_double_drop.kindOk := by
    intro ch st hm
    simp only [C02_double_drop, C02_race_example] at hm ⊢
    by_cases h0 : ch = 0
    · simp [h0] at hm; subst hm; rfl
    · by_cases h1 : ch = 1
      · simp [h1] at hm; subst hm; rfl
      · simp [h0, h1] at hm
  have := h C02_double_drop (Or.inl rfl) hk (by intro h'; rcases h' with h' | h' <;> cases h')
  exact absurd this (by decide)

/-- why `hw`: wait_until's drop glue names children 0 and 1 -/
example : holds_C02 true 3 ({ C02_waitS_example with n := 3 } : Case).trace = false := by decide

/-! the monitor rejects wrong traces (newest first) -/

/-- a child that is never dropped -/
example : holds_C02 true 2 [.dropEnd, .childDropped 0, .dropBegin] = false := by decide
/-- a child dropped twice -/
example : holds_C02 true 2
    [.dropEnd, .childDropped 1, .childDropped 0, .dropBegin, .childDropped 0] = false := by decide
/-- a leaked value: produced, neither returned nor released -/
example : holds_C02 true 1
    [.dropEnd, .childDropped 0, .dropBegin, .pollEnd .pending, .childEnd 0 (.item 4),
     .childBegin 0 0 (.par 1), .pollBegin 1] = false := by decide
/-- a value returned and released as well (dropped twice) -/
example : holds_C02 true 1
    [.dropEnd, .childDropped 0, .valDropped 4, .dropBegin, .pollEnd (.some 0 [4]),
     .childEnd 0 (.item 4), .childBegin 0 0 (.par 1), .pollBegin 1] = false := by decide
/-- a value returned that nobody produced -/
example : holds_C02 true 1
    [.dropEnd, .childDropped 0, .dropBegin, .pollEnd (.some 0 [9]), .pollBegin 1] = false := by decide
/-- a release after the destructor returned -/
example : holds_C02 true 1 [.childDropped 0, .dropEnd, .dropBegin] = false := by decide

end Fc

#print axioms Fc.C02_exactly_once_plain
#print axioms Fc.C02_needs_single_drop
