/-
  C16 (groups) — Selective polling (std): FutureGroup / StreamGroup poll a member that last
  returned Pending only after a waker handed out for its key has been invoked.

  Monitor: `Mon.holds_C16` (Fc/Monitors.lean): every `childBegin c slot` event satisfies
    `lastRes c ≠ Pending  ∨  a sub-waker of `slot` was invoked since c's previous poll began`
  (`lastRes c` = result of c's most recent poll, `none` if c was never polled; the second
  disjunct accepts ANY `fired _ _ (some (.sub slot))` event since c's previous `childBegin`,
  whichever child the waker had been handed to — "an earlier member that held the same key").

  Hypothesis `Case.insertsFresh` (FcLemmas/Fresh.lean): no child id is inserted twice.  The
  harness always inserts brand-new children; in the model a re-used id would make `lastRes` see
  the previous incarnation's `Pending`, and the unrestricted statement is FALSE
  (`C16_selective_group_statement_false` below).  No other hypothesis is needed: not `kindOk`,
  nothing about the order of operations, and the slab may even be corrupted by removing a key
  that still sits in `key_removal_queue` (the proof's slab invariant covers that case).
-/
import FcLemmas.C16gEng
import Fc.Holds

namespace Fc
open Mon

/-- the statement without the freshness hypothesis (false in the model, see below) -/
def C16_selective_group_statement : Prop :=
  ∀ c : Case, c.fam.isGroup = true → c.mode = .std → holds_C16 c.trace = true

/-- C16 for FutureGroup and StreamGroup: all child scripts (of any kind, with wake-ups of any
    handed-out waker inside any child poll) and all operation histories — polls with arbitrary
    wakers, wake-ups of any waker ever handed out (including stale ones of removed members),
    insert / extend of fresh children, remove, reserve, queries, drop. -/
theorem C16_selective_group (c : Case) (hg : c.fam.isGroup = true) (hm : c.mode = .std)
    (hf : c.insertsFresh) : holds_C16 c.trace = true := by
  unfold Case.trace
  rw [hg]
  simp only [if_true]
  unfold Case.finalGrp
  rw [hm]
  exact (C16g.gu_run c.ops _ (C16g.gu_init _ _ _) hf (fun _ _ => trivial)).k.mon

/-! ### the freshness hypothesis is necessary -/

/-- child 0 pends, is removed, and "the same" child 0 is inserted again: its first poll in the
    new incarnation counts as a re-poll of a pending child -/
def C16g_dup : Case :=
  { fam := .futGroup, mode := .std, keyed := false, n := 0,
    scripts := fun c => if c = 0 then [⟨.pend, []⟩, ⟨.pend, []⟩] else [],
    ops := [.insert 0, .poll 1, .remove 0, .insert 0, .poll 2] }

example : C16g_dup.fam.isGroup = true ∧ C16g_dup.mode = .std := by decide
example : ¬ C16g_dup.insertsFresh := by unfold Case.insertsFresh; decide
example : holds_C16 C16g_dup.trace = false := by decide

theorem C16_selective_group_statement_false : ¬ C16_selective_group_statement := by
  intro h
  have h1 := h C16g_dup (by decide) (by decide)
  have h2 : holds_C16 C16g_dup.trace = false := by decide
  rw [h2] at h1
  exact Bool.noConfusion h1

/-! ### non-vacuity -/

/-- a keyed StreamGroup.  Members 0 (key 0) and 1 (key 1) pend; 0 is woken and yields an item
    (and is re-armed, so it is polled again); 1 is removed; its stale waker `sub 1` is invoked;
    member 2 is inserted into the re-used key 1 and polled; `reserve` grows the capacity (arming
    the new slots) while 0 and 2 are pending — the next poll polls nobody; 2 is woken, ends;
    drop. -/
def C16g_example : Case :=
  { fam := .strGroup, mode := .std, keyed := true, n := 0,
    scripts := fun c =>
      if c = 0 then [⟨.pend, []⟩, ⟨.item 7, []⟩, ⟨.pend, []⟩]
      else if c = 1 then [⟨.pend, []⟩]
      else if c = 2 then [⟨.pend, []⟩, ⟨.fin, []⟩] else [],
    ops := [.insert 0, .insert 1, .poll 1, .fire 0 0, .poll 2, .remove 1, .fire 1 0, .insert 2,
            .poll 3, .qCapacity, .reserve 10, .qCapacity, .poll 4, .fire 2 0, .poll 5, .drop] }

example : C16g_example.fam.isGroup = true ∧ C16g_example.mode = .std := by decide
example : C16g_example.insertsFresh := by unfold Case.insertsFresh; decide

/-- six child polls happen -/
example : (C16g_example.run.filter
    (fun e => match e with | .childBegin .. => true | _ => false)).length = 6 := by decide

/-- member 0 is woken through its sub-waker and yields -/
example : Ev.fired 0 0 (some (.sub 0)) ∈ C16g_example.run ∧
    Ev.pollEnd (.some 0 [7]) ∈ C16g_example.run := by decide

/-- key 1 is re-used for member 2 after the stale waker of member 1 fired, and member 2 is polled
    in slot 1 -/
example : Ev.removed 1 true ∈ C16g_example.run ∧ Ev.fired 1 0 (some (.sub 1)) ∈ C16g_example.run ∧
    Ev.inserted 2 1 ∈ C16g_example.run ∧ Ev.childBegin 2 1 (.sub 1) ∈ C16g_example.run := by decide

/-- `reserve` grows the capacity from 4 to 14 while members are pending -/
example : Ev.answer 3 4 ∈ C16g_example.run ∧ Ev.answer 3 14 ∈ C16g_example.run := by decide

/-- the poll after `reserve` polls no member: `pollBegin 4` is directly followed by `pollEnd` -/
example : [Ev.pollBegin 4, Ev.pollEnd .pending] <:+: C16g_example.run := by decide

example : C16g_example.run.getLast? = some .dropEnd := by decide

example : holds_C16 C16g_example.trace = true := by decide

/-! ### the monitor rejects wrong traces (newest first) -/

/-- a pending member is polled again although no waker fired -/
example : holds_C16
    [.childBegin 0 0 (.sub 0), .pollBegin 2, .pollEnd .pending, .childEnd 0 .pend,
     .childBegin 0 0 (.sub 0), .pollBegin 1, .inserted 0 0] = false := by decide

/-- a wake-up of another key (`sub 1`) does not justify polling the pending member of key 0 -/
example : holds_C16
    [.childBegin 0 0 (.sub 0), .pollBegin 2, .woke 1, .fired 1 0 (some (.sub 1)), .pollEnd .pending,
     .childEnd 1 .pend, .childBegin 1 1 (.sub 1), .childEnd 0 .pend, .childBegin 0 0 (.sub 0),
     .pollBegin 1, .inserted 1 1, .inserted 0 0] = false := by decide

/-- the same history with the wake-up on key 0 is accepted -/
example : holds_C16
    [.childBegin 0 0 (.sub 0), .pollBegin 2, .woke 1, .fired 0 0 (some (.sub 0)), .pollEnd .pending,
     .childEnd 1 .pend, .childBegin 1 1 (.sub 1), .childEnd 0 .pend, .childBegin 0 0 (.sub 0),
     .pollBegin 1, .inserted 1 1, .inserted 0 0] = true := by decide

/-- a wake-up that happened BEFORE the member's previous poll does not count -/
example : holds_C16
    [.childBegin 0 0 (.sub 0), .pollBegin 3, .pollEnd .pending, .childEnd 0 .pend,
     .childBegin 0 0 (.sub 0), .pollBegin 2, .woke 1, .fired 0 0 (some (.sub 0)), .pollEnd .pending,
     .childEnd 0 .pend, .childBegin 0 0 (.sub 0), .pollBegin 1, .inserted 0 0] = false := by decide

end Fc

#print axioms Fc.C16_selective_group
#print axioms Fc.C16_selective_group_statement_false
