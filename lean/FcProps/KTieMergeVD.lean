/-
  Kernel tie, fixed families, no_std / alloc-only flavour — `Vec<S>::merge()`: the translated `Merge::poll_next` of
  FcGen/KSrcFamD.lean (src/stream/merge/vec.rs compiled against src/utils/wakers/vec/no_std.rs) refines one
  `Eng.poll merge` of the model in `direct` mode.  Statement: FcProps/KTieMergeDir.lean (`TieMergeVD.poll_tie_statement`);
  proof: FcLemmas/KTieMergeVD{Env,Main}.lean (model side, index list and loop rule shared with the std flavour).

  From a well-formed `Merge` (`WfM`: table sizes, indexer bound, `complete` below the number of inputs) and an environment
  whose scripted children answer like streams (`StreamStepsF`), one call of the translated function with task waker `w`
  does not panic, returns the `Poll` value of the model's outcome, and leaves a combinator + environment whose reading
  (`absM`: `direct` mode, the parent waker stored in the translated struct) is the model state after
  `Eng.poll merge · w`: same parent waker, states, `complete` counter, indexer offset, (untouched) flag fields (`fcore`),
  same remaining scripts, same handed-out wakers — every polled child was handed `Wk.par w` —, same trace (the model's
  closing `pollEnd` is logged by the caller); `WfM` is kept unless the stream has just ended.

  The hypothesis on the handed-out sub-wakers of the statement (inherited mechanically from the std flavour) is NOT
  needed in this flavour: a stale sub-waker does nothing on either side (`Rs.fireWk` with the flavour's wake function logs
  nothing, `World.fireWk` in `direct` mode is the identity) — `poll_tie_free` is the statement without it, and the last
  example below runs the std flavour's counterexample (a stale `Wk.sub 5`) without a panic.
-/
import FcProps.KTieMergeDir
import FcLemmas.KTieMergeVDMain

namespace Fc
open Rs Src

namespace TieMergeVD
open MergeVD

theorem poll_tie : poll_tie_statement := by
  intro g b w hW hS hH hd
  obtain ⟨g', env', ret, h1, h2, ⟨h3, h4, h5, h6⟩, _⟩ := poll_tie_core g b w hW hS hd
  exact ⟨g', env', ret, h1, h2, h3, h4, h5, h6⟩

/-- the same refinement, and in addition what the NEXT call needs again: the children are the same, the hypothesis on
    the handed-out sub-wakers still holds (this poll handed out task wakers only), the remaining scripts still answer
    like streams -/
theorem poll_tie_strong (g : Merge) (b : Eng Fix) (w : Nat) (hW : WfM g) (hS : StreamStepsF b.w)
    (hH : ∀ c i, Wk.sub i ∈ b.w.handed c → i < g.roleKids.len) (hd : b.s.dead = false) :
    ∃ g' env' ret,
      Merge.poll_next g w ((absM g b).w.emit (.pollBegin w)) = some (g', env', ret) ∧
      (ret ≠ .ready none ∨ g.roleKids.len = 0 → WfM g') ∧
      (fcore (absM g' b) = fcore (Eng.poll merge (absM g b) w) ∧
       env'.scripts = (Eng.poll merge (absM g b) w).w.scripts ∧
       env'.handed = (Eng.poll merge (absM g b) w).w.handed ∧
       (Eng.poll merge (absM g b) w).w.trace = .pollEnd (outcomeOfStream ret) :: env'.trace) ∧
      g'.roleKids.len = g.roleKids.len ∧ (∀ c i, Wk.sub i ∈ env'.handed c → i < g.roleKids.len) ∧
      StreamStepsF env' := by
  obtain ⟨g', env', ret, h1, h2, h3, h4, h5, h6⟩ := poll_tie_core g b w hW hS hd
  exact ⟨g', env', ret, h1, h2, h3, h4, h5 hH, h6⟩

/-- the statement WITHOUT the hypothesis on the handed-out wakers (it is not needed in this flavour) -/
theorem poll_tie_free (g : Merge) (b : Eng Fix) (w : Nat) (hW : WfM g) (hS : StreamStepsF b.w)
    (hd : b.s.dead = false) :
    ∃ g' env' ret,
      Merge.poll_next g w ((absM g b).w.emit (.pollBegin w)) = some (g', env', ret) ∧
      (ret ≠ .ready none ∨ g.roleKids.len = 0 → WfM g') ∧
      fcore (absM g' b) = fcore (Eng.poll merge (absM g b) w) ∧
      env'.scripts = (Eng.poll merge (absM g b) w).w.scripts ∧
      env'.handed = (Eng.poll merge (absM g b) w).w.handed ∧
      (Eng.poll merge (absM g b) w).w.trace = .pollEnd (outcomeOfStream ret) :: env'.trace ∧
      g'.roleKids.len = g.roleKids.len ∧ StreamStepsF env' := by
  obtain ⟨g', env', ret, h1, h2, ⟨h3, h4, h5, h6⟩, h7, _, h8⟩ := poll_tie_core g b w hW hS hd
  exact ⟨g', env', ret, h1, h2, h3, h4, h5, h6, h7, h8⟩

/-- `Merge::new` on a `Vec` of streams builds a well-formed merge (the hypothesis `WfM` of `poll_tie` holds initially,
    for every number of children) over these children, no parent waker stored yet -/
theorem new_wf (kids : Rs.Kids) :
    ∃ g, Merge.new kids = some g ∧ WfM g ∧ g.roleKids = kids ∧ g.roleCount = 0 ∧
      g.roleWakers.readiness.roleParent = none := by
  obtain ⟨r, hr, hp⟩ : ∃ r0, DirVec.ReadinessVec.new = some r0 ∧ r0.roleParent = none := ⟨_, rfl, rfl⟩
  have h : ∃ g, Merge.new kids = some g ∧ g.roleCount = 0 ∧ g.roleWakers = ⟨r⟩ ∧
      g.roleStates = Rs.PVec.replicate kids.len PS.PollState.pending ∧ g.roleKids = kids ∧
      g.roleIndexer.roleMax = kids.len := by
    simp only [Merge.new, WakerVecD.new, hr, Idx.Indexer.new, Option.bind_eq_bind, Option.bind_some, Option.pure_def]
    exact ⟨_, rfl, rfl, rfl, rfl, rfl, rfl⟩
  obtain ⟨g, h0, h1, h2, h3, h4, h5⟩ := h
  refine ⟨g, h0, ⟨?_, ?_, ?_⟩, h4, h1, ?_⟩
  · rw [h3, h4]; rfl
  · rw [h5, h4]
  · rw [h1, h4]; omega
  · rw [h2]; exact hp

end TieMergeVD

/-! ## non-vacuity: concrete instances of the hypotheses, and the conclusion checked by evaluation -/
namespace TieMergeVDEx
open MergeVD TieMergeVD

/-- three streams; the first poll finds child 0 pending (it wakes its waker — the caller's — during the poll), child 1
    yields 8 -/
def sc : Nat → List Step := fun c =>
  if c = 0 then [⟨.pend, [(0, 0)]⟩, ⟨.item 7, []⟩, ⟨.fin, []⟩]
  else if c = 1 then [⟨.item 8, []⟩, ⟨.fin, []⟩]
  else if c = 2 then [⟨.fin, []⟩] else []

def b0 : Eng Fix := { w := World.init .direct 3 sc, s := Fix.init 3 0 }

example : StreamStepsF b0.w := by
  intro c st h
  simp only [b0, World.init, sc] at h
  split at h
  · simp at h; rcases h with rfl | rfl | rfl <;> simp
  · split at h
    · simp at h; rcases h with rfl | rfl <;> simp
    · split at h
      · simp at h; subst h; simp
      · simp at h

example : ∀ c i, Wk.sub i ∈ b0.w.handed c → i < 3 := by
  intro c i h; simp [b0, World.init] at h

example : b0.s.dead = false := rfl

example : ∃ g, Merge.new ⟨3⟩ = some g ∧ WfM g ∧ g.roleKids = ⟨3⟩ ∧ g.roleCount = 0 ∧
    g.roleWakers.readiness.roleParent = none := new_wf ⟨3⟩

/-- the conclusion on `Merge::new(3 streams)`, checked by evaluation: the translated function does not panic, the
    returned value is the model's outcome, and trace, counters, offset, mode and parent waker, the (unused) flag fields and
    states of the three slots, the remaining scripts and the handed-out wakers of the three children (the caller's own
    waker, `Wk.par 1`, for the two that were polled) agree -/
example :
    (do let g ← Merge.new ⟨3⟩
        let (g', env', ret) ← Merge.poll_next g 1 ((absM g b0).w.emit (.pollBegin 1))
        let m := Eng.poll merge (absM g b0) 1
        let a := absM g' b0
        pure (decide (m.w.trace = .pollEnd (outcomeOfStream ret) :: env'.trace) &&
              decide (outcomeOfStream ret = .some 0 [8]) &&
              decide (a.s.n = m.s.n ∧ a.s.cnt = m.s.cnt ∧ a.s.off = m.s.off ∧ m.s.off = 1) &&
              decide (a.w.mode = m.w.mode ∧ m.w.mode = .direct ∧ a.w.count = m.w.count ∧ a.w.cap = m.w.cap ∧
                a.w.parent = m.w.parent ∧ m.w.parent = some 1) &&
              (List.range 3).all (fun i => a.w.bits i == m.w.bits i && decide (a.s.st i = m.s.st i) &&
                decide (env'.handed i = m.w.handed i) &&
                decide ((env'.scripts i).map (·.res) = (m.w.scripts i).map (·.res))) &&
              decide (env'.handed 0 = [.par 1] ∧ env'.handed 1 = [.par 1] ∧ env'.handed 2 = []) &&
              decide (env'.trace.length = 7)))
      = some true := by decide

/-- the NEXT poll (task waker 2) from what the first one left: the scan starts at slot 1, the streams 1 and 2 end
    (`complete` becomes 2), stream 0 yields 7; again everything agrees -/
example :
    (do let g ← Merge.new ⟨3⟩
        let (g1, env1, ret1) ← Merge.poll_next g 1 ((absM g b0).w.emit (.pollBegin 1))
        let b1 : Eng Fix := { b0 with w := env1.emit (.pollEnd (outcomeOfStream ret1)) }
        let (g2, env2, ret2) ← Merge.poll_next g1 2 ((absM g1 b1).w.emit (.pollBegin 2))
        let m := Eng.poll merge (absM g1 b1) 2
        let a := absM g2 b1
        pure (decide (m.w.trace = .pollEnd (outcomeOfStream ret2) :: env2.trace) &&
              decide (outcomeOfStream ret2 = .some 0 [7]) &&
              decide (a.s.n = m.s.n ∧ a.s.cnt = m.s.cnt ∧ m.s.cnt = 2 ∧ a.s.off = m.s.off ∧ m.s.off = 2) &&
              decide (a.w.mode = m.w.mode ∧ a.w.count = m.w.count ∧ a.w.cap = m.w.cap ∧
                a.w.parent = m.w.parent ∧ m.w.parent = some 2) &&
              (List.range 3).all (fun i => a.w.bits i == m.w.bits i && decide (a.s.st i = m.s.st i) &&
                decide (env2.handed i = m.w.handed i) &&
                decide ((env2.scripts i).map (·.res) = (m.w.scripts i).map (·.res))) &&
              decide (env2.handed 0 = [.par 2, .par 1])))
      = some true := by decide

/-- the counterexample of the std flavour (FcProps/KTieMergeV.lean: child 0 was handed the sub-waker of a slot 5 that a
    one-stream merge does not have and invokes it during its poll) is harmless here: no panic, and the trace is the
    model's — the hypothesis on the handed-out wakers is not needed in this flavour -/
def bC : Eng Fix :=
  { w := { World.init .direct 1 (fun c => if c = 0 then [⟨.pend, [(0, 1)]⟩] else []) with
           handed := fun c => if c = 0 then [.sub 5] else [] },
    s := Fix.init 1 0 }

example : ¬ ∀ c i, Wk.sub i ∈ bC.w.handed c → i < 1 := by
  intro h
  have := h 0 5 (by simp [bC])
  omega

example :
    (do let g ← Merge.new ⟨1⟩
        let (_, env', ret) ← Merge.poll_next g 9 ((absM g bC).w.emit (.pollBegin 9))
        let m := Eng.poll merge (absM g bC) 9
        pure (decide (m.w.trace = .pollEnd (outcomeOfStream ret) :: env'.trace) &&
              decide (outcomeOfStream ret = .pending) &&
              decide (env'.trace = [.childEnd 0 .pend, .fired 0 1 (some (.sub 5)), .childBegin 0 0 (.par 9),
                .pollBegin 9])))
      = some true := by decide

end TieMergeVDEx

#print axioms TieMergeVD.poll_tie
#print axioms TieMergeVD.poll_tie_strong
#print axioms TieMergeVD.poll_tie_free
#print axioms TieMergeVD.new_wf

end Fc
