/-
  Kernel tie, no_std / alloc-only builds — `zip()` over `Vec` and arrays.  Without the `std` feature the SAME family sources are compiled
  against src/utils/wakers/{vec,array}/no_std.rs: the readiness set has no flags (`clear_ready` answers `true`, `any_ready` is
  `true`, `set_ready` does nothing) and `WakerVec::get` / `WakerArray::get` hand out the stored parent waker, so every
  unfinished child is polled on every poll with the caller's own waker — the model's `direct` mode.  tools/rs2lean.py
  produces this flavour from the translated source of the family (FcGen/KSrcFam4D.lean, KSrcArr4D.lean: the text of the std
  flavour with the functions of no_std.rs, translated in FcGen/KSrcDir.lean, in place of those of the std waker module).
  The statements are those of the std flavour (FcProps/KTieZipChain.lean, KTieZipArr.lean) read through `TieDir.absV` / `absA`; the
  clauses about the flag table are gone.  Proofs: FcProps/KTieZipVD.lean, KTieZipAD.lean.
-/
import FcGen.KSrcFam4D
import FcGen.KSrcArr4D
import FcProps.KTieCore
import FcProps.KTieDir
import FcProps.KTiePS

namespace Fc
open Rs Src

namespace TieZipVD
open ZipVD

def absZ (g : Zip) (b : Eng Fix) : Eng Fix :=
  { w := TieDir.absV g.roleWakers.readiness b.w,
    s := { b.s with n := g.roleKids.len, st := fun i => TiePS.abs (g.roleStates.get i), out := g.roleItems.get,
                    dead := g.roleDone } }

/-- a slot is `Ready` exactly when it buffers an item of the current row; at least one input -/
structure WfZ (g : Zip) : Prop where
  sl : g.roleStates.len = g.roleKids.len
  ic : g.roleItems.cap = g.roleKids.len
  ln : g.roleCount = g.roleKids.len
  pos : 0 < g.roleKids.len
  rs : ∀ i, i < g.roleKids.len → ((g.roleStates.get i = PS.PollState.pending ∧ g.roleItems.get i = none) ∨
        (g.roleStates.get i = PS.PollState.ready ∧ ∃ v, g.roleItems.get i = some v))

def poll_tie_statement : Prop :=
  ∀ (g : Zip) (b : Eng Fix) (w : Nat),
    WfZ g → StreamStepsF b.w → (∀ c i, Wk.sub i ∈ b.w.handed c → i < g.roleKids.len) → g.roleDone = false →
    ∃ g' env' ret,
      Zip.poll_next g w ((absZ g b).w.emit (.pollBegin w)) = some (g', env', ret) ∧
      (ret ≠ .ready none → WfZ g') ∧
      jcore (absZ g' b) = jcore (Eng.poll zip (absZ g b) w) ∧
      env'.scripts = (Eng.poll zip (absZ g b) w).w.scripts ∧
      env'.handed = (Eng.poll zip (absZ g b) w).w.handed ∧
      (Eng.poll zip (absZ g b) w).w.trace = .pollEnd (outcomeOfZip ret) :: env'.trace

/-- `PinnedDrop::drop` releases the buffered items of the unfinished row (they are never yielded); the inputs themselves
    are plain fields, dropped by the struct's drop glue right after, in order -/
def drop_tie_statement : Prop :=
  ∀ (g : Zip) (b : Eng Fix),
    WfZ g →
    ∃ g' env',
      Zip.drop g ((absZ g b).w.emit .dropBegin) = some (g', env', ()) ∧
      (Eng.drop zip (absZ g b)).w.trace =
        .dropEnd :: (((List.range g.roleKids.len).map (fun i => Ev.childDropped i)).reverse ++ env'.trace)

end TieZipVD

namespace TieZipAD
open ZipAD

def absZ (g : Zip) (b : Eng Fix) : Eng Fix :=
  { w := TieDir.absA g.roleWakers.readiness b.w,
    s := { b.s with n := g.roleKids.len, st := fun i => TiePS.abs (g.roleStates.get i), out := g.roleItems.get,
                    dead := g.roleDone } }

/-- a slot is `Ready` exactly when it buffers an item of the current row; at least one input -/
structure WfZ (N : Nat) (g : Zip) : Prop where
  kn : g.roleKids.len = N
  sl : g.roleStates.len = N
  ic : g.roleItems.cap = N
  pos : 0 < N
  rs : ∀ i, i < N → ((g.roleStates.get i = PS.PollState.pending ∧ g.roleItems.get i = none) ∨
        (g.roleStates.get i = PS.PollState.ready ∧ ∃ v, g.roleItems.get i = some v))

def poll_tie_statement : Prop :=
  ∀ (N : Nat) (g : Zip) (b : Eng Fix) (w : Nat),
    WfZ N g → StreamStepsF b.w → (∀ c i, Wk.sub i ∈ b.w.handed c → i < N) → g.roleDone = false →
    ∃ g' env' ret,
      Zip.poll_next N g w ((absZ g b).w.emit (.pollBegin w)) = some (g', env', ret) ∧
      (ret ≠ .ready none → WfZ N g') ∧
      jcore (absZ g' b) = jcore (Eng.poll zip (absZ g b) w) ∧
      env'.scripts = (Eng.poll zip (absZ g b) w).w.scripts ∧
      env'.handed = (Eng.poll zip (absZ g b) w).w.handed ∧
      (Eng.poll zip (absZ g b) w).w.trace = .pollEnd (outcomeOfZip ret) :: env'.trace

/-- `PinnedDrop::drop` releases the buffered items of the unfinished row (they are never yielded); the inputs themselves
    are plain fields, dropped by the struct's drop glue right after, in order -/
def drop_tie_statement : Prop :=
  ∀ (N : Nat) (g : Zip) (b : Eng Fix),
    WfZ N g →
    ∃ g' env',
      Zip.drop N g ((absZ g b).w.emit .dropBegin) = some (g', env', ()) ∧
      (Eng.drop zip (absZ g b)).w.trace =
        .dropEnd :: (((List.range N).map (fun i => Ev.childDropped i)).reverse ++ env'.trace)

end TieZipAD

end Fc
