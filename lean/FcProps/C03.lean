/-
  C03 — poll discipline.

  "A child future is never polled again after it returned Ready and a child stream is never
   polled again after it returned None.  Children are polled only from inside a poll of the
   combinator that owns them: constructing a combinator and dropping a combinator poll nothing,
   and once a combinator has produced its final result (Ready, or None for streams) it has
   stopped polling its children."

  Monitor `Mon.holds_C03 group` (Fc/Monitors.lean): at every `childBegin c _ _` of the trace, with
  `t` = the trace before that event,
    * `finished t c = false`   — `c`'s most recent `childEnd` is neither `ready _ _` nor `fin`;
    * `inPoll t = true`        — the most recent `pollBegin` has no `pollEnd` yet;
    * `finalSeen group t = false` — no earlier `pollEnd (ready _ _)`, and (for `group = false`)
                                 no earlier `pollEnd none`;
    * `gone t c = false`       — no earlier `childDropped c`;
    * `alive t = true`         — no earlier `dropBegin`.
  For the combinators over a fixed set of children `group = false`.

  The hypothesis `c.kindOk` says the scripted children answer according to their kind (a future
  never yields an item or ends, a stream never resolves) — Rust's types enforce it; without it a
  "future" of a join answering `fin` would count as finished for the monitor while the join keeps
  polling it.
-/
import FcLemmas.C03
import Fc.Holds

namespace Fc
open Mon

/-- C03 for every combinator family over a fixed set of children (join ×2, try_join ×2, race,
    race_ok ×3, merge, zip, chain, wait_until ×2), every number of children, all child scripts of
    the right kind, all histories (polls with any waker, wake-ups at any time — also stale ones —,
    drop at any point, injected child panics), both waker strategies. -/
theorem C03_discipline_fixed (c : Case) (hg : c.fam.isGroup = false) (hk : c.kindOk) :
    holds_C03 false c.trace = true := by
  unfold Case.trace
  rw [hg]
  simp only [Bool.false_eq_true, if_false, Case.finalFix]
  have hs : ScriptsOk (Sim.kindRes c.fam) (FEng.init c.fam c.mode c.n c.scripts).w :=
    Sim.scriptsOk_kind c hk _ rfl
  cases hf : c.fam <;> rw [hf] at hs hg <;> simp only [Fam.policy]
  · exact C03.run_of_disc (C03.disc_joinSlice _) c.ops _ rfl hs rfl
  · exact C03.run_of_disc (C03.disc_joinTuple _) c.ops _ rfl hs rfl
  · exact C03.run_of_disc (C03.disc_tryJoinSlice _) c.ops _ rfl hs rfl
  · exact C03.run_of_disc (C03.disc_tryJoinTuple _) c.ops _ rfl hs rfl
  · exact C03.run_of_disc (C03.disc_race _) c.ops _ rfl hs rfl
  · exact C03.run_of_disc (C03.disc_raceOkArr _) c.ops _ rfl hs rfl
  · exact C03.run_of_disc (C03.disc_raceOkVec _) c.ops _ rfl hs rfl
  · exact C03.run_of_disc (C03.disc_raceOkTup _) c.ops _ rfl hs rfl
  · exact C03.run_of_disc (C03.disc_merge _) c.ops _ rfl hs rfl
  · exact C03.run_of_disc (C03.disc_zip _) c.ops _ rfl hs rfl
  · exact C03.run_of_disc C03.disc_chain c.ops _ rfl hs rfl
  · exact C03.run_of_disc (C03.disc_waitUntilF _) c.ops _ rfl hs rfl
  · exact C03.run_of_disc (C03.disc_waitUntilS _) c.ops _ rfl hs rfl
  · simp [Fam.isGroup] at hg
  · simp [Fam.isGroup] at hg

/-- non-vacuity: merge of three streams.  Input 1 ends in the first poll while inputs 0 and 2 are
    pending; later a stale wake-up aimed at the finished input 1 arrives (`fire 1 0`), followed by
    more polls (which must not touch input 1 again), the end of the merged stream, a poll after
    the end, and the drop. -/
def C03_example : Case :=
  { fam := .merge, mode := .std, keyed := false, n := 3,
    scripts := fun c => if c = 0 then [⟨.pend, []⟩, ⟨.item 10, []⟩, ⟨.fin, []⟩]
                        else if c = 1 then [⟨.fin, []⟩]
                        else if c = 2 then [⟨.pend, []⟩, ⟨.pend, []⟩, ⟨.fin, []⟩] else [],
    ops := [.poll 1, .fire 1 0, .poll 2, .fire 0 0, .fire 2 0, .poll 3, .fire 1 0, .poll 4,
            .fire 2 0, .poll 5, .poll 6, .drop] }

/-- input 1 is polled exactly once although its (stale) waker fires twice afterwards -/
example : (C03_example.run.filter (fun e => match e with | .childBegin 1 _ _ => true | _ => false)).length = 1 := by
  decide
example : C03_example.run.contains (.childEnd 1 .fin) = true := by decide
example : (C03_example.run.filter (fun e => match e with | .fired 1 _ (some _) => true | _ => false)).length = 2 := by
  decide
/-- the other inputs are polled repeatedly, an item comes through, the merged stream ends, and
    the poll after the end is answered without touching a child -/
example : (C03_example.run.filter (fun e => match e with | .childBegin _ _ _ => true | _ => false)).length = 7 := by
  decide
example : C03_example.run.contains (.pollEnd (.some 0 [10])) = true := by decide
example : C03_example.run.contains (.pollEnd .none) = true := by decide
example : C03_example.run.contains (.pollEnd .misuse) = true := by decide
example : C03_example.run.contains .dropEnd = true := by decide
example : holds_C03 false C03_example.trace = true := by decide

/-- the monitor is not trivially true (traces newest first): -/
-- a child polled again after it returned Ready
example : holds_C03 false [.childBegin 0 0 (.sub 0), .pollBegin 2, .pollEnd .pending,
    .childEnd 0 (.ready true 5), .childBegin 0 0 (.sub 0), .pollBegin 1] = false := by decide
-- a stream polled again after it returned None
example : holds_C03 false [.childBegin 1 1 (.sub 1), .pollBegin 2, .pollEnd .pending,
    .childEnd 1 .fin, .childBegin 1 1 (.sub 1), .pollBegin 1] = false := by decide
-- a child polled outside a poll of the combinator (at construction / between polls)
example : holds_C03 false [.childEnd 0 .pend, .childBegin 0 0 (.sub 0)] = false := by decide
example : holds_C03 false [.childBegin 1 1 (.sub 1), .pollEnd .pending, .childEnd 0 .pend,
    .childBegin 0 0 (.sub 0), .pollBegin 1] = false := by decide
-- a child polled after the combinator produced its final result
example : holds_C03 false [.childBegin 1 1 (.par 2), .pollBegin 2, .pollEnd (.ready true [5]),
    .childEnd 0 (.ready true 5), .childBegin 0 0 (.par 1), .pollBegin 1] = false := by decide
example : holds_C03 false [.childBegin 1 1 (.sub 1), .pollBegin 2, .pollEnd .none,
    .childEnd 0 .fin, .childBegin 0 0 (.sub 0), .pollBegin 1] = false := by decide
-- a child polled after it was released, and a child polled after (during) the drop
example : holds_C03 false [.childBegin 0 0 (.sub 0), .pollBegin 2, .childDropped 0, .pollEnd .pending,
    .childEnd 0 .pend, .childBegin 0 0 (.sub 0), .pollBegin 1] = false := by decide
example : holds_C03 false [.childBegin 0 0 (.sub 0), .pollBegin 2, .dropEnd, .childDropped 0, .dropBegin,
    .pollEnd .pending, .childEnd 0 .pend, .childBegin 0 0 (.sub 0), .pollBegin 1] = false := by decide
example : holds_C03 false [.childBegin 1 1 (.sub 1), .dropBegin, .pollEnd .pending,
    .childEnd 0 .pend, .childBegin 0 0 (.sub 0), .pollBegin 1] = false := by decide
-- and it accepts a well-behaved prefix
example : holds_C03 false [.childBegin 1 1 (.sub 1), .childEnd 0 (.ready true 5),
    .childBegin 0 0 (.sub 0), .pollBegin 1] = true := by decide

end Fc

#print axioms Fc.C03_discipline_fixed
