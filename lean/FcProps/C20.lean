/-
  C20 — Concurrent evaluation: all children are started; none waits for a sibling.

  Monitor `Mon.holds_C20 fixed n` (Fc/Monitors.lean): at every `pollEnd Pending`, for every owned
  child c (fixed combinators: c < n),
    (a) c has been polled at least once, and
    (b) if c was waiting (last result Pending) and its waker had been invoked when this poll
        began, then c was polled during this poll
  — whatever the siblings do (in particular: never complete).  Together with the functional
  theorems (C04–C09) this is "a pending child never keeps a woken sibling from running".
-/
import FcLemmas.C20Modes
import FcLemmas.Conc
import Fc.Holds

namespace Fc
open Mon

/-- the property at full strength (chain and wait_until are sequential by design) -/
def C20_statement : Prop :=
  ∀ c : Case, c.fam.inC20 = true → ∀ nch, holds_C20 (!c.fam.isGroup) nch c.trace = true

/-- C20 for join, try_join, race, race_ok, merge and zip: every number of children, every
    position and number of never-completing children (a script may simply stay Pending), every
    behaviour and wake schedule of the others, both waker strategies. -/
theorem C20_concurrent_fixed (c : Case) (hf : c.fam.isConc = true) :
    holds_C20 true c.n c.trace = true := by
  have hg : c.fam.isGroup = false := by
    cases hfam : c.fam <;> simp_all [Fam.isConc, Fam.isGroup]
  have C := conc_policy c.fam hf
  unfold Case.trace
  rw [hg]
  simp only [Bool.false_eq_true, if_false]
  have hn : ∀ e : Eng Fix, (c.ops.foldl (FEng.step c.fam.policy) e).s.n = e.s.n := by
    intro e
    induction c.ops generalizing e with
    | nil => rfl
    | cons op ops ih =>
      simp only [List.foldl_cons]
      rw [ih]
      cases op <;> simp only [FEng.step]
      · -- poll
        unfold Eng.poll
        split
        · rfl
        · unfold Eng.body
          split
          · exact C.law.n_start _
          · unfold Eng.close
            split
            · simp only [Eng.emit_s]; rw [C01.scan_n C.law]; exact C.law.n_start _
            · simp only [Eng.emit_s, Eng.applyH_s, C.law.n_finish]
              rw [C01.scan_n C.law]; exact C.law.n_start _
      · rfl
      · exact C.law.n_drop _
  cases hm : c.fam.modeOf c.mode with
  | std =>
    have := (C20S.run20 (n := c.n) C c.ops _ (C01.binv_init c.fam c.n c.scripts c.mode hm)
      (C20.b20_init c.fam C c.n c.scripts c.mode)).m20
    rw [hn] at this
    exact this
  | direct =>
    have := (C20D.run20 (n := c.n) C c.ops _ (C01D.binv_init c.fam c.n c.scripts c.mode hm)
      (C20.b20_init c.fam C c.n c.scripts c.mode)).m20
    rw [hn] at this
    exact this

/-- non-vacuity: child 1 never completes; children 0 and 2 are woken and run to completion -/
def C20_example : Case :=
  { fam := .joinSlice, mode := .std, keyed := false, n := 3,
    scripts := fun c => if c = 0 then [⟨.pend, []⟩, ⟨.ready true 1, []⟩]
                        else if c = 2 then [⟨.pend, [(2, 0)]⟩, ⟨.ready true 201, []⟩] else [],
    ops := [.poll 1, .poll 2, .fire 0 0, .poll 3, .poll 4] }

example : C20_example.fam.isConc = true := by decide
example : (C20_example.run.filter (fun e => e == .pollEnd .pending)).length = 4 := by decide
example : C20_example.run.contains (.childEnd 0 (.ready true 1)) = true ∧
    C20_example.run.contains (.childEnd 2 (.ready true 201)) = true := by decide

end Fc

#print axioms Fc.C20_concurrent_fixed
