/-
  Kernel tie — the definitions shared by the statements about the fixed-children families (FcProps/KTie{Fam,Join,TryJoin,
  ZipChain}.lean): what is compared (`FCore`, `JCore`), how a returned `Poll` value reads as a model outcome, what a
  well-behaved child is.  Imports nothing generated, so that a family whose source is outside the translator's subset
  does not take the statements of the other families with it.
-/
import Fc.Families
import Fc.RustPrims

namespace Fc
open Rs

/-- what the crate stores of a fixed-children combinator, as the model sees it -/
structure FCore where
  mode : Mode
  cap : Nat
  bits : Nat → Bool
  count : Nat
  parent : Option Nat
  n : Nat
  st : Nat → PS
  cnt : Nat
  off : Nat

def fcore (e : Eng Fix) : FCore :=
  { mode := e.w.mode, cap := e.w.cap, bits := e.w.bits, count := e.w.count, parent := e.w.parent,
    n := e.s.n, st := e.s.st, cnt := e.s.cnt, off := e.s.off }

/-- the model outcome a returned `Poll<Option<Item>>` stands for -/
def outcomeOfStream : Rs.Poll (Option Nat) → Outcome
  | .pending => .pending
  | .ready none => .none
  | .ready (some v) => .some 0 [v]

/-- the model outcome a returned `Poll<Output>` of a race stands for -/
def outcomeOfRace : Rs.Poll Nat → Outcome
  | .pending => .pending
  | .ready v => .ready true [v]

def StreamStepsF (w : World) : Prop :=
  ∀ c st, st ∈ w.scripts c → st.res = .pend ∨ st.res = .fin ∨ ∃ v, st.res = .item v

def FutStepsF (w : World) : Prop :=
  ∀ c st, st ∈ w.scripts c → st.res = .pend ∨ ∃ ok v, st.res = .ready ok v

/-- what the crate stores of a join -/
structure JCore where
  core : FCore
  out : Nat → Option Nat
  dead : Bool

def jcore (e : Eng Fix) : JCore := { core := fcore e, out := e.s.out, dead := e.s.dead }

/-- the model outcome a returned `Poll<Vec<Output>>` stands for -/
def outcomeOfJoin : Rs.Poll (List Nat) → Outcome
  | .pending => .pending
  | .ready vs => .ready true vs

namespace TieJoinV

/-- what the two sides agree on after the poll that COMPLETES the join: the crate moves the outputs out of their slots
    (`OutputVec::take`; the model keeps its copy in `out`, it is never read again) and resets the `len` states it has (the
    model resets its whole table); everything else — readiness set, `pending`, number of children, offset — is the same,
    and both are consumed -/
def doneAgree (a m : Eng Fix) : Prop :=
  { fcore a with st := m.s.st } = fcore m ∧ (∀ i, i < m.s.n → a.s.st i = m.s.st i) ∧
    a.s.dead = true ∧ m.s.dead = true ∧ ∀ i, a.s.out i = none

end TieJoinV

end Fc
