/-
  Kernel tie — the definitions shared by the statements about the fixed-children families (FcProps/KTie{Fam,Join,TryJoin,
  ZipChain}.lean): what is compared (`FCore`, `JCore`), how a returned `Poll` value reads as a model outcome, what a
  well-behaved child is.  Imports nothing generated, so that a family whose source is outside the translator's subset
  does not take the statements of the other families with it.
-/
import Fc.Families
import Fc.RustPrims

namespace Fc
open Rs

/-- what the crate stores of a fixed-children combinator, as the model sees it -/
structure FCore where
  mode : Mode
  cap : Nat
  bits : Nat → Bool
  count : Nat
  parent : Option Nat
  n : Nat
  st : Nat → PS
  cnt : Nat
  off : Nat

def fcore (e : Eng Fix) : FCore :=
  { mode := e.w.mode, cap := e.w.cap, bits := e.w.bits, count := e.w.count, parent := e.w.parent,
    n := e.s.n, st := e.s.st, cnt := e.s.cnt, off := e.s.off }

/-- the model outcome a returned `Poll<Option<Item>>` stands for -/
def outcomeOfStream : Rs.Poll (Option Nat) → Outcome
  | .pending => .pending
  | .ready none => .none
  | .ready (some v) => .some 0 [v]

/-- the model outcome a returned `Poll<Output>` of a race stands for -/
def outcomeOfRace : Rs.Poll Nat → Outcome
  | .pending => .pending
  | .ready v => .ready true [v]

def StreamStepsF (w : World) : Prop :=
  ∀ c st, st ∈ w.scripts c → st.res = .pend ∨ st.res = .fin ∨ ∃ v, st.res = .item v

def FutStepsF (w : World) : Prop :=
  ∀ c st, st ∈ w.scripts c → st.res = .pend ∨ ∃ ok v, st.res = .ready ok v

/-- what the crate stores of a join -/
structure JCore where
  core : FCore
  out : Nat → Option Nat
  dead : Bool

def jcore (e : Eng Fix) : JCore := { core := fcore e, out := e.s.out, dead := e.s.dead }

/-- the model outcome a returned `Poll<Vec<Output>>` stands for -/
def outcomeOfJoin : Rs.Poll (List Nat) → Outcome
  | .pending => .pending
  | .ready vs => .ready true vs

/-- the model outcome a returned `Poll<Result<Vec<T>, E>>` stands for -/
def outcomeOfTryJoin : Rs.Poll (Rs.Result (List Nat)) → Outcome
  | .pending => .pending
  | .ready (.ok vs) => .ready true vs
  | .ready (.err e) => .ready false [e]

/-- the model outcome a returned `Poll<Option<Vec<Item>>>` (a row) stands for -/
def outcomeOfZip : Rs.Poll (Option (List Nat)) → Outcome
  | .pending => .pending
  | .ready none => .none
  | .ready (some row) => .some 0 row

namespace TieJoinV

/-- what the two sides agree on after the poll that COMPLETES the join: the crate moves the outputs out of their slots
    (`OutputVec::take`; the model keeps its copy in `out`, it is never read again) and resets the `len` states it has (the
    model resets its whole table); everything else — readiness set, `pending`, number of children, offset — is the same,
    and both are consumed -/
def doneAgree (a m : Eng Fix) : Prop :=
  { fcore a with st := m.s.st } = fcore m ∧ (∀ i, i < m.s.n → a.s.st i = m.s.st i) ∧
    a.s.dead = true ∧ m.s.dead = true ∧ ∀ i, a.s.out i = none

end TieJoinV

namespace TieTryJoinV

/-- what is compared after a poll that COMPLETED with `Ok`: everything of `jcore` except the output slots (`OutputVec::take`
    moved the values out to the caller and leaves the slots empty, the model's `finish` keeps its copies), and the state
    table on the slots of the combinator only (`iter_mut().for_each(set_none)` rewrites the `len` slots that exist, the
    model's `finish` writes `fun _ => .none`) -/
def jcoreDone (n : Nat) (a m : Eng Fix) : Prop :=
  a.w.mode = m.w.mode ∧ a.w.cap = m.w.cap ∧ a.w.bits = m.w.bits ∧ a.w.count = m.w.count ∧ a.w.parent = m.w.parent ∧
  a.s.n = m.s.n ∧ (∀ i, i < n → a.s.st i = m.s.st i) ∧ a.s.cnt = m.s.cnt ∧ a.s.off = m.s.off ∧ a.s.dead = m.s.dead

end TieTryJoinV

end Fc
