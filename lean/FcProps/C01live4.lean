/-
  C01 (second sentence) — liveness of `wait_until` (over a future: `Fam.waitF`, over a stream:
  `Fam.waitS`) under the wake-only executor.

  Setting (Fc/Exec.lean, as in C01live / C01live2 / C01live3): the executor polls the combinator —
  with a FRESH task waker on every poll — only if the task has been woken since the previous poll
  began (`Mon.wokeSince`), or it was never polled, or the previous poll yielded an item
  (`Exec.shouldPoll`).  Otherwise the environment lets the first waiting child (latest answer
  `Pending`, scripted steps left: `Exec.firstWaiting`) make progress by invoking the waker that child
  was handed in its most recent poll (`e.fire c 0`).  `Exec.round` is one such step, `Exec.runFor P n k`
  runs up to `k` rounds.

  Model of `wait_until`: two children; child 0 is the deadline (a well-behaved future:
  `Exec.futureScript` — `Pending` any finite number of times, each time with arbitrary in-poll
  wake-ups of arbitrary, also stale, wakers, then `Ready`), child 1 the inner future (waitF) resp.
  the inner stream (waitS, a `streamScript`: any finite mix of `Pending` and items, then the end).
  The inner child is not touched until the deadline has resolved.

  Theorems: both waker strategies (the family passes the caller's waker through in every build, so
  the mode is immaterial), every pair of well-behaved scripts:
    * `C01_wait_f_resolves`: the run reaches the final `Ready` within `3 * stepsLeft + 1` rounds; the
      `Ready` carries exactly the inner future's final value (`C01_wait_f_value`:
      `.ready true [finalVal (scripts 1)]` — the flag is `true` whatever flag the inner future
      resolved with, the deadline's value is discarded);
    * `C01_wait_s_ends`: the run reaches the final `None` within `3 * stepsLeft + 1` rounds.  WHAT was
      yielded before is characterised by C19 (every outcome in phase 1 is the inner child's answer
      of the same poll), which holds along these runs.

  On the bound: these families are strictly sequential — every poll of a live `wait_until` polls
  the child it is at, so EVERY poll consumes a scripted step, and a prod is always followed by a
  poll.  Hence the tighter `2 * stepsLeft - 1` (`*_tight`, stated as `k + 1 ≤ 2 * stepsLeft`; the
  theorems with `3 * stepsLeft + 1` are corollaries).  This is within 2 of optimal:
  `C01_wait_f_bound4_false` shows that `2 * stepsLeft - 4` is not enough (deadline `Ready` at once,
  inner `Pending` then `Ready`: 3 steps, 3 rounds).  (The poll in which the deadline resolves
  always consumes two steps, so `2 * stepsLeft - 3` is presumably exact; not proved.)

  The proof (FcLemmas/Live4.lean) follows the chain proof (FcLemmas/Live3Chain.lean): the safety
  invariant of the sequential pass-through families (`C01S.BS`: at most one child is waiting, it was
  polled with the current task waker ⇒ `quiet`) shows that prodding the waiting child wakes the
  task; a World-aware invariant for children of mixed kinds (`Live4.WI`: child 0 a future, child 1 a
  future resp. a stream, each following its script, never panicking, with a step left while it has
  not given its final answer) and the phase invariant (`Live4.FI`: in phase 0 the deadline has not
  resolved, the inner child has not given its final answer) show that every poll polls a child,
  returns `Pending` only if the child polled last answered `Pending`, and otherwise passes the inner
  child's answer on.  `Live4.ends_of_progS` is the induction on the round budget.
-/
import FcLemmas.Live4
import Fc.Holds

namespace Fc
open Mon

/-! ### the tight versions (bound `2 * stepsLeft - 1`), with the value -/

theorem C01_wait_f_resolves_tight (m : Mode) (scripts : Nat → List Step)
    (hs : ∀ c, c < 2 → Exec.futureScript (scripts c) = true) :
    ∃ k, k + 1 ≤ 2 * Exec.stepsLeft 2 (FEng.init .waitF m 2 scripts) ∧
      Mon.lastOut (Exec.runFor Fc.waitUntilF 2 k (FEng.init .waitF m 2 scripts)).w.trace
        = some (.ready true [Live.finalVal (scripts 1)]) :=
  Live4.wait_f_resolves m scripts hs

theorem C01_wait_s_ends_tight (m : Mode) (scripts : Nat → List Step)
    (h0 : Exec.futureScript (scripts 0) = true) (h1 : streamScript (scripts 1) = true) :
    ∃ k, k + 1 ≤ 2 * Exec.stepsLeft 2 (FEng.init .waitS m 2 scripts) ∧
      Mon.lastOut (Exec.runFor Fc.waitUntilS 2 k (FEng.init .waitS m 2 scripts)).w.trace = some .none :=
  Live4.wait_s_ends m scripts h0 h1

/-! ### the statements as given -/

/-- liveness of `wait_until` over a future, with the value: the `Ready` carries the inner future's
    final value -/
theorem C01_wait_f_value (m : Mode) (scripts : Nat → List Step)
    (hs : ∀ c, c < 2 → Exec.futureScript (scripts c) = true) :
    ∃ k, k ≤ 3 * Exec.stepsLeft 2 (FEng.init .waitF m 2 scripts) + 1 ∧
      Mon.lastOut (Exec.runFor Fc.waitUntilF 2 k (FEng.init .waitF m 2 scripts)).w.trace
        = some (.ready true [Live.finalVal (scripts 1)]) := by
  obtain ⟨k, hk, hv⟩ := C01_wait_f_resolves_tight m scripts hs
  exact ⟨k, by omega, hv⟩

/-- liveness of `wait_until` over a future -/
theorem C01_wait_f_resolves (m : Mode) (scripts : Nat → List Step)
    (hs : ∀ c, c < 2 → Exec.futureScript (scripts c) = true) :
    ∃ k, k ≤ 3 * Exec.stepsLeft 2 (FEng.init .waitF m 2 scripts) + 1 ∧
      ∃ vals, Mon.lastOut (Exec.runFor Fc.waitUntilF 2 k (FEng.init .waitF m 2 scripts)).w.trace
              = some (.ready true vals) := by
  obtain ⟨k, hk, hv⟩ := C01_wait_f_value m scripts hs
  exact ⟨k, hk, _, hv⟩

/-- liveness of `wait_until` over a stream -/
theorem C01_wait_s_ends (m : Mode) (scripts : Nat → List Step)
    (h0 : Exec.futureScript (scripts 0) = true) (h1 : streamScript (scripts 1) = true) :
    ∃ k, k ≤ 3 * Exec.stepsLeft 2 (FEng.init .waitS m 2 scripts) + 1 ∧
      Mon.lastOut (Exec.runFor Fc.waitUntilS 2 k (FEng.init .waitS m 2 scripts)).w.trace = some .none := by
  obtain ⟨k, hk, hv⟩ := C01_wait_s_ends_tight m scripts h0 h1
  exact ⟨k, by omega, hv⟩

/-! ### how tight is `2 * stepsLeft - 1`? -/

/-- the statement with the bound `2 * stepsLeft - 4` -/
def C01_wait_f_bound4_statement : Prop :=
  ∀ (m : Mode) (scripts : Nat → List Step),
    (∀ c, c < 2 → Exec.futureScript (scripts c) = true) →
    ∃ k, k + 4 ≤ 2 * Exec.stepsLeft 2 (FEng.init .waitF m 2 scripts) ∧
      ∃ vals, Mon.lastOut (Exec.runFor Fc.waitUntilF 2 k (FEng.init .waitF m 2 scripts)).w.trace
              = some (.ready true vals)

/-- the deadline resolves at once, the inner future answers `Pending` once -/
def C01live4_short : Nat → List Step := fun c =>
  if c = 0 then [⟨.ready true 1, []⟩] else if c = 1 then [⟨.pend, []⟩, ⟨.ready true 2, []⟩] else []

set_option maxRecDepth 100000 in
/-- 3 scripted steps, 3 rounds (poll, prod, poll) = `2 * 3 - 3` -/
theorem C01_wait_f_bound4_false : ¬ C01_wait_f_bound4_statement := by
  intro h
  obtain ⟨k, hk, vals, hv⟩ := h .std C01live4_short (by decide)
  have hS : Exec.stepsLeft 2 (FEng.init .waitF .std 2 C01live4_short) = 3 := by decide
  rw [hS] at hk
  have hall : ∀ k, k ≤ 2 → Exec.finalOut (Mon.lastOut
      (Exec.runFor Fc.waitUntilF 2 k (FEng.init .waitF .std 2 C01live4_short)).w.trace) = false := by
    decide
  have := hall k (by omega)
  rw [hv] at this
  exact Bool.noConfusion this

set_option maxRecDepth 100000 in
example : Mon.lastOut (Exec.runFor Fc.waitUntilF 2 3 (FEng.init .waitF .std 2 C01live4_short)).w.trace
    = some (.ready true [2]) := by decide

/-! ### non-vacuity -/

/-- deadline: Pending, Pending (waking itself in the poll), Ready 7; inner future: Pending (invoking
    the deadline's latest waker — the current task waker), Pending, Ready with flag `false` and
    value 9; a third script that is never touched -/
def C01live4_f : Nat → List Step := fun c =>
  if c = 0 then [⟨.pend, []⟩, ⟨.pend, [(0, 0)]⟩, ⟨.ready true 7, []⟩]
  else if c = 1 then [⟨.pend, [(0, 0)]⟩, ⟨.pend, []⟩, ⟨.ready false 9, []⟩]
  else [⟨.panic, []⟩]

example : ∀ c, c < 2 → Exec.futureScript (C01live4_f c) = true := by decide
example : Exec.stepsLeft 2 (FEng.init .waitF .std 2 C01live4_f) = 6 := by decide
example : Live.finalVal (C01live4_f 1) = 9 := by decide

set_option maxRecDepth 100000 in
/-- the run ends with `Ready [9]` (flag `true`, the inner future's value; the deadline's 7 is
    dropped) after 7 rounds: 5 polls, 2 prods (two wake-ups came during polls) … -/
example : (Exec.runFor Fc.waitUntilF 2 40 (FEng.init .waitF .std 2 C01live4_f)).w.trace.head?
      = some (.pollEnd (.ready true [9])) ∧
    Exec.pollCount (Exec.runFor Fc.waitUntilF 2 40 (FEng.init .waitF .std 2 C01live4_f)).w.trace = 5 := by
  decide
set_option maxRecDepth 100000 in
/-- … and not earlier than round 7 -/
example : ∀ k, k ≤ 6 → Exec.finalOut (Mon.lastOut
    (Exec.runFor Fc.waitUntilF 2 k (FEng.init .waitF .std 2 C01live4_f)).w.trace) = false := by decide
set_option maxRecDepth 100000 in
/-- the inner future is not touched while the deadline is pending (after 3 rounds: two polls of
    the deadline and one prod; the third poll is still to come) -/
example : Mon.everPolled (Exec.runFor Fc.waitUntilF 2 3 (FEng.init .waitF .std 2 C01live4_f)).w.trace 1
    = false := by decide
set_option maxRecDepth 100000 in
/-- the mode is immaterial (pass-through family) -/
example : (Exec.runFor Fc.waitUntilF 2 40 (FEng.init .waitF .direct 2 C01live4_f)).w.trace
    = (Exec.runFor Fc.waitUntilF 2 40 (FEng.init .waitF .std 2 C01live4_f)).w.trace := by decide
set_option maxRecDepth 100000 in
/-- the safety monitor C01 and the functional monitor C19 accept the run -/
example : Mon.holds_C01 2 (Exec.runFor Fc.waitUntilF 2 40 (FEng.init .waitF .std 2 C01live4_f)).w.trace
      = true ∧
    Mon.holds_C19 (Exec.runFor Fc.waitUntilF 2 40 (FEng.init .waitF .std 2 C01live4_f)).w.trace
      = true := by decide

/-- deadline: Pending, Ready 7; inner stream: item 1, Pending (waking the deadline's stale waker),
    Pending, item 2, end -/
def C01live4_s : Nat → List Step := fun c =>
  if c = 0 then [⟨.pend, []⟩, ⟨.ready true 7, []⟩]
  else if c = 1 then [⟨.item 1, []⟩, ⟨.pend, [(0, 0)]⟩, ⟨.pend, []⟩, ⟨.item 2, []⟩, ⟨.fin, []⟩]
  else []

example : Exec.futureScript (C01live4_s 0) = true ∧ streamScript (C01live4_s 1) = true := by decide
example : Exec.stepsLeft 2 (FEng.init .waitS .std 2 C01live4_s) = 7 := by decide

set_option maxRecDepth 100000 in
/-- the run ends with `pollEnd none` after 9 rounds, having yielded the inner stream's items
    (newest first) … -/
example : (Exec.runFor Fc.waitUntilS 2 40 (FEng.init .waitS .std 2 C01live4_s)).w.trace.head?
      = some (.pollEnd .none) ∧
    Mon.yielded (Exec.runFor Fc.waitUntilS 2 40 (FEng.init .waitS .std 2 C01live4_s)).w.trace
      = [2, 1] := by decide
set_option maxRecDepth 100000 in
/-- … and not earlier than round 9 -/
example : ∀ k, k ≤ 8 → Exec.finalOut (Mon.lastOut
    (Exec.runFor Fc.waitUntilS 2 k (FEng.init .waitS .std 2 C01live4_s)).w.trace) = false := by decide
set_option maxRecDepth 100000 in
example : Mon.holds_C01 2 (Exec.runFor Fc.waitUntilS 2 40 (FEng.init .waitS .std 2 C01live4_s)).w.trace
      = true ∧
    Mon.holds_C19 (Exec.runFor Fc.waitUntilS 2 40 (FEng.init .waitS .std 2 C01live4_s)).w.trace
      = true := by decide

/-- the hypotheses are needed: a deadline that stays Pending for ever (not a `futureScript`) leaves
    the executor with nothing to do while the combinator is pending, the inner child untouched -/
def C01live4_stuck : Nat → List Step := fun c =>
  if c = 0 then [⟨.pend, []⟩] else if c = 1 then [⟨.ready true 1, []⟩] else []

example : Exec.futureScript (C01live4_stuck 0) = false := by decide
set_option maxRecDepth 100000 in
example : Mon.lastOut (Exec.runFor Fc.waitUntilF 2 30 (FEng.init .waitF .std 2 C01live4_stuck)).w.trace
      = some .pending ∧
    (Exec.round Fc.waitUntilF 2
      (Exec.runFor Fc.waitUntilF 2 30 (FEng.init .waitF .std 2 C01live4_stuck))).isNone = true ∧
    Mon.everPolled (Exec.runFor Fc.waitUntilF 2 30 (FEng.init .waitF .std 2 C01live4_stuck)).w.trace 1
      = false := by
  decide

/-- … and so does an inner stream that never ends -/
def C01live4_stuck2 : Nat → List Step := fun c =>
  if c = 0 then [⟨.ready true 1, []⟩] else if c = 1 then [⟨.item 1, []⟩, ⟨.pend, []⟩] else []

example : streamScript (C01live4_stuck2 1) = false := by decide
set_option maxRecDepth 100000 in
example : Mon.lastOut (Exec.runFor Fc.waitUntilS 2 30 (FEng.init .waitS .std 2 C01live4_stuck2)).w.trace
      = some .pending ∧
    (Exec.round Fc.waitUntilS 2
      (Exec.runFor Fc.waitUntilS 2 30 (FEng.init .waitS .std 2 C01live4_stuck2))).isNone = true := by
  decide

end Fc

#print axioms Fc.C01_wait_f_resolves
#print axioms Fc.C01_wait_f_value
#print axioms Fc.C01_wait_s_ends
#print axioms Fc.C01_wait_f_resolves_tight
#print axioms Fc.C01_wait_s_ends_tight
#print axioms Fc.C01_wait_f_bound4_false
