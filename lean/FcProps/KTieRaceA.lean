/-
  Kernel tie, fixed families — `[Fut; N]::race()` (src/future/race/array.rs), direct strategy, policy `race`.
  The ARRAY counterpart of FcProps/KTieRaceV.lean.

  `TieRaceA.poll_tie` proves `TieRaceA.poll_tie_statement` of FcProps/KTieRaceArr.lean, unchanged: for every length `N`
  (the const generic) and every translated `Race` value `g` that is well-formed (`WfR N g`: it has `N` children, the
  indexer's maximum is `N`, and `0 < N`) and not yet `done`, and every environment whose children are scripted futures
  (`FutStepsF`), the poll function TRANSLATED FROM THE SOURCE (`RaceA.Race.poll N`, FcGen/KSrcArr6.lean) does not panic,
  returns a well-formed `g'`, and agrees with one `Eng.poll race` of the model on: number of children, indexer offset,
  `done` flag, the remaining scripts, the wakers handed out, and the whole event trace (the model's trace is the
  translated code's trace plus the closing `pollEnd` of the returned value).

  The proof is the Vec proof with `N` substituted by the number of children (`WfR.kn`).  Helpers:
    * ported (they mention the translated structure): the loop invariants `TieRaceA.Inv`, `TieRaceA.Fin`
      (FcLemmas/KTieRaceAInv.lean);
    * imported unchanged (container-independent): `TieDirect.*` (FcLemmas/KTieFamEnv.lean), `TieLoop.*`
      (FcLemmas/KTieFamLoop.lean), and the model-side lemmas `TieRaceV.visit_race_pend`, `visit_race_ready`,
      `poll_race_live`, `close_race_some`, `close_race_none` (FcLemmas/KTieFamRace.lean).
  The Vec props file has neither `poll_tie_strong` nor `new_wf` (the translated file contains `Race::poll` only, no
  constructor), so there is nothing further to port.
  The proofs address the generated structures through their `role…` abbreviations only.
-/
import FcProps.KTieRaceArr
import FcLemmas.KTieRaceAInv

set_option linter.unusedSimpArgs false
set_option linter.unusedVariables false

namespace Fc
open Rs Src

namespace TieRaceA
open RaceA TieDirect TieLoop
open TieRaceV (visit_race_pend visit_race_ready poll_race_live close_race_some close_race_none)

local macro "unroles" : tactic =>
  `(tactic| try simp only [absR, Race.roleKids, Race.roleIndexer, Race.roleDone] at *)

theorem poll_tie : poll_tie_statement := by
  intro N g b w hwf hfs hd
  -- the const generic `N` is the number of children
  obtain ⟨rfl, hmx, hpos⟩ := hwf
  obtain ⟨ix', it, hiter, hoff, hmax, hcol⟩ := iter_collect g.roleIndexer (by rw [hmx]; exact hpos)
  rw [hmx] at hoff hmax hcol
  have hlive : (absR g b).s.dead = false := hd
  rw [poll_race_live _ _ hlive]
  -- the model's run of the loop
  generalize hl : (absR g b).s.rot = l
  generalize he0 : ({ w := ((absR g b).w.emit (.pollBegin w)).setWaker w, s := (absR g b).s.bump } : Eng Fix) = e0
  suffices hs : ∃ y : Race × World × Rs.Poll Nat,
      Race.poll g.roleKids.len g w (((absR g b).w.emit (.pollBegin w)).setWaker w) = some y ∧
      (WfR g.roleKids.len y.1 ∧
        (absR y.1 b).s.n = (Eng.close race (Eng.scan race l e0)).s.n ∧
        (absR y.1 b).s.off = (Eng.close race (Eng.scan race l e0)).s.off ∧
        (absR y.1 b).s.dead = (Eng.close race (Eng.scan race l e0)).s.dead ∧
        y.2.1.scripts = (Eng.close race (Eng.scan race l e0)).w.scripts ∧
        y.2.1.handed = (Eng.close race (Eng.scan race l e0)).w.handed ∧
        (Eng.close race (Eng.scan race l e0)).w.trace = .pollEnd (outcomeOfRace y.2.2) :: y.2.1.trace) by
    obtain ⟨⟨g', env', ret⟩, h1, h2⟩ := hs
    exact ⟨g', env', ret, h1, h2⟩
  unfold Race.poll
  have hl' : l = (List.range g.roleKids.len).map (fun k => (k + g.roleIndexer.roleOffset) % g.roleKids.len) := by
    rw [← hl]; rfl
  unroles
  simp only [hd, hiter, hcol, Bool.not_false, if_true, Option.pure_def, Option.bind_eq_bind, Option.bind_some]
  rw [← hl']
  refine bind_spec _ _
    (LoopPost race outcomeOfRace (Inv g.roleKids.len ix'.roleOffset w) (Fin g.roleKids.len ix'.roleOffset) l e0) _ ?_ ?_
  · refine forCtl_scan race outcomeOfRace _ _ (fun i => i < g.roleKids.len) _ ?_ l ?_ _ e0 ?_
    · -- one iteration = one `visit`
      rintro ⟨self, env'⟩ e i hi ⟨hw, hn, ho, hdd, hk, hio, him, hdn, hm, hp, hf⟩
      obtain ⟨env, es⟩ := e
      simp only at hw hn ho hdd hk hio him hdn hm hp hf
      subst hw
      have hik : i < self.roleKids.len := by rw [hk]; exact hi
      rcases futSteps_resOf env hf i with hr | ⟨ok, v, hr⟩
      · have hpf := (pollFut_tie env i w hm hp).1 hr
        refine ⟨(self, env.pollChild i i), .next, ?_, Or.inl ⟨rfl, ?_, ?_⟩⟩
        · unroles
          simp [Kids.get, hik, expect, hpf]
        · rw [visit_race_pend _ _ hm hr]
        · rw [visit_race_pend _ _ hm hr]
          exact ⟨rfl, hn, ho, hdd, hk, hio, him, hdn, by rw [pollChild_mode]; exact hm,
            by rw [pollChild_parent]; exact hp, futSteps_pollChild _ hf _ _⟩
      · have hpf := (pollFut_tie env i w hm hp).2 ok v hr
        refine ⟨?s', .ret (.ready v), ?h1, Or.inr ⟨_, rfl, ?h2, ?h3⟩⟩
        case h1 =>
          unroles
          simp only [Kids.get, hik, expect, hpf, if_true, Option.bind_some]
          rfl
        case h2 => rw [visit_race_ready _ _ ok v hm hr]; rfl
        case h3 =>
          rw [visit_race_ready _ _ ok v hm hr]
          exact ⟨rfl, hn, ho, rfl, hk, hio, him, rfl⟩
    · -- the indices the loop sees are positions of children
      intro i hi
      rw [hl'] at hi
      simp only [List.mem_map, List.mem_range] at hi
      obtain ⟨k, -, rfl⟩ := hi
      exact Nat.mod_lt _ hpos
    · -- the state in front of the loop
      subst he0
      exact ⟨rfl, rfl, hoff.symm, hd, rfl, rfl, hmax, rfl, rfl, rfl, hfs⟩
  · -- after the loop
    rintro ⟨⟨self, env⟩, r⟩ hpost
    unfold LoopPost at hpost
    generalize Eng.scan race l e0 = sc at hpost ⊢
    obtain ⟨se, so⟩ := sc
    rcases hpost with ⟨hr, hso, hw, hn, ho, hdd, hk, hio, him, hdn, -, -, -⟩ |
      ⟨v, hr, hso, hw, hn, ho, hdd, hk, hio, him, hdn⟩
    · -- the scan ran through: `Pending`
      simp only at hr hso hw hn ho hdd hk hio him hdn
      subst hr hso
      rw [close_race_none]
      refine ⟨(self, env, .pending), rfl, ⟨hk, him, hpos⟩, hk.trans hn.symm,
        hio.trans ho.symm, hdn.trans hdd.symm, ?_, ?_, ?_⟩
      · rw [← hw]; rfl
      · rw [← hw]; rfl
      · rw [← hw]; rfl
    · -- an iteration returned
      simp only at hr hso hw hn ho hdd hk hio him hdn
      subst hr hso
      rw [close_race_some]
      refine ⟨(self, env, v), rfl, ⟨hk, him, hpos⟩, hk.trans hn.symm,
        hio.trans ho.symm, hdn.trans hdd.symm, ?_, ?_, ?_⟩
      · rw [← hw]; rfl
      · rw [← hw]; rfl
      · rw [← hw]; rfl

/-! ### a concrete run: the hypotheses hold, the conclusion is checked by evaluation -/

def scr : Nat → List Step := fun c =>
  if c = 0 then [⟨.pend, []⟩, ⟨.pend, []⟩]
  else if c = 1 then [⟨.pend, [(1, 0)]⟩, ⟨.ready true 9, []⟩] else [⟨.pend, []⟩]

def b0 : Eng Fix := { w := World.init .direct 3 scr, s := Fix.init 3 0 }
/-- three children, `Indexer::new(3)`, not done -/
def g0 : Race := ⟨⟨3⟩, ⟨0, 3⟩, false⟩
/-- the same after one poll: the offset is 1 -/
def g1 : Race := ⟨⟨3⟩, ⟨1, 3⟩, false⟩
def b1 : Eng Fix := Eng.poll race (absR g0 b0) 1

example : WfR 3 g0 := ⟨rfl, rfl, by decide⟩
example : g0.roleDone = false := rfl
example : FutStepsF b0.w := by
  intro c st h
  simp only [b0, World.init, scr] at h
  split at h
  · simp at h; rcases h with rfl | rfl <;> simp
  · split at h
    · simp at h; rcases h with rfl | rfl <;> simp
    · simp at h; subst h; simp

/-- everything the theorem's conclusion compares, as a Boolean -/
def agrees (N : Nat) (g : Race) (b : Eng Fix) (w : Nat) : Option Bool :=
  (Race.poll N g w (((absR g b).w.emit (.pollBegin w)).setWaker w)).map fun y =>
    decide ((absR y.1 b).s.n = (Eng.poll race (absR g b) w).s.n) &&
    decide ((absR y.1 b).s.off = (Eng.poll race (absR g b) w).s.off) &&
    decide ((absR y.1 b).s.dead = (Eng.poll race (absR g b) w).s.dead) &&
    decide ((Eng.poll race (absR g b) w).w.trace = .pollEnd (outcomeOfRace y.2.2) :: y.2.1.trace) &&
    decide ((List.range 4).map (fun c => (y.2.1.scripts c).map fun st => (st.res, st.fires)) =
      (List.range 4).map (fun c => ((Eng.poll race (absR g b) w).w.scripts c).map fun st => (st.res, st.fires))) &&
    decide ((List.range 4).map y.2.1.handed = (List.range 4).map (Eng.poll race (absR g b) w).w.handed)

/-- first poll: all three children are pending, child 1 wakes the task while it is polled -/
example : agrees 3 g0 b0 1 = some true := by decide
example : (Eng.poll race (absR g0 b0) 1).w.trace =
    [.pollEnd .pending, .childEnd 2 .pend, .childBegin 2 2 (.par 1), .childEnd 1 .pend, .woke 1,
     .fired 1 0 (some (.par 1)), .childBegin 1 1 (.par 1), .childEnd 0 .pend, .childBegin 0 0 (.par 1),
     .pollBegin 1] := by decide
/-- second poll: the scan starts at child 1, which resolves with 9; `done` is set -/
example : agrees 3 g1 b1 2 = some true := by decide
example : ((Race.poll 3 g1 2 (((absR g1 b1).w.emit (.pollBegin 2)).setWaker 2)).map
    fun y => (y.1.roleDone, outcomeOfRace y.2.2)) = some (true, .ready true [9]) := by decide
/-- the hypothesis `FutStepsF` is needed: a child answering like a stream is ill-typed for `Future::poll`, the
    translated code panics there -/
example : (Race.poll 3 g0 1 (World.init .direct 3 (fun _ => [⟨.item 5, []⟩]))).isNone = true := by decide
/-- so is `WfR.pos`: with no children `Indexer::iter` divides by zero -/
example : (Race.poll 0 ⟨⟨0⟩, ⟨0, 0⟩, false⟩ 1 (World.init .direct 0 scr)).isNone = true := by decide

end TieRaceA

#print axioms TieRaceA.poll_tie

end Fc
