/-
  Kernel tie, `Vec<S>::zip()` (src/stream/zip/vec.rs: `poll_next` and the `PinnedDrop` destructor) and `Vec<S>::chain()`
  (src/stream/chain/vec.rs: `poll_next`, a `loop` over the current input), TRANSLATED FROM THE CURRENT SOURCE
  (tools/rs2lean.py → FcGen/KSrcFam4.lean, KSrcFam5.lean), refine `Eng.poll zip` / `Eng.drop zip` / `Eng.poll chain`
  of the model.  See FcProps/KTieJoin.lean and FcProps/KTieGrpPoll.lean for the set-up.
-/
import FcGen.KSrcFam4
import FcGen.KSrcFam5
import FcProps.KTieCore
import FcProps.KTieStd
import FcProps.KTiePS

namespace Fc
open Rs Src

namespace TieZipV
open ZipV

def absZ (g : Zip) (b : Eng Fix) : Eng Fix :=
  { w := TieVec.abs g.roleWakers.readiness b.w,
    s := { b.s with n := g.roleKids.len, st := fun i => TiePS.abs (g.roleStates.get i), out := g.roleItems.get,
                    dead := g.roleDone } }

/-- a slot is `Ready` exactly when it buffers an item of the current row; at least one input -/
structure WfZ (g : Zip) : Prop where
  rd : TieVec.Wf g.roleKids.len g.roleWakers.readiness
  nw : g.roleWakers.nwakers = g.roleKids.len
  sl : g.roleStates.len = g.roleKids.len
  ic : g.roleItems.cap = g.roleKids.len
  ln : g.roleCount = g.roleKids.len
  pos : 0 < g.roleKids.len
  rs : ∀ i, i < g.roleKids.len → ((g.roleStates.get i = PS.PollState.pending ∧ g.roleItems.get i = none) ∨
        (g.roleStates.get i = PS.PollState.ready ∧ ∃ v, g.roleItems.get i = some v))

def poll_tie_statement : Prop :=
  ∀ (g : Zip) (b : Eng Fix) (w : Nat),
    WfZ g → StreamStepsF b.w → (∀ c i, Wk.sub i ∈ b.w.handed c → i < g.roleKids.len) → g.roleDone = false →
    ∃ g' env' ret,
      Zip.poll_next g w ((absZ g b).w.emit (.pollBegin w)) = some (g', env', ret) ∧
      (ret ≠ .ready none → WfZ g') ∧
      jcore (absZ g' b) = jcore (Eng.poll zip (absZ g b) w) ∧
      env'.scripts = (Eng.poll zip (absZ g b) w).w.scripts ∧
      env'.handed = (Eng.poll zip (absZ g b) w).w.handed ∧
      (Eng.poll zip (absZ g b) w).w.trace = .pollEnd (outcomeOfZip ret) :: env'.trace

/-- `PinnedDrop::drop` releases the buffered items of the unfinished row (they are never yielded); the inputs themselves
    are plain fields, dropped by the struct's drop glue right after, in order -/
def drop_tie_statement : Prop :=
  ∀ (g : Zip) (b : Eng Fix),
    WfZ g →
    ∃ g' env',
      Zip.drop g ((absZ g b).w.emit .dropBegin) = some (g', env', ()) ∧
      (Eng.drop zip (absZ g b)).w.trace =
        .dropEnd :: (((List.range g.roleKids.len).map (fun i => Ev.childDropped i)).reverse ++ env'.trace)

end TieZipV

namespace TieChainV
open ChainV

/-- chain hands the caller's context to the current input: the model's `direct` strategy -/
def absC (g : Chain) (b : Eng Fix) : Eng Fix :=
  { w := { b.w with mode := .direct },
    s := { b.s with n := g.roleLen, cnt := g.roleIndex, dead := g.roleDone } }

structure WfC (g : Chain) : Prop where
  ln : g.roleLen = g.roleKids.len
  ix : g.roleIndex ≤ g.roleLen

def poll_tie_statement : Prop :=
  ∀ (g : Chain) (b : Eng Fix) (w : Nat),
    WfC g → StreamStepsF b.w → g.roleDone = false →
    ∃ g' env' ret,
      Chain.poll_next g w (((absC g b).w.emit (.pollBegin w)).setWaker w) = some (g', env', ret) ∧
      WfC g' ∧
      (absC g' b).s.n = (Eng.poll chain (absC g b) w).s.n ∧
      (absC g' b).s.cnt = (Eng.poll chain (absC g b) w).s.cnt ∧
      (absC g' b).s.dead = (Eng.poll chain (absC g b) w).s.dead ∧
      env'.scripts = (Eng.poll chain (absC g b) w).w.scripts ∧
      env'.handed = (Eng.poll chain (absC g b) w).w.handed ∧
      (Eng.poll chain (absC g b) w).w.trace = .pollEnd (outcomeOfStream ret) :: env'.trace

end TieChainV
end Fc
