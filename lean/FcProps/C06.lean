/-
  C06 — race resolves in the first poll in which any child resolves, with the output of the first
  child seen to resolve in that poll, and polls no other child afterwards; the losers are never
  polled again and are dropped, unfinished, together with the race future.

  Monitor `Mon.holds_C06` (Fc/MonFun.lean).  `readies t` lists every value any child has resolved
  to so far (from the `childEnd c (ready _ v)` events, newest first); `sincePoll t` is the part of
  the trace since the most recent `pollBegin`.  The monitor checks, at every event of the trace:
    * `pollEnd (Ready vals)` ⇒ `ok`, `vals = readies t`, `vals` has exactly one element, and that
      element was produced since the latest `pollBegin` — i.e. exactly one child has ever resolved,
      it resolved in this very poll, and the race returns its value;
    * `pollEnd Pending`      ⇒ `readies t = []`: no child has resolved (so the race never answers
      `Pending` in a poll in which a child resolved, nor later);
    * `pollEnd panicked` only by a child's panic (C01); `pollEnd misuse` (polling a finished /
      unwound / dropped race) only when `spent`: after the final result, an unwind, or the drop;
      no other outcome (`Some`, `None`) ever;
    * `childBegin _`         ⇒ `readies t = []`: no child is polled once any child has resolved —
      neither later in the winning poll nor in any later poll;
    * `childDropped _`       ⇒ `!alive t`: children are released only after `dropBegin`, i.e. by
      the race's own drop and not earlier.
-/
import FcLemmas.C06
import Fc.Holds

namespace Fc
open Mon

/-- C06 for race (array / Vec / tuple share one model): every number of children (0 included:
    such a race is `Pending` forever), all child scripts, all histories (polls with any waker,
    wake-ups at any time, drop at any point, an injected child panic), whatever `c.mode` says
    (race always passes the caller's `Context` through; the proof is mode-agnostic anyway). -/
theorem C06_race (c : Case) (hf : c.fam = .race) : holds_C06 c.trace = true := by
  unfold Case.trace
  simp only [hf, Fam.isGroup, Bool.false_eq_true, if_false, Case.finalFix, Fam.policy]
  exact (Sim.runFix (C06.sim_race (Fam.race.modeOf c.mode)) c.ops _ rfl (Sim.scriptsOk_any _)
    (by simpa [FEng.init, Fam.initCnt, World.init] using C06.inv_init c.n)).mon

/-- non-vacuity: three children; child 1 resolves (to 7) on its third poll, children 0 and 2 stay
    `Pending` forever; the finished race is polled once more (misuse) and then dropped -/
def C06_example : Case :=
  { fam := .race, mode := .std, keyed := false, n := 3,
    scripts := fun c => if c = 1 then [⟨.pend, []⟩, ⟨.pend, []⟩, ⟨.ready true 7, []⟩] else [],
    ops := [.poll 1, .poll 2, .poll 3, .poll 4, .drop] }

example : C06_example.run.contains (.pollEnd (.ready true [7])) = true := by decide
example : (C06_example.run.filter (fun e => e == .pollEnd .pending)).length = 2 := by decide
example : C06_example.run.contains (.pollEnd .misuse) = true := by decide
/-- all three children — the winner and the two unfinished losers — are dropped, once each, … -/
example : (C06_example.run.filter (fun e => e matches .childDropped _)).length = 3 := by decide
example : droppedChildren C06_example.trace = [2, 1, 0] := by decide
/-- … and only with the race itself: the run ends `dropBegin, childDropped ×3, dropEnd` -/
example : C06_example.run.drop (C06_example.run.length - 5) =
    [.dropBegin, .childDropped 0, .childDropped 1, .childDropped 2, .dropEnd] := by decide
/-- the scan order rotates (0 1 2, then 1 2 0, then 2 0 1): nine child polls in all -/
example : (C06_example.run.filter (fun e => e matches .childBegin _ _ _)).length = 9 := by decide

/-- the same with child 0 as the winner: in the third poll (order 2 0 1) the race returns right
    after child 0, so child 1 is not polled in that poll: eight child polls, two of child 1 -/
def C06_example2 : Case :=
  { C06_example with
    scripts := fun c => if c = 0 then [⟨.pend, []⟩, ⟨.pend, []⟩, ⟨.ready true 7, []⟩] else [] }

example : C06_example2.run.contains (.pollEnd (.ready true [7])) = true := by decide
example : (C06_example2.run.filter (fun e => e matches .childBegin _ _ _)).length = 8 := by decide
example : (C06_example2.run.filter (fun e => e matches .childBegin 1 _ _)).length = 2 := by decide
example : (C06_example2.run.filter (fun e => e matches .childDropped _)).length = 3 := by decide

/-- the monitor is not trivially true.  A child polled after a `Ready` was seen: -/
example : holds_C06 [.childEnd 1 .pend, .childBegin 1 1 (.par 1), .childEnd 0 (.ready true 5),
    .childBegin 0 0 (.par 1), .pollBegin 1] = false := by decide
/-- the wrong value returned: -/
example : holds_C06 [.pollEnd (.ready true [6]), .childEnd 0 (.ready true 5),
    .childBegin 0 0 (.par 1), .pollBegin 1] = false := by decide
/-- `Pending` returned although a child resolved in this poll: -/
example : holds_C06 [.pollEnd .pending, .childEnd 0 (.ready true 5),
    .childBegin 0 0 (.par 1), .pollBegin 1] = false := by decide
/-- the value of a child that resolved in an earlier poll, returned late: -/
example : holds_C06 [.pollEnd (.ready true [5]), .pollBegin 2, .pollEnd (.ready true [5]),
    .childEnd 0 (.ready true 5), .childBegin 0 0 (.par 1), .pollBegin 1] = false := by decide
/-- a loser dropped before the race itself is dropped: -/
example : holds_C06 [.childDropped 1, .pollEnd (.ready true [5]), .childEnd 0 (.ready true 5),
    .childBegin 0 0 (.par 1), .pollBegin 1] = false := by decide
/-- … while the corresponding correct trace is accepted: -/
example : holds_C06 [.dropEnd, .childDropped 1, .childDropped 0, .dropBegin,
    .pollEnd (.ready true [5]), .childEnd 0 (.ready true 5),
    .childBegin 0 0 (.par 1), .pollBegin 1] = true := by decide

end Fc

#print axioms Fc.C06_race
