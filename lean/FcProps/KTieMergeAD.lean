/-
  Kernel tie, fixed families, ARRAY container, no_std / alloc-only FLAVOUR — `[S; N]::merge()`: the translated
  `Merge::poll_next` compiled against src/utils/wakers/array/no_std.rs (FcGen/KSrcArr3D.lean, namespace `MergeAD`:
  the text of the std flavour with `DirArr.ReadinessArray.*`, the hand model `WakerArrayD` and the child-poll wake
  function that does nothing) refines one `Eng.poll merge` of the model on a world in `direct` mode.
  Statement: FcProps/KTieMergeDir.lean (`TieMergeAD.poll_tie_statement`); proof: FcLemmas/KTieMergeAD{Env,Loop,Main}.lean —
  the port of the std proof (FcProps/KTieMergeA.lean, FcLemmas/KTieMergeA{Env,Loop,Main}.lean); the container- and
  flavour-independent lemmas (the model side `TieMergeV.visit_*`, `poll_unfold`, `close_*`, `TieIdx.iter_collect`,
  `HandedIn`, `StreamStepsF.*`) are imported, not copied.

  From a well-formed `Merge` of `N` streams (`WfM N`: the number of children, the state table and the indexer all have
  size `N`; not all streams have ended; the flag-less readiness set has nothing to be well-formed about) and an
  environment whose scripted children answer like streams (`StreamStepsF`), one call of the translated function with task
  waker `w` does not panic, returns the `Poll` value of the model's outcome, and leaves a combinator + environment whose
  reading (`absM`: mode `direct`, the parent waker stored in the translated struct) is the model state after
  `Eng.poll merge · w`: same mode / flag fields (untouched) / parent waker, states, `complete` counter, indexer offset
  (`fcore`), same remaining scripts, same handed-out wakers (every polled child was handed `Wk.par w`), same trace (the
  model's closing `pollEnd` is logged by the caller); `WfM N` is kept unless the stream has just ended.

  Unlike the std flavour the hypothesis on the handed-out wakers is NOT needed (`poll_tie_free`; it is kept in the
  statement, which is harmless): a stale sub-waker does nothing here, in the translated code (the wake function of the
  child polls is the identity) and in the model (`World.fireWk` on `.sub` in `direct` mode) — see the last example, the
  counterexample of the std flavour, on which both sides now agree.
-/
import FcProps.KTieMergeDir
import FcLemmas.KTieMergeADMain

namespace Fc
open Rs Src

namespace TieMergeAD
open MergeAD

theorem poll_tie : poll_tie_statement := poll_tie_main

/-- the statement without the hypothesis on the handed-out wakers -/
theorem poll_tie_free (N : Nat) (g : Merge) (b : Eng Fix) (w : Nat) (hW : WfM N g) (hS : StreamStepsF b.w)
    (hd : b.s.dead = false) :
    ∃ g' env' ret,
      Merge.poll_next N g w ((absM g b).w.emit (.pollBegin w)) = some (g', env', ret) ∧
      (ret ≠ .ready none ∨ N = 0 → WfM N g') ∧
      fcore (absM g' b) = fcore (Eng.poll merge (absM g b) w) ∧
      env'.scripts = (Eng.poll merge (absM g b) w).w.scripts ∧
      env'.handed = (Eng.poll merge (absM g b) w).w.handed ∧
      (Eng.poll merge (absM g b) w).w.trace = .pollEnd (outcomeOfStream ret) :: env'.trace := by
  obtain ⟨g', env', ret, h1, h2, ⟨h3, h4, h5, h6⟩, _⟩ := poll_tie_core N g b w hW hS hd
  exact ⟨g', env', ret, h1, h2, h3, h4, h5, h6⟩

/-- the same refinement, and in addition what the NEXT call needs again: the children are the same, every sub-waker
    handed out so far belongs to a slot (this poll hands out none), the remaining scripts still answer like streams -/
theorem poll_tie_strong (N : Nat) (g : Merge) (b : Eng Fix) (w : Nat) (hW : WfM N g) (hS : StreamStepsF b.w)
    (hH : HandedIn N b.w) (hd : b.s.dead = false) :
    ∃ g' env' ret,
      Merge.poll_next N g w ((absM g b).w.emit (.pollBegin w)) = some (g', env', ret) ∧
      (ret ≠ .ready none ∨ N = 0 → WfM N g') ∧
      (fcore (absM g' b) = fcore (Eng.poll merge (absM g b) w) ∧
       env'.scripts = (Eng.poll merge (absM g b) w).w.scripts ∧
       env'.handed = (Eng.poll merge (absM g b) w).w.handed ∧
       (Eng.poll merge (absM g b) w).w.trace = .pollEnd (outcomeOfStream ret) :: env'.trace) ∧
      g'.roleKids.len = g.roleKids.len ∧ HandedIn N env' ∧ StreamStepsF env' := by
  obtain ⟨g', env', ret, h1, h2, h3, h4, h5, h6⟩ := poll_tie_core N g b w hW hS hd
  exact ⟨g', env', ret, h1, h2, h3, h4, h5 hH, h6⟩

/-- `Merge::new` on an array of `N` streams builds a well-formed merge (the hypothesis `WfM N` of `poll_tie` holds
    initially, for every `N`) over these children; no parent waker is stored yet -/
theorem new_wf (N : Nat) (kids : Rs.Kids) (hk : kids.len = N) :
    ∃ g, Merge.new N kids = some g ∧ WfM N g ∧ g.roleKids = kids ∧ g.roleCount = 0 ∧
      g.roleWakers.readiness.roleParent = none := by
  obtain ⟨r, hr, hr0⟩ : ∃ r0, DirArr.ReadinessArray.new N = some r0 ∧ r0.roleParent = none := ⟨_, rfl, rfl⟩
  have h : ∃ g, Merge.new N kids = some g ∧ g.roleCount = 0 ∧ g.roleWakers = ⟨r⟩ ∧
      g.roleStates = Rs.PVec.replicate N PS.PollState.pending ∧ g.roleKids = kids ∧
      g.roleIndexer.roleMax = N := by
    simp only [Merge.new, WakerArrayD.new, hr, Idx.Indexer.new, Option.bind_eq_bind, Option.bind_some, Option.pure_def]
    exact ⟨_, rfl, rfl, rfl, rfl, rfl, rfl⟩
  obtain ⟨g, h0, h1, h2, h3, h4, h5⟩ := h
  refine ⟨g, h0, ⟨?_, ?_, h5, ?_⟩, h4, h1, ?_⟩
  · rw [h4, hk]
  · rw [h3]; rfl
  · rw [h1]; omega
  · rw [h2]; exact hr0

end TieMergeAD

/-! ## non-vacuity: concrete instances of the hypotheses, and the conclusion checked by evaluation -/
namespace TieMergeADEx
open MergeAD TieMergeAD

/-- three streams; the first poll finds child 0 pending (it wakes the task during the poll: it was handed the caller's
    own waker), child 1 yields 8 -/
def sc : Nat → List Step := fun c =>
  if c = 0 then [⟨.pend, [(0, 0)]⟩, ⟨.item 7, []⟩, ⟨.fin, []⟩]
  else if c = 1 then [⟨.item 8, []⟩, ⟨.fin, []⟩]
  else if c = 2 then [⟨.fin, []⟩] else []

def b0 : Eng Fix := { w := World.init .direct 3 sc, s := Fix.init 3 0 }

example : StreamStepsF b0.w := by
  intro c st h
  simp only [b0, World.init, sc] at h
  split at h
  · simp at h; rcases h with rfl | rfl | rfl <;> simp
  · split at h
    · simp at h; rcases h with rfl | rfl <;> simp
    · split at h
      · simp at h; subst h; simp
      · simp at h

example : ∀ c i, Wk.sub i ∈ b0.w.handed c → i < 3 := by
  intro c i h; simp [b0, World.init] at h

example : b0.s.dead = false := rfl

/-- the hypothesis `WfM 3` holds of `Merge::new([s0, s1, s2])` -/
example : ∃ g, Merge.new 3 ⟨3⟩ = some g ∧ WfM 3 g ∧ g.roleKids = ⟨3⟩ ∧ g.roleCount = 0 ∧
    g.roleWakers.readiness.roleParent = none := new_wf 3 ⟨3⟩ rfl

/-- the conclusion on `Merge::new([s0, s1, s2])`, checked by evaluation: the translated function does not panic, the
    returned value is the model's outcome, and trace, counters, offset, mode, flag fields and parent waker, the states of
    the three slots, the remaining scripts and the handed-out wakers of the three children agree; children 0 and 1 were
    handed the caller's own waker, child 0 invoked it during its poll (`woke 1` is in the trace) -/
example :
    (do let g ← Merge.new 3 ⟨3⟩
        let (g', env', ret) ← Merge.poll_next 3 g 1 ((absM g b0).w.emit (.pollBegin 1))
        let m := Eng.poll merge (absM g b0) 1
        let a := absM g' b0
        pure (decide (m.w.trace = .pollEnd (outcomeOfStream ret) :: env'.trace) &&
              decide (outcomeOfStream ret = .some 0 [8]) &&
              decide (a.s.n = m.s.n ∧ a.s.cnt = m.s.cnt ∧ a.s.off = m.s.off ∧ m.s.off = 1) &&
              decide (a.w.mode = m.w.mode ∧ m.w.mode = .direct) &&
              decide (a.w.count = m.w.count ∧ a.w.cap = m.w.cap ∧ a.w.parent = m.w.parent ∧ m.w.parent = some 1) &&
              (List.range 3).all (fun i => a.w.bits i == m.w.bits i && decide (a.s.st i = m.s.st i) &&
                decide (env'.handed i = m.w.handed i) &&
                decide ((env'.scripts i).map (·.res) = (m.w.scripts i).map (·.res))) &&
              decide (env'.handed 0 = [.par 1] ∧ env'.handed 1 = [.par 1] ∧ env'.handed 2 = []) &&
              decide (Ev.woke 1 ∈ env'.trace) &&
              decide (env'.trace.length = 7)))
      = some true := by decide

/-- two streams: two polls; the first sees stream 0 end and stream 1 pending (it wakes the task), the second polls
    stream 1 again (stream 0 is skipped: its state is `None`) and sees it end — the merge returns `Ready(None)`, the
    model's outcome `.none`; all compared components agree after the SECOND poll too (the state the first poll leaves
    is the one the second starts from) -/
def sc2 : Nat → List Step := fun c =>
  if c = 0 then [⟨.fin, []⟩] else if c = 1 then [⟨.pend, [(1, 0)]⟩, ⟨.fin, []⟩] else []

def b2 : Eng Fix := { w := World.init .direct 2 sc2, s := Fix.init 2 0 }

example :
    (do let g ← Merge.new 2 ⟨2⟩
        let (g1, env1, ret1) ← Merge.poll_next 2 g 1 ((absM g b2).w.emit (.pollBegin 1))
        let m1 := Eng.poll merge (absM g b2) 1
        let b2' : Eng Fix := { w := env1.emit (.pollEnd (outcomeOfStream ret1)), s := b2.s }
        let (g2, env2, ret2) ← Merge.poll_next 2 g1 4 ((absM g1 b2').w.emit (.pollBegin 4))
        let m2 := Eng.poll merge (absM g1 b2') 4
        let a := absM g2 b2'
        pure (decide (outcomeOfStream ret1 = .pending ∧ outcomeOfStream ret2 = .none) &&
              decide (m1.w.trace = .pollEnd (outcomeOfStream ret1) :: env1.trace) &&
              decide (m2.w.trace = .pollEnd (outcomeOfStream ret2) :: env2.trace) &&
              decide (a.s.n = m2.s.n ∧ a.s.cnt = m2.s.cnt ∧ m2.s.cnt = 2 ∧ a.s.off = m2.s.off) &&
              decide (a.w.mode = m2.w.mode ∧ a.w.count = m2.w.count ∧ a.w.cap = m2.w.cap ∧
                      a.w.parent = m2.w.parent ∧ m2.w.parent = some 4) &&
              (List.range 2).all (fun i => a.w.bits i == m2.w.bits i && decide (a.s.st i = m2.s.st i) &&
                decide (env2.handed i = m2.w.handed i) &&
                decide ((env2.scripts i).map (·.res) = (m2.w.scripts i).map (·.res))) &&
              decide (env2.handed 1 = [.par 4, .par 1] ∧ env2.handed 0 = [.par 1])))
      = some true := by decide

/-- `N = 0`: the early return `Ready(None)` -/
example :
    (do let g ← Merge.new 0 ⟨0⟩
        let b : Eng Fix := { w := World.init .direct 0 (fun _ => []), s := Fix.init 0 0 }
        let (_, env', ret) ← Merge.poll_next 0 g 1 ((absM g b).w.emit (.pollBegin 1))
        pure (decide (outcomeOfStream ret = .none) &&
              decide ((Eng.poll merge (absM g b) 1).w.trace = .pollEnd (outcomeOfStream ret) :: env'.trace)))
      = some true := by decide

/-- the counterexample of the std flavour (FcProps/KTieMergeA.lean: child 0 was handed the sub-waker of a slot 5 that a
    one-stream merge does not have and invokes it during its poll) is harmless here: the translated function does not
    panic and agrees with the model — the stale sub-waker does nothing (the hypothesis on the handed-out wakers of
    `poll_tie` is not needed: `poll_tie_free`) -/
def bC : Eng Fix :=
  { w := { World.init .direct 1 (fun c => if c = 0 then [⟨.pend, [(0, 1)]⟩] else []) with
           handed := fun c => if c = 0 then [.sub 5] else [] },
    s := Fix.init 1 0 }

example :
    (do let g ← Merge.new 1 ⟨1⟩
        let (_, env', ret) ← Merge.poll_next 1 g 9 ((absM g bC).w.emit (.pollBegin 9))
        let m := Eng.poll merge (absM g bC) 9
        pure (decide (outcomeOfStream ret = .pending) &&
              decide (m.w.trace = .pollEnd (outcomeOfStream ret) :: env'.trace) &&
              decide (Ev.fired 0 1 (some (.sub 5)) ∈ env'.trace) &&
              decide (env'.handed 0 = m.w.handed 0 ∧ env'.handed 0 = [.par 9, .sub 5])))
      = some true := by decide

end TieMergeADEx

#print axioms TieMergeAD.poll_tie
#print axioms TieMergeAD.poll_tie_free
#print axioms TieMergeAD.poll_tie_strong
#print axioms TieMergeAD.new_wf

end Fc
