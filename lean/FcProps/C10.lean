/-
  C10 — a chained stream yields all items of its first input in order, then all items of the
  second, and so on, and returns `None` when the last input has ended (on the first poll for zero
  inputs).  An input is not polled at all until every earlier input has returned `None`.

  Monitor `Mon.holds_C10 n` (Fc/MonFun.lean) over the trace (NEWEST FIRST), where
  `items t` = values of all `childEnd _ (item v)` so far, `yielded t` = values of all
  `pollEnd (some _ vs)` so far, `ended t c` = child `c`'s most recent answer was `fin`,
  `sincePoll t` = the events of the current top-level poll:
    * at every `childBegin c` : no item was taken yet in this poll, and every input `j < c` has
      ended (so input `c` is not touched before all earlier inputs returned `None`);
    * at every `pollEnd o`   : `c10At`:
        `o = Some [v]`  ⇒ the items taken in this poll are exactly `[v]`;
        `o = Pending`   ⇒ no item was taken in this poll and NOT every input `< n` has ended;
        `o = None`      ⇒ no item was taken in this poll and every input `< n` has ended
                          (for `n = 0` that is the only possible answer besides misuse);
        `o = panicked`  ⇒ no item was taken (nothing is lost by the unwind);
        `o = misuse`    ⇒ only after the final `None`, an unwind or the drop;
      and globally `yielded = items` after the `pollEnd`: the sequence of yielded values IS the
      sequence of values the inputs produced — nothing lost, duplicated or reordered.

  Theorems:
    * `C10_chain`       — the model's trace satisfies the monitor, for every number of inputs, all
                          scripts (no kind restriction needed), all histories;
    * `C10_sequential`  — what the monitor says about ANY trace, read at every prefix;
    * `C10_chain_order` — for the model: at every operation boundary `yielded = items`, and the
                          inputs the items came from never decrease over time.
-/
import FcLemmas.C10
import Fc.Holds
set_option linter.unusedVariables false

namespace Fc
open Mon

/-- C10 for chain (array / Vec / tuple share the model), every number of inputs (0 included), all
    child scripts, all histories (polls with any waker, wake-ups at any time, drop at any point, an
    injected child panic).  The hypothesis `c.kindOk` of the task statement is NOT needed: a child
    answering `Ready` (which a stream cannot) is treated like `Pending` by the model and the
    monitor accepts that, so the theorem holds for every script. -/
theorem C10_chain (c : Case) (hf : c.fam = .chain) : holds_C10 c.n c.trace = true :=
  (C10.inv_final c hf).mon

/-- The global reading of the monitor, for ANY trace `t` (newest first; in `t = pre ++ e :: past`
    the list `past` is the trace at the moment event `e` happens, `pre` is what came later):

    (i)  whenever input `c` is polled, every earlier input `j < c` has already returned `None`
         (its latest answer is `fin`) and no item was taken yet in the running poll — so an input
         is not polled at all until every earlier input has ended;
    (ii) whenever a top-level poll returns, the sequence of all values yielded so far (this poll's
         included) equals the sequence of all items the inputs produced so far, and the answer is
         the one `c10At` prescribes; in particular
    (iii) `None` is returned only when every input has ended, and
    (iv) `Pending` only when some input has not. -/
theorem C10_sequential (n : Nat) (t : List Ev) (h : holds_C10 n t = true) :
    (∀ pre c slot wk past, t = pre ++ .childBegin c slot wk :: past →
        (∀ j, j < c → ended past j = true) ∧ items (sincePoll past) = []) ∧
    (∀ pre o past, t = pre ++ .pollEnd o :: past →
        yielded (.pollEnd o :: past) = items past ∧ c10At n past o = true) ∧
    (∀ pre past, t = pre ++ .pollEnd .none :: past → ∀ j, j < n → ended past j = true) ∧
    (∀ pre past, t = pre ++ .pollEnd .pending :: past → ∃ j, j < n ∧ ended past j = false) := by
  have hpe : ∀ pre o past, t = pre ++ .pollEnd o :: past →
      yielded (.pollEnd o :: past) = items past ∧ c10At n past o = true := by
    intro pre o past ht
    subst ht
    have := C10.holds_suffix n pre _ h
    simp only [holds_C10, Bool.and_eq_true, beq_iff_eq] at this
    exact ⟨this.2, this.1.2⟩
  refine ⟨?_, hpe, ?_, ?_⟩
  · intro pre c slot wk past ht
    subst ht
    have := C10.holds_suffix n pre _ h
    simp only [holds_C10, Bool.and_eq_true, beq_iff_eq, List.all_eq_true, List.mem_range] at this
    exact ⟨this.2, this.1.2⟩
  · intro pre past ht j hj
    have := (hpe pre _ past ht).2
    simp only [c10At, allEnded, Bool.and_eq_true, List.all_eq_true, List.mem_range] at this
    exact this.2 j hj
  · intro pre past ht
    have := (hpe pre _ past ht).2
    simp only [c10At, allEnded, Bool.and_eq_true, Bool.not_eq_true'] at this
    have hne := this.2
    rw [List.all_eq_false] at hne
    obtain ⟨j, hj, hje⟩ := hne
    exact ⟨j, List.mem_range.mp hj, by simpa using hje⟩

/-- For the model, at every operation boundary (every history is a `Case`, so this is every
    prefix of every run): (a) the yielded sequence equals the sequence of produced items, and
    (b) the inputs the items came from never decrease over time (`srcs` lists them newest first) —
    so the output is: items of input 0 in order, then those of input 1, … .

    (b) is proved for the MODEL via the invariant, not from `holds_C10` alone: the monitor does not
    forbid polling an ended input again (that is C03), see `C10_b_needs_model` below.  Likewise
    (a) in the form `yielded t = items t` is false for arbitrary traces satisfying the monitor
    (a stray `childEnd` outside any poll, see `C10_a_needs_model`); the monitor-only form is
    `C10_sequential` (ii). -/
theorem C10_chain_order (c : Case) (hf : c.fam = .chain) :
    yielded c.trace = items c.trace ∧ (srcs c.trace).Pairwise (· ≥ ·) :=
  ⟨(C10.inv_final c hf).yi, (C10.inv_final c hf).sorted⟩

/-- the monitor alone does not give (b): input 0 ends, input 1 yields, then input 0 is polled again
    and yields — accepted by `holds_C10` (rejected by C03), sources out of order -/
theorem C10_b_needs_model :
    holds_C10 2 [.pollEnd (.some 0 [6]), .childEnd 0 (.item 6), .childBegin 0 0 (.par 2), .pollBegin 2,
      .pollEnd (.some 0 [5]), .childEnd 1 (.item 5), .childBegin 1 1 (.par 1),
      .childEnd 0 .fin, .childBegin 0 0 (.par 1), .pollBegin 1] = true ∧
    holds_C03 false [.pollEnd (.some 0 [6]), .childEnd 0 (.item 6), .childBegin 0 0 (.par 2), .pollBegin 2,
      .pollEnd (.some 0 [5]), .childEnd 1 (.item 5), .childBegin 1 1 (.par 1),
      .childEnd 0 .fin, .childBegin 0 0 (.par 1), .pollBegin 1] = false ∧
    srcs [.pollEnd (.some 0 [6]), .childEnd 0 (.item 6), .childBegin 0 0 (.par 2), .pollBegin 2,
      .pollEnd (.some 0 [5]), .childEnd 1 (.item 5), .childBegin 1 1 (.par 1),
      .childEnd 0 .fin, .childBegin 0 0 (.par 1), .pollBegin 1] = [0, 1] := by decide

/-- … nor (a) at an arbitrary trace end: an answer logged outside any poll -/
theorem C10_a_needs_model :
    holds_C10 1 [.childEnd 0 (.item 5)] = true ∧ inPoll [.childEnd 0 (.item 5)] = false ∧
    yielded [.childEnd 0 (.item 5)] ≠ items [.childEnd 0 (.item 5)] := by decide

/-! ### non-vacuity -/

/-- three inputs: input 0 yields 1, 2 and ends; input 1 is empty; input 2 pends once, yields 3,
    ends.  Five polls, a wake-up inside a child poll, two between polls; ends with `None`. -/
def C10_example : Case :=
  { fam := .chain, mode := .std, keyed := false, n := 3,
    scripts := fun c => if c = 0 then [⟨.item 1, [(0, 0)]⟩, ⟨.item 2, []⟩, ⟨.fin, []⟩]
                        else if c = 1 then [⟨.fin, []⟩]
                        else if c = 2 then [⟨.pend, []⟩, ⟨.item 3, []⟩, ⟨.fin, []⟩] else [],
    ops := [.poll 1, .fire 0 0, .poll 2, .poll 3, .fire 2 0, .poll 4, .poll 5] }

example : holds_C10 3 C10_example.trace = true := C10_chain C10_example rfl
example : C10_example.trace.head? = some (.pollEnd .none) := by decide
example : (C10_example.run.filter (fun e => e == .pollEnd .pending)).length = 1 := by decide
/-- outputs in chain order (newest first), and where they came from -/
example : yielded C10_example.trace = [3, 2, 1] := by decide
example : srcs C10_example.trace = [2, 0, 0] := by decide
/-- the third poll walks over the end of input 0, the empty input 1 and parks on input 2 -/
example : (C10_example.run.filter (fun e => match e with | .childBegin _ _ _ => true | _ => false)).length
    = 7 := by decide
example : (C10_example.run.filter (fun e => match e with | .woke _ => true | _ => false)).length
    = 3 := by decide
/-- polling the finished chain once more is misuse -/
example : ({ C10_example with ops := C10_example.ops ++ [Op.poll 6] }).trace.head?
    = some (.pollEnd .misuse) := by decide
/-- zero inputs: `None` on the first poll -/
example : ({ C10_example with n := 0, ops := [Op.poll 1] }).run = [.pollBegin 1, .pollEnd .none] := by
  decide

/-- a correct hand-written trace is accepted … -/
example : holds_C10 2 [.pollEnd .none, .childEnd 1 .fin, .childBegin 1 1 (.par 2),
    .childEnd 0 .fin, .childBegin 0 0 (.par 2), .pollBegin 2,
    .pollEnd (.some 0 [5]), .childEnd 0 (.item 5), .childBegin 0 0 (.par 1), .pollBegin 1] = true := by
  decide
/-- … the second input polled before the first has ended is not, -/
example : holds_C10 2 [.childBegin 1 1 (.par 1), .childEnd 0 .pend, .childBegin 0 0 (.par 1),
    .pollBegin 1] = false := by decide
/-- … nor is `None` before the last input has ended, -/
example : holds_C10 2 [.pollEnd .none, .childEnd 0 .fin, .childBegin 0 0 (.par 1), .pollBegin 1]
    = false := by decide
/-- … nor `Pending` when every input has ended, -/
example : holds_C10 1 [.pollEnd .pending, .childEnd 0 .fin, .childBegin 0 0 (.par 1), .pollBegin 1]
    = false := by decide
/-- … nor a lost item (taken, then the next input is polled / `Pending` is returned), -/
example : holds_C10 1 [.pollEnd .pending, .childEnd 0 (.item 5), .childBegin 0 0 (.par 1),
    .pollBegin 1] = false := by decide
example : holds_C10 2 [.childBegin 0 0 (.par 1), .childEnd 0 (.item 5), .childBegin 0 0 (.par 1),
    .pollBegin 1] = false := by decide
/-- … nor a wrong or duplicated value. -/
example : holds_C10 1 [.pollEnd (.some 0 [6]), .childEnd 0 (.item 5), .childBegin 0 0 (.par 1),
    .pollBegin 1] = false := by decide
example : holds_C10 1 [.pollEnd (.some 0 [5]), .pollBegin 2,
    .pollEnd (.some 0 [5]), .childEnd 0 (.item 5), .childBegin 0 0 (.par 1), .pollBegin 1] = false := by
  decide

end Fc

#print axioms Fc.C10_chain
#print axioms Fc.C10_sequential
#print axioms Fc.C10_chain_order
#print axioms Fc.C10_b_needs_model
#print axioms Fc.C10_a_needs_model
