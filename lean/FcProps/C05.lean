/-
  C05 — try_join resolves to Ok exactly when every child resolved to Ok, carrying each child's
  value at the child's position; otherwise it resolves, in the same poll in which a child is
  first seen to fail, to exactly that child's error.  After a failure has been seen no further
  child is polled, and values already produced by other children are dropped, not returned.

  Monitor `Mon.holds_C05 n` (Fc/MonFun.lean).  Observations of the trace `t` before an event:
  `okVal t c` = the value child `c`'s most recent poll resolved to with `Ok` (from its
  `childEnd c (ready true v)`), `errs t` = every error any child returned so far (all
  `childEnd _ (ready false v)`), `sincePoll t` = the events of the current top-level poll.
  At every `pollEnd o`:
    * `o = Ready Ok vals`  ⇒ no child ever failed, every child `c < n` has resolved to Ok, and
      `vals[c] = okVal c` for all `c` (for `n = 0`: the empty container, on every poll);
    * `o = Ready Err vals` ⇒ `vals = [e]` where `e` is the only error any child ever returned,
      and that error was returned in this very poll (`errs (sincePoll t) = [e]`);
    * `o = Pending`        ⇒ no child ever failed and some child `c < n` has not resolved to Ok
      (so Ok is returned in the very poll in which the last child resolves);
    * `o = panicked` only by a child's panic (C01); `misuse` (polling a finished/dropped
      try_join) only after the final result, an unwind or the drop.
  At every `childBegin`: no child has failed before (`errs t = []`) — once an error has been
  seen, no child is polled any more (neither in the rest of that poll nor later).  Since the
  only `Ready` outcome after an error is `Err [e]`, Ok values other children produced earlier are
  never returned.
-/
import FcLemmas.C05
import Fc.Holds

namespace Fc
open Mon

/-- C05 for both try_join models (array/Vec and tuple, arity 0 included), every number of
    children, all child scripts, all histories (polls with any waker, wake-ups at any time, drop
    at any point, an injected child panic), both waker strategies. -/
theorem C05_try_join (c : Case) (hf : c.fam = .tryJoinSlice ∨ c.fam = .tryJoinTuple) :
    holds_C05 c.n c.trace = true := by
  unfold Case.trace
  rcases hf with hf | hf
  · simp only [hf, Fam.isGroup, Bool.false_eq_true, if_false, Case.finalFix, Fam.policy]
    exact (Sim.runFix (C05.sim_tryJoinSlice c.n (Fam.tryJoinSlice.modeOf c.mode)) c.ops _ rfl
      (Sim.scriptsOk_any _)
      (by simpa [FEng.init, Fam.initCnt, World.init] using C05.inv_init true c.n)).mon
  · simp only [hf, Fam.isGroup, Bool.false_eq_true, if_false, Case.finalFix, Fam.policy]
    exact (Sim.runFix (C05.sim_tryJoinTuple c.n (Fam.tryJoinTuple.modeOf c.mode)) c.ops _ rfl
      (Sim.scriptsOk_any _)
      (by simpa [FEng.init, Fam.initCnt, World.init] using C05.inv_init false c.n)).mon

/-- non-vacuity: three children; child 0 resolves `Ok 10` in the first poll, child 1 fails with
    77 in the second poll, child 2 is pending (and woken, so it would be polled next) -/
def C05_example (f : Fam) : Case :=
  { fam := f, mode := .std, keyed := false, n := 3,
    scripts := fun c => if c = 0 then [⟨.ready true 10, []⟩]
                        else if c = 1 then [⟨.pend, []⟩, ⟨.ready false 77, []⟩]
                        else if c = 2 then [⟨.pend, []⟩, ⟨.ready true 12, []⟩] else [],
    ops := [.poll 1, .fire 2 0, .fire 1 0, .poll 2, .poll 3, .drop] }

/-- a history without failure: all three resolve Ok, out of order -/
def C05_example_ok (f : Fam) : Case :=
  { fam := f, mode := .std, keyed := false, n := 3,
    scripts := fun c => if c = 0 then [⟨.pend, []⟩, ⟨.ready true 10, []⟩]
                        else if c = 1 then [⟨.pend, []⟩, ⟨.pend, []⟩, ⟨.ready true 11, []⟩]
                        else if c = 2 then [⟨.ready true 12, []⟩] else [],
    ops := [.poll 1, .fire 0 0, .poll 2, .fire 1 0, .poll 3, .fire 1 0, .poll 4, .drop] }

-- tuple model
example : (C05_example .tryJoinTuple).run.contains (.pollEnd (.ready false [77])) = true := by decide
example : (C05_example .tryJoinTuple).run.contains (.pollEnd .pending) = true := by decide
/-- child 0's `Ok 10` was produced, and dropped rather than returned -/
example : (C05_example .tryJoinTuple).run.contains (.childEnd 0 (.ready true 10)) = true := by decide
/-- the woken child 2 is not polled once child 1 has failed: it was polled exactly once -/
example : ((C05_example .tryJoinTuple).run.filter
    (fun e => match e with | .childBegin 2 _ _ => true | _ => false)).length = 1 := by decide
/-- the poll after the error is a misuse -/
example : (C05_example .tryJoinTuple).run.contains (.pollEnd .misuse) = true := by decide
example : (C05_example_ok .tryJoinTuple).run.contains (.pollEnd (.ready true [10, 11, 12])) = true := by
  decide
example : ((C05_example_ok .tryJoinTuple).run.filter (fun e => e == .pollEnd .pending)).length = 3 := by
  decide

-- array/Vec model
example : (C05_example .tryJoinSlice).run.contains (.pollEnd (.ready false [77])) = true := by decide
example : (C05_example .tryJoinSlice).run.contains (.pollEnd .pending) = true := by decide
example : (C05_example .tryJoinSlice).run.contains (.childEnd 0 (.ready true 10)) = true := by decide
example : ((C05_example .tryJoinSlice).run.filter
    (fun e => match e with | .childBegin 2 _ _ => true | _ => false)).length = 1 := by decide
example : (C05_example .tryJoinSlice).run.contains (.pollEnd .misuse) = true := by decide
example : (C05_example_ok .tryJoinSlice).run.contains (.pollEnd (.ready true [10, 11, 12])) = true := by
  decide
example : ((C05_example_ok .tryJoinSlice).run.filter (fun e => e == .pollEnd .pending)).length = 3 := by
  decide

/-! the monitor is not trivially true (traces NEWEST FIRST) -/

/-- accepted: child 0 Ok, child 1 fails with 6, the error is returned at once -/
example : holds_C05 2 [.pollEnd (.ready false [6]), .childDropped 1, .childEnd 1 (.ready false 6),
    .childBegin 1 1 (.sub 1), .childDropped 0, .childEnd 0 (.ready true 5), .childBegin 0 0 (.sub 0),
    .pollBegin 1] = true := by decide
/-- rejected: the wrong error is returned -/
example : holds_C05 2 [.pollEnd (.ready false [5]), .childEnd 1 (.ready false 6),
    .childBegin 1 1 (.sub 1), .childEnd 0 (.ready true 5), .childBegin 0 0 (.sub 0),
    .pollBegin 1] = false := by decide
/-- rejected: a child is polled after an error was seen -/
example : holds_C05 2 [.pollEnd (.ready false [6]), .childEnd 1 .pend, .childBegin 1 1 (.sub 1),
    .childEnd 0 (.ready false 6), .childBegin 0 0 (.sub 0), .pollBegin 1] = false := by decide
/-- rejected: Ok is returned although a child failed -/
example : holds_C05 2 [.pollEnd (.ready true [5, 0]), .childEnd 1 (.ready false 6),
    .childBegin 1 1 (.sub 1), .childEnd 0 (.ready true 5), .childBegin 0 0 (.sub 0),
    .pollBegin 1] = false := by decide
/-- rejected: the error is swallowed in the poll that saw it (`Pending`) … -/
example : holds_C05 2 [.pollEnd .pending, .childEnd 0 (.ready false 6), .childBegin 0 0 (.sub 0),
    .pollBegin 1] = false := by decide
/-- … and a later poll that reports it is too late (the failing `childEnd` is not in that poll) -/
example : c05At 2 [.pollBegin 2, .pollEnd .pending, .childEnd 0 (.ready false 6),
    .childBegin 0 0 (.sub 0), .pollBegin 1] (.ready false [6]) = false := by decide
/-- rejected: Ok returned too early, or with slots swapped -/
example : holds_C05 2 [.pollEnd (.ready true [5, 0]), .childEnd 0 (.ready true 5),
    .childBegin 0 0 (.sub 0), .pollBegin 1] = false := by decide
example : holds_C05 2 [.pollEnd (.ready true [6, 5]), .childEnd 1 (.ready true 6),
    .childBegin 1 1 (.sub 1), .childEnd 0 (.ready true 5), .childBegin 0 0 (.sub 0),
    .pollBegin 1] = false := by decide

end Fc

#print axioms Fc.C05_try_join
