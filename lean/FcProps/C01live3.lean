/-
  C01 (second sentence) — liveness of the STREAM combinators `merge`, `zip`, `chain` under the
  wake-only executor.

  Setting (Fc/Exec.lean): the executor polls the combinator — with a FRESH task waker on every
  poll — only if the task has been woken since the previous poll began (`Mon.wokeSince`), or it was
  never polled, or the previous poll yielded an item (`Exec.shouldPoll`: a stream consumer asks for
  the next item at once).  Otherwise the environment lets the first waiting child (latest answer
  `Pending`, scripted steps left: `Exec.firstWaiting`) make progress by invoking the waker that
  child was handed in its most recent poll (`e.fire c 0`).  `Exec.round` is one such step (`none`:
  final outcome, or stuck); `Exec.runFor P n k` runs up to `k` rounds.
  A well-behaved stream (`streamScript`) answers `Pending` (each time with arbitrary in-poll
  wake-ups of arbitrary, also stale, wakers of arbitrary children) or an item, any finite number of
  times in any mix, then ends.

  Theorems: for every number of inputs (zip: at least one), all inputs well-behaved streams, both
  waker strategies: the run reaches the final `None` — no schedule of this executor leaves the
  stream pending with no wake-up outstanding — within `3 * stepsLeft + 2` rounds (`stepsLeft` =
  total number of scripted steps).  WHAT was yielded before the `None` is characterised by the
  functional theorems C08 (merge: every item of every input, exactly once, per-input order kept),
  C09 (zip: rows, positionally) and C10 (chain: the concatenation); they hold along these runs
  (a run of the executor is an operation history).

  On the bound: the proof gives `3 * stepsLeft + 1` for all three (`*_ends_tight`; the theorems with
  the tentative constant `+ 2` are corollaries).  For merge the coefficient 3 is needed
  (`C01_merge_ends_bound2_false`: with `2 * stepsLeft + 2` the statement is FALSE — a child whose
  every `Pending` step invokes the stale waker of an input that has already ended costs three rounds
  per step: the productive poll, one poll that polls nothing, the prod) and so is the constant 1
  (`C01_merge_ends_bound0_false`: zero inputs, zero steps, one round).  chain polls the input it is
  at on every poll, so there no round is wasted (at most 2 rounds per step in every example tried;
  not proved); for zip a stale wake-up of a buffered input wastes at most one poll per row.

  The proof (FcLemmas/Live3*.lean) generalises the join proof (C01live): the safety theorems are
  used as invariants along the run —
    C01 (`quiet`; `C01.BInv`/`C01D.BInv` for merge and zip, the sequential `C01S.BS` for chain)
        ⇒ after the environment prods a waiting child the next round polls;
    C20 (merge, zip: a waiting child whose waker had fired when the poll began is polled by a poll
        that returns `Pending`) ⇒ that poll consumes a step of the prodded child;
    C08 / C09 / C10 invariants ⇒ between polls of a live stream some slot is eligible (an input that
        has not ended / not delivered for the current row / the input `index` points at), eligible
        slots have not ended, an ended input is never polled again.
  New ingredients: inputs that follow a `streamScript` never panic and have a step left while they
  have not ended; a poll that polls no child does not wake the task; a poll that yields has polled
  a child (so `stepsLeft` decreases with every productive round); and — because a stream is polled
  again after an item WITHOUT any wake-up — the readiness-bit invariant `Live3.IB`: an eligible
  input whose latest answer is an item (or that was never polled) has its readiness bit set (merge
  re-arms the slot that yielded, zip re-arms all slots when a row is complete), hence when a poll
  returns `Pending` EVERY eligible input is waiting (`Live3.PendAll`) and one can be prodded.
-/
import FcLemmas.Live3Inst
import FcLemmas.Live3Chain
import Fc.Holds

namespace Fc
open Mon

/-! ### the tight versions (bound `3 * stepsLeft + 1`) -/

theorem C01_merge_ends_tight (m : Mode) (n : Nat) (scripts : Nat → List Step)
    (hs : ∀ c, c < n → streamScript (scripts c) = true) :
    ∃ k, k ≤ 3 * Exec.stepsLeft n (FEng.init .merge m n scripts) + 1 ∧
      Mon.lastOut (Exec.runFor Fc.merge n k (FEng.init .merge m n scripts)).w.trace = some .none :=
  Live3.merge_ends m n scripts hs

theorem C01_chain_ends_tight (m : Mode) (n : Nat) (scripts : Nat → List Step)
    (hs : ∀ c, c < n → streamScript (scripts c) = true) :
    ∃ k, k ≤ 3 * Exec.stepsLeft n (FEng.init .chain m n scripts) + 1 ∧
      Mon.lastOut (Exec.runFor Fc.chain n k (FEng.init .chain m n scripts)).w.trace = some .none :=
  Live3.chain_ends m n scripts hs

theorem C01_zip_ends_tight (m : Mode) (n : Nat) (hn : 0 < n) (scripts : Nat → List Step)
    (hs : ∀ c, c < n → streamScript (scripts c) = true) :
    ∃ k, k ≤ 3 * Exec.stepsLeft n (FEng.init .zip m n scripts) + 1 ∧
      Mon.lastOut (Exec.runFor Fc.zip n k (FEng.init .zip m n scripts)).w.trace = some .none :=
  Live3.zip_ends m n hn scripts hs

/-! ### the statements as given -/

/-- liveness of merge: the run ends within `3 * stepsLeft + 2` rounds -/
theorem C01_merge_ends (m : Mode) (n : Nat) (scripts : Nat → List Step)
    (hs : ∀ c, c < n → streamScript (scripts c) = true) :
    ∃ k, k ≤ 3 * Exec.stepsLeft n (FEng.init .merge m n scripts) + 2 ∧
      Mon.lastOut (Exec.runFor Fc.merge n k (FEng.init .merge m n scripts)).w.trace = some .none := by
  obtain ⟨k, hk, hv⟩ := C01_merge_ends_tight m n scripts hs
  exact ⟨k, by omega, hv⟩

/-- liveness of chain -/
theorem C01_chain_ends (m : Mode) (n : Nat) (scripts : Nat → List Step)
    (hs : ∀ c, c < n → streamScript (scripts c) = true) :
    ∃ k, k ≤ 3 * Exec.stepsLeft n (FEng.init .chain m n scripts) + 2 ∧
      Mon.lastOut (Exec.runFor Fc.chain n k (FEng.init .chain m n scripts)).w.trace = some .none := by
  obtain ⟨k, hk, hv⟩ := C01_chain_ends_tight m n scripts hs
  exact ⟨k, by omega, hv⟩

/-- liveness of zip (at least one input: a zip of nothing is pending for ever) -/
theorem C01_zip_ends (m : Mode) (n : Nat) (hn : 0 < n) (scripts : Nat → List Step)
    (hs : ∀ c, c < n → streamScript (scripts c) = true) :
    ∃ k, k ≤ 3 * Exec.stepsLeft n (FEng.init .zip m n scripts) + 2 ∧
      Mon.lastOut (Exec.runFor Fc.zip n k (FEng.init .zip m n scripts)).w.trace = some .none := by
  obtain ⟨k, hk, hv⟩ := C01_zip_ends_tight m n hn scripts hs
  exact ⟨k, by omega, hv⟩

/-! ### tighter bounds are false (merge) -/

/-- the statement with the bound `2 * stepsLeft + 2` -/
def C01_merge_ends_bound2_statement : Prop :=
  ∀ (m : Mode) (n : Nat) (scripts : Nat → List Step),
    (∀ c, c < n → streamScript (scripts c) = true) →
    ∃ k, k ≤ 2 * Exec.stepsLeft n (FEng.init .merge m n scripts) + 2 ∧
      Mon.lastOut (Exec.runFor Fc.merge n k (FEng.init .merge m n scripts)).w.trace = some .none

/-- input 0 ends at once; each of input 1's seven `Pending` steps invokes input 0's stale waker -/
def C01live3_slow : Nat → List Step := fun c =>
  if c = 0 then [⟨.fin, []⟩]
  else if c = 1 then
    [⟨.pend, [(0, 0)]⟩, ⟨.pend, [(0, 0)]⟩, ⟨.pend, [(0, 0)]⟩, ⟨.pend, [(0, 0)]⟩, ⟨.pend, [(0, 0)]⟩,
     ⟨.pend, [(0, 0)]⟩, ⟨.pend, [(0, 0)]⟩, ⟨.fin, []⟩]
  else []

set_option maxRecDepth 100000 in
/-- 9 scripted steps, but after `2 * 9 + 2 = 20` rounds the merge (std mode) has not ended; it ends
    in round 22 -/
theorem C01_merge_ends_bound2_false : ¬ C01_merge_ends_bound2_statement := by
  intro h
  obtain ⟨k, hk, hv⟩ := h .std 2 C01live3_slow (by decide)
  have hS : Exec.stepsLeft 2 (FEng.init .merge .std 2 C01live3_slow) = 9 := by decide
  rw [hS] at hk
  have hall : ∀ k, k ≤ 20 → Exec.finalOut (Mon.lastOut
      (Exec.runFor Fc.merge 2 k (FEng.init .merge .std 2 C01live3_slow)).w.trace) = false := by
    decide
  have := hall k (by omega)
  rw [hv] at this
  exact Bool.noConfusion this

set_option maxRecDepth 100000 in
example : Mon.lastOut (Exec.runFor Fc.merge 2 22 (FEng.init .merge .std 2 C01live3_slow)).w.trace
    = some .none := by decide

/-- the statement with the bound `3 * stepsLeft` -/
def C01_merge_ends_bound0_statement : Prop :=
  ∀ (m : Mode) (n : Nat) (scripts : Nat → List Step),
    (∀ c, c < n → streamScript (scripts c) = true) →
    ∃ k, k ≤ 3 * Exec.stepsLeft n (FEng.init .merge m n scripts) ∧
      Mon.lastOut (Exec.runFor Fc.merge n k (FEng.init .merge m n scripts)).w.trace = some .none

/-- zero inputs: no steps, but it takes one round (the first poll) to see the `None` -/
theorem C01_merge_ends_bound0_false : ¬ C01_merge_ends_bound0_statement := by
  intro h
  obtain ⟨k, hk, hv⟩ := h .std 0 (fun _ => []) (by decide)
  have hS : Exec.stepsLeft 0 (FEng.init .merge .std 0 (fun _ => [])) = 0 := by decide
  rw [hS] at hk
  have hk0 : k = 0 := by omega
  subst hk0
  revert hv
  decide

/-! ### non-vacuity -/

/-- merge of 3 inputs of different lengths with `Pending` steps (two of them with in-poll wake-ups):
    input 0: item 1, Pending, item 2, end; input 1: Pending (waking itself in the poll), end;
    input 2: Pending (waking input 0's waker), items 5, 6, Pending, item 7, end -/
def C01live3_merge : Nat → List Step := fun c =>
  if c = 0 then [⟨.item 1, []⟩, ⟨.pend, []⟩, ⟨.item 2, []⟩, ⟨.fin, []⟩]
  else if c = 1 then [⟨.pend, [(1, 0)]⟩, ⟨.fin, []⟩]
  else if c = 2 then
    [⟨.pend, [(0, 0)]⟩, ⟨.item 5, []⟩, ⟨.item 6, []⟩, ⟨.pend, []⟩, ⟨.item 7, []⟩, ⟨.fin, []⟩]
  else []

example : ∀ c, c < 3 → streamScript (C01live3_merge c) = true := by decide
example : Exec.stepsLeft 3 (FEng.init .merge .std 3 C01live3_merge) = 12 := by decide

set_option maxRecDepth 100000 in
/-- std mode: the run ends with `pollEnd none` (after 13 rounds: 10 polls, 3 prods) … -/
example : (Exec.runFor Fc.merge 3 40 (FEng.init .merge .std 3 C01live3_merge)).w.trace.head?
    = some (.pollEnd .none) := by decide
set_option maxRecDepth 100000 in
example : Exec.pollCount (Exec.runFor Fc.merge 3 40 (FEng.init .merge .std 3 C01live3_merge)).w.trace
    = 10 := by decide
set_option maxRecDepth 100000 in
/-- … having yielded every item of every input (newest first) -/
example : Mon.yielded (Exec.runFor Fc.merge 3 40 (FEng.init .merge .std 3 C01live3_merge)).w.trace
    = [7, 6, 5, 2, 1] := by decide
set_option maxRecDepth 100000 in
/-- … and not earlier than round 13 -/
example : ∀ k, k ≤ 12 → Exec.finalOut (Mon.lastOut
    (Exec.runFor Fc.merge 3 k (FEng.init .merge .std 3 C01live3_merge)).w.trace) = false := by decide
set_option maxRecDepth 100000 in
/-- direct mode: another interleaving, the same items -/
example : (Exec.runFor Fc.merge 3 40 (FEng.init .merge .direct 3 C01live3_merge)).w.trace.head?
      = some (.pollEnd .none) ∧
    Mon.yielded (Exec.runFor Fc.merge 3 40 (FEng.init .merge .direct 3 C01live3_merge)).w.trace
      = [7, 6, 2, 5, 1] := by decide
set_option maxRecDepth 100000 in
/-- the functional monitor accepts the run -/
example : Mon.holds_C08 3 (Exec.runFor Fc.merge 3 40 (FEng.init .merge .std 3 C01live3_merge)).w.trace
    = true := by decide

/-- a chain with an empty middle input -/
def C01live3_chain : Nat → List Step := fun c =>
  if c = 0 then [⟨.item 1, []⟩, ⟨.pend, []⟩, ⟨.item 2, []⟩, ⟨.fin, []⟩]
  else if c = 1 then [⟨.fin, []⟩]
  else if c = 2 then [⟨.pend, []⟩, ⟨.item 5, []⟩, ⟨.fin, []⟩] else []

example : ∀ c, c < 3 → streamScript (C01live3_chain c) = true := by decide
set_option maxRecDepth 100000 in
/-- ends with `pollEnd none`, having yielded the concatenation (newest first); 8 steps, 8 rounds -/
example : (Exec.runFor Fc.chain 3 40 (FEng.init .chain .std 3 C01live3_chain)).w.trace.head?
      = some (.pollEnd .none) ∧
    Mon.yielded (Exec.runFor Fc.chain 3 40 (FEng.init .chain .std 3 C01live3_chain)).w.trace
      = [5, 2, 1] := by decide
set_option maxRecDepth 100000 in
example : ∀ k, k ≤ 7 → Exec.finalOut (Mon.lastOut
    (Exec.runFor Fc.chain 3 k (FEng.init .chain .std 3 C01live3_chain)).w.trace) = false := by decide

/-- a zip of 2: input 1 ends after one item (and a `Pending`), while input 0's second item is
    buffered -/
def C01live3_zip : Nat → List Step := fun c =>
  if c = 0 then [⟨.item 1, []⟩, ⟨.item 2, []⟩, ⟨.item 3, []⟩, ⟨.fin, []⟩]
  else if c = 1 then [⟨.item 10, []⟩, ⟨.pend, []⟩, ⟨.fin, []⟩] else []

example : ∀ c, c < 2 → streamScript (C01live3_zip c) = true := by decide
set_option maxRecDepth 100000 in
/-- one row, then `None` (round 4: poll, poll, prod, poll) while item 2 of input 0 sits in its slot
    and input 0 still has 2 steps left -/
example : (Exec.runFor Fc.zip 2 40 (FEng.init .zip .std 2 C01live3_zip)).w.trace.head?
      = some (.pollEnd .none) ∧
    Mon.yielded (Exec.runFor Fc.zip 2 40 (FEng.init .zip .std 2 C01live3_zip)).w.trace = [10, 1] ∧
    (Exec.runFor Fc.zip 2 40 (FEng.init .zip .std 2 C01live3_zip)).s.out 0 = some 2 ∧
    Exec.stepsLeft 2 (Exec.runFor Fc.zip 2 40 (FEng.init .zip .std 2 C01live3_zip)) = 2 := by decide
set_option maxRecDepth 100000 in
example : ∀ k, k ≤ 3 → Exec.finalOut (Mon.lastOut
    (Exec.runFor Fc.zip 2 k (FEng.init .zip .std 2 C01live3_zip)).w.trace) = false := by decide

/-- the hypothesis is needed: an input that stays Pending for ever (its script is not a
    `streamScript`) leaves the executor with nothing to do while the merge is pending -/
def C01live3_stuck : Nat → List Step := fun c =>
  if c = 0 then [⟨.pend, []⟩] else if c = 1 then [⟨.fin, []⟩] else []

example : streamScript (C01live3_stuck 0) = false := by decide
set_option maxRecDepth 100000 in
example : Mon.lastOut (Exec.runFor Fc.merge 2 30 (FEng.init .merge .std 2 C01live3_stuck)).w.trace
      = some .pending ∧
    (Exec.round Fc.merge 2
      (Exec.runFor Fc.merge 2 30 (FEng.init .merge .std 2 C01live3_stuck))).isNone = true := by
  decide

set_option maxRecDepth 100000 in
/-- `0 < n` is needed for zip: a zip of nothing is pending for ever and nobody can wake it -/
example : Mon.lastOut (Exec.runFor Fc.zip 0 30 (FEng.init .zip .std 0 C01live3_stuck)).w.trace
      = some .pending ∧
    (Exec.round Fc.zip 0
      (Exec.runFor Fc.zip 0 30 (FEng.init .zip .std 0 C01live3_stuck))).isNone = true := by
  decide

end Fc

#print axioms Fc.C01_merge_ends
#print axioms Fc.C01_chain_ends
#print axioms Fc.C01_zip_ends
#print axioms Fc.C01_merge_ends_tight
#print axioms Fc.C01_chain_ends_tight
#print axioms Fc.C01_zip_ends_tight
#print axioms Fc.C01_merge_ends_bound2_false
#print axioms Fc.C01_merge_ends_bound0_false
