/-
  Kernel tie, the TUPLE container of `merge` — `(A, B, …).merge()` and `StreamExt::merge` (src/stream/merge/tuple.rs,
  `impl_merge_tuple!`, the structs `Merge1 … Merge12`).  The source of this unit is rustc's macro expansion of the CURRENT
  tuple.rs, normalised by tools/tuple_norm.py over a const generic `N` after checking that the twelve arities agree (the
  `poll_stream!` dispatch `let stream_index = <mod>::Indexes::F as usize; if stream_index == index { … }` folded into one
  indexed body; `#[repr(usize)] enum Indexes` lists the children in order; `completed: u8` read as a number;
  `Indexer::new(0 + 1 + … + 1)` = `Indexer::new(N)`) → tools/rs2lean.py → FcGen/KSrcTup3.lean, namespace `MergeT`.  The
  translated `Merge::poll_next` refines one `Eng.poll merge` of the model for every `0 < N`.  (Arity 0, `Merge0`, is a
  separate struct that ends at once and is not part of this unit; the tuple merge has no `N == 0` guard and no `done`
  flag.)  Proofs: FcProps/KTieMergeT.lean.
-/
import FcGen.KSrcTup3
import FcProps.KTieCore
import FcProps.KTieStd
import FcProps.KTiePS
import FcProps.KTieIdx
import Fc.Families

namespace Fc
open Rs Src

namespace TieMergeT
open MergeT

def absM (g : Merge) (b : Eng Fix) : Eng Fix :=
  { w := TieArr.abs g.roleWakers.readiness b.w,
    s := { b.s with n := g.roleKids.len, st := fun i => TiePS.abs (g.roleStates.get i), cnt := g.roleCount,
                    off := g.roleIndexer.roleOffset } }

structure WfM (N : Nat) (g : Merge) : Prop where
  kn : g.roleKids.len = N
  rd : TieArr.Wf N g.roleWakers.readiness
  sl : g.roleStates.len = N
  mx : g.roleIndexer.roleMax = N
  /-- `completed` counts the inputs that have ended, and not all have -/
  cn : g.roleCount < N

def poll_tie_statement : Prop :=
  ∀ (N : Nat) (g : Merge) (b : Eng Fix) (w : Nat),
    WfM N g → StreamStepsF b.w → (∀ c i, Wk.sub i ∈ b.w.handed c → i < N) → b.s.dead = false →
    ∃ g' env' ret,
      Merge.poll_next N g w ((absM g b).w.emit (.pollBegin w)) = some (g', env', ret) ∧
      (ret ≠ .ready none → WfM N g') ∧
      fcore (absM g' b) = fcore (Eng.poll merge (absM g b) w) ∧
      env'.scripts = (Eng.poll merge (absM g b) w).w.scripts ∧
      env'.handed = (Eng.poll merge (absM g b) w).w.handed ∧
      (Eng.poll merge (absM g b) w).w.trace = .pollEnd (outcomeOfStream ret) :: env'.trace

end TieMergeT
end Fc
