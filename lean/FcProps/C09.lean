/-
  C09 — zip yields row k = (k-th item of every input, each at its input's position), and ends in
  the poll in which any input is found to have ended.

  Monitor `Mon.holds_C09 n` (Fc/MonFun.lean).  Observations of a trace prefix `t` (newest first):
  `itemsOf t c` = the items input `c` produced so far (from its `childEnd c (.item v)`),
  `rows t` = number of `pollEnd (.some ..)` so far, `anyFin t` = some input answered `None`,
  `rowFull n t` = every input `c < n` has produced exactly `rows t + 1` items.
    * at every `childBegin c` (an input is polled): no input has ended, and input `c` has produced
      exactly `rows t` items — its item for the current row is still missing (so an input is never
      polled twice for one row, never more than one item ahead, never after an end was seen);
    * `pollEnd (Some vals)` ⇒ no input has ended, `rowFull`, and `vals[c]` = the newest item of
      input `c`, for every `c < n` (hence the k-th row is the k-th item of every input);
    * `pollEnd Pending`     ⇒ no input has ended and some input has not delivered;
    * `pollEnd None`        ⇒ some input answered `None` in this very poll;
    * `panicked` only by a child's panic (C01); `misuse` only after `None`, an unwind or the drop.

  `C09_zip`   : every trace of the zip model (n ≥ 1 inputs) satisfies the monitor.  The hypothesis
                `c.kindOk` of the task statement turned out to be unnecessary and was dropped
                (a zip input answering `Ready` — impossible in Rust — is simply ignored by the model).
  `C09_rows`  : the global reading, from the monitor alone: on every trace the monitor accepts and
                whose child polls are properly bracketed (`C09.bracketed`: every `childEnd c` closes
                a `childBegin c`, child polls do not nest — the monitor itself does not look at
                that), at EVERY prefix (inside a poll or not) every input `c < n` has produced at
                least `rows` and at most `rows + 1` items: zip yields exactly as many rows as the
                shortest input delivered, and takes at most one further item from any other input.
                Without `bracketed` the statement is false (first `example` below the theorem).
  `C09_zip_rows` : the same for every model trace (model traces are bracketed).
  That the unmatched items are dropped, not yielded, is the ownership property C02; that they are
  never yielded is the `Some` clause above (a yielded value is the newest item of a full row).
-/
import FcLemmas.C09
import Fc.Holds

namespace Fc
open Mon

/-- C09 for zip over any number n ≥ 1 of inputs, all child scripts (of any kind), all histories
    (polls with any waker, wake-ups at any time, drop at any point, an injected child panic), both
    waker strategies. -/
theorem C09_zip (c : Case) (hf : c.fam = .zip) (hn : 0 < c.n) :
    holds_C09 c.n c.trace = true := by
  unfold Case.trace
  simp only [hf, Fam.isGroup, Bool.false_eq_true, if_false, Case.finalFix, Fam.policy]
  exact (Sim.runFix (C09.sim_zip c.n (Fam.zip.modeOf c.mode)) c.ops _ rfl (Sim.scriptsOk_any _)
    (by simpa [FEng.init, Fam.initCnt, World.init] using C09.inv_init c.n hn)).mon

/-- model traces are bracketed, and no child poll is open between operations -/
theorem C09_zip_bracketed (c : Case) (hf : c.fam = .zip) (hn : 0 < c.n) :
    C09.bracketed c.trace = true := by
  unfold Case.trace
  simp only [hf, Fam.isGroup, Bool.false_eq_true, if_false, Case.finalFix, Fam.policy]
  exact (Sim.runFix (C09.sim_zip c.n (Fam.zip.modeOf c.mode)) c.ops _ rfl (Sim.scriptsOk_any _)
    (by simpa [FEng.init, Fam.initCnt, World.init] using C09.inv_init c.n hn)).br

/-- the global reading of the monitor: no input is ever behind the rows yielded, nor more than one
    item ahead -/
theorem C09_rows (n : Nat) (t : List Ev) (h : holds_C09 n t = true) (hb : C09.bracketed t = true)
    (c : Nat) (hc : c < n) :
    rows t ≤ (itemsOf t c).length ∧ (itemsOf t c).length ≤ rows t + 1 :=
  ⟨(C09.rows_bound n t h hb c hc).1, (C09.rows_bound n t h hb c hc).2.1⟩

/-- `bracketed` is needed: the monitor does not look at child answers outside a child poll -/
example : holds_C09 1 [.childEnd 0 (.item 2), .childEnd 0 (.item 1)] = true ∧
    (itemsOf [.childEnd 0 (.item 2), .childEnd 0 (.item 1)] 0).length = 2 ∧
    rows [.childEnd 0 (.item 2), .childEnd 0 (.item 1)] = 0 := by decide

theorem C09_zip_rows (c : Case) (hf : c.fam = .zip) (hn : 0 < c.n) (i : Nat) (hi : i < c.n) :
    rows c.trace ≤ (itemsOf c.trace i).length ∧ (itemsOf c.trace i).length ≤ rows c.trace + 1 :=
  C09_rows c.n c.trace (C09_zip c hf hn) (C09_zip_bracketed c hf hn) i hi

/-- non-vacuity: three inputs with 2, 3 and 1 items.  Poll 1: input 2 delivers (30), the others
    are pending; poll 2 (after input 0's wake-up): input 0 delivers (10); poll 3 (after input 1's
    wake-up): input 1 delivers (20) and the row goes out; poll 4: inputs 0 and 1 deliver 11 and
    21, input 2 has ended ⇒ `None`; the drop releases the two unmatched items. -/
def C09_example : Case :=
  { fam := .zip, mode := .std, keyed := false, n := 3,
    scripts := fun c => if c = 0 then [⟨.pend, []⟩, ⟨.item 10, []⟩, ⟨.item 11, []⟩, ⟨.fin, []⟩]
                        else if c = 1 then [⟨.pend, []⟩, ⟨.item 20, []⟩, ⟨.item 21, []⟩,
                                            ⟨.item 22, []⟩, ⟨.fin, []⟩]
                        else if c = 2 then [⟨.item 30, []⟩, ⟨.fin, []⟩] else [],
    ops := [.poll 1, .fire 0 0, .poll 2, .fire 1 0, .poll 3, .poll 4, .drop] }

example : C09_example.run.filter (fun e => match e with | .pollEnd _ => true | _ => false)
    = [.pollEnd .pending, .pollEnd .pending, .pollEnd (.some 0 [10, 20, 30]), .pollEnd .none] := by
  decide
/-- the items arrived in the order 30, 10, 20 (then 11, 21) -/
example : (childResults C09_example.trace).reverse.filterMap
      (fun p => match p.2 with | .item v => some v | _ => none) = [30, 10, 20, 11, 21] := by decide
example : rows C09_example.trace = 1 ∧ (itemsOf C09_example.trace 0).length = 2 ∧
    (itemsOf C09_example.trace 1).length = 2 ∧ (itemsOf C09_example.trace 2).length = 1 := by decide
/-- the unmatched items 11 and 21 are dropped with the zip, input 1's third item is never taken -/
example : C09_example.run.contains (.valDropped 11) = true ∧
    C09_example.run.contains (.valDropped 21) = true ∧
    C09_example.run.contains (.childEnd 1 (.item 22)) = false := by decide
example : holds_C09 3 C09_example.trace = true := by decide
example : C09.bracketed C09_example.trace = true := by decide

/-- the monitor accepts a correct row … -/
example : holds_C09 2 [.pollEnd (.some 0 [5, 6]), .childEnd 1 (.item 6), .childBegin 1 1 (.sub 1),
    .childEnd 0 (.item 5), .childBegin 0 0 (.sub 0), .pollBegin 1] = true := by decide
/-- … and rejects: a row with swapped positions -/
example : holds_C09 2 [.pollEnd (.some 0 [6, 5]), .childEnd 1 (.item 6), .childBegin 1 1 (.sub 1),
    .childEnd 0 (.item 5), .childBegin 0 0 (.sub 0), .pollBegin 1] = false := by decide
/-- a row yielded while an input has not delivered -/
example : holds_C09 2 [.pollEnd (.some 0 [5, 0]), .childEnd 0 (.item 5), .childBegin 0 0 (.sub 0),
    .pollBegin 1] = false := by decide
/-- an input polled twice for one row -/
example : holds_C09 2 [.childBegin 0 0 (.sub 0), .childEnd 0 (.item 5), .childBegin 0 0 (.sub 0),
    .pollBegin 1] = false := by decide
/-- `Pending` returned although an input ended -/
example : holds_C09 2 [.pollEnd .pending, .childEnd 0 .fin, .childBegin 0 0 (.sub 0),
    .pollBegin 1] = false := by decide
/-- `None` returned although no input ended in this poll -/
example : holds_C09 2 [.pollEnd .none, .childEnd 0 .pend, .childBegin 0 0 (.sub 0),
    .pollBegin 1] = false := by decide
/-- an input polled after another one ended -/
example : holds_C09 2 [.childBegin 1 1 (.sub 1), .childEnd 0 .fin, .childBegin 0 0 (.sub 0),
    .pollBegin 1] = false := by decide

end Fc

#print axioms Fc.C09_zip
#print axioms Fc.C09_rows
#print axioms Fc.C09_zip_bracketed
#print axioms Fc.C09_zip_rows
