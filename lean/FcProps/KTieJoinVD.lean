/-
  Kernel tie, fixed families, no_std / alloc-only flavour — `Vec<Fut>::join()`: the translated `Join::poll` and the
  `PinnedDrop` destructor `Join::drop` of FcGen/KSrcFam2D.lean (the family source src/future/join/vec.rs compiled against
  src/utils/wakers/vec/no_std.rs) refine `Eng.poll joinSlice` and `Eng.drop joinSlice` of the model in `direct` mode.
  Statements: FcProps/KTieJoinDir.lean (`TieJoinVD.poll_tie_statement`, `TieJoinVD.drop_tie_statement`, unchanged);
  proofs: FcLemmas/KTieJoinVD{Defs,Poll,Drop}.lean.

  `poll_tie`: from a well-formed `Join` (`WfJ`: sizes agree, `pending` counts the `Pending` states, every `Ready` slot
  holds an output) that has not completed and an environment whose scripted children answer like futures (`FutStepsF`),
  one call of the translated `poll` with task waker `w` does not panic (no out-of-bounds index, no underflow of
  `pending`, `WakerVec::get(i).unwrap()` finds the parent waker that `set_waker` has just stored, the `debug_assert`s of
  the completion path hold, no unwritten output slot is read), returns the `Poll` value of the model's outcome and leaves
  a combinator + environment whose reading (`absJ`) is the model state after `Eng.poll joinSlice · w`: same mode / parent
  waker, the (unused) readiness fields of the caller's world untouched, states, `pending` counter (`fcore`), output
  slots and `consumed` flag (`jcore`), same remaining scripts, same handed-out wakers (every child still `Pending` was
  polled, with the caller's own waker `Wk.par w`), same trace (the model's closing `pollEnd` is logged by the caller);
  `WfJ` is kept while the join is pending.  For the completing poll the clause is `TieJoinV.doneAgree`, as in the std
  flavour (FcProps/KTieJoinV.lean explains why; the last example below shows the same difference here).

  The hypothesis about handed-out sub-wakers of the statement is not used (this flavour has no sub-wakers: `Rs.fireWk` on
  a `.sub` waker with the wake function of this flavour changes nothing, like `World.fireWk` in `direct` mode); it is
  kept, and `poll_tie_strong` hands it back for the next call.

  `drop_tie`: dropping a well-formed join releases the outputs of the `Ready` slots, then the children still
  `Pending`, in the order of the model's `Fix.dropStates`; scripts and handed-out wakers are untouched.
-/
import FcProps.KTieJoinDir
import FcLemmas.KTieJoinVDPoll
import FcLemmas.KTieJoinVDDrop

namespace Fc
open Rs Src

namespace TieJoinVD
open JoinVD

theorem poll_tie : poll_tie_statement := poll_tie_mainJ

theorem drop_tie : drop_tie_statement := drop_tie_mainJ

/-- the same refinement, and in addition what the NEXT call (a poll, or the drop) needs again: the children are the
    same, every sub-waker handed out so far belongs to a slot (none is handed out by this flavour), the remaining scripts
    still answer like futures, and the join is consumed exactly when it returned `Ready` -/
theorem poll_tie_strong (g : Join) (b : Eng Fix) (w : Nat) (hW : WfJ g) (hS : FutStepsF b.w)
    (hH : ∀ c i, Wk.sub i ∈ b.w.handed c → i < g.roleKids.len) (hd : g.roleDone = false) :
    ∃ g' env' ret,
      Join.poll g w ((absJ g b).w.emit (.pollBegin w)) = some (g', env', ret) ∧
      (ret = .pending → WfJ g') ∧
      (ret = .pending → jcore (absJ g' b) = jcore (Eng.poll joinSlice (absJ g b) w)) ∧
      (ret ≠ .pending → TieJoinV.doneAgree (absJ g' b) (Eng.poll joinSlice (absJ g b) w)) ∧
      (env'.scripts = (Eng.poll joinSlice (absJ g b) w).w.scripts ∧
       env'.handed = (Eng.poll joinSlice (absJ g b) w).w.handed ∧
       (Eng.poll joinSlice (absJ g b) w).w.trace = .pollEnd (outcomeOfJoin ret) :: env'.trace) ∧
      g'.roleKids.len = g.roleKids.len ∧ (∀ c i, Wk.sub i ∈ env'.handed c → i < g.roleKids.len) ∧ FutStepsF env' ∧
      (g'.roleDone = false ↔ ret = .pending) :=
  poll_tie_strongJ g b w hW hS hH hd

/-- `Join::new` builds a well-formed join that has not completed (the hypotheses of `poll_tie` / `drop_tie` hold
    initially, for every number of children) -/
theorem new_wf (n : Nat) : ∃ g, Join.new ⟨n⟩ = some g ∧ WfJ g ∧ g.roleDone = false ∧ g.roleKids.len = n := by
  have hn : (DirVec.ReadinessVec.new).isSome = true := rfl
  obtain ⟨r, hr⟩ := Option.isSome_iff_exists.mp hn
  have h : ∃ g, Join.new ⟨n⟩ = some g ∧ g.roleDone = false ∧ g.roleCount = n ∧ g.roleItems = Rs.OutVec.uninit n ∧
      g.roleStates = Rs.PVec.replicate n PS.PollState.pending ∧ g.roleKids = ⟨n⟩ := by
    simp only [Join.new, WakerVecD.new, hr, Option.bind_eq_bind, Option.bind_some, Option.pure_def]
    exact ⟨_, rfl, rfl, rfl, rfl, rfl, rfl⟩
  obtain ⟨g, h0, h1, h2, h3, h5, h6⟩ := h
  refine ⟨g, h0, ⟨?_, ?_, ?_, ?_⟩, h1, by rw [h6]⟩
  · rw [h5, h6]; rfl
  · rw [h3, h6]; rfl
  · have : (List.range n).filter (fun i => decide ((Rs.PVec.replicate n PS.PollState.pending).get i
        = PS.PollState.pending)) = List.range n := by
      apply List.filter_eq_self.mpr
      intro a _
      simp [Rs.PVec.replicate]
    rw [h2, h5, h6, this, List.length_range]
  · intro i _
    rw [h5]
    exact Or.inl rfl

end TieJoinVD

/-! ## non-vacuity: a concrete instance of the hypotheses, and the conclusions checked by evaluation -/
namespace TieJoinVDEx
open JoinVD TieJoinVD

/-- three futures; the first poll finds child 0 pending (it invokes the waker it was handed — the caller's — during the
    poll), children 1 and 2 resolve -/
def sc : Nat → List Step := fun c =>
  if c = 0 then [⟨.pend, [(0, 0)]⟩, ⟨.ready true 7, []⟩]
  else if c = 1 then [⟨.ready true 8, []⟩]
  else if c = 2 then [⟨.ready true 9, []⟩] else []

def b0 : Eng Fix := { w := World.init .direct 3 sc, s := Fix.init 3 3 }

example : FutStepsF b0.w := by
  intro c st h
  simp only [b0, World.init, sc] at h
  split at h
  · simp at h; rcases h with rfl | rfl <;> simp
  · split at h
    · simp at h; subst h; simp
    · split at h
      · simp at h; subst h; simp
      · simp at h

example : ∀ c i, Wk.sub i ∈ b0.w.handed c → i < 3 := by
  intro c i h; simp [b0, World.init] at h

/-- first poll of `Join::new(3 futures)`, checked by evaluation: the translated function does not panic, returns
    `Pending` like the model, and trace (child 0 woke the caller's waker 1), `pending` counter, mode and parent waker,
    the states / output slots of the three children, the remaining scripts and the handed-out wakers (all `Wk.par 1`)
    agree -/
example :
    (do let g ← Join.new ⟨3⟩
        let (g', env', ret) ← Join.poll g 1 ((absJ g b0).w.emit (.pollBegin 1))
        let m := Eng.poll joinSlice (absJ g b0) 1
        let a := absJ g' b0
        pure (decide (m.w.trace = .pollEnd (outcomeOfJoin ret) :: env'.trace) &&
              decide (outcomeOfJoin ret = .pending) &&
              decide (a.s.n = m.s.n ∧ a.s.cnt = m.s.cnt ∧ m.s.cnt = 1 ∧ a.s.dead = m.s.dead) &&
              decide (a.w.mode = m.w.mode ∧ m.w.mode = .direct ∧ a.w.count = m.w.count ∧ a.w.cap = m.w.cap ∧
                a.w.parent = m.w.parent ∧ m.w.parent = some 1) &&
              (List.range 3).all (fun i => a.w.bits i == m.w.bits i && decide (a.s.st i = m.s.st i) &&
                decide (a.s.out i = m.s.out i) && decide (env'.handed i = m.w.handed i) &&
                decide (env'.handed i = [Wk.par 1]) &&
                decide ((env'.scripts i).map (·.res) = (m.w.scripts i).map (·.res))) &&
              decide (env'.trace.take 3 = [.childDropped 2, .childEnd 2 (.ready true 9), .childBegin 2 2 (.par 1)]) &&
              decide (env'.trace.contains (.woke 1)) &&
              decide (env'.trace.length = 11)))
      = some true := by decide

/-- second poll (child 0 resolves; children 1 and 2 are not polled again): the join completes with `[7, 8, 9]`, like
    the model; both sides are consumed -/
example :
    (do let g ← Join.new ⟨3⟩
        let (g1, env1, _) ← Join.poll g 1 ((absJ g b0).w.emit (.pollBegin 1))
        let b1 : Eng Fix := { w := env1.emit (.pollEnd .pending), s := b0.s }
        let (g2, env2, ret) ← Join.poll g1 2 ((absJ g1 b1).w.emit (.pollBegin 2))
        let m := Eng.poll joinSlice (absJ g1 b1) 2
        let a := absJ g2 b1
        pure (decide (m.w.trace = .pollEnd (outcomeOfJoin ret) :: env2.trace) &&
              decide (outcomeOfJoin ret = .ready true [7, 8, 9]) &&
              decide (a.s.n = m.s.n ∧ a.s.cnt = m.s.cnt ∧ a.s.dead = true ∧ m.s.dead = true) &&
              decide (a.w.count = m.w.count ∧ a.w.parent = m.w.parent ∧ m.w.parent = some 2) &&
              decide (env2.trace.take 4 = [.childDropped 0, .childEnd 0 (.ready true 7), .childBegin 0 0 (.par 2),
                .pollBegin 2]) &&
              (List.range 3).all (fun i => a.w.bits i == m.w.bits i && decide (a.s.st i = m.s.st i) &&
                decide (env2.handed i = m.w.handed i) && decide (a.s.out i = none))))
      = some true := by decide

/-- the join dropped after the first poll: the output values 8 and 9 are released, then child 0 -/
example :
    (do let g ← Join.new ⟨3⟩
        let (g1, env1, _) ← Join.poll g 1 ((absJ g b0).w.emit (.pollBegin 1))
        let b1 : Eng Fix := { w := env1.emit (.pollEnd .pending), s := b0.s }
        let (_, env2, _) ← Join.drop g1 ((absJ g1 b1).w.emit .dropBegin)
        pure (decide ((Eng.drop joinSlice (absJ g1 b1)).w.trace = .dropEnd :: env2.trace) &&
              decide (env2.trace.take 4 = [.childDropped 0, .valDropped 9, .valDropped 8, .dropBegin])))
      = some true := by decide

/-- the hypotheses of `poll_tie` hold of the join of the examples (`new_wf`), so the first example is an instance of
    the theorem -/
example : ∃ g, Join.new ⟨3⟩ = some g ∧ WfJ g ∧ g.roleDone = false ∧ g.roleKids.len = 3 := new_wf 3

/-- as in the std flavour the `jcore` clause holds for `ret = Pending` only: one child that resolves with 7 — after the
    completing poll the crate's slot 0 is empty (`OutputVec::take`) where the model's `out 0` still holds 7, and the
    crate's state of the non-existent slot 5 is what `PollVec::new` put there where the model's table is reset -/
def scC : Nat → List Step := fun c => if c = 0 then [⟨.ready true 7, []⟩] else []
def bC : Eng Fix := { w := World.init .direct 1 scC, s := Fix.init 1 1 }

example :
    (do let g ← Join.new ⟨1⟩
        let (g', _, _) ← Join.poll g 1 ((absJ g bC).w.emit (.pollBegin 1))
        let m := Eng.poll joinSlice (absJ g bC) 1
        let a := absJ g' bC
        pure (decide (a.s.out 0 = none ∧ m.s.out 0 = some 7 ∧ a.s.st 5 = .pending ∧ m.s.st 5 = .none)))
      = some true := by decide

end TieJoinVDEx

#print axioms TieJoinVD.poll_tie
#print axioms TieJoinVD.drop_tie
#print axioms TieJoinVD.poll_tie_strong
#print axioms TieJoinVD.new_wf

end Fc
