/-
  Kernel tie, fixed families — `(A, B, …).join()` / `FutureExt::join` (the TUPLE container): the translated `Join::poll`
  and the `PinnedDrop` destructor `Join::drop` (FcGen/KSrcTup1.lean, generated from rustc's expansion of
  `impl_join_tuple!` in src/future/join/tuple.rs after the normalisation of tools/tuple_norm.py, namespace `JoinT`) refine
  `Eng.poll joinTuple` and `Eng.drop joinTuple` of the model, for every arity `0 < N`.  Statements:
  FcProps/KTieJoinTup.lean (`TieJoinT.poll_tie_statement`, `TieJoinT.drop_tie_statement`, proved here UNCHANGED); proofs:
  FcLemmas/KTieJoinT{Env,Defs,Poll,Drop}.lean.  The environment lemmas are the array ones (the readiness set of a tuple is
  `ReadinessArray<N>`); the list facts, the facts about scripted futures, `OutputArray::take` and the `forBreak` rules are
  imported from the Vec proof (FcLemmas/KTieJoinDefs.lean), the loop rule for a `for` loop that can `return`
  (`TieLoop.forCtl_scan`) from FcLemmas/KTieLoopCore.lean — it is the rule the merge ties use.

  What differs from the array / Vec join, and is therefore proved here and not ported: `any_ready` is tested at the top of
  EVERY iteration (`loopAny`), so the poll can answer `Pending` from inside the loop; the flag of a slot is cleared BEFORE
  its state is looked at (`clearFirst`; the stale flag of a finished child is cleared too); there is no `consumed` flag —
  the join has completed exactly when `completed == N` (`absJ` reads `dead` off the counter); and the poll of the LAST
  outstanding child moves the outputs out and returns them from inside the loop (the model's `handle` exits), the code after
  the loop only ever answers `Pending`.

  `poll_tie`: from a well-formed `Join` (`WfJ N`: `0 < N` children, the sizes of the state table / output slots /
  readiness set are `N`, `completed` counts the `Ready` states, every `Ready` slot holds an output) that has not completed
  (`completed < N`), an environment whose scripted children answer like futures (`FutStepsF`) and whose handed-out
  sub-wakers all belong to a slot `< N`, one call of the translated `poll` with task waker `w` does not panic (the
  `assert!(!all_completed)` holds, no out-of-bounds index, `WakerArray::get` finds the sub-waker, no unwritten output slot
  is read by the completing `take`), returns the `Poll` value of the model's outcome and leaves a combinator + environment
  whose reading (`absJ`) is the model state after `Eng.poll joinTuple · w`: same readiness bits / count / parent waker /
  capacity, states, `completed` counter (`fcore`), output slots and completion (`jcore`), same remaining scripts, same
  handed-out wakers, same trace (the model's closing `pollEnd` is logged by the caller); `WfJ N` and `completed < N` are
  kept while the join is pending.  As for the other containers the `jcore` clause is stated for `ret = Pending`; for the
  completing poll the clause `TieJoinV.doneAgree` (FcProps/KTieCore.lean) says what agrees (the counterexample to the
  unconditional clause is repeated for the tuple at the end of this file).

  `drop_tie`: dropping a well-formed join releases the outputs of the `Ready` slots, then the children still `Pending`, in
  the order of the model's `Fix.dropStates`; scripts and handed-out wakers are untouched.
-/
import FcProps.KTieJoinTup
import FcLemmas.KTieJoinTPoll
import FcLemmas.KTieJoinTDrop

namespace Fc
open Rs Src

namespace TieJoinT
open JoinT

theorem poll_tie : poll_tie_statement := poll_tie_mainT

theorem drop_tie : drop_tie_statement := drop_tie_mainT

/-- the same refinement, and in addition what the NEXT call (a poll, or the drop) needs again: the children are the
    same in number, every sub-waker handed out so far (including those of this poll) belongs to a slot, the remaining
    scripts still answer like futures, and the join has completed exactly when it returned `Ready` -/
theorem poll_tie_strong (N : Nat) (g : Join) (b : Eng Fix) (w : Nat) (hW : WfJ N g) (hS : FutStepsF b.w)
    (hH : HandedIn N b.w) (hlt : g.roleCount < N) :
    ∃ g' env' ret,
      Join.poll N g w ((absJ N g b).w.emit (.pollBegin w)) = some (g', env', ret) ∧
      (ret = .pending → WfJ N g' ∧ g'.roleCount < N) ∧
      (ret = .pending → jcore (absJ N g' b) = jcore (Eng.poll joinTuple (absJ N g b) w)) ∧
      (ret ≠ .pending → TieJoinV.doneAgree (absJ N g' b) (Eng.poll joinTuple (absJ N g b) w)) ∧
      (env'.scripts = (Eng.poll joinTuple (absJ N g b) w).w.scripts ∧
       env'.handed = (Eng.poll joinTuple (absJ N g b) w).w.handed ∧
       (Eng.poll joinTuple (absJ N g b) w).w.trace = .pollEnd (outcomeOfJoin ret) :: env'.trace) ∧
      g'.roleKids.len = N ∧ HandedIn N env' ∧ FutStepsF env' ∧
      (g'.roleCount < N ↔ ret = .pending) :=
  poll_tie_strongT N g b w hW hS hH hlt

/-- `Join::new` on a tuple of `N ≥ 1` children builds a well-formed join that has not completed (the hypotheses of
    `poll_tie` / `drop_tie` hold initially, for every arity) -/
theorem new_wf (N : Nat) (kids : Rs.Kids) (hk : kids.len = N) (hN : 0 < N) :
    ∃ g, Join.new N kids = some g ∧ WfJ N g ∧ g.roleCount < N ∧ g.roleKids = kids := by
  obtain ⟨r, hr, hwf, _⟩ := TieArr.new_tie N (World.init .std N (fun _ => []))
  have h : ∃ g, Join.new N kids = some g ∧ g.roleCount = 0 ∧ g.roleItems = Rs.OutVec.uninit N ∧
      g.roleWakers = ⟨r⟩ ∧ g.roleStates = Rs.PVec.replicate N PS.PollState.pending ∧ g.roleKids = kids := by
    simp only [Join.new, WakerArray.new, hr, Option.bind_eq_bind, Option.bind_some, Option.pure_def]
    exact ⟨_, rfl, rfl, rfl, rfl, rfl, rfl⟩
  obtain ⟨g, h0, h2, h3, h4, h5, h6⟩ := h
  refine ⟨g, h0, ⟨hN, ?_, ?_, ?_, ?_, ?_, ?_⟩, by rw [h2]; exact hN, h6⟩
  · rw [h6]; exact hk
  · rw [h4]; exact hwf
  · rw [h5]; rfl
  · rw [h3]; rfl
  · have : (List.range N).filter (fun i => decide ((Rs.PVec.replicate N PS.PollState.pending).get i
        = PS.PollState.ready)) = [] := by
      apply List.filter_eq_nil_iff.mpr
      intro a _
      simp [Rs.PVec.replicate]
    rw [h2, h5, this, List.length_nil]
  · intro i _
    rw [h5]
    exact Or.inl rfl

end TieJoinT

/-! ## non-vacuity: a concrete instance of the hypotheses, and the conclusions checked by evaluation -/
namespace TieJoinTEx
open JoinT TieJoinT

/-- three futures; the first poll finds child 0 pending (it wakes itself during the poll), children 1 and 2 resolve
    (child 1 wakes itself before it resolves: its flag is stale at the next poll and is cleared by the skip) -/
def sc : Nat → List Step := fun c =>
  if c = 0 then [⟨.pend, [(0, 0)]⟩, ⟨.ready true 7, []⟩]
  else if c = 1 then [⟨.ready true 8, [(1, 0)]⟩]
  else if c = 2 then [⟨.ready true 9, []⟩] else []

def b0 : Eng Fix := { w := World.init .std 3 sc, s := Fix.init 3 3 }

example : FutStepsF b0.w := by
  intro c st h
  simp only [b0, World.init, sc] at h
  split at h
  · simp at h; rcases h with rfl | rfl <;> simp
  · split at h
    · simp at h; subst h; simp
    · split at h
      · simp at h; subst h; simp
      · simp at h

example : ∀ c i, Wk.sub i ∈ b0.w.handed c → i < 3 := by
  intro c i h; simp [b0, World.init] at h

/-- the well-formedness hypothesis holds for the join the constructor builds from a tuple of three futures -/
example : ∃ g, Join.new 3 ⟨3⟩ = some g ∧ WfJ 3 g ∧ g.roleCount < 3 ∧ g.roleKids = ⟨3⟩ :=
  new_wf 3 ⟨3⟩ rfl (by decide)

/-- first poll of `Join::new((a, b, c))`, checked by evaluation: the translated function does not panic, returns
    `Pending` like the model, and trace, `completed` counter, readiness count and parent waker, the flags / states /
    output slots of the three children, the remaining scripts and the handed-out wakers agree -/
example :
    (do let g ← Join.new 3 ⟨3⟩
        let (g', env', ret) ← Join.poll 3 g 1 ((absJ 3 g b0).w.emit (.pollBegin 1))
        let m := Eng.poll joinTuple (absJ 3 g b0) 1
        let a := absJ 3 g' b0
        pure (decide (m.w.trace = .pollEnd (outcomeOfJoin ret) :: env'.trace) &&
              decide (outcomeOfJoin ret = .pending) &&
              decide (a.s.n = m.s.n ∧ a.s.cnt = m.s.cnt ∧ m.s.cnt = 2 ∧ a.s.dead = m.s.dead) &&
              decide (a.w.count = m.w.count ∧ a.w.cap = m.w.cap ∧ a.w.parent = m.w.parent ∧ m.w.parent = some 1) &&
              (List.range 3).all (fun i => a.w.bits i == m.w.bits i && decide (a.s.st i = m.s.st i) &&
                decide (a.s.out i = m.s.out i) && decide (env'.handed i = m.w.handed i) &&
                decide ((env'.scripts i).map (·.res) = (m.w.scripts i).map (·.res)))))
      = some true := by decide

/-- second poll (the stale flag of child 1 is cleared, child 0 resolves): the join completes with `[7, 8, 9]` from
    inside the loop, like the model; both sides have completed -/
example :
    (do let g ← Join.new 3 ⟨3⟩
        let (g1, env1, _) ← Join.poll 3 g 1 ((absJ 3 g b0).w.emit (.pollBegin 1))
        let b1 : Eng Fix := { w := env1.emit (.pollEnd .pending), s := b0.s }
        let (g2, env2, ret) ← Join.poll 3 g1 2 ((absJ 3 g1 b1).w.emit (.pollBegin 2))
        let m := Eng.poll joinTuple (absJ 3 g1 b1) 2
        let a := absJ 3 g2 b1
        pure (decide (m.w.trace = .pollEnd (outcomeOfJoin ret) :: env2.trace) &&
              decide (outcomeOfJoin ret = .ready true [7, 8, 9]) &&
              decide (a.s.n = m.s.n ∧ a.s.cnt = m.s.cnt ∧ a.s.dead = true ∧ m.s.dead = true) &&
              decide (a.w.count = m.w.count ∧ a.w.parent = m.w.parent) &&
              (List.range 3).all (fun i => a.w.bits i == m.w.bits i && decide (a.s.st i = m.s.st i) &&
                decide (a.s.out i = none))))
      = some true := by decide

/-- the join dropped after the first poll: the output values 8 and 9 are released, then child 0 -/
example :
    (do let g ← Join.new 3 ⟨3⟩
        let (g1, env1, _) ← Join.poll 3 g 1 ((absJ 3 g b0).w.emit (.pollBegin 1))
        let b1 : Eng Fix := { w := env1.emit (.pollEnd .pending), s := b0.s }
        let (_, env2, _) ← Join.drop 3 g1 ((absJ 3 g1 b1).w.emit .dropBegin)
        pure (decide ((Eng.drop joinTuple (absJ 3 g1 b1)).w.trace = .dropEnd :: env2.trace) &&
              decide (env2.trace.take 4 = [.childDropped 0, .valDropped 9, .valDropped 8, .dropBegin])))
      = some true := by decide

/-- a poll that answers `Pending` from INSIDE the loop (`any_ready` at the top of an iteration): two futures, child 0
    is pending and nobody wakes it, child 1 resolves; the second poll (no flag set) returns at the first iteration -/
def scI : Nat → List Step := fun c =>
  if c = 0 then [⟨.pend, []⟩, ⟨.ready true 7, []⟩] else if c = 1 then [⟨.ready true 8, []⟩] else []
def bI : Eng Fix := { w := World.init .std 2 scI, s := Fix.init 2 2 }

example :
    (do let g ← Join.new 2 ⟨2⟩
        let (g1, env1, _) ← Join.poll 2 g 1 ((absJ 2 g bI).w.emit (.pollBegin 1))
        let b1 : Eng Fix := { w := env1.emit (.pollEnd .pending), s := bI.s }
        let (g2, env2, ret) ← Join.poll 2 g1 2 ((absJ 2 g1 b1).w.emit (.pollBegin 2))
        let m := Eng.poll joinTuple (absJ 2 g1 b1) 2
        let a := absJ 2 g2 b1
        pure (decide (m.w.trace = .pollEnd (outcomeOfJoin ret) :: env2.trace) &&
              decide (outcomeOfJoin ret = .pending) &&
              decide (env2.trace.length = env1.trace.length + 2) &&
              decide (a.s.cnt = m.s.cnt ∧ m.s.cnt = 1 ∧ a.w.count = 0 ∧ m.w.count = 0 ∧ a.w.parent = some 2)))
      = some true := by decide

/-- why the `jcore` clause of the statement is restricted to `ret = Pending` (as for the other containers): one child that
    resolves with 7 — after the completing poll the crate's slot 0 is empty (`OutputArray::take`) where the model's `out 0`
    still holds 7 -/
def scC : Nat → List Step := fun c => if c = 0 then [⟨.ready true 7, []⟩] else []
def bC : Eng Fix := { w := World.init .std 1 scC, s := Fix.init 1 1 }

example :
    (do let g ← Join.new 1 ⟨1⟩
        let (g', _, ret) ← Join.poll 1 g 1 ((absJ 1 g bC).w.emit (.pollBegin 1))
        let m := Eng.poll joinTuple (absJ 1 g bC) 1
        let a := absJ 1 g' bC
        pure (decide (outcomeOfJoin ret = .ready true [7]) &&
              decide (a.s.out 0 = none ∧ m.s.out 0 = some 7)))
      = some true := by decide

end TieJoinTEx

#print axioms TieJoinT.poll_tie
#print axioms TieJoinT.drop_tie
#print axioms TieJoinT.poll_tie_strong
#print axioms TieJoinT.new_wf

end Fc
