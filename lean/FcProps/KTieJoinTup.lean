/-
  Kernel tie, the TUPLE container of `join` — `(A, B, …).join()` and `FutureExt::join` (src/future/join/tuple.rs,
  `impl_join_tuple!`, the structs `Join1 … Join12`).  The tuple impls exist as Rust only after macro expansion, once per
  arity.  tools/tuple_norm.py takes rustc's own expansion of the CURRENT source, normalises the struct, `Future::poll`, the
  `PinnedDrop` destructor and the constructor of every arity 1..12 into container-style Rust over a const generic `N`
  (rules R1–R6 in that file: `LEN` = number of children, the `if j == index { … }` dispatch of `unsafe_poll!` folded into
  one indexed body after checking that all arms agree, the per-slot `if states[j]…` runs of the destructor folded into
  loops, the tuple of `MaybeUninit` outputs read as an `OutputArray`), CHECKS THAT THE TWELVE ARITIES YIELD THE SAME TEXT,
  and hands that text to tools/rs2lean.py (→ FcGen/KSrcTup1.lean, namespace `JoinT`).  The statements below say that the
  translated `Join::poll` / `Join::drop` refine `Eng.poll joinTuple` / `Eng.drop joinTuple` of the model for EVERY `0 < N`
  — the tuple join is the one join whose poll loop differs from the array / Vec one: `any_ready` is tested inside the
  loop, a slot is skipped on `!clear_ready(i) || state[i].is_ready()` (which also clears the stale flag of a finished
  child), there is no `consumed` flag (completion = `completed == LEN`) and the poll returns from inside the loop as soon
  as the last child resolves.
  Arity 0 (`Join0`, `Poll::Ready(())`) is a separate struct without children and is not part of this unit.
  Proofs: FcProps/KTieJoinT.lean.
-/
import FcGen.KSrcTup1
import FcProps.KTieCore
import FcProps.KTieStd
import FcProps.KTiePS

namespace Fc
open Rs Src

namespace TieJoinT
open JoinT

/-- the reading of a translated tuple join as a model state: there is no `consumed` flag — the join is finished exactly
    when `completed` has reached the number of children -/
def absJ (N : Nat) (g : Join) (b : Eng Fix) : Eng Fix :=
  { w := TieArr.abs g.roleWakers.readiness b.w,
    s := { b.s with n := g.roleKids.len, st := fun i => TiePS.abs (g.roleStates.get i), out := g.roleItems.get,
                    cnt := g.roleCount, dead := decide (g.roleCount = N) } }

/-- the tuple holds `N ≥ 1` children; `completed` counts the slots whose state is `Ready`; a `Ready` slot holds an output -/
structure WfJ (N : Nat) (g : Join) : Prop where
  pos : 0 < N
  kn : g.roleKids.len = N
  rd : TieArr.Wf N g.roleWakers.readiness
  sl : g.roleStates.len = N
  ic : g.roleItems.cap = N
  pc : g.roleCount = ((List.range N).filter (fun i => g.roleStates.get i = PS.PollState.ready)).length
  rs : ∀ i, i < N → (g.roleStates.get i = PS.PollState.pending ∨
        (g.roleStates.get i = PS.PollState.ready ∧ ∃ v, g.roleItems.get i = some v))

def poll_tie_statement : Prop :=
  ∀ (N : Nat) (g : Join) (b : Eng Fix) (w : Nat),
    WfJ N g → FutStepsF b.w → (∀ c i, Wk.sub i ∈ b.w.handed c → i < N) → g.roleCount < N →
    ∃ g' env' ret,
      Join.poll N g w ((absJ N g b).w.emit (.pollBegin w)) = some (g', env', ret) ∧
      (ret = .pending → WfJ N g' ∧ g'.roleCount < N) ∧
      (ret = .pending → jcore (absJ N g' b) = jcore (Eng.poll joinTuple (absJ N g b) w)) ∧
      (ret ≠ .pending → TieJoinV.doneAgree (absJ N g' b) (Eng.poll joinTuple (absJ N g b) w)) ∧
      env'.scripts = (Eng.poll joinTuple (absJ N g b) w).w.scripts ∧
      env'.handed = (Eng.poll joinTuple (absJ N g b) w).w.handed ∧
      (Eng.poll joinTuple (absJ N g b) w).w.trace = .pollEnd (outcomeOfJoin ret) :: env'.trace

/-- dropping a tuple join that has not completed: the outputs already produced are released, then the children still
    pending -/
def drop_tie_statement : Prop :=
  ∀ (N : Nat) (g : Join) (b : Eng Fix),
    WfJ N g → g.roleCount < N →
    ∃ g' env',
      Join.drop N g ((absJ N g b).w.emit .dropBegin) = some (g', env', ()) ∧
      (Eng.drop joinTuple (absJ N g b)).w.trace = .dropEnd :: env'.trace ∧
      env'.scripts = b.w.scripts ∧ env'.handed = b.w.handed

end TieJoinT
end Fc
