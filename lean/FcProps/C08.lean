/-
  C08 — merge yields every item of every input exactly once, keeps per-input order, yields as soon
  as a polled input has an item, and ends exactly when all inputs have ended.

  Monitor `Mon.holds_C08 n` (Fc/MonFun.lean).  Observations of a trace prefix `t`:
  `items t` = the values of all `childEnd _ (item v)` (what the inputs produced, in order),
  `yielded t` = the values of all `pollEnd (some _ vs)` (what the merge handed out, in order),
  `ended t c` = input `c`'s latest answer was `None`, `sincePoll t` = the events of the current poll.
    * at every `childBegin` (an input is polled): no item was taken earlier in this poll
      (so a poll that finds an item returns it without polling anything else);
    * at every `pollEnd o`:
        `o = Some v`    ⇒ exactly one item was taken in this poll and it is `v`;
        `o = Pending`   ⇒ no item was taken in this poll and some input `c < n` has not ended;
        `o = None`      ⇒ no item was taken in this poll, every input `c < n` has ended, and
                           (for `n > 0`) some input ended in this very poll — the merge ends in the
                           poll in which the last input ends; for `n = 0` on the first poll;
        `o = panicked`  ⇒ no item was taken in this poll (nothing is lost by the unwind);
        `o = misuse`    only after `None`, an unwind or the drop;
      and globally `yielded = items` as sequences: every produced item has been yielded exactly
      once, in the order of production (hence per-input order is kept).
-/
import FcLemmas.C08
import Fc.Holds
set_option linter.unusedVariables false

namespace Fc
open Mon

/-- C08 for merge (array / Vec / tuple share one model), every number of inputs (0 included), all
    input scripts, all histories (polls with any waker, wake-ups at any time, drop at any point,
    polls after the end, an injected input panic), both waker strategies.
    The hypothesis `c.kindOk` of the task statement is NOT needed and has been dropped: merge
    ignores an (ill-kinded) `ready` answer and the monitor does not count it as an item. -/
theorem C08_merge (c : Case) (hf : c.fam = .merge) : holds_C08 c.n c.trace = true := by
  unfold Case.trace
  simp only [hf, Fam.isGroup, Bool.false_eq_true, if_false, Case.finalFix, Fam.policy]
  exact (Sim.runFix (C08.sim_merge c.n (Fam.merge.modeOf c.mode)) c.ops _ rfl (Sim.scriptsOk_any _)
    (by simpa [FEng.init, Fam.initCnt, World.init] using C08.inv_init c.n)).mon

/-- the statement exactly as given in the task (with the superfluous hypothesis) -/
theorem C08_merge_kindOk (c : Case) (hf : c.fam = .merge) (hk : c.kindOk) :
    holds_C08 c.n c.trace = true := C08_merge c hf

/-- "every item exactly once, per-input order kept", for the model: after every operation history
    the sequence of yielded values IS the sequence of items the inputs produced. -/
theorem C08_merge_exactly_once (c : Case) (hf : c.fam = .merge) :
    yielded c.trace = items c.trace := by
  unfold Case.trace
  simp only [hf, Fam.isGroup, Bool.false_eq_true, if_false, Case.finalFix, Fam.policy]
  exact (Sim.runFix (C08.sim_merge c.n (Fam.merge.modeOf c.mode)) c.ops _ rfl (Sim.scriptsOk_any _)
    (by simpa [FEng.init, Fam.initCnt, World.init] using C08.inv_init c.n)).yi

/-- the same consequence from the monitor alone, for ANY trace: at every `pollEnd` of the history
    (`pre` = whatever happened later), yielded = produced.
    (The variant "`inPoll t = false → yielded t = items t`" is false for arbitrary traces:
    `[childEnd 0 (item 5)]` passes the monitor vacuously; see `C08_exactly_once_wf`.) -/
theorem C08_exactly_once (n : Nat) (pre t : List Ev) (o : Outcome)
    (h : holds_C08 n (pre ++ .pollEnd o :: t) = true) :
    yielded (.pollEnd o :: t) = items (.pollEnd o :: t) := by
  have h' := C08.holds_suffix n pre _ h
  simp only [holds_C08, Bool.and_eq_true, beq_iff_eq] at h'
  simpa [items] using h'.2

/-- the variant asked for, for every trace in which inputs answer only inside polls
    (`C08.childEndsInPolls`, FcLemmas/C08.lean): between polls, yielded = produced. -/
theorem C08_exactly_once_wf (n : Nat) (t : List Ev) (h : holds_C08 n t = true)
    (hw : C08.childEndsInPolls t = true) (hp : inPoll t = false) : yielded t = items t :=
  C08.exactly_once_wf n t h hw hp

/-- non-vacuity: three inputs of lengths 2, 1, 0; input 2 ends while input 1 is pending; input 0
    ends while input 1 is still pending and asleep (the merge answers `Pending`); wake-ups in
    between; `None` in the poll in which input 1, the last one, ends; then misuse and drop -/
def C08_example : Case :=
  { fam := .merge, mode := .std, keyed := false, n := 3,
    scripts := fun c => if c = 0 then [⟨.item 10, []⟩, ⟨.item 11, []⟩, ⟨.fin, []⟩]
                        else if c = 1 then [⟨.pend, []⟩, ⟨.item 20, []⟩, ⟨.fin, []⟩]
                        else if c = 2 then [⟨.fin, []⟩] else [],
    ops := [.poll 1, .poll 2, .poll 3, .fire 1 0, .poll 4, .poll 5, .poll 6, .drop] }

example : C08_example.kindOk := by
  intro ch st h
  simp only [C08_example] at h
  split at h
  · simp at h; rcases h with rfl | rfl | rfl <;> rfl
  · split at h
    · simp at h; rcases h with rfl | rfl | rfl <;> rfl
    · split at h
      · simp at h; subst h; rfl
      · simp at h

/-- what the merge answered, poll by poll -/
example : C08_example.run.filterMap (fun e => match e with | .pollEnd o => some o | _ => none)
    = [.some 0 [10], .some 0 [11], .pending, .some 0 [20], .none, .misuse] := by decide
example : yielded C08_example.trace = [20, 11, 10] := by decide
example : items C08_example.trace = [20, 11, 10] := by decide
/-- in poll 2 input 1 pends, input 2 ends, and input 0's item is yielded all the same -/
example : (C08_example.run.take 13).drop 4 =
    [.pollBegin 2, .childBegin 1 1 (.sub 1), .childEnd 1 .pend, .childBegin 2 2 (.sub 2),
     .childEnd 2 .fin, .childBegin 0 0 (.sub 0), .childEnd 0 (.item 11), .pollEnd (.some 0 [11]),
     .pollBegin 3] := by decide
example : holds_C08 3 C08_example.trace = true := by decide
/-- the same history without sub-wakers (`direct` mode: every live input is polled in every poll) -/
def C08_example_direct : Case := { C08_example with mode := .direct }
example : C08_example_direct.run.filterMap (fun e => match e with | .pollEnd o => some o | _ => none)
    = [.some 0 [10], .some 0 [11], .some 0 [20], .none, .misuse, .misuse] := by decide
example : holds_C08 3 C08_example_direct.trace = true := by decide

/-- zero inputs: `None` on the first poll -/
def C08_empty : Case :=
  { fam := .merge, mode := .std, keyed := false, n := 0, scripts := fun _ => [], ops := [.poll 1] }
example : C08_empty.run = [.pollBegin 1, .pollEnd .none] := by decide

/-! the monitor is not trivially true (traces NEWEST FIRST) -/

/-- accepted: a poll that takes one item and yields it -/
example : holds_C08 2 [.pollEnd (.some 0 [5]), .childEnd 0 (.item 5), .childBegin 0 0 (.sub 0),
    .pollBegin 1] = true := by decide
/-- an item dropped: input 0's item 5 is taken, the scan goes on, only input 1's item 6 is yielded -/
example : holds_C08 2 [.pollEnd (.some 0 [6]), .childEnd 1 (.item 6), .childBegin 1 1 (.sub 1),
    .childEnd 0 (.item 5), .childBegin 0 0 (.sub 0), .pollBegin 1] = false := by decide
/-- an item yielded twice -/
example : holds_C08 2 [.pollEnd (.some 0 [5]), .pollBegin 2,
    .pollEnd (.some 0 [5]), .childEnd 0 (.item 5), .childBegin 0 0 (.sub 0), .pollBegin 1] = false := by
  decide
/-- items of one input yielded in the wrong order (over two polls that each take one item) -/
example : holds_C08 1 [.pollEnd (.some 0 [5]), .childEnd 0 (.item 6), .childBegin 0 0 (.sub 0),
    .pollBegin 2,
    .pollEnd (.some 0 [6]), .childEnd 0 (.item 5), .childBegin 0 0 (.sub 0), .pollBegin 1] = false := by
  decide
/-- `None` although input 1 has not ended -/
example : holds_C08 2 [.pollEnd .none, .childEnd 0 .fin, .childBegin 0 0 (.sub 0), .pollBegin 1]
    = false := by decide
/-- `None` one poll late (every input had ended before this poll began) -/
example : holds_C08 1 [.pollEnd .none, .pollBegin 2,
    .pollEnd .pending, .childEnd 0 .fin, .childBegin 0 0 (.sub 0), .pollBegin 1] = false := by decide
/-- `Pending` although an item was taken in this poll -/
example : holds_C08 2 [.pollEnd .pending, .childEnd 0 (.item 5), .childBegin 0 0 (.sub 0),
    .pollBegin 1] = false := by decide
/-- `Pending` although every input has ended -/
example : holds_C08 1 [.pollEnd .pending, .childEnd 0 .fin, .childBegin 0 0 (.sub 0), .pollBegin 1]
    = false := by decide
/-- zero inputs must end at once -/
example : holds_C08 0 [.pollEnd .pending, .pollBegin 1] = false := by decide

end Fc

#print axioms Fc.C08_merge
#print axioms Fc.C08_merge_kindOk
#print axioms Fc.C08_merge_exactly_once
#print axioms Fc.C08_exactly_once
#print axioms Fc.C08_exactly_once_wf
