/-
  Kernel tie, fixed families, no_std / alloc-only builds — `[S; N]::zip()`: the translated `Zip::poll_next` and
  `PinnedDrop::drop` in the flavour compiled WITHOUT the `std` feature (FcGen/KSrcArr4D.lean: the text of
  src/stream/zip/array.rs against src/utils/wakers/array/no_std.rs) refine one `Eng.poll zip` / `Eng.drop zip` of the
  model on a world in `direct` mode.  The counterpart of FcProps/KTieZipA.lean, obtained by porting its proof.
  Statements: FcProps/KTieZipDir.lean (`TieZipAD.poll_tie_statement`, `TieZipAD.drop_tie_statement`, unchanged);
  proofs: FcLemmas/KTieZipAD{Env,Loop,Main,Drop}.lean (the model-side lemmas of FcLemmas/KTieZipModel.lean are shared
  with the Vec and the std array proofs).

  poll: from a well-formed `Zip` (`WfZ N`: the array has `N` inputs, table sizes are `N`, at least one input, a slot is
  `Ready` exactly when it buffers an item of the current row), an environment whose scripted children answer like
  streams (`StreamStepsF`) (and whose handed-out sub-wakers, of which this flavour creates none, belong to a slot: the
  hypothesis of the std statement is kept, it is not used), one call of the translated function with task waker `w` on
  a zip that has not ended does not panic (in particular `WakerArray::get` finds the parent waker that `set_waker` has
  just stored, and `array_assume_init` never reads an unwritten slot), returns the `Poll` value of the model's outcome
  (a complete row, in slot order), and leaves a combinator + environment whose reading (`absZ`) is the model state
  after `Eng.poll zip · w` in `direct` mode: every slot that does not buffer an item is polled, with the caller's own
  waker; same parent waker, states, buffered items, `done` flag (`jcore`; the flag table of the world is unused and
  untouched), same remaining scripts, same handed-out wakers, same trace (the model's closing `pollEnd` is logged by the
  caller); `WfZ` is kept (unless the stream has just ended, where it is not needed — it does in fact hold there too,
  see `poll_tie_strong`).

  drop: the destructor releases exactly the buffered items of the unfinished row, in slot order, and does not panic
  (`OutputVec::drop` is only called on written slots); the inputs are plain fields, released by the drop glue afterwards.
-/
import FcProps.KTieZipDir
import FcLemmas.KTieZipADMain
import FcLemmas.KTieZipADDrop

namespace Fc
open Rs Src

namespace TieZipAD
open ZipAD

theorem poll_tie : poll_tie_statement := zad_poll_tie_main

theorem drop_tie : drop_tie_statement := zad_drop_tie_main

/-- the same refinement, and in addition what the NEXT call needs again: `WfZ` is kept in every case, the children
    are the same, every sub-waker handed out so far belongs to a slot (this poll hands out none), the remaining
    scripts still answer like streams -/
theorem poll_tie_strong (N : Nat) (g : Zip) (b : Eng Fix) (w : Nat) (hW : WfZ N g) (hS : StreamStepsF b.w)
    (hH : HandedIn N b.w) (hd : g.roleDone = false) :
    ∃ g' env' ret,
      Zip.poll_next N g w ((absZ g b).w.emit (.pollBegin w)) = some (g', env', ret) ∧
      WfZ N g' ∧
      (jcore (absZ g' b) = jcore (Eng.poll zip (absZ g b) w) ∧
       env'.scripts = (Eng.poll zip (absZ g b) w).w.scripts ∧
       env'.handed = (Eng.poll zip (absZ g b) w).w.handed ∧
       (Eng.poll zip (absZ g b) w).w.trace = .pollEnd (outcomeOfZip ret) :: env'.trace) ∧
      g'.roleKids.len = N ∧ HandedIn N env' ∧ StreamStepsF env' :=
  zad_poll_tie_core N g b w hW hS hH hd

/-- `Zip::new` on an array of `N ≥ 1` inputs gives a well-formed zip over these inputs that has not ended: the
    hypotheses are satisfiable -/
theorem new_wf (N : Nat) (kids : Rs.Kids) (hk : kids.len = N) (hn : 0 < N) :
    ∃ g, Zip.new N kids = some g ∧ WfZ N g ∧ g.roleDone = false ∧ g.roleKids = kids := by
  refine ⟨_, rfl, ⟨hk, rfl, rfl, hn, ?_⟩, rfl, rfl⟩
  intro i _
  exact Or.inl ⟨rfl, rfl⟩

end TieZipAD

/-! ## non-vacuity: a concrete instance of the hypotheses, and the conclusions checked by evaluation -/
namespace TieZipADEx
open ZipAD TieZipAD

/-- two streams; child 0 yields 1 at once, child 1 is pending first (and wakes the task it was polled from), then
    yields 8 -/
def sc : Nat → List Step := fun c =>
  if c = 0 then [⟨.item 1, []⟩, ⟨.item 2, []⟩, ⟨.fin, []⟩]
  else if c = 1 then [⟨.pend, [(1, 0)]⟩, ⟨.item 8, []⟩, ⟨.item 9, []⟩]
  else []

def b0 : Eng Fix := { w := World.init .direct 2 sc, s := Fix.init 2 0 }

example : StreamStepsF b0.w := by
  intro c st h
  simp only [b0, World.init, sc] at h
  split at h
  · simp at h; rcases h with rfl | rfl | rfl <;> simp
  · split at h
    · simp at h; rcases h with rfl | rfl | rfl <;> simp
    · simp at h

example : ∀ c i, Wk.sub i ∈ b0.w.handed c → i < 2 := by
  intro c i h; simp [b0, World.init] at h

example : ∃ g, Zip.new 2 ⟨2⟩ = some g ∧ WfZ 2 g ∧ g.roleDone = false ∧ g.roleKids = ⟨2⟩ :=
  new_wf 2 ⟨2⟩ rfl (by decide)

/-- the conclusion of `poll_tie` on `Zip::new(2 streams)`, first poll, checked by evaluation: no panic, `Pending`
    (child 1 is not ready), the item 1 is buffered in slot 0, both children were handed the caller's own waker
    `Wk.par 1`, child 1 woke it, and trace, mode and parent waker, the states and buffered items of the two slots, the
    remaining scripts and the handed-out wakers agree -/
example :
    (do let g ← Zip.new 2 ⟨2⟩
        let (g', env', ret) ← Zip.poll_next 2 g 1 ((absZ g b0).w.emit (.pollBegin 1))
        let m := Eng.poll zip (absZ g b0) 1
        let a := absZ g' b0
        pure (decide (m.w.trace = .pollEnd (outcomeOfZip ret) :: env'.trace) &&
              decide (outcomeOfZip ret = .pending) &&
              decide (a.s.n = m.s.n ∧ a.s.dead = m.s.dead ∧ m.s.out 0 = some 1) &&
              decide (a.w.mode = m.w.mode ∧ m.w.mode = .direct) &&
              decide (a.w.count = m.w.count ∧ a.w.cap = m.w.cap ∧ a.w.parent = m.w.parent ∧ m.w.parent = some 1) &&
              (List.range 2).all (fun i => a.w.bits i == m.w.bits i && decide (a.s.st i = m.s.st i) &&
                decide (a.s.out i = m.s.out i) && decide (env'.handed i = m.w.handed i) &&
                decide (env'.handed i = [Wk.par 1]) &&
                decide ((env'.scripts i).map (·.res) = (m.w.scripts i).map (·.res))) &&
              decide (Ev.woke 1 ∈ env'.trace) &&
              decide (env'.trace.length = 7)))
      = some true := by decide

/-- the second poll completes the row `[1, 8]`: only child 1 is polled (slot 0 buffers its item), with the new task
    waker `Wk.par 2` -/
example :
    (do let g ← Zip.new 2 ⟨2⟩
        let (g1, env1, _) ← Zip.poll_next 2 g 1 ((absZ g b0).w.emit (.pollBegin 1))
        let b1 : Eng Fix := { w := env1.emit (.pollEnd .pending), s := b0.s }
        let (g', env', ret) ← Zip.poll_next 2 g1 2 ((absZ g1 b1).w.emit (.pollBegin 2))
        let m := Eng.poll zip (absZ g1 b1) 2
        let a := absZ g' b1
        pure (decide (m.w.trace = .pollEnd (outcomeOfZip ret) :: env'.trace) &&
              decide (outcomeOfZip ret = .some 0 [1, 8]) &&
              decide (a.w.parent = m.w.parent ∧ m.w.parent = some 2) &&
              decide (env'.handed 0 = [Wk.par 1] ∧ env'.handed 1 = [Wk.par 2, Wk.par 1]) &&
              (List.range 2).all (fun i => a.w.bits i == m.w.bits i && decide (a.s.st i = m.s.st i) &&
                decide (a.s.out i = m.s.out i) && decide (m.s.out i = none) &&
                decide (env'.handed i = m.w.handed i))))
      = some true := by decide

/-- the conclusion of `drop_tie` after the first poll: the buffered item 1 is released, then the two inputs -/
example :
    (do let g ← Zip.new 2 ⟨2⟩
        let (g1, env1, _) ← Zip.poll_next 2 g 1 ((absZ g b0).w.emit (.pollBegin 1))
        let b1 : Eng Fix := { w := env1.emit (.pollEnd .pending), s := b0.s }
        let (_, env', _) ← Zip.drop 2 g1 ((absZ g1 b1).w.emit .dropBegin)
        pure (decide ((Eng.drop zip (absZ g1 b1)).w.trace =
                .dropEnd :: (((List.range 2).map (fun i => Ev.childDropped i)).reverse ++ env'.trace)) &&
              decide (env'.trace.head? = some (.valDropped 1))))
      = some true := by decide

end TieZipADEx

#print axioms TieZipAD.poll_tie
#print axioms TieZipAD.drop_tie
#print axioms TieZipAD.poll_tie_strong
#print axioms TieZipAD.new_wf

end Fc
