/-
  C02 — exactly-once ownership, for the groups (FutureGroup / StreamGroup).

  Monitor `Mon.holds_C02 (fixed := false) n` (Fc/Monitors.lean), on a trace in which a drop of the
  group completed (`dropEnd` occurs; otherwise it holds trivially):
    * nothing is released after the destructor returned (`quietAfterDrop`);
    * for every child id `c < n`: `childDropped c` occurs exactly once if `c` was ever inserted
      (`keyOf t c` is some key) — at its completion, at its removal, or with the group — and never
      if it was not;
    * for every value `v` some member produced (`childEnd _ (ready _ v)` / `childEnd _ (item v)`):
        #times `v` was returned to the caller (`pollEnd (some _ vs)`)
          + #times it was released by the group (`valDropped v`)  =  #times it was produced
      (a group buffers nothing: a produced value is returned by the same poll);
    * no value is returned or released that no member produced.
  The theorem holds for every bound `n` on the ids and covers every point at which the drop can
  happen: empty group, members pending, after members completed or were removed, slots reused,
  after a member's panic unwound through `poll_next` (a StreamGroup's removal queue is then left
  unflushed: its keys are still in the key set but their slots are empty, and the drop glue skips
  them); polls, wake-ups and group operations after the drop change nothing.

  Hypotheses.
    * `hk : c.kindOk` — members of a FutureGroup are futures, members of a StreamGroup are streams.
      Needed: `C02g_needs_kind`.
    * `hw : c.insertsFresh` — no child id is inserted twice (each inserted future / stream is a new
      object).  Needed: `C02g_needs_fresh`.
    * `h1` — the history drops the group at most once (as for the fixed combinators: the model's
      `Eng.drop` can be applied again; the crate cannot).  Needed: `C02g_needs_single_drop`.
-/
import FcLemmas.GOwnRun
import Fc.Holds

namespace Fc
open Mon

theorem C02_exactly_once_group (c : Case) (hg : c.fam.isGroup = true) (hk : c.kindOk)
    (hw : Case.insertsFresh c)
    (h1 : (c.ops.filter (fun o => match o with | .drop => true | _ => false)).length ≤ 1) (n : Nat) :
    holds_C02 false n c.trace = true := by
  obtain ⟨⟨F, h⟩, hnd⟩ := GOwn.run_case c hg hk hw
  have h1' : (c.ops.filter C02b.isDrop).length ≤ 1 := by
    rw [List.filter_congr (fun o _ => show C02b.isDrop o = _ by cases o <;> rfl)]; exact h1
  unfold Case.trace
  rw [if_pos hg]
  exact GOwn.holds_C02_of_gi h (by rw [hnd]; exact h1') n

/-! ### non-vacuity -/

/-- a FutureGroup: three members inserted (keys 0 1 2); the first poll leaves 0 pending and
    returns 1's output; member 0 is removed and member 3 inserted into the reused slot 0; the
    removed member's stale waker fires; a poll finds 3 and 2 pending; 2 is woken and resolves in
    the next poll; the group is dropped with member 3 still pending.  Members 1 and 2 are dropped
    on completion, 0 at its removal, 3 with the group; id 4 is never inserted, never dropped. -/
def C02g_example : Case :=
  { fam := .futGroup, mode := .std, keyed := true, n := 4,
    scripts := fun c => if c = 0 then [⟨.pend, []⟩]
                        else if c = 1 then [⟨.ready true 11, []⟩]
                        else if c = 2 then [⟨.pend, []⟩, ⟨.ready true 22, []⟩]
                        else if c = 3 then [⟨.pend, []⟩, ⟨.pend, []⟩] else [],
    ops := [.insert 0, .insert 1, .insert 2, .poll 1, .remove 0, .insert 3, .fire 0 0, .poll 2,
            .fire 2 0, .poll 3, .drop] }

example : C02g_example.insertsFresh := by decide
example : holds_C02 false 4 C02g_example.trace = true := by decide
example : holds_C02 false 6 C02g_example.trace = true := by decide
example : holds_C03 true C02g_example.trace = true := by decide
example : dropCompleted C02g_example.trace = true := by decide
example : droppedChildren C02g_example.trace = [3, 2, 0, 1] := by decide
example : keyOf C02g_example.trace 3 = some 0 ∧ keyOf C02g_example.trace 0 = some 0 ∧
    keyOf C02g_example.trace 4 = none := by decide
example : producedVals C02g_example.trace = [22, 11] ∧ returnedVals C02g_example.trace = [22, 11] := by
  decide
example : C02g_example.run.contains (.childDropped 3) = true := by decide

/-- a StreamGroup whose member 1 panics after member 0 ended in the same poll: the removal queue
    is never flushed (key 0 stays in the key set with an empty slot); the drop releases exactly the
    live members 1 and 2 -/
def C02g_panic_example : Case :=
  { fam := .strGroup, mode := .direct, keyed := false, n := 3,
    scripts := fun c => if c = 0 then [⟨.fin, []⟩]
                        else if c = 1 then [⟨.panic, []⟩]
                        else if c = 2 then [⟨.item 9, []⟩] else [],
    ops := [.extend [0, 1, 2], .poll 1, .insert 3, .poll 2, .drop] }

example : holds_C02 false 4 C02g_panic_example.trace = true := by decide
example : C02g_panic_example.run.contains (.pollEnd .panicked) = true := by decide
example : droppedChildren C02g_panic_example.trace = [2, 1, 0] := by decide

/-- why `h1`: a second `Op.drop` makes the model release the live members again -/
def C02g_double_drop : Case :=
  { fam := .futGroup, mode := .direct, keyed := true, n := 1, scripts := fun _ => [],
    ops := [.insert 0, .drop, .drop] }
theorem C02g_needs_single_drop : holds_C02 false 1 C02g_double_drop.trace = false := by decide

/-- why `hw`: the same id inserted twice is dropped twice -/
def C02g_twice : Case :=
  { fam := .strGroup, mode := .direct, keyed := true, n := 1, scripts := fun _ => [],
    ops := [.extend [0, 0], .drop] }
theorem C02g_needs_fresh : holds_C02 false 1 C02g_twice.trace = false := by decide

/-- why `hk`: a FutureGroup member answers end-of-stream (1), another resolves (2) in the same
    poll, so key 1 stays in the key set with an empty slot and the removal queue unflushed;
    `remove` of that key releases member 0 (the model's `getD 0`), which the drop releases again -/
def C02g_noKind : Case :=
  { fam := .futGroup, mode := .direct, keyed := true, n := 4,
    scripts := fun c => if c = 0 then [⟨.pend, []⟩, ⟨.pend, []⟩]
                        else if c = 1 then [⟨.fin, []⟩]
                        else if c = 2 then [⟨.ready true 5, []⟩] else [],
    ops := [.insert 0, .insert 1, .insert 2, .insert 3, .poll 1, .remove 1, .drop] }
example : C02g_noKind.insertsFresh := by decide
theorem C02g_needs_kind : holds_C02 false 4 C02g_noKind.trace = false := by decide

/-! the monitor rejects wrong traces (newest first) -/

/-- a member dropped twice (at its removal and again with the group) -/
example : holds_C02 false 1
    [.dropEnd, .childDropped 0, .dropBegin, .removed 0 true, .childDropped 0, .inserted 0 0] = false := by
  decide
/-- a member never dropped at the group's drop -/
example : holds_C02 false 2
    [.dropEnd, .childDropped 0, .dropBegin, .inserted 1 1, .inserted 0 0] = false := by decide
/-- an id that was never inserted is dropped -/
example : holds_C02 false 2
    [.dropEnd, .childDropped 1, .childDropped 0, .dropBegin, .inserted 0 0] = false := by decide
/-- a release after the destructor returned -/
example : holds_C02 false 1 [.childDropped 0, .dropEnd, .dropBegin, .inserted 0 0] = false := by decide
/-- a produced value that is neither returned nor released -/
example : holds_C02 false 1
    [.dropEnd, .childDropped 0, .dropBegin, .pollEnd .pending, .childEnd 0 (.item 4),
     .childBegin 0 0 (.par 1), .pollBegin 1, .inserted 0 0] = false := by decide
/-- the correct version of the first trace is accepted -/
example : holds_C02 false 1
    [.dropEnd, .dropBegin, .removed 0 true, .childDropped 0, .inserted 0 0] = true := by decide

end Fc

#print axioms Fc.C02_exactly_once_group
#print axioms Fc.C02g_needs_single_drop
#print axioms Fc.C02g_needs_fresh
#print axioms Fc.C02g_needs_kind
