/-
  Kernel tie, `Vec<Fut>::race_ok()` (src/future/race_ok/vec/mod.rs with its helper enum `MaybeDone`,
  src/utils/poll_state/maybe_done.rs): `RaceOk::poll` (every child that is not finished is polled in index order with the
  caller's own waker; a child that fails keeps its error in its `MaybeDone::Done(Err(_))` slot; the first `Ok` is taken out
  and returned at once; when all have failed the errors are collected by position and the slice is replaced by an empty one),
  the constructor, `MaybeDone::{new, poll, take_ok, take_err}` and the drop glue of the struct (there is no `PinnedDrop`),
  TRANSLATED FROM THE CURRENT SOURCE (tools/rs2lean.py → FcGen/KSrcFam6.lean), refine `Eng.poll (raceOk false true)` /
  `Eng.drop (raceOk false true)` of the model (Fc/Families.lean; `early = true`: a finished child is dropped at once).

  The struct stores neither a counter nor a `done` flag: the model's `cnt` is read off the slots (the number of slots that
  hold an output), its `dead` is not stored — the statement is about polls of a race_ok that has not completed
  (`b.s.dead = false`) and says in which polls the model sets it.  A slot is read through `MaybeDone.view` (generated: the
  variants named by what they hold), so neither the statements nor the proofs name a variant or a field.
  Proofs: FcProps/KTieRaceOkV.lean.
-/
import FcGen.KSrcFam6
import FcProps.KTieCore

namespace Fc
open Rs Src

namespace TieRaceOkV
open RaceOkV

/-- the model outcome a returned `Poll<Result<T, AggregateError<E>>>` stands for -/
def outcomeOfRaceOk : Rs.Poll (Rs.ResultE Nat (List Nat)) → Outcome
  | .pending => .pending
  | .ready (.ok v) => .ready true [v]
  | .ready (.err es) => .ready false es

/-- the model's `PollState` of a slot: a child still running / an output stored / nothing -/
def slotSt : Option (Nat ⊕ Rs.Result Nat) → PS
  | some (.inl _) => .pending
  | some (.inr _) => .ready
  | none => .none

/-- the value a slot stores -/
def slotOut : Option (Nat ⊕ Rs.Result Nat) → Option Nat
  | some (.inr (.err e)) => some e
  | some (.inr (.ok v)) => some v
  | _ => none

/-- the translated struct read as the model's state: `n` = length of the slice, state and stored error per slot,
    `cnt` = number of slots that hold an output; `off` and `dead` are not stored (taken from `s0`) -/
def absS (g : RaceOk) (s0 : Fix) : Fix :=
  { s0 with n := g.roleElems.len,
            st := fun i => slotSt (g.roleElems.get i).view,
            out := fun i => slotOut (g.roleElems.get i).view,
            cnt := ((List.range g.roleElems.len).filter (fun i => slotSt (g.roleElems.get i).view = .ready)).length }

def absK (g : RaceOk) (b : Eng Fix) : Eng Fix :=
  { w := { b.w with mode := .direct }, s := absS g b.s }

/-- a race_ok that has not completed: slot `i` holds child `i`, still running, or the error child `i` failed with -/
structure WfK (N : Nat) (g : RaceOk) : Prop where
  kn : g.roleElems.len = N
  rs : ∀ i, i < N → ((g.roleElems.get i).view = some (.inl i) ∨ ∃ e, (g.roleElems.get i).view = some (.inr (.err e)))

/-- FIRST VERSION (the array statement with the Vec policy) — FALSE, see `KTieRaceOkV.v0_false`: the poll that returns the
    aggregate REPLACES the slice by an empty one (`mem::replace(&mut self.elems, Box::pin([]))`), so the translated struct
    has length 0 afterwards, where the model (and the array version, whose tables have a fixed length) keeps `n` -/
def poll_tie_statement_v0 : Prop :=
  ∀ (N : Nat) (g : RaceOk) (b : Eng Fix) (w : Nat),
    WfK N g → FutStepsF b.w → b.s.dead = false →
    ∃ g' env' ret,
      RaceOk.poll g w (((absK g b).w.emit (.pollBegin w)).setWaker w) = some (g', env', ret) ∧
      (absK g' b).s.n = (Eng.poll (raceOk false true) (absK g b) w).s.n ∧
      (absK g' b).s.cnt = (Eng.poll (raceOk false true) (absK g b) w).s.cnt ∧
      (∀ i, i < N → (absK g' b).s.st i = (Eng.poll (raceOk false true) (absK g b) w).s.st i) ∧
      ((Eng.poll (raceOk false true) (absK g b) w).s.dead = true ↔ ret ≠ .pending) ∧
      env'.scripts = (Eng.poll (raceOk false true) (absK g b) w).w.scripts ∧
      env'.handed = (Eng.poll (raceOk false true) (absK g b) w).w.handed ∧
      (Eng.poll (raceOk false true) (absK g b) w).w.trace = .pollEnd (outcomeOfRaceOk ret) :: env'.trace

/-- one call of the translated `RaceOk::poll` refines one `Eng.poll (raceOk false true)`: no panic; the returned value is
    the model's outcome (`Ok` of the first success in that same poll, the aggregate BY POSITION in the poll in which the last
    child fails, also for no children at all); until the aggregate is returned the struct reads as the model's state (number
    of children, counter, state table — the winner's slot is `Gone` = `None` —, stored errors); the poll that returns the
    aggregate leaves the EMPTY slice (nothing left to drop) where the model resets every state to `None`; same scripts, same
    wakers handed out, same event trace (the model's additional `pollEnd` is the caller's) — in particular each finished
    child is dropped right after the poll that finished it, and nothing is dropped when the aggregate is built -/
def poll_tie_statement : Prop :=
  ∀ (N : Nat) (g : RaceOk) (b : Eng Fix) (w : Nat),
    WfK N g → FutStepsF b.w → b.s.dead = false →
    ∃ g' env' ret,
      RaceOk.poll g w (((absK g b).w.emit (.pollBegin w)).setWaker w) = some (g', env', ret) ∧
      (ret = .pending → WfK N g') ∧
      ((∀ es, ret ≠ .ready (.err es)) →
        (absK g' b).s.n = (Eng.poll (raceOk false true) (absK g b) w).s.n ∧
        (absK g' b).s.cnt = (Eng.poll (raceOk false true) (absK g b) w).s.cnt ∧
        (absK g' b).s.st = (Eng.poll (raceOk false true) (absK g b) w).s.st ∧
        (absK g' b).s.out = (Eng.poll (raceOk false true) (absK g b) w).s.out) ∧
      ((∃ es, ret = .ready (.err es)) →
        g'.roleElems.len = 0 ∧ ∀ i, (Eng.poll (raceOk false true) (absK g b) w).s.st i = .none) ∧
      ((Eng.poll (raceOk false true) (absK g b) w).s.dead = true ↔ ret ≠ .pending) ∧
      env'.scripts = (Eng.poll (raceOk false true) (absK g b) w).w.scripts ∧
      env'.handed = (Eng.poll (raceOk false true) (absK g b) w).w.handed ∧
      (Eng.poll (raceOk false true) (absK g b) w).w.trace = .pollEnd (outcomeOfRaceOk ret) :: env'.trace

/-- FIRST VERSION of the drop statement — FALSE, see `KTieRaceOkV.drop_v0_false`: the drop glue releases the slots IN INDEX
    ORDER (a stored error or a running child, whatever the slot holds), the model lists the stored errors first and the
    running children after them -/
def drop_tie_statement_v0 : Prop :=
  ∀ (N : Nat) (g : RaceOk) (b : Eng Fix),
    WfK N g →
    (Eng.drop (raceOk false true) (absK g b)).w.trace =
      .dropEnd :: (RaceOk.dropGlue g ((absK g b).w.emit .dropBegin)).trace

/-- dropping the struct (no `PinnedDrop`: the field's drop glue, slot by slot): every stored error and every child still
    running is released exactly once — the events are the model's `Eng.drop (raceOk false true)` up to their order, and
    nothing else happens to the environment -/
def drop_tie_statement : Prop :=
  ∀ (N : Nat) (g : RaceOk) (b : Eng Fix),
    WfK N g →
    ∃ evs, (RaceOk.dropGlue g ((absK g b).w.emit .dropBegin)) =
        { ((absK g b).w.emit .dropBegin) with trace := evs ++ ((absK g b).w.emit .dropBegin).trace } ∧
      evs.Perm ((raceOk false true).dropEvs (absK g b).s).reverse ∧
      (Eng.drop (raceOk false true) (absK g b)).w.trace =
        .dropEnd :: (((raceOk false true).dropEvs (absK g b).s).reverse ++ ((absK g b).w.emit .dropBegin).trace)

/-- after the aggregate was returned the struct holds the empty slice: dropping it releases nothing -/
def drop_failed_tie_statement : Prop :=
  ∀ (g : RaceOk) (env : World), g.roleElems.len = 0 → RaceOk.dropGlue g env = env

/-- the value `Vec<Fut>::race_ok()` builds (slot `i` = `MaybeDone::new` of child `i`) satisfies the hypothesis of the poll
    statement and reads as the model's initial state `Fix.init n 0` -/
def new_wf_statement : Prop :=
  ∀ (kids : Rs.Kids), ∃ g, RaceOk.race_ok kids = some g ∧ WfK kids.len g ∧
    (absS g (Fix.init kids.len 0)).n = kids.len ∧
    (absS g (Fix.init kids.len 0)).cnt = 0 ∧
    (∀ i, i < kids.len → (absS g (Fix.init kids.len 0)).st i = .pending) ∧
    (∀ i, i < kids.len → (absS g (Fix.init kids.len 0)).out i = none)

end TieRaceOkV
end Fc
