/-
  Kernel tie, fixed families — `(A, B, …).zip()` / `StreamExt::zip` (the TUPLE container): the translated
  `Zip::poll_next` and `PinnedDrop::drop` (FcGen/KSrcTup4.lean, generated from rustc's expansion of
  `impl_zip_for_tuple!` in src/stream/zip/tuple.rs after the normalisation of tools/tuple_norm.py, namespace `ZipT`) refine
  one `Eng.poll zip` / `Eng.drop zip` of the model, for every arity `0 < N`.  The tuple counterpart of
  FcProps/KTieZipA.lean, obtained by porting its proof.
  Statements: FcProps/KTieZipTup.lean (`TieZipT.poll_tie_statement`, `TieZipT.drop_tie_statement`, proved here UNCHANGED);
  proofs: FcLemmas/KTieZipT{Loop,Main,Drop}.lean.  Imported, not copied: the model-side lemmas of
  FcLemmas/KTieZipModel.lean (shared with the Vec and array proofs), the environment lemmas of the array readiness set
  FcLemmas/KTieZipAEnv.lean (the readiness set of a tuple is `ReadinessArray<N>`; that file does not depend on the
  generated array zip), the loop rule `TieLoop.forCtl_scan` of FcLemmas/KTieLoopCore.lean.

  What differs in the translated text from the array container, and why it needs no argument of its own: the gate of a
  slot is written as two nested `if`s (`state[index].is_ready()` first, `readiness.clear_ready(index)` only for a slot
  that is not `Ready` — the same order of effects as the array's `||`/`continue`); the child poll sits behind
  `assert!(index < N)`, true inside `for index in 0..N` (so the `unreachable!()` arm of the macro's dispatch is indeed
  unreachable); and `let all_ready = match poll { Pending => false, Ready(None) => return …, Ready(Some(item)) => … }`
  has its continuation `if all_ready { … }` duplicated into the arms — dead in the `Pending` arm.

  poll: from a well-formed `Zip` (`WfZ N`: `N` inputs, table sizes are `N`, at least one input, a slot is `Ready` exactly
  when it buffers an item of the current row), an environment whose scripted children answer like streams
  (`StreamStepsF`) and whose handed-out sub-wakers all belong to a slot of the combinator, one call of the translated
  function with task waker `w` on a zip that has not ended does not panic (the `assert!` holds, `WakerArray::get` finds
  the sub-waker, the completing `assume_init` never reads an unwritten slot), returns the `Poll` value of the model's
  outcome (a complete row, in slot order), and leaves a combinator + environment whose reading (`absZ`) is the model
  state after `Eng.poll zip · w`: same readiness bits / count / parent waker / capacity, states, buffered items, `done`
  flag (`jcore`), same remaining scripts, same handed-out wakers, same trace (the model's closing `pollEnd` is logged by
  the caller); `WfZ` is kept (unless the stream has just ended, where it is not needed — it does in fact hold there too,
  see `poll_tie_strong`).

  drop: the destructor releases exactly the buffered items of the unfinished row, in slot order, and does not panic
  (`assume_init_drop` is only called on written slots); the inputs are plain fields, released by the drop glue afterwards.
-/
import FcProps.KTieZipTup
import FcLemmas.KTieZipTMain
import FcLemmas.KTieZipTDrop

namespace Fc
open Rs Src

namespace TieZipT
open ZipT

theorem poll_tie : poll_tie_statement := zt_poll_tie_main

theorem drop_tie : drop_tie_statement := zt_drop_tie_main

/-- the same refinement, and in addition what the NEXT call needs again: `WfZ` is kept in every case, the children
    are the same, every sub-waker handed out so far (including those of this poll) belongs to a slot, the remaining
    scripts still answer like streams -/
theorem poll_tie_strong (N : Nat) (g : Zip) (b : Eng Fix) (w : Nat) (hW : WfZ N g) (hS : StreamStepsF b.w)
    (hH : HandedIn N b.w) (hd : g.roleDone = false) :
    ∃ g' env' ret,
      Zip.poll_next N g w ((absZ g b).w.emit (.pollBegin w)) = some (g', env', ret) ∧
      WfZ N g' ∧
      (jcore (absZ g' b) = jcore (Eng.poll zip (absZ g b) w) ∧
       env'.scripts = (Eng.poll zip (absZ g b) w).w.scripts ∧
       env'.handed = (Eng.poll zip (absZ g b) w).w.handed ∧
       (Eng.poll zip (absZ g b) w).w.trace = .pollEnd (outcomeOfZip ret) :: env'.trace) ∧
      g'.roleKids.len = N ∧ HandedIn N env' ∧ StreamStepsF env' :=
  zt_poll_tie_core N g b w hW hS hH hd

/-- `Zip::new` on a tuple of `N ≥ 1` inputs gives a well-formed zip over these inputs that has not ended: the
    hypotheses are satisfiable -/
theorem new_wf (N : Nat) (kids : Rs.Kids) (hk : kids.len = N) (hn : 0 < N) :
    ∃ g, Zip.new N kids = some g ∧ WfZ N g ∧ g.roleDone = false ∧ g.roleKids = kids := by
  obtain ⟨r, h1, h2, _⟩ := TieArr.new_tie N (World.init .std N (fun _ => []))
  refine ⟨_, by simp [Zip.new, WakerArray.new, h1]; rfl, ⟨hk, h2, rfl, rfl, hn, ?_⟩, rfl, rfl⟩
  intro i _
  exact Or.inl ⟨rfl, rfl⟩

end TieZipT

/-! ## non-vacuity: a concrete instance of the hypotheses, and the conclusions checked by evaluation -/
namespace TieZipTEx
open ZipT TieZipT

/-- two streams; child 0 yields 1 at once, child 1 is pending first (and wakes itself), then yields 8 -/
def sc : Nat → List Step := fun c =>
  if c = 0 then [⟨.item 1, []⟩, ⟨.item 2, []⟩, ⟨.fin, []⟩]
  else if c = 1 then [⟨.pend, [(1, 0)]⟩, ⟨.item 8, []⟩, ⟨.item 9, []⟩]
  else []

def b0 : Eng Fix := { w := World.init .std 2 sc, s := Fix.init 2 0 }

example : StreamStepsF b0.w := by
  intro c st h
  simp only [b0, World.init, sc] at h
  split at h
  · simp at h; rcases h with rfl | rfl | rfl <;> simp
  · split at h
    · simp at h; rcases h with rfl | rfl | rfl <;> simp
    · simp at h

example : ∀ c i, Wk.sub i ∈ b0.w.handed c → i < 2 := by
  intro c i h; simp [b0, World.init] at h

example : ∃ g, Zip.new 2 ⟨2⟩ = some g ∧ WfZ 2 g ∧ g.roleDone = false ∧ g.roleKids = ⟨2⟩ :=
  new_wf 2 ⟨2⟩ rfl (by decide)

/-- the conclusion of `poll_tie` on `Zip::new(2 streams)`, first poll, checked by evaluation: no panic, `Pending`
    (child 1 is not ready), the item 1 is buffered in slot 0, and trace, readiness count and parent waker, the flags,
    states and buffered items of the two slots, the remaining scripts and the handed-out wakers agree -/
example :
    (do let g ← Zip.new 2 ⟨2⟩
        let (g', env', ret) ← Zip.poll_next 2 g 1 ((absZ g b0).w.emit (.pollBegin 1))
        let m := Eng.poll zip (absZ g b0) 1
        let a := absZ g' b0
        pure (decide (m.w.trace = .pollEnd (outcomeOfZip ret) :: env'.trace) &&
              decide (outcomeOfZip ret = .pending) &&
              decide (a.s.n = m.s.n ∧ a.s.dead = m.s.dead ∧ m.s.out 0 = some 1) &&
              decide (a.w.count = m.w.count ∧ a.w.cap = m.w.cap ∧ a.w.parent = m.w.parent ∧ m.w.parent = some 1) &&
              (List.range 2).all (fun i => a.w.bits i == m.w.bits i && decide (a.s.st i = m.s.st i) &&
                decide (a.s.out i = m.s.out i) && decide (env'.handed i = m.w.handed i) &&
                decide ((env'.scripts i).map (·.res) = (m.w.scripts i).map (·.res))) &&
              decide (env'.trace.length = 7)))
      = some true := by decide

/-- the second poll completes the row `[1, 8]` -/
example :
    (do let g ← Zip.new 2 ⟨2⟩
        let (g1, env1, _) ← Zip.poll_next 2 g 1 ((absZ g b0).w.emit (.pollBegin 1))
        let b1 : Eng Fix := { w := env1.emit (.pollEnd .pending), s := b0.s }
        let (g', env', ret) ← Zip.poll_next 2 g1 2 ((absZ g1 b1).w.emit (.pollBegin 2))
        let m := Eng.poll zip (absZ g1 b1) 2
        let a := absZ g' b1
        pure (decide (m.w.trace = .pollEnd (outcomeOfZip ret) :: env'.trace) &&
              decide (outcomeOfZip ret = .some 0 [1, 8]) &&
              decide (a.w.count = m.w.count ∧ m.w.count = 2) &&
              (List.range 2).all (fun i => a.w.bits i == m.w.bits i && decide (a.s.st i = m.s.st i) &&
                decide (a.s.out i = m.s.out i) && decide (m.s.out i = none))))
      = some true := by decide

/-- the conclusion of `drop_tie` after the first poll: the buffered item 1 is released, then the two inputs -/
example :
    (do let g ← Zip.new 2 ⟨2⟩
        let (g1, env1, _) ← Zip.poll_next 2 g 1 ((absZ g b0).w.emit (.pollBegin 1))
        let b1 : Eng Fix := { w := env1.emit (.pollEnd .pending), s := b0.s }
        let (_, env', _) ← Zip.drop 2 g1 ((absZ g1 b1).w.emit .dropBegin)
        pure (decide ((Eng.drop zip (absZ g1 b1)).w.trace =
                .dropEnd :: (((List.range 2).map (fun i => Ev.childDropped i)).reverse ++ env'.trace)) &&
              decide (env'.trace.head? = some (.valDropped 1))))
      = some true := by decide

/-- a second instance for the end of the zip: child 0 yields 1 and then ends, child 1 yields 8, 9 -/
def scE : Nat → List Step := fun c =>
  if c = 0 then [⟨.item 1, []⟩, ⟨.fin, []⟩]
  else if c = 1 then [⟨.item 8, []⟩, ⟨.item 9, []⟩]
  else []

def bE : Eng Fix := { w := World.init .std 2 scE, s := Fix.init 2 0 }

example : StreamStepsF bE.w := by
  intro c st h
  simp only [bE, World.init, scE] at h
  split at h
  · simp at h; rcases h with rfl | rfl <;> simp
  · split at h
    · simp at h; rcases h with rfl | rfl <;> simp
    · simp at h

example : ∀ c i, Wk.sub i ∈ bE.w.handed c → i < 2 := by
  intro c i h; simp [bE, World.init] at h

/-- the first poll yields the row `[1, 8]`; the second poll ends the zip on the FIRST `None` (child 0): `Ready(None)`,
    the `done` flag is set on both sides, child 1 is not polled again (its `9` stays in the script), and trace, flags,
    states, buffered items, scripts and handed-out wakers agree -/
example :
    (do let g ← Zip.new 2 ⟨2⟩
        let (g1, env1, ret1) ← Zip.poll_next 2 g 1 ((absZ g bE).w.emit (.pollBegin 1))
        let b1 : Eng Fix := { w := env1.emit (.pollEnd (outcomeOfZip ret1)), s := bE.s }
        let (g', env', ret) ← Zip.poll_next 2 g1 2 ((absZ g1 b1).w.emit (.pollBegin 2))
        let m := Eng.poll zip (absZ g1 b1) 2
        let a := absZ g' b1
        pure (decide (outcomeOfZip ret1 = .some 0 [1, 8]) &&
              decide (g1.roleDone = false) &&
              decide (m.w.trace = .pollEnd (outcomeOfZip ret) :: env'.trace) &&
              decide (outcomeOfZip ret = .none) &&
              decide (a.s.dead = m.s.dead ∧ m.s.dead = true ∧ g'.roleDone = true) &&
              decide (a.w.count = m.w.count ∧ a.w.cap = m.w.cap ∧ a.w.parent = m.w.parent) &&
              decide ((env'.scripts 1).map (·.res) = [.item 9]) &&
              (List.range 2).all (fun i => a.w.bits i == m.w.bits i && decide (a.s.st i = m.s.st i) &&
                decide (a.s.out i = m.s.out i) && decide (env'.handed i = m.w.handed i) &&
                decide ((env'.scripts i).map (·.res) = (m.w.scripts i).map (·.res)))))
      = some true := by decide

end TieZipTEx

#print axioms TieZipT.poll_tie
#print axioms TieZipT.drop_tie
#print axioms TieZipT.poll_tie_strong
#print axioms TieZipT.new_wf

end Fc
