/-
  C01 — No lost wake-ups, for ONE LEVEL OF NESTING: an outer combinator some of whose children are
  themselves combinators ("inner instances") over scripted leaves (model: Fc/Nest.lean, the
  lock-step composition of the existing engine instances).

  Property `Nest.holdsNest nc` (Fc/Nest.lean): at every operation boundary of the history
  (after every prefix of `nc.ops`, including the empty one and the whole history)

    * `Nest.quietAt`: while the outer instance is alive (not dropped) and its last poll returned
      Pending,
        (1) for every direct child `c < n` of the outer instance (plain or nested) whose last
            answer was Pending (`lastRes`), that was not released (`gone`) and whose latest waker
            was invoked since its latest poll began (`owes`): the task waker of the most recent
            top-level poll was invoked since that poll began (`wokeSince` on the OUTER trace);
        (2) for every nested child `c` whose latest answer was Pending and that was not released,
            and every leaf `g` of its inner instance whose last answer (to the inner instance)
            was Pending, that was not released by the inner instance and whose latest waker was
            invoked since its latest poll began (all read off the INNER instance's trace): the
            TASK waker was invoked since the latest top-level poll began (`wokeSince` on the OUTER
            trace) — the wake-up travelled through both levels;
    * `Nest.noWakePanic`: no waker invocation panics at either level, and a poll of either level
      only unwinds if one of its children panicked in it (`c01NoPanic` of every instance).

  Proof (FcLemmas/Nest*.lean): the boundary invariant of the nest is
      flat C01 invariant of the outer instance  ∧  flat C01 invariant of every inner instance
      ∧  `Nest.LinkC` for every nested child
  where the flat invariants are the ones already proved for the flat families (std mode, direct
  mode, sequential families; `Flat`, FcLemmas/NestFlat.lean — they do not look at the scripts, so
  they survive the replacement of the outer instance's scripts by the speculative answers), and
  `LinkC` says: the inner instance's task waker is the number of its latest committed poll; every
  outer poll of `c` hands one waker and commits one inner poll; `c` answered Pending only if the
  inner poll returned Pending; a wake-up of the inner instance's current task waker is an
  invocation of the waker `c` currently holds (`owes c` on the outer trace); and while the outer
  instance lives the inner instance is dropped only if `c` was released.  The outer poll is
  analysed per nested child (FcLemmas/NestPoll.lean): the child is polled at most once per poll
  (the scan order has no repetitions), and if it is polled its in-poll wake-up `(c, 0)` makes it
  owe.
-/
import FcLemmas.NestInv

namespace Fc
open Mon

/-- the property at full strength (every family at both levels) -/
def C01_nest_statement : Prop := ∀ nc : Nest.NCase, Nest.holdsNest nc = true

/-- C01 for a nest with one level of nesting: every outer and inner family among join, try_join
    (array/Vec and tuple models), race, race_ok (all variants), merge, zip, chain, wait_until
    (future / stream); every number of children and of leaves, every nesting pattern, all leaf and
    child scripts (Pending steps with in-poll wake-ups of any handed-out waker, results, items,
    ends, panics), all histories of top-level polls with arbitrary task wakers, wake-ups between
    polls of outer children, nested children and leaves (current, stale, repeated, after
    completion, after the drop) and the drop; both waker strategies. -/
theorem C01_nest (nc : Nest.NCase)
    (ho : nc.outer.isConc = true ∨ nc.outer.isSeq = true)
    (hi : ∀ c fam k, nc.inner c = some (fam, k) → fam.isConc = true ∨ fam.isSeq = true) :
    Nest.holdsNest nc = true := by
  unfold Nest.holdsNest
  simp only [List.all_eq_true, List.mem_range, Bool.and_eq_true]
  intro k _
  have h := Nest.ninv_foldl (order_nodup nc.outer ho) (nc.ops.take k) _ (Nest.ninv_init nc ho hi)
  exact ⟨Nest.quietAt_of_ninv h, Nest.noWakePanic_of_ninv h⟩

/-! ### non-vacuity -/

/-- outer `merge` over 2 children: child 0 = an inner `zip` over the leaves 100, 101; child 1 plain.
    Poll 1: leaf 100 wakes itself from inside its poll (so the zip wakes its task waker, i.e. the
    waker the merge handed to child 0, inside the merge's poll), everything pends; the plain child 1
    also invokes child 0's waker.  Leaf 101 is woken between polls; poll 2: the zip yields a row;
    child 1 is woken; poll 3: the zip ends, child 1 pends; then a wake-up of leaf 100 (the zip has
    ended: it still forwards the wake-up, stale for the merge) and of an old waker of leaf 101;
    polls 4, 5 with fresh task wakers; drop; a wake-up after the drop. -/
def C01nest_ops : List Op :=
  [.poll 1, .fire 101 0, .poll 2, .fire 1 0, .poll 3, .fire 100 0, .fire 101 1, .poll 4, .poll 5,
   .drop, .fire 100 0]

def C01nest_example (m : Mode) (ops : List Op) : Nest.NCase :=
  { mode := m, outer := .merge, n := 2,
    inner := fun c => if c = 0 then some (.zip, 2) else none,
    scripts := fun id =>
      if id = 100 then [⟨.pend, [(100, 0)]⟩, ⟨.item 1, []⟩, ⟨.fin, []⟩]
      else if id = 101 then [⟨.pend, []⟩, ⟨.item 2, []⟩, ⟨.pend, [(100, 0)]⟩, ⟨.fin, []⟩]
      else if id = 1 then [⟨.pend, [(0, 0)]⟩, ⟨.pend, []⟩, ⟨.item 5, []⟩, ⟨.fin, []⟩]
      else [],
    ops := ops }

def isWokeEv : Ev → Bool
  | .woke _ => true
  | _ => false

example : Nest.holdsNest (C01nest_example .std C01nest_ops) = true := by decide
example : Nest.holdsNest (C01nest_example .direct C01nest_ops) = true := by decide
/-- the same history for a sequential outer `chain` over an inner `race` (pass-through at both
    levels: the leaves hold the number of the inner poll as their waker) -/
example : Nest.holdsNest { C01nest_example .std C01nest_ops with
    outer := .chain, inner := fun c => if c = 0 then some (.race, 2) else none } = true := by decide

/-- the task is woken: 1 (inside poll 1, through both levels), 2 (child 1), 3 (leaf 100's stale
    wake-up reaches the merge's sub-waker of the finished child 0) -/
example : ((Nest.run (C01nest_example .std C01nest_ops)).out.w.trace.reverse.filter isWokeEv)
    = [.woke 1, .woke 2, .woke 3] := by decide
/-- the inner zip woke its task wakers 1 (in its first poll and again between polls) and 3 -/
example : (((Nest.run (C01nest_example .std C01nest_ops)).inn 0).w.trace.reverse.filter isWokeEv)
    = [.woke 1, .woke 1, .woke 3] := by decide
example : (Nest.run (C01nest_example .std C01nest_ops)).out.w.trace.contains (.pollEnd (.some 0 [9001]))
    = true := by decide
example : ((Nest.run (C01nest_example .std C01nest_ops)).inn 0).w.trace.contains (.pollEnd (.some 0 [1, 2]))
    = true := by decide

/-- after `.fire 101 0` (leaf 101's waker between polls 1 and 2): the leaf owes on the inner trace,
    the nested child owes on the outer trace, and the task (waker 1) has been woken -/
example : owes ((Nest.run (C01nest_example .std (C01nest_ops.take 2))).inn 0).w.trace 1 = true := by
  decide
example : owes (Nest.run (C01nest_example .std (C01nest_ops.take 2))).out.w.trace 0 = true := by decide
example : wokeSince (Nest.run (C01nest_example .std (C01nest_ops.take 2))).out.w.trace = true := by
  decide

/-- `quietAt` can fail: a hand-made state in which leaf 0 of the inner instance of child 0 was
    woken (and the inner instance woke ITS task waker) but the wake-up did not reach the outer
    instance — a lost wake-up between the levels -/
def C01nest_nc1 : Nest.NCase :=
  { mode := .std, outer := .merge, n := 1, inner := fun c => if c = 0 then some (.zip, 1) else none,
    scripts := fun _ => [], ops := [] }

def C01nest_bad (outerTrace : List Ev) : Nest.St :=
  { out := { w := { World.init .std 1 (fun _ => []) with trace := outerTrace }, s := Fix.init 1 0 },
    inn := fun _ =>
      { w := { World.init .std 1 (fun _ => []) with
               trace := [.woke 1, .fired 0 0 (some (.sub 0)), .pollEnd .pending, .childEnd 0 .pend,
                         .childBegin 0 0 (.sub 0), .pollBegin 1] },
        s := Fix.init 1 0 },
    polls := fun _ => 1, gone := fun _ => false }

example : Nest.quietAt C01nest_nc1 (C01nest_bad
    [.pollEnd .pending, .childEnd 0 .pend, .childBegin 0 0 (.sub 0), .pollBegin 7]) = false := by decide
/-- … and accepts the state in which the wake-up was forwarded to the task -/
example : Nest.quietAt C01nest_nc1 (C01nest_bad
    [.woke 7, .fired 0 0 (some (.sub 0)),
     .pollEnd .pending, .childEnd 0 .pend, .childBegin 0 0 (.sub 0), .pollBegin 7]) = true := by decide
/-- … and rejects it when only a STALE task waker was woken -/
example : Nest.quietAt C01nest_nc1 (C01nest_bad
    [.woke 6, .fired 0 0 (some (.sub 0)),
     .pollEnd .pending, .childEnd 0 .pend, .childBegin 0 0 (.sub 0), .pollBegin 7]) = false := by decide

end Fc

#print axioms Fc.C01_nest
