/-
  Kernel tie, `[Fut; N]::try_join()` (src/future/try_join/array.rs): `TryJoin::poll` (incl. the short-circuit on the
  first `Err`) and the `PinnedDrop` destructor, TRANSLATED FROM THE CURRENT SOURCE (tools/rs2lean.py →
  FcGen/KSrcArr2.lean), refine `Eng.poll tryJoinSlice` / `Eng.drop tryJoinSlice` of the model.  The array counterpart
  of FcProps/KTieTryJoin.lean (see FcProps/KTieJoinArr.lean for what differs).  Proofs: FcProps/KTieTryJoinA.lean.
-/
import FcGen.KSrcArr2
import FcProps.KTieCore
import FcProps.KTieStd
import FcProps.KTiePS

namespace Fc
open Rs Src

namespace TieTryJoinA
open TryJoinA

def absT (g : TryJoin) (b : Eng Fix) : Eng Fix :=
  { w := TieArr.abs g.roleWakers.readiness b.w,
    s := { b.s with n := g.roleKids.len, st := fun i => TiePS.abs (g.roleStates.get i), out := g.roleItems.get,
                    cnt := g.roleCount, dead := g.roleDone } }

structure WfT (N : Nat) (g : TryJoin) : Prop where
  kn : g.roleKids.len = N
  rd : TieArr.Wf N g.roleWakers.readiness
  sl : g.roleStates.len = N
  ic : g.roleItems.cap = N
  pc : g.roleCount = ((List.range N).filter (fun i => g.roleStates.get i = PS.PollState.pending)).length
  rs : ∀ i, i < N → (g.roleStates.get i = PS.PollState.pending ∨
        (g.roleStates.get i = PS.PollState.ready ∧ ∃ v, g.roleItems.get i = some v))

/-- as for the Vec container: `jcore` verbatim for `Pending` and `Ready(Err(_))`, `jcoreDone` for `Ready(Ok(_))` -/
def poll_tie_statement : Prop :=
  ∀ (N : Nat) (g : TryJoin) (b : Eng Fix) (w : Nat),
    WfT N g → FutStepsF b.w → (∀ c i, Wk.sub i ∈ b.w.handed c → i < N) → g.roleDone = false →
    ∃ g' env' ret,
      TryJoin.poll N g w ((absT g b).w.emit (.pollBegin w)) = some (g', env', ret) ∧
      (ret = .pending → WfT N g') ∧
      ((∀ vs, ret ≠ .ready (.ok vs)) → jcore (absT g' b) = jcore (Eng.poll tryJoinSlice (absT g b) w)) ∧
      ((∃ vs, ret = .ready (.ok vs)) → TieTryJoinV.jcoreDone N (absT g' b) (Eng.poll tryJoinSlice (absT g b) w)) ∧
      env'.scripts = (Eng.poll tryJoinSlice (absT g b) w).w.scripts ∧
      env'.handed = (Eng.poll tryJoinSlice (absT g b) w).w.handed ∧
      (Eng.poll tryJoinSlice (absT g b) w).w.trace = .pollEnd (outcomeOfTryJoin ret) :: env'.trace

/-- dropping a try_join that has not completed -/
def drop_tie_statement : Prop :=
  ∀ (N : Nat) (g : TryJoin) (b : Eng Fix),
    WfT N g → g.roleDone = false →
    ∃ g' env',
      TryJoin.drop N g ((absT g b).w.emit .dropBegin) = some (g', env', ()) ∧
      (Eng.drop tryJoinSlice (absT g b)).w.trace = .dropEnd :: env'.trace ∧
      env'.scripts = b.w.scripts ∧ env'.handed = b.w.handed

/-- the states a failed try_join is left in (one slot `None`, the others `Pending` or `Ready` with an output) -/
structure WfFailed (N : Nat) (g : TryJoin) : Prop where
  kn : g.roleKids.len = N
  sl : g.roleStates.len = N
  ic : g.roleItems.cap = N
  rs : ∀ i, i < N → (g.roleStates.get i = PS.PollState.pending ∨ g.roleStates.get i = PS.PollState.none_ ∨
        (g.roleStates.get i = PS.PollState.ready ∧ ∃ v, g.roleItems.get i = some v))

/-- dropping a try_join after it failed: the values already produced by the other children are released (not returned),
    and the children still pending are dropped -/
def drop_failed_tie_statement : Prop :=
  ∀ (N : Nat) (g : TryJoin) (b : Eng Fix),
    WfFailed N g →
    ∃ g' env',
      TryJoin.drop N g ((absT g b).w.emit .dropBegin) = some (g', env', ()) ∧
      (Eng.drop tryJoinSlice (absT g b)).w.trace = .dropEnd :: env'.trace

end TieTryJoinA
end Fc
