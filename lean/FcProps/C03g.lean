/-
  C03 — poll discipline, for the groups (FutureGroup / StreamGroup).

  Monitor `Mon.holds_C03 (group := true)` (Fc/Monitors.lean): at every `childBegin c _ _` of the
  trace, with `t` = the trace before it,
    * `c`'s previous poll did not finish it (`Ready` / end of stream)        (`!finished t c`),
    * a top-level poll of the group is open                                   (`inPoll t`),
    * no top-level poll produced a final result (`pollEnd (ready ..)`; a group never does, and
      `None` is not final for a group: it can be refilled)                    (`!finalSeen true t`),
    * `c` was not released: dropped on completion, removed, or dropped with the group
                                                                              (`!gone t c`),
    * the group itself was not dropped                                        (`alive t`).
  The theorem covers every history of `insert` / `extend` / `remove` / `reserve` / queries /
  polls / wake-ups (stale ones included) / drop, in both waker modes, keyed or not.

  Hypotheses.
    * `hk : c.kindOk` — members of a FutureGroup are futures, members of a StreamGroup are streams.
      Needed: `C03g_needs_kind` below (a FutureGroup "member" that answers end-of-stream leaves its
      key in the key set with the removal queue unflushed; the model's `remove` of that key then
      releases the wrong member, which is polled afterwards).
    * `hw : c.insertsFresh` — every inserted future / stream is a new object (no child id is
      inserted twice).  Needed: `C03g_needs_fresh` (re-inserting a completed member's id makes
      the monitor see a finished, released child being polled).
-/
import FcLemmas.GOwnRun
import Fc.Holds

namespace Fc
open Mon

theorem C03_discipline_group (c : Case) (hg : c.fam.isGroup = true) (hk : c.kindOk)
    (hw : Case.insertsFresh c) : holds_C03 true c.trace = true := by
  obtain ⟨⟨F, h⟩, _⟩ := GOwn.run_case c hg hk hw
  unfold Case.trace
  rw [if_pos hg]
  exact h.2.c03

/-! ### non-vacuity -/

/-- a FutureGroup: three members inserted (keys 0 1 2); the first poll leaves 0 pending and
    returns 1's output; member 0 is removed and member 3 inserted into the reused slot 0; the
    removed member's stale waker fires; a poll finds 3 and 2 pending; 2 is woken and resolves in
    the next poll; the group is dropped with member 3 still pending -/
def C03g_example : Case :=
  { fam := .futGroup, mode := .std, keyed := true, n := 4,
    scripts := fun c => if c = 0 then [⟨.pend, []⟩]
                        else if c = 1 then [⟨.ready true 11, []⟩]
                        else if c = 2 then [⟨.pend, []⟩, ⟨.ready true 22, []⟩]
                        else if c = 3 then [⟨.pend, []⟩, ⟨.pend, []⟩] else [],
    ops := [.insert 0, .insert 1, .insert 2, .poll 1, .remove 0, .insert 3, .fire 0 0, .poll 2,
            .fire 2 0, .poll 3, .drop] }

example : C03g_example.insertsFresh := by decide
example : holds_C03 true C03g_example.trace = true := by decide
example : C03g_example.run =
    [.inserted 0 0, .inserted 1 1, .inserted 2 2,
     .pollBegin 1, .childBegin 0 0 (.sub 0), .childEnd 0 .pend,
       .childBegin 1 1 (.sub 1), .childEnd 1 (.ready true 11), .childDropped 1,
       .pollEnd (.some 1 [11]),
     .childDropped 0, .removed 0 true, .inserted 3 0, .fired 0 0 (some (.sub 0)),
     .pollBegin 2, .childBegin 3 0 (.sub 0), .childEnd 3 .pend,
       .childBegin 2 2 (.sub 2), .childEnd 2 .pend, .pollEnd .pending,
     .fired 2 0 (some (.sub 2)), .woke 2,
     .pollBegin 3, .childBegin 2 2 (.sub 2), .childEnd 2 (.ready true 22), .childDropped 2,
       .pollEnd (.some 2 [22]),
     .dropBegin, .childDropped 3, .dropEnd] := by decide

/-- a StreamGroup: a member ends (key queued for removal, flushed when the next item is
    returned), the group runs empty (`None`), is refilled and polled again -/
def C03g_stream_example : Case :=
  { fam := .strGroup, mode := .direct, keyed := false, n := 3,
    scripts := fun c => if c = 0 then [⟨.fin, []⟩]
                        else if c = 1 then [⟨.item 7, []⟩, ⟨.fin, []⟩]
                        else if c = 2 then [⟨.item 9, []⟩] else [],
    ops := [.extend [0, 1], .poll 1, .poll 2, .poll 3, .insert 2, .poll 4, .drop, .poll 5] }

example : holds_C03 true C03g_stream_example.trace = true := by decide
example : C03g_stream_example.run.contains (.pollEnd .none) = true := by decide
example : C03g_stream_example.run.contains (.childBegin 2 1 (.par 4)) = true := by decide

/-- why `hw`: the id of a completed member is inserted again and polled -/
def C03g_twice : Case :=
  { fam := .futGroup, mode := .direct, keyed := true, n := 1,
    scripts := fun c => if c = 0 then [⟨.ready true 5, []⟩, ⟨.pend, []⟩] else [],
    ops := [.insert 0, .poll 1, .insert 0, .poll 2] }

theorem C03g_needs_fresh : holds_C03 true C03g_twice.trace = false := by decide

/-- why `hk`: a FutureGroup member answers end-of-stream (1), another resolves (2) in the same
    poll, so key 1 stays in the key set with an empty slot; `remove` of that key then releases
    member 0 (the model's `getD 0`), which the next poll polls -/
def C03g_noKind : Case :=
  { fam := .futGroup, mode := .direct, keyed := true, n := 4,
    scripts := fun c => if c = 0 then [⟨.pend, []⟩, ⟨.pend, []⟩]
                        else if c = 1 then [⟨.fin, []⟩]
                        else if c = 2 then [⟨.ready true 5, []⟩] else [],
    ops := [.insert 0, .insert 1, .insert 2, .insert 3, .poll 1, .remove 1, .poll 2] }

example : C03g_noKind.insertsFresh := by decide
theorem C03g_needs_kind : holds_C03 true C03g_noKind.trace = false := by decide

/-! the monitor rejects wrong traces (newest first) -/

/-- a removed member is polled -/
example : holds_C03 true
    [.childBegin 0 0 (.sub 0), .pollBegin 2, .removed 0 true, .childDropped 0, .pollEnd .pending,
     .childEnd 0 .pend, .childBegin 0 0 (.sub 0), .pollBegin 1, .inserted 0 0] = false := by decide
/-- a completed member is polled again -/
example : holds_C03 true
    [.childBegin 0 0 (.sub 0), .pollBegin 2, .pollEnd (.some 0 [4]), .childEnd 0 (.ready true 4),
     .childBegin 0 0 (.sub 0), .pollBegin 1, .inserted 0 0] = false := by decide
/-- a member is polled outside a poll of the group -/
example : holds_C03 true [.childBegin 0 0 (.sub 0), .inserted 0 0] = false := by decide
/-- a member is polled after the group was dropped -/
example : holds_C03 true
    [.childBegin 0 0 (.sub 0), .pollBegin 1, .dropEnd, .dropBegin, .inserted 0 0] = false := by
  decide
/-- … whereas polling after `None` is fine for a group (and only for a group) -/
example : holds_C03 true
    [.childBegin 0 0 (.sub 0), .pollBegin 2, .inserted 0 0, .pollEnd .none, .pollBegin 1] = true := by
  decide
example : holds_C03 false
    [.childBegin 0 0 (.sub 0), .pollBegin 2, .inserted 0 0, .pollEnd .none, .pollBegin 1] = false := by
  decide

end Fc

#print axioms Fc.C03_discipline_group
#print axioms Fc.C03g_needs_fresh
#print axioms Fc.C03g_needs_kind
