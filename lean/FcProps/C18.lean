/-
  C18 — thread-safety auto traits are preserved (Send/Sync in, Send/Sync out).

  `AT.auto env ext ρ fuel t` (Fc/AutoTraits.lean) models rustc's derivation of the auto traits for a
  type `t` from the field types of the crate's declarations (`env`), the rule table of the external
  type constructors that occur (`ext`) and an assignment `ρ` of (Send, Sync) to the neutral types —
  the type parameters of the declaration and their associated-type projections such as
  `<Fut as Future>::Output` (i.e. the child futures / streams, closures, and their outputs).
  `env_std` / `env_alloc` are GENERATED from /repo's macro-expanded source on every run
  (FcGen/Types.lean), so these theorems are re-checked against what the code says now.

  Statement, for every struct / enum `i` the crate hands out as a future, stream, concurrent stream or
  consumer (`roots_*`: the declarations with an `impl` of Future / Stream / ConcurrentStream /
  Consumer / Into…, found by the translator — all 12 tuple arities of every combinator, array and Vec
  types, FutureGroup, StreamGroup, their keyed views, the adapters, consumers and work-future types of
  the concurrent streams).  Every other declaration (waker containers, readiness sets, output and
  poll-state tables, …) matters exactly as a field of one of these and is reached through it by the
  derivation; a helper type that no produced type contains is not the property's business:
    * `C18_send_*`: for EVERY assignment `ρ` under which every neutral type the declaration depends on
      is Send, the declaration (applied to its own parameters) is Send;
    * `C18_sync_*`: likewise with Sync.
  The opaque futures of the `async fn`s (`for_each`, `try_for_each`, `collect`, `drive`) have no
  declaration in the source; they are covered by the rustc probes of the check only.
-/
import FcGen.Types
import FcLemmas.AutoTraits

namespace Fc
open AT AT.Gen

def C18_fuel : Nat := 12

/-- the generated table, all produced types, checked by kernel evaluation -/
theorem C18_table_std :
    roots_std.all
      (fun i => sendOK env_std ext C18_fuel i && syncOK env_std ext C18_fuel i) = true := by
  decide +kernel

theorem C18_table_alloc :
    roots_alloc.all
      (fun i => sendOK env_alloc ext C18_fuel i && syncOK env_alloc ext C18_fuel i) = true := by
  decide +kernel

theorem C18_send_std (i : Nat) (hi : i ∈ roots_std) (ρ : List Nat → Bool × Bool)
    (hρ : ∀ p ∈ neutrals env_std C18_fuel (ownTy env_std i), (ρ p).1 = true) :
    (auto env_std ext ρ C18_fuel (ownTy env_std i)).1 = true := by
  have h := List.all_eq_true.mp C18_table_std i hi
  simp only [Bool.and_eq_true] at h
  exact send_of_sendOnly _ _ _ _ _ h.1 ρ hρ

theorem C18_sync_std (i : Nat) (hi : i ∈ roots_std) (ρ : List Nat → Bool × Bool)
    (hρ : ∀ p ∈ neutrals env_std C18_fuel (ownTy env_std i), (ρ p).2 = true) :
    (auto env_std ext ρ C18_fuel (ownTy env_std i)).2 = true := by
  have h := List.all_eq_true.mp C18_table_std i hi
  simp only [Bool.and_eq_true] at h
  exact sync_of_syncOnly _ _ _ _ _ h.2 ρ hρ

theorem C18_send_alloc (i : Nat) (hi : i ∈ roots_alloc) (ρ : List Nat → Bool × Bool)
    (hρ : ∀ p ∈ neutrals env_alloc C18_fuel (ownTy env_alloc i), (ρ p).1 = true) :
    (auto env_alloc ext ρ C18_fuel (ownTy env_alloc i)).1 = true := by
  have h := List.all_eq_true.mp C18_table_alloc i hi
  simp only [Bool.and_eq_true] at h
  exact send_of_sendOnly _ _ _ _ _ h.1 ρ hρ

theorem C18_sync_alloc (i : Nat) (hi : i ∈ roots_alloc) (ρ : List Nat → Bool × Bool)
    (hρ : ∀ p ∈ neutrals env_alloc C18_fuel (ownTy env_alloc i), (ρ p).2 = true) :
    (auto env_alloc ext ρ C18_fuel (ownTy env_alloc i)).2 = true := by
  have h := List.all_eq_true.mp C18_table_alloc i hi
  simp only [Bool.and_eq_true] at h
  exact sync_of_syncOnly _ _ _ _ _ h.2 ρ hρ

/-! non-vacuity: the model refuses what rustc refuses -/

/-- a consumer whose in-flight counter is `Rc<Cell<usize>>` instead of `Arc<AtomicUsize>`
    (constructor ids: 10001 Box … see `ext`; `Rc` and `Cell` by their rules) -/
def C18_bad_env : List Decl := [⟨1, [.neu [0], .app 30000 [.app 30001 [.prim]]]⟩]
def C18_bad_ext : Nat → Rule | 30000 => .never | 30001 => .cell | _ => .never

example : sendOK C18_bad_env C18_bad_ext 12 0 = false := by decide
/-- sharing a closure through `Arc<F>` makes Send depend on `F: Sync` -/
def C18_arc_env : List Decl := [⟨1, [.app 30000 [.neu [0]]]⟩]
def C18_arc_ext : Nat → Rule | 30000 => .arc | _ => .never
example : sendOK C18_arc_env C18_arc_ext 12 0 = false := by decide
example : (auto C18_arc_env C18_arc_ext (both [[0]]) 12 (ownTy C18_arc_env 0)).1 = true := by decide
/-- the generated table is not empty and mentions the interesting types -/
example : 200 < env_std.length := by decide +kernel
example : 100 < roots_std.length ∧ 100 < roots_alloc.length := by decide +kernel
example : roots_std.all (· < env_std.length) = true ∧ roots_alloc.all (· < env_alloc.length) = true := by
  decide +kernel
def C18_rootNames (names : List String) (roots : List Nat) : List String := roots.filterMap (names[·]?)
example : (C18_rootNames names_std roots_std).contains "future::future_group::FutureGroup" = true := by decide +kernel
example : (C18_rootNames names_std roots_std).contains "stream::stream_group::StreamGroup" = true := by decide +kernel
example : (C18_rootNames names_std roots_std).contains "concurrent_stream::for_each::ForEachConsumer" = true := by
  decide +kernel
example : (C18_rootNames names_std roots_std).contains "future::join::tuple::Join12" = true := by decide +kernel
/-- the waker container is not a root but a field of the roots: making it thread-affine is seen
    through them (seeded change C18/m2) -/
example : (C18_rootNames names_std roots_std).contains "utils::wakers::array::waker_array::WakerArray" = false := by
  decide +kernel

end Fc

#print axioms Fc.C18_table_std
#print axioms Fc.C18_table_alloc
#print axioms Fc.C18_send_std
#print axioms Fc.C18_sync_std
#print axioms Fc.C18_send_alloc
#print axioms Fc.C18_sync_alloc
