/-
  Kernel tie, no_std / alloc-only builds, `Vec<Fut>::try_join()` (src/future/try_join/vec.rs compiled against
  src/utils/wakers/vec/no_std.rs): the translated `TryJoin::poll` and the translated `PinnedDrop` destructor
  `TryJoin::drop` of that flavour (FcGen/KSrcFam3D.lean, generated from the current source) refine
  `Eng.poll tryJoinSlice` / `Eng.drop tryJoinSlice` of the model in `direct` mode.  Statements: namespace `TieTryJoinVD`
  of FcProps/KTieTryJoinDir.lean; proofs: FcLemmas/KTieTryJoinVD{Env,Loop,Main,Poll,Drop}.lean (the model side, the list
  facts and the loop rules are those of the std proof, FcLemmas/KTieTryJoin{Loop,Aux,Main,Drop}.lean).

  `poll_tie`: from a well-formed live try_join (`WfT`: the tables have the size of the children, `pending` counts the
  `Pending` slots, a `Ready` slot holds a value; `consumed = false`) and an environment whose children answer like
  futures (`FutStepsF`), one call of the translated `poll` with task waker `w` does not panic (no index out of bounds, no
  `pending - 1` underflow, `wakers.get(i)` finds the parent waker that `set_waker` has just stored, the
  `debug_assert!(state.is_ready())` holds, no uninitialised output slot is read), returns the
  `Poll<Result<Vec<T>, E>>` of the model's outcome, and leaves a combinator + environment whose reading (`absT`, through
  `TieDir.absV`: mode `direct`, the stored parent waker, the readiness fields of the environment untouched) is the
  model state after `Eng.poll tryJoinSlice · w`: every `Pending` child is polled on every poll, with the caller's own
  waker `Wk.par w`.  Same remaining scripts, same handed-out wakers, same trace (the model's closing `pollEnd` is
  logged by the caller); `WfT` is kept while the answer is `Pending`.  As in the std flavour the clause about `jcore` is
  `jcoreDone` after a poll that completes with `Ready(Ok(_))`.

  The hypothesis about the handed-out sub-wakers of the std statement is kept in the statement but NOT used by the proof:
  this flavour never creates a sub-waker (`poll_tie_strong` shows that it is preserved anyway: only `Wk.par` is handed
  out).

  `drop_tie` / `drop_failed_tie`: the destructor of a live try_join (`WfT`) resp. of one that failed (`WfFailed`) does
  not panic and logs what `Eng.drop tryJoinSlice` logs: the values already produced are released in slot order, then
  the children still pending are dropped in slot order.
-/
import FcProps.KTieTryJoinDir
import FcLemmas.KTieTryJoinVDPoll
import FcLemmas.KTieTryJoinVDDrop

set_option linter.unusedSimpArgs false
set_option linter.unusedVariables false

namespace Fc
open Rs Src

namespace TieTryJoinVD
open TryJoinVD

theorem poll_tie : poll_tie_statement := by
  intro g b w hW hS hH hd
  obtain ⟨g', env', ret, h1, h2, h3, h4, h5, h6, h7, _⟩ := tjd_poll_core g b w hW hS hH hd
  exact ⟨g', env', ret, h1, h2, h3, h4, h5, h6, h7⟩

/-- the same refinement, and in addition what the NEXT call needs again: the children are the same, every sub-waker
    handed out so far belongs to a slot (none is ever created), the remaining scripts still answer like futures, and a
    try_join that answered `Pending` is still not `consumed` -/
theorem poll_tie_strong (g : TryJoin) (b : Eng Fix) (w : Nat) (hW : WfT g) (hS : FutStepsF b.w)
    (hH : HandedIn g.roleKids.len b.w) (hd : g.roleDone = false) :
    ∃ g' env' ret,
      TryJoin.poll g w ((absT g b).w.emit (.pollBegin w)) = some (g', env', ret) ∧
      (ret = .pending → WfT g') ∧
      ((∀ vs, ret ≠ .ready (.ok vs)) → jcore (absT g' b) = jcore (Eng.poll tryJoinSlice (absT g b) w)) ∧
      ((∃ vs, ret = .ready (.ok vs)) →
        TieTryJoinV.jcoreDone g.roleKids.len (absT g' b) (Eng.poll tryJoinSlice (absT g b) w)) ∧
      env'.scripts = (Eng.poll tryJoinSlice (absT g b) w).w.scripts ∧
      env'.handed = (Eng.poll tryJoinSlice (absT g b) w).w.handed ∧
      (Eng.poll tryJoinSlice (absT g b) w).w.trace = .pollEnd (outcomeOfTryJoin ret) :: env'.trace ∧
      g'.roleKids.len = g.roleKids.len ∧ HandedIn g.roleKids.len env' ∧ FutStepsF env' ∧
      (ret = .pending → g'.roleDone = false) := by
  obtain ⟨g', env', ret, h1, h2, h3, h4, h5, h6, h7, h8, h9, h10, h11⟩ := tjd_poll_core g b w hW hS hH hd
  exact ⟨g', env', ret, h1, h2, h3, h4, h5, h6, h7, h8, h9, h10, h11⟩

theorem drop_tie : drop_tie_statement := by
  intro g b hW _
  obtain ⟨⟨g', env', ⟨⟩⟩, h1, h2, h3, h4⟩ := tjd_drop_core g b hW.sl hW.ic (fun i hi hr => by
    rcases hW.rs i hi with h | ⟨_, h⟩
    · rw [h] at hr; cases hr
    · exact h)
  exact ⟨g', env', h1, h2, h3, h4⟩

theorem drop_failed_tie : drop_failed_tie_statement := by
  intro g b hW
  obtain ⟨⟨g', env', ⟨⟩⟩, h1, h2, _, _⟩ := tjd_drop_core g b hW.sl hW.ic (fun i hi hr => by
    rcases hW.rs i hi with h | h | ⟨_, h⟩
    · rw [h] at hr; cases hr
    · rw [h] at hr; cases hr
    · exact h)
  exact ⟨g', env', h1, h2⟩

/-- `TryJoin::new` builds a well-formed live try_join over its children: the hypotheses `WfT` / `roleDone = false` of the
    theorems above hold of every freshly built combinator -/
theorem new_wf (n : Nat) : ∃ g, TryJoin.new ⟨n⟩ = some g ∧ WfT g ∧ g.roleDone = false ∧ g.roleKids.len = n := by
  simp only [TryJoin.new, WakerVecD.new, DirVec.ReadinessVec.new, Option.bind_eq_bind, Option.bind_some,
    Option.pure_def]
  refine ⟨_, rfl, ?_, ?_, ?_⟩
  · refine ⟨rfl, rfl, ?_, fun i _ => Or.inl rfl⟩
    simp only [Rs.PVec.replicate, TryJoin.roleCount, TryJoin.roleStates, TryJoin.roleKids, decide_true]
    rw [List.filter_eq_self.mpr (fun _ _ => rfl), List.length_range]
  · rfl
  · rfl

end TieTryJoinVD

/-! ## non-vacuity: concrete instances of the hypotheses, and the conclusions checked by evaluation -/
namespace TieTryJoinVDEx
open TryJoinVD TieTryJoinVD

/-- three futures: child 0 is pending at first (it wakes the task during the poll: the waker it was handed is the caller's
    own) and then resolves to `Ok(7)`, child 1 resolves to `Ok(8)` at once, child 2 is pending twice and then fails
    with `Err(9)` -/
def sc : Nat → List Step := fun c =>
  if c = 0 then [⟨.pend, [(0, 0)]⟩, ⟨.ready true 7, []⟩]
  else if c = 1 then [⟨.ready true 8, []⟩]
  else if c = 2 then [⟨.pend, []⟩, ⟨.pend, [(2, 0)]⟩, ⟨.ready false 9, []⟩] else []

def b0 : Eng Fix := { w := World.init .direct 3 sc, s := Fix.init 3 3 }

example : FutStepsF b0.w := by
  intro c st h
  simp only [b0, World.init, sc] at h
  split at h
  · simp at h; rcases h with rfl | rfl <;> simp
  · split at h
    · simp at h; subst h; simp
    · split at h
      · simp at h; rcases h with rfl | rfl | rfl <;> simp
      · simp at h

example : ∀ c i, Wk.sub i ∈ b0.w.handed c → i < 3 := by
  intro c i h; simp [b0, World.init] at h

example : ∃ g, TryJoin.new ⟨3⟩ = some g ∧ WfT g ∧ g.roleDone = false ∧ g.roleKids.len = 3 := new_wf 3

/-- the conclusion of `poll_tie` on `TryJoin::new(3 futures)`, first poll, checked by evaluation: no panic, the answer is
    `Pending` as in the model, and trace, `pending` counter, `consumed`, mode, readiness fields and parent waker, the
    states and output slots of the three slots, the remaining scripts and the handed-out wakers agree; all three
    children were polled (`Ok(8)` of child 1 is stored) with the caller's own waker `Wk.par 1`, and child 0 woke the task
    during its poll -/
example :
    (do let g ← TryJoin.new ⟨3⟩
        let (g', env', ret) ← TryJoin.poll g 1 ((absT g b0).w.emit (.pollBegin 1))
        let m := Eng.poll tryJoinSlice (absT g b0) 1
        let a := absT g' b0
        pure (decide (m.w.trace = .pollEnd (outcomeOfTryJoin ret) :: env'.trace) &&
              decide (outcomeOfTryJoin ret = .pending) &&
              decide (a.s.n = m.s.n ∧ a.s.cnt = m.s.cnt ∧ m.s.cnt = 2 ∧ a.s.dead = m.s.dead ∧ m.s.dead = false) &&
              decide (a.w.mode = m.w.mode ∧ m.w.mode = .direct) &&
              decide (a.w.count = m.w.count ∧ a.w.cap = m.w.cap ∧ a.w.parent = m.w.parent ∧ m.w.parent = some 1) &&
              (List.range 3).all (fun i => a.w.bits i == m.w.bits i && decide (a.s.st i = m.s.st i) &&
                decide (a.s.out i = m.s.out i) && decide (env'.handed i = m.w.handed i) &&
                decide (env'.handed i = [Wk.par 1]) &&
                decide ((env'.scripts i).map (·.res) = (m.w.scripts i).map (·.res))) &&
              decide (m.s.out 1 = some 8) && decide (Ev.woke 1 ∈ env'.trace) && decide (env'.trace.length = 10)))
      = some true := by decide

/-- one run through translated code and model side by side -/
def stepM (e : Eng Fix) : Op → Eng Fix
  | .poll w => Eng.poll tryJoinSlice e w
  | .fire c a => e.fire c a
  | .drop => Eng.drop tryJoinSlice e
  | _ => e

/-- invoking a handed-out waker does not change the flag-less readiness set: the combinator is untouched -/
def stepT (st : TryJoin × World) : Op → Option (TryJoin × World)
  | .poll w => do
    let (g, env, r) ← TryJoin.poll st.1 w (st.2.emit (.pollBegin w))
    pure (g, env.emit (.pollEnd (outcomeOfTryJoin r)))
  | .fire c a => do
    let (_, env) ← Rs.fire (fun _ r => some (r, [], ())) st.1.roleWakers.readiness st.2 c a
    pure (st.1, env)
  | .drop => do
    let (g, env, _) ← TryJoin.drop st.1 (st.2.emit .dropBegin)
    pure (g, env.emit .dropEnd)
  | _ => some st

def runT (scr : Nat → List Step) (n : Nat) (os : List Op) : Option (TryJoin × World) := do
  let g ← TryJoin.new ⟨n⟩
  os.foldlM stepT (g, World.init .direct n scr)

/-- the try_join is dropped mid-flight (child 1's `Ok(8)` is released, children 0 and 2 are dropped): same trace, and it
    ends with `valDropped 8`, `childDropped 0`, `childDropped 2`, `dropEnd` -/
example :
    (runT sc 3 [.poll 1, .drop]).map (fun x =>
      decide (x.2.trace = ([Op.poll 1, .drop].foldl stepM { w := World.init .direct 3 sc, s := Fix.init 3 3 }).w.trace) &&
      decide (x.2.trace.take 4 = [.dropEnd, .childDropped 2, .childDropped 0, .valDropped 8]))
      = some true := by decide

/-- … and polled until child 2 fails (no wake-up is needed in this flavour: every unfinished child is polled on every
    poll): the third poll answers `Ready(Err(9))`, and the drop after the failure (`drop_failed_tie`) releases the two
    values 7 and 8 that were produced and drops no child -/
example :
    (runT sc 3 [.poll 1, .poll 2, .fire 2 0, .poll 3, .drop]).map (fun x =>
      decide (x.2.trace =
        ([Op.poll 1, .poll 2, .fire 2 0, .poll 3, .drop].foldl stepM
          { w := World.init .direct 3 sc, s := Fix.init 3 3 }).w.trace) &&
      decide (x.2.trace.take 5 = [.dropEnd, .valDropped 8, .valDropped 7, .dropBegin, .pollEnd (.ready false [9])]))
      = some true := by decide

/-- a try_join of two futures that both succeed completes with `Ready(Ok([7, 8]))` -/
def sc2 : Nat → List Step := fun c =>
  if c = 0 then [⟨.ready true 7, []⟩] else if c = 1 then [⟨.ready true 8, []⟩] else []

def b2 : Eng Fix := { w := World.init .direct 2 sc2, s := Fix.init 2 2 }

example :
    (do let g ← TryJoin.new ⟨2⟩
        let (g', env', ret) ← TryJoin.poll g 1 ((absT g b2).w.emit (.pollBegin 1))
        let m := Eng.poll tryJoinSlice (absT g b2) 1
        let a := absT g' b2
        pure (decide (m.w.trace = .pollEnd (outcomeOfTryJoin ret) :: env'.trace) &&
              decide (outcomeOfTryJoin ret = .ready true [7, 8]) &&
              decide (a.s.n = m.s.n ∧ a.s.cnt = m.s.cnt ∧ a.s.dead = m.s.dead ∧ m.s.dead = true) &&
              decide (a.w.mode = m.w.mode ∧ a.w.parent = m.w.parent ∧ a.w.count = m.w.count ∧ a.w.cap = m.w.cap) &&
              (List.range 2).all (fun i => a.w.bits i == m.w.bits i && decide (a.s.st i = m.s.st i))))
      = some true := by decide

end TieTryJoinVDEx

#print axioms TieTryJoinVD.poll_tie
#print axioms TieTryJoinVD.poll_tie_strong
#print axioms TieTryJoinVD.drop_tie
#print axioms TieTryJoinVD.drop_failed_tie
#print axioms TieTryJoinVD.new_wf

end Fc
