/-
  C16 — selective polling (std waker strategy), for ONE LEVEL OF NESTING: an outer combinator some
  of whose children are themselves combinators ("inner instances") over scripted leaves (model:
  Fc/Nest.lean, the lock-step composition of the existing engine instances).

  "In the std strategy a child that last answered Pending is polled again only after a sub-waker
   of its slot was fired since that poll."

  Monitor (flat): `Mon.holds_C16` (Fc/Monitors.lean): every `childBegin c slot` event satisfies
    `lastRes c ≠ Pending  ∨  a sub-waker of `slot` was invoked since c's previous poll began`.

  For a nest this is a statement about every instance that keeps a readiness set with one
  sub-waker per child (`Fam.tracksReady`: join, try_join, merge, zip — array/Vec and tuple models),
  at every operation boundary of every history (`Nest.c16At`, FcLemmas/C16Nest.lean; `s` = the state
  of the nest):

    (1) `holds_C16 s.out.w.trace` — the flat monitor on the OUTER instance's own trace, if the outer
        family tracks readiness: no child of the outer instance — plain or NESTED — that last
        answered Pending is polled again unless the sub-waker the outer instance handed to it was
        invoked since that poll (for a nested child: by the inner instance forwarding a wake-up of
        one of its leaves to its task waker, or directly);
    (2) `holds_C16 (s.inn c).w.trace` — the flat monitor on the own trace of the INNER instance of
        every nested child `c` whose family tracks readiness (the events of ITS leaves, with ITS
        sub-wakers): a poll of the inner instance re-polls a Pending leaf only if a sub-waker of
        that leaf's slot was invoked since the leaf's previous poll — whatever the reason the outer
        instance polled the nested child (its own wake-up, a spurious top-level poll, a re-arm).
        This holds whatever the outer family is (also under a pass-through outer such as race or
        chain, which polls the nested child in every top-level poll).

  (That the inner instance is polled exactly when the outer instance polls the nested child is the
   link part of C03 for nests, FcProps/C03nest.lean.)

  No kind hypothesis is needed (C16 does not depend on what the children answer), only
  `nc.mode = .std`; in the direct strategy the statement is false (example below).

  Proof (FcLemmas/C16NestProj.lean, FcLemmas/C16Nest.lean): the PROJECTION of a nest run onto one
  instance is a run of the flat model of that instance: every component of the nest state only
  undergoes `Eng.poll` / `Eng.fire` / `Eng.drop` of its own policy — the outer instance's polls of a
  nested child are the inner instance's polls, wake-ups aimed at its leaves are its `fire`s, its
  release is its `drop` — plus, for the outer instance only, replacement of the script table by
  the speculative answers of the nested children.  `Nest.proj_foldl` turns every predicate that is
  closed under these operations into an invariant of every component of every reachable nest state;
  the flat C16 invariant `C16.EInv` is closed (it was proved for an arbitrary lawful policy and
  does not mention the scripts).  For the inner instances the projection is stated outright as
  `Nest.inner_flat`: the state of an inner instance is the final state of a flat `Case` (same
  family, mode, leaf scripts) under some history, so (2) is also a corollary of the flat theorem
  `C16_selective_fixed` (`C16_nest_inner_via_flat` below).
-/
import FcLemmas.C16Nest
import FcProps.C16
import Fc.NestMon

namespace Fc
open Mon

/-- C16 for a nest with one level of nesting, at every operation boundary (after every prefix of
    the history): every outer and inner family, every number of children and of leaves, every
    nesting pattern, all leaf and child scripts, all histories of top-level polls, wake-ups of
    children, nested children and leaves at any time, the drop at any point. -/
theorem C16_nest (nc : Nest.NCase) (hm : nc.mode = .std) (k : Nat) :
    let s := (nc.ops.take k).foldl (Nest.step nc) (Nest.init nc)
    -- (1) the outer instance, on its own trace
    (nc.outer.tracksReady = true → holds_C16 s.out.w.trace = true) ∧
    -- (2) every readiness-tracking inner instance, on its own trace
    (∀ c fam j, nc.inner c = some (fam, j) → fam.tracksReady = true →
      holds_C16 (s.inn c).w.trace = true) := by
  intro s
  have h := Nest.proj16_prefix nc hm k
  refine ⟨fun ht => (h.o ht).k.mon, ?_⟩
  intro c fam j hin ht
  have hi := h.i c
  rw [hin] at hi
  exact (hi ht).k.mon

/-- the executable form: the monitor `Nest.c16At` (the conjunction of (1) and (2) for all nested
    children `c < n`) accepts every operation boundary -/
theorem C16_nest_holds (nc : Nest.NCase) (hm : nc.mode = .std) : Nest.holdsC16Nest nc = true := by
  unfold Nest.holdsC16Nest
  simp only [List.all_eq_true, List.mem_range]
  intro k _
  exact Nest.c16At_of_proj (Nest.proj16_prefix nc hm k)

/-- … in particular at the end of the history -/
theorem C16_nest_run (nc : Nest.NCase) (hm : nc.mode = .std) :
    Nest.c16At nc (Nest.run nc) = true := by
  have := Nest.proj16_prefix nc hm nc.ops.length
  rw [List.take_length] at this
  exact Nest.c16At_of_proj this

/-- the projection, stated outright: the trace of an inner instance in a reachable nest state is
    the trace of a FLAT case (same family, mode, leaves, leaf scripts) under some history -/
theorem C16_nest_projection (nc : Nest.NCase) (c : Nat) (fam : Fam) (j : Nat)
    (hin : nc.inner c = some (fam, j)) (hg : fam.isGroup = false) (k : Nat) :
    ∃ ops', (((nc.ops.take k).foldl (Nest.step nc) (Nest.init nc)).inn c).w.trace
      = (Nest.innerCase nc c fam j ops').trace := by
  obtain ⟨ops', h⟩ := Nest.inner_flat nc c fam j hin (nc.ops.take k)
  refine ⟨ops', ?_⟩
  rw [h]
  unfold Case.trace
  simp [Nest.innerCase, hg]

/-- (2) again, as a corollary of the flat theorem through the projection -/
theorem C16_nest_inner_via_flat (nc : Nest.NCase) (hm : nc.mode = .std) (c : Nat) (fam : Fam) (j : Nat)
    (hin : nc.inner c = some (fam, j)) (ht : fam.tracksReady = true) (k : Nat) :
    holds_C16 (((nc.ops.take k).foldl (Nest.step nc) (Nest.init nc)).inn c).w.trace = true := by
  have hg : fam.isGroup = false := by
    simp only [Fam.tracksReady, Bool.and_eq_true, Bool.not_eq_true'] at ht; exact ht.2
  obtain ⟨ops', h⟩ := C16_nest_projection nc c fam j hin hg k
  rw [h]
  exact C16_selective_fixed _ hg (by
    show fam.modeOf nc.mode = .std
    rw [Nest.tracks_mode _ _ ht]; exact hm)

/-! ### non-vacuity -/

def isPB16 : Ev → Bool
  | .pollBegin _ => true
  | _ => false

def isCB16 (c : Nat) : Ev → Bool
  | .childBegin c' _ _ => c' = c
  | _ => false

/-- Outer instance over 2 children: child 0 = an inner instance over the leaves 100, 101; child 1
    plain.  Poll 1: everything pends.  Leaf 101 is woken (the inner instance forwards the wake-up
    to the sub-waker the outer instance handed to child 0); poll 2: the outer instance polls only
    child 0, the inner instance polls only leaf 101, which yields an item.  Poll 3: after an item a
    `merge` re-arms the slot it came from (at both levels): leaf 101 is polled again and pends.
    Poll 4 is SPURIOUS (nobody was woken): no child and no leaf is polled.  The plain child 1 is
    woken; poll 5 polls only child 1 — the inner instance is not polled at all.  Drop. -/
def C16nest_ops : List Op :=
  [.poll 1, .fire 101 0, .poll 2, .poll 3, .poll 4, .fire 1 0, .poll 5, .drop]

def C16nest_example (m : Mode) (outer inner : Fam) (ops : List Op) : Nest.NCase :=
  { mode := m, outer := outer, n := 2,
    inner := fun c => if c = 0 then some (inner, 2) else none,
    scripts := fun id =>
      if id = 100 then [⟨.pend, []⟩, ⟨.pend, []⟩, ⟨.pend, []⟩]
      else if id = 101 then [⟨.pend, []⟩, ⟨.item 7, []⟩, ⟨.pend, []⟩]
      else if id = 1 then [⟨.pend, []⟩, ⟨.pend, []⟩]
      else [],
    ops := ops }

/-- `merge` of [`merge` of 2 leaves, plain stream] — a nest of matching kinds -/
abbrev C16nest_mm : Nest.NCase := C16nest_example .std .merge .merge C16nest_ops

example : Nest.kindOk C16nest_mm = true := by decide
example : C16nest_mm.outer.tracksReady = true ∧ Fam.merge.tracksReady = true := by decide
example : Nest.holdsC16Nest C16nest_mm = true := by decide
/-- the theorem applies to the example whatever the history -/
example (ops : List Op) : Nest.holdsC16Nest (C16nest_example .std .merge .merge ops) = true :=
  C16_nest_holds _ rfl

/-- the outer instance was polled 5 times, the inner instance 3 times (polls 1–3) -/
example : ((Nest.run C16nest_mm).out.w.trace.filter isPB16).length = 5 := by decide
example : (((Nest.run C16nest_mm).inn 0).w.trace.filter isPB16).length = 3 := by decide
/-- the outer instance polled the nested child 3 times and the plain child twice in 5 polls -/
example : ((Nest.run C16nest_mm).out.w.trace.filter (isCB16 0)).length = 3 := by decide
example : ((Nest.run C16nest_mm).out.w.trace.filter (isCB16 1)).length = 2 := by decide
/-- leaf 100 (never woken) was polled once in the inner instance's 3 polls, leaf 101 three times -/
example : (((Nest.run C16nest_mm).inn 0).w.trace.filter (isCB16 0)).length = 1 := by decide
example : (((Nest.run C16nest_mm).inn 0).w.trace.filter (isCB16 1)).length = 3 := by decide
/-- the wake-up of leaf 101 travelled through both levels: sub-waker 1 of the inner instance, then
    sub-waker 0 of the outer instance -/
example : ((Nest.run (C16nest_example .std .merge .merge (C16nest_ops.take 2))).inn 0).w.trace.contains
    (.fired 1 0 (some (.sub 1))) = true := by decide
example : (Nest.run (C16nest_example .std .merge .merge (C16nest_ops.take 2))).out.w.trace.contains
    (.fired 0 0 (some (.sub 0))) = true := by decide
/-- the spurious poll 4 polled nothing: the outer trace after it ends `pollBegin 4, pollEnd Pending` -/
example : (Nest.run (C16nest_example .std .merge .merge (C16nest_ops.take 5))).out.w.trace.take 2
    = [.pollEnd .pending, .pollBegin 4] := by decide
example : (Nest.run C16nest_mm).out.w.trace.contains (.pollEnd (.some 0 [9001])) = true := by decide

/-- the example named in the task: `join` of [`merge` of 2 leaves, plain child] (the kinds do not
    match — a `join` takes futures — but C16 does not depend on the kinds) -/
example : Nest.holdsC16Nest (C16nest_example .std .joinSlice .merge C16nest_ops) = true := by decide
example : (((Nest.run (C16nest_example .std .joinSlice .merge C16nest_ops)).inn 0).w.trace.filter
    (isCB16 0)).length = 1 := by decide
/-- `join` of [`join` of 2 futures, plain future] -/
example : Nest.holdsC16Nest (C16nest_example .std .joinSlice .joinSlice C16nest_ops) = true := by decide
/-- a pass-through outer (`chain`: no readiness set, polls its current child in every poll) over a
    readiness-tracking inner `merge`: (2) still holds of the inner instance, although the inner
    instance is polled by the spurious poll too -/
example : Nest.holdsC16Nest (C16nest_example .std .chain .merge C16nest_ops) = true := by decide
example : (((Nest.run (C16nest_example .std .chain .merge C16nest_ops)).inn 0).w.trace.filter
    isPB16).length = 5 := by decide
example : (((Nest.run (C16nest_example .std .chain .merge C16nest_ops)).inn 0).w.trace.filter
    (isCB16 0)).length = 1 := by decide

/-- the hypothesis `mode = std` is needed: in the direct strategy every poll re-polls every
    pending child / leaf -/
example : Nest.holdsC16Nest (C16nest_example .direct .merge .merge C16nest_ops) = false := by decide

/-! the monitor rejects wrong composed states: hand-made states of a nest `merge [merge [·,·]]` -/

def C16nest_nc1 : Nest.NCase :=
  { mode := .std, outer := .merge, n := 1, inner := fun c => if c = 0 then some (.merge, 2) else none,
    scripts := fun _ => [], ops := [] }

def C16nest_st (outerTrace innerTrace : List Ev) : Nest.St :=
  { out := { w := { World.init .std 1 (fun _ => []) with trace := outerTrace }, s := Fix.init 1 0 },
    inn := fun _ => { w := { World.init .std 2 (fun _ => []) with trace := innerTrace },
                      s := Fix.init 2 0 },
    polls := fun _ => 2, gone := fun _ => false }

/-- a correct state: leaf 1's sub-waker fired, the wake-up reached the outer sub-waker of child 0,
    the second poll re-polled child 0 / leaf 1 only -/
example : Nest.c16At C16nest_nc1 (C16nest_st
    [.pollEnd .pending, .childEnd 0 .pend, .childBegin 0 0 (.sub 0), .pollBegin 8,
     .woke 7, .fired 0 0 (some (.sub 0)),
     .pollEnd .pending, .childEnd 0 .pend, .childBegin 0 0 (.sub 0), .pollBegin 7]
    [.pollEnd .pending, .childEnd 1 .pend, .childBegin 1 1 (.sub 1), .pollBegin 2,
     .woke 1, .fired 1 0 (some (.sub 1)),
     .pollEnd .pending, .childEnd 1 .pend, .childBegin 1 1 (.sub 1),
     .childEnd 0 .pend, .childBegin 0 0 (.sub 0), .pollBegin 1]) = true := by decide
/-- the inner instance re-polled the pending leaf 0 although only leaf 1's sub-waker was fired
    (the outer trace is unchanged and accepted on its own) -/
example : Nest.c16At C16nest_nc1 (C16nest_st
    [.pollEnd .pending, .childEnd 0 .pend, .childBegin 0 0 (.sub 0), .pollBegin 8,
     .woke 7, .fired 0 0 (some (.sub 0)),
     .pollEnd .pending, .childEnd 0 .pend, .childBegin 0 0 (.sub 0), .pollBegin 7]
    [.pollEnd .pending, .childEnd 1 .pend, .childBegin 1 1 (.sub 1),
     .childEnd 0 .pend, .childBegin 0 0 (.sub 0), .pollBegin 2,
     .woke 1, .fired 1 0 (some (.sub 1)),
     .pollEnd .pending, .childEnd 1 .pend, .childBegin 1 1 (.sub 1),
     .childEnd 0 .pend, .childBegin 0 0 (.sub 0), .pollBegin 1]) = false := by decide
/-- the outer instance re-polled the pending nested child although the wake-up of the leaf was not
    forwarded to the outer sub-waker (the inner trace is accepted on its own) -/
example : Nest.c16At C16nest_nc1 (C16nest_st
    [.pollEnd .pending, .childEnd 0 .pend, .childBegin 0 0 (.sub 0), .pollBegin 8,
     .pollEnd .pending, .childEnd 0 .pend, .childBegin 0 0 (.sub 0), .pollBegin 7]
    [.pollEnd .pending, .childEnd 1 .pend, .childBegin 1 1 (.sub 1), .pollBegin 2,
     .woke 1, .fired 1 0 (some (.sub 1)),
     .pollEnd .pending, .childEnd 1 .pend, .childBegin 1 1 (.sub 1),
     .childEnd 0 .pend, .childBegin 0 0 (.sub 0), .pollBegin 1]) = false := by decide

end Fc

#print axioms Fc.C16_nest
#print axioms Fc.C16_nest_holds
#print axioms Fc.C16_nest_run
#print axioms Fc.C16_nest_projection
#print axioms Fc.C16_nest_inner_via_flat
