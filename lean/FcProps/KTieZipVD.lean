/-
  Kernel tie, fixed families, no_std / alloc-only flavour — `Vec<S>::zip()`: the translated `Zip::poll_next` and
  `PinnedDrop::drop` (FcGen/KSrcFam4D.lean: src/stream/zip/vec.rs compiled against src/utils/wakers/vec/no_std.rs) refine
  one `Eng.poll zip` / `Eng.drop zip` of the model in `direct` mode.
  Statements: FcProps/KTieZipDir.lean (`TieZipVD.poll_tie_statement`, `TieZipVD.drop_tie_statement`, unchanged);
  proofs: FcLemmas/KTieZipVD{Env,Loop,Main,Drop}.lean (model side and list facts: FcLemmas/KTieZipModel.lean, shared with
  the std flavour).

  poll: from a well-formed `Zip` (`WfZ`: table sizes agree, at least one input, a slot is `Ready` exactly when it buffers
  an item of the current row) and an environment whose scripted children answer like streams (`StreamStepsF`), one call
  of the translated function with task waker `w` on a zip that has not ended does not panic (`WakerVec::get` finds the
  parent waker that `set_waker` has just stored; `vec_assume_init` never reads an unwritten slot), polls EVERY slot that
  does not buffer an item yet, handing the child the caller's own waker `Wk.par w`, returns the `Poll` value of the
  model's outcome (a complete row, in slot order), and leaves a combinator + environment whose reading (`absZ`) is the
  model state after `Eng.poll zip · w`: same parent waker, states, buffered items, `done` flag (`jcore`; the flag fields
  of the world are not used in this mode and stay as they were), same remaining scripts, same handed-out wakers, same
  trace (the model's closing `pollEnd` is logged by the caller).  The hypothesis about handed-out sub-wakers is kept
  from the std statement; it is not needed (no sub-waker is created in this flavour, and firing one that the environment
  may contain does nothing in `direct` mode).

  drop: the destructor releases exactly the buffered items of the unfinished row, in slot order, and does not panic
  (`OutputVec::drop` is only called on written slots); the inputs are plain fields, released by the drop glue afterwards.
-/
import FcProps.KTieZipDir
import FcLemmas.KTieZipVDMain
import FcLemmas.KTieZipVDDrop

namespace Fc
open Rs Src

namespace TieZipVD
open ZipVD

theorem poll_tie : poll_tie_statement := poll_tie_main

theorem drop_tie : drop_tie_statement := drop_tie_main

/-- the same refinement, and in addition what the NEXT call needs again: `WfZ` is kept in every case, the children
    are the same, every sub-waker in the environment still belongs to a slot (none is added), the remaining scripts
    still answer like streams -/
theorem poll_tie_strong (g : Zip) (b : Eng Fix) (w : Nat) (hW : WfZ g) (hS : StreamStepsF b.w)
    (hH : ∀ c i, Wk.sub i ∈ b.w.handed c → i < g.roleKids.len) (hd : g.roleDone = false) :
    ∃ g' env' ret,
      Zip.poll_next g w ((absZ g b).w.emit (.pollBegin w)) = some (g', env', ret) ∧
      WfZ g' ∧
      (jcore (absZ g' b) = jcore (Eng.poll zip (absZ g b) w) ∧
       env'.scripts = (Eng.poll zip (absZ g b) w).w.scripts ∧
       env'.handed = (Eng.poll zip (absZ g b) w).w.handed ∧
       (Eng.poll zip (absZ g b) w).w.trace = .pollEnd (outcomeOfZip ret) :: env'.trace) ∧
      g'.roleKids.len = g.roleKids.len ∧ (∀ c i, Wk.sub i ∈ env'.handed c → i < g.roleKids.len) ∧
      StreamStepsF env' :=
  poll_tie_core g b w hW hS hH hd

/-- `Zip::new` on at least one input gives a well-formed zip that has not ended: the hypotheses are satisfiable -/
theorem new_wf (n : Nat) (hn : 0 < n) : ∃ g, Zip.new ⟨n⟩ = some g ∧ WfZ g ∧ g.roleDone = false := by
  refine ⟨_, by simp [Zip.new, WakerVecD.new, DirVec.ReadinessVec.new]; rfl, ⟨rfl, rfl, rfl, hn, ?_⟩, rfl⟩
  intro i _
  exact Or.inl ⟨rfl, rfl⟩

end TieZipVD

/-! ## non-vacuity: a concrete instance of the hypotheses, and the conclusions checked by evaluation -/
namespace TieZipVDEx
open ZipVD TieZipVD

/-- two streams; child 0 yields 1 at once, child 1 is pending first (and wakes itself: the caller's waker), then
    yields 8 -/
def sc : Nat → List Step := fun c =>
  if c = 0 then [⟨.item 1, []⟩, ⟨.item 2, []⟩, ⟨.fin, []⟩]
  else if c = 1 then [⟨.pend, [(1, 0)]⟩, ⟨.item 8, []⟩, ⟨.item 9, []⟩]
  else []

def b0 : Eng Fix := { w := World.init .direct 2 sc, s := Fix.init 2 0 }

example : StreamStepsF b0.w := by
  intro c st h
  simp only [b0, World.init, sc] at h
  split at h
  · simp at h; rcases h with rfl | rfl | rfl <;> simp
  · split at h
    · simp at h; rcases h with rfl | rfl | rfl <;> simp
    · simp at h

example : ∀ c i, Wk.sub i ∈ b0.w.handed c → i < 2 := by
  intro c i h; simp [b0, World.init] at h

example : ∃ g, Zip.new ⟨2⟩ = some g ∧ WfZ g ∧ g.roleDone = false := new_wf 2 (by decide)

/-- the conclusion of `poll_tie` on `Zip::new(2 streams)`, first poll, checked by evaluation: no panic, `Pending`
    (child 1 is not ready), the item 1 is buffered in slot 0, child 1 woke the caller's waker 1, and trace, mode, parent
    waker, the states and buffered items of the two slots, the remaining scripts and the handed-out wakers agree -/
example :
    (do let g ← Zip.new ⟨2⟩
        let (g', env', ret) ← Zip.poll_next g 1 ((absZ g b0).w.emit (.pollBegin 1))
        let m := Eng.poll zip (absZ g b0) 1
        let a := absZ g' b0
        pure (decide (m.w.trace = .pollEnd (outcomeOfZip ret) :: env'.trace) &&
              decide (outcomeOfZip ret = .pending) &&
              decide (a.s.n = m.s.n ∧ a.s.dead = m.s.dead ∧ m.s.out 0 = some 1) &&
              decide (a.w.mode = m.w.mode ∧ m.w.mode = .direct ∧ a.w.count = m.w.count ∧ a.w.cap = m.w.cap ∧
                a.w.parent = m.w.parent ∧ m.w.parent = some 1) &&
              (List.range 2).all (fun i => a.w.bits i == m.w.bits i && decide (a.s.st i = m.s.st i) &&
                decide (a.s.out i = m.s.out i) && decide (env'.handed i = m.w.handed i) &&
                decide (env'.handed i = [Wk.par 1]) &&
                decide ((env'.scripts i).map (·.res) = (m.w.scripts i).map (·.res))) &&
              decide (env'.trace.contains (.woke 1)) &&
              decide (env'.trace.length = 7)))
      = some true := by decide

/-- the second poll polls ONLY child 1 (slot 0 buffers its item) and completes the row `[1, 8]` -/
example :
    (do let g ← Zip.new ⟨2⟩
        let (g1, env1, _) ← Zip.poll_next g 1 ((absZ g b0).w.emit (.pollBegin 1))
        let b1 : Eng Fix := { w := env1.emit (.pollEnd .pending), s := b0.s }
        let (g', env', ret) ← Zip.poll_next g1 2 ((absZ g1 b1).w.emit (.pollBegin 2))
        let m := Eng.poll zip (absZ g1 b1) 2
        let a := absZ g' b1
        pure (decide (m.w.trace = .pollEnd (outcomeOfZip ret) :: env'.trace) &&
              decide (outcomeOfZip ret = .some 0 [1, 8]) &&
              decide (a.w.parent = m.w.parent ∧ m.w.parent = some 2) &&
              decide (env'.handed 0 = [Wk.par 1] ∧ env'.handed 1 = [Wk.par 2, Wk.par 1]) &&
              (List.range 2).all (fun i => decide (a.s.st i = m.s.st i) &&
                decide (a.s.out i = m.s.out i) && decide (m.s.out i = none))))
      = some true := by decide

/-- the third poll polls BOTH children again (no flags: every slot without an item is polled): child 0 yields 2,
    child 1 yields 9 -/
example :
    (do let g ← Zip.new ⟨2⟩
        let (g1, env1, _) ← Zip.poll_next g 1 ((absZ g b0).w.emit (.pollBegin 1))
        let b1 : Eng Fix := { w := env1.emit (.pollEnd .pending), s := b0.s }
        let (g2, env2, ret2) ← Zip.poll_next g1 2 ((absZ g1 b1).w.emit (.pollBegin 2))
        let b2 : Eng Fix := { w := env2.emit (.pollEnd (outcomeOfZip ret2)), s := b0.s }
        let (g', env', ret) ← Zip.poll_next g2 3 ((absZ g2 b2).w.emit (.pollBegin 3))
        let m := Eng.poll zip (absZ g2 b2) 3
        pure (decide (m.w.trace = .pollEnd (outcomeOfZip ret) :: env'.trace) &&
              decide (outcomeOfZip ret = .some 0 [2, 9]) &&
              decide ((jcore (absZ g' b2)).dead = false)))
      = some true := by decide

/-- the conclusion of `drop_tie` after the first poll: the buffered item 1 is released, then the two inputs -/
example :
    (do let g ← Zip.new ⟨2⟩
        let (g1, env1, _) ← Zip.poll_next g 1 ((absZ g b0).w.emit (.pollBegin 1))
        let b1 : Eng Fix := { w := env1.emit (.pollEnd .pending), s := b0.s }
        let (_, env', _) ← Zip.drop g1 ((absZ g1 b1).w.emit .dropBegin)
        pure (decide ((Eng.drop zip (absZ g1 b1)).w.trace =
                .dropEnd :: (((List.range g1.roleKids.len).map (fun i => Ev.childDropped i)).reverse ++ env'.trace)) &&
              decide (env'.trace.head? = some (.valDropped 1))))
      = some true := by decide

end TieZipVDEx

#print axioms TieZipVD.poll_tie
#print axioms TieZipVD.drop_tie
#print axioms TieZipVD.poll_tie_strong
#print axioms TieZipVD.new_wf

end Fc
