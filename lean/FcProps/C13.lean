/-
  C13 — for_each over a concurrent stream: exactly once, structured, within the limit.

  Model: `Fc/CoSpec.lean`, the algorithm of `stream.co() → map / enumerate / take / limit →
  for_each | try_for_each | collect` as a trace acceptor (`Co.accepts c t`, trace NEWEST FIRST).

  Monitor `Co.holds_C13 c` (Fc/CoMon.lean), evaluated at every event of the trace:
    * `call stage j idx k` (closure `stage` is called for item `j`, returning work future `k`):
        (i)  that closure stage was never called for item `j` before (`calls t stage j = 0`);
        (ii) if the operation enforces a limit (`c.limit = some l`: for_each / try_for_each below a
             `limit(l)`, `l > 0`), then the futures of the terminal closure that have been created
             and are neither resolved nor dropped — `liveTerm`, counting the one just returned —
             are at most `l`;
    * `topEnd unit` (for_each resolved): (iii) every item the source handed over went through
      every closure stage exactly once and the future of each stage resolved (`allProcessed`), and
      the source was driven as far as the adapters allow (`drained`: it ended, or a `take` is full);
    * `dropEnd` (the drop of the operation returned): (iv) every work future ever created has been
      dropped (`allDropped`).

  `C13_for_each`: every trace the acceptor accepts satisfies the monitor — for every adapter
  stack, every terminal, every limit, every order in which the bag polls its members, every
  interleaving of source readiness and work-future progress, every drop point.

  Proof: FcLemmas/C13Obs.lean (observations), C13Inv.lean (invariant `CoC13.Inv` between acceptor
  state and trace), C13Step.lean (preservation by call / resolve / drop), C13.lean (the step
  lemma, the injection of live terminal futures into the bag's members, the induction).
-/
import FcLemmas.C13

namespace Fc
open Co

/-- C13 for every configuration and every accepted trace. -/
theorem C13_for_each (c : Co.Cfg) (t : List Co.CoEv) (h : Co.accepts c t = true) :
    Co.holds_C13 c t = true :=
  CoC13.accepts_holds c t h

/-! ### non-vacuity -/

/-- `stream.co().map(f).limit(1).for_each(g)`: closure stage 0 = `f`, stage 1 = `g`, limit 1 -/
def C13_cfg : Cfg := { stack := [.map, .limit 1], term := .forEach }

example : C13_cfg.stages = 2 ∧ C13_cfg.limit = some 1 := by decide

/-- two items; the second is taken while the first is in flight and waits in `send`
    (back-pressure) until the first one's `g` future resolved.  OLDEST FIRST. -/
def C13_log : List CoEv :=
  [ .topBegin,
    .src (.item 10),            -- item 0 pushed (count 1)
    .call 0 0 [] 100,           -- f(item 0)
    .src (.item 11),            -- item 1 taken: count = limit, it waits in `send`
    .work 100 (.ready true 5),
    .workDrop 100,
    .call 1 0 [] 101,           -- g(f(item 0))
    .topEnd .pending,
    .topBegin,
    .work 101 (.ready true 0),  -- item 0 done: slot free, item 1 pushed
    .workDrop 101,
    .call 0 1 [] 102,
    .work 102 (.ready true 6),
    .call 1 1 [] 103,
    .src .fin,
    .work 103 (.ready true 0),
    .workDrop 102,
    .workDrop 103,
    .topEnd .unit,
    .dropBegin, .srcDrop, .dropEnd ]

example : accepts C13_cfg C13_log.reverse = true := by decide
example : holds_C13 C13_cfg C13_log.reverse = true := by decide
example : C13_log.contains (.topEnd .unit) = true := by decide
/-- the second item really waited in `send` -/
example : (run C13_cfg (C13_log.take 4).reverse).map (·.ctrl) = some (.sending 1) := by decide
example : acceptedPrefix C13_cfg (init C13_cfg) C13_log 0 = C13_log.length := by decide

/-- the acceptor rejects: `f` called for item 1 while item 0 still occupies the only slot -/
example : accepts C13_cfg ([.topBegin, .src (.item 10), .call 0 0 [] 100, .src (.item 11),
    .work 100 (.ready true 5), .call 1 0 [] 101, .call 0 1 [] 102] : List CoEv).reverse = false := by
  decide
/-- … `g` called for item 1 while item 0's `g` future is unresolved (limit 1) -/
example : accepts C13_cfg ([.topBegin, .src (.item 10), .call 0 0 [] 100, .src (.item 11),
    .work 100 (.ready true 5), .call 1 0 [] 101, .call 1 1 [] 103] : List CoEv).reverse = false := by
  decide
/-- … `topEnd unit` while a member is in flight -/
example : accepts C13_cfg ([.topBegin, .src (.item 10), .call 0 0 [] 100, .src .fin,
    .work 100 (.ready true 5), .call 1 0 [] 101, .topEnd .unit] : List CoEv).reverse = false := by
  decide
/-- … `topEnd unit` while an item still waits in `send` -/
example : accepts C13_cfg ([.topBegin, .src (.item 10), .src (.item 11), .topEnd .unit]
    : List CoEv).reverse = false := by decide
/-- … the same closure called twice for one item -/
example : accepts C13_cfg ([.topBegin, .src (.item 10), .call 0 0 [] 100,
    .call 0 0 [] 101] : List CoEv).reverse = false := by decide
example : accepts C13_cfg ([.topBegin, .src (.item 10), .call 0 0 [] 100,
    .work 100 (.ready true 5), .call 0 0 [] 101] : List CoEv).reverse = false := by decide
/-- … cancelling a running future while the operation is alive and running -/
example : accepts C13_cfg ([.topBegin, .src (.item 10), .call 0 0 [] 100,
    .workDrop 100] : List CoEv).reverse = false := by decide
/-- … `dropEnd` while a work future is still alive; accepted once it was dropped -/
example : accepts C13_cfg ([.topBegin, .src (.item 10), .call 0 0 [] 100, .topEnd .pending,
    .dropBegin, .dropEnd] : List CoEv).reverse = false := by decide
example : accepts C13_cfg ([.topBegin, .src (.item 10), .call 0 0 [] 100, .topEnd .pending,
    .dropBegin, .workDrop 100, .dropEnd] : List CoEv).reverse = true := by decide

/-- the monitor is not trivially true.  (i) a closure called twice for one item: -/
example : holds_C13 C13_cfg ([.topBegin, .src (.item 10), .call 0 0 [] 100,
    .work 100 (.ready true 5), .call 0 0 [] 101] : List CoEv).reverse = false := by decide
/-- (ii) two unresolved `g` futures under limit 1 … -/
example : holds_C13 C13_cfg ([.topBegin, .src (.item 10), .call 0 0 [] 100, .src (.item 11),
    .work 100 (.ready true 5), .call 1 0 [] 101, .call 0 1 [] 102, .work 102 (.ready true 6),
    .call 1 1 [] 103] : List CoEv).reverse = false := by decide
/-- … fine once the first one resolved … -/
example : holds_C13 C13_cfg ([.topBegin, .src (.item 10), .call 0 0 [] 100, .src (.item 11),
    .work 100 (.ready true 5), .call 1 0 [] 101, .call 0 1 [] 102, .work 102 (.ready true 6),
    .work 101 (.ready true 0), .call 1 1 [] 103] : List CoEv).reverse = true := by decide
/-- … and fine without a limit -/
example : holds_C13 { stack := [.map], term := .forEach } ([.topBegin, .src (.item 10),
    .call 0 0 [] 100, .src (.item 11), .work 100 (.ready true 5), .call 1 0 [] 101,
    .call 0 1 [] 102, .work 102 (.ready true 6), .call 1 1 [] 103] : List CoEv).reverse = true := by
  decide
/-- (iii) resolving although item 1 never reached `g`, … -/
example : holds_C13 C13_cfg ([.topBegin, .src (.item 10), .call 0 0 [] 100, .src (.item 11),
    .work 100 (.ready true 5), .call 1 0 [] 101, .work 101 (.ready true 0), .call 0 1 [] 102,
    .work 102 (.ready true 6), .src .fin, .topEnd .unit] : List CoEv).reverse = false := by decide
/-- … although `g`'s future for item 0 never resolved, … -/
example : holds_C13 C13_cfg ([.topBegin, .src (.item 10), .call 0 0 [] 100,
    .work 100 (.ready true 5), .call 1 0 [] 101, .src .fin, .topEnd .unit]
    : List CoEv).reverse = false := by decide
/-- … or although the source was not drained -/
example : holds_C13 C13_cfg ([.topBegin, .src (.item 10), .call 0 0 [] 100,
    .work 100 (.ready true 5), .call 1 0 [] 101, .work 101 (.ready true 0), .topEnd .unit]
    : List CoEv).reverse = false := by decide
/-- (iv) the drop returns while a closure future is still alive -/
example : holds_C13 C13_cfg ([.topBegin, .src (.item 10), .call 0 0 [] 100, .topEnd .pending,
    .dropBegin, .dropEnd] : List CoEv).reverse = false := by decide

/-! ### remark: re-used future ids

  The acceptor only demands that the id of a new work future is not *alive* (`k ∉ live`), so an id
  may be re-used after its first incarnation was dropped; `created t` then contains it twice and
  `droppedW` / `resultOf` of the first incarnation are attributed to the second one.  The theorem
  holds regardless (the proof never needs `created t` to be duplicate-free, only its non-dropped
  part), but on such traces the *monitor* is weaker than its wording: -/

/-- an accepted trace re-using id 100 -/
example : accepts C13_cfg ([.topBegin, .src (.item 10), .call 0 0 [] 100,
    .work 100 (.ready true 5), .workDrop 100, .call 1 0 [] 100] : List CoEv).reverse = true := by
  decide
/-- hand-written (not accepted): `g`'s future, the second incarnation of 100, never resolved and
    is alive at `topEnd unit` resp. `dropEnd`, yet the monitor does not object -/
example : holds_C13 C13_cfg ([.topBegin, .src (.item 10), .call 0 0 [] 100,
    .work 100 (.ready true 5), .workDrop 100, .call 1 0 [] 100, .src .fin, .topEnd .unit]
    : List CoEv).reverse = true := by decide
example : holds_C13 C13_cfg ([.topBegin, .src (.item 10), .call 0 0 [] 100,
    .work 100 (.ready true 5), .workDrop 100, .call 1 0 [] 100, .topEnd .pending, .dropBegin,
    .dropEnd] : List CoEv).reverse = true := by decide

end Fc

#print axioms Fc.C13_for_each
