/-
  C01 (second sentence) — liveness under a wake-only executor, for EVERY environment schedule.

  FcProps/C01live.lean, C01live2.lean and C01live3.lean prove "the run reaches the final outcome
  within `3 * stepsLeft + 1` rounds" for ONE deterministic environment: when the task has not been
  woken, `Exec.round` prods the FIRST waiting child in index order.  The property (no lost wake-up ⇒
  progress under any wake-only executor) quantifies over every schedule.  Here the environment is a
  parameter (Fc/ExecAny.lean):

    * a schedule is a function `pick : Nat → Eng Fix → Nat`: round number and current state ↦ the
      child the environment would like to let progress next;
    * `ExecAny.round P n pick r e`: `none` if the latest outcome is final; a poll with a FRESH task
      waker if `Exec.shouldPoll` (never polled, woken since the latest poll began, or the latest
      poll yielded an item); otherwise, if `pick r e < n` and that child is waiting
      (`ExecAny.isWaiting`: latest answer `Pending`, a scripted step left) it is prodded
      (`e.fire (pick r e) 0`), else the environment falls back to `Exec.firstWaiting` — a schedule
      cannot simply refuse to make progress: fairness is not the point, safety of ANY choice is;
    * `ExecAny.runFor P n pick k r e`: up to `k` rounds, starting with round number `r`.
  With `pick := first waiting child` this is exactly the executor of Fc/Exec.lean
  (`C01_any_firstWaiting`).

  Theorems `C01_*_any`: for EVERY `pick`, the statements of C01_join_resolves(_vals),
  C01_race_resolves, C01_try_join_resolves, C01_race_ok_resolves, C01_merge_ends_tight,
  C01_chain_ends_tight, C01_zip_ends_tight — same hypotheses, same conclusions, same bound
  `3 * stepsLeft + 1` — with `Exec.runFor P n k e0` replaced by `ExecAny.runFor P n pick k 0 e0`.

  Theorems `C01_*_busy` (stronger; the `_any` ones are the special case without extra wake-ups):
  the environment may, in the same round, also invoke arbitrary further wakers before (`pre r e`) and
  after (`post r e`) the prod — lists of `(child, age)` as for `World.fire`: of several children,
  of children that have resolved / ended, and STALE wakers (age > 0: handed in an earlier poll) —
  and the run may start at any round number.  Same bound.  (Without the one prod per environment
  round the statement would be false: an environment that only ever fires stale wakers makes the
  executor poll for ever without any child progressing.)

  Proof (FcLemmas/LiveAny.lean, LiveAnyInst.lean).  The existing proofs used `Exec.firstWaiting`
  only to NAME a waiting child: the local facts they rest on are already stated for any waiting
  child `c < n` (`lb_fire_woke`, `Live3.fire_woke`: after `fire c 0` the wake-up of `c` is owed,
  hence — C01 `quiet` — the task has been woken; `lb_poll`: a poll that returns `Pending` has
  polled every waiting child whose wake-up was owed — C20 — so `stepsLeft` decreases) and the
  invariants survive EVERY wake-up `(c, a)` (`lb_fire`, `lbs_fire`, `lbc_fire`).  `LiveAny.ProgG`
  packages these facts once (`Live3.Prog` with an abstract goal and `fire` for every waker);
  `LiveAny.ends_aux` is the induction on the round budget for `ExecAny.runForB` (owed wake-ups and
  "woken" are monotone under further wake-ups); the instances are re-assembled from the existing
  invariants `Live.LB` (join), `Live2.LB` (race, try_join, race_ok), `Live3.LBS` (merge, zip),
  `Live3.LBC` (chain).
  chain evaluates its inputs sequentially: the only input that can be waiting is the one `index`
  points at (the earlier ones have ended, the later ones were never polled), so every schedule
  either picks that input or ends in the fallback, which picks it: the run of chain does not depend
  on `pick` at all (`C01_chain_any_eq`, FcLemmas/LiveAnyChain.lean), and `C01_chain_ends_any`
  follows from `C01_chain_ends_tight` through it (the generic argument covers chain as well:
  `C01_chain_ends_busy`).
-/
import FcLemmas.LiveAnyInst
import FcLemmas.LiveAnyChain
import FcProps.C01live
import FcProps.C01live2
import FcProps.C01live3
import Fc.Holds

namespace Fc
open Mon

/-! ### sanity: the schedule "first waiting child" gives the executor of Fc/Exec.lean -/

theorem C01_any_firstWaiting (P : Policy Fix) (n k : Nat) (e : Eng Fix) :
    ExecAny.runFor P n (fun _ e => (Exec.firstWaiting n e).getD n) k 0 e = Exec.runFor P n k e :=
  LiveAny.runFor_firstPick P n k 0 e

/-- … and the executor without extra wake-ups is the busy one with empty lists -/
theorem C01_any_busy_nil (P : Policy Fix) (n : Nat) (pick : Nat → Eng Fix → Nat) (k r : Nat)
    (e : Eng Fix) :
    ExecAny.runFor P n pick k r e = ExecAny.runForB P n pick (fun _ _ => []) (fun _ _ => []) k r e :=
  LiveAny.runFor_eq_runForB P n pick k r e

/-! ### any schedule, any extra wake-ups (`ExecAny.runForB`) -/

theorem C01_join_resolves_vals_busy (pick : Nat → Eng Fix → Nat)
    (pre post : Nat → Eng Fix → List (Nat × Nat)) (r : Nat)
    (slice : Bool) (m : Mode) (n : Nat) (scripts : Nat → List Step)
    (hs : ∀ c, c < n → Exec.futureScript (scripts c) = true) :
    ∃ k, k ≤ 3 * Exec.stepsLeft n (FEng.init (if slice then .joinSlice else .joinTuple) m n scripts) + 1 ∧
      Mon.lastOut (ExecAny.runForB (if slice then Fc.joinSlice else Fc.joinTuple) n pick pre post k r
                (FEng.init (if slice then .joinSlice else .joinTuple) m n scripts)).w.trace
              = some (.ready true ((List.range n).map (fun c => Live.finalVal (scripts c)))) := by
  cases slice
  · simp only [Bool.false_eq_true, if_false]
    exact LiveAny.joinTuple_resolvesB pick pre post r m n scripts hs
  · simp only [if_true]
    exact LiveAny.joinSlice_resolvesB pick pre post r m n scripts hs

theorem C01_join_resolves_busy (pick : Nat → Eng Fix → Nat)
    (pre post : Nat → Eng Fix → List (Nat × Nat)) (r : Nat)
    (slice : Bool) (m : Mode) (n : Nat) (scripts : Nat → List Step)
    (hs : ∀ c, c < n → Exec.futureScript (scripts c) = true) :
    ∃ k, k ≤ 3 * Exec.stepsLeft n (FEng.init (if slice then .joinSlice else .joinTuple) m n scripts) + 1 ∧
      ∃ vals, Mon.lastOut (ExecAny.runForB (if slice then Fc.joinSlice else Fc.joinTuple) n pick pre post k r
                (FEng.init (if slice then .joinSlice else .joinTuple) m n scripts)).w.trace
              = some (.ready true vals) := by
  obtain ⟨k, hk, hv⟩ := C01_join_resolves_vals_busy pick pre post r slice m n scripts hs
  exact ⟨k, hk, _, hv⟩

theorem C01_race_resolves_busy (pick : Nat → Eng Fix → Nat)
    (pre post : Nat → Eng Fix → List (Nat × Nat)) (r : Nat)
    (m : Mode) (n : Nat) (hn : 0 < n) (scripts : Nat → List Step)
    (hs : ∀ c, c < n → Exec.futureScript (scripts c) = true) :
    ∃ k, k ≤ 3 * Exec.stepsLeft n (FEng.init .race m n scripts) + 1 ∧
      ∃ v, Mon.lastOut (ExecAny.runForB Fc.race n pick pre post k r (FEng.init .race m n scripts)).w.trace
        = some (.ready true [v]) :=
  LiveAny.race_resolvesB pick pre post r m n hn scripts hs

theorem C01_try_join_resolves_busy (pick : Nat → Eng Fix → Nat)
    (pre post : Nat → Eng Fix → List (Nat × Nat)) (r : Nat)
    (slice : Bool) (m : Mode) (n : Nat) (scripts : Nat → List Step)
    (hs : ∀ c, c < n → Exec.futureScript (scripts c) = true) :
    ∃ k, k ≤ 3 * Exec.stepsLeft n (FEng.init (if slice then .tryJoinSlice else .tryJoinTuple) m n scripts) + 1 ∧
      ∃ ok vals, Mon.lastOut (ExecAny.runForB (if slice then Fc.tryJoinSlice else Fc.tryJoinTuple) n
                pick pre post k r
                (FEng.init (if slice then .tryJoinSlice else .tryJoinTuple) m n scripts)).w.trace
              = some (.ready ok vals) := by
  cases slice
  · simp only [Bool.false_eq_true, if_false]
    exact LiveAny.tryJoinTuple_resolvesB pick pre post r m n scripts hs
  · simp only [if_true]
    exact LiveAny.tryJoinSlice_resolvesB pick pre post r m n scripts hs

theorem C01_race_ok_resolves_busy (pick : Nat → Eng Fix → Nat)
    (pre post : Nat → Eng Fix → List (Nat × Nat)) (r : Nat)
    (fam : Fam) (hf : fam = .raceOkArr ∨ fam = .raceOkVec ∨ fam = .raceOkTup)
    (m : Mode) (n : Nat) (scripts : Nat → List Step)
    (hs : ∀ c, c < n → Exec.futureScript (scripts c) = true) :
    ∃ k, k ≤ 3 * Exec.stepsLeft n (FEng.init fam m n scripts) + 1 ∧
      ∃ ok vals, Mon.lastOut (ExecAny.runForB fam.policy n pick pre post k r
          (FEng.init fam m n scripts)).w.trace = some (.ready ok vals) :=
  LiveAny.raceOk_resolvesB pick pre post r fam hf m n scripts hs

theorem C01_merge_ends_busy (pick : Nat → Eng Fix → Nat)
    (pre post : Nat → Eng Fix → List (Nat × Nat)) (r : Nat)
    (m : Mode) (n : Nat) (scripts : Nat → List Step)
    (hs : ∀ c, c < n → streamScript (scripts c) = true) :
    ∃ k, k ≤ 3 * Exec.stepsLeft n (FEng.init .merge m n scripts) + 1 ∧
      Mon.lastOut (ExecAny.runForB Fc.merge n pick pre post k r (FEng.init .merge m n scripts)).w.trace
        = some .none :=
  LiveAny.merge_endsB pick pre post r m n scripts hs

theorem C01_chain_ends_busy (pick : Nat → Eng Fix → Nat)
    (pre post : Nat → Eng Fix → List (Nat × Nat)) (r : Nat)
    (m : Mode) (n : Nat) (scripts : Nat → List Step)
    (hs : ∀ c, c < n → streamScript (scripts c) = true) :
    ∃ k, k ≤ 3 * Exec.stepsLeft n (FEng.init .chain m n scripts) + 1 ∧
      Mon.lastOut (ExecAny.runForB Fc.chain n pick pre post k r (FEng.init .chain m n scripts)).w.trace
        = some .none :=
  LiveAny.chain_endsB pick pre post r m n scripts hs

theorem C01_zip_ends_busy (pick : Nat → Eng Fix → Nat)
    (pre post : Nat → Eng Fix → List (Nat × Nat)) (r : Nat)
    (m : Mode) (n : Nat) (hn : 0 < n) (scripts : Nat → List Step)
    (hs : ∀ c, c < n → streamScript (scripts c) = true) :
    ∃ k, k ≤ 3 * Exec.stepsLeft n (FEng.init .zip m n scripts) + 1 ∧
      Mon.lastOut (ExecAny.runForB Fc.zip n pick pre post k r (FEng.init .zip m n scripts)).w.trace
        = some .none :=
  LiveAny.zip_endsB pick pre post r m n hn scripts hs

/-! ### any schedule (`ExecAny.runFor`): the statements of C01live / C01live2 / C01live3 -/

/-- liveness of join under every schedule: the run resolves within `3 * stepsLeft + 1` rounds -/
theorem C01_join_resolves_any (pick : Nat → Eng Fix → Nat)
    (slice : Bool) (m : Mode) (n : Nat) (scripts : Nat → List Step)
    (hs : ∀ c, c < n → Exec.futureScript (scripts c) = true) :
    ∃ k, k ≤ 3 * Exec.stepsLeft n (FEng.init (if slice then .joinSlice else .joinTuple) m n scripts) + 1 ∧
      ∃ vals, Mon.lastOut (ExecAny.runFor (if slice then Fc.joinSlice else Fc.joinTuple) n pick k 0
                (FEng.init (if slice then .joinSlice else .joinTuple) m n scripts)).w.trace
              = some (.ready true vals) := by
  simp only [C01_any_busy_nil]
  exact C01_join_resolves_busy pick _ _ 0 slice m n scripts hs

/-- … and the container returned holds every child's value at its position -/
theorem C01_join_resolves_vals_any (pick : Nat → Eng Fix → Nat)
    (slice : Bool) (m : Mode) (n : Nat) (scripts : Nat → List Step)
    (hs : ∀ c, c < n → Exec.futureScript (scripts c) = true) :
    ∃ k, k ≤ 3 * Exec.stepsLeft n (FEng.init (if slice then .joinSlice else .joinTuple) m n scripts) + 1 ∧
      Mon.lastOut (ExecAny.runFor (if slice then Fc.joinSlice else Fc.joinTuple) n pick k 0
                (FEng.init (if slice then .joinSlice else .joinTuple) m n scripts)).w.trace
              = some (.ready true ((List.range n).map (fun c => Live.finalVal (scripts c)))) := by
  simp only [C01_any_busy_nil]
  exact C01_join_resolves_vals_busy pick _ _ 0 slice m n scripts hs

/-- liveness of race under every schedule -/
theorem C01_race_resolves_any (pick : Nat → Eng Fix → Nat)
    (m : Mode) (n : Nat) (hn : 0 < n) (scripts : Nat → List Step)
    (hs : ∀ c, c < n → Exec.futureScript (scripts c) = true) :
    ∃ k, k ≤ 3 * Exec.stepsLeft n (FEng.init .race m n scripts) + 1 ∧
      ∃ v, Mon.lastOut (ExecAny.runFor Fc.race n pick k 0 (FEng.init .race m n scripts)).w.trace
        = some (.ready true [v]) := by
  simp only [C01_any_busy_nil]
  exact C01_race_resolves_busy pick _ _ 0 m n hn scripts hs

/-- liveness of try_join (array/Vec model and tuple model) under every schedule -/
theorem C01_try_join_resolves_any (pick : Nat → Eng Fix → Nat)
    (slice : Bool) (m : Mode) (n : Nat) (scripts : Nat → List Step)
    (hs : ∀ c, c < n → Exec.futureScript (scripts c) = true) :
    ∃ k, k ≤ 3 * Exec.stepsLeft n (FEng.init (if slice then .tryJoinSlice else .tryJoinTuple) m n scripts) + 1 ∧
      ∃ ok vals, Mon.lastOut (ExecAny.runFor (if slice then Fc.tryJoinSlice else Fc.tryJoinTuple) n pick k 0
                (FEng.init (if slice then .tryJoinSlice else .tryJoinTuple) m n scripts)).w.trace
              = some (.ready ok vals) := by
  simp only [C01_any_busy_nil]
  exact C01_try_join_resolves_busy pick _ _ 0 slice m n scripts hs

/-- liveness of race_ok (array, Vec and tuple variants) under every schedule -/
theorem C01_race_ok_resolves_any (pick : Nat → Eng Fix → Nat)
    (fam : Fam) (hf : fam = .raceOkArr ∨ fam = .raceOkVec ∨ fam = .raceOkTup)
    (m : Mode) (n : Nat) (scripts : Nat → List Step)
    (hs : ∀ c, c < n → Exec.futureScript (scripts c) = true) :
    ∃ k, k ≤ 3 * Exec.stepsLeft n (FEng.init fam m n scripts) + 1 ∧
      ∃ ok vals, Mon.lastOut (ExecAny.runFor fam.policy n pick k 0 (FEng.init fam m n scripts)).w.trace
        = some (.ready ok vals) := by
  simp only [C01_any_busy_nil]
  exact C01_race_ok_resolves_busy pick _ _ 0 fam hf m n scripts hs

/-- liveness of merge under every schedule (the tight bound `3 * stepsLeft + 1`) -/
theorem C01_merge_ends_any (pick : Nat → Eng Fix → Nat)
    (m : Mode) (n : Nat) (scripts : Nat → List Step)
    (hs : ∀ c, c < n → streamScript (scripts c) = true) :
    ∃ k, k ≤ 3 * Exec.stepsLeft n (FEng.init .merge m n scripts) + 1 ∧
      Mon.lastOut (ExecAny.runFor Fc.merge n pick k 0 (FEng.init .merge m n scripts)).w.trace = some .none := by
  simp only [C01_any_busy_nil]
  exact C01_merge_ends_busy pick _ _ 0 m n scripts hs

/-- chain is sequential: at most one input can be waiting, so every schedule — directly or through
    the fallback — prods the input the first-waiting schedule prods; the run is the run of
    Fc/Exec.lean -/
theorem C01_chain_any_eq (pick : Nat → Eng Fix → Nat)
    (m : Mode) (n : Nat) (scripts : Nat → List Step)
    (hs : ∀ c, c < n → streamScript (scripts c) = true) (k r : Nat) :
    ExecAny.runFor Fc.chain n pick k r (FEng.init .chain m n scripts)
      = Exec.runFor Fc.chain n k (FEng.init .chain m n scripts) :=
  LiveAny.chain_any_eq pick m n scripts hs k r

/-- liveness of chain under every schedule -/
theorem C01_chain_ends_any (pick : Nat → Eng Fix → Nat)
    (m : Mode) (n : Nat) (scripts : Nat → List Step)
    (hs : ∀ c, c < n → streamScript (scripts c) = true) :
    ∃ k, k ≤ 3 * Exec.stepsLeft n (FEng.init .chain m n scripts) + 1 ∧
      Mon.lastOut (ExecAny.runFor Fc.chain n pick k 0 (FEng.init .chain m n scripts)).w.trace = some .none := by
  simp only [C01_chain_any_eq pick m n scripts hs]
  exact C01_chain_ends_tight m n scripts hs

/-- liveness of zip (at least one input) under every schedule -/
theorem C01_zip_ends_any (pick : Nat → Eng Fix → Nat)
    (m : Mode) (n : Nat) (hn : 0 < n) (scripts : Nat → List Step)
    (hs : ∀ c, c < n → streamScript (scripts c) = true) :
    ∃ k, k ≤ 3 * Exec.stepsLeft n (FEng.init .zip m n scripts) + 1 ∧
      Mon.lastOut (ExecAny.runFor Fc.zip n pick k 0 (FEng.init .zip m n scripts)).w.trace = some .none := by
  simp only [C01_any_busy_nil]
  exact C01_zip_ends_busy pick _ _ 0 m n hn scripts hs

/-- the original theorems are the instance `pick := first waiting child` (shown for join) -/
example (slice : Bool) (m : Mode) (n : Nat) (scripts : Nat → List Step)
    (hs : ∀ c, c < n → Exec.futureScript (scripts c) = true) :
    ∃ k, k ≤ 3 * Exec.stepsLeft n (FEng.init (if slice then .joinSlice else .joinTuple) m n scripts) + 1 ∧
      ∃ vals, Mon.lastOut (Exec.runFor (if slice then Fc.joinSlice else Fc.joinTuple) n k
                (FEng.init (if slice then .joinSlice else .joinTuple) m n scripts)).w.trace
              = some (.ready true vals) := by
  have h := C01_join_resolves_any (fun _ e => (Exec.firstWaiting n e).getD n) slice m n scripts hs
  simp only [C01_any_firstWaiting] at h
  exact h

/-! ### non-vacuity: schedules that differ from "first waiting child" -/

/-- prod the LAST waiting child -/
def C01any_pickLast (n : Nat) : Nat → Eng Fix → Nat :=
  fun _ e => ((List.range n).reverse.find? (ExecAny.isWaiting e)).getD n

/-- alternate by round parity: first waiting child in even rounds, last waiting child in odd ones -/
def C01any_pickAlt (n : Nat) : Nat → Eng Fix → Nat :=
  fun r e => if r % 2 = 0 then (Exec.firstWaiting n e).getD n else C01any_pickLast n r e

/-- a schedule that never names a child: every prod goes through the fallback -/
def C01any_pickNobody (n : Nat) : Nat → Eng Fix → Nat := fun r _ => n + r

/-- the children whose wakers were invoked (by the environment, or from inside a child's poll as
    scripted), newest first -/
def C01any_prods (t : List Ev) : List Nat :=
  t.filterMap (fun e => match e with | .fired c _ _ => some c | _ => none)

/-! join of 3 (`C01live_example`: child 0 needs two prods, child 1 resolves at once, child 2 needs
    one prod), tuple model, std mode -/

set_option maxRecDepth 100000 in
/-- first waiting child: wake-ups of children 0 (prod), 0 (child 0 wakes itself in its second poll),
    2 (prod), in this order … -/
example : C01any_prods (Exec.runFor Fc.joinTuple 3 30 (FEng.init .joinTuple .std 3 C01live_example)).w.trace
    = [2, 0, 0] := by decide
set_option maxRecDepth 100000 in
/-- … last waiting child: 2 (prod), 0 (prod), 0 (in-poll) — another run, another trace … -/
example : C01any_prods (ExecAny.runFor Fc.joinTuple 3 (C01any_pickLast 3) 30 0
    (FEng.init .joinTuple .std 3 C01live_example)).w.trace = [0, 0, 2] := by decide
set_option maxRecDepth 100000 in
example : (ExecAny.runFor Fc.joinTuple 3 (C01any_pickLast 3) 30 0
      (FEng.init .joinTuple .std 3 C01live_example)).w.trace
    ≠ (Exec.runFor Fc.joinTuple 3 30 (FEng.init .joinTuple .std 3 C01live_example)).w.trace := by decide
set_option maxRecDepth 100000 in
/-- … which resolves all the same, every value at its position, within the bound (6 steps: 19) -/
example : (ExecAny.runFor Fc.joinTuple 3 (C01any_pickLast 3) 19 0
      (FEng.init .joinTuple .std 3 C01live_example)).w.trace.head?
    = some (.pollEnd (.ready true [10, 11, 12])) := by decide
set_option maxRecDepth 100000 in
/-- not before round 6 (4 polls, 2 prods) -/
example : ∀ k, k ≤ 5 → Exec.finalOut (Mon.lastOut (ExecAny.runFor Fc.joinTuple 3 (C01any_pickLast 3) k 0
      (FEng.init .joinTuple .std 3 C01live_example)).w.trace) = false := by decide
set_option maxRecDepth 100000 in
/-- alternating by parity (the prods happen in rounds 1 and 3: the last waiting child each time);
    the array/Vec model in direct mode under the same schedule -/
example : C01any_prods (ExecAny.runFor Fc.joinTuple 3 (C01any_pickAlt 3) 30 0
      (FEng.init .joinTuple .std 3 C01live_example)).w.trace = [0, 0, 2] ∧
    (ExecAny.runFor Fc.joinSlice 3 (C01any_pickAlt 3) 30 0
      (FEng.init .joinSlice .direct 3 C01live_example)).w.trace.head?
    = some (.pollEnd (.ready true [10, 11, 12])) := by decide
set_option maxRecDepth 100000 in
/-- a schedule that names nobody: the fallback makes it the first-waiting run -/
example : (ExecAny.runFor Fc.joinTuple 3 (C01any_pickNobody 3) 30 0
      (FEng.init .joinTuple .std 3 C01live_example)).w.trace
    = (Exec.runFor Fc.joinTuple 3 30 (FEng.init .joinTuple .std 3 C01live_example)).w.trace := by decide

/-! merge of 3 (`C01live3_merge`), std mode -/

set_option maxRecDepth 100000 in
/-- first waiting child: the items come out as 1, 2, 5, 6, 7 (newest first below) … -/
example : Mon.yielded (Exec.runFor Fc.merge 3 40 (FEng.init .merge .std 3 C01live3_merge)).w.trace
      = [7, 6, 5, 2, 1] ∧
    C01any_prods (Exec.runFor Fc.merge 3 40 (FEng.init .merge .std 3 C01live3_merge)).w.trace
      = [2, 2, 0, 0, 1] := by decide
set_option maxRecDepth 100000 in
/-- … last waiting child: another interleaving (1, 5, 6, 7, 2), other prods … -/
example : Mon.yielded (ExecAny.runFor Fc.merge 3 (C01any_pickLast 3) 40 0
        (FEng.init .merge .std 3 C01live3_merge)).w.trace = [2, 7, 6, 5, 1] ∧
    C01any_prods (ExecAny.runFor Fc.merge 3 (C01any_pickLast 3) 40 0
        (FEng.init .merge .std 3 C01live3_merge)).w.trace = [0, 2, 2, 0, 1] := by decide
set_option maxRecDepth 100000 in
/-- … ending with `None` within the bound (12 steps: 37; in fact in round 13), the functional
    monitor C08 accepting the run -/
example : (ExecAny.runFor Fc.merge 3 (C01any_pickLast 3) 37 0
        (FEng.init .merge .std 3 C01live3_merge)).w.trace.head? = some (.pollEnd .none) ∧
    Mon.holds_C08 3 (ExecAny.runFor Fc.merge 3 (C01any_pickLast 3) 37 0
        (FEng.init .merge .std 3 C01live3_merge)).w.trace = true := by decide
set_option maxRecDepth 100000 in
example : ∀ k, k ≤ 12 → Exec.finalOut (Mon.lastOut (ExecAny.runFor Fc.merge 3 (C01any_pickLast 3) k 0
      (FEng.init .merge .std 3 C01live3_merge)).w.trace) = false := by decide

/-! chain of 3 (`C01live3_chain`): only the input `index` points at can be waiting — the run does
    not depend on the schedule -/

set_option maxRecDepth 100000 in
example : (ExecAny.runFor Fc.chain 3 (C01any_pickLast 3) 40 0
      (FEng.init .chain .std 3 C01live3_chain)).w.trace
    = (Exec.runFor Fc.chain 3 40 (FEng.init .chain .std 3 C01live3_chain)).w.trace ∧
  (ExecAny.runFor Fc.chain 3 (C01any_pickAlt 3) 40 0
      (FEng.init .chain .std 3 C01live3_chain)).w.trace
    = (Exec.runFor Fc.chain 3 40 (FEng.init .chain .std 3 C01live3_chain)).w.trace := by decide

/-! a busy environment: in every environment round, before the prod it invokes both wakers child 1
    was ever handed (child 1 has resolved / ended: stale) and after it an old waker of child 0 -/

def C01any_pre : Nat → Eng Fix → List (Nat × Nat) := fun _ _ => [(1, 0), (1, 1)]
def C01any_post : Nat → Eng Fix → List (Nat × Nat) := fun _ _ => [(0, 1), (2, 0)]

set_option maxRecDepth 100000 in
/-- join: 5 wake-ups per environment round instead of 1 (2 environment rounds, plus the scripted
    in-poll wake-up: 11 `fired` events instead of 3), the same result within the bound -/
example : (ExecAny.runForB Fc.joinTuple 3 (C01any_pickLast 3) C01any_pre C01any_post 19 0
      (FEng.init .joinTuple .std 3 C01live_example)).w.trace.head?
      = some (.pollEnd (.ready true [10, 11, 12])) ∧
    (C01any_prods (ExecAny.runForB Fc.joinTuple 3 (C01any_pickLast 3) C01any_pre C01any_post 19 0
      (FEng.init .joinTuple .std 3 C01live_example)).w.trace).length
      = 11 ∧
    (C01any_prods (ExecAny.runFor Fc.joinTuple 3 (C01any_pickLast 3) 19 0
      (FEng.init .joinTuple .std 3 C01live_example)).w.trace).length = 3 := by decide
set_option maxRecDepth 100000 in
/-- merge: ends within the bound, C08 and C01 accept the run -/
example : (ExecAny.runForB Fc.merge 3 (C01any_pickAlt 3) C01any_pre C01any_post 37 0
      (FEng.init .merge .std 3 C01live3_merge)).w.trace.head? = some (.pollEnd .none) ∧
    Mon.holds_C08 3 (ExecAny.runForB Fc.merge 3 (C01any_pickAlt 3) C01any_pre C01any_post 37 0
      (FEng.init .merge .std 3 C01live3_merge)).w.trace = true := by decide

/-- the hypothesis is still needed: with a child that stays Pending for ever (`C01live_stuck`) the
    join stays pending and no schedule has anything to prod (the fallback finds nobody either) -/
example : Mon.lastOut (ExecAny.runFor Fc.joinTuple 2 (C01any_pickLast 2) 30 0
        (FEng.init .joinTuple .std 2 C01live_stuck)).w.trace = some .pending ∧
    (ExecAny.round Fc.joinTuple 2 (C01any_pickLast 2) 30
      (ExecAny.runFor Fc.joinTuple 2 (C01any_pickLast 2) 30 0
        (FEng.init .joinTuple .std 2 C01live_stuck))).isNone = true := by
  decide

end Fc

#print axioms Fc.C01_any_firstWaiting
#print axioms Fc.C01_any_busy_nil
#print axioms Fc.C01_join_resolves_any
#print axioms Fc.C01_join_resolves_vals_any
#print axioms Fc.C01_race_resolves_any
#print axioms Fc.C01_try_join_resolves_any
#print axioms Fc.C01_race_ok_resolves_any
#print axioms Fc.C01_merge_ends_any
#print axioms Fc.C01_chain_any_eq
#print axioms Fc.C01_chain_ends_any
#print axioms Fc.C01_zip_ends_any
#print axioms Fc.C01_join_resolves_busy
#print axioms Fc.C01_join_resolves_vals_busy
#print axioms Fc.C01_race_resolves_busy
#print axioms Fc.C01_try_join_resolves_busy
#print axioms Fc.C01_race_ok_resolves_busy
#print axioms Fc.C01_merge_ends_busy
#print axioms Fc.C01_chain_ends_busy
#print axioms Fc.C01_zip_ends_busy
