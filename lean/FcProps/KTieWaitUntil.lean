/-
  Kernel tie, `wait_until` — `WaitUntil::poll` of src/future/wait_until.rs (a `loop` over the `State` enum with `ready!`)
  and `WaitUntil::poll_next` of src/stream/wait_until.rs, TRANSLATED FROM THE CURRENT SOURCE (tools/rs2lean.py →
  FcGen/KSrcWait.lean), refine `Eng.poll waitUntilF` / `Eng.poll waitUntilS` of the model (Fc/Families.lean).

  The two children are fields of their own (numbers in the translation; `roleDeadline`, `roleInner`); the model numbers
  the deadline 0 and the inner future / stream 1.  The caller's context goes straight to the child that is polled (the
  model's `direct` strategy).  The translation also says where the deadline's output DIES: `ready!(deadline.poll(cx));`
  drops it at the end of that statement (future), whereas in `match deadline.poll(cx) { Poll::Ready(_) => { …;
  stream.poll_next(cx) } }` it stays in the scrutinee's temporary until the `match` is left, i.e. until after the inner
  stream's first poll (stream) — the translator emits `valDropped` there (the rule is in tools/rs2lean.py, part of the
  trusted base), the model does the same with its one-slot buffer `out 0`.

  `State.toNat` is the position of a variant in the enum's declaration (generated), so the proofs name no variant:
  future: 0 = Started, 1 = PollFuture, 2 = Completed;  stream: 0 = Timer, 1 = Streaming.
  Proofs: FcProps/KTieWait.lean.
-/
import FcGen.KSrcWait
import FcProps.KTieCore

namespace Fc
open Rs Src

namespace TieWaitF
open WaitF

def absW (g : WaitUntil) (b : Eng Fix) : Eng Fix :=
  { w := { b.w with mode := .direct },
    s := { b.s with n := 2, cnt := if g.roleState.toNat = 0 then 0 else 1, dead := decide (g.roleState.toNat = 2) } }

structure WfW (g : WaitUntil) : Prop where
  dl : g.roleDeadline = 0
  inn : g.roleInner = 1

def poll_tie_statement : Prop :=
  ∀ (g : WaitUntil) (b : Eng Fix) (w : Nat),
    WfW g → FutStepsF b.w → g.roleState.toNat ≠ 2 →
    ∃ g' env' ret,
      WaitUntil.poll g w (((absW g b).w.emit (.pollBegin w)).setWaker w) = some (g', env', ret) ∧
      WfW g' ∧
      (absW g' b).s.cnt = (Eng.poll waitUntilF (absW g b) w).s.cnt ∧
      (absW g' b).s.dead = (Eng.poll waitUntilF (absW g b) w).s.dead ∧
      env'.scripts = (Eng.poll waitUntilF (absW g b) w).w.scripts ∧
      env'.handed = (Eng.poll waitUntilF (absW g b) w).w.handed ∧
      (Eng.poll waitUntilF (absW g b) w).w.trace = .pollEnd (outcomeOfRace ret) :: env'.trace

/-- polling a completed `WaitUntil` panics ("future polled after completing") -/
def poll_completed_statement : Prop :=
  ∀ (g : WaitUntil) (w : Nat) (env : World), g.roleState.toNat = 2 → WaitUntil.poll g w env = none

end TieWaitF

namespace TieWaitS
open WaitS

/-- the stream has no `done` flag: the model's `dead` is not stored (it comes from `b`) -/
def absW (g : WaitUntil) (b : Eng Fix) : Eng Fix :=
  { w := { b.w with mode := .direct },
    s := { b.s with n := 2, cnt := g.roleState.toNat } }

structure WfW (g : WaitUntil) : Prop where
  dl : g.roleDeadline = 0
  inn : g.roleInner = 1

/-- what a well-behaved pair of children answers: the deadline (child 0) like a future, the others like streams -/
def StepsW (w : World) : Prop :=
  (∀ st, st ∈ w.scripts 0 → st.res = .pend ∨ ∃ ok v, st.res = .ready ok v) ∧
  (∀ c st, c ≠ 0 → st ∈ w.scripts c → st.res = .pend ∨ st.res = .fin ∨ ∃ v, st.res = .item v)

def poll_tie_statement : Prop :=
  ∀ (g : WaitUntil) (b : Eng Fix) (w : Nat),
    WfW g → StepsW b.w → b.s.dead = false → b.s.out 0 = none →
    ∃ g' env' ret,
      WaitUntil.poll_next g w (((absW g b).w.emit (.pollBegin w)).setWaker w) = some (g', env', ret) ∧
      WfW g' ∧
      (absW g' b).s.cnt = (Eng.poll waitUntilS (absW g b) w).s.cnt ∧
      (Eng.poll waitUntilS (absW g b) w).s.out 0 = none ∧
      ((Eng.poll waitUntilS (absW g b) w).s.dead = true ↔ ret = .ready none) ∧
      env'.scripts = (Eng.poll waitUntilS (absW g b) w).w.scripts ∧
      env'.handed = (Eng.poll waitUntilS (absW g b) w).w.handed ∧
      (Eng.poll waitUntilS (absW g b) w).w.trace = .pollEnd (outcomeOfStream ret) :: env'.trace

end TieWaitS
end Fc
