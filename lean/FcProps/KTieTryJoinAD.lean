/-
  Kernel tie, `[Fut; N]::try_join()` (src/future/try_join/array.rs) in the no_std / alloc-only FLAVOUR: the translated
  `TryJoin::poll` and the translated `PinnedDrop` destructor `TryJoin::drop` of FcGen/KSrcArr2D.lean (the family source
  compiled against utils/wakers/array/no_std.rs: no flag table, every unfinished child is polled on every poll with the
  caller's own waker) refine `Eng.poll tryJoinSlice` / `Eng.drop tryJoinSlice` of the model on a world in `direct` mode.
  Statements: FcProps/KTieTryJoinDir.lean (namespace `TieTryJoinAD`); proofs:
  FcLemmas/KTieTryJoinAD{Env,Loop,Main,Poll,Drop}.lean — a port of the proof for the std flavour
  (FcProps/KTieTryJoinA.lean), whose container- and flavour-independent lemmas (the model side `tj_visit_*` /
  `tj_poll_*` / `tj_close_*`, the list facts, the `forBreak` rules) are reused as they are.

  `poll_tie`: from a well-formed live try_join of `N` children (`WfT N`: `N` children, the tables have size `N`,
  `pending` counts the `Pending` slots, a `Ready` slot holds a value; `consumed = false`) and an environment whose
  children answer like futures (`FutStepsF`), one call of the translated `poll` with task waker `w` does not panic (no
  index out of bounds, no `pending - 1` underflow, `wakers.get(i)` finds the parent waker that `set_waker` has just
  stored, the `debug_assert!(state.iter().all(is_ready))` holds, no uninitialised output slot is read), returns the
  `Poll<Result<[T; N], E>>` of the model's outcome, and leaves a combinator + environment whose reading (`absT`: the
  world in `direct` mode with the stored parent waker) is the model state after `Eng.poll tryJoinSlice · w` (`jcore`;
  `jcoreDone` for `Ready(Ok(_))` as in the std flavour), same remaining scripts, same handed-out wakers (each child
  polled was handed `Wk.par w`), same trace; `WfT N` is kept while the answer is `Pending`.  The hypothesis about
  handed-out sub-wakers of the std statement is kept (it is not needed here: a sub-waker, if one had been handed out,
  does nothing in `direct` mode on either side) and is re-established by `poll_tie_strong`.

  `drop_tie` / `drop_failed_tie`: as in the std flavour (the destructor does not touch the waker table).
-/
import FcProps.KTieTryJoinDir
import FcLemmas.KTieTryJoinADPoll
import FcLemmas.KTieTryJoinADDrop

set_option linter.unusedSimpArgs false
set_option linter.unusedVariables false

namespace Fc
open Rs Src

namespace TieTryJoinAD
open TryJoinAD

theorem poll_tie : poll_tie_statement := by
  intro N g b w hW hS hH hd
  obtain ⟨g', env', ret, h1, h2, h3, h4, h5, h6, h7, _⟩ := tjd_poll_core N g b w hW hS hH hd
  exact ⟨g', env', ret, h1, h2, h3, h4, h5, h6, h7⟩

/-- the same refinement, and in addition what the NEXT call needs again: the children are the same, every sub-waker
    handed out so far (including those of this poll) belongs to a slot, the remaining scripts still answer like futures,
    and a try_join that answered `Pending` is still not `consumed` -/
theorem poll_tie_strong (N : Nat) (g : TryJoin) (b : Eng Fix) (w : Nat) (hW : WfT N g) (hS : FutStepsF b.w)
    (hH : HandedIn N b.w) (hd : g.roleDone = false) :
    ∃ g' env' ret,
      TryJoin.poll N g w ((absT g b).w.emit (.pollBegin w)) = some (g', env', ret) ∧
      (ret = .pending → WfT N g') ∧
      ((∀ vs, ret ≠ .ready (.ok vs)) → jcore (absT g' b) = jcore (Eng.poll tryJoinSlice (absT g b) w)) ∧
      ((∃ vs, ret = .ready (.ok vs)) → TieTryJoinV.jcoreDone N (absT g' b) (Eng.poll tryJoinSlice (absT g b) w)) ∧
      env'.scripts = (Eng.poll tryJoinSlice (absT g b) w).w.scripts ∧
      env'.handed = (Eng.poll tryJoinSlice (absT g b) w).w.handed ∧
      (Eng.poll tryJoinSlice (absT g b) w).w.trace = .pollEnd (outcomeOfTryJoin ret) :: env'.trace ∧
      g'.roleKids.len = N ∧ HandedIn N env' ∧ FutStepsF env' ∧
      (ret = .pending → g'.roleDone = false) := by
  obtain ⟨g', env', ret, h1, h2, h3, h4, h5, h6, h7, h8, h9, h10, h11⟩ := tjd_poll_core N g b w hW hS hH hd
  exact ⟨g', env', ret, h1, h2, h3, h4, h5, h6, h7, h8, h9, h10, h11⟩

theorem drop_tie : drop_tie_statement := by
  intro N g b hW _
  obtain ⟨⟨g', env', ⟨⟩⟩, h1, h2, h3, h4⟩ := tjd_drop_core N g b (hW.sl.trans hW.kn.symm) (hW.ic.trans hW.kn.symm)
    (fun i hi hr => by
      rcases hW.rs i (hW.kn ▸ hi) with h | ⟨_, h⟩
      · rw [h] at hr; cases hr
      · exact h)
  exact ⟨g', env', h1, h2, h3, h4⟩

theorem drop_failed_tie : drop_failed_tie_statement := by
  intro N g b hW
  obtain ⟨⟨g', env', ⟨⟩⟩, h1, h2, _, _⟩ := tjd_drop_core N g b (hW.sl.trans hW.kn.symm) (hW.ic.trans hW.kn.symm)
    (fun i hi hr => by
      rcases hW.rs i (hW.kn ▸ hi) with h | h | ⟨_, h⟩
      · rw [h] at hr; cases hr
      · rw [h] at hr; cases hr
      · exact h)
  exact ⟨g', env', h1, h2⟩

/-- `TryJoin::new` on `N` children builds a well-formed live try_join: the hypotheses `WfT N` / `roleDone = false` of
    the theorems above hold of every freshly built combinator -/
theorem new_wf (N : Nat) (kids : Rs.Kids) (hk : kids.len = N) :
    ∃ g, TryJoin.new N kids = some g ∧ WfT N g ∧ g.roleDone = false ∧ g.roleKids = kids := by
  simp only [TryJoin.new, WakerArrayD.new, DirArr.ReadinessArray.new, Option.bind_eq_bind, Option.bind_some, Option.pure_def]
  refine ⟨_, rfl, ?_, ?_, ?_⟩
  · refine ⟨hk, rfl, rfl, ?_, fun i _ => Or.inl rfl⟩
    simp only [Rs.PVec.replicate, TryJoin.roleCount, TryJoin.roleStates, TryJoin.roleKids, decide_true]
    rw [List.filter_eq_self.mpr (fun _ _ => rfl), List.length_range]
  · rfl
  · rfl

end TieTryJoinAD

/-! ## non-vacuity: concrete instances of the hypotheses, and the conclusions checked by evaluation -/
namespace TieTryJoinADEx
open TryJoinAD TieTryJoinAD

/-- three futures: child 0 is pending at first (it wakes itself during the poll) and then resolves to `Ok(7)`, child 1
    resolves to `Ok(8)` at once, child 2 is pending twice (waking itself each time) and then fails with `Err(9)` -/
def sc : Nat → List Step := fun c =>
  if c = 0 then [⟨.pend, [(0, 0)]⟩, ⟨.ready true 7, []⟩]
  else if c = 1 then [⟨.ready true 8, []⟩]
  else if c = 2 then [⟨.pend, [(2, 0)]⟩, ⟨.pend, [(2, 0)]⟩, ⟨.ready false 9, []⟩] else []

def b0 : Eng Fix := { w := World.init .direct 3 sc, s := Fix.init 3 3 }

example : FutStepsF b0.w := by
  intro c st h
  simp only [b0, World.init, sc] at h
  split at h
  · simp at h; rcases h with rfl | rfl <;> simp
  · split at h
    · simp at h; subst h; simp
    · split at h
      · simp at h; rcases h with rfl | rfl | rfl <;> simp
      · simp at h

example : ∀ c i, Wk.sub i ∈ b0.w.handed c → i < 3 := by
  intro c i h; simp [b0, World.init] at h

example : ∃ g, TryJoin.new 3 ⟨3⟩ = some g ∧ WfT 3 g ∧ g.roleDone = false ∧ g.roleKids = ⟨3⟩ := new_wf 3 ⟨3⟩ rfl

/-- the conclusion of `poll_tie` on `TryJoin::new([3 futures])`, first poll, checked by evaluation: no panic, the answer
    is `Pending` as in the model, and trace, `pending` counter, `consumed`, the parent waker (and the flag-table fields
    nobody touches), states and output slots of the three slots, the remaining scripts and the handed-out wakers agree;
    the model runs in `direct` mode, child 0 was handed the caller's own waker `Wk.par 1` and its self-wake-up woke
    task 1 -/
example :
    (do let g ← TryJoin.new 3 ⟨3⟩
        let (g', env', ret) ← TryJoin.poll 3 g 1 ((absT g b0).w.emit (.pollBegin 1))
        let m := Eng.poll tryJoinSlice (absT g b0) 1
        let a := absT g' b0
        pure (decide (m.w.trace = .pollEnd (outcomeOfTryJoin ret) :: env'.trace) &&
              decide (outcomeOfTryJoin ret = .pending) &&
              decide (a.s.n = m.s.n ∧ a.s.cnt = m.s.cnt ∧ m.s.cnt = 2 ∧ a.s.dead = m.s.dead ∧ m.s.dead = false) &&
              decide (a.w.count = m.w.count ∧ a.w.cap = m.w.cap ∧ a.w.parent = m.w.parent ∧ m.w.parent = some 1) &&
              (List.range 3).all (fun i => a.w.bits i == m.w.bits i && decide (a.s.st i = m.s.st i) &&
                decide (a.s.out i = m.s.out i) && decide (env'.handed i = m.w.handed i) &&
                decide ((env'.scripts i).map (·.res) = (m.w.scripts i).map (·.res))) &&
              decide (m.s.out 1 = some 8) &&
              decide (m.w.mode = .direct ∧ env'.handed 0 = [Wk.par 1] ∧ Ev.woke 1 ∈ env'.trace)))
      = some true := by decide

/-- one run through translated code and model side by side (polls and the final drop; in this flavour every unfinished
    child is polled on every poll, whether or not it was woken) -/
def stepM (e : Eng Fix) : Op → Eng Fix
  | .poll w => Eng.poll tryJoinSlice e w
  | .drop => Eng.drop tryJoinSlice e
  | _ => e

def stepT (N : Nat) (st : TryJoin × World) : Op → Option (TryJoin × World)
  | .poll w => do
    let (g, env, r) ← TryJoin.poll N st.1 w (st.2.emit (.pollBegin w))
    pure (g, env.emit (.pollEnd (outcomeOfTryJoin r)))
  | .drop => do
    let (g, env, _) ← TryJoin.drop N st.1 (st.2.emit .dropBegin)
    pure (g, env.emit .dropEnd)
  | _ => some st

def runT (scr : Nat → List Step) (n : Nat) (os : List Op) : Option (TryJoin × World) := do
  let g ← TryJoin.new n ⟨n⟩
  os.foldlM (stepT n) (g, World.init .direct n scr)

/-- the try_join is dropped mid-flight (child 1's `Ok(8)` is released, children 0 and 2 are dropped): same trace, and it
    ends with `valDropped 8`, `childDropped 0`, `childDropped 2`, `dropEnd` (`drop_tie`) -/
example :
    (runT sc 3 [.poll 1, .drop]).map (fun x =>
      decide (x.2.trace = ([Op.poll 1, .drop].foldl stepM { w := World.init .direct 3 sc, s := Fix.init 3 3 }).w.trace) &&
      decide (x.2.trace.take 4 = [.dropEnd, .childDropped 2, .childDropped 0, .valDropped 8]))
      = some true := by decide

/-- … and polled until child 2 fails: the third poll answers `Ready(Err(9))`, and the drop after the failure
    (`drop_failed_tie`) releases the two values 7 and 8 that were produced and drops no child -/
example :
    (runT sc 3 [.poll 1, .poll 2, .poll 3, .drop]).map (fun x =>
      decide (x.2.trace =
        ([Op.poll 1, .poll 2, .poll 3, .drop].foldl stepM
          { w := World.init .direct 3 sc, s := Fix.init 3 3 }).w.trace) &&
      decide (x.2.trace.take 5 = [.dropEnd, .valDropped 8, .valDropped 7, .dropBegin, .pollEnd (.ready false [9])]))
      = some true := by decide

/-- a try_join of two futures that both succeed completes with `Ready(Ok([7, 8]))` -/
def sc2 : Nat → List Step := fun c =>
  if c = 0 then [⟨.ready true 7, []⟩] else if c = 1 then [⟨.ready true 8, []⟩] else []

def b2 : Eng Fix := { w := World.init .direct 2 sc2, s := Fix.init 2 2 }

example :
    (do let g ← TryJoin.new 2 ⟨2⟩
        let (g', env', ret) ← TryJoin.poll 2 g 1 ((absT g b2).w.emit (.pollBegin 1))
        let m := Eng.poll tryJoinSlice (absT g b2) 1
        let a := absT g' b2
        pure (decide (m.w.trace = .pollEnd (outcomeOfTryJoin ret) :: env'.trace) &&
              decide (outcomeOfTryJoin ret = .ready true [7, 8]) &&
              decide (a.s.n = m.s.n ∧ a.s.cnt = m.s.cnt ∧ a.s.dead = m.s.dead ∧ m.s.dead = true) &&
              (List.range 2).all (fun i => a.w.bits i == m.w.bits i && decide (a.s.st i = m.s.st i))))
      = some true := by decide

/-- why the `jcore` clause is not stated for `Ready(Ok(_))` (as for the Vec container): on the completing poll above the
    output slot 0 of the translated combinator is empty after the values were moved out, the model still holds `some 7` -/
theorem jcore_clause_false_when_done :
    (do let g ← TryJoin.new 2 ⟨2⟩
        let (g', _, _) ← TryJoin.poll 2 g 1 ((absT g b2).w.emit (.pollBegin 1))
        let m := Eng.poll tryJoinSlice (absT g b2) 1
        pure (decide ((jcore (absT g' b2)).out 0 = none ∧ (jcore m).out 0 = some 7)))
      = some true := by decide

end TieTryJoinADEx

#print axioms TieTryJoinAD.poll_tie
#print axioms TieTryJoinAD.poll_tie_strong
#print axioms TieTryJoinAD.drop_tie
#print axioms TieTryJoinAD.drop_failed_tie
#print axioms TieTryJoinAD.new_wf
#print axioms TieTryJoinADEx.jcore_clause_false_when_done

end Fc
