/-
  Kernel tie, `[Fut; N]::race_ok()` (src/future/race_ok/array/mod.rs): `RaceOk::poll` (first `Ok` wins; the errors are
  stored by position and returned as the aggregate in the poll in which the last child fails) and the `PinnedDrop`
  destructor (releases the stored errors), TRANSLATED FROM THE CURRENT SOURCE (tools/rs2lean.py → FcGen/KSrcArr7.lean),
  refine `Eng.poll (raceOk false false)` / `Eng.drop (raceOk false false)` of the model (Fc/Families.lean).

  race_ok hands the caller's context straight to its children (the model's `direct` strategy, as race and chain); the
  struct has no `done` flag, so the model's `dead` is not stored: the statement is about polls of a race_ok that has not
  completed (`b.s.dead = false`), and says in which polls the model sets it.
  Proofs: FcProps/KTieRaceOkA.lean.
-/
import FcGen.KSrcArr7
import FcProps.KTieCore
import FcProps.KTiePS

namespace Fc
open Rs Src

/-- the model outcome a returned `Poll<Result<T, AggregateError<E, N>>>` stands for -/
def outcomeOfRaceOk : Rs.Poll (Rs.ResultE Nat (List Nat)) → Outcome
  | .pending => .pending
  | .ready (.ok v) => .ready true [v]
  | .ready (.err es) => .ready false es

namespace TieRaceOkA
open RaceOkA

def absK (g : RaceOk) (b : Eng Fix) : Eng Fix :=
  { w := { b.w with mode := .direct },
    s := { b.s with n := g.roleKids.len, st := fun i => TiePS.abs (g.roleStates.get i), out := g.roleItems.get,
                    cnt := g.roleCount } }

/-- a slot is `Ready` exactly when it stores the error of its (failed) child; `completed` counts them -/
structure WfK (N : Nat) (g : RaceOk) : Prop where
  kn : g.roleKids.len = N
  sl : g.roleStates.len = N
  ic : g.roleItems.cap = N
  pc : g.roleCount = ((List.range N).filter (fun i => g.roleStates.get i = PS.PollState.ready)).length
  rs : ∀ i, i < N → ((g.roleStates.get i = PS.PollState.pending ∧ g.roleItems.get i = none) ∨
        (g.roleStates.get i = PS.PollState.ready ∧ ∃ v, g.roleItems.get i = some v))

def poll_tie_statement : Prop :=
  ∀ (N : Nat) (g : RaceOk) (b : Eng Fix) (w : Nat),
    WfK N g → FutStepsF b.w → b.s.dead = false →
    ∃ g' env' ret,
      RaceOk.poll N g w (((absK g b).w.emit (.pollBegin w)).setWaker w) = some (g', env', ret) ∧
      ((∀ es, ret ≠ .ready (.err es)) → WfK N g') ∧
      (absK g' b).s.n = (Eng.poll (raceOk false false) (absK g b) w).s.n ∧
      (absK g' b).s.cnt = (Eng.poll (raceOk false false) (absK g b) w).s.cnt ∧
      (∀ i, i < N → (absK g' b).s.st i = (Eng.poll (raceOk false false) (absK g b) w).s.st i) ∧
      /- the stored errors: the same until the aggregate is returned (then the crate has moved them out to the caller,
         the model keeps its copies, never read again) -/
      ((∀ es, ret ≠ .ready (.err es)) → (absK g' b).s.out = (Eng.poll (raceOk false false) (absK g b) w).s.out) ∧
      ((∃ es, ret = .ready (.err es)) → ∀ i, (absK g' b).s.out i = none) ∧
      ((Eng.poll (raceOk false false) (absK g b) w).s.dead = true ↔ ret ≠ .pending) ∧
      env'.scripts = (Eng.poll (raceOk false false) (absK g b) w).w.scripts ∧
      env'.handed = (Eng.poll (raceOk false false) (absK g b) w).w.handed ∧
      (Eng.poll (raceOk false false) (absK g b) w).w.trace = .pollEnd (outcomeOfRaceOk ret) :: env'.trace

/-- `PinnedDrop::drop` releases the stored errors (they were never returned); the children are plain fields, dropped
    by the struct's drop glue right after, in order -/
def drop_tie_statement : Prop :=
  ∀ (N : Nat) (g : RaceOk) (b : Eng Fix),
    WfK N g →
    ∃ g' env',
      RaceOk.drop N g ((absK g b).w.emit .dropBegin) = some (g', env', ()) ∧
      (Eng.drop (raceOk false false) (absK g b)).w.trace =
        .dropEnd :: (((List.range N).map (fun i => Ev.childDropped i)).reverse ++ env'.trace)

/-- the state a race_ok is left in by the poll that returned the aggregate: every slot `None`, nothing stored -/
structure WfFailed (N : Nat) (g : RaceOk) : Prop where
  kn : g.roleKids.len = N
  sl : g.roleStates.len = N
  ic : g.roleItems.cap = N
  rs : ∀ i, i < N → g.roleStates.get i = PS.PollState.none_

/-- dropping it then releases nothing but the children -/
def drop_failed_tie_statement : Prop :=
  ∀ (N : Nat) (g : RaceOk) (b : Eng Fix),
    WfFailed N g →
    ∃ g' env',
      RaceOk.drop N g ((absK g b).w.emit .dropBegin) = some (g', env', ()) ∧
      (Eng.drop (raceOk false false) (absK g b)).w.trace =
        .dropEnd :: (((List.range N).map (fun i => Ev.childDropped i)).reverse ++ env'.trace)

end TieRaceOkA
end Fc
