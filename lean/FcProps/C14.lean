/-
  C14 — fallible concurrent-stream operations (`try_for_each`, `collect::<Result<Vec<_>, E>>`)
  never swallow an error and cancel on it.

  Model: the trace acceptor `Co.step` / `Co.run` / `Co.accepts` of Fc/CoSpec.lean
  (`stream.co() → map / enumerate / take / limit → for_each | try_for_each | collect`), traces
  NEWEST FIRST.  Monitor `Co.holds_C14 c` (Fc/CoMon.lean), checked at every event `ev :: t` of the
  trace, where `errsW t` = the errors work futures have returned in `t`:
    * `topEnd ok`, `topEnd (resOk _)`  ⇒ `errsW t = []` (no work future ever returned an error),
      `allProcessed c t` (every item taken from the source went through every closure stage exactly
      once and the future returned by that call resolved) and `drained c t` (the source ended, or
      some `take` is full);
    * `topEnd (err e)`, `topEnd (resErr e)`  ⇒ `e ∈ errsW t` (an error somebody actually returned);
    * `topEnd pending`, `src _`, `work _ _`, `call _ _ _ _`  ⇒ `errsW t = []`: once an error has been
      returned there is no further source poll, work-future poll, closure call or `Pending` return —
      the operation resolves to the error in that very top-level poll;
    * `dropEnd`  ⇒ `allDropped t`: every work future ever created has been dropped.
-/
import FcLemmas.C14

namespace Fc
open Co

/-- C14 for every trace the acceptor accepts: every adapter stack, every terminal, every
    resolution of the bag's nondeterminism, the error surfacing during back-pressure in `send`,
    during `progress` in the `loop`, or during the final `flush`. -/
theorem C14_fallible (c : Co.Cfg) (t : List Co.CoEv) (h : Co.accepts c t = true) :
    Co.holds_C14 c t = true := by
  unfold Co.accepts at h
  cases hr : Co.run c t with
  | none => rw [hr] at h; simp at h
  | some s => exact (CoC14.run_inv c t s hr).2

/-! ### non-vacuity -/

/-- `stream.co().limit(1).try_for_each(..)` -/
def C14_cfg : Cfg := { stack := [.limit 1], term := .tryForEach }

/-- oldest first: the source holds three items; item 0 is in flight (work future 1), item 1 waits
    in `send` (back-pressure, limit 1), the top-level poll returns Pending; in the next poll
    item 0's future resolves to `Err 9` -/
def C14_prefix : List CoEv :=
  [.topBegin, .src (.item 100), .call 0 0 [] 1, .work 1 .pend, .src (.item 101), .topEnd .pending,
   .topBegin, .work 1 (.ready false 9)]

/-- the prefix continued by `l` (oldest first), as a trace (newest first) -/
def C14_after (l : List CoEv) : List CoEv := (C14_prefix ++ l).reverse

/-- … the operation resolves to `Err 9` in that very poll (the third item is never polled for),
    and everything is dropped -/
def C14_example : List CoEv :=
  C14_after [.workDrop 1, .topEnd (.err 9), .dropBegin, .valDrop 101, .srcDrop, .dropEnd]

example : accepts C14_cfg C14_example = true := by decide
example : holds_C14 C14_cfg C14_example = true := by decide
example : accepts C14_cfg C14_prefix.reverse = true := by decide
/-- item 1 really is held back by `send` when the error arrives -/
example : (run C14_cfg C14_prefix.reverse.tail).map (·.ctrl) = some (.sending 1) := by decide
/-- after the error the acceptor rejects: a source poll, a work-future poll, `Ok`, `Pending`, an
    error nobody returned, and dropping the operation before it has resolved -/
example : accepts C14_cfg (C14_after [.src .pend]) = false := by decide
example : accepts C14_cfg (C14_after [.src (.item 102)]) = false := by decide
example : accepts C14_cfg (C14_after [.work 1 .pend]) = false := by decide
example : accepts C14_cfg (C14_after [.topEnd .ok]) = false := by decide
example : accepts C14_cfg (C14_after [.topEnd .pending]) = false := by decide
example : accepts C14_cfg (C14_after [.topEnd (.err 7)]) = false := by decide
example : accepts C14_cfg (C14_after [.dropBegin]) = false := by decide
/-- `dropEnd` is rejected while a work future is still alive -/
example : accepts C14_cfg (C14_after [.topEnd (.err 9), .dropBegin, .dropEnd]) = false := by
  decide

/-- the Ok branch: `stream.co().map(f).collect::<Result<Vec<_>, _>>()` over two items, completing
    out of order, the second during `flush` -/
def C14_cfg2 : Cfg := { stack := [.mapRes], term := .collectRes }

def C14_example2 : List CoEv :=
  [.topBegin, .src (.item 100), .call 0 0 [] 1, .work 1 .pend, .src (.item 101), .call 0 1 [] 2,
   .work 2 (.ready true 21), .workDrop 2, .src .fin, .topEnd .pending,
   .topBegin, .work 1 (.ready true 20), .workDrop 1, .topEnd (.resOk [(1, []), (0, [])]),
   CoEv.dropBegin, .srcDrop, .dropEnd].reverse

example : accepts C14_cfg2 C14_example2 = true := by decide
example : holds_C14 C14_cfg2 C14_example2 = true := by decide
/-- `Ok` is rejected while item 0 is still in flight -/
example : accepts C14_cfg2
    [.topEnd (.resOk [(1, [])]), .src .fin, .workDrop 2, .work 2 (.ready true 21), .call 0 1 [] 2,
     .src (.item 101), .work 1 .pend, .call 0 0 [] 1, .src (.item 100), .topBegin] = false := by decide

/-! the monitor is not trivially true (hand-written traces, NEWEST FIRST) -/

/-- an error is swallowed -/
example : holds_C14 C14_cfg
    [.topEnd .ok, .src .fin, .work 1 (.ready false 9), .call 0 0 [] 1, .src (.item 100), .topBegin]
    = false := by decide
/-- the operation fails with an error nobody returned -/
example : holds_C14 C14_cfg
    [.topEnd (.err 7), .work 1 (.ready false 9), .call 0 0 [] 1, .src (.item 100), .topBegin]
    = false := by decide
/-- the source is polled after the error -/
example : holds_C14 C14_cfg
    [.src .pend, .work 1 (.ready false 9), .call 0 0 [] 1, .src (.item 100), .topBegin]
    = false := by decide
/-- the operation returns Pending although an error has been observed -/
example : holds_C14 C14_cfg
    [.topEnd .pending, .work 1 (.ready false 9), .call 0 0 [] 1, .src (.item 100), .topBegin]
    = false := by decide
/-- another closure is called after the error -/
example : holds_C14 C14_cfg
    [.call 0 1 [] 2, .work 1 (.ready false 9), .call 0 0 [] 1, .src (.item 101), .src (.item 100),
     .topBegin] = false := by decide
/-- `Ok` although item 1 was taken and never processed -/
example : holds_C14 C14_cfg
    [.topEnd .ok, .src .fin, .src (.item 101), .work 1 (.ready true 0), .call 0 0 [] 1,
     .src (.item 100), .topBegin] = false := by decide
/-- `Ok` although the closure's future never resolved -/
example : holds_C14 C14_cfg
    [.topEnd .ok, .src .fin, .work 1 .pend, .call 0 0 [] 1, .src (.item 100), .topBegin]
    = false := by decide
/-- `Ok` before the source has ended -/
example : holds_C14 C14_cfg
    [.topEnd .ok, .work 1 (.ready true 0), .call 0 0 [] 1, .src (.item 100), .topBegin]
    = false := by decide
/-- the operation is dropped but a work future it created is not -/
example : holds_C14 C14_cfg
    [.dropEnd, .srcDrop, .dropBegin, .topEnd (.err 9), .work 1 (.ready false 9), .call 0 0 [] 1,
     .src (.item 100), .topBegin] = false := by decide

end Fc

#print axioms Fc.C14_fallible
