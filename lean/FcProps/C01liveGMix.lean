/-
  C01 (second sentence) — liveness of FutureGroup / StreamGroup whose membership changes WHILE the
  group is being drained.

  C01liveG / C01liveGAny: a group built by `insert` / `extend` / `reserve` is drained by the wake-only
  executor under every schedule and busy environment, and a DRAINED group that is refilled drains
  again.  Here the consumer changes the membership in the MIDDLE of a drain: between two rounds of the
  executor — other members still pending, wake-ups outstanding, the stale wakers of members that
  have left still around — it inserts further members (`insert`, `extend`; they land in vacant,
  possibly REUSED slots of the slab), reserves capacity (`reserve`: the World's readiness table is
  resized) or removes a member that may be pending (`remove`, through the key an earlier `insert`
  returned — possibly a stale key whose slot meanwhile holds another member), and then polls.

  Setting (Fc/ExecGMix.lean).  The consumer's plan is a finite list of entries `(d, ops)`, consumed in
  order: after at most `d` further ordinary rounds of the executor of C01liveGAny
  (`ExecGAny.roundB pick bef aft`: poll with a fresh task waker if the task was woken / never polled /
  an item was yielded; otherwise the environment prods the waiting member `pick` chooses and fires the
  arbitrary — stale, foreign — wakers `bef` / `aft`), or at once if the executor has nothing left to
  do (the group has drained), the consumer performs the membership operations `ops` and polls the
  group unconditionally in the same round (`ExecGMix.perform`; as in `ExecGAny.restart` a membership
  operation logs no `pollEnd`, so the wake-only rule alone need not poll).  `ExecGMix.runMix pick bef
  aft k r plan e` runs up to `k` rounds from round number `r` and answers the state and the part of
  the plan not yet performed.  (Why delays instead of absolute round numbers: see the header of
  Fc/ExecGMix.lean.)

  Hypotheses: as in `C01_group_ends_busy` — `pre` is a building history (`Op.isInsertLike`); the plan
  consists of membership operations (`Op.isMembership`: `insert`, `extend`, `reserve`, `remove`); no
  id is inserted twice in `pre` followed by the plan (`Case.insertsFresh`-style); every inserted id
  has a well-behaved script (`futureScript` for a FutureGroup, `streamScript` for a StreamGroup; the
  `Pending` steps may invoke arbitrary wakers; the scripts of all other ids are arbitrary).

  Theorems.
    `C01_group_mix_ends`      both groups, plain and keyed, both waker modes, every `pick`, `bef`,
                              `aft`, starting round number and plan: within
                                  3 * (stepsLeft e0 + steps of the ids the plan inserts) + 1
                                    + 2 * (number of plan entries)
                              rounds the whole plan has been performed, the latest outcome is `None`
                              and the group has no member left.  (An entry costs its own round, 3
                              rounds per scripted step of the new members — the bound of C01liveG —
                              and at most 2 rounds of the credit the interrupted phase had.)
    `C01_group_mix_delivers`  plans without `remove` (`Op.isInsertLike`): in that final state every
                              id inserted by `pre` or by the plan has been released (`gone`) and
                              everything its script holds — the output of a future, the items of a
                              stream, in order — was yielded by the group (a sublist of `yielded`).
    `C01_group_mix_delivers_remove`  plans WITH `remove` (`Op.isMembership`): in that final state
                              every id inserted by `pre` or by the plan has delivered everything its
                              script holds (a sublist of `yielded`), OR it was removed by the
                              consumer — the trace, NEWEST FIRST, contains `removed key true` directly
                              on top of `childDropped c`.  (`…_bound`: the same final state as in
                              `C01_group_mix_ends`, within the same bound; every inserted id was
                              released.)
    `C01_runMix_nil`          sanity: with the empty plan the executor is `ExecGAny.runForB`, and
                              `C01_group_ends_busy` is the instance `plan = []` (same bound).

  `remove` and delivery: a removed member is dropped with scripted steps left, which never are
  consumed (the measure of `C01_group_mix_ends` simply keeps counting them); its values are of course
  not delivered.  How the model logs a `remove` (`GEng.remove`, Fc/Groups.lean): through the key `k`
  the `j`-th `insert` returned; if `k` is still in the key set, the two events `childDropped c`,
  `removed k true` are emitted one directly after the other (`c` = the CURRENT occupant of slot `k`,
  which for a stale key is a later member — it is that member which is removed), plain and keyed
  groups alike (`keyed` only changes the key reported in `Some(key, _)`); if the member inserted
  under `k` has already resolved / ended and the slot was not reused, the key is gone from the key
  set, nothing is dropped and only `removed k false` is logged.  The invariant behind
  `C01_group_mix_delivers` (`LiveGStuck.WGS.lf`: a member is released only when its script is
  exhausted) is false after a `remove`; `C01_group_mix_delivers_remove` replaces it by the
  disjunction "released ⇒ no scripted step left, or the `childDropped` has `removed _ true` directly
  on top of it", which is a fact about the World alone (scripts and trace): it needs nothing about
  the slab, the readiness bits or the wakers, and holds for ANY plan of membership operations
  (FcLemmas/LiveGMixRemove.lean, `DQ`).  The facts about the group that are needed at the end — an
  inserted id that was not released is still a member, `yielded` = the values the members produced —
  are those of the invariant of `C01_group_mix_ends`, carried along the run once more.

  Proof (FcLemmas/LiveGMix*.lean).  Between two entries the run is a run of C01liveGAny and its
  invariants (`LRW` / `LRA ids ins`) apply unchanged; the round-by-round form of the budget argument
  is `LiveGMix.round_step`.  At an entry: the ids to be inserted were never inserted, hence are not
  members, were never polled, hold no waker and were never released; the "may be polled" invariant
  depends on the scripts of the members only (`lgw_setS'`), so the script restriction is widened to
  the new ids (`lgw_reids`); `insert` / `extend` / `reserve` / `remove` keep the invariant in ANY state
  between two operations (`lgw_runM`: C01g / C11 / C12 `Steps` instances plus the member facts `WG`, the
  readiness-bit fact `ib` — `insert` arms the slot) and the measure grows by exactly the scripted
  steps of the new ids; the consumer's poll is `LiveGMix.poll_cond`.
-/
import FcLemmas.LiveGMixDeliver
import FcLemmas.LiveGMixRemove
import FcProps.C01liveGAny
import Fc.Holds

namespace Fc
open Mon

/-- liveness with membership changes in the middle of the drain -/
theorem C01_group_mix_ends (pick : Nat → Eng Grp → Nat)
    (bef aft : Nat → Eng Grp → List (Nat × Nat)) (r : Nat)
    (stream keyed : Bool) (m : Mode) (scripts : Nat → List Step) (pre : List Op)
    (plan : ExecGMix.Plan)
    (hpre : ∀ op ∈ pre, op.isInsertLike = true)
    (hplan : ∀ op ∈ ExecGMix.Plan.ops plan, op.isMembership = true)
    (hfresh : ((pre ++ ExecGMix.Plan.ops plan).flatMap insertedIds).Nodup)
    (hs : ∀ c ∈ (pre ++ ExecGMix.Plan.ops plan).flatMap insertedIds,
      (if stream then streamScript (scripts c) else Exec.futureScript (scripts c)) = true) :
    let e0 := pre.foldl GEng.step (GEng.init stream keyed m scripts)
    let planSteps := (((ExecGMix.Plan.ops plan).flatMap insertedIds).map
      (fun c => (scripts c).length)).sum
    ∃ k, k ≤ 3 * (ExecG.stepsLeft e0 + planSteps) + 1 + 2 * plan.length ∧
      (ExecGMix.runMix pick bef aft k r plan e0).2 = [] ∧
      Mon.lastOut (ExecGMix.runMix pick bef aft k r plan e0).1.w.trace = some .none ∧
      ExecGAny.members (ExecGMix.runMix pick bef aft k r plan e0).1 = [] := by
  intro e0 planSteps
  obtain ⟨k, hk, h1, h2, h3⟩ := LiveGMix.group_mix_ends stream keyed m scripts pre plan hpre hplan
    hfresh hs pick bef aft r
  exact ⟨k, hk, h1, h2, LiveGMix.members_nil _ h3⟩

/-- … and, for plans without `remove`, everything is delivered: every inserted id was released and
    the values of its script (`Exec.scriptVals`: the output of a future, the items of a stream) were
    yielded by the group, in order -/
theorem C01_group_mix_delivers (pick : Nat → Eng Grp → Nat)
    (bef aft : Nat → Eng Grp → List (Nat × Nat)) (r : Nat)
    (stream keyed : Bool) (m : Mode) (scripts : Nat → List Step) (pre : List Op)
    (plan : ExecGMix.Plan)
    (hpre : ∀ op ∈ pre, op.isInsertLike = true)
    (hplan : ∀ op ∈ ExecGMix.Plan.ops plan, op.isInsertLike = true)
    (hfresh : ((pre ++ ExecGMix.Plan.ops plan).flatMap insertedIds).Nodup)
    (hs : ∀ c ∈ (pre ++ ExecGMix.Plan.ops plan).flatMap insertedIds,
      (if stream then streamScript (scripts c) else Exec.futureScript (scripts c)) = true) :
    let e0 := pre.foldl GEng.step (GEng.init stream keyed m scripts)
    let planSteps := (((ExecGMix.Plan.ops plan).flatMap insertedIds).map
      (fun c => (scripts c).length)).sum
    ∃ k, k ≤ 3 * (ExecG.stepsLeft e0 + planSteps) + 1 + 2 * plan.length ∧
      (ExecGMix.runMix pick bef aft k r plan e0).2 = [] ∧
      Mon.lastOut (ExecGMix.runMix pick bef aft k r plan e0).1.w.trace = some .none ∧
      ExecGAny.members (ExecGMix.runMix pick bef aft k r plan e0).1 = [] ∧
      ∀ c ∈ (pre ++ ExecGMix.Plan.ops plan).flatMap insertedIds,
        Mon.gone (ExecGMix.runMix pick bef aft k r plan e0).1.w.trace c = true ∧
        (Exec.scriptVals (scripts c)).reverse.Sublist
          (Mon.yielded (ExecGMix.runMix pick bef aft k r plan e0).1.w.trace) := by
  intro e0 planSteps
  obtain ⟨k, hk, h1, h2, h3, h4⟩ := LiveGMix.group_mix_delivers stream keyed m scripts pre plan hpre
    hplan hfresh hs pick bef aft r
  exact ⟨k, hk, h1, h2, LiveGMix.members_nil _ h3, h4⟩

/-- the delivery statement for plans WITH `remove`: every inserted id has delivered everything its
    script holds, unless the consumer removed it (read off the trace, NEWEST FIRST: `removed _ true`
    sits directly on top of its `childDropped`).  Proved below: `C01_group_mix_delivers_remove`. -/
def C01_group_mix_delivers_remove_statement : Prop :=
  ∀ (pick : Nat → Eng Grp → Nat) (bef aft : Nat → Eng Grp → List (Nat × Nat)) (r : Nat)
    (stream keyed : Bool) (m : Mode) (scripts : Nat → List Step) (pre : List Op)
    (plan : ExecGMix.Plan),
    (∀ op ∈ pre, op.isInsertLike = true) →
    (∀ op ∈ ExecGMix.Plan.ops plan, op.isMembership = true) →
    ((pre ++ ExecGMix.Plan.ops plan).flatMap insertedIds).Nodup →
    (∀ c ∈ (pre ++ ExecGMix.Plan.ops plan).flatMap insertedIds,
      (if stream then streamScript (scripts c) else Exec.futureScript (scripts c)) = true) →
    ∃ k, (ExecGMix.runMix pick bef aft k r plan
        (pre.foldl GEng.step (GEng.init stream keyed m scripts))).2 = [] ∧
      Mon.lastOut (ExecGMix.runMix pick bef aft k r plan
        (pre.foldl GEng.step (GEng.init stream keyed m scripts))).1.w.trace = some .none ∧
      ∀ c ∈ (pre ++ ExecGMix.Plan.ops plan).flatMap insertedIds,
        (Exec.scriptVals (scripts c)).reverse.Sublist
          (Mon.yielded (ExecGMix.runMix pick bef aft k r plan
            (pre.foldl GEng.step (GEng.init stream keyed m scripts))).1.w.trace) ∨
        -- … or `c` was removed by the consumer: its `childDropped` is followed by `removed _ true`
        ∃ key t, [Ev.removed key true, Ev.childDropped c] ++ t <:+
          (ExecGMix.runMix pick bef aft k r plan
            (pre.foldl GEng.step (GEng.init stream keyed m scripts))).1.w.trace

/-- delivery for plans with `remove` -/
theorem C01_group_mix_delivers_remove : C01_group_mix_delivers_remove_statement := by
  intro pick bef aft r stream keyed m scripts pre plan hpre hplan hfresh hs
  obtain ⟨k, _, h1, h2, _, h4⟩ := LiveGMix.group_mix_delivers_remove stream keyed m scripts pre plan
    hpre hplan hfresh hs pick bef aft r
  exact ⟨k, h1, h2, fun c hc => (h4 c hc).2⟩

/-- … in the final state of `C01_group_mix_ends` (same bound), where moreover every inserted id has
    been released -/
theorem C01_group_mix_delivers_remove_bound (pick : Nat → Eng Grp → Nat)
    (bef aft : Nat → Eng Grp → List (Nat × Nat)) (r : Nat)
    (stream keyed : Bool) (m : Mode) (scripts : Nat → List Step) (pre : List Op)
    (plan : ExecGMix.Plan)
    (hpre : ∀ op ∈ pre, op.isInsertLike = true)
    (hplan : ∀ op ∈ ExecGMix.Plan.ops plan, op.isMembership = true)
    (hfresh : ((pre ++ ExecGMix.Plan.ops plan).flatMap insertedIds).Nodup)
    (hs : ∀ c ∈ (pre ++ ExecGMix.Plan.ops plan).flatMap insertedIds,
      (if stream then streamScript (scripts c) else Exec.futureScript (scripts c)) = true) :
    let e0 := pre.foldl GEng.step (GEng.init stream keyed m scripts)
    let planSteps := (((ExecGMix.Plan.ops plan).flatMap insertedIds).map
      (fun c => (scripts c).length)).sum
    ∃ k, k ≤ 3 * (ExecG.stepsLeft e0 + planSteps) + 1 + 2 * plan.length ∧
      (ExecGMix.runMix pick bef aft k r plan e0).2 = [] ∧
      Mon.lastOut (ExecGMix.runMix pick bef aft k r plan e0).1.w.trace = some .none ∧
      ExecGAny.members (ExecGMix.runMix pick bef aft k r plan e0).1 = [] ∧
      ∀ c ∈ (pre ++ ExecGMix.Plan.ops plan).flatMap insertedIds,
        Mon.gone (ExecGMix.runMix pick bef aft k r plan e0).1.w.trace c = true ∧
        ((Exec.scriptVals (scripts c)).reverse.Sublist
            (Mon.yielded (ExecGMix.runMix pick bef aft k r plan e0).1.w.trace) ∨
          ∃ key t, [Ev.removed key true, Ev.childDropped c] ++ t <:+
            (ExecGMix.runMix pick bef aft k r plan e0).1.w.trace) := by
  intro e0 planSteps
  obtain ⟨k, hk, h1, h2, h3, h4⟩ := LiveGMix.group_mix_delivers_remove stream keyed m scripts pre
    plan hpre hplan hfresh hs pick bef aft r
  exact ⟨k, hk, h1, h2, LiveGMix.members_nil _ h3, h4⟩

/-! ### sanity: the empty plan -/

/-- with the empty plan the executor is `ExecGAny.runForB` -/
theorem C01_runMix_nil (pick : Nat → Eng Grp → Nat) (bef aft : Nat → Eng Grp → List (Nat × Nat))
    (k r : Nat) (e : Eng Grp) :
    ExecGMix.runMix pick bef aft k r [] e = (ExecGAny.runForB pick bef aft k r e, []) :=
  LiveGMix.runMix_nil k r e

/-- `C01_group_ends_busy` is the instance `plan = []` of `C01_group_mix_ends` (same bound) -/
theorem C01_group_ends_busy_again (pick : Nat → Eng Grp → Nat)
    (bef aft : Nat → Eng Grp → List (Nat × Nat)) (r : Nat)
    (stream keyed : Bool) (m : Mode) (scripts : Nat → List Step) (pre : List Op)
    (hpre : ∀ op ∈ pre, op.isInsertLike = true)
    (hfresh : (pre.flatMap insertedIds).Nodup)
    (hs : ∀ c ∈ pre.flatMap insertedIds,
      (if stream then streamScript (scripts c) else Exec.futureScript (scripts c)) = true) :
    let e0 := pre.foldl GEng.step (GEng.init stream keyed m scripts)
    ∃ k, k ≤ 3 * ExecG.stepsLeft e0 + 1 ∧
      Mon.lastOut (ExecGAny.runForB pick bef aft k r e0).w.trace = some .none := by
  intro e0
  obtain ⟨k, hk, _, hv, _⟩ := C01_group_mix_ends pick bef aft r stream keyed m scripts pre []
    hpre (by simp [ExecGMix.Plan.ops]) (by simpa [ExecGMix.Plan.ops] using hfresh)
    (by simpa [ExecGMix.Plan.ops] using hs)
  refine ⟨k, by simpa [ExecGMix.Plan.ops] using hk, ?_⟩
  rw [C01_runMix_nil] at hv
  exact hv

/-! ### non-vacuity -/

/-- a keyed StreamGroup (`C01liveG_pre`: `reserve 1; insert 7; extend [3, 5]`, keys 0, 1, 2).
    Member 7 ends in the first poll (slot 0 is vacated), 3 and 5 go on.  New members: 9 — `Pending`
    while invoking the waker of member 3 and the waker of the FORMER occupant 7 of its own slot,
    item 4, `Pending` (invoking 7's waker again), end; 11 — `Pending`, end; 13 — item 6, end.  All
    other scripts panic: they are never looked at. -/
def C01liveGMix_sc : Nat → List Step := fun c =>
  if c = 3 then [⟨.item 1, []⟩, ⟨.pend, []⟩, ⟨.item 2, []⟩, ⟨.fin, []⟩]
  else if c = 7 then [⟨.fin, []⟩]
  else if c = 5 then [⟨.pend, [(7, 0)]⟩, ⟨.pend, [(7, 0), (5, 0)]⟩, ⟨.item 9, []⟩, ⟨.fin, []⟩]
  else if c = 9 then [⟨.pend, [(3, 0), (7, 0)]⟩, ⟨.item 4, []⟩, ⟨.pend, [(7, 0)]⟩, ⟨.fin, []⟩]
  else if c = 11 then [⟨.pend, []⟩, ⟨.fin, []⟩]
  else if c = 13 then [⟨.item 6, []⟩, ⟨.fin, []⟩]
  else [⟨.panic, []⟩]

/-- after one round: `insert 9`; at most two rounds later: `reserve 3; extend [11, 13]` -/
def C01liveGMix_plan : ExecGMix.Plan := [(1, [.insert 9]), (2, [.reserve 3, .extend [11, 13]])]

def C01liveGMix_e0 (m : Mode) : Eng Grp :=
  C01liveG_pre.foldl GEng.step (GEng.init true true m C01liveGMix_sc)

/-- the schedule "member 5 if it can be prodded" and a busy environment firing the newest wakers of
    member 3, of member 7 (after round 1 a FORMER member whose slot 0 is reused by 9) and of an id
    that was never inserted -/
def C01liveGMix_pick : Nat → Eng Grp → Nat := fun _ _ => 5
def C01liveGMix_busy : Nat → Eng Grp → List (Nat × Nat) := fun _ _ => [(3, 0), (7, 0), (100, 0)]

def C01liveGMix_out (m : Mode) (k : Nat) : Eng Grp × ExecGMix.Plan :=
  ExecGMix.runMix C01liveGMix_pick C01liveGMix_busy C01liveGMix_busy k 0 C01liveGMix_plan
    (C01liveGMix_e0 m)

example : ∀ op ∈ ExecGMix.Plan.ops C01liveGMix_plan, op.isMembership = true := by decide
example : ∀ op ∈ ExecGMix.Plan.ops C01liveGMix_plan, op.isInsertLike = true := by decide
example : ((C01liveG_pre ++ ExecGMix.Plan.ops C01liveGMix_plan).flatMap insertedIds).Nodup := by
  decide
example : ∀ c ∈ (C01liveG_pre ++ ExecGMix.Plan.ops C01liveGMix_plan).flatMap insertedIds,
    streamScript (C01liveGMix_sc c) = true := by decide

set_option maxRecDepth 100000 in
/-- after round 1 (a poll: 7 ended, 3 yielded item 1) slot 0 is vacant, 3 and 5 are members; the
    entry inserts 9 into the REUSED slot 0 (the key 7 was inserted under) and polls: afterwards 9, 3
    and 5 are members and all three have answered `Pending` — 9's first step invoked the waker of 7,
    the former occupant of its own slot (`sub 0`), which woke the task -/
example : (C01liveGMix_out .std 1).1.s.member 0 = none ∧
    ExecGAny.members (C01liveGMix_out .std 1).1 = [3, 5] ∧
    Mon.keyOf (C01liveGMix_out .std 1).1.w.trace 7 = some 0 ∧
    (C01liveGMix_out .std 2).1.s.member 0 = some 9 ∧
    ExecGAny.members (C01liveGMix_out .std 2).1 = [9, 3, 5] ∧
    (C01liveGMix_out .std 2).2.length = 1 ∧
    (C01liveGMix_out .std 2).1.w.trace.take 12
      = [.pollEnd .pending, .childEnd 5 .pend, .fired 7 0 (some (.sub 0)),
         .childBegin 5 2 (.sub 2), .childEnd 3 .pend, .childBegin 3 1 (.sub 1), .childEnd 9 .pend,
         .woke 2, .fired 7 0 (some (.sub 0)), .fired 3 0 (some (.sub 1)), .childBegin 9 0 (.sub 0),
         .pollBegin 2] := by decide

set_option maxRecDepth 100000 in
/-- std mode: the plan is performed after 5 rounds, `None` is reached in round 13 — not earlier —
    (bound: 3 * (9 + 8) + 1 + 2 * 2 = 56); the items of old and new members are all yielded; C12 and
    C01 hold on the whole trace -/
example : (C01liveGMix_out .std 13).2 = [] ∧
    Mon.lastOut (C01liveGMix_out .std 13).1.w.trace = some .none ∧
    ExecGAny.members (C01liveGMix_out .std 13).1 = [] ∧
    Mon.yielded (C01liveGMix_out .std 13).1.w.trace = [9, 2, 6, 4, 1] ∧
    Mon.holds_C12 true 14 (C01liveGMix_out .std 13).1.w.trace = true ∧
    Mon.holds_C01 14 (C01liveGMix_out .std 13).1.w.trace = true ∧
    ExecG.stepsLeft (C01liveGMix_e0 .std) = 9 := by decide
set_option maxRecDepth 100000 in
example : ∀ k, k ≤ 12 → Exec.finalOut (Mon.lastOut (C01liveGMix_out .std k).1.w.trace) = false := by
  decide
set_option maxRecDepth 100000 in
/-- direct mode: `None` in round 8 -/
example : (C01liveGMix_out .direct 8).2 = [] ∧
    Mon.lastOut (C01liveGMix_out .direct 8).1.w.trace = some .none ∧
    (C01liveGMix_out .direct 2).1.s.member 0 = some 9 ∧
    ExecGAny.members (C01liveGMix_out .direct 2).1 = [9, 3, 5] ∧
    Mon.yielded (C01liveGMix_out .direct 8).1.w.trace = [9, 6, 2, 4, 1] := by decide
set_option maxRecDepth 100000 in
example : ∀ k, k ≤ 7 →
    Exec.finalOut (Mon.lastOut (C01liveGMix_out .direct k).1.w.trace) = false := by decide

/-- a FutureGroup (not keyed) built by three `insert`s (handles 0, 1, 2 = keys 0, 1, 2), with a plan
    that also REMOVES: after round 1 (7 has resolved) `insert 9` (reused slot 0); one round later
    `remove` through handle 2 — member 5, PENDING, two scripted steps left —, `insert 11` (lands in
    the slot 2 just vacated; its first step invokes the newest waker of the removed member 5, which
    is `sub 2`, the waker of its own slot: the task is woken) and `remove` through handle 0 (a STALE
    key: 7 and then 9 have come and gone under key 0 — `removed 0 false`) -/
def C01liveGMix_fut : Nat → List Step := fun c =>
  if c = 3 then [⟨.pend, []⟩, ⟨.ready true 30, []⟩]
  else if c = 7 then [⟨.ready true 70, []⟩]
  else if c = 5 then [⟨.pend, [(7, 0)]⟩, ⟨.pend, [(7, 0), (3, 1)]⟩, ⟨.ready false 50, []⟩]
  else if c = 9 then [⟨.pend, [(3, 0), (7, 0)]⟩, ⟨.ready true 90, []⟩]
  else if c = 11 then [⟨.pend, [(5, 0)]⟩, ⟨.ready true 110, []⟩]
  else [⟨.fin, []⟩]

def C01liveGMix_fpre : List Op := [.insert 7, .insert 3, .insert 5]
def C01liveGMix_fplan : ExecGMix.Plan :=
  [(1, [.insert 9]), (1, [.remove 2, .insert 11, .remove 0])]

def C01liveGMix_fout (m : Mode) (k : Nat) : Eng Grp × ExecGMix.Plan :=
  ExecGMix.runMix C01liveGMix_pick C01liveGMix_busy C01liveGMix_busy k 0 C01liveGMix_fplan
    (C01liveGMix_fpre.foldl GEng.step (GEng.init false false m C01liveGMix_fut))

example : ∀ op ∈ C01liveGMix_fpre, op.isInsertLike = true := by decide
example : ∀ op ∈ ExecGMix.Plan.ops C01liveGMix_fplan, op.isMembership = true := by decide
example : ((C01liveGMix_fpre ++ ExecGMix.Plan.ops C01liveGMix_fplan).flatMap insertedIds).Nodup := by
  decide
example : ∀ c ∈ (C01liveGMix_fpre ++ ExecGMix.Plan.ops C01liveGMix_fplan).flatMap insertedIds,
    Exec.futureScript (C01liveGMix_fut c) = true := by decide

set_option maxRecDepth 100000 in
/-- the second entry (round 4): 5 is removed while pending, 11 takes its slot, the stale key 0 is
    refused; the poll polls 11, whose step fires the waker of the removed 5 = the waker of slot 2 -/
example : ExecGAny.members (C01liveGMix_fout .std 3).1 = [3, 5] ∧
    (C01liveGMix_fout .std 3).1.s.member 2 = some 5 ∧
    (C01liveGMix_fout .std 4).1.s.member 2 = some 11 ∧
    ExecGAny.members (C01liveGMix_fout .std 4).1 = [3, 11] ∧
    (C01liveGMix_fout .std 4).1.w.trace.take 10
      = [.pollEnd .pending, .childEnd 11 .pend, .woke 4, .fired 5 0 (some (.sub 2)),
         .childBegin 11 2 (.sub 2), .pollBegin 4, .removed 0 false, .inserted 11 2,
         .removed 2 true, .childDropped 5] := by decide
set_option maxRecDepth 100000 in
/-- std mode: `None` in round 9 — not earlier — (bound: 3 * (6 + 4) + 1 + 2 * 2 = 35); the outputs of
    all members except the removed 5 were yielded; C11 and C01 hold on the whole trace.  Direct mode:
    at the second entry member 9 has not resolved yet, so the STALE handle 0 (key 0, handed out for
    7) removes the new occupant 9 of slot 0 as well (`removed 0 true`): `None` in round 8, the
    outputs of 7, 3 and 11 were yielded -/
example : (C01liveGMix_fout .std 9).2 = [] ∧
    Mon.lastOut (C01liveGMix_fout .std 9).1.w.trace = some .none ∧
    Mon.yielded (C01liveGMix_fout .std 9).1.w.trace = [30, 110, 90, 70] ∧
    Mon.holds_C11 false 12 (C01liveGMix_fout .std 9).1.w.trace = true ∧
    Mon.holds_C01 12 (C01liveGMix_fout .std 9).1.w.trace = true ∧
    Mon.lastOut (C01liveGMix_fout .direct 8).1.w.trace = some .none ∧
    Mon.yielded (C01liveGMix_fout .direct 8).1.w.trace = [110, 30, 70] ∧
    (C01liveGMix_fout .direct 8).1.w.trace.contains (.removed 0 true) = true ∧
    Mon.holds_C11 false 12 (C01liveGMix_fout .direct 8).1.w.trace = true ∧
    ExecG.stepsLeft (C01liveGMix_fpre.foldl GEng.step
      (GEng.init false false .std C01liveGMix_fut)) = 6 := by decide
set_option maxRecDepth 100000 in
example : (∀ k, k ≤ 8 →
      Exec.finalOut (Mon.lastOut (C01liveGMix_fout .std k).1.w.trace) = false) ∧
    (∀ k, k ≤ 7 →
      Exec.finalOut (Mon.lastOut (C01liveGMix_fout .direct k).1.w.trace) = false) := by decide

set_option maxRecDepth 100000 in
/-- `C01_group_mix_delivers_remove` on this run.  Std mode: the removed member 5 has NOT delivered
    (its output 50 is not among the yielded values) and is excused by the second disjunct — witness:
    key 2 and the trace as it was before the entry (after round 3); the members that were not
    removed have delivered, and no `removed _ true` sits on top of their `childDropped` (for 9: the
    only `removed _ true` of the trace is the one of 5).  Direct mode: the stale handle 0 removes
    member 9 as well — `removed 0 true` on top of `childDropped 9` (below them the events of
    `remove 2; insert 11` of the same entry); 90 is not delivered. -/
example : ¬ (Exec.scriptVals (C01liveGMix_fut 5)).reverse.Sublist
      (Mon.yielded (C01liveGMix_fout .std 9).1.w.trace) ∧
    [Ev.removed 2 true, Ev.childDropped 5] ++ (C01liveGMix_fout .std 3).1.w.trace <:+
      (C01liveGMix_fout .std 9).1.w.trace ∧
    (∀ c ∈ [7, 3, 9, 11], (Exec.scriptVals (C01liveGMix_fut c)).reverse.Sublist
      (Mon.yielded (C01liveGMix_fout .std 9).1.w.trace)) ∧
    (C01liveGMix_fout .std 9).1.w.trace.count (.removed 2 true) = 1 ∧
    (C01liveGMix_fout .std 9).1.w.trace.contains (.removed 0 true) = false ∧
    (C01liveGMix_fout .std 9).1.w.trace.contains (.removed 1 true) = false ∧
    ¬ (Exec.scriptVals (C01liveGMix_fut 9)).reverse.Sublist
      (Mon.yielded (C01liveGMix_fout .direct 8).1.w.trace) ∧
    [Ev.removed 0 true, Ev.childDropped 9] ++ ([.inserted 11 2, .removed 2 true, .childDropped 5] ++
        (C01liveGMix_fout .direct 3).1.w.trace) <:+
      (C01liveGMix_fout .direct 8).1.w.trace := by decide

/-- the hypothesis on the ids the plan inserts is needed: a member inserted in the middle of the
    drain that stays `Pending` for ever leaves the executor stuck (plan performed, `Pending`, not
    woken, nobody to prod) -/
def C01liveGMix_stuck : Nat → List Step := fun c =>
  if c = 9 then [⟨.pend, []⟩] else C01liveGMix_sc c

def C01liveGMix_sout (k : Nat) : Eng Grp × ExecGMix.Plan :=
  ExecGMix.runMix C01liveGMix_pick C01liveGMix_busy C01liveGMix_busy k 0 C01liveGMix_plan
    (C01liveG_pre.foldl GEng.step (GEng.init true true .std C01liveGMix_stuck))

example : streamScript (C01liveGMix_stuck 9) = false := by decide
set_option maxRecDepth 100000 in
example : (C01liveGMix_sout 60).2 = [] ∧
    Mon.lastOut (C01liveGMix_sout 60).1.w.trace = some .pending ∧
    ExecGAny.members (C01liveGMix_sout 60).1 = [9] ∧
    (ExecGAny.roundB C01liveGMix_pick C01liveGMix_busy C01liveGMix_busy 60
      (C01liveGMix_sout 60).1).isNone = true := by decide

end Fc

#print axioms Fc.C01_group_mix_ends
#print axioms Fc.C01_group_mix_delivers
#print axioms Fc.C01_group_mix_delivers_remove
#print axioms Fc.C01_group_mix_delivers_remove_bound
#print axioms Fc.C01_runMix_nil
#print axioms Fc.C01_group_ends_busy_again
