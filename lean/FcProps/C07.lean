/-
  C07 — race_ok returns the first success at once, and otherwise every error at its own position.

  Monitor `Mon.holds_C07 n` (Fc/MonFun.lean).  Observations of a trace prefix `t`:
  `oks t` = the values of all `childEnd _ (Ready Ok v)` so far, `errVal t c` = the error child
  `c`'s most recent poll failed with (from its `childEnd c (Ready Err v)`), `sincePoll t` = the
  events since the latest `pollBegin`, `errs` = the errors among them.

  At every `pollEnd o` (`t` = the trace before it):
    * `o = Ready Ok vals`  ⇒ `vals = [v]` where `v` is the one and only success any child ever
      reported, and it was reported since this poll began (so the race answers in the very poll
      in which a child first succeeds);
    * `o = Ready Err vals` ⇒ no child ever succeeded, every child `c < n` has failed,
      `vals[c] = errVal c` for all `c` (positional, whatever the order of failing), and — unless
      `n = 0` — some child failed since this poll began (so the aggregate error is returned in
      the poll in which the last child fails; for `n = 0` it is the empty aggregate);
    * `o = Pending`        ⇒ no child has succeeded and some child `c < n` has not failed;
    * `o = panicked` only by a child's panic (C01); `misuse` (polling a finished/dropped race)
      only after the final result, an unwind or the drop.
  At every `childBegin c` (`t` = the trace before it): no child has succeeded yet (nothing is
  polled after the first success) and child `c` has not failed (a failed child is never polled
  again).
-/
import FcLemmas.C07
import Fc.Holds

namespace Fc
open Mon

/-- C07 for the three race_ok models (array, Vec with early drop of finished children, tuple
    with the rotating Indexer; arity 0 included), every number of children, all child scripts,
    all histories (polls with any waker, wake-ups at any time, drop at any point, an injected
    child panic), both waker strategies. -/
theorem C07_race_ok (c : Case) (hf : c.fam = .raceOkArr ∨ c.fam = .raceOkVec ∨ c.fam = .raceOkTup) :
    holds_C07 c.n c.trace = true := by
  unfold Case.trace
  rcases hf with hf | hf | hf
  · simp only [hf, Fam.isGroup, Bool.false_eq_true, if_false, Case.finalFix, Fam.policy]
    exact (Sim.runFix (C07.sim false false c.n (Fam.raceOkArr.modeOf c.mode)) c.ops _ rfl
      (Sim.scriptsOk_any _)
      (by simpa [FEng.init, Fam.initCnt, World.init] using C07.inv_init c.n)).1.mon
  · simp only [hf, Fam.isGroup, Bool.false_eq_true, if_false, Case.finalFix, Fam.policy]
    exact (Sim.runFix (C07.sim false true c.n (Fam.raceOkVec.modeOf c.mode)) c.ops _ rfl
      (Sim.scriptsOk_any _)
      (by simpa [FEng.init, Fam.initCnt, World.init] using C07.inv_init c.n)).1.mon
  · simp only [hf, Fam.isGroup, Bool.false_eq_true, if_false, Case.finalFix, Fam.policy]
    exact (Sim.runFix (C07.sim true false c.n (Fam.raceOkTup.modeOf c.mode)) c.ops _ rfl
      (Sim.scriptsOk_any _)
      (by simpa [FEng.init, Fam.initCnt, World.init] using C07.inv_init c.n)).1.mon

/-- non-vacuity: three children failing out of order (2, then 1, then 0) over three polls of the
    rotating tuple model; the aggregate error is positional; a fourth poll is misuse -/
def C07_example : Case :=
  { fam := .raceOkTup, mode := .std, keyed := false, n := 3,
    scripts := fun c => if c = 0 then [⟨.pend, []⟩, ⟨.pend, []⟩, ⟨.ready false 20, []⟩]
                        else if c = 1 then [⟨.pend, []⟩, ⟨.ready false 21, []⟩]
                        else if c = 2 then [⟨.ready false 22, []⟩] else [],
    ops := [.poll 1, .poll 2, .fire 0 0, .poll 3, .poll 4, .drop] }

example : C07_example.run.contains (.pollEnd (.ready false [20, 21, 22])) = true := by decide
example : (C07_example.run.filter (fun e => e == .pollEnd .pending)).length = 2 := by decide
example : C07_example.run.contains (.pollEnd .misuse) = true := by decide
/-- the children failed in the order 2, 1, 0 -/
example : (childResults C07_example.trace).reverse.filter (fun p => p.2 != .pend)
    = [(2, .ready false 22), (1, .ready false 21), (0, .ready false 20)] := by decide
/-- each child was polled 1, 2, 3 times: a failed child is not polled again -/
example : (List.range 3).map (fun c => ((childResults C07_example.trace).filter (·.1 == c)).length)
    = [3, 2, 1] := by decide

/-- a child succeeds after a sibling failed (Vec model): `Ok` in that poll, nothing polled after -/
def C07_example_ok : Case :=
  { fam := .raceOkVec, mode := .std, keyed := false, n := 3,
    scripts := fun c => if c = 0 then [⟨.ready false 5, []⟩]
                        else if c = 1 then [⟨.pend, []⟩, ⟨.ready true 7, []⟩]
                        else if c = 2 then [⟨.pend, []⟩, ⟨.ready true 8, []⟩] else [],
    ops := [.poll 1, .poll 2, .drop] }

example : C07_example_ok.run.contains (.pollEnd (.ready true [7])) = true := by decide
example : (childResults C07_example_ok.trace).reverse
    = [(0, .ready false 5), (1, .pend), (2, .pend), (1, .ready true 7)] := by decide

/-- racing zero futures yields the empty aggregate error on the first poll -/
def C07_example_zero : Case :=
  { fam := .raceOkArr, mode := .std, keyed := false, n := 0, scripts := fun _ => [],
    ops := [.poll 1] }

example : C07_example_zero.run = [.pollBegin 1, .pollEnd (.ready false [])] := by decide

/-! the monitor is not trivially true (traces NEWEST FIRST) -/

/-- accepted: both children fail in one poll, errors at their positions -/
example : holds_C07 2 [.pollEnd (.ready false [5, 6]), .childEnd 1 (.ready false 6),
    .childBegin 1 1 (.par 1), .childEnd 0 (.ready false 5), .childBegin 0 0 (.par 1),
    .pollBegin 1] = true := by decide
/-- rejected: the errors swapped -/
example : holds_C07 2 [.pollEnd (.ready false [6, 5]), .childEnd 1 (.ready false 6),
    .childBegin 1 1 (.par 1), .childEnd 0 (.ready false 5), .childBegin 0 0 (.par 1),
    .pollBegin 1] = false := by decide
/-- rejected: `Err` while child 1 has not failed -/
example : holds_C07 2 [.pollEnd (.ready false [5, 0]), .childEnd 1 .pend,
    .childBegin 1 1 (.par 1), .childEnd 0 (.ready false 5), .childBegin 0 0 (.par 1),
    .pollBegin 1] = false := by decide
/-- rejected: a failed child polled again -/
example : holds_C07 2 [.childBegin 0 0 (.par 2), .pollBegin 2, .pollEnd .pending,
    .childEnd 1 .pend, .childBegin 1 1 (.par 1), .childEnd 0 (.ready false 5),
    .childBegin 0 0 (.par 1), .pollBegin 1] = false := by decide
/-- rejected: `Pending` although every child has failed -/
example : holds_C07 1 [.pollEnd .pending, .childEnd 0 (.ready false 5), .childBegin 0 0 (.par 1),
    .pollBegin 1] = false := by decide
/-- rejected: `Err` not in the poll in which the last child failed -/
example : holds_C07 1 [.pollEnd (.ready false [5]), .pollBegin 2, .fired 0 0 none,
    .childEnd 0 (.ready false 5), .childBegin 0 0 (.par 1), .pollBegin 1] = false := by decide
/-- rejected: a sibling polled after the first success; `Ok` with the wrong value -/
example : holds_C07 2 [.childBegin 1 1 (.par 1), .childEnd 0 (.ready true 7),
    .childBegin 0 0 (.par 1), .pollBegin 1] = false := by decide
example : holds_C07 2 [.pollEnd (.ready true [8]), .childEnd 0 (.ready true 7),
    .childBegin 0 0 (.par 1), .pollBegin 1] = false := by decide

end Fc

#print axioms Fc.C07_race_ok
