/-
  Kernel tie, `[S; N]::zip()` (src/stream/zip/array.rs: `poll_next` and the `PinnedDrop` destructor), TRANSLATED FROM THE
  CURRENT SOURCE (tools/rs2lean.py → FcGen/KSrcArr4.lean), refine `Eng.poll zip` / `Eng.drop zip` of the model.  The
  array counterpart of `TieZipV` in FcProps/KTieZipChain.lean (no `len` field: the loop runs over `0..N`).
  Proofs: FcProps/KTieZipA.lean.
-/
import FcGen.KSrcArr4
import FcProps.KTieCore
import FcProps.KTieStd
import FcProps.KTiePS

namespace Fc
open Rs Src

namespace TieZipA
open ZipA

def absZ (g : Zip) (b : Eng Fix) : Eng Fix :=
  { w := TieArr.abs g.roleWakers.readiness b.w,
    s := { b.s with n := g.roleKids.len, st := fun i => TiePS.abs (g.roleStates.get i), out := g.roleItems.get,
                    dead := g.roleDone } }

/-- a slot is `Ready` exactly when it buffers an item of the current row; at least one input -/
structure WfZ (N : Nat) (g : Zip) : Prop where
  kn : g.roleKids.len = N
  rd : TieArr.Wf N g.roleWakers.readiness
  sl : g.roleStates.len = N
  ic : g.roleItems.cap = N
  pos : 0 < N
  rs : ∀ i, i < N → ((g.roleStates.get i = PS.PollState.pending ∧ g.roleItems.get i = none) ∨
        (g.roleStates.get i = PS.PollState.ready ∧ ∃ v, g.roleItems.get i = some v))

def poll_tie_statement : Prop :=
  ∀ (N : Nat) (g : Zip) (b : Eng Fix) (w : Nat),
    WfZ N g → StreamStepsF b.w → (∀ c i, Wk.sub i ∈ b.w.handed c → i < N) → g.roleDone = false →
    ∃ g' env' ret,
      Zip.poll_next N g w ((absZ g b).w.emit (.pollBegin w)) = some (g', env', ret) ∧
      (ret ≠ .ready none → WfZ N g') ∧
      jcore (absZ g' b) = jcore (Eng.poll zip (absZ g b) w) ∧
      env'.scripts = (Eng.poll zip (absZ g b) w).w.scripts ∧
      env'.handed = (Eng.poll zip (absZ g b) w).w.handed ∧
      (Eng.poll zip (absZ g b) w).w.trace = .pollEnd (outcomeOfZip ret) :: env'.trace

/-- `PinnedDrop::drop` releases the buffered items of the unfinished row (they are never yielded); the inputs themselves
    are plain fields, dropped by the struct's drop glue right after, in order -/
def drop_tie_statement : Prop :=
  ∀ (N : Nat) (g : Zip) (b : Eng Fix),
    WfZ N g →
    ∃ g' env',
      Zip.drop N g ((absZ g b).w.emit .dropBegin) = some (g', env', ()) ∧
      (Eng.drop zip (absZ g b)).w.trace =
        .dropEnd :: (((List.range N).map (fun i => Ev.childDropped i)).reverse ++ env'.trace)

end TieZipA
end Fc
