/-
  FcLemmas/C03.lean — poll discipline (C03) for the combinators over a fixed set of children.

  Part 1: how the observations of the C03 monitor (`finished`, `gone`, `inPoll`, `alive`,
          `finalSeen`, `holds_C03` itself) see the trace segments the engine appends.
  Part 2: `Disc P m K E X` — the state-only facts about a policy that C03 needs
          (`E s c` = "child `c` may still be polled", `X s l` = shape of the slots still to scan),
          and the generic theorem `Disc … → Sim …` for the boundary invariant `I` / loop
          invariant `J`.
  Part 3: one `Disc` instance per policy.
-/
import FcLemmas.Seg
import FcLemmas.Lawful2
set_option linter.unusedSimpArgs false
set_option linter.unusedVariables false

namespace Fc
namespace C03
open Mon Fix

/-! ### Part 1 — trace observations -/

/-- results after which a child must not be polled again -/
def finishing : Res → Bool
  | .ready _ _ | .fin => true
  | _ => false

/-- outcomes after which the combinator must not poll its children again -/
def final : Outcome → Bool
  | .ready _ _ | .none => true
  | _ => false

/-- events that neither open/close a poll nor start the drop -/
def inert : Ev → Bool
  | .pollBegin _ | .pollEnd _ | .dropBegin => false
  | _ => true

def notCB : Ev → Bool
  | .childBegin _ _ _ => false
  | _ => true

theorem fire_inert (e : Ev) (h : isFireEv e = true) : inert e = true := by
  cases e <;> simp_all [isFireEv, inert]
theorem own_inert (e : Ev) (h : isOwnEv e = true) : inert e = true := by
  cases e <;> simp_all [isOwnEv, inert]
theorem fire_notCB (e : Ev) (h : isFireEv e = true) : notCB e = true := by
  cases e <;> simp_all [isFireEv, notCB]
theorem own_notCB (e : Ev) (h : isOwnEv e = true) : notCB e = true := by
  cases e <;> simp_all [isOwnEv, notCB]

theorem holds_notCB (g : Bool) (e : Ev) (t : List Ev) (h : notCB e = true) :
    holds_C03 g (e :: t) = holds_C03 g t := by
  cases e <;> simp_all [notCB, holds_C03]

theorem holds_seg (g : Bool) (l t : List Ev) (hl : ∀ e ∈ l, notCB e = true) :
    holds_C03 g (l ++ t) = holds_C03 g t :=
  skip_seg (holds_C03 g) notCB (fun e t h => holds_notCB g e t h) l hl t

theorem inPoll_inert (e : Ev) (t : List Ev) (h : inert e = true) : inPoll (e :: t) = inPoll t := by
  cases e <;> simp_all [inert, inPoll]
theorem alive_inert (e : Ev) (t : List Ev) (h : inert e = true) : alive (e :: t) = alive t := by
  cases e <;> simp_all [inert, alive]
theorem finalSeen_inert (g : Bool) (e : Ev) (t : List Ev) (h : inert e = true) :
    finalSeen g (e :: t) = finalSeen g t := by
  cases e <;> simp_all [inert, finalSeen]

theorem inPoll_seg (l t : List Ev) (hl : ∀ e ∈ l, inert e = true) : inPoll (l ++ t) = inPoll t :=
  skip_seg inPoll inert inPoll_inert l hl t
theorem alive_seg (l t : List Ev) (hl : ∀ e ∈ l, inert e = true) : alive (l ++ t) = alive t :=
  skip_seg alive inert alive_inert l hl t
theorem finalSeen_seg (g : Bool) (l t : List Ev) (hl : ∀ e ∈ l, inert e = true) :
    finalSeen g (l ++ t) = finalSeen g t :=
  skip_seg (finalSeen g) inert (finalSeen_inert g) l hl t

theorem finalSeen_pollEnd (o : Outcome) (t : List Ev) :
    finalSeen false (.pollEnd o :: t) = (final o || finalSeen false t) := by
  cases o <;> simp [finalSeen, final]

/-- `finished` only looks at `childEnd` events -/
theorem finished_skip (e : Ev) (t : List Ev) (c : Nat) (h : ∀ c' r, e ≠ .childEnd c' r) :
    finished (e :: t) c = finished t c := by
  have : lastRes (e :: t) c = lastRes t c := by
    cases e <;> simp_all [lastRes]
  simp [finished, this]

theorem finished_own_seg (l t : List Ev) (c : Nat) (hl : ∀ e ∈ l, isOwnEv e = true) :
    finished (l ++ t) c = finished t c := by
  have : lastRes (l ++ t) c = lastRes t c :=
    skip_seg (fun t => lastRes t c) isOwnEv (fun e t h => lastRes_own c e t h) l hl t
  simp [finished, this]

/-- `gone` across any segment: was the child dropped in it? -/
theorem gone_seg (l t : List Ev) (c : Nat) :
    gone (l ++ t) c = (decide (Ev.childDropped c ∈ l) || gone t c) := by
  induction l with
  | nil => simp
  | cons e l ih =>
    rw [List.cons_append]
    cases e <;> simp_all [gone]
    rename_i c'
    by_cases h : c' = c
    · simp [h]
    · have : ¬ c = c' := fun h' => h h'.symm
      simp [h, this]

theorem gone_skip (e : Ev) (t : List Ev) (c : Nat) (h : e ≠ .childDropped c) :
    gone (e :: t) c = gone t c := by
  cases e <;> simp_all [gone]

/-- the events of one child poll, as a segment in front of `t` -/
def segOf (c slot : Nat) (wk : Wk) (l : List Ev) (r : Res) (evs : List Ev) : List Ev :=
  evs.reverse ++ (.childEnd c r :: (l ++ [.childBegin c slot wk]))

theorem pollSeg_eq (c slot : Nat) (wk : Wk) (l : List Ev) (r : Res) (evs t : List Ev) :
    pollSeg c slot wk l r evs t = segOf c slot wk l r evs ++ t := by
  simp [pollSeg, segOf]

theorem segOf_inert (c slot : Nat) (wk : Wk) (l : List Ev) (r : Res) (evs : List Ev)
    (hl : ∀ e ∈ l, isFireEv e = true) (he : ∀ e ∈ evs, isOwnEv e = true) :
    ∀ e ∈ segOf c slot wk l r evs, inert e = true := by
  intro e h
  simp only [segOf, List.mem_append, List.mem_reverse, List.mem_cons, List.mem_singleton,
    List.not_mem_nil, or_false] at h
  rcases h with h | rfl | h | rfl
  · exact own_inert e (he e h)
  · rfl
  · exact fire_inert e (hl e h)
  · rfl

theorem inPoll_pollSeg (c slot : Nat) (wk : Wk) (l : List Ev) (r : Res) (evs t : List Ev)
    (hl : ∀ e ∈ l, isFireEv e = true) (he : ∀ e ∈ evs, isOwnEv e = true) :
    inPoll (pollSeg c slot wk l r evs t) = inPoll t := by
  rw [pollSeg_eq]; exact inPoll_seg _ _ (segOf_inert c slot wk l r evs hl he)

theorem alive_pollSeg (c slot : Nat) (wk : Wk) (l : List Ev) (r : Res) (evs t : List Ev)
    (hl : ∀ e ∈ l, isFireEv e = true) (he : ∀ e ∈ evs, isOwnEv e = true) :
    alive (pollSeg c slot wk l r evs t) = alive t := by
  rw [pollSeg_eq]; exact alive_seg _ _ (segOf_inert c slot wk l r evs hl he)

theorem finalSeen_pollSeg (g : Bool) (c slot : Nat) (wk : Wk) (l : List Ev) (r : Res) (evs t : List Ev)
    (hl : ∀ e ∈ l, isFireEv e = true) (he : ∀ e ∈ evs, isOwnEv e = true) :
    finalSeen g (pollSeg c slot wk l r evs t) = finalSeen g t := by
  rw [pollSeg_eq]; exact finalSeen_seg g _ _ (segOf_inert c slot wk l r evs hl he)

theorem finished_pollSeg (c slot : Nat) (wk : Wk) (l : List Ev) (r : Res) (evs t : List Ev) (j : Nat)
    (hl : ∀ e ∈ l, isFireEv e = true) (he : ∀ e ∈ evs, isOwnEv e = true) :
    finished (pollSeg c slot wk l r evs t) j = if c = j then finishing r else finished t j := by
  unfold finished
  rw [lastRes_pollSeg c slot wk l r evs t j hl he]
  by_cases hcj : c = j
  · simp only [hcj, if_true]; cases r <;> rfl
  · simp only [hcj, if_false]

theorem gone_pollSeg (c slot : Nat) (wk : Wk) (l : List Ev) (r : Res) (evs t : List Ev) (j : Nat)
    (hl : ∀ e ∈ l, isFireEv e = true) :
    gone (pollSeg c slot wk l r evs t) j = (decide (Ev.childDropped j ∈ evs) || gone t j) := by
  unfold pollSeg
  rw [gone_seg, gone_skip _ _ _ (by simp), gone_fires _ _ _ hl, gone_skip _ _ _ (by simp)]
  simp

/-- the monitor across one child poll: the check sits at the `childBegin` -/
theorem holds_pollSeg (c slot : Nat) (wk : Wk) (l : List Ev) (r : Res) (evs t : List Ev)
    (hl : ∀ e ∈ l, isFireEv e = true) (he : ∀ e ∈ evs, isOwnEv e = true) :
    holds_C03 false (pollSeg c slot wk l r evs t) =
      (holds_C03 false t && !finished t c && inPoll t && !finalSeen false t && !gone t c && alive t) := by
  unfold pollSeg
  rw [holds_seg false evs.reverse _ (fun e h => own_notCB e (he e (List.mem_reverse.mp h))),
    holds_notCB false _ _ rfl, holds_seg false l _ (fun e h => fire_notCB e (hl e h))]
  simp [holds_C03]

/-! ### Part 2 — the state-only obligations and the generic simulation -/

/-- boundary invariant: the monitor accepted the trace so far, no poll is open, and as long as
    the next poll will scan (`pre s = none`) the combinator is alive, has not produced its final
    result, and every child it may still poll (`E s c`) is neither finished nor released -/
def I (P : Policy Fix) (E : Fix → Nat → Prop) (s : Fix) (t : List Ev) : Prop :=
  holds_C03 false t = true ∧ inPoll t = false ∧
  (P.pre s = none → alive t = true ∧ finalSeen false t = false ∧
    ∀ c, E s c → finished t c = false ∧ gone t c = false)

/-- loop invariant: the same inside an open poll, plus the family's fact `X` about the slots
    still to be scanned -/
def J (P : Policy Fix) (E : Fix → Nat → Prop) (X : Fix → List Nat → Prop)
    (s : Fix) (t : List Ev) (l : List Nat) : Prop :=
  holds_C03 false t = true ∧ inPoll t = true ∧ P.pre s = none ∧ alive t = true ∧
  finalSeen false t = false ∧
  (∀ c, E s c → finished t c = false ∧ gone t c = false) ∧ X s l

structure Disc (P : Policy Fix) (m : Mode) (K : Nat → Res → Prop) (E : Fix → Nat → Prop)
    (X : Fix → List Nat → Prop) : Prop where
  law : Lawful P
  /-- the slot the gate lets through may be polled -/
  head : ∀ s i rest, P.pre s = none → X s (i :: rest) → P.eligible s i = true → E s i
  skip : ∀ s i rest, (m = .direct → P.eligible s i = false) → X s (i :: rest) → X s rest
  start : ∀ s, P.pre s = none →
    X (P.start s) (P.order s) ∧ ∀ c, E (P.start s) c → E s c
  /-- a child that may be polled after the handler ran could be polled before, is not the child
      that just finished, and was not released by the handler -/
  hKeep : ∀ s i rest r, P.pre s = none → X s (i :: rest) → P.eligible s i = true → r ≠ .panic →
    K i r → P.pre (P.handle s i r).s = none → ∀ c, E (P.handle s i r).s c →
      E s c ∧ (c = i → finishing r = false) ∧ Ev.childDropped c ∉ (P.handle s i r).evs
  hOn : ∀ s i rest r, P.pre s = none → X s (i :: rest) → P.eligible s i = true → r ≠ .panic →
    K i r → (P.handle s i r).exit = none →
      P.pre (P.handle s i r).s = none ∧ X (P.handle s i r).s rest
  /-- returning the final result finishes the combinator -/
  hExit : ∀ s i rest r o, P.pre s = none → X s (i :: rest) → P.eligible s i = true → r ≠ .panic →
    K i r → (P.handle s i r).exit = some o → final o = true → P.pre (P.handle s i r).s ≠ none
  fKeep : ∀ s, P.pre s = none → X s [] → P.pre (P.finish s).s = none →
    ∀ c, E (P.finish s).s c → E s c ∧ Ev.childDropped c ∉ (P.finish s).evs
  fExit : ∀ s, P.pre s = none → X s [] → final ((P.finish s).exit.getD .pending) = true →
    P.pre (P.finish s).s ≠ none

theorem inv_init (P : Policy Fix) (E : Fix → Nat → Prop) (s : Fix) : I P E s [] :=
  ⟨rfl, rfl, fun _ => ⟨rfl, rfl, fun _ _ => ⟨rfl, rfl⟩⟩⟩

theorem disc_sim {P : Policy Fix} {m : Mode} {K : Nat → Res → Prop} {E : Fix → Nat → Prop}
    {X : Fix → List Nat → Prop} (D : Disc P m K E X) : Sim P m K (I P E) (J P E X) where
  fireEv := by
    intro s t e he ⟨h1, h2, h3⟩
    refine ⟨by rw [holds_notCB _ _ _ (fire_notCB e he)]; exact h1,
      by rw [inPoll_fireEv e t he]; exact h2, fun hp => ?_⟩
    obtain ⟨a, b, c⟩ := h3 hp
    refine ⟨by rw [alive_fireEv e t he]; exact a,
      by rw [finalSeen_inert _ e t (fire_inert e he)]; exact b, fun ch hc => ?_⟩
    have hf : finished (e :: t) ch = finished t ch :=
      finished_skip e t ch (by intro c' r h; subst h; simp [isFireEv] at he)
    rw [hf, gone_fireEv ch e t he]
    exact c ch hc
  pre := by
    intro s t w o hpre ⟨h1, h2, _⟩
    refine ⟨by simpa [holds_C03] using h1, by simp [inPoll], fun hp => ?_⟩
    rw [hpre] at hp; cases hp
  start := by
    intro s t w hpre ⟨h1, h2, h3⟩
    obtain ⟨a, b, c⟩ := h3 hpre
    obtain ⟨sx, se⟩ := D.start s hpre
    refine ⟨by simpa [holds_C03] using h1, by simp [inPoll], D.law.start_live s hpre,
      by simpa [alive] using a, by simpa [finalSeen] using b, fun ch hc => ?_, sx⟩
    have := c ch (se ch hc)
    rw [finished_skip _ _ _ (by simp), gone_skip _ _ _ (by simp)]
    exact this
  earlyPend := by
    intro s t l _ _ ⟨h1, h2, hp, a, b, c, _⟩
    refine ⟨by simpa [holds_C03] using h1, by simp [inPoll], fun _ => ⟨by simpa [alive] using a,
      by simpa [finalSeen] using b, fun ch hc => ?_⟩⟩
    rw [finished_skip _ _ _ (by simp), gone_skip _ _ _ (by simp)]
    exact c ch hc
  skip := by
    intro s t i rest hm ⟨h1, h2, hp, a, b, c, x⟩
    exact ⟨h1, h2, hp, a, b, c, D.skip s i rest hm x⟩
  goOn := by
    intro s t i rest wk l r ⟨h1, h2, hp, a, b, c, x⟩ hel hr hK hl hex
    rw [D.law.child_id] at hK ⊢
    have he := D.law.evs_handle s i r
    have hEi := D.head s i rest hp x hel
    obtain ⟨hp', x'⟩ := D.hOn s i rest r hp x hel hr hK hex
    refine ⟨?_, by rw [inPoll_pollSeg _ _ _ _ _ _ _ hl he]; exact h2, hp',
      by rw [alive_pollSeg _ _ _ _ _ _ _ hl he]; exact a,
      by rw [finalSeen_pollSeg _ _ _ _ _ _ _ _ hl he]; exact b, fun ch hc => ?_, x'⟩
    · rw [holds_pollSeg _ _ _ _ _ _ _ hl he]
      simp [h1, h2, a, b, (c i hEi).1, (c i hEi).2]
    · obtain ⟨k1, k2, k3⟩ := D.hKeep s i rest r hp x hel hr hK hp' ch hc
      rw [finished_pollSeg _ _ _ _ _ _ _ _ hl he, gone_pollSeg _ _ _ _ _ _ _ _ hl]
      by_cases hic : i = ch
      · subst hic
        simp [k2 rfl, k3, (c i k1).2]
      · simp [hic, k3, (c ch k1).1, (c ch k1).2]
  goExit := by
    intro s t i rest wk l r o ⟨h1, h2, hp, a, b, c, x⟩ hel hr hK hl hex
    rw [D.law.child_id] at hK ⊢
    have he := D.law.evs_handle s i r
    have hEi := D.head s i rest hp x hel
    refine ⟨?_, by simp [inPoll], fun hp' => ⟨?_, ?_, fun ch hc => ?_⟩⟩
    · rw [holds_notCB _ _ _ rfl, holds_pollSeg _ _ _ _ _ _ _ hl he]
      simp [h1, h2, a, b, (c i hEi).1, (c i hEi).2]
    · simp only [alive]
      rw [alive_pollSeg _ _ _ _ _ _ _ hl he]; exact a
    · have hnf : final o = false := by
        cases hfo : final o
        · rfl
        · exact absurd hp' (D.hExit s i rest r o hp x hel hr hK hex hfo)
      rw [finalSeen_pollEnd, hnf, finalSeen_pollSeg _ _ _ _ _ _ _ _ hl he, b]; rfl
    · obtain ⟨k1, k2, k3⟩ := D.hKeep s i rest r hp x hel hr hK hp' ch hc
      rw [finished_skip _ _ _ (by simp), gone_skip _ _ _ (by simp),
        finished_pollSeg _ _ _ _ _ _ _ _ hl he, gone_pollSeg _ _ _ _ _ _ _ _ hl]
      by_cases hic : i = ch
      · subst hic
        simp [k2 rfl, k3, (c i k1).2]
      · simp [hic, k3, (c ch k1).1, (c ch k1).2]
  panic := by
    intro s t i rest wk l ⟨h1, h2, hp, a, b, c, x⟩ hel hl
    rw [D.law.child_id]
    have he := D.law.evs_panic s
    have hEi := D.head s i rest hp x hel
    refine ⟨?_, by simp [inPoll], fun hp' => absurd hp' (D.law.panic_dead s)⟩
    rw [holds_notCB _ _ _ rfl, holds_pollSeg _ _ _ _ _ _ _ hl he]
    simp [h1, h2, a, b, (c i hEi).1, (c i hEi).2]
  finish := by
    intro s t ⟨h1, h2, hp, a, b, c, x⟩
    have he := D.law.evs_finish s
    have hr : ∀ e ∈ (P.finish s).evs.reverse, isOwnEv e = true :=
      fun e h => he e (List.mem_reverse.mp h)
    refine ⟨?_, by simp [inPoll], fun hp' => ⟨?_, ?_, fun ch hc => ?_⟩⟩
    · rw [holds_notCB _ _ _ rfl, holds_seg _ _ _ (fun e h => own_notCB e (hr e h))]; exact h1
    · simp only [alive]
      rw [alive_seg _ _ (fun e h => own_inert e (hr e h))]; exact a
    · have hnf : final ((P.finish s).exit.getD .pending) = false := by
        cases hfo : final ((P.finish s).exit.getD .pending)
        · rfl
        · exact absurd hp' (D.fExit s hp x hfo)
      rw [finalSeen_pollEnd, hnf, finalSeen_seg _ _ _ (fun e h => own_inert e (hr e h)), b]; rfl
    · obtain ⟨k1, k3⟩ := D.fKeep s hp x hp' ch hc
      rw [finished_skip _ _ _ (by simp), gone_skip _ _ _ (by simp), finished_own_seg _ _ _ hr,
        gone_seg]
      simp [k3, (c ch k1).1, (c ch k1).2]
  drop := by
    intro s t ⟨h1, h2, _⟩
    have he := D.law.evs_drop s
    have hr : ∀ e ∈ (P.dropEvs s).reverse, isOwnEv e = true :=
      fun e h => he e (List.mem_reverse.mp h)
    refine ⟨?_, ?_, fun hp' => absurd hp' (D.law.drop_dead s)⟩
    · rw [holds_notCB _ _ _ rfl, holds_seg _ _ _ (fun e h => own_notCB e (hr e h)),
        holds_notCB _ _ _ rfl]; exact h1
    · rw [inPoll_inert _ _ rfl, inPoll_seg _ _ (fun e h => own_inert e (hr e h))]
      simpa [inPoll] using h2

/-- C03 along every operation history, from a `Disc` instance -/
theorem run_of_disc {P : Policy Fix} {m : Mode} {K : Nat → Res → Prop} {E : Fix → Nat → Prop}
    {X : Fix → List Nat → Prop} (D : Disc P m K E X) (ops : List Op) (e : Eng Fix)
    (hm : e.w.mode = m) (hk : ScriptsOk K e.w) (ht : e.w.trace = []) :
    holds_C03 false (ops.foldl (FEng.step P) e).w.trace = true :=
  (Sim.runFix (disc_sim D) ops e hm hk (by rw [ht]; exact inv_init P E e.s)).1

end C03
end Fc

/-! ### Part 3 — the families -/

namespace Fc
namespace C03
open Mon Fix

/-- no constraint on the slots still to scan -/
def XT : Fix → List Nat → Prop := fun _ _ => True

theorem ite_some_eq_none {α : Type} (c : Prop) [Decidable c] (a : α) (b : Option α) :
    (if c then some a else b) = none ↔ ¬c ∧ b = none := by
  split <;> simp_all

/-- answers the child's kind (or the engine) excludes -/
macro "kind_out" : tactic =>
  `(tactic| first
    | contradiction
    | (exfalso; simp_all only [Sim.kindRes, Fam.childIsStream, Res.fits, ne_eq, not_true_eq_false,
        Bool.false_eq_true]; done))

/-- the obligations about `handle`: case analysis on the child's answer (and on the family's
    own `if`, given as `cond s i`) -/
macro "disc_h" pol:ident r:ident c:term : tactic =>
  `(tactic| (
    rcases $r:ident with _ | ⟨ok, v⟩ | v | _ | _ <;> (try cases ok) <;>
    first
    | kind_out
    | (simp_all [$pol:ident, Fix.keep, Fix.kill, Fix.bump, Fix.misuseIfDead, Fix.unbuf, Fix.bufEvs,
        Sim.kindRes, Fam.childIsStream, Res.fits, finishing, final, XT, upd, ite_some_eq_none]; done)
    | (by_cases hcond : $c <;>
       simp_all [$pol:ident, Fix.keep, Fix.kill, Fix.bump, Fix.misuseIfDead, Fix.unbuf, Fix.bufEvs,
        Sim.kindRes, Fam.childIsStream, Res.fits, finishing, final, XT, upd, ite_some_eq_none] <;>
       (try (subst_vars; simp_all [final])))))

/-- a whole instance for a family that needs no fact about the remaining slots -/
macro "disc_tac" pol:ident law:ident cond:term : tactic =>
  `(tactic| (
    refine ⟨$law, ?_, ?_, ?_, ?_, ?_, ?_, ?_, ?_⟩
    · intro s i rest hp hx he; first | trivial | simpa [$pol:ident] using he
    · intros; trivial
    · intro s hp; exact ⟨trivial, fun c h => h⟩
    · intro s i rest r hp hx he hr hK hp' c hc
      by_cases hci : c = i <;> disc_h $pol r ($cond s i)
    · intro s i rest r hp hx he hr hK hex
      disc_h $pol r ($cond s i)
    · intro s i rest r o hp hx he hr hK hex hf
      disc_h $pol r ($cond s i)
    · intro s hp hx hp' c hc
      simp only [$pol:ident] at hp' hc ⊢
      (try split at hp') <;> simp_all [Fix.misuseIfDead, ite_some_eq_none]
    · intro s hp hx hf
      simp only [$pol:ident] at hf ⊢
      (try split at hf) <;> simp_all [Fix.misuseIfDead, final, ite_some_eq_none]))

theorem disc_joinSlice (m : Mode) :
    Disc joinSlice m (Sim.kindRes .joinSlice) (fun s c => s.st c = .pending) XT := by
  disc_tac joinSlice lawful_joinSlice (fun (s : Fix) (i : Nat) => True)

theorem disc_joinTuple (m : Mode) :
    Disc joinTuple m (Sim.kindRes .joinTuple) (fun s c => s.st c ≠ .ready) XT := by
  disc_tac joinTuple lawful_joinTuple (fun (s : Fix) (i : Nat) => s.cnt + 1 = s.n)

theorem disc_tryJoinSlice (m : Mode) :
    Disc tryJoinSlice m (Sim.kindRes .tryJoinSlice) (fun s c => s.st c = .pending) XT := by
  disc_tac tryJoinSlice lawful_tryJoinSlice (fun (s : Fix) (i : Nat) => True)

theorem disc_tryJoinTuple (m : Mode) :
    Disc tryJoinTuple m (Sim.kindRes .tryJoinTuple) (fun s c => s.st c ≠ .ready) XT := by
  disc_tac tryJoinTuple lawful_tryJoinTuple (fun (s : Fix) (i : Nat) => s.cnt + 1 = s.n)

theorem disc_race (m : Mode) :
    Disc race m (Sim.kindRes .race) (fun _ _ => True) XT := by
  disc_tac race lawful_race (fun (s : Fix) (i : Nat) => True)

theorem disc_raceOkArr (m : Mode) :
    Disc (raceOk false false) m (Sim.kindRes .raceOkArr) (fun s c => s.st c ≠ .ready) XT := by
  disc_tac raceOk lawful_raceOkArr (fun (s : Fix) (i : Nat) => True)

theorem disc_raceOkVec (m : Mode) :
    Disc (raceOk false true) m (Sim.kindRes .raceOkVec) (fun s c => s.st c ≠ .ready) XT := by
  disc_tac raceOk lawful_raceOkVec (fun (s : Fix) (i : Nat) => True)

theorem disc_raceOkTup (m : Mode) :
    Disc (raceOk true false) m (Sim.kindRes .raceOkTup) (fun s c => s.st c ≠ .ready) XT := by
  disc_tac raceOk lawful_raceOkTup (fun (s : Fix) (i : Nat) => True)

theorem disc_merge (m : Mode) :
    Disc merge m (Sim.kindRes .merge) (fun s c => s.st c ≠ .none) XT := by
  disc_tac merge lawful_merge (fun (s : Fix) (i : Nat) => s.cnt + 1 = s.n)

theorem disc_zip (m : Mode) :
    Disc zip m (Sim.kindRes .zip) (fun _ _ => True) XT := by
  disc_tac zip lawful_zip (fun (s : Fix) (i : Nat) => ({ s with st := upd s.st i .ready } : Fix).allReady = true)

/-- chain: the slots still to scan are `index, index+1, …` -/
def XC : Fix → List Nat → Prop := fun s l => ∃ k, l = List.range' s.cnt k

theorem xc_cons {s : Fix} {i : Nat} {rest : List Nat} (h : XC s (i :: rest)) :
    i = s.cnt ∧ ∃ k, rest = List.range' (s.cnt + 1) k := by
  obtain ⟨k, hk⟩ := h
  cases k with
  | zero => simp at hk
  | succ k =>
    rw [List.range'_succ] at hk
    simp only [List.cons.injEq] at hk
    exact ⟨hk.1, k, hk.2⟩

theorem disc_chain : Disc chain .direct (Sim.kindRes .chain) (fun s c => s.cnt ≤ c) XC where
  law := lawful_chain
  head := by
    intro s i rest hp hx he
    have := (xc_cons hx).1
    show s.cnt ≤ i; omega
  skip := by intro s i rest hm hx; simp [chain] at hm
  start := by intro s hp; exact ⟨⟨s.n - s.cnt, rfl⟩, fun c h => h⟩
  hKeep := by
    intro s i rest r hp hx he hr hK hp' c hc
    obtain ⟨hi, _⟩ := xc_cons hx
    rcases r with _ | ⟨ok, v⟩ | v | _ | _ <;> (try kind_out) <;>
      simp_all [chain, Fix.misuseIfDead, Sim.kindRes, Fam.childIsStream, Res.fits, finishing] <;> omega
  hOn := by
    intro s i rest r hp hx he hr hK hex
    obtain ⟨hi, k, hk⟩ := xc_cons hx
    rcases r with _ | ⟨ok, v⟩ | v | _ | _ <;> (try kind_out) <;>
      simp_all [chain, Fix.misuseIfDead, Sim.kindRes, Fam.childIsStream, Res.fits, finishing]
    exact ⟨k, rfl⟩
  hExit := by
    intro s i rest r o hp hx he hr hK hex hf
    rcases r with _ | ⟨ok, v⟩ | v | _ | _ <;> (try kind_out) <;>
      simp_all [chain, Fix.misuseIfDead, Sim.kindRes, Fam.childIsStream, Res.fits, finishing] <;>
      subst_vars <;> simp [final] at hf
  fKeep := by
    intro s hp hx hp' c hc
    simp [chain, Fix.kill, Fix.misuseIfDead] at hp'
  fExit := by
    intro s hp hx hf
    simp [chain, Fix.kill, Fix.misuseIfDead]

/-- wait_until: the deadline (slot 0) is scanned at most once per poll, and only in state
    `Started` (`cnt = 0`) -/
def XW : Fix → List Nat → Prop := fun s l => l.Nodup ∧ (0 ∈ l → s.cnt = 0)

theorem xw_order (s : Fix) :
    XW s ((if s.cnt = 0 then [0, 1] else [1]).filter (· < s.n)) := by
  refine ⟨List.Nodup.sublist List.filter_sublist (by split <;> simp), ?_⟩
  intro h
  by_cases hc : s.cnt = 0
  · exact hc
  · simp [hc] at h

theorem xw_tail {s : Fix} {i : Nat} {rest : List Nat} (h : XW s (i :: rest)) : XW s rest :=
  ⟨(List.nodup_cons.mp h.1).2, fun h0 => h.2 (List.mem_cons_of_mem _ h0)⟩

theorem xw_tail0 {s s' : Fix} {rest : List Nat} (h : XW s (0 :: rest)) : XW s' rest :=
  ⟨(List.nodup_cons.mp h.1).2, fun h0 => absurd h0 (List.nodup_cons.mp h.1).1⟩

theorem disc_waitUntilF (m : Mode) :
    Disc waitUntilF m (Sim.kindRes .waitF) (fun s c => c = 0 → s.cnt = 0) XW where
  law := lawful_waitUntilF
  head := by
    intro s i rest hp hx he h0
    subst h0
    exact hx.2 (List.mem_cons_self ..)
  skip := by intro s i rest hm hx; exact xw_tail hx
  start := by intro s hp; exact ⟨xw_order s, fun c h => h⟩
  hKeep := by
    intro s i rest r hp hx he hr hK hp' c hc
    by_cases hi : i = 0 <;> by_cases hci : c = i <;>
    rcases r with _ | ⟨ok, v⟩ | v | _ | _ <;> (try kind_out) <;>
      simp_all [waitUntilF, Fix.kill, Fix.misuseIfDead, Sim.kindRes, Fam.childIsStream, Res.fits, finishing]
  hOn := by
    intro s i rest r hp hx he hr hK hex
    by_cases hi : i = 0 <;> rcases r with _ | ⟨ok, v⟩ | v | _ | _ <;> (try kind_out) <;>
      simp_all [waitUntilF, Fix.kill, Fix.misuseIfDead, Sim.kindRes, Fam.childIsStream, Res.fits, finishing]
    exact xw_tail0 hx
  hExit := by
    intro s i rest r o hp hx he hr hK hex hf
    by_cases hi : i = 0 <;> rcases r with _ | ⟨ok, v⟩ | v | _ | _ <;> (try kind_out) <;>
      simp_all [waitUntilF, Fix.kill, Fix.misuseIfDead, Sim.kindRes, Fam.childIsStream, Res.fits, finishing] <;>
      subst_vars <;> simp [final] at hf
  fKeep := by
    intro s hp hx hp' c hc
    exact ⟨hc, by simp [waitUntilF]⟩
  fExit := by
    intro s hp hx hf
    simp [waitUntilF, final] at hf

theorem disc_waitUntilS (m : Mode) :
    Disc waitUntilS m (Sim.kindRes .waitS) (fun s c => c = 0 → s.cnt = 0) XW where
  law := lawful_waitUntilS
  head := by
    intro s i rest hp hx he h0
    subst h0
    exact hx.2 (List.mem_cons_self ..)
  skip := by intro s i rest hm hx; exact xw_tail hx
  start := by intro s hp; exact ⟨xw_order s, fun c h => h⟩
  hKeep := by
    intro s i rest r hp hx he hr hK hp' c hc
    by_cases hi : i = 0 <;> by_cases hci : c = i <;>
    rcases r with _ | ⟨ok, v⟩ | v | _ | _ <;> (try kind_out) <;>
      simp_all [waitUntilS, Fix.kill, Fix.unbuf, Fix.bufEvs, Fix.misuseIfDead, Sim.kindRes,
        Fam.childIsStream, Res.fits, finishing] <;>
      (try split) <;> simp
  hOn := by
    intro s i rest r hp hx he hr hK hex
    by_cases hi : i = 0 <;> rcases r with _ | ⟨ok, v⟩ | v | _ | _ <;> (try kind_out) <;>
      simp_all [waitUntilS, Fix.kill, Fix.unbuf, Fix.bufEvs, Fix.misuseIfDead, Sim.kindRes,
        Fam.childIsStream, Res.fits, finishing]
    exact xw_tail0 hx
  hExit := by
    intro s i rest r o hp hx he hr hK hex hf
    by_cases hi : i = 0 <;> rcases r with _ | ⟨ok, v⟩ | v | _ | _ <;> (try kind_out) <;>
      simp_all [waitUntilS, Fix.kill, Fix.unbuf, Fix.bufEvs, Fix.misuseIfDead, Sim.kindRes,
        Fam.childIsStream, Res.fits, finishing] <;>
      subst_vars <;> simp [final] at hf
  fKeep := by
    intro s hp hx hp' c hc
    exact ⟨hc, by simp [waitUntilS]⟩
  fExit := by
    intro s hp hx hf
    simp [waitUntilS, final] at hf

end C03
end Fc
