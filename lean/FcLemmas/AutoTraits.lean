/-
  FcLemmas/AutoTraits.lean — monotonicity of the auto-trait model `Fc.AT.auto` in the assignment of the
  neutral types, and the corollaries that justify checking only the three canonical assignments
  `sendOnly`, `syncOnly`, `both`.
-/
import Fc.AutoTraits

set_option linter.unusedSimpArgs false
set_option linter.unusedVariables false

namespace Fc
namespace AT

/-- componentwise implication on (Send, Sync) pairs -/
def Le (a b : Bool × Bool) : Prop := (a.1 = true → b.1 = true) ∧ (a.2 = true → b.2 = true)

theorem Le.refl (a : Bool × Bool) : Le a a := ⟨id, id⟩

/-- pointwise-monotone predicates are preserved by `List.all` along index-wise `Le` lists -/
theorem all_mono (p : Bool × Bool → Bool)
    (hp : ∀ a b, Le a b → p a = true → p b = true) :
    ∀ (xs ys : List (Bool × Bool)) (hl : xs.length = ys.length)
      (h : ∀ i (hi : i < xs.length), Le (xs[i]) (ys[i]'(hl ▸ hi))),
      xs.all p = true → ys.all p = true := by
  intro xs
  induction xs with
  | nil =>
    intro ys hl h _
    cases ys with
    | nil => rfl
    | cons b ys => simp at hl
  | cons a xs ih =>
    intro ys hl h hall
    cases ys with
    | nil => simp at hl
    | cons b ys =>
      simp only [List.all_cons, Bool.and_eq_true] at hall ⊢
      refine ⟨hp a b (h 0 (by simp)) hall.1, ?_⟩
      refine ih ys (by simpa using hl) ?_ hall.2
      intro i hi
      have := h (i + 1) (by simp; omega)
      simpa using this

theorem Rule.eval_mono (r : Rule) (xs ys : List (Bool × Bool)) (hl : xs.length = ys.length)
    (h : ∀ i (hi : i < xs.length), Le (xs[i]) (ys[i]'(hl ▸ hi))) : Le (r.eval xs) (r.eval ys) := by
  have h1 := all_mono (·.1) (fun a b hab ha => hab.1 ha) xs ys hl h
  have h2 := all_mono (·.2) (fun a b hab ha => hab.2 ha) xs ys hl h
  have h12 := all_mono (fun p => p.1 && p.2)
    (fun a b hab ha => by
      simp only [Bool.and_eq_true] at ha ⊢
      exact ⟨hab.1 ha.1, hab.2 ha.2⟩) xs ys hl h
  cases r
  · exact ⟨h1, h2⟩
  · exact ⟨id, id⟩
  · exact ⟨h12, h12⟩
  · exact ⟨h1, h1⟩
  · exact ⟨h1, id⟩
  · exact ⟨id, id⟩

/-- `Rule.eval_mono` over mapped lists -/
theorem Rule.eval_map_mono {α : Type} (r : Rule) (l : List α) (g g' : α → Bool × Bool)
    (h : ∀ x ∈ l, Le (g x) (g' x)) : Le (r.eval (l.map g)) (r.eval (l.map g')) := by
  apply Rule.eval_mono r (l.map g) (l.map g') (by simp)
  intro i hi
  simp only [List.getElem_map]
  exact h _ (List.getElem_mem _)

theorem andAll_eq_structural (l : List (Bool × Bool)) : andAll l = Rule.structural.eval l := rfl

theorem andAll_mono {α : Type} (l : List α) (g g' : α → Bool × Bool)
    (h : ∀ x ∈ l, Le (g x) (g' x)) : Le (andAll (l.map g)) (andAll (l.map g')) := by
  rw [andAll_eq_structural, andAll_eq_structural]
  exact Rule.eval_map_mono .structural l g g' h

theorem auto_mono (env : List Decl) (ext : Nat → Rule) (ρ ρ' : List Nat → Bool × Bool)
    (h : ∀ p, Le (ρ p) (ρ' p)) (f : Nat) (t : Ty) : Le (auto env ext ρ f t) (auto env ext ρ' f t) := by
  induction f generalizing t with
  | zero => simp only [auto]; exact Le.refl _
  | succ f ih =>
    cases t with
    | neu p => simp only [auto]; exact h p
    | app c args =>
      simp only [auto]
      cases hc : env[c]? with
      | some d =>
        simp only []
        exact andAll_mono d.fields _ _ (fun ft _ => ih (subst args f ft))
      | none =>
        simp only []
        exact Rule.eval_map_mono (ext c) args _ _ (fun a _ => ih a)
    | tuple ts =>
      simp only [auto]
      exact andAll_mono ts _ _ (fun a _ => ih a)
    | array t => simp only [auto]; exact ih t
    | ref t => simp only [auto]; exact ⟨(ih t).2, (ih t).2⟩
    | refMut t => simp only [auto]; exact ih t
    | ptr => simp only [auto]; exact Le.refl _
    | prim => simp only [auto]; exact Le.refl _
    | fnPtr => simp only [auto]; exact Le.refl _
    | «opaque» => simp only [auto]; exact Le.refl _

/-- if a type is Send when exactly the listed atoms are Send (and nothing is Sync), it is Send under every
    assignment that makes those atoms Send -/
theorem send_of_sendOnly (env : List Decl) (ext : Nat → Rule) (atoms : List (List Nat)) (f : Nat) (t : Ty)
    (hc : (auto env ext (sendOnly atoms) f t).1 = true) (ρ : List Nat → Bool × Bool)
    (hρ : ∀ p ∈ atoms, (ρ p).1 = true) : (auto env ext ρ f t).1 = true := by
  refine (auto_mono env ext (sendOnly atoms) ρ ?_ f t).1 hc
  intro p
  refine ⟨fun hp => ?_, fun hp => ?_⟩
  · simp only [sendOnly, List.contains_iff_mem] at hp
    exact hρ p hp
  · simp [sendOnly] at hp

theorem sync_of_syncOnly (env : List Decl) (ext : Nat → Rule) (atoms : List (List Nat)) (f : Nat) (t : Ty)
    (hc : (auto env ext (syncOnly atoms) f t).2 = true) (ρ : List Nat → Bool × Bool)
    (hρ : ∀ p ∈ atoms, (ρ p).2 = true) : (auto env ext ρ f t).2 = true := by
  refine (auto_mono env ext (syncOnly atoms) ρ ?_ f t).2 hc
  intro p
  refine ⟨fun hp => ?_, fun hp => ?_⟩
  · simp [syncOnly] at hp
  · simp only [syncOnly, List.contains_iff_mem] at hp
    exact hρ p hp

theorem le_both (atoms : List (List Nat)) (ρ : List Nat → Bool × Bool)
    (hρ : ∀ p ∈ atoms, (ρ p).1 = true ∧ (ρ p).2 = true) (p : List Nat) : Le (both atoms p) (ρ p) := by
  refine ⟨fun hp => ?_, fun hp => ?_⟩
  · simp only [both, List.contains_iff_mem] at hp
    exact (hρ p hp).1
  · simp only [both, List.contains_iff_mem] at hp
    exact (hρ p hp).2

theorem send_of_both (env : List Decl) (ext : Nat → Rule) (atoms : List (List Nat)) (f : Nat) (t : Ty)
    (hc : (auto env ext (both atoms) f t).1 = true) (ρ : List Nat → Bool × Bool)
    (hρ : ∀ p ∈ atoms, (ρ p).1 = true ∧ (ρ p).2 = true) : (auto env ext ρ f t).1 = true :=
  (auto_mono env ext (both atoms) ρ (le_both atoms ρ hρ) f t).1 hc

theorem sync_of_both (env : List Decl) (ext : Nat → Rule) (atoms : List (List Nat)) (f : Nat) (t : Ty)
    (hc : (auto env ext (both atoms) f t).2 = true) (ρ : List Nat → Bool × Bool)
    (hρ : ∀ p ∈ atoms, (ρ p).1 = true ∧ (ρ p).2 = true) : (auto env ext ρ f t).2 = true :=
  (auto_mono env ext (both atoms) ρ (le_both atoms ρ hρ) f t).2 hc

/-! ## sanity examples -/

namespace Sanity

/-- decl 0: `struct A<T> { a: T, b: Arc<T::Assoc7> }`; decl 1: `struct B<T> { a: T, r: Rc<..> }`;
    decl 2: `struct C<T> { inner: A<T>, x: &T }` -/
def env : List Decl :=
  [ { nparams := 1, fields := [.neu [0], .app 100 [.neu [0, 7]]] },
    { nparams := 1, fields := [.neu [0], .app 101 []] },
    { nparams := 1, fields := [.app 0 [.neu [0]], .ref (.neu [0])] } ]

def ext : Nat → Rule := fun c => if c = 100 then .arc else if c = 101 then .never else .never

-- Arc needs Send + Sync of its argument: Send-only atoms are not enough
example : (auto env ext (sendOnly [[0], [0, 7]]) 8 (ownTy env 0)).1 = false := by decide
example : (auto env ext (both [[0], [0, 7]]) 8 (ownTy env 0)).1 = true := by decide
example : (auto env ext (both [[0], [0, 7]]) 8 (ownTy env 0)).2 = true := by decide
-- the projection atom matters: with only `[0]` the Arc field fails
example : (auto env ext (both [[0]]) 8 (ownTy env 0)).1 = false := by decide
-- an Rc field: never Send, never Sync, whatever the atoms
example : auto env ext (both [[0], [0, 7]]) 8 (ownTy env 1) = (false, false) := by decide
-- nesting through a crate declaration and a shared reference (`&T: Send ⇔ T: Sync`)
example : (auto env ext (sendOnly [[0], [0, 7]]) 8 (ownTy env 2)).1 = false := by decide
example : auto env ext (both [[0], [0, 7]]) 8 (ownTy env 2) = (true, true) := by decide
-- substitution of a concrete argument: `A<u8>` loses the projection (opaque), `C<*const _>` is not Send
example : (auto env ext (both []) 8 (.app 0 [.prim])).1 = false := by decide
example : (auto env ext (both []) 8 (.app 2 [.ptr])).1 = false := by decide
-- fuel exhaustion is conservative
example : auto env ext (both [[0], [0, 7]]) 1 (ownTy env 0) = (false, false) := by decide

end Sanity

end AT
end Fc

#print axioms Fc.AT.Rule.eval_mono
#print axioms Fc.AT.auto_mono
#print axioms Fc.AT.send_of_sendOnly
#print axioms Fc.AT.sync_of_syncOnly
#print axioms Fc.AT.send_of_both
#print axioms Fc.AT.sync_of_both
