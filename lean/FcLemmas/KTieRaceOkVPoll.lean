/-
  FcLemmas/KTieRaceOkVPoll.lean — `Vec<Fut>::race_ok()`: the translated `RaceOk::poll` refines `Eng.poll (raceOk false true)`.
  The loop body is taken from the generated definition by unification (`refine forCtl_scan_idx …`); one iteration is one
  `Eng.visit` (`rv_visit_skip/pend/ok/err`); the slots are read through `MaybeDone.view` (`md_*`), the struct through its
  role abbreviation only (`unroles`).
-/
import FcLemmas.KTieRaceOkVModel

set_option linter.unusedSimpArgs false
set_option linter.unusedVariables false

namespace Fc
open Rs Src

namespace TieRaceOkV
open RaceOkV TieDirect TieLoop

local macro "unroles" : tactic => `(tactic| try simp only [RaceOk.roleElems] at *)

abbrev Ret := Rs.Poll (Rs.ResultE Nat (List Nat))

/-- between iterations, in front of slot `k`: same world; the model's state is the reading of the crate's; the local
    `all_done` says that every slot visited so far holds an output -/
def Inv (N cx : Nat) (s0 : Fix) (k : Nat) (s : RaceOk × World × Bool) (e : Eng Fix) : Prop :=
  e.w = s.2.1 ∧ e.s = absS s.1 s0 ∧ WfK N s.1 ∧ s.2.1.mode = .direct ∧ s.2.1.parent = some cx ∧ FutSteps s.2.1 ∧
  (s.2.2 = true ↔ ∀ j, j < k → slotSt (s.1.roleElems.get j).view = .ready)

/-- after the iteration that returned `Ok`: the model is `dead` -/
def Fin (N : Nat) (s0 : Fix) (v : Ret) (s : RaceOk × World × Bool) (e : Eng Fix) : Prop :=
  (∃ ok, v = .ready (.ok ok)) ∧ e.w = s.2.1 ∧ e.s = { absS s.1 s0 with dead := true } ∧ FutSteps s.2.1 ∧
  s.1.roleElems.len = N

/-- the conclusion of `poll_tie_statement` (`M` = the model after the poll), plus what the next poll needs again -/
def Post (N : Nat) (b M : Eng Fix) (g' : RaceOk) (env' : World) (ret : Ret) : Prop :=
  (ret = .pending → WfK N g') ∧
  ((∀ es, ret ≠ .ready (.err es)) →
    (absK g' b).s.n = M.s.n ∧ (absK g' b).s.cnt = M.s.cnt ∧ (absK g' b).s.st = M.s.st ∧ (absK g' b).s.out = M.s.out) ∧
  ((∃ es, ret = .ready (.err es)) → g'.roleElems.len = 0 ∧ ∀ i, M.s.st i = .none) ∧
  (M.s.dead = true ↔ ret ≠ .pending) ∧
  env'.scripts = M.w.scripts ∧
  env'.handed = M.w.handed ∧
  M.w.trace = .pollEnd (outcomeOfRaceOk ret) :: env'.trace ∧
  (FutStepsF env' ∧ FutStepsF M.w)

/-- the reading after one slot was overwritten -/
theorem absS_upd (g g' : RaceOk) (s0 : Fix) (i : Nat) (x : Option (Nat ⊕ Rs.Result Nat))
    (hl : g'.roleElems.len = g.roleElems.len)
    (hv : ∀ j, (g'.roleElems.get j).view = if j = i then x else (g.roleElems.get j).view) :
    absS g' s0 = { absS g s0 with
      st := upd (absS g s0).st i (slotSt x), out := upd (absS g s0).out i (slotOut x),
      cnt := ((List.range g.roleElems.len).filter
        (fun j => slotSt (if j = i then x else (g.roleElems.get j).view) = .ready)).length } := by
  apply fix_ext
  · simp [absS, hl]
  · funext j; by_cases hj : j = i <;> simp [absS, hv, upd, hj]
  · funext j; by_cases hj : j = i <;> simp [absS, hv, upd, hj]
  · simp [absS, hl, hv]
  · rfl
  · rfl

/-- a slot that starts to hold an output raises the count by one -/
theorem rv_count_up (vw : Nat → Option (Nat ⊕ Rs.Result Nat)) (x : Option (Nat ⊕ Rs.Result Nat)) (i n : Nat) (hi : i < n)
    (hx : slotSt x = .ready) (ho : slotSt (vw i) ≠ .ready) :
    ((List.range n).filter (fun j => slotSt (if j = i then x else vw j) = .ready)).length
      = ((List.range n).filter (fun j => slotSt (vw j) = .ready)).length + 1 := by
  have := TieTryJoinV.tj_filter_dec
    (fun j => decide (slotSt (if j = i then x else vw j) = .ready))
    (fun j => decide (slotSt (vw j) = .ready)) i n hi (by simp [hx]) (by simp [ho])
    (by intro j hj; simp [hj])
  omega

/-- a slot that neither starts nor stops holding an output leaves the count -/
theorem rv_count_same (vw : Nat → Option (Nat ⊕ Rs.Result Nat)) (x : Option (Nat ⊕ Rs.Result Nat)) (i n : Nat)
    (hx : slotSt x ≠ .ready) (ho : slotSt (vw i) ≠ .ready) :
    ((List.range n).filter (fun j => slotSt (if j = i then x else vw j) = .ready)).length
      = ((List.range n).filter (fun j => slotSt (vw j) = .ready)).length := by
  congr 1
  apply List.filter_congr
  intro j _
  by_cases hj : j = i
  · subst hj; simp [hx, ho]
  · simp [hj]

theorem rv_poll_core (N : Nat) (g : RaceOk) (b : Eng Fix) (w : Nat) (hW : WfK N g) (hS : FutStepsF b.w)
    (hd : b.s.dead = false) :
    ∃ g' env' ret,
      RaceOk.poll g w (((absK g b).w.emit (.pollBegin w)).setWaker w) = some (g', env', ret) ∧
      Post N b (Eng.poll P (absK g b) w) g' env' ret := by
  have hlive : (absK g b).s.dead = false := hd
  rw [rv_poll_live _ _ hlive]
  have hn0 : (absK g b).s.n = N := hW.kn
  rw [hn0]
  generalize he0 : ({ absK g b with w := ((absK g b).w.emit (.pollBegin w)).setWaker w } : Eng Fix) = e0
  suffices hs : ∃ y : RaceOk × World × Ret,
      RaceOk.poll g w (((absK g b).w.emit (.pollBegin w)).setWaker w) = some y ∧
      Post N b (Eng.close P (Eng.scan P (List.range N) e0)) y.1 y.2.1 y.2.2 by
    obtain ⟨⟨g', env', ret⟩, h1, h2⟩ := hs
    exact ⟨g', env', ret, h1, h2⟩
  have hW0 := hW
  obtain ⟨hkn, hrs⟩ := hW
  unfold RaceOk.poll
  unroles
  simp only [Option.pure_def, Option.bind_eq_bind, hkn, List.range_eq_range']
  refine bind_spec _ _ (LoopPost P outcomeOfRaceOk (Inv N w b.s N) (Fin N b.s) (List.range' 0 N) e0) _ ?_ ?_
  · refine forCtl_scan_idx P outcomeOfRaceOk (Inv N w b.s) (Fin N b.s) _ N ?_ N 0 (by omega) _ e0 ?_
    · -- one iteration = one `visit`
      clear hkn hrs hW0 hn0 hlive he0 e0 hS g
      rintro ⟨self, env', ad⟩ e i hi ⟨hw, hes, hwf, hm, hp, hf, had⟩
      obtain ⟨env, es⟩ := e
      simp only at hw hes hwf hm hp hf had
      subst hw hes
      have hwf0 := hwf
      obtain ⟨hkn, hrs⟩ := hwf
      unroles
      have hlt : i < self.roleElems.len := by rw [hkn]; exact hi
      try dsimp only
      rcases hrs i hi with hv | ⟨e0, hv⟩
      · -- the slot holds child `i`, still running
        have hne : (⟨env, absS self b.s⟩ : Eng Fix).s.st i ≠ .ready := by
          simp [absS, RaceOk.roleElems, hv, slotSt]
        have hm' : (env.pollChild i i).mode = .direct := by rw [pollChild_mode]; exact hm
        have hp' : (env.pollChild i i).parent = some w := by rw [pollChild_parent]; exact hp
        have hf' : FutSteps (env.pollChild i i) := futSteps_pollChild _ hf _ _
        rcases futSteps_resOf env hf i with hres | ⟨ok, v, hres⟩
        · -- Pending
          have hv' := rv_visit_pend ⟨env, absS self b.s⟩ i hm hne hres
          have hpoll := md_poll_pend _ i w env hv hm hp hres
          refine ⟨?s1, .next, ?h11, Or.inl ⟨rfl, ?h21, ?h31⟩⟩
          case h11 =>
            simp only [Rs.PVec.idx, Rs.PVec.set, hlt, ↓reduceIte, Option.bind_some, Bool.false_eq_true, hpoll]
            rfl
          case h21 => rw [hv']
          case h31 =>
            rw [hv']
            refine ⟨rfl, ?_, ?_, hm', hp', hf', ?_⟩
            · apply Eq.symm
              apply absS_congr
              · rfl
              · intro j; by_cases hj : j = i <;> simp [RaceOk.roleElems, hj]
            · apply wfK_congr self _ hwf0
              · rfl
              · intro j; by_cases hj : j = i <;> simp [RaceOk.roleElems, hj]
            · simp only [Bool.false_eq_true, false_iff]
              intro h
              have := h i (by omega)
              simp [RaceOk.roleElems, hv, slotSt] at this
        · obtain ⟨m', hpoll, hview⟩ := md_poll_ready _ i w env ok v hv hm hp hres
          cases ok
          · -- Ready(Err(v)): the error stays in the slot
            have hv' := rv_visit_err ⟨env, absS self b.s⟩ i v hm hne hres
            simp only [Bool.false_eq_true, ↓reduceIte] at hview
            have htk := md_take_ok_err m' v hview
            refine ⟨?s2, .next, ?h12, Or.inl ⟨rfl, ?h22, ?h32⟩⟩
            case h12 =>
              simp only [Rs.PVec.idx, Rs.PVec.set, hlt, ↓reduceIte, Option.bind_some, Bool.false_eq_true, hpoll, htk]
              rfl
            case h22 => rw [hv']
            case h32 =>
              rw [hv']
              have hup := absS_upd self
                ⟨⟨self.roleElems.len, fun j => if j = i then m' else if j = i then m' else self.roleElems.get j⟩⟩ b.s i
                (some (.inr (.err v))) rfl
                (by intro j; by_cases hj : j = i <;> simp [RaceOk.roleElems, hj, hview])
              refine ⟨rfl, ?_, ?_, ?_, ?_, ?_, ?_⟩
              · rw [hup]
                apply fix_ext <;> try rfl
                simp only [RaceOk.roleElems]
                rw [rv_count_up (fun j => (self.roleElems.get j).view) _ i _ hlt rfl (by rw [hv]; simp [slotSt])]
                rfl
              · refine ⟨hkn, fun j hj => ?_⟩
                by_cases hji : j = i
                · right; exact ⟨v, by simp [RaceOk.roleElems, hji, hview]⟩
                · simpa [RaceOk.roleElems, hji] using hrs j hj
              · simp only [World.emit]; exact hm'
              · simp only [World.emit]; exact hp'
              · exact hf'
              · rw [had]
                constructor
                · intro h j hj
                  by_cases hji : j = i
                  · simp [RaceOk.roleElems, hji, hview, slotSt]
                  · simpa [RaceOk.roleElems, hji] using h j (by omega)
                · intro h j hj
                  have := h j (by omega)
                  have hji : j ≠ i := by omega
                  simpa [RaceOk.roleElems, hji] using this
          · -- Ready(Ok(v)): the winner is taken out
            have hv' := rv_visit_ok ⟨env, absS self b.s⟩ i v hm hne hres
            simp only [↓reduceIte] at hview
            obtain ⟨m'', htk, hview''⟩ := md_take_ok_ok m' v hview
            refine ⟨?s3, .ret (.ready (.ok v)), ?h13, Or.inr ⟨_, rfl, ?h23, ?h33⟩⟩
            case h13 =>
              simp only [Rs.PVec.idx, Rs.PVec.set, hlt, ↓reduceIte, Option.bind_some, Bool.false_eq_true, hpoll, htk]
              rfl
            case h23 => rw [hv']; rfl
            case h33 =>
              rw [hv']
              have hup := absS_upd self
                ⟨⟨self.roleElems.len, fun j => if j = i then m'' else if j = i then m' else self.roleElems.get j⟩⟩ b.s i
                none rfl
                (by intro j; by_cases hj : j = i <;> simp [RaceOk.roleElems, hj, hview''])
              refine ⟨⟨v, rfl⟩, rfl, ?_, hf', hkn⟩
              rw [hup]
              apply fix_ext <;> try rfl
              · funext j
                by_cases hj : j = i
                · subst hj; simp [absS, RaceOk.roleElems, hv, slotOut, upd]
                · simp [upd, hj]
              · simp only [RaceOk.roleElems]
                rw [rv_count_same (fun j => (self.roleElems.get j).view) _ i _ (by simp [slotSt]) (by rw [hv]; simp [slotSt])]
                rfl
      · -- the slot already stores its error: not polled again, nothing to take
        have hst : (⟨env, absS self b.s⟩ : Eng Fix).s.st i = .ready := by
          simp [absS, RaceOk.roleElems, hv, slotSt]
        have hv' := rv_visit_skip ⟨env, absS self b.s⟩ i hst
        have hpoll := md_poll_done _ _ w env hv
        have htk := md_take_ok_err _ e0 hv
        refine ⟨?s4, .next, ?h14, Or.inl ⟨rfl, ?h24, ?h34⟩⟩
        case h14 =>
          simp only [Rs.PVec.idx, Rs.PVec.set, hlt, ↓reduceIte, Option.bind_some, Bool.false_eq_true, hpoll, htk]
          rfl
        case h24 => rw [hv']
        case h34 =>
          rw [hv']
          refine ⟨rfl, ?_, ?_, hm, hp, hf, ?_⟩
          · apply Eq.symm
            apply absS_congr
            · rfl
            · intro j; by_cases hj : j = i <;> simp [RaceOk.roleElems, hj]
          · apply wfK_congr self _ hwf0
            · rfl
            · intro j; by_cases hj : j = i <;> simp [RaceOk.roleElems, hj]
          · rw [had]
            constructor
            · intro h j hj
              by_cases hji : j = i
              · simp [RaceOk.roleElems, hji, hv, slotSt]
              · simpa [RaceOk.roleElems, hji] using h j (by omega)
            · intro h j hj
              have := h j (by omega)
              have hji : j ≠ i := by omega
              simpa [RaceOk.roleElems, hji] using this
    · -- the state in front of the loop
      subst he0
      exact ⟨rfl, rfl, hW0, rfl, rfl, hS, by simp⟩
  · -- after the loop
    rintro ⟨⟨self, env, ad⟩, r⟩ hpost
    unfold LoopPost at hpost
    generalize Eng.scan P (List.range' 0 N) e0 = sc at hpost ⊢
    obtain ⟨se, so⟩ := sc
    rcases hpost with ⟨hr, hso, hw, hes, hwf, hm, hp, hf, had⟩ |
      ⟨v, hr, hso, ⟨ok, hok⟩, hw, hes, hf, hlen⟩
    · -- the scan ran through
      simp only at hr hso hw hes hwf hm hp hf had
      subst hr hso
      obtain ⟨sew, ses⟩ := se
      simp only at hw hes
      subst hw hes
      obtain ⟨hkn', hrs'⟩ := hwf
      unroles
      cases ad
      · -- some child is still running: `Pending`
        have hne : (absS self b.s).cnt ≠ (absS self b.s).n := by
          intro h
          have hall := rv_filter_full _ _ h
          have : ∀ j, j < N → slotSt (self.roleElems.get j).view = .ready := by
            intro j hj
            have := hall j (by simpa [absS, RaceOk.roleElems, hkn'] using hj)
            simpa [RaceOk.roleElems] using this
          exact absurd (had.mpr this) (by simp)
        have hclose := rv_close_pending ⟨sew, absS self b.s⟩ hne
        simp only [Bool.false_eq_true, ↓reduceIte]
        refine ⟨_, rfl, ?_⟩
        rw [hclose]
        refine ⟨fun _ => ⟨hkn', hrs'⟩, fun _ => ⟨rfl, rfl, rfl, rfl⟩, (fun h => by obtain ⟨es, h⟩ := h; cases h), ?_, rfl, rfl, rfl, hf, hf⟩
        simp [Eng.emit, absS, hd]
      · -- every child has failed: the aggregate
        have hall : ∀ j, j < N → slotSt (self.roleElems.get j).view = .ready := had.mp rfl
        have herr : ∀ j, j < N → ∃ e, (self.roleElems.get j).view = some (.inr (.err e)) := by
          intro j hj
          rcases hrs' j hj with h | h
          · have := hall j hj; rw [h] at this; simp [slotSt] at this
          · exact h
        have hcnt : (absS self b.s).cnt = (absS self b.s).n := by
          simp only [absS, RaceOk.roleElems]
          apply rv_filter_all
          intro j hj
          simpa using hall j (by rw [← hkn']; exact hj)
        have hclose := rv_close_done ⟨sew, absS self b.s⟩ hcnt
        simp only [↓reduceIte, Rs.PVec.collectMut]
        rw [rv_mapM_some _ (fun i => (MaybeDone.ofView none, (slotOut (self.roleElems.get i).view).getD 0)) _ (by
          intro j hj
          obtain ⟨e, he⟩ := herr j (by rw [← hkn']; exact List.mem_range.mp hj)
          simp [md_take_err_err _ e he, he, slotOut])]
        simp only [Option.map_some, Option.bind_some]
        refine ⟨_, rfl, ?_⟩
        rw [hclose]
        have hnoop : Rs.PVec.foldEach
            (⟨self.roleElems.len, fun i =>
              (Option.map (fun x => x.1)
                ((List.map (fun i => (MaybeDone.ofView none, (slotOut (self.roleElems.get i).view).getD 0))
                  (List.range self.roleElems.len))[i]?)).getD (self.roleElems.get i)⟩ : Rs.PVec MaybeDone)
            MaybeDone.dropGlue sew = sew := by
          unfold Rs.PVec.foldEach
          apply rv_foldl_noop
          intro j hj s
          apply md_drop_none
          have hj' : j < self.roleElems.len := List.mem_range.mp hj
          simp [hj', md_view_ofView]
        refine ⟨(fun h => by cases h), fun h => absurd rfl (h _), fun _ => ⟨rfl, fun _ => rfl⟩, ?_, ?_, ?_, ?_, ?_, hf⟩
        · simp [Eng.emit]
        · simp only [hnoop, Eng.emit, World.emit]
        · simp only [hnoop, Eng.emit, World.emit]
        · simp only [hnoop, Eng.emit, World.emit, outcomeOfRaceOk, Fix.outs, absS, RaceOk.roleElems, List.map_map]
          rfl
        · simp only [hnoop]; exact hf
    · -- an iteration returned `Ok`
      simp only at hr hso hw hes hf hlen
      subst hr hso hok
      obtain ⟨sew, ses⟩ := se
      simp only at hw hes
      subst hw hes
      rw [rv_close_some]
      refine ⟨_, rfl, ?_⟩
      refine ⟨(fun h => by cases h), fun _ => ⟨rfl, rfl, rfl, rfl⟩, (fun h => by obtain ⟨es, h⟩ := h; cases h), ?_, rfl, rfl, rfl, hf, hf⟩
      simp [Eng.emit]

end TieRaceOkV
end Fc
