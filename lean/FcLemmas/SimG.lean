/-
  FcLemmas/SimG.lean — lifting a `Sim` instance of the `group` policy over whole group histories
  (`insert`, `remove`, `reserve`, `extend` and the queries in addition to `poll`, `fire`, `drop`).
-/
import FcLemmas.Sim

namespace Fc

/-- the operations that are not handled by `Eng.poll` / `Eng.fire` / `Eng.drop` -/
def Op.isGroupOp : Op → Bool
  | .poll _ | .fire _ _ | .drop => false
  | _ => true

namespace GEng

theorem resize_mode (w : World) (k : Nat) : (w.resize k).mode = w.mode := by
  unfold World.resize; split
  · cases h : w.mode <;> simp [h]
  · rfl

theorem resize_scripts (w : World) (k : Nat) : (w.resize k).scripts = w.scripts := by
  unfold World.resize; split
  · cases h : w.mode <;> simp [h]
  · rfl

theorem resize_trace (w : World) (k : Nat) : (w.resize k).trace = w.trace := by
  unfold World.resize; split
  · cases h : w.mode <;> simp [h]
  · rfl

theorem reserve_mode (e : Eng Grp) (k : Nat) : (reserve e k).w.mode = e.w.mode := by
  unfold reserve; split <;> simp [resize_mode]

theorem reserve_scripts (e : Eng Grp) (k : Nat) : (reserve e k).w.scripts = e.w.scripts := by
  unfold reserve; split <;> simp [resize_scripts]

theorem reserve_trace (e : Eng Grp) (k : Nat) : (reserve e k).w.trace = e.w.trace := by
  unfold reserve; split <;> simp [resize_trace]

theorem grow_mode (e : Eng Grp) : (grow e).w.mode = e.w.mode := by
  unfold grow; split <;> simp [reserve_mode]

theorem grow_scripts (e : Eng Grp) : (grow e).w.scripts = e.w.scripts := by
  unfold grow; split <;> simp [reserve_scripts]

theorem grow_trace (e : Eng Grp) : (grow e).w.trace = e.w.trace := by
  unfold grow; split <;> simp [reserve_trace]

theorem insertAt_mode (e : Eng Grp) (c : Nat) (k : Bool) : (insertAt e c k).w.mode = e.w.mode := by
  simp [insertAt]

theorem insertAt_scripts (e : Eng Grp) (c : Nat) (k : Bool) :
    (insertAt e c k).w.scripts = e.w.scripts := by
  simp [insertAt]

theorem insertAt_trace (e : Eng Grp) (c : Nat) (k : Bool) :
    (insertAt e c k).w.trace = .inserted c e.s.next :: e.w.trace := by
  simp [insertAt]

theorem extend_fold_ms (cs : List Nat) (e : Eng Grp) :
    (cs.foldl (fun e c => insertAt (grow e) c false) e).w.mode = e.w.mode ∧
    (cs.foldl (fun e c => insertAt (grow e) c false) e).w.scripts = e.w.scripts := by
  induction cs generalizing e with
  | nil => exact ⟨rfl, rfl⟩
  | cons c cs ih =>
    simp only [List.foldl_cons]
    have := ih (insertAt (grow e) c false)
    rw [insertAt_mode, insertAt_scripts, grow_mode, grow_scripts] at this
    exact this

/-- group operations other than poll / fire / drop leave the mode and the scripts alone -/
theorem step_ms (e : Eng Grp) (op : Op) (h : op.isGroupOp = true) :
    (step e op).w.mode = e.w.mode ∧ (step e op).w.scripts = e.w.scripts := by
  cases op with
  | poll w => simp [Op.isGroupOp] at h
  | fire c a => simp [Op.isGroupOp] at h
  | drop => simp [Op.isGroupOp] at h
  | insert c =>
    simp only [step]; split
    · exact ⟨rfl, rfl⟩
    · simp [insert, insertAt_mode, insertAt_scripts, grow_mode, grow_scripts]
  | remove j =>
    simp only [step]; split
    · exact ⟨rfl, rfl⟩
    · unfold remove; split
      · exact ⟨rfl, rfl⟩
      · split <;> simp
  | reserve k =>
    simp only [step]; split
    · exact ⟨rfl, rfl⟩
    · exact ⟨reserve_mode e k, reserve_scripts e k⟩
  | extend cs =>
    simp only [step]; split
    · exact ⟨rfl, rfl⟩
    · unfold extend
      have := extend_fold_ms cs (reserve e cs.length)
      rw [reserve_mode, reserve_scripts] at this
      exact this
  | qLen => simp only [step]; split <;> simp [query]
  | qIsEmpty => simp only [step]; split <;> simp [query]
  | qContains j =>
    simp only [step]; split
    · exact ⟨rfl, rfl⟩
    · split <;> simp [query]
  | qCapacity => simp only [step]; split <;> simp [query]

end GEng

namespace Sim
variable {m : Mode} {K : Nat → Res → Prop} {I : Grp → List Ev → Prop}
  {J : Grp → List Ev → List Nat → Prop}

/-- every reachable state of a group: `S` covers poll / fire / drop, `hops` the group's own
    operations (stated directly on the engine state; their effect on the trace is a few `emit`s) -/
theorem runGrp (S : Sim group m K I J)
    (hops : ∀ (e : Eng Grp) (op : Op), op.isGroupOp = true → I e.s e.w.trace →
      I (GEng.step e op).s (GEng.step e op).w.trace)
    (ops : List Op) (e : Eng Grp) (hm : e.w.mode = m) (hk : ScriptsOk K e.w)
    (h : I e.s e.w.trace) :
    I (ops.foldl GEng.step e).s (ops.foldl GEng.step e).w.trace := by
  induction ops generalizing e with
  | nil => exact h
  | cons op ops ih =>
    simp only [List.foldl_cons]
    by_cases hg : op.isGroupOp = true
    · have hms := GEng.step_ms e op hg
      exact ih _ (by rw [hms.1]; exact hm) (hk.of_scripts hms.2) (hops e op hg h)
    · cases op with
      | poll w =>
        exact ih _ (pollT S e w hm hk h).1 (pollT S e w hm hk h).2.1 (pollT S e w hm hk h).2.2
      | fire c a =>
        exact ih _ (fireT S e c a hm hk h).1 (fireT S e c a hm hk h).2.1 (fireT S e c a hm hk h).2.2
      | drop => exact ih _ (dropT S e hm hk h).1 (dropT S e hm hk h).2.1 (dropT S e hm hk h).2.2
      | _ => simp [Op.isGroupOp] at hg

end Sim
end Fc
