/-
  FcLemmas/LiveGStuckLoop.lean — the weakened liveness invariants of the groups (members that never
  complete allowed) across the poll skeleton of the `group` policy: one loop iteration
  (`pjs_visit`), the loop (`pjs_scan`), one top-level poll (`pjs_poll`, every outcome).  Same
  structure as FcLemmas/LiveGLoop.lean; the structural facts come from `G.CI`.
-/
import FcLemmas.LiveGStuckObs
set_option linter.unusedSimpArgs false
set_option linter.unusedVariables false

namespace Fc
namespace LiveGStuck
open Mon Live Live3 G Grp LiveG

/-- inside a poll; `V` = slots already scanned -/
structure PJS (stream : Bool) (sc0 : Nat → List Step) (len0 : Nat → Nat) (t0 : List Ev) (e : Eng Grp)
    (V : Nat → Prop) : Prop where
  wg : WGS stream sc0 e.s.member e.w
  pb : PBS len0 t0 e.w
  ib : IBG e.s.member e.w V
  dead : e.s.dead = false

variable {stream : Bool} {sc0 : Nat → List Step} {len0 : Nat → Nat} {t0 : List Ev} {n : Nat}

/-- one loop iteration -/
theorem pjs_visit (e : Eng Grp) (k : Nat) (ord : List Nat) (V : Nat → Prop) (hc : CI n e ord)
    (h : PJS stream sc0 len0 t0 e V) :
    ((Eng.visit group e k).2 = none →
        PJS stream sc0 len0 t0 (Eng.visit group e k).1 (fun j => V j ∨ j = k)) ∧
    (∀ o, (Eng.visit group e k).2 = some o →
        PJS stream sc0 len0 t0 (Eng.visit group e k).1 (fun _ => False) ∧ (∃ key vs, o = .some key vs) ∧
        ∃ c, polledSince (Eng.visit group e k).1.w.trace c = true ∧
          ((Eng.visit group e k).1.w.scripts c).length < len0 c) := by
  refine Eng.visit_ind group e k
    (fun r => (r.2 = none → PJS stream sc0 len0 t0 r.1 (fun j => V j ∨ j = k)) ∧
      (∀ o, r.2 = some o → PJS stream sc0 len0 t0 r.1 (fun _ => False) ∧ (∃ key vs, o = .some key vs) ∧
        ∃ c, polledSince r.1.w.trace c = true ∧ (r.1.w.scripts c).length < len0 c)) ?_ ?_ ?_ ?_
  · intro hl _; rw [group_loopAny] at hl; exact Bool.noConfusion hl
  · -- skipped
    intro _ hg
    refine ⟨fun _ => ?_, fun o ho => by simp at ho⟩
    rw [gateGo_eq] at hg
    rw [gateW_eq]
    by_cases hel : e.s.st k = .pending
    · simp only [hel, if_true]
      have hb : e.w.isSet k = false := by simpa [hel] using hg
      rw [isSet_false_clearReady _ _ hb]
      refine ⟨h.wg, h.pb, ⟨h.ib.a, ?_⟩, h.dead⟩
      intro k' c hv hm
      rcases hv with hv | hv
      · exact h.ib.v k' c hv hm
      · subst hv
        refine act_not_needy (h.wg.mem k' c hm).2.1 ?_
        intro hn
        have := h.ib.a k' c hm hn
        rw [hb] at this; exact Bool.noConfusion this
    · simp only [hel, if_false]
      have hv : e.s.member k = none := by
        cases hm : e.s.member k with
        | none => rfl
        | some c => exact absurd ((hc.slab.stm k).mpr (by rw [hm]; simp)) hel
      refine ⟨h.wg, h.pb, ⟨h.ib.a, ?_⟩, h.dead⟩
      intro k' c hvv hm
      rcases hvv with hvv | hvv
      · exact h.ib.v k' c hvv hm
      · subst hvv; rw [hv] at hm; cases hm
  · -- neither a well-behaved nor a never-completing member panics
    intro _ hg hp
    have hel := elig_of_go hg
    obtain ⟨c, hmk⟩ := member_of_elig hc.slab k hel
    have hcc : group.child e.s k = c := by rw [group_child, hmk]; rfl
    rw [hcc] at hp
    exact absurd hp (wgs_pollChild e.w c k hmk (fun k' hk' => hc.link.inj hk' hmk) h.wg).1
  · -- the member was polled and its result handled
    intro _ hg hp
    have hel := elig_of_go hg
    obtain ⟨c, hmk⟩ := member_of_elig hc.slab k hel
    have hcc : group.child e.s k = c := by rw [group_child, hmk]; rfl
    rw [hcc] at hp ⊢
    have hinj : ∀ k', e.s.member k' = some c → k' = k := fun k' hk' => hc.link.inj hk' hmk
    have hgw : Eng.gateW group e k = e.w.clearReady k := by rw [gateW_eq]; simp [hel]
    rw [hgw]
    have hgd : (e.s.member k).getD 0 = c := by rw [hmk]; rfl
    -- the world with the bit of slot `k` cleared
    have hwg0 : WGS stream sc0 e.s.member (e.w.clearReady k) :=
      wgs_congr (by simp) (by simp) (by simp) h.wg
    have hpb0 : PBS len0 t0 (e.w.clearReady k) := pbs_congr (by simp) (by simp) h.pb
    have hP := wgs_pollChild (e.w.clearReady k) c k hmk hinj hwg0
    have hkey : keyOf (e.w.clearReady k).trace c ≠ none := by
      simp only [World.clearReady_trace]; rw [hc.link.f1 k c hmk]; simp
    have hpb1 := pbs_pollChild (e.w.clearReady k) c k hkey hpb0
    have hoth := ibg_polled_other e.w c k hmk hinj h.ib
    have hps1 : polledSince ((e.w.clearReady k).pollChild c k).trace c = true :=
      wokeSince_pollChild_polled _ c k
    have hlr1 : lastRes ((e.w.clearReady k).pollChild c k).trace c = some (e.w.resOf c) := by
      rw [C16.lastRes_pollChild]; simp [World.resOf, World.stepOf]
    have hres0 : (e.w.clearReady k).resOf c = e.w.resOf c := by simp [World.resOf, World.stepOf]
    rw [hres0] at hP
    have hsc1 : ((e.w.clearReady k).pollChild c k).scripts c = (e.w.scripts c).tail := by
      rw [pollChild_scripts]; simp
    have hsc0' : (e.w.clearReady k).scripts c = e.w.scripts c := by simp
    rw [hsc0'] at hP
    -- a member that did not answer `Pending` has consumed a step
    have hlt1 : e.w.resOf c ≠ .pend →
        (((e.w.clearReady k).pollChild c k).scripts c).length < len0 c := by
      intro hnp
      have hne : e.w.scripts c ≠ [] := fun hh => hnp (LiveStuck.resOf_nil e.w c hh)
      have h0 : len0 c ≠ 0 := by
        have := h.pb.le c
        have := length_pos_of_ne_nil'' _ hne
        omega
      exact (hpb1.ps c hps1).2 h0
    have hsub : ∀ k' c', upd e.s.member k none k' = some c' → k' ≠ k ∧ e.s.member k' = some c' := by
      intro k' c' hh
      by_cases hkk : k' = k
      · subst hkk; simp at hh
      · exact ⟨hkk, by rwa [upd_other _ _ _ _ hkk] at hh⟩
    have hnm : ∀ k', upd e.s.member k none k' ≠ some c := by
      intro k' hh
      obtain ⟨h1, h2⟩ := hsub k' c hh
      exact h1 (hinj k' h2)
    have hevs : ∀ ev ∈ [Ev.childDropped c], isOwnEv ev = true := by simp [isOwnEv]
    -- the member left the group (it resolved / its stream ended)
    have hleft : (e.w.scripts c).tail = [] → wbScript stream (sc0 c) = true → ∀ (V' : Nat → Prop),
        WGS stream sc0 (upd e.s.member k none)
          (((e.w.clearReady k).pollChild c k).emits [.childDropped c]) ∧
        PBS len0 t0 (((e.w.clearReady k).pollChild c k).emits [.childDropped c]) ∧
        IBG (upd e.s.member k none) (((e.w.clearReady k).pollChild c k).emits [.childDropped c])
          (fun j => (V j ∧ V' j) ∨ j = k) := by
      intro htl hwb V'
      refine ⟨wgs_dropped _ c hnm (by rw [hsc1]; exact htl) hwb hP.2.2.1,
        pbs_dropped _ c hps1 hpb1, ?_, ?_⟩
      · intro k' c' hk' hn
        obtain ⟨h1, h2⟩ := hsub k' c' hk'
        rw [World.isSet_emits]
        rw [C16.lastRes_emits_own _ _ hevs] at hn
        exact (hoth k' c' h1 h2).1 hn
      · intro k' c' hv hk'
        obtain ⟨h1, h2⟩ := hsub k' c' hk'
        rw [C16.lastRes_emits_own _ _ hevs]
        rcases hv with hv | hv
        · exact (hoth k' c' h1 h2).2 hv.1
        · exact absurd hv h1
    generalize hr : e.w.resOf c = r at hp hP hlr1 hlt1 ⊢
    cases r with
    | panic => exact absurd rfl hp
    | pend =>
      rw [handle_pend]
      refine ⟨fun _ => ?_, fun o ho => by simp at ho⟩
      simp only [Eng.applyH_w, Eng.applyH_s, World.emits_nil, World.kop]
      refine ⟨hP.2.1 (Or.inl rfl), hpb1, ⟨?_, ?_⟩, h.dead⟩
      · intro k' c' hk' hn
        simp only [Eng.applyH_w, Eng.applyH_s, World.emits_nil, World.kop] at hk' hn ⊢
        by_cases hkk : k' = k
        · subst hkk
          rw [hmk] at hk'; cases hk'
          rw [hlr1] at hn; exact absurd hn needy_pend
        · exact (hoth k' c' hkk hk').1 hn
      · intro k' c' hv hk'
        simp only [Eng.applyH_w, Eng.applyH_s, World.emits_nil, World.kop] at hk' ⊢
        by_cases hkk : k' = k
        · subst hkk
          rw [hmk] at hk'; cases hk'
          exact hlr1
        · rcases hv with hv | hv
          · exact (hoth k' c' hkk hk').2 hv
          · exact absurd hv hkk
    | ready ok v =>
      rw [handle_ready, hgd]
      refine ⟨fun hn => by simp at hn, fun o ho => ?_⟩
      simp only [Option.some.injEq] at ho
      subst ho
      obtain ⟨htl, hwb⟩ := hP.2.2.2 (Or.inr ⟨ok, v, rfl⟩)
      obtain ⟨h1, h2, h3⟩ := hleft htl hwb (fun _ => False)
      refine ⟨⟨?_, ?_, ?_, by simpa using h.dead⟩, ⟨_, _, rfl⟩, c, ?_, ?_⟩
      · simpa [World.kop] using h1
      · simpa [World.kop] using h2
      · simp only [Eng.applyH_w, Eng.applyH_s, World.kop, remSt_member]
        exact ibg_mono (fun _ hk => hk.elim) h3
      · simp only [Eng.applyH_w, World.kop]
        rw [polledSince_emits_own _ _ hevs]; exact hps1
      · simp only [Eng.applyH_w, World.kop, emits_scripts]
        exact hlt1 (by simp)
    | item v =>
      rw [handle_item]
      refine ⟨fun hn => by simp at hn, fun o ho => ?_⟩
      simp only [Option.some.injEq] at ho
      subst ho
      have hwg1 := hP.2.1 (Or.inr ⟨v, rfl⟩)
      refine ⟨⟨?_, ?_, ⟨?_, fun _ _ hv => hv.elim⟩, by simpa using h.dead⟩, ⟨_, _, rfl⟩, c, ?_, ?_⟩
      · simp only [Eng.applyH_w, Eng.applyH_s, World.emits_nil, World.kop, flush_member]
        exact wgs_congr (by simp) (by simp) (by simp) hwg1
      · simp only [Eng.applyH_w, World.emits_nil, World.kop]
        exact pbs_congr (by simp) (by simp) hpb1
      · simp only [Eng.applyH_w, Eng.applyH_s, World.emits_nil, World.kop, flush_member,
          World.setReady_trace]
        intro k' c' hk' hn
        by_cases hkk : k' = k
        · subst hkk; exact isSet_arm_self _ _
        · exact World.isSet_setReady_mono _ _ _ ((hoth k' c' hkk hk').1 hn)
      · simp only [Eng.applyH_w, World.emits_nil, World.kop, World.setReady_trace]
        exact hps1
      · simp only [Eng.applyH_w, World.emits_nil, World.kop, World.setReady_scripts]
        exact hlt1 (by simp)
    | fin =>
      rw [handle_fin, hgd]
      refine ⟨fun _ => ?_, fun o ho => by simp at ho⟩
      obtain ⟨htl, hwb⟩ := hP.2.2.2 (Or.inl rfl)
      obtain ⟨h1, h2, h3⟩ := hleft htl hwb (fun _ => True)
      refine ⟨?_, ?_, ?_, by simpa using h.dead⟩
      · simpa [World.kop] using h1
      · simpa [World.kop] using h2
      · simp only [Eng.applyH_w, Eng.applyH_s, World.kop, finSt_member]
        refine ibg_mono ?_ h3
        intro j hj
        rcases hj with hj | hj
        · exact Or.inl ⟨hj, trivial⟩
        · exact Or.inr hj

/-- the loop -/
theorem pjs_scan (ord : List Nat) : ∀ (l : List Nat) (e : Eng Grp) (V : Nat → Prop),
    CI n e ord → PJS stream sc0 len0 t0 e V →
    ((Eng.scan group l e).2 = none →
        PJS stream sc0 len0 t0 (Eng.scan group l e).1 (fun j => V j ∨ j ∈ l)) ∧
    (∀ o, (Eng.scan group l e).2 = some o →
        PJS stream sc0 len0 t0 (Eng.scan group l e).1 (fun _ => False) ∧ (∃ key vs, o = .some key vs) ∧
        ∃ c, polledSince (Eng.scan group l e).1.w.trace c = true ∧
          ((Eng.scan group l e).1.w.scripts c).length < len0 c) := by
  intro l
  induction l with
  | nil =>
    intro e V _ h
    exact ⟨fun _ => ⟨h.wg, h.pb, ibg_mono (fun k hk => by simpa using hk) h.ib, h.dead⟩,
      fun o ho => by simp [Eng.scan] at ho⟩
  | cons i rest ih =>
    intro e V hc h
    have hv1 := ci_visit e i ord hc h.dead
    have hv2 := pjs_visit (stream := stream) (sc0 := sc0) (len0 := len0) (t0 := t0) e i ord V hc h
    unfold Eng.scan
    cases hvis : (Eng.visit group e i).2 with
    | some o =>
      simp only
      exact ⟨fun hn => by simp at hn, fun o' ho' => by
        simp only [Option.some.injEq] at ho'; subst ho'; exact hv2.2 o hvis⟩
    | none =>
      simp only
      have := ih (Eng.visit group e i).1 (fun j => V j ∨ j = i) (hv1.1 hvis).1 (hv2.1 hvis)
      refine ⟨fun hs => ?_, this.2⟩
      have h' := this.1 hs
      refine ⟨h'.wg, h'.pb, ibg_mono ?_ h'.ib, h'.dead⟩
      intro j hj
      simp only [List.mem_cons] at hj
      rcases hj with hj | hj | hj
      · exact Or.inl (Or.inl hj)
      · exact Or.inl (Or.inr hj)
      · exact Or.inr hj

/-! ### one top-level poll -/

/-- what is known right after a top-level poll, whatever it returned -/
structure PES (stream : Bool) (sc0 : Nat → List Step) (len0 : Nat → Nat) (t0 : List Ev) (e : Eng Grp) :
    Prop where
  wg : WGS stream sc0 e.s.member e.w
  a : ∀ k c, e.s.member k = some c → Needy (lastRes e.w.trace c) → e.w.isSet k = true
  dead : e.s.dead = false
  le : ∀ c, (e.w.scripts c).length ≤ len0 c
  ps : ∀ c, polledSince e.w.trace c = true →
    keyOf e.w.trace c ≠ none ∧ (len0 c ≠ 0 → (e.w.scripts c).length < len0 c)
  wk : wokeSince e.w.trace = true →
    ∃ c, polledSince e.w.trace c = true ∧ (e.w.scripts c).length < len0 c
  ab : atPollBegin e.w.trace = t0
  gp : ∀ c, gone e.w.trace c = true → gone t0 c = true ∨ polledSince e.w.trace c = true
  al : alive e.w.trace = true
  shape : ∃ o t, e.w.trace = .pollEnd o :: t ∧ (o = .none ∨ o = .pending ∨ ∃ key vs, o = .some key vs)
  pa : lastOut e.w.trace = some .pending →
    ∀ k c, e.s.member k = some c → lastRes e.w.trace c = some .pend
  sm : ∀ key vs, lastOut e.w.trace = some (.some key vs) →
    ∃ c, polledSince e.w.trace c = true ∧ (e.w.scripts c).length < len0 c

theorem pes_of_pj {e : Eng Grp} {V : Nat → Prop} (h : PJS stream sc0 len0 t0 e V) (o : Outcome)
    (ho : o = .none ∨ o = .pending ∨ ∃ key vs, o = .some key vs)
    (hpa : o = .pending → ∀ k c, e.s.member k = some c → lastRes e.w.trace c = some .pend)
    (hsm : ∀ key vs, o = .some key vs →
      ∃ c, polledSince e.w.trace c = true ∧ (e.w.scripts c).length < len0 c) :
    PES stream sc0 len0 t0 (e.emit (.pollEnd o)) := by
  refine ⟨wgs_emit _ rfl h.wg, ?_, h.dead, h.pb.le, ?_, ?_, ?_, ?_, ?_, ⟨o, e.w.trace, rfl, ho⟩, ?_, ?_⟩
  · intro k c hk hn
    exact h.ib.a k c hk (by simpa [lastRes] using hn)
  · intro c hc; simpa [polledSince, keyOf] using h.pb.ps c (by simpa [polledSince] using hc)
  · intro hw
    obtain ⟨c, hc, hl⟩ := h.pb.wk (by simpa [wokeSince] using hw)
    exact ⟨c, by simpa [polledSince] using hc, hl⟩
  · simpa [atPollBegin] using h.pb.ab
  · intro c hc
    simpa [polledSince] using h.pb.gp c (by simpa [gone] using hc)
  · simpa [alive] using h.pb.al
  · intro hlo k c hk
    simp only [Eng.emit_w, World.emit_trace, lastOut, Option.some.injEq] at hlo
    simpa [lastRes] using hpa hlo k c hk
  · intro key vs hlo
    simp only [Eng.emit_w, World.emit_trace, lastOut, Option.some.injEq] at hlo
    obtain ⟨c, hc, hl⟩ := hsm key vs hlo
    exact ⟨c, by simpa [polledSince] using hc, hl⟩

/-- one top-level poll -/
theorem pjs_poll (e : Eng Grp) (wid : Nat)
    (hci : CI n { w := (e.w.emit (.pollBegin wid)).setWaker wid, s := group.start e.s }
      (group.order e.s))
    (hwg : WGS stream sc0 e.s.member e.w)
    (hib : ∀ k c, e.s.member k = some c → Needy (lastRes e.w.trace c) → e.w.isSet k = true)
    (hd : e.s.dead = false) (hal : alive e.w.trace = true)
    (hnr : e.w.anyReady = false → ∀ k, e.w.isSet k = false) :
    PES stream sc0 (fun c => (e.w.scripts c).length) e.w.trace (Eng.poll group e wid) := by
  -- the state right after `pollBegin` + `set_waker`
  have h0 : PJS stream sc0 (fun c => (e.w.scripts c).length) e.w.trace
      { w := (e.w.emit (.pollBegin wid)).setWaker wid, s := group.start e.s } (fun _ => False) := by
    refine ⟨wgs_congr (w := e.w.emit (.pollBegin wid)) rfl rfl rfl (wgs_emit _ rfl hwg),
      pbs_begin e.w wid hal, ⟨?_, fun _ _ hv => hv.elim⟩, hd⟩
    intro k c hk hn
    exact hib k c hk (by simpa [lastRes] using hn)
  unfold Eng.poll
  split
  · rename_i o ho
    -- decided before `set_waker`: the group is empty
    have hon : o = .none := by
      rw [pre_eq, hd] at ho
      simp only [Bool.false_eq_true, if_false] at ho
      split at ho
      · simp only [Option.some.injEq] at ho; exact ho.symm
      · cases ho
    have h0' : PJS stream sc0 (fun c => (e.w.scripts c).length) e.w.trace (e.emit (.pollBegin wid))
        (fun _ => False) :=
      ⟨wgs_congr (w := (e.w.emit (.pollBegin wid)).setWaker wid) rfl rfl rfl h0.wg,
        pbs_congr (w := (e.w.emit (.pollBegin wid)).setWaker wid) rfl rfl h0.pb,
        ⟨fun k c hk hn => h0.ib.a k c hk hn, fun _ _ hv => hv.elim⟩, hd⟩
    subst hon
    exact pes_of_pj h0' .none (Or.inl rfl) (fun hh => by cases hh) (fun _ _ hh => by cases hh)
  · rename_i hpre
    unfold Eng.body
    split
    · -- `!any_ready`: no bit is set, every member is waiting
      rename_i hcnd
      have hany : e.w.anyReady = false := by
        simp only [group_preAny, Bool.true_and, Bool.not_eq_true'] at hcnd
        exact hcnd
      refine pes_of_pj h0 .pending (Or.inr (Or.inl rfl)) (fun _ k c hk => ?_)
        (fun key vs hh => by cases hh)
      refine act_not_needy (h0.wg.mem k c hk).2.1 ?_
      intro hn
      have := h0.ib.a k c hk hn
      have h2 := hnr hany k
      simp only [World.isSet_setWaker, World.isSet_emit] at this
      rw [h2] at this; exact Bool.noConfusion this
    · have hs1 := ci_scan (group.order e.s) (group.order e.s) _ hci hd
      have hs2 := pjs_scan (stream := stream) (sc0 := sc0) (len0 := fun c => (e.w.scripts c).length)
        (t0 := e.w.trace) (group.order e.s) (group.order e.s)
        { w := (e.w.emit (.pollBegin wid)).setWaker wid, s := group.start e.s } (fun _ => False) hci h0
      unfold Eng.close
      split
      · rename_i o ho
        obtain ⟨hpj, ⟨key, vs, hkv⟩, c, hc⟩ := hs2.2 o ho
        subst hkv
        exact pes_of_pj hpj _ (Or.inr (Or.inr ⟨key, vs, rfl⟩)) (fun hh => by cases hh)
          (fun _ _ _ => ⟨c, hc⟩)
      · rename_i hn
        obtain ⟨hcie, _⟩ := hs1.1 hn
        have hpj := hs2.1 hn
        rw [finish_eq]
        simp only [Option.getD_some]
        have hpj' : PJS stream sc0 (fun c => (e.w.scripts c).length) e.w.trace
            ((Eng.scan group (group.order e.s)
              { w := (e.w.emit (.pollBegin wid)).setWaker wid, s := group.start e.s }).1.applyH
              { s := (Eng.scan group (group.order e.s)
                  { w := (e.w.emit (.pollBegin wid)).setWaker wid,
                    s := group.start e.s }).1.s.flushQueue,
                evs := [], kop := .nop,
                exit := some (if (Eng.scan group (group.order e.s)
                    { w := (e.w.emit (.pollBegin wid)).setWaker wid,
                      s := group.start e.s }).1.s.stream &&
                  (Eng.scan group (group.order e.s)
                    { w := (e.w.emit (.pollBegin wid)).setWaker wid,
                      s := group.start e.s }).1.s.doneCnt =
                  (Eng.scan group (group.order e.s)
                    { w := (e.w.emit (.pollBegin wid)).setWaker wid,
                      s := group.start e.s }).1.s.total then Outcome.none else Outcome.pending) })
            (fun j => False ∨ j ∈ group.order e.s) := by
          refine ⟨?_, ?_, ?_, by simpa using hpj.dead⟩
          · simpa [World.kop] using hpj.wg
          · simpa [World.kop] using hpj.pb
          · simpa [World.kop] using hpj.ib
        refine pes_of_pj hpj' _ ?_ (fun _ k c hk => ?_) (fun key vs hh => ?_)
        · split
          · exact Or.inl rfl
          · exact Or.inr (Or.inl rfl)
        · simp only [Eng.applyH_s, flush_member] at hk
          refine hpj'.ib.v k c (Or.inr (hcie.cov k (by rw [hk]; simp))) ?_
          simpa using hk
        · split at hh <;> cases hh

end LiveGStuck
end Fc
