/-
  FcLemmas/GOwnInst.lean — the `SimL` instance of the group invariant (`GI` / `GJ`,
  FcLemmas/GOwnSim.lean) for the `group` policy: poll, wake-ups, drop.
-/
import FcLemmas.GOwnSim
set_option linter.unusedSimpArgs false
set_option linter.unusedVariables false

namespace Fc
namespace GOwn
open Mon Grp

/-- after polling live member `c` (key `i`) with an answer that neither finishes nor releases it -/
theorem obs_keep {str : Bool} {F : Nat → Prop} {s : Grp} {t : List Ev} {l0 : List Nat}
    (hJ : GJ str F s t l0) {i c : Nat} (wk : Wk) (l : List Ev) (r : Res)
    (hl : ∀ e ∈ l, isFireEv e = true) (hr : C03.finishing r = false) :
    Obs s (pollSeg c i wk l r [] t) :=
  hJ.sa.same rfl rfl rfl rfl rfl rfl rfl
    (fun x => keyOf_pollSeg c i wk l r [] t x hl own_nil)
    (fun x => by rw [dcnt_pollSeg c i wk l r [] t x hl]; simp [droppedChildren])
    (fun x hx => by
      rw [C03.finished_pollSeg c i wk l r [] t x hl own_nil]
      split
      · exact hr
      · exact hx)

/-- after polling live member `c` (key `i`) with an answer that finishes it: it is released -/
theorem obs_release {str : Bool} {F : Nat → Prop} {s s' : Grp} {t : List Ev} {l0 : List Nat}
    (hJ : GJ str F s t l0) {i c : Nat} (hc : s.member i = some c) (wk : Wk) (l : List Ev) (r : Res)
    (hl : ∀ e ∈ l, isFireEv e = true)
    (hm : s'.member = upd s.member i none) (hv : s'.vac = upd s.vac i s.next) (hn : s'.next = i)
    (he : s'.entries = s.entries) (hst : s'.st = upd s.st i .none)
    (hK : (s'.keys = s.keys.filter (· ≠ i) ∧ s'.queue = s.queue) ∨
          (s'.keys = s.keys ∧ s'.queue = s.queue ++ [i])) :
    Obs s' (pollSeg c i wk l r [.childDropped c] t) :=
  hJ.sa.release hc hm hv hn he hst hK
    (fun x => keyOf_pollSeg c i wk l r _ t x hl (own_one c))
    (fun x => by rw [dcnt_pollSeg c i wk l r _ t x hl, dcnt_one, Nat.add_comm])
    (fun x hxc hx => by
      rw [C03.finished_pollSeg c i wk l r _ t x hl (own_one c)]
      have : ¬ c = x := fun h => hxc h.symm
      simp [this, hx])

theorem sim_group (str : Bool) (F : Nat → Prop) (m : Mode) :
    SimL group m (KG str) (GI F) (GJ str F) where
  noLoopAny := rfl
  fireEv := by
    intro s t e he ⟨np, h⟩
    exact ⟨by rw [inPoll_fireEv e t he]; exact np, h.quiet e (fire_quiet e he) (fire_evRet e he)⟩
  pre := by
    intro s t w o hpre ⟨np, h⟩
    have ho : quietEv (.pollEnd o) = true ∧ evRet (.pollEnd o) = [] := by
      simp only [group] at hpre
      split at hpre
      · cases hpre; exact ⟨rfl, rfl⟩
      · split at hpre
        · cases hpre; exact ⟨rfl, rfl⟩
        · cases hpre
    exact ⟨rfl, (h.quiet (.pollBegin w) rfl rfl).quiet _ ho.1 ho.2⟩
  start := by
    intro s t w hpre ⟨np, h⟩
    have hd : s.dead = false := by
      cases hdd : s.dead
      · rfl
      · simp [group, hdd] at hpre
    have p := h.pre (h.nd0 hd)
    exact
      { c03 := by rw [c03_quiet (.pollBegin w) t rfl]; exact h.c03
        ip := rfl
        fs := by rw [fs_quiet (.pollBegin w) t rfl]; exact h.fs
        fresh := fun c hc => by rw [keyOf_quiet (.pollBegin w) t rfl]; exact h.fresh c hc
        nd0 := by rw [nd_quiet (.pollBegin w) t rfl]; exact h.nd0 hd
        al := by rw [alive_quiet (.pollBegin w) t rfl]; exact p.al
        live := hd
        sa := (p.sa.quiet (.pollBegin w) rfl).same rfl rfl rfl rfl rfl rfl rfl (fun _ => rfl)
          (fun _ => rfl) (fun _ hx => hx)
        q := fun _ => p.q hd
        acc := p.acc.quiet (.pollBegin w) rfl rfl }
  early := by
    intro s t w _ hpre ⟨np, h⟩
    exact ⟨rfl, ((h.quiet (.pollBegin w) rfl rfl).quiet (.pollEnd .pending) rfl rfl).same
      rfl rfl rfl rfl rfl rfl rfl rfl⟩
  skip := fun s t i rest _ hJ => hJ.relist rest
  goOn := by
    intro s t i rest wk l r hJ hel hr hK hl hex
    obtain ⟨c, hc, hch⟩ := elig_member hJ.sa hel
    rw [hch]
    cases r with
    | pend =>
      have hb := seg_basic hJ hc wk l .pend [] hl own_nil
      show GJ str F s (pollSeg c i wk l .pend [] t) rest
      exact
        { c03 := hb.c03, ip := hb.ip, fs := hb.fs, fresh := hb.fresh, nd0 := hb.nd0, al := hb.al
          live := hJ.live
          sa := obs_keep hJ wk l .pend hl rfl
          q := hJ.q
          acc := fun v => by
            simpa using acc_pollSeg hJ.acc c i wk l .pend [] hl own_nil rfl [] (by simp [C02b.rvals]) v }
    | fin =>
      have hevs : (group.handle s i .fin).evs = [.childDropped c] := by simp [group, hc]
      rw [hevs]
      have hb := seg_basic hJ hc wk l .fin [.childDropped c] hl (own_one c)
      have hstr : str = true := by cases str <;> simp_all [KG, Res.fits]
      exact
        { c03 := hb.c03, ip := hb.ip, fs := hb.fs, fresh := hb.fresh, nd0 := hb.nd0, al := hb.al
          live := hJ.live
          sa := obs_release hJ hc wk l .fin hl rfl rfl rfl rfl rfl (Or.inr ⟨rfl, rfl⟩)
          q := fun h => by rw [hstr] at h; cases h
          acc := fun v => by
            simpa using acc_pollSeg hJ.acc c i wk l .fin [.childDropped c] hl (own_one c) rfl []
              (by simp [C02b.rvals]) v }
    | ready ok v => simp [group] at hex
    | item v => simp [group] at hex
    | panic => exact absurd rfl hr
  goExit := by
    intro s t i rest wk l r o hJ hel hr hK hl hex
    obtain ⟨c, hc, hch⟩ := elig_member hJ.sa hel
    rw [hch]
    cases r with
    | pend => simp [group] at hex
    | fin => simp [group] at hex
    | panic => exact absurd rfl hr
    | ready ok v =>
      have hevs : (group.handle s i (.ready ok v)).evs = [.childDropped c] := by simp [group, hc]
      rw [hevs]
      have ho : o = .some (s.outKey i) [v] := by
        simp only [group, Option.some.injEq] at hex
        exact hex.symm
      subst ho
      have hb := seg_basic hJ hc wk l (.ready ok v) [.childDropped c] hl (own_one c)
      have hstr : str = false := by cases str <;> simp_all [KG, Res.fits]
      have hq : quietEv (.pollEnd (.some (s.outKey i) [v])) = true := rfl
      refine ⟨rfl, GC.ofPre ?_ ?_ ?_ ?_ ⟨?_, ?_, ?_, ?_⟩⟩
      · rw [c03_quiet _ _ hq]; exact hb.c03
      · rw [fs_quiet _ _ hq]; exact hb.fs
      · intro x hx; rw [keyOf_quiet _ _ hq]; exact hb.fresh x hx
      · rw [nd_quiet _ _ hq]; exact hb.nd0
      · rw [alive_quiet _ _ hq]; exact hb.al
      · exact Obs.quiet (obs_release (s' := (group.handle s i (.ready ok v)).s) hJ hc wk l (.ready ok v) hl
          rfl rfl rfl rfl rfl (Or.inl ⟨rfl, rfl⟩)) _ hq
      · intro _; exact hJ.q hstr
      · intro x
        rw [ret_quiet _ _ hq, dv_quiet _ _ hq, prod_quiet _ _ hq]
        exact acc_pollSeg hJ.acc c i wk l (.ready ok v) [.childDropped c] hl (own_one c) rfl [v]
          (by simp [C02b.rvals]) x
    | item v =>
      have ho : o = .some (s.outKey i) [v] := by
        simp only [group, Option.some.injEq] at hex
        exact hex.symm
      subst ho
      have hb := seg_basic hJ hc wk l (.item v) [] hl own_nil
      have hq : quietEv (.pollEnd (.some (s.outKey i) [v])) = true := rfl
      show GI F s.flushQueue (.pollEnd (.some (s.outKey i) [v]) :: pollSeg c i wk l (.item v) [] t)
      refine ⟨rfl, GC.ofPre ?_ ?_ ?_ ?_ ⟨?_, ?_, ?_, ?_⟩⟩
      · rw [c03_quiet _ _ hq]; exact hb.c03
      · rw [fs_quiet _ _ hq]; exact hb.fs
      · intro x hx; rw [keyOf_quiet _ _ hq]; exact hb.fresh x hx
      · rw [nd_quiet _ _ hq]; exact hb.nd0
      · rw [alive_quiet _ _ hq]; exact hb.al
      · exact Obs.quiet (obs_keep (c := c) (i := i) hJ wk l (.item v) hl rfl).flush _ hq
      · intro _; rfl
      · intro x
        rw [ret_quiet _ _ hq, dv_quiet _ _ hq, prod_quiet _ _ hq]
        exact acc_pollSeg hJ.acc c i wk l (.item v) [] hl own_nil rfl [v] (by simp [C02b.rvals]) x
  panic := by
    intro s t i rest wk l hJ hel hl
    obtain ⟨c, hc, hch⟩ := elig_member hJ.sa hel
    rw [hch]
    have hb := seg_basic hJ hc wk l .panic [] hl own_nil
    have hq : quietEv (.pollEnd .panicked) = true := rfl
    show GI F (group.onPanic s) (.pollEnd .panicked :: pollSeg c i wk l .panic [] t)
    refine ⟨rfl, GC.ofPre ?_ ?_ ?_ ?_ ⟨?_, ?_, ?_, ?_⟩⟩
    · rw [c03_quiet _ _ hq]; exact hb.c03
    · rw [fs_quiet _ _ hq]; exact hb.fs
    · intro x hx; rw [keyOf_quiet _ _ hq]; exact hb.fresh x hx
    · rw [nd_quiet _ _ hq]; exact hb.nd0
    · rw [alive_quiet _ _ hq]; exact hb.al
    · exact (Obs.quiet (obs_keep (c := c) (i := i) hJ wk l .panic hl rfl) _ hq).same rfl rfl rfl rfl rfl rfl rfl
        (fun _ => rfl) (fun _ => rfl) (fun _ hx => hx)
    · intro hd; simp [group] at hd
    · intro x
      rw [ret_quiet _ _ hq, dv_quiet _ _ hq, prod_quiet _ _ hq]
      simpa [evRet, C02b.ovals] using
        acc_pollSeg hJ.acc c i wk l .panic [] hl own_nil rfl [] (by simp [C02b.rvals]) x
  finish := by
    intro s t hJ
    have ho : quietEv (.pollEnd ((group.finish s).exit.getD .pending)) = true ∧
        evRet (.pollEnd ((group.finish s).exit.getD .pending)) = [] := by
      simp only [group, Option.getD_some]
      split <;> exact ⟨rfl, rfl⟩
    show GI F s.flushQueue (.pollEnd ((group.finish s).exit.getD .pending) :: t)
    refine ⟨rfl, GC.ofPre ?_ ?_ ?_ ?_ ⟨?_, ?_, ?_, ?_⟩⟩
    · rw [c03_quiet _ _ ho.1]; exact hJ.c03
    · rw [fs_quiet _ _ ho.1]; exact hJ.fs
    · intro x hx; rw [keyOf_quiet _ _ ho.1]; exact hJ.fresh x hx
    · rw [nd_quiet _ _ ho.1]; exact hJ.nd0
    · rw [alive_quiet _ _ ho.1]; exact hJ.al
    · exact Obs.quiet hJ.sa.flush _ ho.1
    · intro _; rfl
    · exact hJ.acc.quiet _ ho.1 ho.2
  drop := by
    intro s t ⟨np, h⟩
    have he : ∀ e ∈ group.dropEvs s, isOwnEv e = true := by
      rw [dropEvs_eq]; exact own_mapDropped _
    have her := C02b.own_rev _ he
    have hnd := C02b.nd_drop (group.dropEvs s) t he
    refine ⟨?_, ?_, ?_, ?_, ?_, ?_, ?_⟩
    · rw [C03.inPoll_inert _ _ rfl, C03.inPoll_seg _ _ (fun e h => C03.own_inert e (her e h))]
      simpa [inPoll] using np
    · rw [C03.holds_notCB _ _ _ rfl, C03.holds_seg _ _ _ (fun e h => C03.own_notCB e (her e h)),
        C03.holds_notCB _ _ _ rfl]
      exact h.c03
    · rw [C03.finalSeen_inert _ _ _ rfl,
        C03.finalSeen_seg _ _ _ (fun e h => C03.own_inert e (her e h))]
      simpa [finalSeen] using h.fs
    · intro c hc
      rw [keyOf_notIns c _ _ rfl, keyOf_seg c _ _ (fun e h => own_notIns e (her e h)),
        keyOf_notIns c _ _ rfl]
      exact h.fresh c hc
    · intro h0; omega
    · intro _; rfl
    · intro h1
      exact post_drop (h.pre (by omega))

end GOwn
end Fc
