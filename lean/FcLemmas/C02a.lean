/-
  FcLemmas/C02a.lean — exactly-once ownership (C02) for the families that keep a per-slot state
  table with stored values (join, try_join, race_ok, zip): counting lemmas, how the C02
  observations see the trace segments the engine appends, the boundary invariant and its generic
  preservation lemmas.  The `Sim` instances are in FcLemmas/C02aSim.lean.
-/
import FcLemmas.Seg
import FcLemmas.C04
import FcLemmas.Lawful2
set_option linter.unusedSimpArgs false
set_option linter.unusedVariables false

namespace Fc
namespace C02
open Mon Fix

/-! ### counting over `(List.range n).filter p |>.map f` -/

def fm (p : Nat → Bool) (f : Nat → Nat) (n : Nat) : List Nat := ((List.range n).filter p).map f

theorem fm_succ (p : Nat → Bool) (f : Nat → Nat) (n : Nat) :
    fm p f (n + 1) = fm p f n ++ (if p n = true then [f n] else []) := by
  unfold fm
  rw [List.range_succ, List.filter_append, List.map_append]
  cases hp : p n <;> simp [hp]

theorem fm_congr (p p' : Nat → Bool) (f f' : Nat → Nat) (n : Nat)
    (hp : ∀ j, j < n → p' j = p j) (hf : ∀ j, j < n → p j = true → f' j = f j) :
    fm p' f' n = fm p f n := by
  induction n with
  | zero => rfl
  | succ k ih =>
    rw [fm_succ, fm_succ, ih (fun j hj => hp j (by omega)) (fun j hj => hf j (by omega)),
      hp k (by omega)]
    cases hpk : p k
    · simp
    · simp [hf k (by omega) hpk]

theorem fm_all (p : Nat → Bool) (f : Nat → Nat) (n : Nat) (h : ∀ j, j < n → p j = true) :
    fm p f n = (List.range n).map f := by
  induction n with
  | zero => rfl
  | succ k ih =>
    rw [fm_succ, ih (fun j hj => h j (by omega)), h k (by omega), List.range_succ, List.map_append]
    simp

theorem fm_none (p : Nat → Bool) (f : Nat → Nat) (n : Nat) (h : ∀ j, j < n → p j = false) :
    fm p f n = [] := by
  induction n with
  | zero => rfl
  | succ k ih =>
    rw [fm_succ, ih (fun j hj => h j (by omega)), h k (by omega)]
    simp

/-- switching slot `i` on, with value `v` -/
theorem fm_count_upd (p p' : Nat → Bool) (f f' : Nat → Nat) (n i v x : Nat) (hi : i < n)
    (hp : p i = false) (hp' : p' i = true) (hpo : ∀ j, j ≠ i → p' j = p j)
    (hf : f' i = v) (hfo : ∀ j, j ≠ i → f' j = f j) :
    (fm p' f' n).count x = (fm p f n).count x + [v].count x := by
  induction n with
  | zero => omega
  | succ k ih =>
    rw [fm_succ, fm_succ, List.count_append, List.count_append]
    by_cases hik : i = k
    · subst hik
      have : fm p' f' i = fm p f i :=
        fm_congr p p' f f' i (fun j hj => hpo j (by omega)) (fun j hj _ => hfo j (by omega))
      rw [this, hp, hp', hf]
      simp
    · have hki : k ≠ i := fun h => hik h.symm
      rw [ih (by omega), hpo k hki, hfo k hki]
      omega

theorem count_range (n i : Nat) : (List.range n).count i = if i < n then 1 else 0 := by
  induction n with
  | zero => simp
  | succ k ih =>
    rw [List.range_succ, List.count_append, ih]
    by_cases hik : i = k
    · subst hik; simp
    · have : ¬ k = i := fun h => hik h.symm
      simp only [List.count_cons, List.count_nil, beq_iff_eq, this, if_false]
      split <;> split <;> omega

theorem count_range_filter (p : Nat → Bool) (n i : Nat) :
    ((List.range n).filter p).count i = if i < n ∧ p i = true then 1 else 0 := by
  induction n with
  | zero => simp
  | succ k ih =>
    rw [List.range_succ, List.filter_append, List.count_append, ih]
    by_cases hik : i = k
    · subst hik
      cases hp : p i <;> simp [hp]
    · have : ¬ k = i := fun h => hik h.symm
      have e : ([k].filter p).count i = 0 := by
        cases hp : p k <;> simp [hp, this]
      rw [e]
      by_cases hpi : p i = true
      · simp only [hpi, and_true]; split <;> split <;> omega
      · simp [hpi]

/-! ### the C02 observations -/

def isDB : Ev → Bool
  | .dropBegin => true
  | _ => false

/-- number of `dropBegin` events -/
def cntDB (t : List Ev) : Nat := countEv isDB t

theorem cntDB_cons (e : Ev) (t : List Ev) : cntDB (e :: t) = (if isDB e = true then 1 else 0) + cntDB t := by
  unfold cntDB countEv
  cases h : isDB e <;> simp [List.filter_cons, h]
  omega

theorem cntDB_append (a b : List Ev) : cntDB (a ++ b) = cntDB a + cntDB b := by
  unfold cntDB countEv
  simp [List.filter_append]

/-- values carried by a child's answer -/
def resVals : Res → List Nat
  | .ready _ v => [v]
  | .item v => [v]
  | _ => []

/-- values carried by a poll's outcome -/
def outVals : Outcome → List Nat
  | .ready _ vs => vs
  | .some _ vs => vs
  | _ => []

theorem pv_childEnd (c : Nat) (r : Res) (t : List Ev) :
    producedVals (.childEnd c r :: t) = resVals r ++ producedVals t := by
  cases r <;> rfl

theorem rv_pollEnd (o : Outcome) (t : List Ev) :
    returnedVals (.pollEnd o :: t) = outVals o ++ returnedVals t := by
  cases o <;> rfl

theorem dcm_cons (e : Ev) (t : List Ev) :
    dropCompleted (e :: t) = (e == .dropEnd || dropCompleted t) := by
  simp [dropCompleted]

/-- events the C02 accounting does not look at -/
def nvRes : Res → Bool
  | .ready _ _ | .item _ => false
  | _ => true
def nvOut : Outcome → Bool
  | .ready _ _ | .some _ _ => false
  | _ => true
def nv : Ev → Bool
  | .childEnd _ r => nvRes r
  | .pollEnd o => nvOut o
  | .childDropped _ | .valDropped _ | .dropEnd | .dropBegin => false
  | _ => true

theorem nv_fire (e : Ev) (h : isFireEv e = true) : nv e = true := by
  cases e <;> simp_all [isFireEv, nv]

/-- two traces the C02 accounting cannot tell apart -/
structure Same (t' t : List Ev) : Prop where
  dcm : dropCompleted t' = dropCompleted t
  dc : droppedChildren t' = droppedChildren t
  rv : returnedVals t' = returnedVals t
  dv : droppedVals t' = droppedVals t
  pv : producedVals t' = producedVals t
  db : cntDB t' = cntDB t
  q : quietAfterDrop t' = quietAfterDrop t

theorem Same.refl (t : List Ev) : Same t t := ⟨rfl, rfl, rfl, rfl, rfl, rfl, rfl⟩

theorem Same.trans {a b c : List Ev} (h1 : Same a b) (h2 : Same b c) : Same a c :=
  ⟨h1.dcm.trans h2.dcm, h1.dc.trans h2.dc, h1.rv.trans h2.rv, h1.dv.trans h2.dv,
    h1.pv.trans h2.pv, h1.db.trans h2.db, h1.q.trans h2.q⟩

theorem Same.of_nv (e : Ev) (t : List Ev) (h : nv e = true) : Same (e :: t) t := by
  refine ⟨?_, ?_, ?_, ?_, ?_, ?_, ?_⟩
  · rw [dcm_cons]; cases e <;> simp_all [nv]
  · cases e <;> simp_all [nv, droppedChildren]
  · cases e with
    | pollEnd o => cases o <;> simp_all [nv, nvOut, returnedVals]
    | _ => simp_all [nv, returnedVals]
  · cases e <;> simp_all [nv, droppedVals]
  · cases e with
    | childEnd c r => cases r <;> simp_all [nv, nvRes, producedVals]
    | _ => simp_all [nv, producedVals]
  · rw [cntDB_cons]; cases e <;> simp_all [nv, isDB]
  · cases e <;> simp_all [nv, quietAfterDrop]

theorem Same.seg (l t : List Ev) (h : ∀ e ∈ l, nv e = true) : Same (l ++ t) t := by
  induction l with
  | nil => exact Same.refl t
  | cons e l ih =>
    exact (Same.of_nv e (l ++ t) (h e (List.mem_cons_self ..))).trans
      (ih (fun e' he' => h e' (List.mem_cons_of_mem _ he')))

/-- the part of a child poll in front of its `childEnd` -/
theorem Same.mid (c slot : Nat) (wk : Wk) (l t : List Ev) (hl : ∀ e ∈ l, isFireEv e = true) :
    Same (l ++ .childBegin c slot wk :: t) t :=
  (Same.seg l _ (fun e he => nv_fire e (hl e he))).trans (Same.of_nv _ _ rfl)


theorem same_pollBegin (w : Nat) (t : List Ev) : Same (.pollBegin w :: t) t := Same.of_nv _ _ rfl

theorem same_pollEnd (o : Outcome) (t : List Ev) (h : nvOut o = true) : Same (.pollEnd o :: t) t :=
  Same.of_nv _ _ h

/-- a child poll whose answer carries no value and to which the handler does not react -/
theorem same_keep (c slot : Nat) (wk : Wk) (l : List Ev) (r : Res) (t : List Ev)
    (hl : ∀ e ∈ l, isFireEv e = true) (hr : nvRes r = true) : Same (pollSeg c slot wk l r [] t) t := by
  unfold pollSeg
  simp only [List.reverse_nil, List.nil_append]
  exact (Same.of_nv (.childEnd c r) _ hr).trans (Same.mid c slot wk l t hl)

/-! ### ownership-event segments (the drop glue) -/

theorem dc_filterMap (l : List Ev) :
    droppedChildren l = l.filterMap (fun e => match e with | .childDropped c => some c | _ => none) := by
  induction l with
  | nil => rfl
  | cons e l ih => cases e <;> simp [droppedChildren, ih]

theorem dv_filterMap (l : List Ev) :
    droppedVals l = l.filterMap (fun e => match e with | .valDropped c => some c | _ => none) := by
  induction l with
  | nil => rfl
  | cons e l ih => cases e <;> simp [droppedVals, ih]

theorem dc_append (a b : List Ev) : droppedChildren (a ++ b) = droppedChildren a ++ droppedChildren b := by
  simp [dc_filterMap, List.filterMap_append]

theorem dv_append (a b : List Ev) : droppedVals (a ++ b) = droppedVals a ++ droppedVals b := by
  simp [dv_filterMap, List.filterMap_append]

theorem dc_reverse (a : List Ev) : droppedChildren a.reverse = (droppedChildren a).reverse := by
  simp [dc_filterMap, List.filterMap_reverse]

theorem dv_reverse (a : List Ev) : droppedVals a.reverse = (droppedVals a).reverse := by
  simp [dv_filterMap, List.filterMap_reverse]

theorem dv_map_val (l : List Nat) (g : Nat → Nat) :
    droppedVals (l.map (fun i => Ev.valDropped (g i))) = l.map g := by
  induction l with
  | nil => rfl
  | cons a l ih => simp [droppedVals, ih]

theorem dv_map_child (l : List Nat) : droppedVals (l.map (fun i => Ev.childDropped i)) = [] := by
  induction l with
  | nil => rfl
  | cons a l ih => simp [droppedVals, ih]

theorem dc_map_val (l : List Nat) (g : Nat → Nat) :
    droppedChildren (l.map (fun i => Ev.valDropped (g i))) = [] := by
  induction l with
  | nil => rfl
  | cons a l ih => simp [droppedChildren, ih]

theorem dc_map_child (l : List Nat) : droppedChildren (l.map (fun i => Ev.childDropped i)) = l := by
  induction l with
  | nil => rfl
  | cons a l ih => simp [droppedChildren, ih]

theorem pv_own (l t : List Ev) (hl : ∀ e ∈ l, isOwnEv e = true) : producedVals (l ++ t) = producedVals t :=
  skip_seg producedVals isOwnEv (fun e t h => by cases e <;> simp_all [isOwnEv, producedVals]) l hl t

theorem rv_own (l t : List Ev) (hl : ∀ e ∈ l, isOwnEv e = true) : returnedVals (l ++ t) = returnedVals t :=
  skip_seg returnedVals isOwnEv (fun e t h => by cases e <;> simp_all [isOwnEv, returnedVals]) l hl t

theorem cntDB_own (l t : List Ev) (hl : ∀ e ∈ l, isOwnEv e = true) : cntDB (l ++ t) = cntDB t :=
  skip_seg cntDB isOwnEv (fun e t h => by rw [cntDB_cons]; cases e <;> simp_all [isOwnEv, isDB]) l hl t

theorem cntDB_fire (l t : List Ev) (hl : ∀ e ∈ l, isFireEv e = true) : cntDB (l ++ t) = cntDB t :=
  (Same.seg l t (fun e he => nv_fire e (hl e he))).db

/-! ### the invariant -/

/-- the values the slot table holds: exactly what the drop glue releases -/
def held (s : Fix) : List Nat :=
  ((List.range s.n).filter (fun i => s.st i = .ready)).map (fun i => (s.out i).getD 0)

theorem held_fm (s : Fix) :
    held s = fm (fun i => decide (s.st i = .ready)) (fun i => (s.out i).getD 0) s.n := rfl

/-- before the drop.  `own = true`: the children are plain fields, released by the drop only;
    `own = false`: a child is released as soon as its slot leaves `pending`.  `cm`: what the
    counter counts (`some true` pending slots, `some false` ready slots, `none` nothing). -/
structure Pre (own : Bool) (cm : Option Bool) (n : Nat) (s : Fix) (t : List Ev) : Prop where
  hn : s.n = n
  nd : dropCompleted t = false
  ch : ∀ i, (droppedChildren t).count i = if i < n ∧ own = false ∧ s.st i ≠ .pending then 1 else 0
  vals : ∀ v, (returnedVals t).count v + (droppedVals t).count v + (held s).count v
    = (producedVals t).count v
  live : s.dead = false → (∀ i, i < n → s.st i = .pending ∨ s.st i = .ready) ∧
    (∀ b, cm = some b → s.cnt = if b = true then cntP (fun i => s.st i = .pending) n
                                  else cntP (fun i => s.st i = .ready) n)

/-- after the (first) drop -/
structure Post (own : Bool) (n : Nat) (s : Fix) (t : List Ev) : Prop where
  hn : s.n = n
  dead : s.dead = true
  q : quietAfterDrop t = true
  db : 1 ≤ cntDB t
  ch : ∀ i, i < n → (droppedChildren t).count i = 1
  vals : ∀ v, (returnedVals t).count v + (droppedVals t).count v = (producedVals t).count v
  st : own = false → ∀ i, s.st i = .none

/-- dropped twice although the children are plain fields (never happens to a Rust value) -/
def Broken (own : Bool) (s : Fix) (t : List Ev) : Prop := own = true ∧ s.dead = true ∧ 2 ≤ cntDB t

def Inv (own : Bool) (cm : Option Bool) (n : Nat) (s : Fix) (t : List Ev) : Prop :=
  Pre own cm n s t ∨ Post own n s t ∨ Broken own s t

def J (own : Bool) (cm : Option Bool) (n : Nat) (s : Fix) (t : List Ev) (l : List Nat) : Prop :=
  Pre own cm n s t ∧ s.dead = false ∧ ∀ j ∈ l, j < n

theorem Pre.same {own cm n s t t'} (hs : Same t' t) (h : Pre own cm n s t) : Pre own cm n s t' :=
  ⟨h.hn, by rw [hs.dcm]; exact h.nd, by rw [hs.dc]; exact h.ch,
    by rw [hs.rv, hs.dv, hs.pv]; exact h.vals, h.live⟩

theorem Post.same {own n s t t'} (hs : Same t' t) (h : Post own n s t) : Post own n s t' :=
  ⟨h.hn, h.dead, by rw [hs.q]; exact h.q, by rw [hs.db]; exact h.db, by rw [hs.dc]; exact h.ch,
    by rw [hs.rv, hs.dv, hs.pv]; exact h.vals, h.st⟩

theorem Inv.same {own cm n s t t'} (hs : Same t' t) (h : Inv own cm n s t) : Inv own cm n s t' := by
  rcases h with h | h | h
  · exact Or.inl (h.same hs)
  · exact Or.inr (Or.inl (h.same hs))
  · exact Or.inr (Or.inr ⟨h.1, h.2.1, by rw [hs.db]; exact h.2.2⟩)

theorem Inv.pre_of_live {own cm n s t} (h : Inv own cm n s t) (hd : s.dead = false) : Pre own cm n s t := by
  rcases h with h | h | h
  · exact h
  · have := h.dead; simp [hd] at this
  · have := h.2.1; simp [hd] at this

theorem Inv.fireEv {own cm n s t} (e : Ev) (he : isFireEv e = true) (h : Inv own cm n s t) :
    Inv own cm n s (e :: t) := h.same (Same.of_nv _ _ (nv_fire e he))

/-- a poll answered without scanning and without values (`misuse`, arity 0) -/
theorem Inv.pre {own cm n s t} (w : Nat) (o : Outcome) (ho : outVals o = [])
    (h : Inv own cm n s t) : Inv own cm n s (.pollEnd o :: .pollBegin w :: t) := by
  have h1 := h.same (same_pollBegin w t)
  rcases h1 with h1 | h1 | h1
  · refine Or.inl ⟨h1.hn, ?_, ?_, ?_, h1.live⟩
    · rw [dcm_cons]; simpa using h1.nd
    · simpa [droppedChildren] using h1.ch
    · intro v
      have := h1.vals v
      rw [rv_pollEnd, ho]
      simpa [droppedVals, producedVals] using this
  · refine Or.inr (Or.inl ⟨h1.hn, h1.dead, ?_, ?_, ?_, ?_, h1.st⟩)
    · simpa [quietAfterDrop] using h1.q
    · rw [cntDB_cons]; have := h1.db; simp [isDB]; omega
    · simpa [droppedChildren] using h1.ch
    · intro v
      have := h1.vals v
      rw [rv_pollEnd, ho]
      simpa [droppedVals, producedVals] using this
  · refine Or.inr (Or.inr ⟨h1.1, h1.2.1, ?_⟩)
    rw [cntDB_cons]; have := h1.2.2; simp [isDB]; omega

/-- the bookkeeping changes, the slot table does not -/
theorem Pre.frame {own cm n s t} (h : Pre own cm n s t) (s' : Fix) (hn : s'.n = s.n)
    (hst : s'.st = s.st) (hout : s'.out = s.out)
    (hlive : s'.dead = false → s.dead = false ∧ s'.cnt = s.cnt) : Pre own cm n s' t := by
  have hh : held s' = held s := by unfold held; rw [hn, hst, hout]
  refine ⟨hn.trans h.hn, h.nd, by rw [hst]; exact h.ch, by rw [hh]; exact h.vals, ?_⟩
  intro hd
  obtain ⟨hd0, hc⟩ := hlive hd
  rw [hst, hc]
  exact h.live hd0

/-- `Pending` answers (and every poll outcome without values) at the end of a poll -/
theorem Pre.pollEnd {own cm n s t} (o : Outcome) (ho : nvOut o = true) (h : Pre own cm n s t) :
    Inv own cm n s (.pollEnd o :: t) := Or.inl (h.same (same_pollEnd o t ho))

/-- slot `i` stores the value its child produced -/
theorem store_ok {own cm n s t} (h : Pre own cm n s t) (hd : s.dead = false) (c i slot : Nat)
    (hi : i < n) (wk : Wk) (l : List Ev) (r : Res) (v : Nat) (hl : ∀ e ∈ l, isFireEv e = true)
    (hp : s.st i = .pending) (hr : resVals r = [v]) (evs : List Ev)
    (hevs : evs = if own = true then [] else [.childDropped i]) (s' : Fix) (hn' : s'.n = s.n)
    (hst : s'.st = upd s.st i .ready) (hout : s'.out = upd s.out i (some v))
    (hdead : s'.dead = false)
    (hcnt : ∀ b, cm = some b → s'.cnt = if b = true then s.cnt - 1 else s.cnt + 1) :
    Pre own cm n s' (pollSeg c slot wk l r evs t) := by
  have hs := Same.mid c slot wk l t hl
  have hheld : ∀ x, (held s').count x = (held s).count x + [v].count x := by
    intro x
    rw [held_fm, held_fm, hn', hst, hout, h.hn]
    apply fm_count_upd _ _ _ _ n i v x hi
    · simp [hp]
    · simp
    · intro j hj; simp [upd_other _ _ _ _ hj]
    · simp
    · intro j hj; simp [upd_other _ _ _ _ hj]
  refine ⟨hn'.trans h.hn, ?_, ?_, ?_, ?_⟩
  · subst hevs
    cases own <;> simp [pollSeg, dcm_cons, hs.dcm, h.nd]
  · intro j
    subst hevs
    have hj := h.ch j
    cases own
    · simp only [pollSeg, Bool.false_eq_true, if_false, List.reverse_cons, List.reverse_nil,
        List.nil_append, List.cons_append, droppedChildren, hs.dc, List.count_cons, hst]
      rw [hj]
      by_cases hji : j = i
      · subst hji; simp [hp, hi]
      · have : ¬ i = j := fun h => hji h.symm
        simp [upd_other _ _ _ _ hji, this]
    · simp only [pollSeg, if_true, List.reverse_nil, List.nil_append, droppedChildren, hs.dc]
      rw [hj]; simp
  · intro x
    have hx := h.vals x
    have hpv : producedVals (pollSeg c slot wk l r evs t) = v :: producedVals t := by
      subst hevs
      cases own <;> simp [pollSeg, producedVals, pv_childEnd, hr, hs.pv]
    have hrv : returnedVals (pollSeg c slot wk l r evs t) = returnedVals t := by
      subst hevs
      cases own <;> simp [pollSeg, returnedVals, hs.rv]
    have hdv : droppedVals (pollSeg c slot wk l r evs t) = droppedVals t := by
      subst hevs
      cases own <;> simp [pollSeg, droppedVals, hs.dv]
    rw [hpv, hrv, hdv, hheld x]
    simp only [List.count_cons, List.count_nil] at *
    omega
  · intro _
    obtain ⟨h1, h2⟩ := h.live hd
    refine ⟨?_, ?_⟩
    · intro j hj
      rw [hst]
      by_cases hji : j = i
      · subst hji; right; simp
      · rw [upd_other _ _ _ _ hji]; exact h1 j hj
    · intro b hb
      rw [hcnt b hb, hst, h2 b hb]
      cases b
      · simp only [Bool.false_eq_true, if_false]
        exact (C04.cnt_ready_upd s.st n i hi hp).symm
      · simp only [if_true]
        have := C04.cnt_pending_upd s.st n i hi hp
        omega

/-- every slot is ready and the whole table is handed to the caller -/
theorem return_all {own cm n s t} (h : Pre own cm n s t) (hall : ∀ i, i < n → s.st i = .ready)
    (s' : Fix) (hn' : s'.n = s.n) (hst : ∀ i, i < n → s'.st i ≠ .ready)
    (hst' : own = false → ∀ i, i < n → s'.st i ≠ .pending)
    (hlive : s'.dead = false → (∀ i, i < n → s'.st i = .pending ∨ s'.st i = .ready) ∧
      (∀ b, cm = some b → s'.cnt = if b = true then cntP (fun i => s'.st i = .pending) n
                                    else cntP (fun i => s'.st i = .ready) n))
    (o : Outcome) (ho : outVals o = s.outs) : Pre own cm n s' (.pollEnd o :: t) := by
  have h1 : held s = s.outs := by
    rw [held_fm, h.hn]; unfold Fix.outs; rw [h.hn]
    exact fm_all _ _ _ (fun j hj => by simp [hall j hj])
  have h2 : held s' = [] := by
    rw [held_fm, hn', h.hn]
    exact fm_none _ _ _ (fun j hj => by simp [hst j hj])
  refine ⟨hn'.trans h.hn, ?_, ?_, ?_, hlive⟩
  · rw [dcm_cons]; simpa using h.nd
  · intro j
    have hj := h.ch j
    simp only [droppedChildren]
    rw [hj]
    by_cases hjn : j < n
    · cases own
      · simp [hjn, hall j hjn, hst' rfl j hjn]
      · simp
    · simp [hjn]
  · intro x
    have hx := h.vals x
    rw [rv_pollEnd, ho, h2]
    rw [h1] at hx
    simp only [droppedVals, producedVals, List.count_append, List.count_nil]
    omega

/-- the value slot `i`'s child produced goes straight to the caller -/
theorem fresh_ok {own cm n s t} (h : Pre own cm n s t) (c i slot : Nat) (hi : i < n) (wk : Wk)
    (l : List Ev) (r : Res) (v : Nat) (hl : ∀ e ∈ l, isFireEv e = true)
    (hp : own = false → s.st i = .pending) (hr : resVals r = [v]) (evs : List Ev)
    (hevs : evs = if own = true then [] else [.childDropped i]) (s' : Fix) (hn' : s'.n = s.n)
    (hst : s'.st = if own = true then s.st else upd s.st i .none) (hout : s'.out = s.out)
    (hdead : s'.dead = true) (o : Outcome) (ho : outVals o = [v]) :
    Pre own cm n s' (.pollEnd o :: pollSeg c slot wk l r evs t) := by
  have hs := Same.mid c slot wk l t hl
  have hheld : held s' = held s := by
    rw [held_fm, held_fm, hn', hout, h.hn]
    apply fm_congr
    · intro j hj
      rw [hst]
      cases own
      · simp only [Bool.false_eq_true, if_false]
        by_cases hji : j = i
        · subst hji; simp [hp rfl]
        · rw [upd_other _ _ _ _ hji]
      · simp
    · intro j _ _; rfl
  refine ⟨hn'.trans h.hn, ?_, ?_, ?_, fun hd => absurd hd (by simp [hdead])⟩
  · subst hevs
    cases own <;> simp [pollSeg, dcm_cons, hs.dcm, h.nd]
  · intro j
    subst hevs
    have hj := h.ch j
    cases own
    · simp only [pollSeg, Bool.false_eq_true, if_false, List.reverse_cons, List.reverse_nil,
        List.nil_append, List.cons_append, droppedChildren, hs.dc, List.count_cons, hst]
      rw [hj]
      by_cases hji : j = i
      · subst hji; simp [hp rfl, hi]
      · have : ¬ i = j := fun h => hji h.symm
        simp [upd_other _ _ _ _ hji, this]
    · simp only [pollSeg, if_true, List.reverse_nil, List.nil_append, droppedChildren, hs.dc]
      rw [hj]; simp
  · intro x
    have hx := h.vals x
    have hpv : producedVals (.pollEnd o :: pollSeg c slot wk l r evs t) = v :: producedVals t := by
      subst hevs
      cases own <;> simp [pollSeg, producedVals, pv_childEnd, hr, hs.pv]
    have hrv : returnedVals (.pollEnd o :: pollSeg c slot wk l r evs t) = v :: returnedVals t := by
      subst hevs
      rw [rv_pollEnd, ho]
      cases own <;> simp [pollSeg, returnedVals, hs.rv]
    have hdv : droppedVals (.pollEnd o :: pollSeg c slot wk l r evs t) = droppedVals t := by
      subst hevs
      cases own <;> simp [pollSeg, droppedVals, hs.dv]
    rw [hpv, hrv, hdv, hheld]
    simp only [List.count_cons] at *
    omega


/-! ### the drop -/

theorem post_of_drop {own cm n s t} (h : Pre own cm n s t) (evs : List Ev)
    (he : ∀ e ∈ evs, isOwnEv e = true) (hv : droppedVals evs = held s)
    (hc : ∀ i, i < n → (droppedChildren evs).count i + (droppedChildren t).count i = 1)
    (s' : Fix) (hn' : s'.n = s.n) (hdead : s'.dead = true)
    (hst : own = false → ∀ i, s'.st i = .none) :
    Post own n s' (.dropEnd :: (evs.reverse ++ .dropBegin :: t)) := by
  have her : ∀ e ∈ evs.reverse, isOwnEv e = true := fun e h => he e (List.mem_reverse.mp h)
  refine ⟨hn'.trans h.hn, hdead, rfl, ?_, ?_, ?_, hst⟩
  · rw [cntDB_cons, cntDB_own _ _ her, cntDB_cons]; simp [isDB]
  · intro i hi
    have := hc i hi
    simp only [droppedChildren, dc_append, dc_reverse, List.count_append, List.count_reverse]
    exact this
  · intro v
    have hx := h.vals v
    simp only [returnedVals, producedVals, droppedVals, rv_own _ _ her, pv_own _ _ her, dv_append,
      dv_reverse, List.count_append, List.count_reverse, hv]
    omega

theorem dropStates_own (s : Fix) : ∀ e ∈ s.dropStates, isOwnEv e = true := by
  intro e he
  simp only [Fix.dropStates, List.mem_append, List.mem_map] at he
  rcases he with ⟨_, _, rfl⟩ | ⟨_, _, rfl⟩ <;> rfl

theorem dropAll_own (s : Fix) : ∀ e ∈ s.dropAll, isOwnEv e = true := by
  intro e he
  simp only [Fix.dropAll, List.mem_append, List.mem_map] at he
  rcases he with ⟨_, _, rfl⟩ | ⟨_, _, rfl⟩ <;> rfl

theorem dv_dropStates (s : Fix) : droppedVals s.dropStates = held s := by
  unfold Fix.dropStates held
  rw [dv_append, dv_map_child, List.append_nil]
  exact dv_map_val _ (fun i => (s.out i).getD 0)

theorem dv_dropAll (s : Fix) : droppedVals s.dropAll = held s := by
  unfold Fix.dropAll held
  rw [dv_append, dv_map_child, List.append_nil]
  exact dv_map_val _ (fun i => (s.out i).getD 0)

theorem dc_dropStates (s : Fix) :
    droppedChildren s.dropStates = (List.range s.n).filter (fun i => s.st i = .pending) := by
  unfold Fix.dropStates
  rw [dc_append, dc_map_child]
  have := dc_map_val ((List.range s.n).filter (fun i => s.st i = .ready)) (fun i => (s.out i).getD 0)
  rw [this, List.nil_append]

theorem dc_dropAll (s : Fix) : droppedChildren s.dropAll = List.range s.n := by
  unfold Fix.dropAll
  rw [dc_append, dc_map_child]
  have := dc_map_val ((List.range s.n).filter (fun i => s.st i = .ready)) (fun i => (s.out i).getD 0)
  rw [this, List.nil_append]

theorem dropStates_nil (s : Fix) (h : ∀ i, s.st i = .none) : s.dropStates = [] := by
  unfold Fix.dropStates
  simp [h]

/-- the drop glue of the families that release a child as soon as it is done -/
theorem drop_states {cm n s t} (h : Inv false cm n s t) :
    Inv false cm n { s with dead := true, st := fun _ => .none }
      (.dropEnd :: (s.dropStates.reverse ++ .dropBegin :: t)) := by
  rcases h with h | h | h
  · refine Or.inr (Or.inl (post_of_drop h _ (dropStates_own s) (dv_dropStates s) ?_ _ rfl rfl
      (fun _ _ => rfl)))
    intro i hi
    rw [dc_dropStates, count_range_filter, h.ch i, h.hn]
    by_cases hp : s.st i = .pending <;> simp [hp, hi]
  · rw [dropStates_nil s (h.st rfl)]
    refine Or.inr (Or.inl ⟨h.hn, rfl, rfl, ?_, ?_, ?_, fun _ _ => rfl⟩)
    · have := h.db; simp [cntDB_cons, isDB]
    · simpa [droppedChildren] using h.ch
    · simpa [returnedVals, producedVals, droppedVals] using h.vals
  · have := h.1; simp at this

/-- the drop glue of the families whose children are plain fields -/
theorem drop_all {cm n s t} (h : Inv true cm n s t) :
    Inv true cm n { s with dead := true, st := fun _ => .none }
      (.dropEnd :: (s.dropAll.reverse ++ .dropBegin :: t)) := by
  have her : ∀ e ∈ s.dropAll.reverse, isOwnEv e = true :=
    fun e h => dropAll_own s e (List.mem_reverse.mp h)
  rcases h with h | h | h
  · refine Or.inr (Or.inl (post_of_drop h _ (dropAll_own s) (dv_dropAll s) ?_ _ rfl rfl
      (fun h => by cases h)))
    intro i hi
    rw [dc_dropAll, count_range, h.ch i, h.hn]
    simp [hi]
  · refine Or.inr (Or.inr ⟨rfl, rfl, ?_⟩)
    rw [cntDB_cons, cntDB_own _ _ her, cntDB_cons]
    have := h.db; simp [isDB]; omega
  · refine Or.inr (Or.inr ⟨rfl, rfl, ?_⟩)
    rw [cntDB_cons, cntDB_own _ _ her, cntDB_cons]
    have := h.2.2; simp [isDB]; omega

/-! ### the monitor from the invariant -/

theorem holds_of_inv {own cm n s t} (h : Inv own cm n s t) (hb : own = true → cntDB t ≤ 1) :
    holds_C02 true n t = true := by
  rcases h with h | h | h
  · simp [holds_C02, h.nd]
  · have hmem : ∀ v, v ∈ returnedVals t ∨ v ∈ droppedVals t → v ∈ producedVals t := by
      intro v hv
      have := h.vals v
      apply List.count_pos_iff.mp
      rcases hv with hv | hv
      · have := List.count_pos_iff.mpr hv; omega
      · have := List.count_pos_iff.mpr hv; omega
    simp only [holds_C02, Bool.or_eq_true, Bool.and_eq_true, List.all_eq_true, List.mem_range,
      decide_eq_true_eq, Bool.true_or, if_true, List.contains_iff_mem]
    right
    exact ⟨⟨⟨⟨h.q, fun i hi => h.ch i hi⟩, fun v _ => h.vals v⟩, fun v hv => hmem v (Or.inl hv)⟩,
      fun v hv => hmem v (Or.inr hv)⟩
  · have := hb h.1; have := h.2.2; omega

/-! ### the number of `dropBegin` events is the number of `drop` operations -/

def isDrop : Op → Bool
  | .drop => true
  | _ => false

theorem visit_cntDB (P : Policy Fix) (L : Lawful P) (e : Eng Fix) (i : Nat) :
    cntDB (Eng.visit P e i).1.w.trace = cntDB e.w.trace := by
  refine Eng.visit_ind P e i (fun r => cntDB r.1.w.trace = cntDB e.w.trace) ?_ ?_ ?_ ?_
  · intros; rfl
  · intros; simp only [Sim.gateW_trace]
  · intro _ _ _
    obtain ⟨l, hl, hf⟩ := World.pollChild_seg (Eng.gateW P e i) (P.child e.s i) i
    simp only [World.emits_trace, hl, Sim.gateW_trace]
    rw [cntDB_own _ _ (fun x hx => L.evs_panic _ x (List.mem_reverse.mp hx)), cntDB_cons,
      cntDB_fire _ _ hf, cntDB_cons]
    simp [isDB]
  · intro _ _ _
    obtain ⟨l, hl, hf⟩ := World.pollChild_seg (Eng.gateW P e i) (P.child e.s i) i
    simp only [Eng.applyH_w, World.kop_trace, World.emits_trace, hl, Sim.gateW_trace]
    rw [cntDB_own _ _ (fun x hx => L.evs_handle _ _ _ x (List.mem_reverse.mp hx)), cntDB_cons,
      cntDB_fire _ _ hf, cntDB_cons]
    simp [isDB]

theorem scan_cntDB (P : Policy Fix) (L : Lawful P) (l : List Nat) (e : Eng Fix) :
    cntDB (Eng.scan P l e).1.w.trace = cntDB e.w.trace := by
  induction l generalizing e with
  | nil => rfl
  | cons i rest ih =>
    unfold Eng.scan
    cases hv : (Eng.visit P e i).2 with
    | some o => simp only; exact visit_cntDB P L e i
    | none => simp only; rw [ih]; exact visit_cntDB P L e i

theorem poll_cntDB (P : Policy Fix) (L : Lawful P) (e : Eng Fix) (w : Nat) :
    cntDB (Eng.poll P e w).w.trace = cntDB e.w.trace := by
  unfold Eng.poll
  split
  · simp [cntDB_cons, isDB]
  · unfold Eng.body
    simp only
    split
    · simp [cntDB_cons, isDB]
    · unfold Eng.close
      split
      · simp only [Eng.emit_w, World.emit_trace]
        rw [cntDB_cons, scan_cntDB P L]
        simp [cntDB_cons, isDB]
      · simp only [Eng.emit_w, Eng.applyH_w, World.emit_trace, World.kop_trace, World.emits_trace]
        rw [cntDB_cons, cntDB_own _ _ (fun x hx => L.evs_finish _ x (List.mem_reverse.mp hx)),
          scan_cntDB P L]
        simp [cntDB_cons, isDB]

theorem step_cntDB (P : Policy Fix) (L : Lawful P) (e : Eng Fix) (op : Op) :
    cntDB (FEng.step P e op).w.trace = cntDB e.w.trace + (if isDrop op = true then 1 else 0) := by
  cases op with
  | poll w => simpa [FEng.step, isDrop] using poll_cntDB P L e w
  | fire c a =>
    obtain ⟨l, hl, hf⟩ := World.fire_seg e.w c a
    simp only [FEng.step, Eng.fire_w, hl, isDrop]
    rw [cntDB_fire _ _ hf]; simp
  | drop =>
    simp only [FEng.step, Eng.drop, World.emit_trace, World.emits_trace, isDrop]
    rw [cntDB_cons, cntDB_own _ _ (fun x hx => L.evs_drop _ x (List.mem_reverse.mp hx)), cntDB_cons]
    simp [isDB]; omega
  | _ => simp [FEng.step, isDrop]

theorem run_cntDB (P : Policy Fix) (L : Lawful P) (ops : List Op) (e : Eng Fix) :
    cntDB (ops.foldl (FEng.step P) e).w.trace = cntDB e.w.trace + ops.countP isDrop := by
  induction ops generalizing e with
  | nil => simp
  | cons op ops ih =>
    rw [List.foldl_cons, ih, step_cntDB P L, List.countP_cons]
    omega

end C02
end Fc
