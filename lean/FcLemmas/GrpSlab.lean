/-
  FcLemmas/GrpSlab.lean — structural invariants of the group state `Grp` (slab key discipline,
  `keys` / `states` / `key_removal_queue` bookkeeping) and the link between the slab and the ghost
  observations of the trace (`keyOf`, `gone`, `lastRes`, `lastWk`).  Mode independent.
-/
import FcLemmas.Fresh
import FcLemmas.SimG

set_option linter.unusedSimpArgs false
set_option linter.unusedVariables false

namespace Fc
namespace G
open Mon Grp

/-! ### the free list of the slab -/

/-- `Chain … x l`: following `Vacant(next)` links from `x` visits exactly `l` and ends at `entries` -/
def Chain (mem : Nat → Option Nat) (vac : Nat → Nat) (ent : Nat) : Nat → List Nat → Prop
  | x, [] => x = ent
  | x, k :: l => x = k ∧ k < ent ∧ mem k = none ∧ Chain mem vac ent (vac k) l

theorem chain_congr {mem mem' : Nat → Option Nat} {vac vac' : Nat → Nat} {ent : Nat} :
    ∀ (l : List Nat) (x : Nat), (∀ k ∈ l, mem' k = mem k ∧ vac' k = vac k) →
      Chain mem vac ent x l → Chain mem' vac' ent x l := by
  intro l
  induction l with
  | nil => intro x _ h; exact h
  | cons k l ih =>
    intro x hk h
    obtain ⟨h1, h2, h3, h4⟩ := h
    have := hk k (List.mem_cons_self ..)
    refine ⟨h1, h2, by rw [this.1]; exact h3, ?_⟩
    rw [this.2]
    exact ih _ (fun j hj => hk j (List.mem_cons_of_mem _ hj)) h4

theorem chain_vacant {mem : Nat → Option Nat} {vac : Nat → Nat} {ent : Nat} :
    ∀ (l : List Nat) (x : Nat), Chain mem vac ent x l → ∀ k ∈ l, mem k = none ∧ k < ent := by
  intro l
  induction l with
  | nil => intro x _ k hk; simp at hk
  | cons j l ih =>
    intro x h k hk
    obtain ⟨h1, h2, h3, h4⟩ := h
    simp only [List.mem_cons] at hk
    rcases hk with rfl | hk
    · exact ⟨h3, h2⟩
    · exact ih _ h4 k hk

structure Slab (s : Grp) : Prop where
  fl   : ∃ l, Chain s.member s.vac s.entries s.next l ∧ l.Nodup ∧ s.entries ≤ s.len + l.length
  ent  : ∀ k, s.entries ≤ k → s.member k = none
  ecap : s.entries ≤ s.capacity
  lcap : s.len ≤ s.capacity
  stm  : ∀ k, s.st k = .pending ↔ s.member k ≠ none
  kmem : ∀ k, s.member k ≠ none → k ∈ s.keys
  kq   : ∀ k, k ∈ s.keys → s.member k ≠ none ∨ k ∈ s.queue
  qn   : ∀ k, k ∈ s.queue → s.member k = none
  fq   : s.stream = false → s.queue = []

theorem Slab.lt_cap {s : Grp} (h : Slab s) (k : Nat) (hk : s.member k ≠ none) : k < s.capacity := by
  have : ¬ s.entries ≤ k := fun hh => hk (h.ent k hh)
  have := h.ecap
  omega

/-- the key `insert` is going to use is vacant, and below the capacity once `len < capacity` -/
theorem Slab.next_ok {s : Grp} (h : Slab s) :
    s.member s.next = none ∧ (s.len < s.capacity → s.next < s.capacity) := by
  obtain ⟨l, hc, _, hlen⟩ := h.fl
  cases l with
  | nil =>
    have hx : s.next = s.entries := hc
    refine ⟨h.ent _ (by omega), fun hl => ?_⟩
    simp at hlen; omega
  | cons k l =>
    obtain ⟨h1, h2, h3, _⟩ := hc
    refine ⟨by rw [h1]; exact h3, fun _ => ?_⟩
    have := h.ecap; omega

/-! ### state transitions -/

theorem mem_insertSorted (k x : Nat) (l : List Nat) : x ∈ insertSorted k l ↔ x = k ∨ x ∈ l := by
  induction l with
  | nil => simp [insertSorted]
  | cons y ys ih =>
    simp only [insertSorted]
    split
    · simp
    · split
      · rename_i h; subst h; simp
      · simp only [List.mem_cons, ih]
        constructor
        · rintro (h | h | h)
          · exact Or.inr (Or.inl h)
          · exact Or.inl h
          · exact Or.inr (Or.inr h)
        · rintro (h | h | h)
          · exact Or.inr (Or.inl h)
          · exact Or.inl h
          · exact Or.inr (Or.inr h)

/-- the state after `insert` -/
def insSt (s : Grp) (c : Nat) (keep : Bool) : Grp :=
  { (s.slabInsert c) with st := upd s.st s.next .pending, keys := insertSorted s.next s.keys,
                          ret := if keep then s.ret ++ [s.next] else s.ret }

/-- the state after a member left through `remove` or by completing (FutureGroup) -/
def remSt (s : Grp) (k : Nat) : Grp :=
  { (s.slabRemove k) with st := upd s.st k .none, keys := s.keys.filter (· ≠ k) }

/-- the state after a stream ended inside `poll_next` -/
def finSt (s : Grp) (k : Nat) : Grp :=
  { (s.slabRemove k) with st := upd s.st k .none, doneCnt := s.doneCnt + 1, queue := s.queue ++ [k] }

@[simp] theorem insSt_member (s : Grp) (c : Nat) (b : Bool) :
    (insSt s c b).member = upd s.member s.next (some c) := by
  unfold insSt slabInsert; split <;> rfl
@[simp] theorem insSt_st (s : Grp) (c : Nat) (b : Bool) :
    (insSt s c b).st = upd s.st s.next .pending := by
  unfold insSt slabInsert; split <;> rfl
@[simp] theorem insSt_keys (s : Grp) (c : Nat) (b : Bool) :
    (insSt s c b).keys = insertSorted s.next s.keys := by
  unfold insSt slabInsert; split <;> rfl
@[simp] theorem insSt_queue (s : Grp) (c : Nat) (b : Bool) : (insSt s c b).queue = s.queue := by
  unfold insSt slabInsert; split <;> rfl
@[simp] theorem insSt_stream (s : Grp) (c : Nat) (b : Bool) : (insSt s c b).stream = s.stream := by
  unfold insSt slabInsert; split <;> rfl
@[simp] theorem insSt_capacity (s : Grp) (c : Nat) (b : Bool) : (insSt s c b).capacity = s.capacity := by
  unfold insSt slabInsert; split <;> rfl
@[simp] theorem insSt_dead (s : Grp) (c : Nat) (b : Bool) : (insSt s c b).dead = s.dead := by
  unfold insSt slabInsert; split <;> rfl

theorem Slab.next_le {s : Grp} (h : Slab s) : s.next ≤ s.entries := by
  obtain ⟨l, hc, _, _⟩ := h.fl
  cases l with
  | nil => have : s.next = s.entries := hc; omega
  | cons j l => obtain ⟨h1, h2, _, _⟩ := hc; omega

theorem slab_insert {s : Grp} (c : Nat) (b : Bool) (h : Slab s) (hq : s.queue = [])
    (hl : s.len < s.capacity) : Slab (insSt s c b) := by
  have hnv := h.next_ok.1
  have hnl := h.next_le
  refine ⟨?_, ?_, ?_, ?_, ?_, ?_, ?_, ?_, ?_⟩
  · obtain ⟨l, hc, hnd, hlen⟩ := h.fl
    cases l with
    | nil =>
      have hx : s.next = s.entries := hc
      refine ⟨[], ?_, List.nodup_nil, ?_⟩
      · show Chain _ _ _ _ []
        unfold insSt slabInsert; simp only [hx, if_true]; rfl
      · unfold insSt slabInsert; simp only [hx, if_true, List.length_nil] at hlen ⊢; omega
    | cons k l =>
      obtain ⟨h1, h2, h3, h4⟩ := hc
      have hne : s.next ≠ s.entries := by omega
      refine ⟨l, ?_, (List.nodup_cons.mp hnd).2, ?_⟩
      · unfold insSt slabInsert; simp only [hne, if_false]
        rw [h1]
        refine chain_congr l _ ?_ h4
        intro j hj
        have : j ≠ k := fun hh => (List.nodup_cons.mp hnd).1 (hh ▸ hj)
        exact ⟨upd_other _ _ _ _ this, rfl⟩
      · unfold insSt slabInsert; simp only [hne, if_false]
        simp only [List.length_cons] at hlen; omega
  · intro k hk
    rw [insSt_member]
    have hke : s.entries ≤ k ∧ k ≠ s.next := by
      unfold insSt slabInsert at hk
      split at hk
      · rename_i hh; simp only at hk; omega
      · simp only at hk; omega
    rw [upd_other _ _ _ _ hke.2]
    exact h.ent k hke.1
  · have := h.ecap
    unfold insSt slabInsert
    split
    · rename_i hx
      simp only
      obtain ⟨l, hc, _, hlen⟩ := h.fl
      cases l with
      | nil => simp only [List.length_nil] at hlen; omega
      | cons j l => obtain ⟨h1, h2, _, _⟩ := hc; omega
    · exact this
  · unfold insSt slabInsert
    split <;> (simp only; omega)
  · intro k
    rw [insSt_st, insSt_member]
    by_cases hk : k = s.next
    · subst hk; simp
    · rw [upd_other _ _ _ _ hk, upd_other _ _ _ _ hk]; exact h.stm k
  · intro k hk
    rw [insSt_member] at hk
    rw [insSt_keys, mem_insertSorted]
    by_cases hkn : k = s.next
    · exact Or.inl hkn
    · rw [upd_other _ _ _ _ hkn] at hk; exact Or.inr (h.kmem k hk)
  · intro k hk
    rw [insSt_keys, mem_insertSorted] at hk
    rw [insSt_member]
    left
    by_cases hkn : k = s.next
    · subst hkn; simp
    · rw [upd_other _ _ _ _ hkn]
      rcases hk with hk | hk
      · exact absurd hk hkn
      · rcases h.kq k hk with h1 | h1
        · exact h1
        · rw [hq] at h1; simp at h1
  · intro k hk
    rw [insSt_queue, hq] at hk; simp at hk
  · intro _; rw [insSt_queue]; exact hq

/-- a member leaves: `Slab::remove`; `keys'` / `queue'` say what happens to the key -/
theorem slab_leave {s s' : Grp} (k : Nat) (h : Slab s) (hk : s.member k ≠ none)
    (hs : s'.member = upd s.member k none ∧ s'.vac = upd s.vac k s.next ∧ s'.next = k ∧
          s'.len = s.len - 1 ∧ s'.entries = s.entries ∧ s'.capacity = s.capacity ∧
          s'.st = upd s.st k .none ∧ s'.stream = s.stream)
    (hkeys : (s'.keys = s.keys.filter (· ≠ k) ∧ s'.queue = s.queue) ∨
             (s'.keys = s.keys ∧ s'.queue = s.queue ++ [k] ∧ s.stream = true)) :
    Slab s' := by
  obtain ⟨hm, hv, hn, hl, he, hc, hst, hstr⟩ := hs
  have hke : k < s.entries := by
    have : ¬ s.entries ≤ k := fun hh => hk (h.ent k hh)
    omega
  refine ⟨?_, ?_, ?_, ?_, ?_, ?_, ?_, ?_, ?_⟩
  · obtain ⟨l, hch, hnd, hlen⟩ := h.fl
    have hkl : k ∉ l := fun hh => hk (chain_vacant l _ hch k hh).1
    refine ⟨k :: l, ?_, List.nodup_cons.mpr ⟨hkl, hnd⟩, ?_⟩
    · rw [hm, hv, hn, he]
      refine ⟨rfl, hke, by simp, ?_⟩
      rw [upd_same]
      refine chain_congr l _ ?_ hch
      intro j hj
      have : j ≠ k := fun hh => hkl (hh ▸ hj)
      exact ⟨upd_other _ _ _ _ this, upd_other _ _ _ _ this⟩
    · rw [he, hl]; simp only [List.length_cons]; omega
  · intro j hj
    rw [hm]
    rw [he] at hj
    by_cases hjk : j = k
    · subst hjk; simp
    · rw [upd_other _ _ _ _ hjk]; exact h.ent j hj
  · rw [he, hc]; exact h.ecap
  · rw [hl, hc]; have := h.lcap; omega
  · intro j
    rw [hst, hm]
    by_cases hjk : j = k
    · subst hjk; simp
    · rw [upd_other _ _ _ _ hjk, upd_other _ _ _ _ hjk]; exact h.stm j
  · intro j hj
    rw [hm] at hj
    have hjk : j ≠ k := by intro hh; subst hh; simp at hj
    rw [upd_other _ _ _ _ hjk] at hj
    rcases hkeys with ⟨h1, _⟩ | ⟨h1, _⟩
    · rw [h1]; simp only [List.mem_filter, decide_eq_true_eq]; exact ⟨h.kmem j hj, hjk⟩
    · rw [h1]; exact h.kmem j hj
  · intro j hj
    rw [hm]
    rcases hkeys with ⟨h1, h2⟩ | ⟨h1, h2, _⟩
    · rw [h1] at hj
      simp only [List.mem_filter, decide_eq_true_eq] at hj
      rw [upd_other _ _ _ _ hj.2, h2]
      exact h.kq j hj.1
    · rw [h1] at hj
      rw [h2]
      by_cases hjk : j = k
      · right; subst hjk; simp
      · rw [upd_other _ _ _ _ hjk]
        rcases h.kq j hj with h3 | h3
        · exact Or.inl h3
        · right; simp [h3]
  · intro j hj
    rw [hm]
    by_cases hjk : j = k
    · subst hjk; simp
    · rw [upd_other _ _ _ _ hjk]
      rcases hkeys with ⟨_, h2⟩ | ⟨_, h2, _⟩
      · rw [h2] at hj; exact h.qn j hj
      · rw [h2] at hj
        simp only [List.mem_append, List.mem_singleton] at hj
        rcases hj with hj | hj
        · exact h.qn j hj
        · exact absurd hj hjk
  · intro hf
    rw [hstr] at hf
    rcases hkeys with ⟨_, h2⟩ | ⟨_, _, h3⟩
    · rw [h2]; exact h.fq hf
    · rw [hf] at h3; exact Bool.noConfusion h3

theorem slab_rem {s : Grp} (k : Nat) (h : Slab s) (hk : s.member k ≠ none) : Slab (remSt s k) :=
  slab_leave k h hk ⟨rfl, rfl, rfl, rfl, rfl, rfl, rfl, rfl⟩ (Or.inl ⟨rfl, rfl⟩)

theorem slab_fin {s : Grp} (k : Nat) (h : Slab s) (hk : s.member k ≠ none) (hs : s.stream = true) :
    Slab (finSt s k) :=
  slab_leave k h hk ⟨rfl, rfl, rfl, rfl, rfl, rfl, rfl, rfl⟩ (Or.inr ⟨rfl, rfl, hs⟩)

theorem slab_flush {s : Grp} (h : Slab s) : Slab s.flushQueue := by
  refine ⟨h.fl, h.ent, h.ecap, h.lcap, h.stm, ?_, ?_, ?_, fun _ => rfl⟩
  · intro k hk
    simp only [flushQueue, List.mem_filter, Bool.not_eq_true', List.contains_eq_mem,
      decide_eq_false_iff_not]
    exact ⟨h.kmem k hk, fun hq => hk (h.qn k hq)⟩
  · intro k hk
    simp only [flushQueue, List.mem_filter, Bool.not_eq_true', List.contains_eq_mem,
      decide_eq_false_iff_not] at hk
    left
    rcases h.kq k hk.1 with h1 | h1
    · exact h1
    · exact absurd h1 hk.2
  · intro k hk; simp [flushQueue] at hk

/-- bookkeeping fields (`doneCnt`, `total`, `dead`, `ret`, `capacity` growth) do not matter -/
theorem slab_congr {s s' : Grp} (h : Slab s)
    (hs : s'.member = s.member ∧ s'.vac = s.vac ∧ s'.next = s.next ∧ s'.len = s.len ∧
          s'.entries = s.entries ∧ s.capacity ≤ s'.capacity ∧ s'.st = s.st ∧ s'.stream = s.stream ∧
          s'.keys = s.keys ∧ s'.queue = s.queue) : Slab s' := by
  obtain ⟨h1, h2, h3, h4, h5, h6, h7, h8, h9, h10⟩ := hs
  refine ⟨by rw [h1, h2, h3, h4, h5]; exact h.fl, by rw [h1, h5]; exact h.ent,
    by rw [h5]; exact Nat.le_trans h.ecap h6, by rw [h4]; exact Nat.le_trans h.lcap h6,
    by rw [h1, h7]; exact h.stm,
    by rw [h1, h9]; exact h.kmem, by rw [h1, h9, h10]; exact h.kq, by rw [h1, h10]; exact h.qn,
    by rw [h8, h10]; exact h.fq⟩

theorem slab_init (a b : Bool) : Slab (Grp.init a b) := by
  refine ⟨⟨[], rfl, List.nodup_nil, by simp [Grp.init]⟩, fun _ _ => rfl, by simp [Grp.init], by simp [Grp.init],
    fun k => by simp [Grp.init], fun k hk => by simp [Grp.init] at hk,
    fun k hk => by simp [Grp.init] at hk, fun k hk => by simp [Grp.init] at hk, fun _ => rfl⟩

/-! ### `resize` -/

theorem resize_cap_le (w : World) (len : Nat) : w.cap ≤ (w.resize len).cap := by
  unfold World.resize
  split
  · cases w.mode <;> simp only <;> omega
  · exact Nat.le_refl _

theorem resize_cap (w : World) (len : Nat) (h : w.cap ≤ len) : (w.resize len).cap = len := by
  unfold World.resize
  split
  · cases w.mode <;> rfl
  · omega

@[simp] theorem resize_parent (w : World) (len : Nat) : (w.resize len).parent = w.parent := by
  unfold World.resize; split
  · cases w.mode <;> rfl
  · rfl
@[simp] theorem resize_handed (w : World) (len : Nat) : (w.resize len).handed = w.handed := by
  unfold World.resize; split
  · cases w.mode <;> rfl
  · rfl

end G
end Fc
