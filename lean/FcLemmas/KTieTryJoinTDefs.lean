/-
  FcLemmas/KTieTryJoinTDefs.lean — tuple try_join (`(A, B, …).try_join()`): the relation between a translated `TryJoin` +
  environment and a model state that the scan of `poll` maintains (`RelT`; it includes `consumed = false` and
  `completed < N`: inside the loop the try_join is live), what holds when an iteration leaves the loop (`ExitT`), and the
  model side of one iteration — `Eng.visit tryJoinTuple` in its six cases (nothing is ready: the poll answers `Pending`
  from inside the loop; the slot is skipped, its flag cleared; the child is pending; the child resolves with `Ok` and
  others are outstanding; the LAST child resolves with `Ok`: the poll returns the outputs from inside the loop; the child
  fails: the poll returns the `Err` from inside the loop) — and of the code around the loop (`ttj_poll_loop`,
  `ttj_close_*`).
  Container-independent lemmas are imported: the readiness-array environment (FcLemmas/KTieTryJoinAEnv.lean, the tuple
  uses `ReadinessArray<N>` as the array does), `FutStepsF.tj_*` / `tj_abs_*` of the Vec proof, the list facts
  (FcLemmas/KTieListFacts.lean) and the `forCtl` loop rule (FcLemmas/KTieLoopCore.lean).  Namespace `TieTryJoinT`.
-/
import FcProps.KTieTryJoinTup
import FcLemmas.KTieLoopCore
import FcLemmas.KTieListFacts
import FcLemmas.KTieTryJoinAEnv
import FcLemmas.KTieTryJoinMain

set_option linter.unusedSimpArgs false
set_option linter.unusedVariables false

namespace Fc
open Rs Src

namespace TieTryJoinT
open TryJoinT

abbrev Ret := Rs.Poll (Rs.Result (List Nat))

/-- the translated combinator `g` with the environment `env` is read as the model state `e` (inside a poll: a parent
    waker is stored, the try_join is live) -/
structure RelT (n o : Nat) (e : Eng Fix) (g : TryJoin) (env : World) : Prop where
  ew : e.w = TieArr.abs g.roleWakers.readiness env
  en : e.s.n = n
  kids : g.roleKids.len = n
  st : e.s.st = fun i => TiePS.abs (g.roleStates.get i)
  out : e.s.out = g.roleItems.get
  cnt : e.s.cnt = g.roleCount
  off : e.s.off = o
  dead : e.s.dead = false
  done : g.roleDone = false
  lt : g.roleCount < n
  rd : TieArr.Wf n g.roleWakers.readiness
  sl : g.roleStates.len = n
  ic : g.roleItems.cap = n
  pc : g.roleCount = ((List.range n).filter (fun i => g.roleStates.get i = PS.PollState.ready)).length
  rs : ∀ i, i < n → (g.roleStates.get i = PS.PollState.pending ∨
        (g.roleStates.get i = PS.PollState.ready ∧ ∃ v, g.roleItems.get i = some v))
  par : g.roleWakers.readiness.roleParent ≠ none
  hin : HandedIn n env
  sok : FutStepsF env

/-- the two sides when an iteration returned `v` from inside the loop: the readiness set of `g` with `env` is the
    model's world; for `Pending` the loop relation still holds, for `Ready(Err(_))` the readings agree (`jcore`), for
    `Ready(Ok(_))` they agree as far as `jcoreDone` says; the facts about the environment still hold -/
structure ExitT (n : Nat) (b : Eng Fix) (v : Ret) (e : Eng Fix) (g : TryJoin) (env : World) : Prop where
  ew : e.w = TieArr.abs g.roleWakers.readiness env
  kids : g.roleKids.len = n
  hin : HandedIn n env
  sok : FutStepsF env
  pend : v = .pending → RelT n b.s.off e g env
  err : ∀ x, v = .ready (.err x) → jcore (absT g b) = jcore e
  ok : ∀ vs, v = .ready (.ok vs) → TieTryJoinV.jcoreDone n (absT g b) e
  dn : v ≠ .pending → g.roleDone = true

/-- the reading of a combinator related to `e` is `e` (as far as `jcore` looks) -/
theorem RelT.jcore_eq {n : Nat} {b e : Eng Fix} {g : TryJoin} {env : World} (hR : RelT n b.s.off e g env) :
    jcore (absT g b) = jcore e := by
  obtain ⟨hw, hen, hk, hst, hout, hcnt, hoff, hdead, hdone, hlt, hrd, hsl, hic, hpc, hrs, hpar, hhin, hsok⟩ := hR
  simp only [jcore, fcore, absT, hw, hen, hk, hst, hout, hcnt, hoff, hdead, hdone, TieArr.abs, World.withStd]

theorem RelT.wf {n o : Nat} {e : Eng Fix} {g : TryJoin} {env : World} (hR : RelT n o e g env) (hn : 0 < n) :
    WfT n g :=
  ⟨hn, hR.kids, hR.rd, hR.sl, hR.ic, hR.pc, hR.lt, hR.rs⟩

/-! ## list facts -/

/-- `OutputArray::take` on slots that are all initialised -/
theorem ttj_take_all (o : Rs.OutVec) (h : ∀ i, i < o.cap → ∃ v, o.get i = some v) :
    o.take = some (⟨o.cap, fun _ => none⟩, (List.range o.cap).map (fun i => (o.get i).getD 0)) := by
  unfold Rs.OutVec.take
  rw [TieTryJoinV.tj_mapM_some o.get _ (fun i hi => h i (List.mem_range.mp hi))]
  rfl

/-- a slot that becomes `Ready` raises the number of `Ready` slots by one -/
theorem ttj_count_set (st : Nat → PS.PollState) (i n : Nat) (hi : i < n) (hp : st i ≠ PS.PollState.ready) :
    ((List.range n).filter (fun j => st j = PS.PollState.ready)).length + 1
      = ((List.range n).filter
          (fun j => (if j = i then PS.PollState.ready else st j) = PS.PollState.ready)).length := by
  apply TieTryJoinV.tj_filter_dec _ _ i n hi
  · simp
  · simp [hp]
  · intro j hj; simp [hj]

/-- when all `n` slots are counted, every slot satisfies the predicate -/
theorem ttj_filter_full (p : Nat → Bool) (n : Nat) (h : ((List.range n).filter p).length = n) :
    ∀ j, j < n → p j = true := by
  intro j hj
  have hlen : ((List.range n).filter p).length = (List.range n).length := by rw [List.length_range]; exact h
  exact List.length_filter_eq_length_iff.mp hlen j (List.mem_range.mpr hj)

/-! ## the model side of one iteration -/

theorem ttj_visit_idle (e : Eng Fix) (i : Nat) (ha : e.w.anyReady = false) :
    Eng.visit tryJoinTuple e i = (e, some .pending) := by
  simp [Eng.visit, tryJoinTuple, ha]

theorem ttj_visit_skip (e : Eng Fix) (i : Nat) (ha : e.w.anyReady = true)
    (h : e.w.isSet i = false ∨ e.s.st i = .ready) :
    Eng.visit tryJoinTuple e i = ({ e with w := e.w.clearReady i }, none) := by
  rcases h with h | h <;> simp [Eng.visit, tryJoinTuple, ha, h, Eng.gateGo, Eng.gateW]

theorem ttj_visit_pend (e : Eng Fix) (i : Nat) (ha : e.w.anyReady = true) (h : e.s.st i ≠ .ready)
    (h2 : e.w.isSet i = true) (h4 : e.w.resOf i = .pend) :
    Eng.visit tryJoinTuple e i = ({ e with w := (e.w.clearReady i).pollChild i i }, none) := by
  simp [Eng.visit, tryJoinTuple, ha, h, h2, h4, Eng.gateGo, Eng.gateW, Eng.applyH, Fix.keep, World.kop]

theorem ttj_visit_ok (e : Eng Fix) (i : Nat) (v : Nat) (ha : e.w.anyReady = true)
    (h : e.s.st i ≠ .ready) (h2 : e.w.isSet i = true) (h4 : e.w.resOf i = .ready true v) (hc : e.s.cnt + 1 ≠ e.s.n) :
    Eng.visit tryJoinTuple e i =
      ({ w := ((e.w.clearReady i).pollChild i i).emit (.childDropped i),
         s := { e.s with st := upd e.s.st i .ready, out := upd e.s.out i (some v), cnt := e.s.cnt + 1 } }, none) := by
  simp [Eng.visit, tryJoinTuple, ha, h, h2, h4, hc, Eng.gateGo, Eng.gateW, Eng.applyH, Fix.keep, World.kop, World.emits,
    World.emit]

theorem ttj_visit_last (e : Eng Fix) (i : Nat) (v : Nat) (ha : e.w.anyReady = true)
    (h : e.s.st i ≠ .ready) (h2 : e.w.isSet i = true) (h4 : e.w.resOf i = .ready true v) (hc : e.s.cnt + 1 = e.s.n) :
    Eng.visit tryJoinTuple e i =
      ({ w := ((e.w.clearReady i).pollChild i i).emit (.childDropped i),
         s := { e.s with st := fun _ => .none, out := upd e.s.out i (some v), cnt := e.s.cnt + 1, dead := true } },
       some (.ready true ((List.range e.s.n).map (fun j => (upd e.s.out i (some v) j).getD 0)))) := by
  simp [Eng.visit, tryJoinTuple, ha, h, h2, h4, hc, Eng.gateGo, Eng.gateW, Eng.applyH, Fix.keep, World.kop, World.emits,
    World.emit, Fix.outs]

theorem ttj_visit_err (e : Eng Fix) (i : Nat) (v : Nat) (ha : e.w.anyReady = true)
    (h : e.s.st i ≠ .ready) (h2 : e.w.isSet i = true) (h4 : e.w.resOf i = .ready false v) :
    Eng.visit tryJoinTuple e i =
      ({ w := ((e.w.clearReady i).pollChild i i).emit (.childDropped i),
         s := { e.s with st := upd e.s.st i .none, cnt := e.s.cnt + 1, dead := true } },
       some (.ready false [v])) := by
  simp [Eng.visit, tryJoinTuple, ha, h, h2, h4, Eng.gateGo, Eng.gateW, Eng.applyH, Fix.keep, World.kop, World.emits,
    World.emit]

/-! ## the model side of the code around the loop -/

theorem ttj_poll_loop (e : Eng Fix) (w : Nat) (hn : e.s.n ≠ 0) (hd : e.s.dead = false) :
    Eng.poll tryJoinTuple e w
      = Eng.close tryJoinTuple (Eng.scan tryJoinTuple (List.range e.s.n)
          { w := (e.w.emit (.pollBegin w)).setWaker w, s := e.s }) := by
  simp [Eng.poll, Eng.body, tryJoinTuple, Fix.misuseIfDead, hd, hn]

theorem ttj_close_ret (X : Eng Fix × Option Outcome) (o : Outcome) (h : X.2 = some o) :
    Eng.close tryJoinTuple X = X.1.emit (.pollEnd o) := by
  simp [Eng.close, h]

theorem ttj_close_pend (X : Eng Fix × Option Outcome) (h : X.2 = none) :
    Eng.close tryJoinTuple X = X.1.emit (.pollEnd .pending) := by
  cases X with
  | mk e r =>
    cases h
    simp [Eng.close, tryJoinTuple, Eng.applyH, World.kop, World.emits]

end TieTryJoinT
end Fc
