/-
  FcLemmas/Live3Obs.lean — liveness of the stream combinators (merge, zip, chain) under the
  wake-only executor: well-behaved stream scripts, and the World-aware part of the invariant
  (stream version of `Live.WInv` / `Live.PInvL`) with its preservation by one child poll.

  `Str w c`: child `c` is a well-behaved stream that has not ended (its remaining script is a
  `streamScript`, non-empty; its latest answer, if any, was `Pending` or an item; it has not been
  released), or it has ended (latest answer `None`).
-/
import FcLemmas.LiveLoop
set_option linter.unusedSimpArgs false
set_option linter.unusedVariables false

namespace Fc

/-- a well-behaved stream: any finite mix of Pending steps (with arbitrary in-poll wake-ups) and
    items, then the end -/
def streamScript (s : List Step) : Bool :=
  match s.reverse with
  | [] => false
  | last :: init => last.res == .fin && init.all (fun st => st.res == .pend || (match st.res with | .item _ => true | _ => false))

namespace Live3
open Mon Live

/-! ### well-behaved stream scripts -/

theorem ss_cons (s : Step) (rest : List Step) (h : streamScript (s :: rest) = true) :
    (rest = [] ∧ s.res = .fin) ∨
    (rest ≠ [] ∧ (s.res = .pend ∨ ∃ v, s.res = .item v) ∧ streamScript rest = true) := by
  unfold streamScript at h ⊢
  rw [List.reverse_cons] at h
  cases hr : rest.reverse with
  | nil =>
    have hnil : rest = [] := by simpa using hr
    left
    rw [hr] at h
    simp only [List.nil_append, List.all_nil, Bool.and_true, beq_iff_eq] at h
    exact ⟨hnil, h⟩
  | cons last init =>
    right
    rw [hr] at h
    simp only [List.cons_append, List.all_append, List.all_cons, List.all_nil, Bool.and_true,
      Bool.and_eq_true, beq_iff_eq, Bool.or_eq_true] at h
    refine ⟨fun hn => by simp [hn] at hr, ?_, ?_⟩
    · rcases h.2.2 with h1 | h1
      · exact Or.inl h1
      · right
        cases hres : s.res <;> simp_all
    · simp only [Bool.and_eq_true, beq_iff_eq]
      exact ⟨h.1, h.2.1⟩

theorem ss_ne_nil (l : List Step) (h : streamScript l = true) : l ≠ [] := by
  intro hn; rw [hn] at h; exact Bool.noConfusion h

/-- the answers a stream that has not ended may have given last -/
def Act (r : Option Res) : Prop := r = none ∨ r = some .pend ∨ ∃ v, r = some (.item v)

theorem act_ne_fin {r : Option Res} (h : Act r) : r ≠ some .fin := by
  rcases h with h | h | ⟨v, h⟩ <;> rw [h] <;> simp

def Str (w : World) (c : Nat) : Prop :=
  (streamScript (w.scripts c) = true ∧ Act (lastRes w.trace c) ∧ gone w.trace c = false)
  ∨ lastRes w.trace c = some .fin

structure WInvS (n : Nat) (w : World) : Prop where
  str : ∀ c, c < n → Str w c
  hw  : ∀ c, (w.handed c).head? = lastWk w.trace c
  lw  : ∀ c, lastRes w.trace c ≠ none → lastWk w.trace c ≠ none
  ep  : ∀ c, everPolled w.trace c = true → lastRes w.trace c ≠ none

structure PInvS (n : Nat) (len0 : Nat → Nat) (t0 : List Ev) (w : World) : Prop where
  wi : WInvS n w
  le : ∀ c, (w.scripts c).length ≤ len0 c
  ps : ∀ c, polledSince w.trace c = true → c < n ∧ (w.scripts c).length < len0 c
  wk : wokeSince w.trace = true → ∃ c, polledSince w.trace c = true
  ab : atPollBegin w.trace = t0
  sp : spent false w.trace = false
  pn : panicSince w.trace = false

/-- a stream that has not ended answers `Pending`, an item, or ends; it never panics -/
theorem str_resOf (w : World) (i : Nat) (h : streamScript (w.scripts i) = true) :
    ((w.scripts i).tail = [] ∧ w.resOf i = .fin) ∨
    ((w.scripts i).tail ≠ [] ∧ (w.resOf i = .pend ∨ ∃ v, w.resOf i = .item v) ∧
      streamScript (w.scripts i).tail = true) := by
  unfold World.resOf World.stepOf
  cases hs : w.scripts i with
  | nil => rw [hs] at h; exact Bool.noConfusion h
  | cons s rest =>
    rw [hs] at h
    rcases ss_cons s rest h with ⟨h1, h2⟩ | ⟨h1, h2, h3⟩
    · left; subst h1; exact ⟨rfl, h2⟩
    · right; exact ⟨h1, h2, h3⟩

/-- one child poll -/
theorem pinvs_pollChild {n : Nat} {len0 : Nat → Nat} {t0 : List Ev} (w : World) (i : Nat)
    (hi : i < n) (h : PInvS n len0 t0 w) (hun : lastRes w.trace i ≠ some .fin) :
    (w.resOf i = .pend ∨ (∃ v, w.resOf i = .item v) ∨ w.resOf i = .fin) ∧
      PInvS n len0 t0 (w.pollChild i i) := by
  -- child `i` is a stream that has not ended
  have hfi : streamScript (w.scripts i) = true ∧ gone w.trace i = false := by
    rcases h.wi.str i hi with ⟨h1, _, h3⟩ | h1
    · exact ⟨h1, h3⟩
    · exact absurd h1 hun
  have hres := str_resOf w i hfi.1
  have hnp : w.resOf i ≠ .panic := by
    rcases hres with ⟨_, hr⟩ | ⟨_, hr | ⟨v, hr⟩, _⟩ <;> rw [hr] <;> simp
  have hkind : w.resOf i = .pend ∨ (∃ v, w.resOf i = .item v) ∨ w.resOf i = .fin := by
    rcases hres with ⟨_, hr⟩ | ⟨_, hr | hr, _⟩
    · exact Or.inr (Or.inr hr)
    · exact Or.inl hr
    · exact Or.inr (Or.inl hr)
  have hne : w.scripts i ≠ [] := ss_ne_nil _ hfi.1
  have hlen : (w.scripts i).tail.length < (w.scripts i).length := by
    cases hs : w.scripts i with
    | nil => exact absurd hs hne
    | cons s rest => simp
  -- observations of the new world
  have hS : ∀ c, (w.pollChild i i).scripts c
      = if c = i then (w.scripts i).tail else w.scripts c := by
    intro c
    rw [pollChild_scripts]
    by_cases hci : c = i
    · subst hci; simp
    · simp [upd_other _ _ _ _ hci, hci]
  have hLR : ∀ c, lastRes (w.pollChild i i).trace c
      = if i = c then some (w.resOf i) else lastRes w.trace c := by
    intro c; rw [C16.lastRes_pollChild]
  have hLW : ∀ c, lastWk (w.pollChild i i).trace c
      = if i = c then some (w.wakerFor i) else lastWk w.trace c := by
    intro c; rw [lastWk_pollChild]
  have hEP : ∀ c, everPolled (w.pollChild i i).trace c
      = (decide (i = c) || everPolled w.trace c) := by
    intro c; rw [everPolled_pollChild]
  have hPS : ∀ c, polledSince (w.pollChild i i).trace c
      = (decide (i = c) || polledSince w.trace c) := by
    intro c; rw [polledSince_pollChild]
  have hG : ∀ c, gone (w.pollChild i i).trace c = gone w.trace c := by
    intro c; rw [gone_pollChild]
  refine ⟨hkind, ⟨⟨?_, ?_, ?_, ?_⟩, ?_, ?_, ?_, ?_, ?_, ?_⟩⟩
  · -- Str
    intro c hc
    by_cases hci : c = i
    · subst hci
      rcases hres with ⟨_, hr⟩ | ⟨_, hr, hf⟩
      · right; rw [hLR, hr]; simp
      · left
        refine ⟨by rw [hS]; simpa using hf, ?_, by rw [hG]; exact hfi.2⟩
        rw [hLR]
        simp only [if_true]
        rcases hr with hr | ⟨v, hr⟩
        · exact Or.inr (Or.inl (by rw [hr]))
        · exact Or.inr (Or.inr ⟨v, by rw [hr]⟩)
    · have hic : ¬ i = c := fun hh => hci hh.symm
      unfold Str
      rw [hS, hLR, hG]
      simp only [hci, hic, if_false]
      exact h.wi.str c hc
  · -- handed / lastWk
    intro c
    rw [hLW, pollChild_handed]
    by_cases hic : i = c
    · subst hic; simp
    · have hci : c ≠ i := fun hh => hic hh.symm
      simp only [hic, if_false, upd_other _ _ _ _ hci]
      exact h.wi.hw c
  · intro c hc
    rw [hLR] at hc
    rw [hLW]
    by_cases hic : i = c
    · simp [hic]
    · simp only [hic, if_false] at hc ⊢
      exact h.wi.lw c hc
  · intro c hc
    rw [hEP] at hc
    rw [hLR]
    by_cases hic : i = c
    · simp [hic]
    · simp only [hic, decide_false, Bool.false_or, if_false] at hc ⊢
      exact h.wi.ep c hc
  · -- no script grows
    intro c
    rw [hS]
    by_cases hci : c = i
    · subst hci; simp only [if_true]; have := h.le c; omega
    · simp only [hci, if_false]; exact h.le c
  · -- a polled child has consumed a step
    intro c hc
    rw [hPS] at hc
    rw [hS]
    by_cases hci : c = i
    · subst hci; simp only [if_true]; have := h.le c; exact ⟨hi, by omega⟩
    · have hic : ¬ i = c := fun hh => hci hh.symm
      simp only [hic, decide_false, Bool.false_or] at hc
      simp only [hci, if_false]
      exact h.ps c hc
  · intro _
    exact ⟨i, by rw [hPS]; simp⟩
  · rw [atPollBegin_pollChild]; exact h.ab
  · have := spent_pollChild_emits w i i [] (by simp)
    simpa using this.trans h.sp
  · rw [panicSince_pollChild _ _ _ hnp]; exact h.pn

/-- `PInvS` only looks at the scripts, the waker lists and the trace -/
theorem pinvs_congr {n : Nat} {len0 : Nat → Nat} {t0 : List Ev} {w w' : World}
    (hs : w'.scripts = w.scripts) (hh : w'.handed = w.handed) (ht : w'.trace = w.trace)
    (h : PInvS n len0 t0 w) : PInvS n len0 t0 w' := by
  refine ⟨⟨?_, ?_, ?_, ?_⟩, ?_, ?_, ?_, ?_, ?_, ?_⟩
  · intro c hc; unfold Str; rw [hs, ht]; exact h.wi.str c hc
  · intro c; rw [hh, ht]; exact h.wi.hw c
  · intro c; rw [ht]; exact h.wi.lw c
  · intro c; rw [ht]; exact h.wi.ep c
  · intro c; rw [hs]; exact h.le c
  · intro c; rw [hs, ht]; exact h.ps c
  · rw [ht]; exact h.wk
  · rw [ht]; exact h.ab
  · rw [ht]; exact h.sp
  · rw [ht]; exact h.pn

/-- what is known right after a top-level poll -/
structure PEndS (n : Nat) (len0 : Nat → Nat) (t0 : List Ev) (w : World) : Prop where
  wi : WInvS n w
  le : ∀ c, (w.scripts c).length ≤ len0 c
  ps : ∀ c, polledSince w.trace c = true → c < n ∧ (w.scripts c).length < len0 c
  wk : wokeSince w.trace = true → ∃ c, polledSince w.trace c = true
  ab : atPollBegin w.trace = t0
  shape : ∃ o t, w.trace = .pollEnd o :: t ∧ spent false t = false ∧ panicSince t = false
  /-- a poll that yields has polled a child -/
  sm : ∀ k vs, lastOut w.trace = some (.some k vs) → ∃ c, polledSince w.trace c = true

theorem pends_of_pinvs {n : Nat} {len0 : Nat → Nat} {t0 : List Ev} {w : World}
    (h : PInvS n len0 t0 w) (o : Outcome)
    (hz : ∀ k vs, o = .some k vs → ∃ c, polledSince w.trace c = true) :
    PEndS n len0 t0 (w.emit (.pollEnd o)) := by
  refine ⟨⟨?_, ?_, ?_, ?_⟩, h.le, ?_, ?_, ?_, ⟨o, w.trace, rfl, h.sp, h.pn⟩, ?_⟩
  rotate_right
  · intro k vs hlo
    simp only [World.emit_trace, lastOut, Option.some.injEq] at hlo
    obtain ⟨c, hc⟩ := hz k vs hlo
    exact ⟨c, by simpa [polledSince] using hc⟩
  · intro c hc
    have := h.wi.str c hc
    unfold Str at this ⊢
    simpa [lastRes, gone] using this
  · intro c; simpa [lastWk] using h.wi.hw c
  · intro c; simpa [lastRes, lastWk] using h.wi.lw c
  · intro c; simpa [lastRes, everPolled] using h.wi.ep c
  · intro c; simpa [polledSince] using h.ps c
  · simpa [wokeSince, polledSince] using h.wk
  · simpa [atPollBegin] using h.ab

theorem pinvs_begin {n : Nat} {w : World} (wid : Nat) (hw : WInvS n w)
    (hsp : spent false w.trace = false) :
    PInvS n (fun c => (w.scripts c).length) w.trace ((w.emit (.pollBegin wid)).setWaker wid) := by
  refine ⟨⟨?_, ?_, ?_, ?_⟩, fun c => Nat.le_refl _, ?_, ?_, rfl, ?_, rfl⟩
  · intro c hc
    have := hw.str c hc
    unfold Str at this ⊢
    simpa [lastRes, gone] using this
  · intro c; simpa [lastWk] using hw.hw c
  · intro c; simpa [lastRes, lastWk] using hw.lw c
  · intro c; simpa [lastRes, everPolled] using hw.ep c
  · intro c hc; simp [polledSince] at hc
  · intro hc; simp [wokeSince] at hc
  · simpa [spent, finalSeen, alive, panickedSeen] using hsp

/-- a wake-up between polls -/
theorem winvs_fire {n : Nat} (w : World) (c a : Nat) (h : WInvS n w) : WInvS n (w.fire c a) := by
  obtain ⟨l, hl, hp⟩ := World.fire_seg w c a
  have hLR : ∀ j, lastRes (w.fire c a).trace j = lastRes w.trace j := C16.lastRes_fire w c a
  have hLW : ∀ j, lastWk (w.fire c a).trace j = lastWk w.trace j := by
    intro j; rw [hl]
    exact skip_seg (fun t => lastWk t j) isFireEv (fun e t h => lastWk_fireEv j e t h) l hp _
  refine ⟨?_, ?_, ?_, ?_⟩
  · intro j hj
    have := h.str j hj
    unfold Str at this ⊢
    rw [hLR, World.fire_scripts]
    have hg : gone (w.fire c a).trace j = gone w.trace j := by rw [hl]; exact gone_fires l _ j hp
    rw [hg]; exact this
  · intro j; rw [hLW, World.fire_handed]; exact h.hw j
  · intro j; rw [hLR, hLW]; exact h.lw j
  · intro j; rw [hLR, everPolled_fire]; exact h.ep j

theorem winvs_init (mode : Mode) (n : Nat) (scripts : Nat → List Step)
    (hs : ∀ c, c < n → streamScript (scripts c) = true) :
    WInvS n (World.init mode n scripts) := by
  refine ⟨fun c hc => Or.inl ⟨hs c hc, Or.inl rfl, rfl⟩, fun c => rfl, ?_, ?_⟩
  · intro c hc; exact absurd rfl hc
  · intro c hc; simp [World.init, everPolled] at hc

/-- prodding a waiting child: its wake-up is owed afterwards, hence (C01 `quiet`) the task has
    been woken -/
theorem fire_woke {n : Nat} (w : World) (c : Nat) (hwi : WInvS n w)
    (hq : quiet n (w.fire c 0).trace = true) (hsp : spent false w.trace = false)
    (hlo : lastOut w.trace = some .pending) (hc : c < n) (hlr : lastRes w.trace c = some .pend) :
    owes (w.fire c 0).trace c = true ∧ lastRes (w.fire c 0).trace c = some .pend ∧
      wokeSince (w.fire c 0).trace = true := by
  have hLR : lastRes (w.fire c 0).trace c = some .pend := by
    rw [C16.lastRes_fire]; exact hlr
  obtain ⟨wk, hwk⟩ : ∃ wk, lastWk w.trace c = some wk := by
    cases hh : lastWk w.trace c with
    | none => exact absurd hh (hwi.lw c (by rw [hlr]; simp))
    | some wk => exact ⟨wk, rfl⟩
  have hget : (w.handed c)[0]? = some wk := by
    rw [← List.head?_eq_getElem?, hwi.hw c, hwk]
  have howes : owes (w.fire c 0).trace c = true := by
    unfold World.fire
    rw [hget]
    simp only
    obtain ⟨l, hl, hp⟩ := World.fireWk_seg (w.emit (.fired c 0 (some wk))) wk
    rw [hl]
    refine owes_fires_mono c l _ hp ?_
    simp [owes, hwk]
  obtain ⟨l, hl, hp⟩ := World.fire_seg w c 0
  have hlo' : lastOut (w.fire c 0).trace = some .pending := by
    rw [C01.lastOut_fire]; exact hlo
  have halive : alive (w.fire c 0).trace = true := by
    rw [C01.alive_fire]
    simp only [spent, Bool.or_eq_false_iff, Bool.not_eq_false'] at hsp
    exact hsp.1.2
  have hgone : gone (w.fire c 0).trace c = false := by
    rw [hl, gone_fires l _ c hp]
    rcases hwi.str c hc with hf | hf
    · exact hf.2.2
    · rw [hlr] at hf; cases hf
  refine ⟨howes, hLR, ?_⟩
  simp only [quiet, halive, hlo', beq_self_eq_true, Bool.and_self, Bool.not_true, Bool.false_or,
    List.all_eq_true, List.mem_range] at hq
  have := hq c hc
  simpa [hLR, hgone, howes] using this

end Live3
end Fc
