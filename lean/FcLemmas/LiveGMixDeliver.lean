/-
  FcLemmas/LiveGMixDeliver.lean — what has been delivered when a run of Fc/ExecGMix.lean (plans of
  `insert` / `extend` / `reserve`) has drained: a SAFETY invariant carried along the run, next to the
  progress argument of FcLemmas/LiveGMixMain.lean.

  The invariant is `LiveGStuck.LGWS` (FcLemmas/LiveGStuckInst.lean: `LGW` plus "a member is released
  only when its script is exhausted" and "delivered so far ++ still scripted = scripted at the
  start"), for the state restricted to ALL ids that `pre` and the plan will ever insert (`ids`), with
  `sc0 = restrS ids scripts`.  No exchange of the restriction is needed here: `LMS ids ins` records
  the ids inserted so far (`ins ⊆ ids`) and that the scripts of the others are untouched.

    * `lgws_insert` … `lgws_run` — `insert` / `extend` / `reserve` in any state between two
      operations keep `LGWS` (the fresh id was never polled: it has delivered nothing, its whole
      initial script is ahead of it);
    * `lms_round`, `lms_perform`, `lms_runMix` — the invariant along `runMix`; the ids inserted so
      far and the ids of the rest of the plan together are the ids of `pre` and the whole plan;
    * `group_mix_delivers` — at the end of the run of `group_mix_ends`: `LiveGStuck.delivered_of`.
-/
import FcLemmas.LiveGMixMain
import FcLemmas.LiveGStuckMain
set_option linter.unusedSimpArgs false
set_option linter.unusedVariables false

namespace Fc
namespace LiveGMix
open Mon Live Live3 G Grp C01 LiveG LiveGAny LiveGStuck

variable {stream keyed : Bool} {m : Mode} {n : Nat} {sc0 : Nat → List Step}

theorem members_nil (e : Eng Grp) (h : ∀ j, e.s.member j = none) : ExecGAny.members e = [] := by
  unfold ExecGAny.members
  rw [List.filterMap_eq_nil_iff]
  intro k _
  exact h k

/-! ### `reserve` / `insert` keep `LGWS` in any state -/

theorem lgws_reserve (e : Eng Grp) (a : Nat) (h : LGWS stream keyed m n sc0 e) :
    LGWS stream keyed m n sc0 (GEng.reserve e a) := by
  obtain ⟨hh, hmem, hkeys, _, hset⟩ := reserve_facts e a
  have ht := GEng.reserve_trace e a
  obtain ⟨U, hU, hUk⟩ := h.g11
  refine ⟨by rw [GEng.reserve_mode]; exact h.mode, fun hm => sb_reserve e a (h.std hm),
    fun hm => db_reserve e a (h.dir hm), ⟨U, G11.reserve_inv e a hU, by rw [ht]; exact hUk⟩,
    by rw [reserve_dead]; exact h.dead, by rw [ht]; exact h.al, by rw [ht]; exact h.bnd, ?_, ?_,
    by rw [ht]; exact h.nk⟩
  · rw [hmem]
    exact wgs_congr (GEng.reserve_scripts e a) hh ht h.wg
  · intro k c hk hn
    rw [hmem] at hk
    rw [ht] at hn
    exact hset k (h.ib k c hk hn)

theorem lgws_insert (e : Eng Grp) (c : Nat) (b : Bool) (h : LGWS stream keyed m n sc0 e)
    (hcn : c < n) (hwb : wbScript stream (sc0 c) = true) (hsc : e.w.scripts c = sc0 c)
    (hf : keyOf e.w.trace c = none) :
    LGWS stream keyed m n sc0 (GEng.insertAt (GEng.grow e) c b) := by
  obtain ⟨hh, hmem, hkeys, hnext, hset⟩ := grow_facts e
  have hcb := lgws_cb e h
  obtain ⟨U, hU, hUk⟩ := h.g11
  have hcU : c ∉ U := fun hc => hUk c hc hf
  obtain ⟨hU', hd'⟩ := G11.insertAt_inv e c b hU h.dead hcU
  have ht : (GEng.insertAt (GEng.grow e) c b).w.trace = .inserted c e.s.next :: e.w.trace := by
    rw [GEng.insertAt_trace, grow_trace, hnext]
  have hkeyOf : ∀ j, keyOf (GEng.insertAt (GEng.grow e) c b).w.trace j
      = if c = j then some e.s.next else keyOf e.w.trace j := by
    intro j; rw [ht]; rfl
  have hscr : (GEng.insertAt (GEng.grow e) c b).w.scripts = e.w.scripts := by
    rw [GEng.insertAt_scripts, GEng.grow_scripts]
  have hm' : (GEng.insertAt (GEng.grow e) c b).s.member = upd e.s.member e.s.next (some c) := by
    rw [insertAt_s, insSt_member, hmem, hnext]
  have hhand : (GEng.insertAt (GEng.grow e) c b).w.handed = e.w.handed := by
    rw [insertAt_w]
    simp only [World.emit_handed, World.setReady_handed, hh]
  have hlr0 : lastRes e.w.trace c = none := by
    cases hl : lastRes e.w.trace c with
    | none => rfl
    | some r => exact absurd hf (hcb.link.fr c (by rw [hl]; simp))
  have hg0 : gone e.w.trace c = false := by
    cases hg : gone e.w.trace c with
    | false => rfl
    | true => exact absurd hf (h.nk c hg)
  have hLR : ∀ j, lastRes (GEng.insertAt (GEng.grow e) c b).w.trace j = lastRes e.w.trace j := by
    intro j; rw [ht]; rfl
  have hG : ∀ j, gone (GEng.insertAt (GEng.grow e) c b).w.trace j = gone e.w.trace j := by
    intro j; rw [ht]; rfl
  have hwg0 : WGS stream sc0 e.s.member (GEng.insertAt (GEng.grow e) c b).w := by
    have h1 : WGS stream sc0 e.s.member (e.w.emit (.inserted c e.s.next)) := wgs_emit _ rfl h.wg
    exact wgs_congr (w := e.w.emit (.inserted c e.s.next)) hscr hhand ht h1
  refine ⟨by rw [GEng.insertAt_mode, GEng.grow_mode]; exact h.mode,
    fun hm => sb_steps.ins e c b (h.std hm) h.dead hf,
    fun hm => db_steps.ins e c b (h.dir hm) h.dead hf, ⟨c :: U, hU', ?_⟩, hd', ?_, ?_, ?_, ?_, ?_⟩
  · intro j hj
    rw [hkeyOf]
    by_cases hcj : c = j
    · simp [hcj]
    · simp only [hcj, if_false]
      rcases List.mem_cons.mp hj with hj | hj
      · exact absurd hj.symm hcj
      · exact hUk j hj
  · rw [ht]; simpa [alive] using h.al
  · intro j hj
    rw [hkeyOf] at hj
    by_cases hcj : c = j
    · subst hcj; exact hcn
    · simp only [hcj, if_false] at hj; exact h.bnd j hj
  · rw [hm']
    refine ⟨?_, hwg0.hw, hwg0.lw, hwg0.ep, hwg0.lf, hwg0.dl⟩
    intro k j hk
    by_cases hkn : k = e.s.next
    · subst hkn
      rw [upd_same] at hk
      cases hk
      rw [hscr, hLR, hG, hlr0, hsc]
      exact ⟨Or.inl ⟨hwb, hwb⟩, Or.inl rfl, hg0⟩
    · rw [upd_other _ _ _ _ hkn] at hk
      exact hwg0.mem k j hk
  · intro k j hk hn
    rw [hm'] at hk
    rw [hLR] at hn
    rw [insertAt_w, World.isSet_emit, hnext]
    by_cases hkn : k = e.s.next
    · subst hkn; exact isSet_arm_self _ _
    · rw [upd_other _ _ _ _ hkn] at hk
      exact World.isSet_setReady_mono _ _ _ (hset k (h.ib k j hk hn))
  · intro j hj
    rw [hG] at hj
    rw [hkeyOf]
    by_cases hcj : c = j
    · simp [hcj]
    · simp only [hcj, if_false]; exact h.nk j hj

/-- what an insert-like step / list of steps does, next to keeping `LGWS` -/
structure Built (new : List Nat) (e e' : Eng Grp) : Prop where
  scr : e'.w.scripts = e.w.scripts
  kold : ∀ x, x ∉ new → keyOf e'.w.trace x = keyOf e.w.trace x
  knew : ∀ x, x ∈ new → keyOf e'.w.trace x ≠ none
  mem : ∀ k x, e'.s.member k = some x → e.s.member k = some x ∨ x ∈ new

theorem lgws_extend_fold : ∀ (cs : List Nat) (e : Eng Grp), LGWS stream keyed m n sc0 e → cs.Nodup →
    (∀ c ∈ cs, c < n ∧ wbScript stream (sc0 c) = true ∧ e.w.scripts c = sc0 c ∧
      keyOf e.w.trace c = none) →
    LGWS stream keyed m n sc0 (cs.foldl (fun e c => GEng.insertAt (GEng.grow e) c false) e) ∧
    Built cs e (cs.foldl (fun e c => GEng.insertAt (GEng.grow e) c false) e) := by
  intro cs
  induction cs with
  | nil =>
    intro e h _ _
    exact ⟨h, rfl, fun _ _ => rfl, (fun _ hx => by cases hx), fun _ _ hk => Or.inl hk⟩
  | cons c cs ih =>
    intro e h hnd hf
    simp only [List.foldl_cons]
    have hnd' := List.nodup_cons.mp hnd
    obtain ⟨h1, h2, h3, h4⟩ := hf c (List.mem_cons_self ..)
    have hb := lgws_insert e c false h h1 h2 h3 h4
    have hscr : (GEng.insertAt (GEng.grow e) c false).w.scripts = e.w.scripts := by
      rw [GEng.insertAt_scripts, GEng.grow_scripts]
    obtain ⟨hl, hB⟩ := ih _ hb hnd'.2 (fun x hx => by
      have hxc : x ≠ c := by intro hh; subst hh; exact hnd'.1 hx
      obtain ⟨g1, g2, g3, g4⟩ := hf x (List.mem_cons_of_mem _ hx)
      exact ⟨g1, g2, by rw [hscr]; exact g3, by rw [keyOf_insertAt _ _ _ _ hxc]; exact g4⟩)
    refine ⟨hl, by rw [hB.scr, hscr], fun x hx => ?_, fun x hx => ?_, fun k x hk => ?_⟩
    · simp only [List.mem_cons, not_or] at hx
      rw [hB.kold x hx.2, keyOf_insertAt _ _ _ _ hx.1]
    · by_cases hxs : x ∈ cs
      · exact hB.knew x hxs
      · rcases List.mem_cons.mp hx with hx | hx
        · subst hx
          rw [hB.kold x hxs]; exact keyOf_insertAt_self e x false
        · exact absurd hx hxs
    · rcases hB.mem k x hk with hk' | hk'
      · rcases insertAt_member_frame e c false k x hk' with h5 | h5
        · exact Or.inl h5
        · exact Or.inr (by rw [h5]; exact List.mem_cons_self ..)
      · exact Or.inr (List.mem_cons_of_mem _ hk')

theorem lgws_step (e : Eng Grp) (op : Op) (h : LGWS stream keyed m n sc0 e)
    (hop : op.isInsertLike = true) (hnd : (insertedIds op).Nodup)
    (hf : ∀ c ∈ insertedIds op, c < n ∧ wbScript stream (sc0 c) = true ∧ e.w.scripts c = sc0 c ∧
      keyOf e.w.trace c = none) :
    LGWS stream keyed m n sc0 (GEng.step e op) ∧ Built (insertedIds op) e (GEng.step e op) := by
  cases op with
  | insert c =>
    simp only [GEng.step, h.dead, Bool.false_eq_true, if_false, GEng.insert]
    obtain ⟨h1, h2, h3, h4⟩ := hf c (by simp [insertedIds])
    refine ⟨lgws_insert e c true h h1 h2 h3 h4,
      by rw [GEng.insertAt_scripts, GEng.grow_scripts],
      fun x hx => keyOf_insertAt e c true x (by simpa [insertedIds] using hx), fun x hx => ?_,
      fun k x hk => ?_⟩
    · have : x = c := by simpa [insertedIds] using hx
      subst this
      exact keyOf_insertAt_self e x true
    · rcases insertAt_member_frame e c true k x hk with h5 | h5
      · exact Or.inl h5
      · exact Or.inr (by simp [insertedIds, h5])
  | reserve k =>
    simp only [GEng.step, h.dead, Bool.false_eq_true, if_false]
    exact ⟨lgws_reserve e k h, GEng.reserve_scripts e k, fun x _ => by rw [GEng.reserve_trace],
      fun x hx => by simp [insertedIds] at hx,
      fun k' x hk => Or.inl (by rw [(reserve_facts e k).2.1] at hk; exact hk)⟩
  | extend cs =>
    simp only [GEng.step, h.dead, Bool.false_eq_true, if_false, GEng.extend]
    obtain ⟨hl, hB⟩ := lgws_extend_fold cs (GEng.reserve e cs.length) (lgws_reserve e _ h)
      (by simpa [insertedIds] using hnd)
      (fun c hc => by
        rw [GEng.reserve_trace, GEng.reserve_scripts]; exact hf c (by simpa [insertedIds] using hc))
    refine ⟨hl, by rw [hB.scr, GEng.reserve_scripts], fun x hx => ?_, fun x hx => ?_,
      fun k x hk => ?_⟩
    · rw [hB.kold x (by simpa [insertedIds] using hx), GEng.reserve_trace]
    · exact hB.knew x (by simpa [insertedIds] using hx)
    · rcases hB.mem k x hk with h5 | h5
      · exact Or.inl (by rw [(reserve_facts e cs.length).2.1] at h5; exact h5)
      · exact Or.inr (by simpa [insertedIds] using h5)
  | _ => simp [Op.isInsertLike] at hop

theorem lgws_run : ∀ (ops : List Op) (e : Eng Grp), LGWS stream keyed m n sc0 e →
    (∀ op ∈ ops, op.isInsertLike = true) → (ops.flatMap insertedIds).Nodup →
    (∀ c ∈ ops.flatMap insertedIds, c < n ∧ wbScript stream (sc0 c) = true ∧
      e.w.scripts c = sc0 c ∧ keyOf e.w.trace c = none) →
    LGWS stream keyed m n sc0 (ops.foldl GEng.step e) ∧
    Built (ops.flatMap insertedIds) e (ops.foldl GEng.step e) := by
  intro ops
  induction ops with
  | nil =>
    intro e h _ _ _
    exact ⟨h, rfl, fun _ _ => rfl, (fun _ hx => by cases hx), fun _ _ hk => Or.inl hk⟩
  | cons op ops ih =>
    intro e h hop hnd hf
    simp only [List.foldl_cons]
    simp only [List.flatMap_cons] at hnd hf ⊢
    rw [List.nodup_append] at hnd
    obtain ⟨hn1, hn2, hdis⟩ := hnd
    obtain ⟨hl1, hB1⟩ := lgws_step e op h (hop op (List.mem_cons_self ..)) hn1
      (fun c hc => hf c (List.mem_append_left _ hc))
    obtain ⟨hl2, hB2⟩ := ih _ hl1 (fun op' hop' => hop op' (List.mem_cons_of_mem _ hop')) hn2
      (fun c hc => by
        obtain ⟨g1, g2, g3, g4⟩ := hf c (List.mem_append_right _ hc)
        refine ⟨g1, g2, by rw [hB1.scr]; exact g3, ?_⟩
        rw [hB1.kold c (fun hh => hdis c hh c hc rfl)]
        exact g4)
    refine ⟨hl2, by rw [hB2.scr, hB1.scr], fun x hx => ?_, fun x hx => ?_, fun k x hk => ?_⟩
    · simp only [List.mem_append, not_or] at hx
      rw [hB2.kold x hx.2, hB1.kold x hx.1]
    · by_cases hx2 : x ∈ ops.flatMap insertedIds
      · exact hB2.knew x hx2
      · rcases List.mem_append.mp hx with hx | hx
        · rw [hB2.kold x hx2]; exact hB1.knew x hx
        · exact absurd hx hx2
    · rcases hB2.mem k x hk with h4 | h4
      · rcases hB1.mem k x h4 with h5 | h5
        · exact Or.inl h5
        · exact Or.inr (List.mem_append_left _ h5)
      · exact Or.inr (List.mem_append_right _ h4)

/-! ### the invariant along the run -/

/-- `ids`: all ids that will ever be inserted; `ins`: the ids inserted so far -/
structure LMS (stream keyed : Bool) (m : Mode) (n : Nat) (ids ins : List Nat) (sc : Nat → List Step)
    (e : Eng Grp) : Prop where
  w : LGWS stream keyed m n (restrS ids sc) (rE ids e)
  mem : ∀ k c, e.s.member k = some c → c ∈ ins
  kin : ∀ c, keyOf e.w.trace c ≠ none ↔ c ∈ ins
  sub : ∀ c, c ∈ ins → c ∈ ids
  scr : ∀ c, c ∉ ins → e.w.scripts c = sc c

variable {ids ins : List Nat} {sc : Nat → List Step}

theorem lms_memIn (e : Eng Grp) (h : LMS stream keyed m n ids ins sc e) : MemIn ins e.s := by
  intro j hj
  obtain ⟨c, hc⟩ := member_of_elig (lgws_cb _ h.w).slab j hj
  exact ⟨c, h.mem j c hc, hc⟩

theorem lms_memIn' (e : Eng Grp) (h : LMS stream keyed m n ids ins sc e) : MemIn ids e.s := by
  intro j hj
  obtain ⟨c, hc, hm⟩ := lms_memIn e h j hj
  exact ⟨c, h.sub c hc, hm⟩

theorem lms_poll (e : Eng Grp) (wid : Nat) (h : LMS stream keyed m n ids ins sc e) :
    LMS stream keyed m n ids ins sc (Eng.poll group e wid) := by
  have hw : LGWS stream keyed m n (restrS ids sc) (rE ids (Eng.poll group e wid)) := by
    have hp := lgws_poll (rE ids e) wid h.w
    rw [rE_poll e wid (lms_memIn' e h)] at hp
    rcases hp with ⟨_, h2, _⟩ | ⟨h1, _, _⟩
    · exact h2
    · exact h1.w
  obtain ⟨hM, hS⟩ := poll_frame (ids := ins) e wid (lms_memIn e h)
  refine ⟨hw, ?_, fun c => by rw [keyOf_poll]; exact h.kin c, h.sub,
    fun c hc => by rw [hS c hc]; exact h.scr c hc⟩
  intro k c hk
  have hst : (Eng.poll group e wid).s.st k = .pending :=
    ((lgws_cb _ hw).slab.stm k).mpr (by simp [hk])
  obtain ⟨c', hc', hk'⟩ := hM k hst
  rw [hk] at hk'
  cases hk'
  exact hc'

theorem lms_fire (e : Eng Grp) (c a : Nat) (h : LMS stream keyed m n ids ins sc e) :
    LMS stream keyed m n ids ins sc (e.fire c a) :=
  ⟨by rw [← rE_fire]; exact lgws_fire _ c a h.w, h.mem,
    (fun j => by simpa [keyOf_fire] using h.kin j), h.sub,
    (fun j hj => by simpa using h.scr j hj)⟩

theorem lms_fires : ∀ (l : List (Nat × Nat)) (e : Eng Grp), LMS stream keyed m n ids ins sc e →
    LMS stream keyed m n ids ins sc (ExecGAny.fires e l) := by
  intro l
  induction l with
  | nil => intro e h; exact h
  | cons p l ih => intro e h; exact ih _ (lms_fire e p.1 p.2 h)

variable {pick : Nat → Eng Grp → Nat} {pre post : Nat → Eng Grp → List (Nat × Nat)}

theorem lms_round (r : Nat) (e e' : Eng Grp) (h : LMS stream keyed m n ids ins sc e)
    (hr : ExecGAny.roundB pick pre post r e = some e') : LMS stream keyed m n ids ins sc e' := by
  unfold ExecGAny.roundB at hr
  split at hr
  · cases hr
  · split at hr
    · cases hr; exact lms_poll e _ h
    · cases hch : ExecGAny.choose pick r e with
      | none => rw [hch] at hr; cases hr
      | some c =>
        rw [hch] at hr
        cases hr
        exact lms_fires _ _ (lms_fire _ c 0 (lms_fires _ e h))

theorem lms_perform (e : Eng Grp) (h : LMS stream keyed m n ids ins sc e) (ops : List Op)
    (hops : ∀ op ∈ ops, op.isInsertLike = true)
    (hnd : (ops.flatMap insertedIds).Nodup)
    (hnew : ∀ c ∈ ops.flatMap insertedIds,
      c ∉ ins ∧ c ∈ ids ∧ c < n ∧ wbScript stream (sc c) = true) :
    LMS stream keyed m n ids (ins ++ ops.flatMap insertedIds) sc (ExecGMix.perform e ops) := by
  have hkey : ∀ c, c ∈ ops.flatMap insertedIds → keyOf e.w.trace c = none := by
    intro c hc
    cases hk : keyOf e.w.trace c with
    | none => rfl
    | some k => exact absurd ((h.kin c).mp (by rw [hk]; simp)) (hnew c hc).1
  obtain ⟨hl, hB⟩ := lgws_run ops (rE ids e) h.w hops hnd (fun c hc => by
    obtain ⟨g1, g2, g3, g4⟩ := hnew c hc
    refine ⟨g3, by simpa [restrS, g2] using g4, ?_, hkey c hc⟩
    rw [rE_w, rW_scripts_mem e.w c g2, h.scr c g1]
    simp [restrS, g2])
  rw [rE_run ops e hops] at hl hB
  have hscr : (ops.foldl GEng.step e).w.scripts = e.w.scripts := run_scripts ops e hops
  have h2 : LMS stream keyed m n ids (ins ++ ops.flatMap insertedIds) sc (ops.foldl GEng.step e) := by
    refine ⟨hl, ?_, ?_, ?_, ?_⟩
    · intro k c hk
      rcases hB.mem k c hk with h1 | h1
      · exact List.mem_append_left _ (h.mem k c h1)
      · exact List.mem_append_right _ h1
    · intro c
      by_cases hc : c ∈ ops.flatMap insertedIds
      · exact ⟨fun _ => List.mem_append_right _ hc, fun _ => hB.knew c hc⟩
      · have := hB.kold c hc
        rw [show keyOf (rE ids (ops.foldl GEng.step e)).w.trace c
            = keyOf (ops.foldl GEng.step e).w.trace c from rfl,
          show keyOf (rE ids e).w.trace c = keyOf e.w.trace c from rfl] at this
        rw [this, h.kin c]
        simp [hc]
    · intro c hc
      rcases List.mem_append.mp hc with hc | hc
      · exact h.sub c hc
      · exact (hnew c hc).2.1
    · intro c hc
      rw [hscr]
      exact h.scr c (fun hh => hc (List.mem_append_left _ hh))
  exact lms_poll _ _ h2

/-- the plan is fresh with respect to the ids inserted so far -/
def FreshPlan (stream : Bool) (n : Nat) (ids ins : List Nat) (sc : Nat → List Step)
    (pl : ExecGMix.Plan) : Prop :=
  (∀ op ∈ ExecGMix.Plan.ops pl, op.isInsertLike = true) ∧ (planIds pl).Nodup ∧
  ∀ c ∈ planIds pl, c ∉ ins ∧ c ∈ ids ∧ c < n ∧ wbScript stream (sc c) = true

theorem freshPlan_delay {d d' : Nat} {ops : List Op} {pl : ExecGMix.Plan}
    (h : FreshPlan stream n ids ins sc ((d, ops) :: pl)) :
    FreshPlan stream n ids ins sc ((d', ops) :: pl) := by
  unfold FreshPlan at h ⊢
  simpa only [planOps_cons, planIds_cons] using h

theorem freshPlan_tail {d : Nat} {ops : List Op} {pl : ExecGMix.Plan}
    (h : FreshPlan stream n ids ins sc ((d, ops) :: pl)) :
    ((∀ op ∈ ops, op.isInsertLike = true) ∧ (ops.flatMap insertedIds).Nodup ∧
      ∀ c ∈ ops.flatMap insertedIds, c ∉ ins ∧ c ∈ ids ∧ c < n ∧ wbScript stream (sc c) = true) ∧
    FreshPlan stream n ids (ins ++ ops.flatMap insertedIds) sc pl := by
  obtain ⟨h1, h2, h3⟩ := h
  rw [planOps_cons] at h1
  rw [planIds_cons] at h2 h3
  rw [List.nodup_append] at h2
  obtain ⟨hn1, hn2, hdis⟩ := h2
  refine ⟨⟨fun op hop => h1 op (List.mem_append_left _ hop), hn1,
    fun c hc => h3 c (List.mem_append_left _ hc)⟩,
    fun op hop => h1 op (List.mem_append_right _ hop), hn2, fun c hc => ?_⟩
  obtain ⟨g1, g2⟩ := h3 c (List.mem_append_right _ hc)
  refine ⟨fun hh => ?_, g2⟩
  rcases List.mem_append.mp hh with hh | hh
  · exact g1 hh
  · exact hdis c hh c hc rfl

/-- the invariant along `runMix`; the ids inserted so far together with the ids of the rest of the
    plan are always the same set -/
theorem lms_runMix : ∀ (k r : Nat) (pl : ExecGMix.Plan) (ins : List Nat) (e : Eng Grp),
    LMS stream keyed m n ids ins sc e → FreshPlan stream n ids ins sc pl →
    ∃ ins', LMS stream keyed m n ids ins' sc (ExecGMix.runMix pick pre post k r pl e).1 ∧
      ∀ c, c ∈ ins' ++ planIds (ExecGMix.runMix pick pre post k r pl e).2 ↔ c ∈ ins ++ planIds pl := by
  intro k
  induction k with
  | zero => intro r pl ins e h _; exact ⟨ins, h, fun _ => Iff.rfl⟩
  | succ k ih =>
    intro r pl ins e h hf
    have hperf : ∀ (d : Nat) (ops : List Op) (pl' : ExecGMix.Plan), pl = (d, ops) :: pl' →
        ∃ ins', LMS stream keyed m n ids ins' sc
            (ExecGMix.runMix pick pre post k (r + 1) pl' (ExecGMix.perform e ops)).1 ∧
          ∀ c, c ∈ ins' ++ planIds
              (ExecGMix.runMix pick pre post k (r + 1) pl' (ExecGMix.perform e ops)).2
            ↔ c ∈ ins ++ planIds pl := by
      intro d ops pl' hpl
      subst hpl
      obtain ⟨⟨g1, g2, g3⟩, hf'⟩ := freshPlan_tail hf
      obtain ⟨ins', hl, hiff⟩ := ih (r + 1) pl' _ _ (lms_perform e h ops g1 g2 g3) hf'
      refine ⟨ins', hl, fun c => ?_⟩
      rw [hiff c, planIds_cons]
      simp only [List.mem_append, or_assoc]
    cases pl with
    | nil =>
      simp only [ExecGMix.runMix]
      cases hr : ExecGAny.roundB pick pre post r e with
      | none => exact ⟨ins, h, fun _ => Iff.rfl⟩
      | some e' => exact ih (r + 1) [] ins e' (lms_round r e e' h hr) hf
    | cons en pl' =>
      obtain ⟨d, ops⟩ := en
      cases d with
      | zero =>
        simp only [ExecGMix.runMix]
        exact hperf 0 ops pl' rfl
      | succ d =>
        simp only [ExecGMix.runMix]
        cases hr : ExecGAny.roundB pick pre post r e with
        | none => exact hperf (d + 1) ops pl' rfl
        | some e' =>
          obtain ⟨ins', hl, hiff⟩ := ih (r + 1) ((d, ops) :: pl') ins e' (lms_round r e e' h hr)
            (freshPlan_delay hf)
          refine ⟨ins', hl, fun c => ?_⟩
          rw [hiff c, planIds_cons, planIds_cons]

/-! ### the start -/

/-- the state built by `pre`, restricted to the superset `ids` of its ids -/
theorem start_lms (stream keyed : Bool) (m : Mode) (scripts : Nat → List Step) (pre : List Op)
    (n : Nat) (ids : List Nat)
    (hpre : ∀ op ∈ pre, op.isInsertLike = true)
    (hfresh : (pre.flatMap insertedIds).Nodup)
    (hsub : ∀ c ∈ pre.flatMap insertedIds, c ∈ ids)
    (hs : ∀ c ∈ ids, wbScript stream (scripts c) = true)
    (hn : ∀ c ∈ pre.flatMap insertedIds, c < n) :
    LMS stream keyed m n ids (pre.flatMap insertedIds) scripts
      (pre.foldl GEng.step (GEng.init stream keyed m scripts)) := by
  let sc' := restrS ids scripts
  have hsc' : ∀ c, c ∈ ids → sc' c = scripts c := fun c hc => by simp [sc', restrS, hc]
  have hok : ∀ c, c ∈ ids → okScript stream (sc' c) = true := by
    intro c hc
    rw [hsc' c hc]
    simp [okScript, hs c hc]
  have hk' : ∀ c st, st ∈ sc' c → st.res.fits stream = true := by
    intro c st hst
    by_cases hc : c ∈ ids
    · exact ok_fits _ (hok c hc) st hst
    · simp [sc', restrS, hc] at hst
  obtain ⟨hb0, hko, hkn⟩ := b0s_run' pre _ (b0s_init stream keyed m n sc' hk') hpre hfresh
    (fun c hc => ⟨hn c hc, hok c (hsub c hc), rfl⟩)
  have heq : rE ids (pre.foldl GEng.step (GEng.init stream keyed m scripts))
      = pre.foldl GEng.step (GEng.init stream keyed m sc') := by
    rw [← rE_run pre _ hpre, rE_init]
  rw [← heq] at hb0 hko hkn
  have hlga := lgas_of_b0s _ hb0
  have hkin : ∀ c, keyOf (pre.foldl GEng.step (GEng.init stream keyed m scripts)).w.trace c ≠ none ↔
      c ∈ pre.flatMap insertedIds := by
    intro c
    constructor
    · intro hc
      by_cases hci : c ∈ pre.flatMap insertedIds
      · exact hci
      · have := hko c hci
        rw [show keyOf (rE ids (pre.foldl GEng.step (GEng.init stream keyed m scripts))).w.trace c
          = keyOf (pre.foldl GEng.step (GEng.init stream keyed m scripts)).w.trace c from rfl] at this
        rw [this] at hc
        exact absurd rfl hc
    · intro hc; exact hkn c hc
  refine ⟨hlga.w, ?_, hkin, hsub, fun c _ => by rw [run_scripts pre _ hpre]; rfl⟩
  intro k c hk
  have := (lgws_cb _ hlga.w).link.f1 k c hk
  exact (hkin c).mp (by
    rw [show keyOf (pre.foldl GEng.step (GEng.init stream keyed m scripts)).w.trace c = some k
      from this]; simp)

/-! ### the theorem -/

theorem group_mix_delivers (stream keyed : Bool) (m : Mode) (scripts : Nat → List Step) (pre : List Op)
    (pl : ExecGMix.Plan)
    (hpre : ∀ op ∈ pre, op.isInsertLike = true)
    (hpl : ∀ op ∈ ExecGMix.Plan.ops pl, op.isInsertLike = true)
    (hfresh : ((pre ++ ExecGMix.Plan.ops pl).flatMap insertedIds).Nodup)
    (hs : ∀ c ∈ (pre ++ ExecGMix.Plan.ops pl).flatMap insertedIds,
      wbScript stream (scripts c) = true)
    (pick : Nat → Eng Grp → Nat) (bef aft : Nat → Eng Grp → List (Nat × Nat)) (r : Nat) :
    ∃ k, k ≤ 3 * (ExecG.stepsLeft (pre.foldl GEng.step (GEng.init stream keyed m scripts))
          + lenSum scripts (planIds pl)) + 1 + 2 * pl.length ∧
      (ExecGMix.runMix pick bef aft k r pl
        (pre.foldl GEng.step (GEng.init stream keyed m scripts))).2 = [] ∧
      lastOut (ExecGMix.runMix pick bef aft k r pl
        (pre.foldl GEng.step (GEng.init stream keyed m scripts))).1.w.trace = some .none ∧
      (∀ j, (ExecGMix.runMix pick bef aft k r pl
        (pre.foldl GEng.step (GEng.init stream keyed m scripts))).1.s.member j = none) ∧
      ∀ c ∈ (pre ++ ExecGMix.Plan.ops pl).flatMap insertedIds,
        gone (ExecGMix.runMix pick bef aft k r pl
          (pre.foldl GEng.step (GEng.init stream keyed m scripts))).1.w.trace c = true ∧
        (Exec.scriptVals (scripts c)).reverse.Sublist
          (yielded (ExecGMix.runMix pick bef aft k r pl
            (pre.foldl GEng.step (GEng.init stream keyed m scripts))).1.w.trace) := by
  have hplM : ∀ op ∈ ExecGMix.Plan.ops pl, op.isMembership = true := by
    intro op hop
    have := hpl op hop
    cases op <;> simp_all [Op.isInsertLike, Op.isMembership]
  obtain ⟨k, hk, h1, h2, h3⟩ := group_mix_ends stream keyed m scripts pre pl hpre hplM hfresh hs
    pick bef aft r
  refine ⟨k, hk, h1, h2, h3, ?_⟩
  rw [List.flatMap_append] at hfresh hs ⊢
  rw [List.nodup_append] at hfresh
  obtain ⟨hnd₁, hnd₂, hdis⟩ := hfresh
  let ids := pre.flatMap insertedIds ++ planIds pl
  have hle : ∀ c ∈ ids, c < ids.sum + 1 := by
    intro c hc
    have := le_sum_of_mem _ c hc
    omega
  have hstart := start_lms stream keyed m scripts pre (ids.sum + 1) ids hpre hnd₁
    (fun c hc => List.mem_append_left _ hc) hs (fun c hc => hle c (List.mem_append_left _ hc))
  obtain ⟨ins', hl, hiff⟩ := lms_runMix (pick := pick) (pre := bef) (post := aft) k r pl _ _ hstart
    ⟨hpl, hnd₂, fun c hc => ⟨fun hh => hdis c hh c hc rfl, List.mem_append_right _ hc,
      hle c (List.mem_append_right _ hc), hs c (List.mem_append_right _ hc)⟩⟩
  rw [h1] at hiff
  intro c hc
  have hci : c ∈ ins' := by
    have := (hiff c).mpr hc
    simpa [planIds, ExecGMix.Plan.ops] using this
  have hkey := (hl.kin c).mpr hci
  have hz : ∀ k' c', (rE ids (ExecGMix.runMix pick bef aft k r pl
      (pre.foldl GEng.step (GEng.init stream keyed m scripts))).1).s.member k' = some c' →
      (rE ids (ExecGMix.runMix pick bef aft k r pl
        (pre.foldl GEng.step (GEng.init stream keyed m scripts))).1).w.scripts c' = [] := by
    intro k' c' hk'
    rw [show (rE ids (ExecGMix.runMix pick bef aft k r pl
      (pre.foldl GEng.step (GEng.init stream keyed m scripts))).1).s.member k'
        = (ExecGMix.runMix pick bef aft k r pl
      (pre.foldl GEng.step (GEng.init stream keyed m scripts))).1.s.member k' from rfl, h3 k'] at hk'
    cases hk'
  have hcid : c ∈ ids := hc
  have hsc : restrS ids scripts c = scripts c := by simp only [restrS, hcid, if_true]
  obtain ⟨g1, _, _, g4⟩ := delivered_of _ hl.w hz c hkey (by rw [hsc]; exact hs c hc)
  rw [hsc] at g4
  exact ⟨g1, g4⟩

end LiveGMix
end Fc
