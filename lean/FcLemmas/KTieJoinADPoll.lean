/-
  FcLemmas/KTieJoinADPoll.lean — array join, no_std / alloc-only flavour: the translated `Join::poll`
  (FcGen/KSrcArr1D.lean, namespace `JoinAD`) refines `Eng.poll joinSlice` of the model in `direct` mode.
  Port of FcLemmas/KTieJoinAPoll.lean (std flavour), and simpler: `any_ready` is `true` (the early return is never taken),
  `clear_ready` answers `true` and changes nothing (every child still pending is polled), `WakerArray::get` is the stored
  parent waker (`Wk.par p`), and a wake-up during a child's poll never touches the readiness set.
  The model side of the code around the loop (`poll_loopJ`, `close_pendJ`, `close_doneJ`) and of one iteration
  (`visit_*J`) depends neither on the container nor on the flavour and is imported from the Vec files.  As there, the two
  copies of the scan in the generated definition are generalised once, the loop body is taken from the generated
  definition by unification, and the proofs use the role abbreviations only (`unroles`).
-/
import FcLemmas.KTieJoinADDefs
import FcLemmas.KTieJoinPoll

set_option linter.unusedSimpArgs false
set_option linter.unusedVariables false

namespace Fc
open Rs Src

namespace TieJoinAD
open JoinAD
open TieJoinV (doneAgree poll_loopJ close_pendJ close_doneJ visit_skipJ visit_pendJ visit_readyJ)

local macro "unroles" : tactic =>
  `(tactic| try simp only [Join.roleKids, Join.roleCount, Join.roleWakers, Join.roleStates,
      Join.roleDone, Join.roleItems] at *)

/-- the model side of the completion: the scan ended in a state that `g'` reads with no child pending -/
theorem post_doneJ {n : Nat} {S : Eng Fix × Option Outcome} {g' : Join} {env' : World} (b : Eng Fix)
    (hR : RelJ n b.s.off b.w S.1 g' env') (hx : S.2 = none) (hz : g'.roleCount = 0) :
    ∃ X : Eng Fix,
      Eng.close joinSlice S = X.emit (.pollEnd (.ready true
        ((List.range g'.roleItems.cap).map (fun i => (g'.roleItems.get i).getD 0)))) ∧
      X.w = TieDir.absA g'.roleWakers.readiness env' ∧
      ∀ g'' : Join, g''.roleWakers = g'.roleWakers → g''.roleKids = g'.roleKids → g''.roleCount = g'.roleCount →
        g''.roleDone = true → (∀ i, g''.roleItems.get i = none) →
        (∀ i, i < n → g''.roleStates.get i = PS.PollState.none_) → doneAgree (absJ g'' b) X := by
  obtain ⟨hw, hen, hk, hst, hout, hcnt, hoff, hdead', hdone, hsl', hic', hpc', hrs', hpar, hhin, hsok, hfr⟩ := hR
  refine ⟨{ w := S.1.w, s := { S.1.s with dead := true, st := fun _ => .none } }, ?_, hw, ?_⟩
  · rw [close_doneJ S hx (by rw [hcnt]; exact hz)]
    simp only [Fix.outs, hen, hout, hic']
  · intro g'' h1 h2 h3 h4 h5 h6
    refine ⟨?_, ?_, h4, rfl, h5⟩
    · simp only [fcore, absJ, hw, hen, hcnt, hoff, h1, h2, h3, hk, Env.abs_cap, Env.abs_bits, Env.abs_count,
        hfr.1, hfr.2.1, hfr.2.2]
      rfl
    · intro i hi
      simp only [absJ]
      rw [h6 i (by rw [← hen]; exact hi)]
      rfl

/-- what is shown of a call that returned `a = (g', env', ret)` -/
def PostJ (N : Nat) (g : Join) (b : Eng Fix) (w : Nat) (a : Join × World × Rs.Poll (List Nat)) : Prop :=
  ∃ X : Eng Fix, Eng.poll joinSlice (absJ g b) w = X.emit (.pollEnd (outcomeOfJoin a.2.2)) ∧
    X.w = TieDir.absA a.1.roleWakers.readiness a.2.1 ∧
    (a.2.2 = .pending → RelJ N b.s.off b.w X a.1 a.2.1) ∧
    (a.2.2 ≠ .pending → doneAgree (absJ a.1 b) X ∧ a.1.roleKids.len = N ∧
      (HandedIn N b.w → HandedIn N a.2.1) ∧ FutStepsF a.2.1)

/-- one iteration of the translated loop body is one `Eng.visit joinSlice` -/
theorem poll_coreJ (N : Nat) (g : Join) (b : Eng Fix) (w : Nat) (hW : WfJ N g) (hS : FutStepsF b.w)
    (hd : g.roleDone = false) :
    ∃ a, Join.poll N g w ((absJ g b).w.emit (.pollBegin w)) = some a ∧ PostJ N g b w a := by
  obtain ⟨hkn, hsl, hic, hpc, hrs⟩ := hW
  obtain ⟨r1, hs1, hs3⟩ := (TieDir.arr_tie N g.roleWakers.readiness
    ((absJ g b).w.emit (.pollBegin w)) 0 w).2.2.2.2.2.2.2.2.1
  have hparent : r1.roleParent ≠ none := by
    have := congrArg World.parent hs3
    simp [World.setWaker] at this
    rw [this]; simp
  have hany : DirArr.ReadinessArray.any_ready N r1 = some true :=
    (TieDir.arr_tie N r1 ((absJ g b).w.emit (.pollBegin w)) 0 w).2.2.2.2.2.2.2.1
  have hdead : (absJ g b).s.dead = false := hd
  have hw1 : TieDir.absA r1 ((absJ g b).w.emit (.pollBegin w))
      = ((absJ g b).w.emit (.pollBegin w)).setWaker w := by
    rw [hs3]; rfl
  have hl : ∀ i ∈ List.range g.roleKids.len, i < N := fun i hi => hkn ▸ List.mem_range.mp hi
  unfold Join.poll
  unroles
  simp only [hd, hs1, hany, Bool.not_false, Bool.not_true, Bool.false_eq_true, ↓reduceIte, Option.bind_eq_bind,
    Option.bind_some, Option.pure_def]
  generalize hB : Option.bind (Rs.forBreak _ _ _) _ = B
  -- the scan and what follows it
  have hBspec : ∃ a, B = some a ∧ PostJ N g b w a := by
    have hpoll : Eng.poll joinSlice (absJ g b) w
        = Eng.close joinSlice (Eng.scan joinSlice (List.range g.roleKids.len)
            { w := ((absJ g b).w.emit (.pollBegin w)).setWaker w, s := (absJ g b).s }) :=
      poll_loopJ (absJ g b) w hdead (Or.inr rfl)
    subst hB
    refine loop_bindJ N b.s.off b.w _ ?hF _
      { w := ((absJ g b).w.emit (.pollBegin w)).setWaker w, s := (absJ g b).s } _ _ ?hR hl _ _ ?hK
    case hR =>
      exact ⟨hw1.symm, hkn, hkn, rfl, rfl, rfl, rfl, hd, rfl, hsl, hic, hpc, hrs, hparent,
        fun h => h, hS, ⟨rfl, rfl, rfl⟩⟩
    case hF =>
      clear hs1 hs3 hkn hsl hic hpc hrs hS hd hpoll hl hparent hany hdead hw1
      generalize b.s.off = o at *
      clear g
      intro e g env i hR hi
      dsimp only
      have hR0 := hR
      obtain ⟨hw, hen, hk, hst, hout, hcnt, hoff, hdead, hdone, hsl, hic, hpc, hrs, hpar, hhin, hsok, hfr⟩ := hR
      have hc1 : DirArr.ReadinessArray.clear_ready N g.roleWakers.readiness i
          = some (g.roleWakers.readiness, true) :=
        (TieDir.arr_tie N g.roleWakers.readiness env i 0).2.1
      have hpw : DirArr.ReadinessArray.parent_waker_fn N g.roleWakers.readiness
          = some g.roleWakers.readiness.roleParent :=
        (TieDir.arr_tie N g.roleWakers.readiness env i 0).2.2.2.2.2.2.2.2.2
      obtain ⟨p, hpp⟩ : ∃ p, g.roleWakers.readiness.roleParent = some p := by
        cases h : g.roleWakers.readiness.roleParent with
        | none => exact absurd h hpar
        | some p => exact ⟨p, rfl⟩
      have hidx : Rs.PVec.idx g.roleStates i = some (g.roleStates.get i) := by
        simp [Rs.PVec.idx, hsl, hi]
      have hisp := (TiePS.tie (g.roleStates.get i)).2.1
      have hkid : Rs.Kids.get g.roleKids i = some i := by simp [Rs.Kids.get, hk, hi]
      obtain ⟨env3, hp1, hp4, hp5, hp6, hp7⟩ := Env.pollChild_tieD g.roleWakers.readiness env i p hpp
      have hhin3 : HandedIn N b.w → HandedIn N env3 := fun h c j hm => hhin h c j (hp5 c j hm)
      have hsok3 : FutStepsF env3 := hsok.tailJ i hp6
      try simp only [Env.wakeD] at hp1
      by_cases hsp : TiePS.abs (g.roleStates.get i) = .pending
      · have hsp' : e.s.st i = .pending := by rw [hst]; exact hsp
        have hgp : g.roleStates.get i = PS.PollState.pending := (TiePS.abs_pendingJ _).mp hsp
        have hset' : e.w.isSet i = true := by rw [hw]; rfl
        have hres' : e.w.resOf i = env.resOf i := by rw [hw]; rfl
        unroles
        simp only [hkid, hidx, hisp, hsp, hc1, decide_true, Option.bind_some, Bool.false_eq_true, ↓reduceIte,
          WakerArrayD.get, hpw, hpp, Option.map_some, Option.bind_eq_bind, Rs.expect, Rs.pollFut, hp1]
        rcases hsok.resOfJ i with hres | ⟨ok, v, hres⟩
        · -- Pending
          have hv := visit_pendJ e i hsp' hset' (by rw [hres', hres])
          simp only [hres, Option.bind_some]
          refine ⟨_, _, rfl, ?_, ?_⟩
          · rw [hv]
            refine ⟨?_, hen, hk, hst, hout, hcnt, hoff, hdead, hdone, hsl, hic, hpc, hrs, hpar, hhin3, hsok3, hfr.trans hp7⟩
            unroles
            rw [hp4, hw, Env.abs_clearReady]
          · rw [hv]
        · -- Ready: the output is stored, the state set, the counter decremented, the child released
          have hv := visit_readyJ e i ok v hsp' hset' (by rw [hres', hres])
          obtain ⟨q, hq1, hq2⟩ := (TiePS.tie (g.roleStates.get i)).2.2.2.2.2
          have hqr : q = PS.PollState.ready := (TiePS.abs_readyJ _).mp hq2
          have hwrite : Rs.OutVec.write g.roleItems i v
              = some ⟨g.roleItems.cap, fun j => if j = i then some v else g.roleItems.get j⟩ := by
            simp [Rs.OutVec.write, hic, hi]
          have hset2 : Rs.PVec.set g.roleStates i q
              = some ⟨g.roleStates.len, fun j => if j = i then q else g.roleStates.get j⟩ := by
            simp [Rs.PVec.set, hsl, hi]
          have hflip := filter_flip_lengthJ (fun j => decide (g.roleStates.get j = PS.PollState.pending))
            (fun j => decide ((if j = i then q else g.roleStates.get j) = PS.PollState.pending)) i
            (List.range N) List.nodup_range (List.mem_range.mpr hi) (by simp [hgp]) (by simp [hqr])
            (fun j hj => by simp [hj])
          have hge : 1 ≤ g.roleCount := by unroles; omega
          have hsub : Rs.usub g.roleCount 1 = some (g.roleCount - 1) := by simp [Rs.usub, hge]
          unroles
          simp only [hres, Option.bind_some, hwrite, hidx, hq1, hset2, hsub]
          refine ⟨_, _, rfl, ?_, ?_⟩
          · rw [hv]
            refine ⟨?_, hen, hk, ?_, ?_, ?_, hoff, hdead, hdone, hsl, hic, ?_, ?_, hpar, hhin3, hsok3, ?_⟩
            · unroles
              rw [Env.abs_emitM, hp4, hw, Env.abs_clearReady]
            · unroles
              funext j
              by_cases hj : j = i <;> simp [upd, hj, hq2, hst]
            · unroles
              funext j
              by_cases hj : j = i <;> simp [upd, hj, hout]
            · unroles
              simp only [hcnt]
            · unroles
              omega
            · intro j hj
              unroles
              by_cases hji : j = i
              · subst hji
                right
                simp [hqr]
              · simp only [hji, if_false]
                exact hrs j hj
            · exact hfr.trans hp7
          · rw [hv]
      · -- the slot's child has completed already
        have hv := visit_skipJ e i (by rw [hst]; exact hsp)
        unroles
        simp only [hkid, hidx, hisp, hsp, decide_false, Option.bind_some, Bool.false_eq_true, ↓reduceIte]
        refine ⟨_, _, rfl, ?_, ?_⟩
        · rw [hv]; exact hR0
        · rw [hv]
    case hK =>
      intro g' env' hR' hx
      dsimp only
      have hR0 := hR'
      obtain ⟨hw, hen, hk, hst, hout, hcnt, hoff, hdead', hdone, hsl', hic', hpc', hrs', hpar, hhin, hsok, hfr⟩ := hR'
      by_cases hz : g'.roleCount = 0
      · -- every child has completed: the outputs are moved out
        have hnp : ∀ i, i < g'.roleKids.len → g'.roleStates.get i = PS.PollState.ready ∧
            ∃ v, g'.roleItems.get i = some v := by
          intro i hi
          rw [hk] at hi
          have := filter_len_zeroJ _ _ (by rw [← hpc']; exact hz) i (List.mem_range.mpr hi)
          rcases hrs' i hi with h | h
          · simp [h] at this
          · exact h
        have hass := assertAll_readyJ g'.roleStates (fun i hi => (hnp i (by rw [hk, ← hsl']; exact hi)).1)
        have hmap := mapAll_noneJ g'.roleStates
        have htake := take_allJ g'.roleItems (fun i hi => (hnp i (by rw [hk, ← hic']; exact hi)).2)
        obtain ⟨X, hX1, hX2, hX3⟩ := post_doneJ b hR0 hx hz
        have hnone : ∀ i, i < N →
            (if i < g'.roleStates.len then PS.PollState.none_ else g'.roleStates.get i) = PS.PollState.none_ := by
          intro i hi
          rw [if_pos (by rw [hsl']; exact hi)]
        unroles
        simp only [hz, beq_self_eq_true, ↓reduceIte, hass, hmap, htake, Option.bind_some]
        refine ⟨_, rfl, X, ?_, hX2, ?_, ?_⟩
        · rw [hpoll, hX1]
          rfl
        · intro h; cases h
        · intro _
          exact ⟨hX3 _ rfl rfl hz.symm rfl (fun _ => rfl) hnone, hk, hhin, hsok⟩
      · -- some child is still pending
        have hcl := close_pendJ _ hx (by rw [hcnt]; exact hz)
        unroles
        simp only [hz, beq_iff_eq, ↓reduceIte]
        refine ⟨_, rfl, _, ?_, hw, fun _ => hR0, fun h => absurd rfl h⟩
        rw [hpoll, hcl]
        rfl
  obtain ⟨a, ha1, ha2⟩ := hBspec
  refine ⟨a, ?_, ha2⟩
  rw [ite_self]
  exact ha1

/-- the refinement, together with the facts about the environment that the next poll (or the drop) needs again.  Nothing
    is assumed of the wakers handed out before (in this flavour a sub-waker does nothing, whatever its slot); if they
    all belong to a slot, so do those handed out afterwards (the new ones are the caller's own waker) -/
theorem poll_tie_strongJ (N : Nat) (g : Join) (b : Eng Fix) (w : Nat) (hW : WfJ N g) (hS : FutStepsF b.w)
    (hd : g.roleDone = false) :
    ∃ g' env' ret,
      Join.poll N g w ((absJ g b).w.emit (.pollBegin w)) = some (g', env', ret) ∧
      (ret = .pending → WfJ N g') ∧
      (ret = .pending → jcore (absJ g' b) = jcore (Eng.poll joinSlice (absJ g b) w)) ∧
      (ret ≠ .pending → doneAgree (absJ g' b) (Eng.poll joinSlice (absJ g b) w)) ∧
      (env'.scripts = (Eng.poll joinSlice (absJ g b) w).w.scripts ∧
       env'.handed = (Eng.poll joinSlice (absJ g b) w).w.handed ∧
       (Eng.poll joinSlice (absJ g b) w).w.trace = .pollEnd (outcomeOfJoin ret) :: env'.trace) ∧
      g'.roleKids.len = N ∧ (HandedIn N b.w → HandedIn N env') ∧ FutStepsF env' ∧
      (g'.roleDone = false ↔ ret = .pending) := by
  obtain ⟨⟨g', env', ret⟩, h1, X, hp, hXw, hpend, hdone⟩ := poll_coreJ N g b w hW hS hd
  dsimp only at hp hXw hpend hdone
  refine ⟨g', env', ret, h1, ?_, ?_, ?_, ?_, ?_⟩
  · intro hr
    have hR := hpend hr
    exact ⟨hR.kids, hR.sl, hR.ic, hR.pc, hR.rs⟩
  · intro hr
    obtain ⟨hw, hen, hk, hst, hout, hcnt, hoff, hdead', hdn, hsl', hic', hpc', hrs', hpar, hhin, hsok, hfr⟩ :=
      hpend hr
    rw [hp]
    simp only [jcore, fcore, absJ, Eng.emit, World.emit, hw, hen, hk, hst, hout, hcnt, hoff, hdead', hdn,
      TieDir.absA, hfr.1, hfr.2.1, hfr.2.2]
  · intro hr
    rw [hp]
    exact (hdone hr).1
  · rw [hp]
    simp only [Eng.emit, World.emit, hXw]
    exact ⟨rfl, rfl, rfl⟩
  · cases ret with
    | pending =>
      have hR := hpend rfl
      exact ⟨hR.kids, hR.hin, hR.sok, fun _ => rfl, fun _ => hR.done⟩
    | ready vs =>
      obtain ⟨hda, hk, hhin, hsok⟩ := hdone (by simp)
      refine ⟨hk, hhin, hsok, fun h => ?_, fun h => by cases h⟩
      have : g'.roleDone = true := hda.2.2.1
      rw [this] at h
      cases h

theorem poll_tie_mainJ : poll_tie_statement := by
  intro N g b w hW hS hH hd
  obtain ⟨g', env', ret, h1, h2, h3, h4, ⟨h5, h6, h7⟩, _⟩ := poll_tie_strongJ N g b w hW hS hd
  exact ⟨g', env', ret, h1, h2, h3, h4, h5, h6, h7⟩

end TieJoinAD
end Fc
