/-
  FcLemmas/NestC03Inv.lean — the C03 boundary invariant of a nest:

      flat C03 invariant (`C03.I`, through the family's `Disc` instance) of the outer instance
    ∧ flat C03 invariant of every inner instance
    ∧ `LK` for every nested child (the link between the levels)

  It holds initially, is preserved by `Nest.poll / fire / drop`, and implies `Nest.c03At`.
-/
import FcLemmas.NestC03Virt
import FcLemmas.NestInv
set_option linter.unusedSimpArgs false
set_option linter.unusedVariables false

namespace Fc
open Mon

namespace Nest

/-! ### the link, on raw components

  `to` = outer trace, `ti` = trace of the inner instance of nested child `c`, `p` = `polls c`,
  `g` = `gone c`. -/

structure LK (to ti : List Ev) (p : Nat) (g : Bool) (c : Nat) : Prop where
  pb : cntPB ti = p
  cb : cntCB to c = p
  po : pollsOk ti = true
  gn : g = (gone to c || !alive to)
  al : alive ti = !g
  fs : finalSeen false ti = finished to c

theorem linkC03_of_lk {s : St} {c : Nat}
    (h : LK s.out.w.trace (s.inn c).w.trace (s.polls c) (s.gone c) c) : linkC03 s c = true := by
  unfold linkC03
  simp only [Bool.and_eq_true, beq_iff_eq]
  exact ⟨⟨⟨⟨⟨h.pb, h.cb⟩, h.po⟩, h.gn⟩, h.al⟩, h.fs⟩

theorem lk_outer_fires {to ti : List Ev} {p : Nat} {g : Bool} {c : Nat} (h : LK to ti p g c)
    (l : List Ev) (hl : ∀ e ∈ l, isFireEv e = true) : LK (l ++ to) ti p g c :=
  ⟨h.pb, by rw [cntCB_fires l _ c hl]; exact h.cb, h.po,
   by rw [gone_fires l _ c hl, alive_fires l _ hl]; exact h.gn, h.al,
   by rw [finished_fires l _ c hl]; exact h.fs⟩

theorem lk_inner_fires {to ti : List Ev} {p : Nat} {g : Bool} {c : Nat} (h : LK to ti p g c)
    (l : List Ev) (hl : ∀ e ∈ l, isFireEv e = true) : LK to (l ++ ti) p g c :=
  ⟨by rw [cntPB_fires l _ hl]; exact h.pb, h.cb, by rw [pollsOk_fires l _ hl]; exact h.po, h.gn,
   by rw [alive_fires l _ hl]; exact h.al, by rw [finalSeen_fires false l _ hl]; exact h.fs⟩

/-- the whole nest is dropped: `lo` = the outer instance's drop, `ti'` = the inner trace after it
    (with the inner instance's drop appended iff it had not been dropped before) -/
theorem lk_drop {to ti ti' : List Ev} {p : Nat} {g : Bool} {c : Nat} (h : LK to ti p g c)
    (lo : List Ev) (hlo : ∀ e ∈ lo, dropEv e = true) (hdead : alive (lo ++ to) = false)
    (hti : ti' = ti ∨ ∃ ld, ti' = ld ++ ti ∧ ∀ e ∈ ld, dropEv e = true)
    (hdi : alive ti' = false) : LK (lo ++ to) ti' p true c := by
  refine ⟨?_, by rw [cntCB_dropSeg lo _ c hlo]; exact h.cb, ?_, by simp [hdead], by simp [hdi], ?_⟩
  · rcases hti with rfl | ⟨ld, rfl, hld⟩
    · exact h.pb
    · rw [cntPB_dropSeg ld _ hld]; exact h.pb
  · rcases hti with rfl | ⟨ld, rfl, hld⟩
    · exact h.po
    · rw [pollsOk_dropSeg ld _ hld]; exact h.po
  · rw [finished_dropSeg lo _ c hlo]
    rcases hti with rfl | ⟨ld, rfl, hld⟩
    · exact h.fs
    · rw [finalSeen_dropSeg ld _ hld]; exact h.fs

/-! ### answers of a nested child -/

theorem finishing_resOfOutcome (c x : Nat) (o : Outcome) :
    C03.finishing (resOfOutcome c x o) = C03.final o := by
  cases o <;> rfl

theorem fits_resOfOutcome (c x : Nat) (o : Outcome) (b : Bool) (h : o.fits b = true) :
    (resOfOutcome c x o).fits b = true := by
  cases o <;> simp_all [resOfOutcome, Outcome.fits, Res.fits]

theorem finished_of_some (t : List Ev) (c : Nat) (r : Res) (h : lastRes t c = some r) :
    finished t c = C03.finishing r := by
  unfold finished; rw [h]; cases r <;> rfl

theorem lastOutcome_head (o : Outcome) (t : List Ev) : lastOutcome (.pollEnd o :: t) = o := rfl

/-! ### the invariant -/

structure NC03 (nc : NCase) (s : St) : Prop where
  fo : VDI nc.outer.policy (nc.outer.modeOf nc.mode) (Sim.kindRes nc.outer) nc.n s.out
  fi : ∀ c fam k, c < nc.n → nc.inner c = some (fam, k) →
         VDI fam.policy (fam.modeOf nc.mode) (Sim.kindRes fam) k (s.inn c)
  lk : ∀ c, c < nc.n → (nc.inner c).isSome = true →
         LK s.out.w.trace (s.inn c).w.trace (s.polls c) (s.gone c) c

/-! ### reading the hypothesis `kindOk` -/

theorem stepsFit_mem {b : Bool} {l : List Step} (h : stepsFit b l = true) (st : Step) (hm : st ∈ l) :
    st.res.fits b = true := by
  unfold stepsFit at h
  rw [List.all_eq_true] at h
  exact h st hm

theorem kindOk_outer {nc : NCase} (hk : kindOk nc = true) : nc.outer.isGroup = false := by
  unfold kindOk at hk
  simp only [Bool.and_eq_true, Bool.not_eq_true'] at hk
  exact hk.1

theorem kindOk_at {nc : NCase} (hk : kindOk nc = true) (c : Nat) (hc : c < nc.n) :
    (match nc.inner c with
     | none => stepsFit (nc.outer.childIsStream c) (nc.scripts c)
     | some (fam, k) =>
       famOkAt nc c &&
       (List.range k).all (fun g => stepsFit (fam.childIsStream g) (nc.scripts (leafId c g)))) = true := by
  unfold kindOk at hk
  simp only [Bool.and_eq_true, List.all_eq_true, List.mem_range] at hk
  exact hk.2 c hc

theorem kindOk_plain {nc : NCase} (hk : kindOk nc = true) (c : Nat) (hc : c < nc.n)
    (hin : nc.inner c = none) (st : Step) (hm : st ∈ nc.scripts c) :
    st.res.fits (nc.outer.childIsStream c) = true := by
  have := kindOk_at hk c hc
  rw [hin] at this
  exact stepsFit_mem this st hm

theorem famOk_some {nc : NCase} (hk : kindOk nc = true) {c : Nat} (hc : c < nc.n) {fam : Fam} {k : Nat}
    (h : nc.inner c = some (fam, k)) :
    fam.isGroup = false ∧ fam.yieldsStream = nc.outer.childIsStream c := by
  have := kindOk_at hk c hc
  rw [h] at this
  simp only [Bool.and_eq_true] at this
  have h1 := this.1
  simp only [famOkAt, h, Bool.and_eq_true, Bool.not_eq_true', beq_iff_eq] at h1
  exact h1

theorem kindOk_leaf {nc : NCase} (hk : kindOk nc = true) {c : Nat} (hc : c < nc.n) {fam : Fam} {k : Nat}
    (h : nc.inner c = some (fam, k)) (g : Nat) (hg : g < k) (st : Step)
    (hm : st ∈ nc.scripts (leafId c g)) : st.res.fits (fam.childIsStream g) = true := by
  have := kindOk_at hk c hc
  rw [h] at this
  simp only [Bool.and_eq_true, List.all_eq_true, List.mem_range] at this
  exact stepsFit_mem (this.2 g hg) st hm

theorem conc_or_seq (f : Fam) (h : f.isGroup = false) : f.isConc = true ∨ f.isSeq = true := by
  cases f <;> simp [Fam.isGroup, Fam.isConc, Fam.isSeq] at h ⊢

theorem c03At_of_inv {nc : NCase} {s : St} (h : NC03 nc s) : c03At nc s = true := by
  unfold c03At
  simp only [Bool.and_eq_true, List.all_eq_true, List.mem_range, Bool.or_eq_true,
    Bool.not_eq_true']
  refine ⟨h.fo.holds, fun c hc => ?_⟩
  cases hs : (nc.inner c).isSome with
  | false => exact Or.inl rfl
  | true =>
    refine Or.inr ⟨?_, linkC03_of_lk (h.lk c hc hs)⟩
    cases hin : nc.inner c with
    | none => simp [hin] at hs
    | some fk => exact (h.fi c fk.1 fk.2 hc hin).holds

/-! ### the initial state -/

theorem nc03_init (nc : NCase) (hk : kindOk nc = true) : NC03 nc (init nc) := by
  refine ⟨?_, ?_, ?_⟩
  · refine VDI.init nc.outer (kindOk_outer hk) nc.mode nc.n _ ?_
    intro ch hch st hm
    cases hin : nc.inner ch with
    | none =>
      simp only [hin, Option.isSome_none, Bool.false_eq_true, if_false] at hm
      exact kindOk_plain hk ch hch hin st hm
    | some fk => simp [hin] at hm
  · intro c fam k hc hin
    have : (init nc).inn c = FEng.init fam nc.mode k (fun g =>
        (nc.scripts (leafId c g)).map
          (fun st => { st with fires := st.fires.map (fun p => (p.1 % 100, p.2)) })) := by
      simp [init, innerInit, hin]
    rw [this]
    refine VDI.init fam (famOk_some hk hc hin).1 nc.mode k _ ?_
    intro g hg st hm
    simp only [List.mem_map] at hm
    obtain ⟨st0, hm0, rfl⟩ := hm
    exact kindOk_leaf hk hc hin g hg st0 hm0
  · intro c _ _
    have ht : ((init nc).inn c).w.trace = [] := innerInit_trace nc c
    rw [ht]
    exact ⟨rfl, rfl, rfl, rfl, rfl, rfl⟩

/-! ### wake-ups between polls -/

theorem nc03_fire {nc : NCase} {s : St} (h : NC03 nc s) (id age : Nat) :
    NC03 nc (fire nc s id age) := by
  unfold fire
  split
  · refine ⟨h.fo.fire id age, h.fi, fun c hc hs => ?_⟩
    obtain ⟨l, hl, hp⟩ := World.fire_seg s.out.w id age
    simp only [Eng.fire_w, hl]
    exact lk_outer_fires (h.lk c hc hs) l hp
  · simp only
    obtain ⟨l, hl, hp⟩ := World.fire_seg (s.inn (id / 100 - 1)).w (id % 100) age
    have hseg : (((s.inn (id / 100 - 1)).fire (id % 100) age).w.trace.take
        (((s.inn (id / 100 - 1)).fire (id % 100) age).w.trace.length
          - (s.inn (id / 100 - 1)).w.trace.length)) = l := by
      simp only [Eng.fire_w, hl]
      exact take_seg l _
    rw [hseg, foldl_fire]
    obtain ⟨lo, hlo, plo⟩ := World.fires_seg s.out.w
      ((wokes l).map (fun k => (id / 100 - 1, s.polls (id / 100 - 1) - k)))
    refine ⟨h.fo.wfires _, ?_, ?_⟩
    · intro c fam k hc hin
      simp only
      split
      · rename_i hcc; subst hcc; exact (h.fi _ fam k hc hin).fire _ _
      · exact h.fi c fam k hc hin
    · intro c hc hs
      simp only [hlo]
      have h1 := lk_outer_fires (h.lk c hc hs) lo plo
      split
      · rename_i hcc
        subst hcc
        simp only [Eng.fire_w, hl]
        exact lk_inner_fires h1 l hp
      · exact h1

/-! ### the drop -/

theorem nc03_drop {nc : NCase} {s : St} (h : NC03 nc s) : NC03 nc (drop nc s) := by
  unfold drop
  obtain ⟨lo, hlo, plo, hdead⟩ := drop_seg h.fo.law s.out
  refine ⟨h.fo.drop, ?_, ?_⟩
  · intro c fam k hc hin
    simp only
    rw [innerPolicy_some nc c fam k hin]
    split
    · exact (h.fi c fam k hc hin).drop
    · exact h.fi c fam k hc hin
  · intro c hc hs
    have lk := h.lk c hc hs
    simp only [hs, Bool.true_and, Bool.or_true]
    rw [hlo]
    cases hg : s.gone c with
    | true =>
      simp only [Bool.not_true, Bool.false_eq_true, if_false]
      exact lk_drop lk lo plo (by rw [← hlo]; exact hdead) (Or.inl rfl) (by rw [lk.al, hg]; rfl)
    | false =>
      simp only [Bool.not_false, if_true]
      cases hin : nc.inner c with
      | none => simp [hin] at hs
      | some fk =>
        obtain ⟨fam, k⟩ := fk
        rw [innerPolicy_some nc c fam k hin]
        obtain ⟨ld, hld, pld, hdi⟩ := drop_seg (h.fi c fam k hc hin).law (s.inn c)
        exact lk_drop lk lo plo (by rw [← hlo]; exact hdead) (Or.inr ⟨ld, hld, pld⟩) hdi

/-! ### one top-level poll -/

theorem poll_gone (nc : NCase) (s : St) (w c : Nat) :
    (poll nc s w).gone c =
      (s.gone c || (((List.range nc.n).filter (fun c => (nc.inner c).isSome)).contains c && !s.gone c
            && droppedNow (out1 nc s w).w.trace c)) := rfl

theorem specE_shape {nc : NCase} (hk : kindOk nc = true) {s : St} (h : NC03 nc s) {c : Nat}
    (hc : c < nc.n) {fam : Fam} {k : Nat} (hin : nc.inner c = some (fam, k)) :
    ∃ o l, (specE nc s c).w.trace = .pollEnd o :: (l ++ .pollBegin (s.polls c + 1) :: (s.inn c).w.trace) ∧
      (∀ ev ∈ l, plainEv ev = true) ∧ o.fits (nc.outer.childIsStream c) = true := by
  have hf := famOk_some hk hc hin
  unfold specE
  rw [innerPolicy_some nc c fam k hin, ← hf.2]
  exact Eng.poll_shape (h.fi c fam k hc hin).law (outOk_policy fam hf.1) (s.inn c) (s.polls c + 1)

theorem out0_scriptsOk {nc : NCase} (hk : kindOk nc = true) {s : St} (h : NC03 nc s) :
    ∀ c, c < nc.n → ∀ st, st ∈ (if (nc.inner c).isSome then [stepE nc s c] else s.out.w.scripts c) →
      Sim.kindRes nc.outer c st.res := by
  intro c hc st hm
  cases hin : nc.inner c with
  | none =>
    simp only [hin, Option.isSome_none, Bool.false_eq_true, if_false] at hm
    exact h.fo.scriptsOk c hc st hm
  | some fk =>
    obtain ⟨fam, k⟩ := fk
    simp only [hin, Option.isSome_some, if_true, List.mem_singleton] at hm
    subst hm
    obtain ⟨o, l, hsp, _, ho⟩ := specE_shape hk h hc hin
    show (stepE nc s c).res.fits (nc.outer.childIsStream c) = true
    simp only [stepE, hsp, lastOutcome_head]
    exact fits_resOfOutcome _ _ _ _ ho

theorem nc03_poll {nc : NCase} (hk : kindOk nc = true) {s : St} (h : NC03 nc s) (w : Nat) :
    NC03 nc (poll nc s w) := by
  have hnd : ∀ st, (nc.outer.policy.order st).Nodup :=
    order_nodup nc.outer (conc_or_seq nc.outer (kindOk_outer hk))
  have hf0 : VDI nc.outer.policy (nc.outer.modeOf nc.mode) (Sim.kindRes nc.outer) nc.n (out0 nc s) :=
    h.fo.scripts _ (out0_scriptsOk hk h)
  have hf1 : VDI nc.outer.policy (nc.outer.modeOf nc.mode) (Sim.kindRes nc.outer) nc.n (out1 nc s w) :=
    hf0.poll hnd w
  refine ⟨?_, ?_, ?_⟩
  · rw [poll_out]
    refine hf1.scripts _ ?_
    intro c hc st hm
    split at hm
    · simp at hm
    · exact hf1.scriptsOk c hc st hm
  · intro c fam k hc hin
    rw [poll_inn, innerPolicy_some nc c fam k hin]
    have hndi : ∀ st, (fam.policy.order st).Nodup :=
      order_nodup fam (conc_or_seq fam (famOk_some hk hc hin).1)
    have hsp : VDI fam.policy (fam.modeOf nc.mode) (Sim.kindRes fam) k (specE nc s c) := by
      unfold specE; rw [innerPolicy_some nc c fam k hin]; exact (h.fi c fam k hc hin).poll hndi _
    have hin1 : VDI fam.policy (fam.modeOf nc.mode) (Sim.kindRes fam) k
        (if (((List.range nc.n).filter (fun c => (nc.inner c).isSome)).contains c
            && polledNow (out1 nc s w).w.trace c) = true then specE nc s c else s.inn c) := by
      split
      · exact hsp
      · exact h.fi c fam k hc hin
    split
    · exact hin1.drop
    · exact hin1
  · intro c hc hs
    have lk := h.lk c hc hs
    cases hin : nc.inner c with
    | none => simp [hin] at hs
    | some fk =>
    obtain ⟨fam, k⟩ := fk
    rw [poll_inn, poll_polls, poll_out_trace, poll_gone]
    simp only [nested_contains nc c hc hs, Bool.true_and, polledNow_eq]
    -- the outer poll, seen from `c`
    have hsc : (out0 nc s).w.scripts c = [stepE nc s c] := by simp [out0, hs]
    obtain ⟨⟨lo, hlo, plo⟩, hm⟩ := poll_m hf0.law hnd (out0 nc s) w c (stepE nc s c) hsc
    have hlo' : (out1 nc s w).w.trace = lo ++ .pollBegin w :: s.out.w.trace := hlo
    have hm : M1 c (stepE nc s c) s.out.w.trace (out1 nc s w).w ∨
        M2 c (stepE nc s c) s.out.w.trace (out1 nc s w).w := hm
    have hholds : holds_C03 false (out1 nc s w).w.trace = true := hf1.holds
    -- the speculative inner poll
    obtain ⟨o, li, hsp, pli, _⟩ := specE_shape hk h hc hin
    have hgone1 : gone (out1 nc s w).w.trace c
        = (droppedNow (out1 nc s w).w.trace c || gone s.out.w.trace c) := by
      rw [hlo']; exact gone_pollSegment lo _ w c plo
    have halive1 : alive (out1 nc s w).w.trace = alive s.out.w.trace := by
      rw [hlo']; exact alive_pollSegment lo _ w plo
    -- commit / discard: everything except the release
    have hcommit :
        cntPB (if polledSince (out1 nc s w).w.trace c = true then specE nc s c else s.inn c).w.trace
          = (if polledSince (out1 nc s w).w.trace c = true then s.polls c + 1 else s.polls c) ∧
        cntCB (out1 nc s w).w.trace c
          = (if polledSince (out1 nc s w).w.trace c = true then s.polls c + 1 else s.polls c) ∧
        pollsOk (if polledSince (out1 nc s w).w.trace c = true then specE nc s c else s.inn c).w.trace
          = true ∧
        alive (if polledSince (out1 nc s w).w.trace c = true then specE nc s c else s.inn c).w.trace
          = !s.gone c ∧
        finalSeen false
            (if polledSince (out1 nc s w).w.trace c = true then specE nc s c else s.inn c).w.trace
          = finished (out1 nc s w).w.trace c := by
      rcases hm with m1 | m2
      · simp only [m1.ps, Bool.false_eq_true, if_false]
        refine ⟨lk.pb, by rw [m1.cb]; exact lk.cb, lk.po, lk.al, ?_⟩
        rw [finished_of_lastRes _ _ c m1.lr]; exact lk.fs
      · simp only [m2.ps, if_true]
        obtain ⟨hfin, hgn, hal⟩ := m2.ck hholds
        have hfin' : finished s.out.w.trace c = false := hfin
        have hg0 : s.gone c = false := by
          rw [lk.gn]
          have hgn' : gone s.out.w.trace c = false := hgn
          have hal' : alive s.out.w.trace = true := hal
          simp [hgn', hal']
        have hfs0 : finalSeen false (s.inn c).w.trace = false := by rw [lk.fs]; exact hfin'
        have hal0 : alive (s.inn c).w.trace = true := by rw [lk.al, hg0]; rfl
        have hplain : ∀ ev ∈ li, plainEv ev = true := pli
        refine ⟨?_, ?_, ?_, ?_, ?_⟩
        · rw [hsp, cntPB_skip _ _ (by intro w hw; cases hw), cntPB_plain li _ hplain]
          simp [cntPB, lk.pb]
        · rw [m2.cb]
          have : cntCB s.out.w.trace c = s.polls c := lk.cb
          show cntCB s.out.w.trace c + 1 = s.polls c + 1
          rw [this]
        · rw [hsp, pollsOk_skip _ _ (by intro w hw; cases hw), pollsOk_plain li _ hplain]
          simp [pollsOk, lk.po, hfs0, hal0]
        · rw [hsp, hg0]
          simp only [alive]
          rw [alive_plain li _ hplain]
          simpa [alive] using hal0
        · rw [hsp, C03.finalSeen_pollEnd, finalSeen_plain li _ hplain]
          simp only [finalSeen, hfs0, Bool.or_false]
          rw [finished_of_some _ c _ m2.lr]
          simp only [stepE, hsp, lastOutcome_head, finishing_resOfOutcome]
    obtain ⟨c1, c2, c3, c4, c5⟩ := hcommit
    -- the release
    have hgn' : (s.gone c || (!s.gone c && droppedNow (out1 nc s w).w.trace c))
        = (gone (out1 nc s w).w.trace c || !alive (out1 nc s w).w.trace) := by
      rw [hgone1, halive1, lk.gn]
      cases droppedNow (out1 nc s w).w.trace c <;> cases gone s.out.w.trace c <;>
        cases alive s.out.w.trace <;> rfl
    split
    · rename_i hrel
      simp only [Bool.and_eq_true, Bool.not_eq_true'] at hrel
      have hfl : Lawful (innerPolicy nc c) := by
        rw [innerPolicy_some nc c fam k hin]; exact (h.fi c fam k hc hin).law
      obtain ⟨ld, hld, pld, hdi⟩ := drop_seg hfl
        (if polledSince (out1 nc s w).w.trace c = true then specE nc s c else s.inn c)
      refine ⟨?_, c2, ?_, hgn', ?_, ?_⟩
      · rw [hld, cntPB_dropSeg ld _ pld]; exact c1
      · rw [hld, pollsOk_dropSeg ld _ pld]; exact c3
      · rw [hdi, hrel.1, hrel.2]; rfl
      · rw [hld, finalSeen_dropSeg ld _ pld]; exact c5
    · rename_i hrel
      refine ⟨c1, c2, c3, hgn', ?_, c5⟩
      rw [c4]
      cases hg : s.gone c with
      | true => rfl
      | false =>
        have : droppedNow (out1 nc s w).w.trace c = false := by
          cases hd : droppedNow (out1 nc s w).w.trace c with
          | false => rfl
          | true => simp [hg, hd] at hrel
        simp [this]

/-! ### every reachable state -/

theorem nc03_step {nc : NCase} (hk : kindOk nc = true) {s : St} (h : NC03 nc s) (op : Op) :
    NC03 nc (step nc s op) := by
  cases op <;> simp only [step]
  · exact nc03_poll hk h _
  · exact nc03_fire h _ _
  · exact nc03_drop h
  all_goals exact h

theorem nc03_foldl {nc : NCase} (hk : kindOk nc = true) (ops : List Op) (s : St) (h : NC03 nc s) :
    NC03 nc (ops.foldl (step nc) s) := by
  induction ops generalizing s with
  | nil => exact h
  | cons op ops ih => exact ih _ (nc03_step hk h op)

/-- the invariant at every operation boundary -/
theorem nc03_prefix (nc : NCase) (hk : kindOk nc = true) (k : Nat) :
    NC03 nc ((nc.ops.take k).foldl (step nc) (init nc)) :=
  nc03_foldl hk _ _ (nc03_init nc hk)

end Nest
end Fc
