/-
  FcLemmas/Live2.lean — liveness under the wake-only executor (Fc/Exec.lean), abstracted over the
  future combinator.

  `FutLike P n I J Fin` lists what the argument of FcLemmas/LiveRun.lean needs to know about a policy
  `P` over `n` children with functional boundary/loop invariants `I` / `J` (a `Sim` instance):
    * inside a poll, a slot still to be scanned is a child index, and an eligible slot has not
      resolved (so a well-behaved future is never polled after it resolved);
    * a poll that answers `Pending` leaves some child unresolved;
    * the only other answers are `Ready ok vals` (with `Fin ok vals`) and `misuse` (only when spent).
  `LB` packages the flat invariants (C01 `BInv` std / direct, C20 `B20`, the functional invariant `I`,
  the World-aware `Live.WInv`); `lb_poll` / `lb_fire` / `lb_fire_woke` / `firstWaiting_some` carry it
  across one executor round; `resolves_aux` is the induction on the progress measure (`Live.Cond`).
-/
import FcLemmas.LiveRun
set_option linter.unusedSimpArgs false
set_option linter.unusedVariables false

namespace Fc
namespace Live2
open Mon Live

structure FutLike (P : Policy Fix) (n : Nat) (I : Fix → List Ev → Prop)
    (J : Fix → List Ev → List Nat → Prop) (Fin : Bool → List Nat → Prop) : Prop where
  conc : Conc P
  hdrop : ∀ s i r c, Ev.childDropped c ∈ (P.handle s i r).evs → c = i ∧ ∃ ok v, r = .ready ok v
  hfin : ∀ s, (P.finish s).evs = []
  sim : ∀ m, Sim P m Sim.anyRes I J
  hn : ∀ s t, I s t → s.n = n
  /-- a slot still to be scanned is a child index -/
  jlt : ∀ s t i rest, J s t (i :: rest) → i < n
  /-- an eligible slot has not resolved -/
  jun : ∀ s t i rest, J s t (i :: rest) → P.eligible s i = true →
    ∀ ok v, lastRes t i ≠ some (.ready ok v)
  /-- `Pending`: some child has not resolved -/
  pend : ∀ s t, I s (.pollEnd .pending :: t) → ∃ c, c < n ∧ resolvedVal t c = none
  nsome : ∀ s t k vals, ¬ I s (.pollEnd (.some k vals) :: t)
  nnone : ∀ s t, ¬ I s (.pollEnd .none :: t)
  misuse : ∀ s t, I s (.pollEnd .misuse :: t) → spent false t = true
  fin : ∀ s t ok vals, I s (.pollEnd (.ready ok vals) :: t) → Fin ok vals

variable {P : Policy Fix} {n : Nat} {I : Fix → List Ev → Prop} {J : Fix → List Ev → List Nat → Prop}
  {Fin : Bool → List Nat → Prop} {m : Mode} {fv : Nat → Nat}

/-! ### the poll skeleton -/

theorem pinvl_scan (FL : FutLike P n I J Fin) {len0 : Nat → Nat} {t0 : List Ev} :
    ∀ (l : List Nat) (e : Eng Fix), e.w.mode = m → J e.s e.w.trace l →
      PInvL fv n len0 t0 e.w → PInvL fv n len0 t0 (Eng.scan P l e).1.w := by
  intro l
  induction l with
  | nil => intro e _ _ h; exact h
  | cons i rest ih =>
    intro e hm hJ h
    have hi : i < n := FL.jlt _ _ _ _ hJ
    have hun : P.eligible e.s i = true → ∀ ok v, lastRes e.w.trace i ≠ some (.ready ok v) :=
      fun hel => FL.jun _ _ _ _ hJ hel
    have hv := pinvl_visit FL.conc.law FL.hdrop e i hi h hun
    have hT := Sim.visitT (FL.sim m) e i rest hm (Sim.scriptsOk_any _) hJ
    unfold Eng.scan
    cases hvis : (Eng.visit P e i).2 with
    | some o => exact hv
    | none => exact ih _ hT.1 (hT.2.2.1 hvis) hv

theorem pend_poll (FL : FutLike P n I J Fin)
    (e : Eng Fix) (wid : Nat) (hm : e.w.mode = m) (hI : I e.s e.w.trace)
    (hw : WInv fv n e.w) (hsp : spent false e.w.trace = false) :
    PEnd fv n (fun c => (e.w.scripts c).length) e.w.trace (Eng.poll P e wid).w := by
  have hb := pinvl_begin wid hw hsp
  unfold Eng.poll
  split
  · rename_i o _
    have hb' : PInvL fv n (fun c => (e.w.scripts c).length) e.w.trace (e.w.emit (.pollBegin wid)) :=
      pinvl_congr (w := (e.w.emit (.pollBegin wid)).setWaker wid) rfl rfl rfl hb
    exact pend_of_pinvl hb' o
  · rename_i hpre
    unfold Eng.body
    simp only
    split
    · exact pend_of_pinvl hb _
    · have hJ := (FL.sim m).start _ _ wid hpre hI
      have hs := pinvl_scan (m := m) FL (P.order e.s)
        { w := (e.w.emit (.pollBegin wid)).setWaker wid, s := P.start e.s } hm hJ hb
      unfold Eng.close
      split
      · exact pend_of_pinvl hs _
      · refine pend_of_pinvl (pinvl_congr ?_ ?_ ?_ hs) _
        · simp [kop_scripts, emits_scripts]
        · simp [kop_handed]
        · simp [FL.hfin]

/-! ### the joint boundary invariant -/

structure LB (P : Policy Fix) (I : Fix → List Ev → Prop) (m : Mode) (fv : Nat → Nat) (n : Nat)
    (e : Eng Fix) : Prop where
  mode : e.w.mode = m
  std : m = .std → C01.BInv P n e
  dir : m = .direct → C01D.BInv P n e
  b20 : C20.B20 P e
  fi : I e.s e.w.trace
  wi : WInv fv n e.w
  sp : spent false e.w.trace = false
  lo : lastOut e.w.trace = none ∨ lastOut e.w.trace = some .pending
  pf : lastOut e.w.trace = some .pending →
        (∀ c, c < n → everPolled e.w.trace c = true) ∧ ∃ c, c < n ∧ resolvedVal e.w.trace c = none

theorem lb_quiet (e : Eng Fix) (h : LB P I m fv n e) : quiet n e.w.trace = true := by
  cases m with
  | std => exact C01.quiet_of_binv e (h.std rfl)
  | direct => exact C01D.quiet_of_binv e (h.dir rfl)

/-! ### one top-level poll -/

theorem lb_poll (FL : FutLike P n I J Fin) (e : Eng Fix) (wid : Nat) (h : LB P I m fv n e) :
    (∃ ok vals, lastOut (Eng.poll P e wid).w.trace = some (.ready ok vals) ∧ Fin ok vals) ∨
    (LB P I m fv n (Eng.poll P e wid) ∧ lastOut (Eng.poll P e wid).w.trace = some .pending ∧
      Exec.stepsLeft n (Eng.poll P e wid) ≤ Exec.stepsLeft n e ∧
      (Exec.stepsLeft n (Eng.poll P e wid) < Exec.stepsLeft n e ∨
        wokeSince (Eng.poll P e wid).w.trace = false) ∧
      (∀ c, c < n → lastRes e.w.trace c = some .pend → owes e.w.trace c = true →
        Exec.stepsLeft n (Eng.poll P e wid) < Exec.stepsLeft n e)) := by
  have hP := pend_poll FL e wid h.mode h.fi h.wi h.sp
  have hT := Sim.pollT (FL.sim m) e wid h.mode (Sim.scriptsOk_any _) h.fi
  have hstd : m = .std → C01.BInv P n (Eng.poll P e wid) :=
    fun hm => C01.binv_poll FL.conc e wid (h.std hm)
  have hdir : m = .direct → C01D.BInv P n (Eng.poll P e wid) :=
    fun hm => C01D.binv_poll FL.conc e wid (h.dir hm)
  have hb20 : C20.B20 P (Eng.poll P e wid) := by
    cases m with
    | std => exact C20S.poll20 (n := n) FL.conc e wid (h.std rfl) h.b20
    | direct => exact C20D.poll20 (n := n) FL.conc e wid (h.dir rfl) h.b20
  have hnowp : c01NoPanic (Eng.poll P e wid).w.trace = true := by
    cases m with
    | std => exact (hstd rfl).ks.nowp
    | direct => exact (hdir rfl).kd.nowp
  have hm20 := hb20.m20
  rw [FL.hn _ _ hT.2.2] at hm20
  have hI' := hT.2.2
  have hab := hP.ab
  obtain ⟨o, t, ht, hspt, hpnt⟩ := hP.shape
  rw [ht] at hI' hnowp hm20 hab
  simp only [atPollBegin] at hab
  have hLe : ∀ c, c < n → ((Eng.poll P e wid).w.scripts c).length ≤ (e.w.scripts c).length :=
    fun c _ => hP.le c
  cases o with
  | pending =>
    right
    have hunres : ∃ c, c < n ∧ resolvedVal t c = none := FL.pend _ _ hI'
    -- C20: every child has been polled; an owed waiting child was polled in this poll
    have hc20 : ∀ c, c < n → everPolled t c = true ∧
        (lastRes e.w.trace c = some .pend → owes e.w.trace c = true → polledSince t c = true) := by
      simp only [holds_C20, Bool.and_eq_true] at hm20
      have := hm20.2
      simp only [c20At, List.all_eq_true, List.mem_range] at this
      intro c hc
      have hcc := this c hc
      rw [hab] at hcc
      simp only [owned, hc, decide_true, if_true, Bool.not_true, Bool.false_or, Bool.and_eq_true,
        Bool.or_eq_true, Bool.not_eq_true', Bool.and_eq_false_imp, beq_iff_eq] at hcc
      refine ⟨hcc.1, fun h1 h2 => ?_⟩
      rcases hcc.2 with h3 | h3
      · have := h3 h1; rw [h2] at this; exact Bool.noConfusion this
      · exact h3
    have hps : ∀ c, polledSince (Eng.poll P e wid).w.trace c = polledSince t c := by
      intro c; rw [ht]; simp [polledSince]
    refine ⟨⟨hT.1, hstd, hdir, hb20, hT.2.2, hP.wi, ?_, Or.inr (by rw [ht]; rfl), ?_⟩,
      by rw [ht]; rfl, ?_, ?_, ?_⟩
    · rw [ht]; simpa [spent, finalSeen, alive, panickedSeen] using hspt
    · intro _
      rw [ht]
      refine ⟨fun c hc => by simpa [everPolled] using (hc20 c hc).1, ?_⟩
      obtain ⟨c, hc, hr⟩ := hunres
      exact ⟨c, hc, by simpa [resolvedVal, lastRes] using hr⟩
    · exact total_le _ _ n hLe
    · cases hw : wokeSince (Eng.poll P e wid).w.trace with
      | false => right; rfl
      | true =>
        left
        obtain ⟨c, hc⟩ := hP.wk hw
        have := hP.ps c hc
        exact total_lt _ _ n hLe c this.1 this.2
    · intro c hc h1 h2
      have h3 := (hc20 c hc).2 h1 h2
      rw [← hps] at h3
      exact total_lt _ _ n hLe c hc (hP.ps c h3).2
  | ready ok vals =>
    left
    exact ⟨ok, vals, by rw [ht]; rfl, FL.fin _ _ _ _ hI'⟩
  | some k vals => exact absurd hI' (FL.nsome _ _ _ _)
  | none => exact absurd hI' (FL.nnone _ _)
  | panicked =>
    simp only [c01NoPanic, Bool.and_eq_true] at hnowp
    rw [hpnt] at hnowp; exact absurd hnowp.2 (by simp)
  | misuse =>
    have := FL.misuse _ _ hI'
    rw [hspt] at this; exact Bool.noConfusion this

/-! ### one wake-up between polls -/

theorem lb_fire (FL : FutLike P n I J Fin) (e : Eng Fix) (c a : Nat) (h : LB P I m fv n e) :
    LB P I m fv n (e.fire c a) := by
  obtain ⟨l, hl, hp⟩ := World.fire_seg e.w c a
  have hlo : lastOut (e.fire c a).w.trace = lastOut e.w.trace := C01.lastOut_fire e.w c a
  refine ⟨by simpa using h.mode, fun hm => C01.binv_fire e c a (h.std hm),
    fun hm => C01D.binv_fire e c a (h.dir hm), C20.b20_fire e c a h.b20,
    (Sim.fireT (FL.sim m) e c a h.mode (Sim.scriptsOk_any _) h.fi).2.2,
    winv_fire e.w c a h.wi, ?_, by rw [hlo]; exact h.lo, ?_⟩
  · simp only [Eng.fire_w, hl]
    rw [spent_fires false l _ hp]; exact h.sp
  · intro hp'
    rw [hlo] at hp'
    obtain ⟨h1, c', hc', hr⟩ := h.pf hp'
    refine ⟨fun j hj => by simpa [everPolled_fire] using h1 j hj, c', hc', ?_⟩
    simp only [Eng.fire_w, hl]
    rw [resolvedVal_fires l _ c' hp]; exact hr

/-- prodding a waiting child: its wake-up is owed afterwards, hence (C01) the task has been woken -/
theorem lb_fire_woke (FL : FutLike P n I J Fin) (e : Eng Fix) (c : Nat) (h : LB P I m fv n e)
    (hlo : lastOut e.w.trace = some .pending) (hc : c < n) (hlr : lastRes e.w.trace c = some .pend) :
    owes (e.fire c 0).w.trace c = true ∧ lastRes (e.fire c 0).w.trace c = some .pend ∧
      wokeSince (e.fire c 0).w.trace = true := by
  have hLR : lastRes (e.fire c 0).w.trace c = some .pend := by
    simp only [Eng.fire_w]; rw [C16.lastRes_fire]; exact hlr
  obtain ⟨wk, hwk⟩ : ∃ wk, lastWk e.w.trace c = some wk := by
    cases hh : lastWk e.w.trace c with
    | none => exact absurd hh (h.wi.lw c (by rw [hlr]; simp))
    | some wk => exact ⟨wk, rfl⟩
  have hget : (e.w.handed c)[0]? = some wk := by
    rw [← List.head?_eq_getElem?, h.wi.hw c, hwk]
  have howes : owes (e.fire c 0).w.trace c = true := by
    simp only [Eng.fire_w]
    unfold World.fire
    rw [hget]
    simp only
    obtain ⟨l, hl, hp⟩ := World.fireWk_seg (e.w.emit (.fired c 0 (some wk))) wk
    rw [hl]
    refine owes_fires_mono c l _ hp ?_
    simp [owes, hwk]
  have h' := lb_fire FL e c 0 h
  have hq := lb_quiet _ h'
  have hlo' : lastOut (e.fire c 0).w.trace = some .pending := by
    rw [show lastOut (e.fire c 0).w.trace = lastOut e.w.trace from C01.lastOut_fire e.w c 0]; exact hlo
  have halive : alive (e.fire c 0).w.trace = true := by
    have := h'.sp
    simp only [spent, Bool.or_eq_false_iff, Bool.not_eq_false'] at this
    exact this.1.2
  have hgone : gone (e.fire c 0).w.trace c = false := by
    rcases h'.wi.fut c hc with hf | ⟨ok, hf⟩
    · exact hf.2.2.1
    · rw [hLR] at hf; cases hf
  refine ⟨howes, hLR, ?_⟩
  simp only [quiet, halive, hlo', beq_self_eq_true, Bool.and_self, Bool.not_true, Bool.false_or,
    List.all_eq_true, List.mem_range] at hq
  have := hq c hc
  simp only [Eng.fire_w] at hLR hgone howes this
  simpa [hLR, hgone, howes] using this

/-! ### executor rounds -/

theorem round_poll (e : Eng Fix) (h : LB P I m fv n e) (hsp : Exec.shouldPoll e.w.trace = true) :
    Exec.round P n e = some (Eng.poll P e (Exec.pollCount e.w.trace + 1)) := by
  unfold Exec.round; rw [finalOut_lo h.lo, hsp]; simp

theorem round_fire (e : Eng Fix) (h : LB P I m fv n e) (hsp : Exec.shouldPoll e.w.trace = false)
    (c : Nat) (hfw : Exec.firstWaiting n e = some c) : Exec.round P n e = some (e.fire c 0) := by
  unfold Exec.round; rw [finalOut_lo h.lo, hsp, hfw]; simp

/-- after a `Pending` poll some child is waiting and can be prodded -/
theorem firstWaiting_some (e : Eng Fix) (h : LB P I m fv n e)
    (hlo : lastOut e.w.trace = some .pending) :
    ∃ c, Exec.firstWaiting n e = some c ∧ c < n ∧ lastRes e.w.trace c = some .pend ∧
      e.w.scripts c ≠ [] := by
  obtain ⟨hep, c, hc, hr⟩ := h.pf hlo
  obtain ⟨hfs, hl, _⟩ := fut_unresolved (h.wi.fut c hc) hr
  have hlr : lastRes e.w.trace c = some .pend := by
    rcases hl with hl | hl
    · exact absurd hl (h.wi.ep c (hep c hc))
    · exact hl
  have hne := fs_ne_nil _ hfs
  have hsome : (Exec.firstWaiting n e).isSome = true := by
    unfold Exec.firstWaiting
    rw [List.find?_isSome]
    refine ⟨c, List.mem_range.mpr hc, ?_⟩
    simp [hlr, hne]
  cases hfw : Exec.firstWaiting n e with
  | none => rw [hfw] at hsome; exact Bool.noConfusion hsome
  | some c0 =>
    unfold Exec.firstWaiting at hfw
    have hp := List.find?_some hfw
    have hm := List.mem_range.mp (List.mem_of_find?_eq_some hfw)
    simp only [Bool.and_eq_true, beq_iff_eq, Bool.not_eq_true', List.isEmpty_eq_false_iff] at hp
    exact ⟨c0, rfl, hm, hp.1, hp.2⟩

/-- the run has produced its final `Ready` -/
def Done (P : Policy Fix) (n : Nat) (Fin : Bool → List Nat → Prop) (k : Nat) (e : Eng Fix) : Prop :=
  ∃ ok vals, lastOut (Exec.runFor P n k e).w.trace = some (.ready ok vals) ∧ Fin ok vals

theorem poll_round (FL : FutLike P n I J Fin) {N : Nat}
    (ih : ∀ e, LB P I m fv n e → Cond n e N → ∃ k, k ≤ N ∧ Done P n Fin k e)
    (e : Eng Fix) (h : LB P I m fv n e) (hsp : Exec.shouldPoll e.w.trace = true)
    (hE : ((∃ c, c < n ∧ lastRes e.w.trace c = some .pend ∧ owes e.w.trace c = true) ∧
            3 * Exec.stepsLeft n e ≤ N + 2) ∨ 3 * Exec.stepsLeft n e ≤ N) :
    ∃ k, k ≤ N + 1 ∧ Done P n Fin k e := by
  have hr := round_poll e h hsp
  rcases lb_poll FL e (Exec.pollCount e.w.trace + 1) h with ⟨ok, vals, hv, hF⟩ | ⟨h', hlo', hle, hD, hEE⟩
  · exact ⟨1, by omega, ok, vals, by simp only [Exec.runFor, hr]; exact hv, hF⟩
  · have hsp' := shouldPoll_pending hlo'
    have hcond : Cond n (Eng.poll P e (Exec.pollCount e.w.trace + 1)) N := by
      cases hw : wokeSince (Eng.poll P e (Exec.pollCount e.w.trace + 1)).w.trace with
      | true =>
        left
        refine ⟨by rw [hsp', hw], ?_⟩
        rcases hE with ⟨⟨c, hc, h1, h2⟩, hb⟩ | hb
        · have := hEE c hc h1 h2; omega
        · rcases hD with hD | hD
          · omega
          · rw [hw] at hD; exact Bool.noConfusion hD
      | false =>
        right; left
        refine ⟨by rw [hsp', hw], ?_⟩
        rcases hE with ⟨⟨c, hc, h1, h2⟩, hb⟩ | hb
        · have := hEE c hc h1 h2; omega
        · omega
    obtain ⟨k, hk, ok, vals, hv, hF⟩ := ih _ h' hcond
    exact ⟨k + 1, by omega, ok, vals, by simp only [Exec.runFor, hr]; exact hv, hF⟩

/-- the induction on the number of rounds allowed -/
theorem resolves_aux (FL : FutLike P n I J Fin) : ∀ (N : Nat) (e : Eng Fix), LB P I m fv n e →
    Cond n e N → ∃ k, k ≤ N ∧ Done P n Fin k e := by
  intro N
  induction N with
  | zero =>
    intro e h hc
    rcases hc with ⟨_, h1⟩ | ⟨hsp, h1⟩ | ⟨_, _, h1, h2⟩
    · omega
    · obtain ⟨hlo, _⟩ := shouldPoll_false_pending h.lo hsp
      obtain ⟨c, _, hc, _, hne⟩ := firstWaiting_some e h hlo
      have h3 := le_total (fun c => (e.w.scripts c).length) n c hc
      have h4 := length_pos_of_ne_nil' _ hne
      rw [stepsLeft_eq] at h1
      omega
    · omega
  | succ N ih =>
    intro e h hc
    rcases hc with ⟨hsp, h1⟩ | ⟨hsp, h1⟩ | ⟨hsp, hwit, h1, h2⟩
    · exact poll_round FL ih e h hsp (Or.inr (by omega))
    · obtain ⟨hlo, _⟩ := shouldPoll_false_pending h.lo hsp
      obtain ⟨c, hfw, hc, hlr, hne⟩ := firstWaiting_some e h hlo
      have hr := round_fire e h hsp c hfw
      have h' := lb_fire FL e c 0 h
      obtain ⟨ho, hlr', hw⟩ := lb_fire_woke FL e c h hlo hc hlr
      have hlo' : lastOut (e.fire c 0).w.trace = some .pending := by
        rw [show lastOut (e.fire c 0).w.trace = lastOut e.w.trace from C01.lastOut_fire e.w c 0]
        exact hlo
      have h3 := le_total (fun c => (e.w.scripts c).length) n c hc
      have h4 := length_pos_of_ne_nil' _ hne
      have hcond : Cond n (e.fire c 0) N := by
        right; right
        refine ⟨by rw [shouldPoll_pending hlo', hw], ⟨c, hc, hlr', ho⟩, ?_, ?_⟩
        · rw [stepsLeft_fire, stepsLeft_eq]; omega
        · rw [stepsLeft_fire]; omega
      obtain ⟨k, hk, ok, vals, hv, hF⟩ := ih _ h' hcond
      exact ⟨k + 1, by omega, ok, vals, by simp only [Exec.runFor, hr]; exact hv, hF⟩
    · exact poll_round FL ih e h hsp (Or.inl ⟨hwit, by omega⟩)

/-- every run from a state satisfying the invariant resolves within `3 * stepsLeft + 1` rounds -/
theorem resolves_of_lb (FL : FutLike P n I J Fin) (e : Eng Fix) (h : LB P I m fv n e)
    (hsp : Exec.shouldPoll e.w.trace = true) :
    ∃ k, k ≤ 3 * Exec.stepsLeft n e + 1 ∧ Done P n Fin k e :=
  resolves_aux FL _ e h (Or.inl ⟨hsp, Nat.le_refl _⟩)

end Live2
end Fc
