/-
  FcLemmas/World.lean — frame lemmas for the kernel operations.
-/
import Fc.Monitors

namespace Fc
namespace World

@[simp] theorem emit_trace (w : World) (e : Ev) : (w.emit e).trace = e :: w.trace := rfl
@[simp] theorem emit_mode (w : World) (e : Ev) : (w.emit e).mode = w.mode := rfl
@[simp] theorem emit_bits (w : World) (e : Ev) : (w.emit e).bits = w.bits := rfl
@[simp] theorem emit_count (w : World) (e : Ev) : (w.emit e).count = w.count := rfl
@[simp] theorem emit_cap (w : World) (e : Ev) : (w.emit e).cap = w.cap := rfl
@[simp] theorem emit_parent (w : World) (e : Ev) : (w.emit e).parent = w.parent := rfl
@[simp] theorem emit_scripts (w : World) (e : Ev) : (w.emit e).scripts = w.scripts := rfl
@[simp] theorem emit_handed (w : World) (e : Ev) : (w.emit e).handed = w.handed := rfl

@[simp] theorem emits_nil (w : World) : w.emits [] = w := rfl
theorem emits_cons (w : World) (e : Ev) (l : List Ev) : w.emits (e :: l) = (w.emit e).emits l := by
  simp [emits, emit, List.reverse_cons, List.append_assoc]
@[simp] theorem emits_mode (w : World) (l : List Ev) : (w.emits l).mode = w.mode := rfl
@[simp] theorem emits_bits (w : World) (l : List Ev) : (w.emits l).bits = w.bits := rfl
@[simp] theorem emits_count (w : World) (l : List Ev) : (w.emits l).count = w.count := rfl
@[simp] theorem emits_cap (w : World) (l : List Ev) : (w.emits l).cap = w.cap := rfl
@[simp] theorem emits_parent (w : World) (l : List Ev) : (w.emits l).parent = w.parent := rfl
@[simp] theorem emits_trace (w : World) (l : List Ev) : (w.emits l).trace = l.reverse ++ w.trace := rfl

@[simp] theorem setWaker_trace (w : World) (p : Nat) : (w.setWaker p).trace = w.trace := rfl
@[simp] theorem setWaker_mode (w : World) (p : Nat) : (w.setWaker p).mode = w.mode := rfl
@[simp] theorem setWaker_bits (w : World) (p : Nat) : (w.setWaker p).bits = w.bits := rfl
@[simp] theorem setWaker_count (w : World) (p : Nat) : (w.setWaker p).count = w.count := rfl
@[simp] theorem setWaker_cap (w : World) (p : Nat) : (w.setWaker p).cap = w.cap := rfl
@[simp] theorem setWaker_parent (w : World) (p : Nat) : (w.setWaker p).parent = some p := rfl

@[simp] theorem clearReady_trace (w : World) (i : Nat) : (w.clearReady i).trace = w.trace := by
  unfold clearReady; split <;> (try split) <;> rfl
@[simp] theorem clearReady_mode (w : World) (i : Nat) : (w.clearReady i).mode = w.mode := by
  unfold clearReady; split <;> (try split) <;> simp_all
@[simp] theorem clearReady_parent (w : World) (i : Nat) : (w.clearReady i).parent = w.parent := by
  unfold clearReady; split <;> (try split) <;> rfl
@[simp] theorem clearReady_cap (w : World) (i : Nat) : (w.clearReady i).cap = w.cap := by
  unfold clearReady; split <;> (try split) <;> rfl
@[simp] theorem clearReady_scripts (w : World) (i : Nat) : (w.clearReady i).scripts = w.scripts := by
  unfold clearReady; split <;> (try split) <;> rfl
@[simp] theorem clearReady_handed (w : World) (i : Nat) : (w.clearReady i).handed = w.handed := by
  unfold clearReady; split <;> (try split) <;> rfl

theorem clearReady_bits_std (w : World) (i : Nat) (h : w.mode = .std) :
    (w.clearReady i).bits = upd w.bits i false := by
  unfold clearReady; rw [h]; simp only
  split
  · rfl
  · funext j; unfold upd; split <;> simp_all

@[simp] theorem setReady_trace (w : World) (i : Nat) : (w.setReady i).trace = w.trace := by
  unfold setReady; split <;> (try split) <;> rfl
@[simp] theorem setReady_mode (w : World) (i : Nat) : (w.setReady i).mode = w.mode := by
  unfold setReady; split <;> (try split) <;> simp_all
@[simp] theorem setReady_parent (w : World) (i : Nat) : (w.setReady i).parent = w.parent := by
  unfold setReady; split <;> (try split) <;> rfl
@[simp] theorem setReady_cap (w : World) (i : Nat) : (w.setReady i).cap = w.cap := by
  unfold setReady; split <;> (try split) <;> rfl
@[simp] theorem setReady_scripts (w : World) (i : Nat) : (w.setReady i).scripts = w.scripts := by
  unfold setReady; split <;> (try split) <;> rfl
@[simp] theorem setReady_handed (w : World) (i : Nat) : (w.setReady i).handed = w.handed := by
  unfold setReady; split <;> (try split) <;> rfl

theorem setReady_bits_std (w : World) (i : Nat) (h : w.mode = .std) :
    (w.setReady i).bits = upd w.bits i true := by
  unfold setReady; rw [h]; simp only
  split
  · funext j; unfold upd; split <;> simp_all
  · rfl

@[simp] theorem setAllReady_trace (w : World) : w.setAllReady.trace = w.trace := by
  unfold setAllReady; split <;> rfl
@[simp] theorem setAllReady_mode (w : World) : w.setAllReady.mode = w.mode := by
  unfold setAllReady; split <;> simp_all
@[simp] theorem setAllReady_parent (w : World) : w.setAllReady.parent = w.parent := by
  unfold setAllReady; split <;> rfl
@[simp] theorem setAllReady_cap (w : World) : w.setAllReady.cap = w.cap := by
  unfold setAllReady; split <;> rfl

@[simp] theorem kop_trace (w : World) (k : KOp) : (w.kop k).trace = w.trace := by
  cases k <;> simp [kop]
@[simp] theorem kop_mode (w : World) (k : KOp) : (w.kop k).mode = w.mode := by
  cases k <;> simp [kop]
@[simp] theorem kop_parent (w : World) (k : KOp) : (w.kop k).parent = w.parent := by
  cases k <;> simp [kop]
@[simp] theorem kop_cap (w : World) (k : KOp) : (w.kop k).cap = w.cap := by
  cases k <;> simp [kop]

@[simp] theorem fireWk_mode (w : World) (wk : Wk) : (w.fireWk wk).mode = w.mode := by
  unfold fireWk
  split
  · rfl
  · split
    · rfl
    · split
      · rfl
      · split <;> simp
@[simp] theorem fireWk_parent (w : World) (wk : Wk) : (w.fireWk wk).parent = w.parent := by
  unfold fireWk
  split
  · rfl
  · split
    · rfl
    · split
      · rfl
      · split <;> simp
@[simp] theorem fireWk_cap (w : World) (wk : Wk) : (w.fireWk wk).cap = w.cap := by
  unfold fireWk
  split
  · rfl
  · split
    · rfl
    · split
      · rfl
      · split <;> simp
@[simp] theorem fireWk_handed (w : World) (wk : Wk) : (w.fireWk wk).handed = w.handed := by
  unfold fireWk
  split
  · rfl
  · split
    · rfl
    · split
      · rfl
      · split <;> simp
@[simp] theorem fireWk_scripts (w : World) (wk : Wk) : (w.fireWk wk).scripts = w.scripts := by
  unfold fireWk
  split
  · rfl
  · split
    · rfl
    · split
      · rfl
      · split <;> simp

@[simp] theorem fire_mode (w : World) (c a : Nat) : (w.fire c a).mode = w.mode := by
  unfold fire; split <;> simp
@[simp] theorem fire_parent (w : World) (c a : Nat) : (w.fire c a).parent = w.parent := by
  unfold fire; split <;> simp
@[simp] theorem fire_cap (w : World) (c a : Nat) : (w.fire c a).cap = w.cap := by
  unfold fire; split <;> simp
@[simp] theorem fire_handed (w : World) (c a : Nat) : (w.fire c a).handed = w.handed := by
  unfold fire; split <;> simp
@[simp] theorem fire_scripts (w : World) (c a : Nat) : (w.fire c a).scripts = w.scripts := by
  unfold fire; split <;> simp

theorem fires_nil (w : World) : w.fires [] = w := rfl
theorem fires_cons (w : World) (p : Nat × Nat) (l : List (Nat × Nat)) :
    w.fires (p :: l) = (w.fire p.1 p.2).fires l := rfl

@[simp] theorem fires_mode (w : World) (l : List (Nat × Nat)) : (w.fires l).mode = w.mode := by
  induction l generalizing w with
  | nil => rfl
  | cons p l ih => rw [fires_cons, ih]; simp
@[simp] theorem fires_parent (w : World) (l : List (Nat × Nat)) : (w.fires l).parent = w.parent := by
  induction l generalizing w with
  | nil => rfl
  | cons p l ih => rw [fires_cons, ih]; simp
@[simp] theorem fires_cap (w : World) (l : List (Nat × Nat)) : (w.fires l).cap = w.cap := by
  induction l generalizing w with
  | nil => rfl
  | cons p l ih => rw [fires_cons, ih]; simp
@[simp] theorem fires_handed (w : World) (l : List (Nat × Nat)) : (w.fires l).handed = w.handed := by
  induction l generalizing w with
  | nil => rfl
  | cons p l ih => rw [fires_cons, ih]; simp
@[simp] theorem fires_scripts (w : World) (l : List (Nat × Nat)) : (w.fires l).scripts = w.scripts := by
  induction l generalizing w with
  | nil => rfl
  | cons p l ih => rw [fires_cons, ih]; simp

@[simp] theorem pollChild_mode (w : World) (c s : Nat) : (w.pollChild c s).mode = w.mode := by
  simp [pollChild]
@[simp] theorem pollChild_parent (w : World) (c s : Nat) : (w.pollChild c s).parent = w.parent := by
  simp [pollChild]
@[simp] theorem pollChild_cap (w : World) (c s : Nat) : (w.pollChild c s).cap = w.cap := by
  simp [pollChild]

end World
end Fc
