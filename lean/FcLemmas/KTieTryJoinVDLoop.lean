/-
  FcLemmas/KTieTryJoinVDLoop.lean — no_std / alloc-only flavour of `Vec<Fut>::try_join()`, the counterpart of
  FcLemmas/KTieTryJoinLoop.lean: the relation `Rel` between a translated `TryJoin` + environment and a model state (in
  `direct` mode) that the loop of `poll` maintains, the bookkeeping invariant `Inv`, what one iteration has to do
  (`StepSpec`: it is one `Eng.visit tryJoinSlice`), and the loop (`Rs.forCtl` over the slots = `Eng.scan tryJoinSlice`).
  The model side (`tj_visit_*`, `tj_poll_*`, `tj_close_*`, `FutStepsF.tj_*`) is flavour independent and is taken from
  FcLemmas/KTieTryJoinLoop.lean.  No flag table: `Rel` has no `Wf` of the readiness set; instead `fr` records that the
  readiness fields of the environment (which `TieDir.absV` passes through) are still those of the world `b0` at entry.
-/
import FcProps.KTieTryJoinDir
import FcLemmas.KTieTryJoinLoop
import FcLemmas.KTieTryJoinVDEnv

set_option linter.unusedSimpArgs false
set_option linter.unusedVariables false

namespace Fc
open Rs Src

namespace TieTryJoinVD
open TryJoinVD

/-! ### the relation the loop maintains -/

/-- the translated combinator `g` with the environment `env` is read as the model state `e` -/
structure Rel (n o : Nat) (b0 : World) (e : Eng Fix) (g : TryJoin) (env : World) : Prop where
  ew : e.w = TieDir.absV g.roleWakers.readiness env
  en : e.s.n = n
  kids : g.roleKids.len = n
  st : e.s.st = fun i => TiePS.abs (g.roleStates.get i)
  out : e.s.out = g.roleItems.get
  cnt : e.s.cnt = g.roleCount
  off : e.s.off = o
  dead : e.s.dead = g.roleDone
  sl : g.roleStates.len = n
  ic : g.roleItems.cap = n
  par : g.roleWakers.readiness.roleParent ≠ none
  fr : Fr env b0
  hin : HandedIn n env
  sok : FutStepsF env

/-- the bookkeeping of a live try_join (the last two clauses of `WfT`) -/
structure Inv (n : Nat) (g : TryJoin) : Prop where
  pc : g.roleCount = ((List.range n).filter (fun i => g.roleStates.get i = PS.PollState.pending)).length
  rs : ∀ i, i < n → (g.roleStates.get i = PS.PollState.pending ∨
        (g.roleStates.get i = PS.PollState.ready ∧ ∃ v, g.roleItems.get i = some v))

abbrev Ret := Rs.Poll (Rs.Result (List Nat))
abbrev Body := TryJoin × World → Nat → Option ((TryJoin × World) × Rs.Ctl Ret)

/-- one iteration of the loop body is one `Eng.visit tryJoinSlice`; it either goes on (bookkeeping intact) or returns
    the error of the child it polled -/
def StepSpec (n o : Nat) (b0 : World) (F : Body) : Prop :=
  ∀ (e : Eng Fix) (g : TryJoin) (env : World) (i : Nat), Rel n o b0 e g env → Inv n g → i < n →
    ∃ g' env' c, F (g, env) i = some ((g', env'), c) ∧ Rel n o b0 (Eng.visit tryJoinSlice e i).1 g' env' ∧
      ((c = .next ∧ (Eng.visit tryJoinSlice e i).2 = none ∧ Inv n g' ∧ g'.roleDone = g.roleDone) ∨
       (∃ v, c = .ret (.ready (.err v)) ∧ (Eng.visit tryJoinSlice e i).2 = some (.ready false [v])))

/-- the loop over a list of slots is `Eng.scan tryJoinSlice` -/
theorem tjd_loop (n o : Nat) (b0 : World) (F : Body) (hF : StepSpec n o b0 F) (l : List Nat) :
    ∀ (e : Eng Fix) (g : TryJoin) (env : World), Rel n o b0 e g env → Inv n g → (∀ i ∈ l, i < n) →
    ∃ g' env' r, Rs.forCtl l (g, env) F = some ((g', env'), r) ∧ Rel n o b0 (Eng.scan tryJoinSlice l e).1 g' env' ∧
      ((r = none ∧ (Eng.scan tryJoinSlice l e).2 = none ∧ Inv n g' ∧ g'.roleDone = g.roleDone) ∨
       (∃ v, r = some (.ready (.err v)) ∧ (Eng.scan tryJoinSlice l e).2 = some (.ready false [v]))) := by
  induction l with
  | nil =>
    intro e g env hR hI _
    exact ⟨g, env, none, rfl, hR, Or.inl ⟨rfl, rfl, hI, rfl⟩⟩
  | cons i l ih =>
    intro e g env hR hI hl
    obtain ⟨g1, env1, c, h1, hR1, hcase⟩ := hF e g env i hR hI (hl i (List.mem_cons_self ..))
    rcases hcase with ⟨rfl, hv, hI1, hd1⟩ | ⟨v, rfl, hv⟩
    · obtain ⟨g2, env2, r, h2, hR2, hcase2⟩ := ih (Eng.visit tryJoinSlice e i).1 g1 env1 hR1 hI1
        (fun j hj => hl j (List.mem_cons_of_mem _ hj))
      refine ⟨g2, env2, r, ?_, ?_, ?_⟩
      · simp only [Rs.forCtl, h1, h2]
      · simp only [Eng.scan, hv]; exact hR2
      · simp only [Eng.scan, hv]
        rcases hcase2 with ⟨a, b, c, d⟩ | h
        · exact Or.inl ⟨a, b, c, d.trans hd1⟩
        · exact Or.inr h
    · refine ⟨g1, env1, some (.ready (.err v)), ?_, ?_, Or.inr ⟨v, rfl, ?_⟩⟩
      · simp only [Rs.forCtl, h1]
      · simp only [Eng.scan, hv]; exact hR1
      · simp only [Eng.scan, hv]

/-- the loop followed by the code after it (`K`): it is enough to run `K` on what `Eng.scan tryJoinSlice` describes -/
theorem tjd_loop_bind (n o : Nat) (b0 : World) (F : Body) (hF : StepSpec n o b0 F) (l : List Nat) (e : Eng Fix) (g : TryJoin)
    (env : World) (hR : Rel n o b0 e g env) (hI : Inv n g) (hl : ∀ i ∈ l, i < n)
    (K : (TryJoin × World) × Option Ret → Option (TryJoin × World × Ret))
    (Ψ : TryJoin → World → Ret → Prop)
    (hK : ∀ g' env' r, Rel n o b0 (Eng.scan tryJoinSlice l e).1 g' env' →
      ((r = none ∧ (Eng.scan tryJoinSlice l e).2 = none ∧ Inv n g' ∧ g'.roleDone = g.roleDone) ∨
       (∃ v, r = some (.ready (.err v)) ∧ (Eng.scan tryJoinSlice l e).2 = some (.ready false [v]))) →
      ∃ a b c, K ((g', env'), r) = some (a, b, c) ∧ Ψ a b c) :
    ∃ a b c, (Rs.forCtl l (g, env) F).bind K = some (a, b, c) ∧ Ψ a b c := by
  obtain ⟨g', env', r, h1, hR', hcase⟩ := tjd_loop n o b0 F hF l e g env hR hI hl
  rw [h1, Option.bind_some]
  exact hK g' env' r hR' hcase

end TieTryJoinVD
end Fc
