/-
  FcLemmas/NestC03Obs.lean — how the observations of the nest-level C03 statement (`cntPB`, `cntCB`,
  `cntDE`, `pollsOk`, `droppedNow`) see the trace segments the engine appends, the exact shape of
  the segment one `Eng.poll` appends (`pollBegin`, inert events, ONE `pollEnd`), and the kind of
  the outcome a family's poll produces.
-/
import FcLemmas.NestLink
import FcLemmas.C03
import Fc.NestMon
set_option linter.unusedSimpArgs false
set_option linter.unusedVariables false

namespace Fc
open Mon

namespace Nest

/-! ### events that do not matter for the counts -/

/-- everything except the markers of top-level operations -/
def plainEv : Ev → Bool
  | .pollBegin _ | .pollEnd _ | .dropBegin | .dropEnd => false
  | _ => true

theorem plain_of_fire (e : Ev) (h : isFireEv e = true) : plainEv e = true := by
  cases e <;> simp_all [isFireEv, plainEv]
theorem plain_of_own (e : Ev) (h : isOwnEv e = true) : plainEv e = true := by
  cases e <;> simp_all [isOwnEv, plainEv]
theorem inert_of_plain (e : Ev) (h : plainEv e = true) : C03.inert e = true := by
  cases e <;> simp_all [plainEv, C03.inert]
theorem seg_of_plain (e : Ev) (h : plainEv e = true) : segEv e = true := by
  cases e <;> simp_all [plainEv, segEv]

theorem cntPB_skip (e : Ev) (t : List Ev) (h : ∀ w, e ≠ .pollBegin w) : cntPB (e :: t) = cntPB t := by
  cases e <;> simp_all [cntPB]
theorem cntDE_skip (e : Ev) (t : List Ev) (h : e ≠ .dropEnd) : cntDE (e :: t) = cntDE t := by
  cases e <;> simp_all [cntDE]
theorem cntCB_skip (e : Ev) (t : List Ev) (c : Nat) (h : C03.notCB e = true) :
    cntCB (e :: t) c = cntCB t c := by
  cases e <;> simp_all [cntCB, C03.notCB]
theorem pollsOk_skip (e : Ev) (t : List Ev) (h : ∀ w, e ≠ .pollBegin w) :
    pollsOk (e :: t) = pollsOk t := by
  cases e <;> simp_all [pollsOk]

theorem cntPB_plain (l t : List Ev) (hl : ∀ e ∈ l, plainEv e = true) : cntPB (l ++ t) = cntPB t :=
  skip_seg cntPB plainEv (fun e t h => cntPB_skip e t (by intro w hw; subst hw; simp [plainEv] at h)) l hl t
theorem cntDE_plain (l t : List Ev) (hl : ∀ e ∈ l, plainEv e = true) : cntDE (l ++ t) = cntDE t :=
  skip_seg cntDE plainEv (fun e t h => cntDE_skip e t (by intro hw; subst hw; simp [plainEv] at h)) l hl t
theorem pollsOk_plain (l t : List Ev) (hl : ∀ e ∈ l, plainEv e = true) : pollsOk (l ++ t) = pollsOk t :=
  skip_seg pollsOk plainEv (fun e t h => pollsOk_skip e t (by intro w hw; subst hw; simp [plainEv] at h)) l hl t
theorem alive_plain (l t : List Ev) (hl : ∀ e ∈ l, plainEv e = true) : alive (l ++ t) = alive t :=
  C03.alive_seg l t (fun e h => inert_of_plain e (hl e h))
theorem finalSeen_plain (l t : List Ev) (hl : ∀ e ∈ l, plainEv e = true) :
    finalSeen false (l ++ t) = finalSeen false t :=
  C03.finalSeen_seg false l t (fun e h => inert_of_plain e (hl e h))

theorem cntCB_notCB (l t : List Ev) (c : Nat) (hl : ∀ e ∈ l, C03.notCB e = true) :
    cntCB (l ++ t) c = cntCB t c :=
  skip_seg (fun t => cntCB t c) C03.notCB (fun e t h => cntCB_skip e t c h) l hl t

theorem finished_noCE (l t : List Ev) (c : Nat) (hl : ∀ e ∈ l, ∀ c' r, e ≠ .childEnd c' r) :
    finished (l ++ t) c = finished t c := by
  induction l with
  | nil => rfl
  | cons e l ih =>
    rw [List.cons_append, C03.finished_skip e _ c (hl e (List.mem_cons_self ..))]
    exact ih (fun e' he' => hl e' (List.mem_cons_of_mem _ he'))

/-! ### wake-up segments -/

theorem cntPB_fires (l t : List Ev) (hl : ∀ e ∈ l, isFireEv e = true) : cntPB (l ++ t) = cntPB t :=
  cntPB_plain l t (fun e h => plain_of_fire e (hl e h))
theorem cntDE_fires (l t : List Ev) (hl : ∀ e ∈ l, isFireEv e = true) : cntDE (l ++ t) = cntDE t :=
  cntDE_plain l t (fun e h => plain_of_fire e (hl e h))
theorem pollsOk_fires (l t : List Ev) (hl : ∀ e ∈ l, isFireEv e = true) : pollsOk (l ++ t) = pollsOk t :=
  pollsOk_plain l t (fun e h => plain_of_fire e (hl e h))
theorem cntCB_fires (l t : List Ev) (c : Nat) (hl : ∀ e ∈ l, isFireEv e = true) :
    cntCB (l ++ t) c = cntCB t c :=
  cntCB_notCB l t c (fun e h => C03.fire_notCB e (hl e h))
theorem finished_fires (l t : List Ev) (c : Nat) (hl : ∀ e ∈ l, isFireEv e = true) :
    finished (l ++ t) c = finished t c :=
  finished_noCE l t c (fun e h c' r hh => by subst hh; simpa [isFireEv] using hl _ h)

/-! ### drop segments (`dropBegin`, ownership events, `dropEnd`) -/

theorem dropEv_notCB (e : Ev) (h : dropEv e = true) : C03.notCB e = true := by
  cases e <;> simp_all [dropEv, C03.notCB]

theorem cntPB_dropSeg (l t : List Ev) (hl : ∀ e ∈ l, dropEv e = true) : cntPB (l ++ t) = cntPB t :=
  skip_seg cntPB dropEv (fun e t h => cntPB_skip e t (by intro w hw; subst hw; simp [dropEv] at h)) l hl t
theorem pollsOk_dropSeg (l t : List Ev) (hl : ∀ e ∈ l, dropEv e = true) : pollsOk (l ++ t) = pollsOk t :=
  skip_seg pollsOk dropEv (fun e t h => pollsOk_skip e t (by intro w hw; subst hw; simp [dropEv] at h)) l hl t
theorem cntCB_dropSeg (l t : List Ev) (c : Nat) (hl : ∀ e ∈ l, dropEv e = true) :
    cntCB (l ++ t) c = cntCB t c :=
  cntCB_notCB l t c (fun e h => dropEv_notCB e (hl e h))
theorem finalSeen_dropSeg (l t : List Ev) (hl : ∀ e ∈ l, dropEv e = true) :
    finalSeen false (l ++ t) = finalSeen false t :=
  skip_seg (finalSeen false) dropEv (fun e t h => by cases e <;> simp_all [dropEv, finalSeen]) l hl t
theorem finished_dropSeg (l t : List Ev) (c : Nat) (hl : ∀ e ∈ l, dropEv e = true) :
    finished (l ++ t) c = finished t c :=
  finished_noCE l t c (fun e h c' r hh => by subst hh; simpa [dropEv] using hl _ h)
theorem holds_dropSeg (l t : List Ev) (hl : ∀ e ∈ l, dropEv e = true) :
    holds_C03 false (l ++ t) = holds_C03 false t :=
  C03.holds_seg false l t (fun e h => dropEv_notCB e (hl e h))

/-! ### the segment of a poll and `droppedNow` -/

theorem gone_pollSegment (lo t : List Ev) (w c : Nat) (hlo : ∀ e ∈ lo, segEv e = true) :
    gone (lo ++ .pollBegin w :: t) c = (droppedNow (lo ++ .pollBegin w :: t) c || gone t c) := by
  induction lo with
  | nil => simp [gone, droppedNow]
  | cons e lo ih =>
    have h1 := hlo e (List.mem_cons_self ..)
    have ih' := ih (fun e' he' => hlo e' (List.mem_cons_of_mem _ he'))
    rw [List.cons_append]
    cases e <;> simp_all [segEv, gone, droppedNow, Bool.or_assoc]

theorem alive_pollSegment (lo t : List Ev) (w : Nat) (hlo : ∀ e ∈ lo, segEv e = true) :
    alive (lo ++ .pollBegin w :: t) = alive t := by
  rw [Fc.alive_seg lo _ hlo]; rfl

end Nest

/-! ### the exact shape of the segment one poll appends -/

/-- the outcomes a policy can produce all satisfy `ok` -/
structure OutOk (P : Policy Fix) (ok : Outcome → Prop) : Prop where
  pend : ok .pending
  panic : ok .panicked
  pre : ∀ s o, P.pre s = some o → ok o
  handle : ∀ s i r o, (P.handle s i r).exit = some o → ok o
  finish : ∀ s, ok ((P.finish s).exit.getD .pending)

theorem Eng.visit_shape {P : Policy Fix} (L : Lawful P) {ok : Outcome → Prop} (O : OutOk P ok)
    (e : Eng Fix) (i : Nat) :
    ∃ l, (Eng.visit P e i).1.w.trace = l ++ e.w.trace ∧ (∀ ev ∈ l, Nest.plainEv ev = true) ∧
      ∀ o, (Eng.visit P e i).2 = some o → ok o := by
  refine Eng.visit_ind P e i
    (fun r => ∃ l, r.1.w.trace = l ++ e.w.trace ∧ (∀ ev ∈ l, Nest.plainEv ev = true) ∧
      ∀ o, r.2 = some o → ok o) ?_ ?_ ?_ ?_
  · intro _ _
    exact ⟨[], rfl, by simp, fun o ho => by simp only [Option.some.injEq] at ho; subst ho; exact O.pend⟩
  · intro _ _
    exact ⟨[], by simp [Sim.gateW_trace], by simp, fun o ho => by simp at ho⟩
  · intro _ _ _
    obtain ⟨l, hl, hf⟩ := World.pollChild_seg (Eng.gateW P e i) (P.child e.s i) i
    refine ⟨(P.panicEvs e.s).reverse ++ (.childEnd (P.child e.s i) ((Eng.gateW P e i).resOf (P.child e.s i))
        :: (l ++ [.childBegin (P.child e.s i) i ((Eng.gateW P e i).wakerFor i)])), ?_, ?_, ?_⟩
    · simp [World.emits_trace, hl, Sim.gateW_trace]
    · intro ev hev
      simp only [List.mem_append, List.mem_reverse, List.mem_cons, List.mem_singleton,
        List.not_mem_nil, or_false] at hev
      rcases hev with hev | rfl | hev | rfl
      · exact Nest.plain_of_own ev (L.evs_panic e.s ev hev)
      · rfl
      · exact Nest.plain_of_fire ev (hf ev hev)
      · rfl
    · intro o ho; simp only [Option.some.injEq] at ho; subst ho; exact O.panic
  · intro _ _ _
    obtain ⟨l, hl, hf⟩ := World.pollChild_seg (Eng.gateW P e i) (P.child e.s i) i
    refine ⟨(P.handle e.s i (e.w.resOf (P.child e.s i))).evs.reverse ++
        (.childEnd (P.child e.s i) ((Eng.gateW P e i).resOf (P.child e.s i))
        :: (l ++ [.childBegin (P.child e.s i) i ((Eng.gateW P e i).wakerFor i)])), ?_, ?_, ?_⟩
    · simp [Eng.applyH_w, World.kop_trace, World.emits_trace, hl, Sim.gateW_trace]
    · intro ev hev
      simp only [List.mem_append, List.mem_reverse, List.mem_cons, List.mem_singleton,
        List.not_mem_nil, or_false] at hev
      rcases hev with hev | rfl | hev | rfl
      · exact Nest.plain_of_own ev (L.evs_handle e.s i _ ev hev)
      · rfl
      · exact Nest.plain_of_fire ev (hf ev hev)
      · rfl
    · intro o ho; exact O.handle _ _ _ o ho

theorem Eng.scan_shape {P : Policy Fix} (L : Lawful P) {ok : Outcome → Prop} (O : OutOk P ok)
    (l : List Nat) (e : Eng Fix) :
    ∃ seg, (Eng.scan P l e).1.w.trace = seg ++ e.w.trace ∧ (∀ ev ∈ seg, Nest.plainEv ev = true) ∧
      ∀ o, (Eng.scan P l e).2 = some o → ok o := by
  induction l generalizing e with
  | nil => exact ⟨[], rfl, by simp, fun o ho => by simp [Eng.scan] at ho⟩
  | cons i rest ih =>
    obtain ⟨l1, h1, p1, o1⟩ := Eng.visit_shape L O e i
    unfold Eng.scan
    cases hvis : (Eng.visit P e i).2 with
    | some o =>
      simp only
      exact ⟨l1, h1, p1, fun o' ho' => by
        simp only [Option.some.injEq] at ho'; subst ho'; exact o1 o hvis⟩
    | none =>
      simp only
      obtain ⟨l2, h2, p2, o2⟩ := ih (Eng.visit P e i).1
      refine ⟨l2 ++ l1, by rw [h2, h1, List.append_assoc], ?_, o2⟩
      intro ev hev
      simp only [List.mem_append] at hev
      rcases hev with hev | hev
      · exact p2 ev hev
      · exact p1 ev hev

theorem Eng.close_shape {P : Policy Fix} (L : Lawful P) {ok : Outcome → Prop} (O : OutOk P ok)
    (r : Eng Fix × Option Outcome) (t0 seg : List Ev) (hs : r.1.w.trace = seg ++ t0)
    (ps : ∀ ev ∈ seg, Nest.plainEv ev = true) (os : ∀ o, r.2 = some o → ok o) :
    ∃ o l, (Eng.close P r).w.trace = .pollEnd o :: (l ++ t0) ∧
      (∀ ev ∈ l, Nest.plainEv ev = true) ∧ ok o := by
  unfold Eng.close
  split
  · rename_i o ho
    exact ⟨o, seg, by simp [hs], ps, os o ho⟩
  · rename_i ho
    refine ⟨(P.finish r.1.s).exit.getD .pending, (P.finish r.1.s).evs.reverse ++ seg, ?_, ?_,
      O.finish _⟩
    · simp [Eng.applyH_w, World.kop_trace, World.emits_trace, hs]
    · intro ev hev
      simp only [List.mem_append, List.mem_reverse] at hev
      rcases hev with hev | hev
      · exact Nest.plain_of_own ev (L.evs_finish _ ev hev)
      · exact ps ev hev

/-- one poll appends its `pollBegin`, events that are neither poll nor drop markers, and exactly
    one `pollEnd`, whose outcome is one the policy can produce -/
theorem Eng.poll_shape {P : Policy Fix} (L : Lawful P) {ok : Outcome → Prop} (O : OutOk P ok)
    (e : Eng Fix) (wid : Nat) :
    ∃ o l, (Eng.poll P e wid).w.trace = .pollEnd o :: (l ++ .pollBegin wid :: e.w.trace) ∧
      (∀ ev ∈ l, Nest.plainEv ev = true) ∧ ok o := by
  unfold Eng.poll
  split
  · rename_i o ho
    exact ⟨o, [], rfl, by simp, O.pre _ _ ho⟩
  · unfold Eng.body
    split
    · exact ⟨.pending, [], rfl, by simp, O.pend⟩
    · obtain ⟨seg, hs, ps, os⟩ := Eng.scan_shape L O (P.order e.s)
        { w := (e.w.emit (.pollBegin wid)).setWaker wid, s := P.start e.s }
      exact Eng.close_shape L O _ (.pollBegin wid :: e.w.trace) seg hs ps os

/-! ### the kind of the outcomes of a family -/

theorem pre_fits (f : Fam) (h : f.isGroup = false) (s : Fix) (o : Outcome)
    (ho : f.policy.pre s = some o) : o.fits f.yieldsStream = true := by
  cases f <;> simp [Fam.isGroup] at h <;>
    simp only [Fam.policy, Fam.yieldsStream, joinSlice, joinTuple, tryJoinSlice, tryJoinTuple, race, raceOk, merge, zip, chain,
         waitUntilF, waitUntilS, Fix.misuseIfDead] at ho ⊢ <;>
    (repeat' split at ho) <;> first | (cases ho; rfl) | (cases ho) | simp_all [Outcome.fits]

theorem handle_fits (f : Fam) (h : f.isGroup = false) (s : Fix) (i : Nat) (r : Res) (o : Outcome)
    (ho : (f.policy.handle s i r).exit = some o) : o.fits f.yieldsStream = true := by
  cases f <;> simp [Fam.isGroup] at h <;>
    rcases r with _ | ⟨ok, v⟩ | v | _ | _ <;> (try cases ok) <;>
    simp only [Fam.policy, Fam.yieldsStream, joinSlice, joinTuple, tryJoinSlice, tryJoinTuple, race, raceOk, merge, zip, chain,
         waitUntilF, waitUntilS, Fix.keep] at ho ⊢ <;>
    (repeat' split at ho) <;> first | (cases ho; rfl) | (cases ho) | simp_all [Outcome.fits]

theorem finish_fits (f : Fam) (h : f.isGroup = false) (s : Fix) :
    ((f.policy.finish s).exit.getD .pending).fits f.yieldsStream = true := by
  cases f <;> simp [Fam.isGroup] at h <;>
    simp only [Fam.policy, Fam.yieldsStream, joinSlice, joinTuple, tryJoinSlice, tryJoinTuple, race, raceOk, merge, zip, chain,
         waitUntilF, waitUntilS] <;>
    (repeat' split) <;> simp [Outcome.fits]
theorem outOk_policy (f : Fam) (h : f.isGroup = false) :
    OutOk f.policy (fun o => o.fits f.yieldsStream = true) :=
  ⟨rfl, rfl, pre_fits f h, handle_fits f h, finish_fits f h⟩

end Fc
