/-
  FcLemmas/LiveStuckStrInst.lean — merge satisfies `LiveStuck.StuckLike`; the initial state; the
  delivery result for the busy executor (`ExecAny.runForB`), every input being a well-behaved stream
  (`streamScript`) or never-completing (`Exec.pendScript`).  zip does not satisfy `StuckLike.ne`
  (FcProps/C20live.lean shows the statement itself is false for zip).
-/
import FcLemmas.LiveStuckStr
set_option linter.unusedSimpArgs false
set_option linter.unusedVariables false

namespace Fc
namespace LiveStuck
open Mon Live Live3

theorem stuckLike_merge : StuckLike merge C08.Inv where
  pe := by intro s i; rfl
  ne := by
    intro n s t h hsp c hc hel
    have hd := dead_of_spent08 h hsp
    have hst : s.st c = .none := by simpa [merge] using hel
    have := (h.live hd c hc).mp hst
    simpa [ended] using this

theorem lbsn_init_merge (m : Mode) (n : Nat) (hn : 0 < n) (scripts : Nat → List Step)
    (hs : ∀ c, c < n → Exec.strOrNever (scripts c) = true) :
    LBSN merge C08.Inv m (fun c => streamScript (scripts c)) scripts n
      (FEng.init .merge m n scripts) := by
  refine ⟨hn, rfl, fun hm => C01.binv_init .merge n scripts m (by rw [← hm]; rfl),
    fun hm => C01D.binv_init .merge n scripts m (by rw [← hm]; rfl),
    C20.b20_init .merge conc_merge n scripts m, ?_, rfl, winvsn_init _ n scripts hs, rfl,
    bib_init .merge m n scripts, Or.inl rfl⟩
  simpa [FEng.init, Fam.initCnt, World.init] using C08.inv_init n

/-- an input without a step left: every item of its script has been yielded, in order -/
theorem delivered {K : Nat → Bool} {sc0 : Nat → List Step} {n : Nat} {e : Eng Fix}
    (hw : WInvSN K sc0 n e.w) (hI : C08.Inv n e.s e.w.trace) (c : Nat) (hs : e.w.scripts c = []) :
    (Exec.scriptItems (sc0 c)).reverse.Sublist (yielded e.w.trace) := by
  rw [hI.yi, ← produced_all hw c hs, List.reverse_reverse]
  exact itemsOf_sublist c _

section
variable (pick : Nat → Eng Fix → Nat) (pre post : Nat → Eng Fix → List (Nat × Nat)) (r : Nat)

theorem merge_deliversB (m : Mode) (n : Nat) (scripts : Nat → List Step)
    (hs : ∀ c, c < n → Exec.strOrNever (scripts c) = true) :
    ∃ k, k ≤ 3 * Exec.stepsLeft n (FEng.init .merge m n scripts) + 1 ∧
      ∃ e, e = ExecAny.runForB merge n pick pre post k r (FEng.init .merge m n scripts) ∧
      (((∀ c, c < n → streamScript (scripts c) = true) ∧ lastOut e.w.trace = some .none) ∨
        ((∃ c, c < n ∧ streamScript (scripts c) = false) ∧ Exec.atRest n e = true ∧
          (∀ c, c < n → streamScript (scripts c) = false → lastRes e.w.trace c = some .pend))) ∧
      Exec.stepsLeft n e = 0 ∧
      (∀ c, c < n → streamScript (scripts c) = true → lastRes e.w.trace c = some .fin) ∧
      (∀ c, c < n → (Exec.scriptItems (scripts c)).reverse.Sublist (yielded e.w.trace)) := by
  by_cases hn : n = 0
  · subst hn
    refine ⟨1, by omega, _, rfl, Or.inl ⟨fun c hc => absurd hc (Nat.not_lt_zero c), ?_⟩, rfl,
      fun c hc => absurd hc (Nat.not_lt_zero c), fun c hc => absurd hc (Nat.not_lt_zero c)⟩
    simp [ExecAny.runForB, ExecAny.roundB, Exec.finalOut, Exec.shouldPoll, FEng.init, World.init,
      lastOut, Eng.poll, merge, Fix.init, Eng.emit, World.emit]
  · have hpos : 0 < n := by omega
    obtain ⟨k, hk, hv⟩ := endsB_of_prog (progS_str streamLike_merge stuckLike_merge) pick pre post r _
      (lbsn_init_merge m n hpos scripts hs) rfl
    refine ⟨k, hk, _, rfl, ?_⟩
    rcases hv with ⟨t, ht, hI, hw⟩ | hv
    · -- the merge has ended: every input has ended
      have hm := hI.mon
      rw [ht] at hm
      simp only [holds_C08, c08At, Bool.and_eq_true, beq_iff_eq] at hm
      have hall := hm.1.2.1.2
      simp only [allEnded, List.all_eq_true, List.mem_range, ended, beq_iff_eq] at hall
      have hch : ∀ c, c < n → streamScript (scripts c) = true ∧
          lastRes (ExecAny.runForB merge n pick pre post k r (FEng.init .merge m n scripts)).w.trace c
            = some .fin ∧
          (ExecAny.runForB merge n pick pre post k r (FEng.init .merge m n scripts)).w.scripts c = [] := by
        intro c hc
        have hf : lastRes (ExecAny.runForB merge n pick pre post k r
            (FEng.init .merge m n scripts)).w.trace c = some .fin := by
          rw [ht]; simpa [lastRes] using hall c hc
        rcases hw.str c hc with ⟨_, _, ha, _⟩ | ⟨hkc, _, hsc⟩ | ⟨_, _, hl, _⟩
        · exact absurd hf (act_ne_fin ha)
        · exact ⟨hkc, hf, hsc⟩
        · rcases hl with hl | hl <;> rw [hl] at hf <;> cases hf
      refine ⟨Or.inl ⟨fun c hc => (hch c hc).1, by rw [ht]; rfl⟩, ?_, fun c hc _ => (hch c hc).2.1,
        fun c hc => delivered hw hI c (hch c hc).2.2⟩
      rw [stepsLeft_eq]
      exact total_zero_of _ n (fun c hc => by rw [(hch c hc).2.2]; rfl)
    · -- at rest
      obtain ⟨hl, hlo, hwk, hsl⟩ := hv
      have hnil := fun c hc => scripts_nil_of_stepsLeft hsl c hc
      have hd := dead_of_spent08 hl.fi hl.sp
      -- an input that has not ended is never-completing and `Pending`
      have hnever : ∀ c, c < n →
          lastRes (ExecAny.runForB merge n pick pre post k r (FEng.init .merge m n scripts)).w.trace c
            ≠ some .fin →
          streamScript (scripts c) = false ∧
          lastRes (ExecAny.runForB merge n pick pre post k r (FEng.init .merge m n scripts)).w.trace c
            = some .pend := by
        intro c hc hnf
        rcases hl.wi.str c hc with ⟨_, hss, _, _⟩ | ⟨_, hf, _⟩ | ⟨hkc, _, _, _⟩
        · rw [hnil c hc] at hss; exact Bool.noConfusion hss
        · exact absurd hf hnf
        · refine ⟨hkc, ?_⟩
          cases hel : merge.eligible (ExecAny.runForB merge n pick pre post k r
              (FEng.init .merge m n scripts)).s c with
          | true => exact hl.bib.pa hlo c hc hel
          | false => exact absurd (stuckLike_merge.ne n _ _ hl.fi hl.sp c hc hel) hnf
      have hended : ∀ c, c < n → streamScript (scripts c) = true →
          lastRes (ExecAny.runForB merge n pick pre post k r (FEng.init .merge m n scripts)).w.trace c
            = some .fin := by
        intro c hc hkc
        rcases hl.wi.str c hc with ⟨_, hss, _, _⟩ | ⟨_, hf, _⟩ | ⟨hkc', _, _, _⟩
        · rw [hnil c hc] at hss; exact Bool.noConfusion hss
        · exact hf
        · exact Bool.noConfusion (hkc.symm.trans hkc')
      -- some input has not ended (the merge is live)
      have hlt := hl.fi.lt hd hpos
      rw [hl.fi.cnt hd] at hlt
      obtain ⟨i, hi, hp⟩ := cntP_lt _ _ hlt
      have hni : lastRes (ExecAny.runForB merge n pick pre post k r
          (FEng.init .merge m n scripts)).w.trace i ≠ some .fin := by
        intro hf
        have : ended (ExecAny.runForB merge n pick pre post k r
            (FEng.init .merge m n scripts)).w.trace i = true := by simp [ended, hf]
        have := (hl.fi.live hd i hi).mpr this
        simp [this] at hp
      refine ⟨Or.inr ⟨⟨i, hi, (hnever i hi hni).1⟩, by simp [Exec.atRest, hlo, hwk, hsl], ?_⟩, hsl,
        hended, fun c hc => delivered hl.wi hl.fi c (hnil c hc)⟩
      intro c hc hkc
      refine (hnever c hc ?_).2
      intro hf
      rcases hl.wi.str c hc with ⟨hkc', _, _, _⟩ | ⟨hkc', _, _⟩ | ⟨_, _, hl', _⟩
      · exact Bool.noConfusion (hkc.symm.trans hkc')
      · exact Bool.noConfusion (hkc.symm.trans hkc')
      · rcases hl' with hl' | hl' <;> rw [hl'] at hf <;> cases hf

end

end LiveStuck
end Fc
