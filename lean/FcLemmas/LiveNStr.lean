/-
  FcLemmas/LiveNStr.lean — what the liveness proof for nests of STREAM combinators needs from a flat
  run invariant (`SLive`), and its instances: `Live3.LBS` (merge, zip) and `Live3.LBC` (chain).

  New facts about one `Eng.poll`:
    * `poll_keeps`     a child whose latest answer `r` makes its slot ineligible is not polled, and
                       keeps the answer (generalises `Live2.poll_unresolved`);
    * `poll_item`      a poll that yields an item polled a child that answered with an item;
    * `poll_lastRes_unpolled`  a child that was not polled keeps its latest answer.
-/
import FcLemmas.LiveNGen
import FcLemmas.Live3Inst
import FcLemmas.Live3Chain
set_option linter.unusedSimpArgs false
set_option linter.unusedVariables false

namespace Fc
namespace LiveN
open Mon Live Live3 Nest

variable {P : Policy Fix}

/-! ### a child that was not polled keeps its latest answer -/

theorem poll_lastRes_unpolled (L : Lawful P) (e : Eng Fix) (wid c : Nat)
    (h : polledSince (Eng.poll P e wid).w.trace c = false) :
    lastRes (Eng.poll P e wid).w.trace c = lastRes e.w.trace c := by
  have := Eng.poll_ind L
    (fun w _ => polledSince w.trace c = false → lastRes w.trace c = lastRes e.w.trace c)
    ?_ ?_ ?_ e wid (fun _ => by simp [lastRes])
  · obtain ⟨_, h2⟩ := this; exact h2 h
  · intro w w' _ hn hq hp
    obtain ⟨l, hl, hpl⟩ := hn.tr
    rw [hl, polledSince_neutral l _ c hpl] at hp
    rw [hl, lastRes_neutral l _ c hpl]; exact hq hp
  · intro w i rest hq; exact hq
  · intro w i rest hq hp
    rw [polledSince_pollChild] at hp
    simp only [Bool.or_eq_false_iff, decide_eq_false_iff_not] at hp
    rw [C16.lastRes_pollChild]
    simp only [hp.1, if_false]
    exact hq hp.2

/-! ### an ineligible child is not polled -/

/-- child `c` answered `r` before this poll and has not been polled in it -/
def Kept (c : Nat) (r : Res) (w : World) : Prop :=
  polledSince w.trace c = false ∧ lastRes w.trace c = some r

theorem kept_emit_end {c : Nat} {r : Res} {w : World} (h : Kept c r w) (o : Outcome) :
    Kept c r (w.emit (.pollEnd o)) := by
  unfold Kept at h ⊢
  simpa [polledSince, lastRes] using h

theorem poll_keeps {m : Mode} {I : Fix → List Ev → Prop} {J : Fix → List Ev → List Nat → Prop}
    (S : Sim P m Sim.anyRes I J) (L : Lawful P) (r : Res)
    (hjun : ∀ s t i rest, J s t (i :: rest) → P.eligible s i = true → lastRes t i ≠ some r)
    (e : Eng Fix) (wid : Nat) (hm : e.w.mode = m) (hI : I e.s e.w.trace) (c : Nat)
    (hr : lastRes e.w.trace c = some r) :
    polledSince (Eng.poll P e wid).w.trace c = false ∧
      lastRes (Eng.poll P e wid).w.trace c = some r := by
  -- one loop iteration
  have hvisit : ∀ (e : Eng Fix) (i : Nat) (rest : List Nat), J e.s e.w.trace (i :: rest) →
      Kept c r e.w → Kept c r (Eng.visit P e i).1.w := by
    intro e i rest hJ h
    have hstep : ∀ (evs : List Ev), (∀ ev ∈ evs, isOwnEv ev = true) → Eng.gateGo P e i = true →
        Kept c r (((Eng.gateW P e i).pollChild i i).emits evs) := by
      intro evs hevs hg
      have hel : P.eligible e.s i = true := by
        unfold Eng.gateGo at hg; simp only [Bool.and_eq_true] at hg; exact hg.1
      have hne : ¬ i = c := by
        intro hic; subst hic
        exact hjun _ _ _ _ hJ hel h.2
      refine ⟨?_, ?_⟩
      · rw [polledSince_emits_own _ _ hevs, polledSince_pollChild, Sim.gateW_trace]
        simp [hne, h.1]
      · rw [C16.lastRes_emits_own _ _ hevs, C16.lastRes_pollChild, Sim.gateW_trace]
        simp [hne, h.2]
    refine Eng.visit_ind P e i (fun x => Kept c r x.1.w) ?_ ?_ ?_ ?_
    · intro _ _; exact h
    · intro _ _
      unfold Kept
      simp only [Sim.gateW_trace]; exact h
    · intro _ hg _
      rw [L.child_id]
      exact hstep _ (L.evs_panic e.s) hg
    · intro _ hg _
      rw [L.child_id]
      have := hstep _ (L.evs_handle e.s i (e.w.resOf i)) hg
      unfold Kept at this ⊢
      simpa using this
  -- the loop
  have hscan : ∀ (l : List Nat) (e : Eng Fix), e.w.mode = m → J e.s e.w.trace l →
      Kept c r e.w → Kept c r (Eng.scan P l e).1.w := by
    intro l
    induction l with
    | nil => intro e _ _ h; exact h
    | cons i rest ih =>
      intro e hm hJ h
      have hv := hvisit e i rest hJ h
      have hT := Sim.visitT S e i rest hm (Sim.scriptsOk_any _) hJ
      unfold Eng.scan
      cases hvis : (Eng.visit P e i).2 with
      | some o => exact hv
      | none => exact ih _ hT.1 (hT.2.2.1 hvis) hv
  have hb : Kept c r ((e.w.emit (.pollBegin wid)).setWaker wid) :=
    ⟨by simp [polledSince], by simpa [lastRes] using hr⟩
  show Kept c r (Eng.poll P e wid).w
  unfold Eng.poll
  split
  · exact kept_emit_end (w := e.w.emit (.pollBegin wid)) hb _
  · rename_i hpre
    unfold Eng.body
    simp only
    split
    · exact kept_emit_end hb _
    · have hJ := S.start _ _ wid hpre hI
      have hs := hscan (P.order e.s)
        { w := (e.w.emit (.pollBegin wid)).setWaker wid, s := P.start e.s } hm hJ hb
      unfold Eng.close
      split
      · exact kept_emit_end hs _
      · refine kept_emit_end ?_ _
        unfold Kept at hs ⊢
        have hown := L.evs_finish
          (Eng.scan P (P.order e.s) { w := (e.w.emit (.pollBegin wid)).setWaker wid, s := P.start e.s }).1.s
        simp only [Eng.applyH_w, World.kop_trace]
        rw [polledSince_emits_own _ _ hown, C16.lastRes_emits_own _ _ hown]
        exact hs

/-! ### a poll that yields an item polled a child that answered with an item -/

/-- some child polled in this poll answered with an item -/
def ItemSeen (w : World) : Prop :=
  ∃ c v, polledSince w.trace c = true ∧ lastRes w.trace c = some (.item v)

/-- the policy yields an item only from the handler of an item -/
structure YieldsItems (P : Policy Fix) : Prop where
  handle : ∀ s i r k vs, (P.handle s i r).exit = some (.some k vs) → ∃ v, r = .item v
  finish : ∀ s k vs, (P.finish s).exit ≠ some (.some k vs)
  pre : ∀ s k vs, P.pre s ≠ some (.some k vs)

theorem poll_item (L : Lawful P) (Y : YieldsItems P) (e : Eng Fix) (wid k : Nat) (vs : List Nat)
    (h : lastOut (Eng.poll P e wid).w.trace = some (.some k vs)) :
    ItemSeen (Eng.poll P e wid).w := by
  have hvisit : ∀ (e : Eng Fix) (i : Nat), (Eng.visit P e i).2 = some (.some k vs) →
      ItemSeen (Eng.visit P e i).1.w := by
    intro e i
    refine Eng.visit_ind P e i (fun x => x.2 = some (.some k vs) → ItemSeen x.1.w) ?_ ?_ ?_ ?_
    · intro _ _ hx; simp at hx
    · intro _ _ hx; simp at hx
    · intro _ _ _ hx; simp at hx
    · intro _ hg hp hx
      rw [L.child_id] at hp hx ⊢
      obtain ⟨v, hv⟩ := Y.handle _ _ _ _ _ hx
      refine ⟨i, v, ?_, ?_⟩
      · simp only [Eng.applyH_w, World.kop_trace]
        rw [polledSince_emits_own _ _ (L.evs_handle _ _ _), polledSince_pollChild]; simp
      · simp only [Eng.applyH_w, World.kop_trace]
        rw [C16.lastRes_emits_own _ _ (L.evs_handle _ _ _), C16.lastRes_pollChild,
          Sim.gateW_resOf', hv]; simp
  have hscan : ∀ (l : List Nat) (e : Eng Fix), (Eng.scan P l e).2 = some (.some k vs) →
      ItemSeen (Eng.scan P l e).1.w := by
    intro l
    induction l with
    | nil => intro e hx; simp [Eng.scan] at hx
    | cons i rest ih =>
      intro e
      unfold Eng.scan
      cases hvis : (Eng.visit P e i).2 with
      | some o =>
        simp only
        intro hx
        simp only [Option.some.injEq] at hx
        subst hx
        exact hvisit e i hvis
      | none => simp only; exact ih _
  have hend : ∀ (w : World) (o : Outcome), ItemSeen w → ItemSeen (w.emit (.pollEnd o)) := by
    intro w o ⟨c, v, h1, h2⟩
    exact ⟨c, v, by simpa [polledSince] using h1, by simpa [lastRes] using h2⟩
  revert h
  unfold Eng.poll
  split
  · rename_i o ho
    intro h
    simp only [Eng.emit_w, World.emit_trace, lastOut, Option.some.injEq] at h
    subst h
    exact absurd ho (Y.pre _ _ _)
  · unfold Eng.body
    simp only
    split
    · intro h; simp [lastOut] at h
    · unfold Eng.close
      split
      · rename_i o ho
        intro h
        simp only [Eng.emit_w, World.emit_trace, lastOut, Option.some.injEq] at h
        subst h
        exact hend _ _ (hscan _ _ ho)
      · intro h
        simp only [Eng.emit_w, World.emit_trace, lastOut, Option.some.injEq] at h
        cases hx : (P.finish (Eng.scan P (P.order e.s)
            { w := (e.w.emit (.pollBegin wid)).setWaker wid, s := P.start e.s }).1.s).exit with
        | none => rw [hx] at h; simp at h
        | some o =>
          rw [hx] at h
          simp only [Option.getD_some] at h
          subst h
          exact absurd hx (Y.finish _ _ _)

/-! ### the interface -/

/-- what the nest argument needs from a flat run invariant `Inv` of a stream combinator `P` over
    `n` inputs -/
structure SLive (P : Policy Fix) (n : Nat) (Inv : Eng Fix → Prop) : Prop where
  law : Lawful P
  nd : ∀ s, (P.order s).Nodup
  wi : ∀ e, Inv e → WInvS n e.w
  sp : ∀ e, Inv e → spent false e.w.trace = false
  lo : ∀ e, Inv e → lastOut e.w.trace = none ∨ lastOut e.w.trace = some .pending ∨
    ∃ k vs, lastOut e.w.trace = some (.some k vs)
  rescript : ∀ e f g, Inv (setScripts e f) → (∀ c, c < n → Str (e.w.ss g) c) → Inv (setScripts e g)
  fire : ∀ e c a, Inv e → Inv (e.fire c a)
  pe : ∀ e wid, Inv e →
    PEndS n (fun c => (e.w.scripts c).length) e.w.trace (Eng.poll P e wid).w
  ended : ∀ e wid, Inv e → ∀ c, lastRes e.w.trace c = some .fin →
    polledSince (Eng.poll P e wid).w.trace c = false ∧
      lastRes (Eng.poll P e wid).w.trace c = some .fin
  poll : ∀ e wid, Inv e → lastOut (Eng.poll P e wid).w.trace = some .none ∨ Inv (Eng.poll P e wid)
  item : ∀ e wid, Inv e → ∀ k vs, lastOut (Eng.poll P e wid).w.trace = some (.some k vs) →
    ItemSeen (Eng.poll P e wid).w
  c20 : ∀ e wid, Inv e → lastOut (Eng.poll P e wid).w.trace = some .pending → ∀ c, c < n →
    lastRes e.w.trace c = some .pend → owes e.w.trace c = true →
    polledSince (Eng.poll P e wid).w.trace c = true
  waiting : ∀ e, Inv e → lastOut e.w.trace = some .pending →
    ∃ c, c < n ∧ lastRes e.w.trace c = some .pend

/-! ### merge and zip -/

theorem lbs_rescript {I : Nat → Fix → List Ev → Prop} {m : Mode} {n : Nat}
    (e : Eng Fix) (f g : Nat → List Step) (h : LBS P I m n (setScripts e f))
    (hstr : ∀ c, c < n → Str (e.w.ss g) c) : LBS P I m n (setScripts e g) := by
  refine ⟨h.pos, h.mode, fun hm => ?_, fun hm => ?_, ⟨h.b20.la, h.b20.lp, h.b20.m20⟩, h.fi, h.sn,
    ⟨hstr, h.wi.hw, h.wi.lw, h.wi.ep⟩, h.sp, ⟨h.bib.cap, h.bib.a, h.bib.pa⟩, h.lo⟩
  · have b := h.std hm
    exact ⟨⟨b.ks.std, b.ks.cnt, b.ks.hi, b.ks.hand, b.ks.lwk, b.ks.par, b.ks.i2, b.ks.nowp⟩,
      b.cap, b.r1, b.out, b.mb, fun ha hl => ⟨(b.js ha hl).pw, (b.js ha hl).j⟩⟩
  · have b := h.dir hm
    exact ⟨⟨b.kd.dir, b.kd.hand, b.kd.lp, b.kd.nowp⟩, b.cap, b.r1, b.out, b.mb,
      fun ha hl => ⟨(b.jd ha hl).pw, (b.jd ha hl).wk, (b.jd ha hl).o, (b.jd ha hl).d⟩⟩

/-- C20 at a `Pending` poll end, read off `C20.B20` -/
theorem c20_of_b20 {n : Nat} (e' : Eng Fix) (t0 : List Ev) (hb : C20.B20 P e') (hn : e'.s.n = n)
    (hlo : lastOut e'.w.trace = some .pending) (hab : atPollBegin e'.w.trace = t0)
    (hshape : ∃ o t, e'.w.trace = .pollEnd o :: t) :
    ∀ c, c < n → lastRes t0 c = some .pend → owes t0 c = true → polledSince e'.w.trace c = true := by
  obtain ⟨o, t, ht⟩ := hshape
  have ho : o = .pending := by
    rw [ht] at hlo; simpa [lastOut] using hlo
  subst ho
  have hm20 := hb.m20
  rw [hn, ht] at hm20
  rw [ht] at hab
  simp only [atPollBegin] at hab
  simp only [holds_C20, Bool.and_eq_true] at hm20
  have := hm20.2
  simp only [c20At, List.all_eq_true, List.mem_range] at this
  intro c hc h1 h2
  have hcc := this c hc
  rw [hab] at hcc
  simp only [owned, hc, decide_true, if_true, Bool.not_true, Bool.false_or, Bool.and_eq_true,
    Bool.or_eq_true, Bool.not_eq_true', Bool.and_eq_false_imp, beq_iff_eq] at hcc
  rw [ht]
  rcases hcc.2 with h3 | h3
  · have := h3 h1; rw [h2] at this; exact Bool.noConfusion this
  · simpa [polledSince] using h3

theorem slive_lbs {I : Nat → Fix → List Ev → Prop} {J : Nat → Fix → List Ev → List Nat → Prop}
    (SL : StreamLike P I J) (Y : YieldsItems P) (hnd : ∀ s, (P.order s).Nodup) (m : Mode) (n : Nat) :
    SLive P n (LBS P I m n) where
  law := SL.conc.law
  nd := hnd
  wi := fun e h => h.wi
  sp := fun e h => h.sp
  lo := fun e h => h.lo
  rescript := fun e f g h hs => lbs_rescript e f g h hs
  fire := fun e c a h => lbs_fire SL e c a h
  pe := fun e wid h => (pends_poll SL e wid h.mode h.fi h.wi h.sp h.bib h.std).1
  ended := by
    intro e wid h c hr
    exact poll_keeps (SL.sim n m) SL.conc.law .fin
      (fun s t i rest hJ hel => SL.jun n s t _ hJ i (SL.jlt n s t i rest hJ) hel)
      e wid h.mode h.fi c hr
  poll := by
    intro e wid h
    rcases lbs_poll SL e wid h with hv | ⟨h', _⟩
    · exact Or.inl hv
    · exact Or.inr h'
  item := fun e wid _ k vs hk => poll_item SL.conc.law Y e wid k vs hk
  c20 := by
    intro e wid h hlo c hc h1 h2
    rcases lbs_poll SL e wid h with hv | ⟨h', _⟩
    · rw [hv] at hlo; cases hlo
    · have hP := (pends_poll SL e wid h.mode h.fi h.wi h.sp h.bib h.std).1
      obtain ⟨o, t, ht, _, _⟩ := hP.shape
      exact c20_of_b20 _ e.w.trace h'.b20 h'.sn hlo hP.ab ⟨o, t, ht⟩ c hc h1 h2
  waiting := by
    intro e h hlo
    obtain ⟨c, hc, hel⟩ := SL.waiting n _ _ h.pos h.fi h.sp
    exact ⟨c, hc, h.bib.pa hlo c hc hel⟩

theorem yields_merge : YieldsItems merge where
  handle := by
    intro s i r k vs h
    cases r <;> simp [merge, Fix.keep] at h ⊢
    split at h <;> simp at h
  finish := by intro s k vs; simp [merge]
  pre := by
    intro s k vs
    simp only [merge, Fix.misuseIfDead]
    split <;> (try split) <;> simp

theorem yields_zip : YieldsItems zip where
  handle := by
    intro s i r k vs h
    cases r <;> simp [zip, Fix.keep] at h ⊢
  finish := by intro s k vs; simp [zip]
  pre := by
    intro s k vs
    simp only [zip, Fix.misuseIfDead]
    split <;> simp

theorem yields_chain : YieldsItems chain where
  handle := by
    intro s i r k vs h
    cases r <;> simp [chain] at h ⊢
  finish := by intro s k vs; simp [chain]
  pre := by
    intro s k vs
    simp only [chain, Fix.misuseIfDead]
    split <;> simp

/-! ### chain -/

theorem lbc_rescript {n : Nat} (e : Eng Fix) (f g : Nat → List Step) (h : LBC n (setScripts e f))
    (hstr : ∀ c, c < n → Str (e.w.ss g) c) : LBC n (setScripts e g) := by
  have b := h.bs.b
  exact ⟨h.mode, ⟨⟨⟨b.kd.dir, b.kd.hand, b.kd.lp, b.kd.nowp⟩, b.cap, b.r1, b.out, b.mb,
      fun ha hl => ⟨(b.jd ha hl).pw, (b.jd ha hl).wk, (b.jd ha hl).o, (b.jd ha hl).d⟩⟩, h.bs.rs⟩,
    h.fi, ⟨hstr, h.wi.hw, h.wi.lw, h.wi.ep⟩, h.sp, h.lo, h.pc⟩

theorem slive_lbc (n : Nat) : SLive chain n (LBC n) where
  law := lawful_chain
  nd := order_nodup .chain (Or.inr rfl)
  wi := fun e h => h.wi
  sp := fun e h => h.sp
  lo := fun e h => h.lo
  rescript := fun e f g h hs => lbc_rescript e f g h hs
  fire := fun e c a h => lbc_fire e c a h
  pe := fun e wid h => (pends_poll_chain e wid h.mode h.fi h.wi h.sp).1
  ended := by
    intro e wid h c hr
    refine poll_keeps (C10.sim_chain n) lawful_chain .fin ?_ e wid h.mode h.fi c hr
    intro s t i rest hJ _ hf
    obtain ⟨hI, hd, _, hlist⟩ := hJ
    obtain ⟨hic, _, _⟩ := C10.range_head hlist
    have := hI.after hd i (by omega)
    simp [Mon.ended, hf] at this
  poll := by
    intro e wid h
    rcases lbc_poll e wid h with hv | ⟨h', _⟩
    · exact Or.inl hv
    · exact Or.inr h'
  item := fun e wid _ k vs hk => poll_item lawful_chain yields_chain e wid k vs hk
  c20 := by
    intro e wid h hlo c hc h1 _
    rcases lbc_poll e wid h with hv | ⟨h', _⟩
    · rw [hv] at hlo; cases hlo
    · -- direct mode: every child whose latest answer is `Pending` was polled in the latest poll
      cases hps : polledSince (Eng.poll chain e wid).w.trace c with
      | true => rfl
      | false =>
        have hlr := poll_lastRes_unpolled lawful_chain e wid c hps
        rw [h1] at hlr
        have hjd := h'.bs.b.jd (alive_of_sp' h'.sp) hlo
        have := hjd.d c trivial (Or.inl hlr)
        rw [hps] at this; exact this
  waiting := fun e h hlo => h.pc hlo
where
  alive_of_sp' {t : List Ev} (h : spent false t = false) : alive t = true := by
    simp only [spent, Bool.or_eq_false_iff, Bool.not_eq_false'] at h
    exact h.1.2

/-! ### a merge of no inputs (ends at once) -/

/-- a merge of no inputs that has not been polled: nothing was handed out, only wake-ups (of
    wakers that do not exist) were attempted -/
def MergeZ (e : Eng Fix) : Prop :=
  e.s.n = 0 ∧ (∀ c, e.w.handed c = []) ∧ (∀ ev ∈ e.w.trace, isFireEv ev = true)

theorem poll_mergeZ (e : Eng Fix) (wid : Nat) (h : e.s.n = 0) :
    Eng.poll merge e wid = (e.emit (.pollBegin wid)).emit (.pollEnd .none) := by
  have hpre : merge.pre e.s = some .none := by simp [merge, h]
  unfold Eng.poll
  rw [hpre]

theorem mergeZ_obs {e : Eng Fix} (h : MergeZ e) :
    lastOut e.w.trace = none ∧ spent false e.w.trace = false ∧
      (∀ c, lastWk e.w.trace c = none) ∧ (∀ c, lastRes e.w.trace c = none) ∧
      (∀ c, everPolled e.w.trace c = false) := by
  have ht : e.w.trace = e.w.trace ++ [] := by simp
  refine ⟨?_, ?_, fun c => ?_, fun c => ?_, fun c => ?_⟩
  · rw [ht]; exact skip_seg lastOut isFireEv lastOut_fireEv _ h.2.2 []
  · rw [ht, spent_fires false _ [] h.2.2]; rfl
  · rw [ht]
    exact skip_seg (fun t => lastWk t c) isFireEv (fun e t h => lastWk_fireEv c e t h) _ h.2.2 []
  · rw [ht]
    exact skip_seg (fun t => lastRes t c) isFireEv (fun e t h => lastRes_fireEv c e t h) _ h.2.2 []
  · rw [ht]
    exact skip_seg (fun t => everPolled t c) isFireEv (fun e t h => everPolled_fireEv c e t h) _ h.2.2 []

theorem mergeZ_winvs {e : Eng Fix} (h : MergeZ e) : WInvS 0 e.w := by
  obtain ⟨_, _, hwk, hlr, hep⟩ := mergeZ_obs h
  refine ⟨fun c hc => absurd hc (Nat.not_lt_zero c), fun c => by rw [h.2.1 c, hwk c]; rfl,
    fun c hc => absurd (hlr c) hc, fun c hc => ?_⟩
  rw [hep c] at hc; exact Bool.noConfusion hc

theorem slive_mergeZ : SLive merge 0 MergeZ where
  law := lawful_merge
  nd := order_nodup .merge (Or.inl rfl)
  wi := fun e h => mergeZ_winvs h
  sp := fun e h => (mergeZ_obs h).2.1
  lo := fun e h => Or.inl (mergeZ_obs h).1
  rescript := fun e f g h _ => ⟨h.1, h.2.1, h.2.2⟩
  fire := by
    intro e c a h
    obtain ⟨l, hl, hp⟩ := World.fire_seg e.w c a
    refine ⟨h.1, fun c' => by simpa using h.2.1 c', ?_⟩
    intro ev hev
    simp only [Eng.fire_w, hl, List.mem_append] at hev
    rcases hev with hev | hev
    · exact hp ev hev
    · exact h.2.2 ev hev
  pe := by
    intro e wid h
    rw [poll_mergeZ e wid h.1]
    have hb := pinvs_begin wid (mergeZ_winvs h) (mergeZ_obs h).2.1
    have hb' : PInvS 0 (fun c => (e.w.scripts c).length) e.w.trace (e.w.emit (.pollBegin wid)) :=
      pinvs_congr (w := (e.w.emit (.pollBegin wid)).setWaker wid) rfl rfl rfl hb
    exact pends_of_pinvs hb' _ (fun k vs hk => by cases hk)
  ended := by
    intro e wid h c hr
    rw [(mergeZ_obs h).2.2.2.1 c] at hr; cases hr
  poll := by
    intro e wid h
    left
    rw [poll_mergeZ e wid h.1]; rfl
  item := by
    intro e wid h k vs hk
    rw [poll_mergeZ e wid h.1] at hk
    simp [lastOut] at hk
  c20 := by
    intro e wid h hlo
    rw [poll_mergeZ e wid h.1] at hlo
    simp [lastOut] at hlo
  waiting := by
    intro e h hlo
    rw [(mergeZ_obs h).1] at hlo; cases hlo

end LiveN
end Fc
