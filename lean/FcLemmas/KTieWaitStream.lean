/-
  Kernel tie, `WaitUntil::poll_next` of src/stream/wait_until.rs — what the translated function does, by cases on where
  the state machine stands (`State.toNat`) and what the polled children answer (`pn_*`, stated through the role
  abbreviations only, proved by unfolding the generated definition), and the refinement of
  `Eng.close waitUntilS ∘ Eng.scan waitUntilS` over `[0, 1]` (state 0) resp. `[1]` (state 1) built on them (`ws_run_*`).
-/
import FcLemmas.KTieWaitEnv
import FcLemmas.KTieChainEnv
import FcProps.KTieWaitUntil

set_option linter.unusedSimpArgs false
set_option linter.unusedVariables false

namespace Fc
open Rs Src

namespace TieWaitS
open WaitS TieDirect TieWaitEnv TieChainEnv

local macro "unroles" : tactic =>
  `(tactic| try simp only [WaitUntil.roleInner, WaitUntil.roleDeadline, WaitUntil.roleState] at *)

theorem state_lt (s : State) : s.toNat < 2 := by
  cases s <;> decide

/-- waiting for the deadline, which is pending -/
theorem pn_dpend (g : WaitUntil) (cx : Nat) (env env' : World) (hst : g.roleState.toNat = 0)
    (hp : Rs.pollFut dummy () env g.roleDeadline (.par cx) = some ((), env', .pending)) :
    WaitUntil.poll_next g cx env = some (g, env', .pending) := by
  cases hs : g.roleState <;> unroles <;> simp [hs, State.toNat] at hst <;>
    simp [WaitUntil.poll_next, hs, hp]

/-- the deadline resolved: the state moves on, the inner stream is polled in the same call, and only then the
    deadline's output (the `match` scrutinee's temporary) is dropped -/
theorem pn_dready (g : WaitUntil) (cx : Nat) (env env' env'' : World) (v : Nat) (r : Rs.Poll (Option Nat))
    (hst : g.roleState.toNat = 0)
    (hp : Rs.pollFut dummy () env g.roleDeadline (.par cx) = some ((), env', .ready v))
    (hq : Rs.pollStream dummy () env' g.roleInner (.par cx) = some ((), env'', r)) :
    ∃ g', WaitUntil.poll_next g cx env = some (g', env''.emit (.valDropped v), r) ∧ g'.roleState.toNat = 1 ∧
      g'.roleDeadline = g.roleDeadline ∧ g'.roleInner = g.roleInner := by
  cases hs : g.roleState <;> unroles <;> simp [hs, State.toNat] at hst <;>
    simp [WaitUntil.poll_next, hs, hp, hq, State.toNat]

/-- streaming: whatever the inner stream answers -/
theorem pn_stream (g : WaitUntil) (cx : Nat) (env env' : World) (r : Rs.Poll (Option Nat))
    (hst : g.roleState.toNat = 1)
    (hq : Rs.pollStream dummy () env g.roleInner (.par cx) = some ((), env', r)) :
    WaitUntil.poll_next g cx env = some (g, env', r) := by
  cases hs : g.roleState <;> unroles <;> simp [hs, State.toNat] at hst <;>
    simp [WaitUntil.poll_next, hs, hq]

/-! ### well-behaved children -/

theorem StepsW.resOf_deadline {w : World} (h : StepsW w) :
    w.resOf 0 = .pend ∨ ∃ ok v, w.resOf 0 = .ready ok v := by
  unfold World.resOf World.stepOf
  cases hs : w.scripts 0 with
  | nil => exact Or.inl rfl
  | cons s l => exact h.1 s (by rw [hs]; exact List.mem_cons_self ..)

theorem StepsW.resOf_stream {w : World} (h : StepsW w) (c : Nat) (hc : c ≠ 0) :
    w.resOf c = .pend ∨ w.resOf c = .fin ∨ ∃ v, w.resOf c = .item v := by
  unfold World.resOf World.stepOf
  cases hs : w.scripts c with
  | nil => exact Or.inl rfl
  | cons s l => exact h.2 c s hc (by rw [hs]; exact List.mem_cons_self ..)

theorem StepsW.tail {w w' : World} (h : StepsW w) (c : Nat)
    (hs : w'.scripts = upd w.scripts c (w.scripts c).tail) : StepsW w' := by
  refine ⟨?_, ?_⟩
  · intro st hm
    rw [hs] at hm
    by_cases hc : 0 = c
    · subst hc
      simp at hm
      exact h.1 st (List.mem_of_mem_tail hm)
    · simp [upd, hc] at hm
      exact h.1 st hm
  · intro c' st hc0 hm
    rw [hs] at hm
    by_cases hc : c' = c
    · subst hc
      simp at hm
      exact h.2 c' st hc0 (List.mem_of_mem_tail hm)
    · simp [upd, hc] at hm
      exact h.2 c' st hc0 hm

theorem StepsW.pollChild {w : World} (h : StepsW w) (c s : Nat) : StepsW (w.pollChild c s) :=
  h.tail c (pollChild_scripts w c s)

/-! ### the inner stream's poll, both sides -/

/-- one poll of the inner stream (child 1): the translated `poll_next` on it and the model's `visit` agree; the model
    releases what its one-slot buffer held right after the child's poll -/
theorem inner_poll (cx : Nat) (e : Eng Fix) (hm : e.w.mode = .direct) (hp : e.w.parent = some cx) (hs : StepsW e.w) :
    ∃ r s', Rs.pollStream dummy () e.w 1 (.par cx) = some ((), e.w.pollChild 1 1, r) ∧
      Eng.visit waitUntilS e 1 =
        ({ w := (e.w.pollChild 1 1).emits e.s.bufEvs, s := s' }, some (outcomeOfStream r)) ∧
      s'.cnt = e.s.cnt ∧ s'.out 0 = none ∧ (s'.dead = true ↔ (e.s.dead = true ∨ r = .ready none)) := by
  rcases hs.resOf_stream 1 (by decide) with hr | hr | ⟨v, hr⟩
  · exact ⟨.pending, e.s.unbuf, ch_pollStream_pend e.w 1 cx hm hp hr, ws_visit_pend e 1 hm hr, rfl,
      by simp [Fix.unbuf], by simp [Fix.unbuf]⟩
  · exact ⟨.ready none, e.s.unbuf.kill, ch_pollStream_fin e.w 1 cx hm hp hr, ws_visit_fin e 1 hm hr, rfl,
      by simp [Fix.unbuf, Fix.kill], by simp [Fix.unbuf, Fix.kill]⟩
  · exact ⟨.ready (some v), e.s.unbuf, ch_pollStream_item e.w 1 cx v hm hp hr, ws_visit_item e 1 v hm hr, rfl,
      by simp [Fix.unbuf], by simp [Fix.unbuf]⟩

/-! ### one `poll_next` against the closed model run -/

abbrev Ret := WaitUntil × World × Rs.Poll (Option Nat)

/-- what one `poll_next` establishes against the closed model run `E` -/
def Post (E : Eng Fix) (y : Ret) : Prop :=
  WfW y.1 ∧ E.s.cnt = y.1.roleState.toNat ∧ E.s.out 0 = none ∧
    (E.s.dead = true ↔ y.2.2 = .ready none) ∧
    y.2.1.scripts = E.w.scripts ∧ y.2.1.handed = E.w.handed ∧
    E.w.trace = .pollEnd (outcomeOfStream y.2.2) :: y.2.1.trace ∧
    StepsW y.2.1

/-- streaming (state 1): the inner stream is polled, nothing is buffered -/
theorem ws_run_stream (cx : Nat) (g : WaitUntil) (e : Eng Fix) (hwf : WfW g) (hst : g.roleState.toNat = 1)
    (hc : e.s.cnt = 1) (ho : e.s.out 0 = none) (hd : e.s.dead = false)
    (hm : e.w.mode = .direct) (hp : e.w.parent = some cx) (hs : StepsW e.w) :
    ∃ y, WaitUntil.poll_next g cx e.w = some y ∧
      Post (Eng.close waitUntilS (Eng.scan waitUntilS [1] e)) y := by
  obtain ⟨r, s', hq, hv, hcnt, hout, hdead⟩ := inner_poll cx e hm hp hs
  refine ⟨(g, e.w.pollChild 1 1, r), pn_stream g cx _ _ r hst (by rw [hwf.inn]; exact hq), ?_⟩
  simp only [Eng.scan, hv, ws_close_some, bufEvs_none _ ho, emits_nil]
  exact ⟨hwf, by simp [Eng.emit, hcnt, hc, hst], by simp [Eng.emit, hout],
    by simp [Eng.emit, hdead, hd], rfl, rfl, rfl, hs.pollChild _ _⟩

/-- waiting for the deadline (state 0) -/
theorem ws_run_timer (cx : Nat) (g : WaitUntil) (e : Eng Fix) (hwf : WfW g) (hst : g.roleState.toNat = 0)
    (hc : e.s.cnt = 0) (ho : e.s.out 0 = none) (hd : e.s.dead = false)
    (hm : e.w.mode = .direct) (hp : e.w.parent = some cx) (hs : StepsW e.w) :
    ∃ y, WaitUntil.poll_next g cx e.w = some y ∧
      Post (Eng.close waitUntilS (Eng.scan waitUntilS [0, 1] e)) y := by
  rw [Eng.scan]
  rcases hs.resOf_deadline with hr | ⟨ok, v, hr⟩
  · -- the deadline is pending
    refine ⟨(g, e.w.pollChild 0 0, .pending),
      pn_dpend g cx _ _ hst (by rw [hwf.dl]; exact (pollFut_tie e.w 0 cx hm hp).1 hr), ?_⟩
    simp only [ws_visit_pend e 0 hm hr, ws_close_some, bufEvs_none _ ho, emits_nil]
    exact ⟨hwf, by simp [Eng.emit, Fix.unbuf, hc, hst], by simp [Eng.emit, Fix.unbuf],
      by simp [Eng.emit, Fix.unbuf, hd], rfl, rfl, rfl, hs.pollChild _ _⟩
  · -- the deadline resolved: its output is buffered, the inner stream is polled, then the output dies
    rw [ws_visit_deadline e ok v hm hr]
    simp only
    obtain ⟨r, s', hq, hv, hcnt, hout, hdead⟩ := inner_poll cx
      { w := e.w.pollChild 0 0, s := { e.s with cnt := 1, out := upd e.s.out 0 (some v) } }
      (by show (e.w.pollChild 0 0).mode = _; rw [pollChild_mode]; exact hm)
      (by show (e.w.pollChild 0 0).parent = _; rw [pollChild_parent]; exact hp)
      (hs.pollChild 0 0)
    obtain ⟨g', hg', hst', hdl', hin'⟩ := pn_dready g cx e.w _ _ v r hst
      (by rw [hwf.dl]; exact (pollFut_tie e.w 0 cx hm hp).2 ok v hr) (by rw [hwf.inn]; exact hq)
    refine ⟨_, hg', ?_⟩
    have hbuf : ({ e.s with cnt := 1, out := upd e.s.out 0 (some v) } : Fix).bufEvs = [.valDropped v] :=
      bufEvs_some _ v (by simp)
    simp only [Eng.scan, hv, ws_close_some, hbuf, emits_one]
    exact ⟨⟨hdl'.trans hwf.dl, hin'.trans hwf.inn⟩, by simp [Eng.emit, hcnt, hst'], by simp [Eng.emit, hout],
      by simp [Eng.emit, hdead, hd], rfl, rfl, rfl, (hs.pollChild _ _).pollChild _ _⟩

end TieWaitS

end Fc
