/-
  FcLemmas/LiveStuckFutInst.lean — the instances of FcLemmas/LiveStuckFut.lean: join (both models,
  `Live2.FutLike` from the C04 invariant), try_join (both models), race, race_ok (three variants),
  their initial states, and the results for the busy executor (`ExecAny.runForB`: every schedule,
  arbitrary extra wake-ups), every child being well-behaved (`Exec.futureScript`) or
  never-completing (`Exec.pendScript`).
-/
import FcLemmas.LiveStuckFut
set_option linter.unusedSimpArgs false
set_option linter.unusedVariables false

namespace Fc
namespace LiveStuck
open Mon Live

/-! ### join satisfies `Live2.FutLike` -/

theorem futLike_join {P : Policy Fix} {slice : Bool} (JL : JoinLike P slice) (n : Nat) :
    Live2.FutLike P n (C04.Inv slice n) (C04.J slice n) Live2.FinAny where
  conc := JL.conc
  hdrop := JL.hdrop
  hfin := JL.hfin
  sim := fun m => JL.sim n m
  hn := fun s t h => h.hn
  jlt := fun s t i rest hJ => hJ.2.2.2 i (List.mem_cons_self ..)
  jun := by
    intro s t i rest hJ hel ok v hlr
    obtain ⟨hI, hd, _, hlt⟩ := hJ
    have hi : i < n := hlt i (List.mem_cons_self ..)
    rcases hI.live hd i hi with ⟨_, hrv⟩ | ⟨hr, _⟩
    · simp [resolvedVal, hlr] at hrv
    · exact JL.helig _ _ hel hr
  pend := by
    intro s t h
    have hm := h.mon
    simp only [holds_C04, Bool.and_eq_true] at hm
    have hc04 := hm.2
    simp only [c04At, allResolved, Bool.not_eq_true', List.all_eq_false, List.mem_range] at hc04
    obtain ⟨c, hc, hn⟩ := hc04
    refine ⟨c, hc, ?_⟩
    cases hrv : resolvedVal t c with
    | none => rfl
    | some v => simp [hrv] at hn
  nsome := by intro s t k vals h; have hm := h.mon; simp [holds_C04, c04At] at hm
  nnone := by intro s t h; have hm := h.mon; simp [holds_C04, c04At] at hm
  misuse := by
    intro s t h
    have hm := h.mon
    simp only [holds_C04, c04At, Bool.and_eq_true] at hm
    exact hm.2
  fin := fun _ _ _ _ _ => trivial

/-! ### the initial state -/

/-- which children are well-behaved, and what they resolve with -/
def Kof (scripts : Nat → List Step) : Nat → Bool := fun c => Exec.futureScript (scripts c)
def frOf (scripts : Nat → List Step) : Nat → Res := fun c => finalRes (scripts c)

theorem lbn_init (f : Fam) (C : Conc f.policy) (I : Fix → List Ev → Prop) (m : Mode) (n : Nat)
    (scripts : Nat → List Step) (hI : I (Fix.init n (f.initCnt n)) [])
    (hs : ∀ c, c < n → Exec.futOrNever (scripts c) = true) :
    LBN f.policy I (f.modeOf m) (Kof scripts) (frOf scripts) n (FEng.init f m n scripts) := by
  refine ⟨rfl, fun hm => C01.binv_init f n scripts m hm, fun hm => C01D.binv_init f n scripts m hm,
    C20.b20_init f C n scripts m, hI, winvn_init _ n scripts hs, rfl, Or.inl rfl, ?_⟩
  intro hc; simp [FEng.init, World.init, lastOut] at hc

/-! ### what the end of a run says, in terms of the scripts -/

theorem frOf_future (scripts : Nat → List Step) (c : Nat) (h : Kof scripts c = true) :
    ∃ ok, frOf scripts c = .ready ok (finalVal (scripts c)) :=
  finalRes_future (scripts c) h

theorem finalRes_lastAnswer (l : List Step) (r : Res) (h : Exec.lastAnswer l = some r) :
    finalRes l = r := by
  unfold Exec.lastAnswer at h
  unfold finalRes
  cases hl : l.getLast? with
  | none => rw [hl] at h; cases h
  | some st => rw [hl] at h; simpa using h

/-- a quiescent state, in the words of the property: the run is at rest, every well-behaved child
    has run to completion (its latest answer is the `Ready` of its script's last step), every
    never-completing child is `Pending` -/
theorem quiet_rest {P : Policy Fix} {I : Fix → List Ev → Prop} {m : Mode} {n : Nat}
    {scripts : Nat → List Step} (e : Eng Fix)
    (h : Quiet n (LBN P I m (Kof scripts) (frOf scripts) n) e) :
    Exec.atRest n e = true ∧
    (∀ c, c < n → Exec.futureScript (scripts c) = true →
      ∃ ok, lastRes e.w.trace c = some (.ready ok (finalVal (scripts c)))) ∧
    (∀ c, c < n → Exec.futureScript (scripts c) = false → lastRes e.w.trace c = some .pend) := by
  refine ⟨?_, ?_, ?_⟩
  · obtain ⟨_, hlo, hw, hs⟩ := h
    simp [Exec.atRest, hlo, hw, hs]
  · intro c hc hk
    obtain ⟨hr, _⟩ := (quiet_children e h c hc).1 hk
    obtain ⟨ok, hok⟩ := frOf_future scripts c hk
    exact ⟨ok, by rw [hr, hok]⟩
  · intro c hc hk
    exact (quiet_children e h c hc).2 hk

/-- the children's clauses see through the final `pollEnd` -/
theorem fin_child {K : Nat → Bool} {fr : Nat → Res} {n : Nat}
    {e : Eng Fix} {o : Outcome} {t : List Ev} (ht : e.w.trace = .pollEnd o :: t)
    (hw : WInvN K fr n e.w) (c : Nat) (hc : c < n) :
    (lastRes t c = none ∨ lastRes t c = some .pend) ∨
    (K c = true ∧ lastRes t c = some (fr c) ∧ ∃ ok v, fr c = .ready ok v) := by
  have hl : lastRes e.w.trace c = lastRes t c := by rw [ht]; rfl
  rcases hw.fut c hc with ⟨_, _, h, _⟩ | ⟨hk, h, hrd, _⟩ | ⟨_, _, h, _⟩
  · rw [hl] at h; exact Or.inl h
  · rw [hl] at h; exact Or.inr ⟨hk, h, hrd⟩
  · rw [hl] at h; exact Or.inl h

/-! ### join -/

section
variable (pick : Nat → Eng Fix → Nat) (pre post : Nat → Eng Fix → List (Nat × Nat)) (r : Nat)

/-- the final `Ready` of a join: every child is well-behaved, every value at its position -/
theorem join_final {slice : Bool} {n : Nat} {scripts : Nat → List Step} {e : Eng Fix}
    (h : FinFut (C04.Inv slice n) (Kof scripts) (frOf scripts) n Live2.FinAny e) :
    (∀ c, c < n → Exec.futureScript (scripts c) = true) ∧
    lastOut e.w.trace = some (.ready true ((List.range n).map (fun c => finalVal (scripts c)))) := by
  obtain ⟨ok, vals, t, ht, _, hI, hw⟩ := h
  have hm := hI.mon
  rw [ht] at hm
  simp only [holds_C04, c04At, Bool.and_eq_true, beq_iff_eq] at hm
  obtain ⟨_, ⟨hok, hall⟩, hvals⟩ := hm
  simp only [allResolved, List.all_eq_true, List.mem_range] at hall
  have hch : ∀ c, c < n → Exec.futureScript (scripts c) = true ∧
      resolvedVal t c = some (finalVal (scripts c)) := by
    intro c hc
    have hsome := hall c hc
    rcases fin_child ht hw c hc with (h1 | h1) | ⟨hk, h1, _⟩
    · simp [resolvedVal, h1] at hsome
    · simp [resolvedVal, h1] at hsome
    · obtain ⟨ok', hok'⟩ := frOf_future scripts c hk
      exact ⟨hk, by simp [resolvedVal, h1, hok']⟩
  refine ⟨fun c hc => (hch c hc).1, ?_⟩
  rw [ht, hok, hvals]
  simp only [lastOut]
  congr 2
  apply List.map_congr_left
  intro c hc
  rw [(hch c (List.mem_range.mp hc)).2]; rfl

theorem join_runB {P : Policy Fix} {slice : Bool} (JL : JoinLike P slice) {m : Mode} {n : Nat}
    {scripts : Nat → List Step} (e0 : Eng Fix)
    (h0 : LBN P (C04.Inv slice n) m (Kof scripts) (frOf scripts) n e0)
    (hsp : Exec.shouldPoll e0.w.trace = true) :
    ∃ k, k ≤ 3 * Exec.stepsLeft n e0 + 1 ∧ ∃ e, e = ExecAny.runForB P n pick pre post k r e0 ∧
      (((∀ c, c < n → Exec.futureScript (scripts c) = true) ∧
        lastOut e.w.trace = some (.ready true ((List.range n).map (fun c => finalVal (scripts c)))))
      ∨ (Exec.atRest n e = true ∧
          (∀ c, c < n → Exec.futureScript (scripts c) = true →
            ∃ ok, lastRes e.w.trace c = some (.ready ok (finalVal (scripts c)))) ∧
          (∀ c, c < n → Exec.futureScript (scripts c) = false →
            lastRes e.w.trace c = some .pend))) := by
  obtain ⟨k, hk, hv⟩ := endsB_of_prog (progS_fut (futLike_join JL n)) pick pre post r e0 h0 hsp
  refine ⟨k, hk, _, rfl, ?_⟩
  rcases hv with hv | hv
  · exact Or.inl (join_final hv)
  · exact Or.inr (quiet_rest _ hv)

theorem joinSlice_progressB (m : Mode) (n : Nat) (scripts : Nat → List Step)
    (hs : ∀ c, c < n → Exec.futOrNever (scripts c) = true) :
    ∃ k, k ≤ 3 * Exec.stepsLeft n (FEng.init .joinSlice m n scripts) + 1 ∧
      ∃ e, e = ExecAny.runForB joinSlice n pick pre post k r (FEng.init .joinSlice m n scripts) ∧
      (((∀ c, c < n → Exec.futureScript (scripts c) = true) ∧
        lastOut e.w.trace = some (.ready true ((List.range n).map (fun c => finalVal (scripts c)))))
      ∨ (Exec.atRest n e = true ∧
          (∀ c, c < n → Exec.futureScript (scripts c) = true →
            ∃ ok, lastRes e.w.trace c = some (.ready ok (finalVal (scripts c)))) ∧
          (∀ c, c < n → Exec.futureScript (scripts c) = false →
            lastRes e.w.trace c = some .pend))) :=
  join_runB pick pre post r joinLike_slice _
    (lbn_init .joinSlice conc_joinSlice _ m n scripts
      (by simpa [FEng.init, Fam.initCnt, World.init] using C04.inv_init true n) hs) rfl

theorem joinTuple_progressB (m : Mode) (n : Nat) (scripts : Nat → List Step)
    (hs : ∀ c, c < n → Exec.futOrNever (scripts c) = true) :
    ∃ k, k ≤ 3 * Exec.stepsLeft n (FEng.init .joinTuple m n scripts) + 1 ∧
      ∃ e, e = ExecAny.runForB joinTuple n pick pre post k r (FEng.init .joinTuple m n scripts) ∧
      (((∀ c, c < n → Exec.futureScript (scripts c) = true) ∧
        lastOut e.w.trace = some (.ready true ((List.range n).map (fun c => finalVal (scripts c)))))
      ∨ (Exec.atRest n e = true ∧
          (∀ c, c < n → Exec.futureScript (scripts c) = true →
            ∃ ok, lastRes e.w.trace c = some (.ready ok (finalVal (scripts c)))) ∧
          (∀ c, c < n → Exec.futureScript (scripts c) = false →
            lastRes e.w.trace c = some .pend))) :=
  join_runB pick pre post r joinLike_tuple _
    (lbn_init .joinTuple conc_joinTuple _ m n scripts
      (by simpa [FEng.init, Fam.initCnt, World.init] using C04.inv_init false n) hs) rfl

/-! ### try_join -/

theorem lastAnswer_future (l : List Step) (h : Exec.futureScript l = true) :
    Exec.lastAnswer l = some (finalRes l) := by
  have hne := fs_ne_nil l h
  unfold Exec.lastAnswer finalRes
  cases hl : l.getLast? with
  | none => exact absurd (List.getLast?_eq_none_iff.mp hl) hne
  | some st => rfl

/-- a `Ready` some child answered is the last answer of a well-behaved child's script -/
theorem rd_script {n : Nat} {scripts : Nat → List Step} {w : World}
    (hw : WInvN (Kof scripts) (frOf scripts) n w) (ok : Bool) (v : Nat)
    (h : Res.ready ok v ∈ resolvedR w.trace) :
    ∃ c, c < n ∧ Exec.futureScript (scripts c) = true ∧
      Exec.lastAnswer (scripts c) = some (.ready ok v) ∧ finalVal (scripts c) = v := by
  obtain ⟨c, hc, hk, hfr⟩ := hw.rd _ h
  obtain ⟨ok', hok'⟩ := frOf_future scripts c hk
  rw [hfr] at hok'
  cases hok'
  refine ⟨c, hc, hk, ?_, rfl⟩
  rw [lastAnswer_future _ hk]
  exact congrArg some hfr

/-- the final `Ready` of a try_join: `Ok` — every child is well-behaved and resolved `Ok`, every
    value at its position; or `Err` — the error a well-behaved child's script ends with -/
theorem tryJoin_final {slice : Bool} {n : Nat} {scripts : Nat → List Step} {e : Eng Fix}
    (h : FinFut (C05.Inv slice n) (Kof scripts) (frOf scripts) n Live2.FinAny e) :
    ((∀ c, c < n → Exec.futureScript (scripts c) = true) ∧
      lastOut e.w.trace = some (.ready true ((List.range n).map (fun c => finalVal (scripts c)))))
    ∨ (∃ c v, c < n ∧ Exec.futureScript (scripts c) = true ∧
      Exec.lastAnswer (scripts c) = some (.ready false v) ∧
      lastOut e.w.trace = some (.ready false [v])) := by
  obtain ⟨ok, vals, t, ht, _, hI, hw⟩ := h
  have hm := hI.mon
  rw [ht] at hm
  cases ok with
  | true =>
    left
    simp only [holds_C05, c05At, Bool.and_eq_true, beq_iff_eq] at hm
    obtain ⟨_, ⟨_, hall⟩, hvals⟩ := hm
    simp only [allOk, List.all_eq_true, List.mem_range] at hall
    have hch : ∀ c, c < n → Exec.futureScript (scripts c) = true ∧
        okVal t c = some (finalVal (scripts c)) := by
      intro c hc
      have hsome := hall c hc
      rcases fin_child ht hw c hc with (h1 | h1) | ⟨hk, h1, _⟩
      · simp [okVal, h1] at hsome
      · simp [okVal, h1] at hsome
      · obtain ⟨ok', hok'⟩ := frOf_future scripts c hk
        refine ⟨hk, ?_⟩
        rw [hok'] at h1
        cases ok' with
        | true => simp [okVal, h1]
        | false => simp [okVal, h1] at hsome
    refine ⟨fun c hc => (hch c hc).1, ?_⟩
    rw [ht, hvals]
    simp only [lastOut]
    congr 2
    apply List.map_congr_left
    intro c hc
    rw [(hch c (List.mem_range.mp hc)).2]; rfl
  | false =>
    right
    simp only [holds_C05, c05At, Bool.and_eq_true, beq_iff_eq] at hm
    obtain ⟨_, ⟨herr, hlen⟩, _⟩ := hm
    cases vals with
    | nil => simp at hlen
    | cons v rest =>
      cases rest with
      | cons _ _ => simp at hlen
      | nil =>
        have hv : Res.ready false v ∈ resolvedR e.w.trace := by
          rw [ht]
          have : v ∈ errs t := by rw [herr]; simp
          simpa [resolvedR] using errs_resolvedR t v this
        obtain ⟨c, hc, hk, hla, _⟩ := rd_script hw false v hv
        exact ⟨c, v, hc, hk, hla, by rw [ht]; rfl⟩

theorem dead_of_spent05 {slice : Bool} {n : Nat} {s : Fix} {t : List Ev} (h : C05.Inv slice n s t)
    (hsp : spent false t = false) : s.dead = false := by
  cases hd : s.dead with
  | false => rfl
  | true => have := h.dead hd; rw [hsp] at this; exact Bool.noConfusion this

/-- at rest, no well-behaved child of a try_join has failed -/
theorem tryJoin_quiet_noErr {P : Policy Fix} {slice : Bool} {m : Mode} {n : Nat}
    {scripts : Nat → List Step} {e : Eng Fix}
    (h : Quiet n (LBN P (C05.Inv slice n) m (Kof scripts) (frOf scripts) n) e) (c : Nat) (hc : c < n)
    (hk : Exec.futureScript (scripts c) = true) (v : Nat) :
    Exec.lastAnswer (scripts c) ≠ some (.ready false v) := by
  intro hla
  have hfr : frOf scripts c = .ready false v := finalRes_lastAnswer _ _ hla
  obtain ⟨hr, _⟩ := (quiet_children e h c hc).1 hk
  rw [hfr] at hr
  have hd := dead_of_spent05 h.1.fi h.1.sp
  exact Live2.errs_of_lastRes _ c v hr (h.1.fi.noerr hd)

theorem tryJoin_runB {P : Policy Fix} {slice : Bool} {m : Mode} {n : Nat}
    (FL : Live2.FutLike P n (C05.Inv slice n) (C05.J slice n) Live2.FinAny)
    {scripts : Nat → List Step} (e0 : Eng Fix)
    (h0 : LBN P (C05.Inv slice n) m (Kof scripts) (frOf scripts) n e0)
    (hsp : Exec.shouldPoll e0.w.trace = true) :
    ∃ k, k ≤ 3 * Exec.stepsLeft n e0 + 1 ∧ ∃ e, e = ExecAny.runForB P n pick pre post k r e0 ∧
      (((∀ c, c < n → Exec.futureScript (scripts c) = true) ∧
          lastOut e.w.trace = some (.ready true ((List.range n).map (fun c => finalVal (scripts c)))))
      ∨ (∃ c v, c < n ∧ Exec.futureScript (scripts c) = true ∧
          Exec.lastAnswer (scripts c) = some (.ready false v) ∧
          lastOut e.w.trace = some (.ready false [v]))
      ∨ (Exec.atRest n e = true ∧
          (∀ c, c < n → Exec.futureScript (scripts c) = true →
            ∃ ok, lastRes e.w.trace c = some (.ready ok (finalVal (scripts c)))) ∧
          (∀ c, c < n → Exec.futureScript (scripts c) = false →
            lastRes e.w.trace c = some .pend) ∧
          (∀ c v, c < n → Exec.futureScript (scripts c) = true →
            Exec.lastAnswer (scripts c) ≠ some (.ready false v)))) := by
  obtain ⟨k, hk, hv⟩ := endsB_of_prog (progS_fut FL) pick pre post r e0 h0 hsp
  refine ⟨k, hk, _, rfl, ?_⟩
  rcases hv with hv | hv
  · rcases tryJoin_final hv with h1 | h1
    · exact Or.inl h1
    · exact Or.inr (Or.inl h1)
  · obtain ⟨h1, h2, h3⟩ := quiet_rest _ hv
    exact Or.inr (Or.inr ⟨h1, h2, h3, fun c v hc hk => tryJoin_quiet_noErr hv c hc hk v⟩)

/-! ### race -/

theorem dead_of_spent06 {s : Fix} {t : List Ev} (h : C06.Inv s t)
    (hsp : spent false t = false) : s.dead = false := by
  cases hd : s.dead with
  | false => rfl
  | true => have := h.dead hd; rw [hsp] at this; exact Bool.noConfusion this

theorem race_runB {m : Mode} {n : Nat} (hn : 0 < n) {scripts : Nat → List Step} (e0 : Eng Fix)
    (h0 : LBN race (Live2.I6 n) m (Kof scripts) (frOf scripts) n e0)
    (hsp : Exec.shouldPoll e0.w.trace = true) :
    ∃ k, k ≤ 3 * Exec.stepsLeft n e0 + 1 ∧ ∃ e, e = ExecAny.runForB race n pick pre post k r e0 ∧
      ((∃ c, c < n ∧ Exec.futureScript (scripts c) = true ∧
          lastOut e.w.trace = some (.ready true [finalVal (scripts c)]))
      ∨ ((∀ c, c < n → Exec.futureScript (scripts c) = false) ∧ Exec.atRest n e = true ∧
          (∀ c, c < n → lastRes e.w.trace c = some .pend))) := by
  obtain ⟨k, hk, hv⟩ := endsB_of_prog (progS_fut (Live2.futLike_race n hn)) pick pre post r e0 h0 hsp
  refine ⟨k, hk, _, rfl, ?_⟩
  rcases hv with ⟨ok, vals, t, ht, ⟨hok, v, hvals⟩, hI, hw⟩ | hv
  · left
    subst hok; subst hvals
    have hm := hI.1.mon
    rw [ht] at hm
    simp only [holds_C06, c06At, Bool.and_eq_true, beq_iff_eq] at hm
    have hrd : readies t = [v] := hm.2.1.1.2
    have hv : v ∈ readies t := by rw [hrd]; simp
    obtain ⟨ok', hok'⟩ := readies_resolvedR t v hv
    have hv' : Res.ready ok' v ∈ resolvedR (ExecAny.runForB race n pick pre post k r e0).w.trace := by
      rw [ht]; simpa [resolvedR] using hok'
    obtain ⟨c, hc, hkc, _, hfv⟩ := rd_script hw ok' v hv'
    exact ⟨c, hc, hkc, by rw [ht, hfv]; rfl⟩
  · right
    have hd := dead_of_spent06 hv.1.fi.1 hv.1.sp
    have hnone : ∀ c, c < n → Exec.futureScript (scripts c) = false := by
      intro c hc
      cases hkc : Exec.futureScript (scripts c) with
      | false => rfl
      | true =>
        obtain ⟨hr, ok, v, hrd⟩ := (quiet_children _ hv c hc).1 hkc
        rw [hrd] at hr
        exact absurd (hv.1.fi.1.live hd).1 (Live2.readies_of_lastRes _ c ok v hr)
    obtain ⟨h1, _, h3⟩ := quiet_rest _ hv
    exact ⟨hnone, h1, fun c hc => h3 c hc (hnone c hc)⟩

theorem race_deliversB (m : Mode) (n : Nat) (hn : 0 < n) (scripts : Nat → List Step)
    (hs : ∀ c, c < n → Exec.futOrNever (scripts c) = true) :
    ∃ k, k ≤ 3 * Exec.stepsLeft n (FEng.init .race m n scripts) + 1 ∧
      ∃ e, e = ExecAny.runForB race n pick pre post k r (FEng.init .race m n scripts) ∧
      ((∃ c, c < n ∧ Exec.futureScript (scripts c) = true ∧
          lastOut e.w.trace = some (.ready true [finalVal (scripts c)]))
      ∨ ((∀ c, c < n → Exec.futureScript (scripts c) = false) ∧ Exec.atRest n e = true ∧
          (∀ c, c < n → lastRes e.w.trace c = some .pend))) :=
  race_runB pick pre post r hn _
    (lbn_init .race conc_race _ m n scripts
      ⟨by simpa [FEng.init, Fam.initCnt, World.init] using C06.inv_init n, rfl⟩ hs) rfl

/-! ### try_join: the two models -/

theorem tryJoinSlice_progressB (m : Mode) (n : Nat) (scripts : Nat → List Step)
    (hs : ∀ c, c < n → Exec.futOrNever (scripts c) = true) :
    ∃ k, k ≤ 3 * Exec.stepsLeft n (FEng.init .tryJoinSlice m n scripts) + 1 ∧
      ∃ e, e = ExecAny.runForB tryJoinSlice n pick pre post k r (FEng.init .tryJoinSlice m n scripts) ∧
      (((∀ c, c < n → Exec.futureScript (scripts c) = true) ∧
          lastOut e.w.trace = some (.ready true ((List.range n).map (fun c => finalVal (scripts c)))))
      ∨ (∃ c v, c < n ∧ Exec.futureScript (scripts c) = true ∧
          Exec.lastAnswer (scripts c) = some (.ready false v) ∧
          lastOut e.w.trace = some (.ready false [v]))
      ∨ (Exec.atRest n e = true ∧
          (∀ c, c < n → Exec.futureScript (scripts c) = true →
            ∃ ok, lastRes e.w.trace c = some (.ready ok (finalVal (scripts c)))) ∧
          (∀ c, c < n → Exec.futureScript (scripts c) = false →
            lastRes e.w.trace c = some .pend) ∧
          (∀ c v, c < n → Exec.futureScript (scripts c) = true →
            Exec.lastAnswer (scripts c) ≠ some (.ready false v)))) :=
  tryJoin_runB pick pre post r (Live2.futLike_tryJoinSlice n) _
    (lbn_init .tryJoinSlice conc_tryJoinSlice _ m n scripts
      (by simpa [FEng.init, Fam.initCnt, World.init] using C05.inv_init true n) hs) rfl

theorem tryJoinTuple_progressB (m : Mode) (n : Nat) (scripts : Nat → List Step)
    (hs : ∀ c, c < n → Exec.futOrNever (scripts c) = true) :
    ∃ k, k ≤ 3 * Exec.stepsLeft n (FEng.init .tryJoinTuple m n scripts) + 1 ∧
      ∃ e, e = ExecAny.runForB tryJoinTuple n pick pre post k r (FEng.init .tryJoinTuple m n scripts) ∧
      (((∀ c, c < n → Exec.futureScript (scripts c) = true) ∧
          lastOut e.w.trace = some (.ready true ((List.range n).map (fun c => finalVal (scripts c)))))
      ∨ (∃ c v, c < n ∧ Exec.futureScript (scripts c) = true ∧
          Exec.lastAnswer (scripts c) = some (.ready false v) ∧
          lastOut e.w.trace = some (.ready false [v]))
      ∨ (Exec.atRest n e = true ∧
          (∀ c, c < n → Exec.futureScript (scripts c) = true →
            ∃ ok, lastRes e.w.trace c = some (.ready ok (finalVal (scripts c)))) ∧
          (∀ c, c < n → Exec.futureScript (scripts c) = false →
            lastRes e.w.trace c = some .pend) ∧
          (∀ c v, c < n → Exec.futureScript (scripts c) = true →
            Exec.lastAnswer (scripts c) ≠ some (.ready false v)))) :=
  tryJoin_runB pick pre post r (Live2.futLike_tryJoinTuple n) _
    (lbn_init .tryJoinTuple conc_tryJoinTuple _ m n scripts
      (by simpa [FEng.init, Fam.initCnt, World.init] using C05.inv_init false n) hs) rfl

/-! ### race_ok -/

theorem dead_of_spent07 {n : Nat} {s : Fix} {t : List Ev} (h : C07.Inv n s t)
    (hsp : spent false t = false) : s.dead = false := by
  cases hd : s.dead with
  | false => rfl
  | true => have := h.1.dead hd; rw [hsp] at this; exact Bool.noConfusion this

/-- the final `Ready` of a race_ok: `Ok v` — the value a well-behaved child's script ends with;
    or `Err` — every child is well-behaved and failed, every error at its position -/
theorem raceOk_final {n : Nat} {scripts : Nat → List Step} {e : Eng Fix}
    (h : FinFut (C07.Inv n) (Kof scripts) (frOf scripts) n Live2.FinAny e) :
    (∃ c v, c < n ∧ Exec.futureScript (scripts c) = true ∧
      Exec.lastAnswer (scripts c) = some (.ready true v) ∧
      lastOut e.w.trace = some (.ready true [v]))
    ∨ ((∀ c, c < n → Exec.futureScript (scripts c) = true ∧
          ∃ v, Exec.lastAnswer (scripts c) = some (.ready false v)) ∧
      lastOut e.w.trace = some (.ready false ((List.range n).map (fun c => finalVal (scripts c))))) := by
  obtain ⟨ok, vals, t, ht, _, hI, hw⟩ := h
  have hm := hI.1.mon
  rw [ht] at hm
  cases ok with
  | true =>
    left
    simp only [holds_C07, c07At, Bool.and_eq_true, beq_iff_eq] at hm
    obtain ⟨_, ⟨hoks, hlen⟩, _⟩ := hm
    cases vals with
    | nil => simp at hlen
    | cons v rest =>
      cases rest with
      | cons _ _ => simp at hlen
      | nil =>
        have hv : Res.ready true v ∈ resolvedR e.w.trace := by
          rw [ht]
          have : v ∈ oks t := by rw [hoks]; simp
          simpa [resolvedR] using oks_resolvedR t v this
        obtain ⟨c, hc, hk, hla, _⟩ := rd_script hw true v hv
        exact ⟨c, v, hc, hk, hla, by rw [ht]; rfl⟩
  | false =>
    right
    simp only [holds_C07, c07At, Bool.and_eq_true, beq_iff_eq] at hm
    obtain ⟨_, ⟨⟨_, hall⟩, hvals⟩, _⟩ := hm
    simp only [allErr, List.all_eq_true, List.mem_range] at hall
    have hch : ∀ c, c < n → Exec.futureScript (scripts c) = true ∧
        errVal t c = some (finalVal (scripts c)) ∧
        ∃ v, Exec.lastAnswer (scripts c) = some (.ready false v) := by
      intro c hc
      have hsome := hall c hc
      rcases fin_child ht hw c hc with (h1 | h1) | ⟨hk, h1, _⟩
      · simp [errVal, h1] at hsome
      · simp [errVal, h1] at hsome
      · obtain ⟨ok', hok'⟩ := frOf_future scripts c hk
        have hla := lastAnswer_future _ hk
        refine ⟨hk, ?_⟩
        rw [hok'] at h1
        cases ok' with
        | false =>
          refine ⟨by simp [errVal, h1], finalVal (scripts c), ?_⟩
          rw [hla]; exact congrArg some hok'
        | true => simp [errVal, h1] at hsome
    refine ⟨fun c hc => ⟨(hch c hc).1, (hch c hc).2.2⟩, ?_⟩
    rw [ht, hvals]
    simp only [lastOut]
    congr 2
    apply List.map_congr_left
    intro c hc
    rw [(hch c (List.mem_range.mp hc)).2.1]; rfl

/-- at rest, no well-behaved child of a race_ok has succeeded -/
theorem raceOk_quiet_noOk {P : Policy Fix} {m : Mode} {n : Nat}
    {scripts : Nat → List Step} {e : Eng Fix}
    (h : Quiet n (LBN P (C07.Inv n) m (Kof scripts) (frOf scripts) n) e) (c : Nat) (hc : c < n)
    (hk : Exec.futureScript (scripts c) = true) (v : Nat) :
    Exec.lastAnswer (scripts c) ≠ some (.ready true v) := by
  intro hla
  have hfr : frOf scripts c = .ready true v := finalRes_lastAnswer _ _ hla
  obtain ⟨hr, _⟩ := (quiet_children e h c hc).1 hk
  rw [hfr] at hr
  have hd := dead_of_spent07 h.1.fi h.1.sp
  exact Live2.oks_of_lastRes _ c v hr (h.1.fi.1.noOk hd)

theorem raceOk_runB (rotate early : Bool) (hconc : Conc (raceOk rotate early)) {m : Mode} {n : Nat}
    {scripts : Nat → List Step} (e0 : Eng Fix)
    (h0 : LBN (raceOk rotate early) (C07.Inv n) m (Kof scripts) (frOf scripts) n e0)
    (hsp : Exec.shouldPoll e0.w.trace = true) :
    ∃ k, k ≤ 3 * Exec.stepsLeft n e0 + 1 ∧
      ∃ e, e = ExecAny.runForB (raceOk rotate early) n pick pre post k r e0 ∧
      ((∃ c v, c < n ∧ Exec.futureScript (scripts c) = true ∧
          Exec.lastAnswer (scripts c) = some (.ready true v) ∧
          lastOut e.w.trace = some (.ready true [v]))
      ∨ ((∀ c, c < n → Exec.futureScript (scripts c) = true ∧
              ∃ v, Exec.lastAnswer (scripts c) = some (.ready false v)) ∧
          lastOut e.w.trace = some (.ready false ((List.range n).map (fun c => finalVal (scripts c)))))
      ∨ (Exec.atRest n e = true ∧
          (∀ c, c < n → Exec.futureScript (scripts c) = true →
            ∃ ok, lastRes e.w.trace c = some (.ready ok (finalVal (scripts c)))) ∧
          (∀ c, c < n → Exec.futureScript (scripts c) = false →
            lastRes e.w.trace c = some .pend) ∧
          (∀ c v, c < n → Exec.futureScript (scripts c) = true →
            Exec.lastAnswer (scripts c) ≠ some (.ready true v)))) := by
  obtain ⟨k, hk, hv⟩ := endsB_of_prog (progS_fut (Live2.futLike_raceOk rotate early hconc n))
    pick pre post r e0 h0 hsp
  refine ⟨k, hk, _, rfl, ?_⟩
  rcases hv with hv | hv
  · rcases raceOk_final hv with h1 | h1
    · exact Or.inl h1
    · exact Or.inr (Or.inl h1)
  · obtain ⟨h1, h2, h3⟩ := quiet_rest _ hv
    exact Or.inr (Or.inr ⟨h1, h2, h3, fun c v hc hk => raceOk_quiet_noOk hv c hc hk v⟩)

theorem raceOk_deliversB (fam : Fam) (hf : fam = .raceOkArr ∨ fam = .raceOkVec ∨ fam = .raceOkTup)
    (m : Mode) (n : Nat) (scripts : Nat → List Step)
    (hs : ∀ c, c < n → Exec.futOrNever (scripts c) = true) :
    ∃ k, k ≤ 3 * Exec.stepsLeft n (FEng.init fam m n scripts) + 1 ∧
      ∃ e, e = ExecAny.runForB fam.policy n pick pre post k r (FEng.init fam m n scripts) ∧
      ((∃ c v, c < n ∧ Exec.futureScript (scripts c) = true ∧
          Exec.lastAnswer (scripts c) = some (.ready true v) ∧
          lastOut e.w.trace = some (.ready true [v]))
      ∨ ((∀ c, c < n → Exec.futureScript (scripts c) = true ∧
              ∃ v, Exec.lastAnswer (scripts c) = some (.ready false v)) ∧
          lastOut e.w.trace = some (.ready false ((List.range n).map (fun c => finalVal (scripts c)))))
      ∨ (Exec.atRest n e = true ∧
          (∀ c, c < n → Exec.futureScript (scripts c) = true →
            ∃ ok, lastRes e.w.trace c = some (.ready ok (finalVal (scripts c)))) ∧
          (∀ c, c < n → Exec.futureScript (scripts c) = false →
            lastRes e.w.trace c = some .pend) ∧
          (∀ c v, c < n → Exec.futureScript (scripts c) = true →
            Exec.lastAnswer (scripts c) ≠ some (.ready true v)))) := by
  rcases hf with rfl | rfl | rfl
  · exact raceOk_runB pick pre post r false false conc_raceOkArr _
      (lbn_init .raceOkArr conc_raceOkArr _ m n scripts
        (by simpa [FEng.init, Fam.initCnt, World.init] using C07.inv_init n) hs) rfl
  · exact raceOk_runB pick pre post r false true conc_raceOkVec _
      (lbn_init .raceOkVec conc_raceOkVec _ m n scripts
        (by simpa [FEng.init, Fam.initCnt, World.init] using C07.inv_init n) hs) rfl
  · exact raceOk_runB pick pre post r true false conc_raceOkTup _
      (lbn_init .raceOkTup conc_raceOkTup _ m n scripts
        (by simpa [FEng.init, Fam.initCnt, World.init] using C07.inv_init n) hs) rfl

end

end LiveStuck
end Fc
