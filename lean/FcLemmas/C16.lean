/-
  FcLemmas/C16.lean — selective polling: invariant and its preservation by every kernel and
  engine step, for every lawful policy (std mode).
-/
import FcLemmas.Engine

namespace Fc
namespace C16
open Mon

/-- events that none of the C16 observations looks at -/
def neutral : Ev → Bool
  | .childBegin _ _ _ | .childEnd _ _ | .fired _ _ _ => false
  | _ => true

theorem holds_neutral (e : Ev) (t : List Ev) (h : neutral e = true) :
    holds_C16 (e :: t) = holds_C16 t := by
  cases e <;> simp_all [neutral, holds_C16]

theorem lastRes_neutral (e : Ev) (t : List Ev) (c : Nat) (h : neutral e = true) :
    lastRes (e :: t) c = lastRes t c := by
  cases e <;> simp_all [neutral, lastRes]

theorem fss_neutral (e : Ev) (t : List Ev) (c s : Nat) (h : neutral e = true) :
    firedSubSince (e :: t) c s = firedSubSince t c s := by
  cases e <;> simp_all [neutral, firedSubSince]

/-- the C16 invariant: the monitor accepted the trace so far, and a set readiness bit is
    justified (child not waiting, or its sub-waker fired since its last poll began).
    `cur` = the child whose poll is in progress (its previous result no longer counts). -/
structure InvP (w : World) (cur : Option Nat) : Prop where
  mon : holds_C16 w.trace = true
  bit : ∀ i, w.bits i = true →
    (cur ≠ some i ∧ lastRes w.trace i ≠ some .pend) ∨ firedSubSince w.trace i i = true

abbrev Inv (w : World) : Prop := InvP w none

theorem inv_emit (w : World) (cur : Option Nat) (e : Ev) (hn : neutral e = true) (h : InvP w cur) :
    InvP (w.emit e) cur := by
  constructor
  · simp [holds_neutral e _ hn, h.mon]
  · intro i hi
    simp only [World.emit_trace, lastRes_neutral e _ _ hn, fss_neutral e _ _ _ hn]
    exact h.bit i (by simpa using hi)

theorem inv_emits (w : World) (cur : Option Nat) (l : List Ev) (hn : ∀ e ∈ l, neutral e = true)
    (h : InvP w cur) : InvP (w.emits l) cur := by
  induction l generalizing w with
  | nil => simpa using h
  | cons e l ih =>
    rw [World.emits_cons]
    exact ih _ (fun e' he' => hn e' (List.mem_cons_of_mem _ he'))
      (inv_emit w cur e (hn e (List.mem_cons_self ..)) h)

theorem inv_setWaker (w : World) (cur : Option Nat) (p : Nat) (h : InvP w cur) :
    InvP (w.setWaker p) cur :=
  ⟨h.mon, h.bit⟩

theorem inv_clearReady (w : World) (cur : Option Nat) (i : Nat) (hm : w.mode = .std)
    (h : InvP w cur) : InvP (w.clearReady i) cur := by
  constructor
  · simpa using h.mon
  · intro j hj
    rw [World.clearReady_bits_std w i hm] at hj
    simp only [World.clearReady_trace]
    by_cases hji : j = i
    · subst hji; simp at hj
    · rw [upd_other _ _ _ _ hji] at hj; exact h.bit j hj

theorem inv_setReady (w : World) (cur : Option Nat) (i : Nat) (hm : w.mode = .std) (h : InvP w cur)
    (hi : (cur ≠ some i ∧ lastRes w.trace i ≠ some .pend) ∨ firedSubSince w.trace i i = true) :
    InvP (w.setReady i) cur := by
  constructor
  · simpa using h.mon
  · intro j hj
    rw [World.setReady_bits_std w i hm] at hj
    simp only [World.setReady_trace]
    by_cases hji : j = i
    · subst hji; exact hi
    · rw [upd_other _ _ _ _ hji] at hj; exact h.bit j hj

theorem inv_setAllReady (w : World) (hm : w.mode = .std) (h : Inv w)
    (hall : ∀ j, j < w.cap → lastRes w.trace j ≠ some .pend) : Inv w.setAllReady := by
  constructor
  · simpa using h.mon
  · intro j hj
    left
    unfold World.setAllReady at hj
    rw [hm] at hj
    simp only [decide_eq_true_eq] at hj
    exact ⟨by simp, by simpa using hall j hj⟩

theorem inv_fired (w : World) (cur : Option Nat) (c a : Nat) (wk : Option Wk) (h : InvP w cur) :
    InvP (w.emit (.fired c a wk)) cur := by
  constructor
  · simpa [holds_C16] using h.mon
  · intro i hi
    simp only [World.emit_trace, lastRes]
    rcases h.bit i (by simpa using hi) with h1 | h1
    · exact Or.inl h1
    · right
      cases wk with
      | none => simpa [firedSubSince] using h1
      | some k => cases k <;> simp [firedSubSince, h1]

theorem inv_fireWk (w : World) (cur : Option Nat) (c a : Nat) (wk : Wk) (hm : w.mode = .std)
    (h : InvP w cur) : InvP ((w.emit (.fired c a (some wk))).fireWk wk) cur := by
  have hbase := inv_fired w cur c a (some wk) h
  cases wk with
  | par p => exact inv_emit _ _ _ rfl hbase
  | sub s =>
    cases hb : w.bits s with
    | true =>
      have : (w.emit (.fired c a (some (.sub s)))).fireWk (.sub s) = w.emit (.fired c a (some (.sub s))) := by
        simp [World.fireWk, hm, hb]
      rw [this]; exact hbase
    | false =>
      cases hp : w.parent with
      | some p =>
        have : (w.emit (.fired c a (some (.sub s)))).fireWk (.sub s)
            = ((w.emit (.fired c a (some (.sub s)))).setReady s).emit (.woke p) := by
          simp [World.fireWk, hm, hb, hp]
        rw [this]
        refine inv_emit _ _ _ rfl ?_
        refine inv_setReady _ _ s (by simpa using hm) hbase ?_
        right; simp [firedSubSince]
      | none =>
        have : (w.emit (.fired c a (some (.sub s)))).fireWk (.sub s)
            = ((w.emit (.fired c a (some (.sub s)))).setReady s).emit .wakePanic := by
          simp [World.fireWk, hm, hb, hp]
        rw [this]
        refine inv_emit _ _ _ rfl ?_
        refine inv_setReady _ _ s (by simpa using hm) hbase ?_
        right; simp [firedSubSince]

theorem inv_fire (w : World) (cur : Option Nat) (c a : Nat) (hm : w.mode = .std) (h : InvP w cur) :
    InvP (w.fire c a) cur := by
  unfold World.fire
  split
  · exact inv_fired w cur c a none h
  · exact inv_fireWk w cur c a _ hm h

theorem inv_fires (w : World) (cur : Option Nat) (l : List (Nat × Nat)) (hm : w.mode = .std)
    (h : InvP w cur) : InvP (w.fires l) cur := by
  induction l generalizing w with
  | nil => exact h
  | cons p l ih =>
    rw [World.fires_cons]
    exact ih _ (by simpa using hm) (inv_fire w cur p.1 p.2 hm h)

/-- polling child `i` in slot `i` whose bit has just been cleared -/
theorem inv_pollChild (w : World) (i : Nat) (hm : w.mode = .std) (h : Inv w)
    (hclr : w.bits i = false)
    (hjust : lastRes w.trace i ≠ some .pend ∨ firedSubSince w.trace i i = true) :
    Inv (w.pollChild i i) := by
  unfold World.pollChild
  -- state right after `childBegin`
  have h1 : InvP { w with scripts := upd w.scripts i (w.scripts i).tail,
                          handed := upd w.handed i (w.wakerFor i :: w.handed i),
                          trace := .childBegin i i (w.wakerFor i) :: w.trace } (some i) := by
    constructor
    · simp only [holds_C16, h.mon, Bool.true_and]
      rcases hjust with hj | hj
      · simp [hj]
      · simp [hj]
    · intro j hj
      simp only at hj
      by_cases hji : j = i
      · subst hji; simp [hclr] at hj
      · simp only [lastRes, firedSubSince]
        simp only [show ¬ (i = j) from fun h => hji h.symm, if_false]
        rcases h.bit j hj with hb | hb
        · exact Or.inl ⟨by simpa using fun h => hji h.symm, hb.2⟩
        · exact Or.inr hb
  have h2 := inv_fires _ (some i) (w.stepOf i).fires (by simpa using hm) h1
  -- `childEnd`
  constructor
  · simpa [holds_C16] using h2.mon
  · intro j hj
    simp only [World.emit_trace, World.emit_bits] at hj ⊢
    simp only [lastRes, firedSubSince]
    rcases h2.bit j hj with hb | hb
    · left
      have hne : i ≠ j := fun h => hb.1 (by rw [h])
      simp only [hne, if_false]
      exact ⟨by simp, hb.2⟩
    · exact Or.inr hb

end C16
end Fc

namespace Fc
namespace C16
open Mon

theorem own_neutral (e : Ev) (h : isOwnEv e = true) : neutral e = true := by
  cases e <;> simp_all [isOwnEv, neutral]

/-! `lastRes` across kernel steps -/

theorem lastRes_fireWk (w : World) (wk : Wk) (j : Nat) :
    lastRes (w.fireWk wk).trace j = lastRes w.trace j := by
  cases wk with
  | par p => simp [World.fireWk, lastRes]
  | sub s =>
    unfold World.fireWk
    cases w.mode <;> simp only
    by_cases hb : w.bits s = true
    · simp [hb]
    · simp only [hb]
      cases w.parent <;> simp [lastRes]

theorem lastRes_fire (w : World) (c a j : Nat) :
    lastRes (w.fire c a).trace j = lastRes w.trace j := by
  unfold World.fire
  split
  · simp [lastRes]
  · rw [lastRes_fireWk]; simp [lastRes]

theorem lastRes_fires (w : World) (l : List (Nat × Nat)) (j : Nat) :
    lastRes (w.fires l).trace j = lastRes w.trace j := by
  induction l generalizing w with
  | nil => rfl
  | cons p l ih => rw [World.fires_cons, ih, lastRes_fire]

theorem lastRes_pollChild (w : World) (c s j : Nat) :
    lastRes (w.pollChild c s).trace j = if c = j then some (w.resOf c) else lastRes w.trace j := by
  unfold World.pollChild
  simp only [World.emit_trace, lastRes]
  split
  · rfl
  · rw [lastRes_fires]; simp [lastRes]

theorem lastRes_emits_own (w : World) (l : List Ev) (hl : ∀ e ∈ l, isOwnEv e = true) (j : Nat) :
    lastRes (w.emits l).trace j = lastRes w.trace j := by
  induction l generalizing w with
  | nil => rfl
  | cons e l ih =>
    rw [World.emits_cons, ih _ (fun e' he' => hl e' (List.mem_cons_of_mem _ he'))]
    simp only [World.emit_trace]
    exact lastRes_neutral e _ _ (own_neutral e (hl e (List.mem_cons_self ..)))

/-- engine-level invariant -/
structure EInv (P : Policy Fix) (e : Eng Fix) : Prop where
  k : Inv e.w
  std : e.w.mode = .std
  cap : e.w.cap = e.s.n
  r1 : P.pre e.s = none → ∀ j, lastRes e.w.trace j = some .pend → P.eligible e.s j = true

variable {P : Policy Fix}

theorem bits_gateW_std (e : Eng Fix) (i : Nat) (hm : e.w.mode = .std)
    (hg : Eng.gateGo P e i = true) : (Eng.gateW P e i).bits i = false := by
  unfold Eng.gateGo at hg
  simp only [Bool.and_eq_true] at hg
  unfold Eng.gateW
  simp only [hg.1, Bool.or_true, if_true]
  rw [World.clearReady_bits_std _ _ hm]; simp

theorem inv_gateW (e : Eng Fix) (i : Nat) (hm : e.w.mode = .std) (h : Inv e.w) :
    Inv (Eng.gateW P e i) := by
  unfold Eng.gateW
  split
  · exact inv_clearReady _ _ _ hm h
  · exact h

@[simp] theorem gateW_trace (e : Eng Fix) (i : Nat) : (Eng.gateW P e i).trace = e.w.trace := by
  unfold Eng.gateW; split <;> simp
@[simp] theorem gateW_mode (e : Eng Fix) (i : Nat) : (Eng.gateW P e i).mode = e.w.mode := by
  unfold Eng.gateW; split <;> simp
@[simp] theorem gateW_cap (e : Eng Fix) (i : Nat) : (Eng.gateW P e i).cap = e.w.cap := by
  unfold Eng.gateW; split <;> simp
@[simp] theorem gateW_scripts (e : Eng Fix) (i : Nat) : (Eng.gateW P e i).scripts = e.w.scripts := by
  unfold Eng.gateW; split <;> simp
@[simp] theorem gateW_parent (e : Eng Fix) (i : Nat) : (Eng.gateW P e i).parent = e.w.parent := by
  unfold Eng.gateW; split <;> simp

theorem gateW_resOf (e : Eng Fix) (i c : Nat) : (Eng.gateW P e i).resOf c = e.w.resOf c := by
  simp [World.resOf, World.stepOf]

/-- one loop iteration keeps the invariant; if the loop goes on the combinator is still live -/
theorem einv_visit (L : Lawful P) (e : Eng Fix) (i : Nat) (h : EInv P e)
    (hl : P.pre e.s = none) :
    EInv P (Eng.visit P e i).1 ∧ ((Eng.visit P e i).2 = none → P.pre (Eng.visit P e i).1.s = none) := by
  refine Eng.visit_ind P e i (fun r => EInv P r.1 ∧ (r.2 = none → P.pre r.1.s = none)) ?_ ?_ ?_ ?_
  · intro _ _; exact ⟨h, fun hn => by simp at hn⟩
  · intro _ _
    refine ⟨⟨inv_gateW e i h.std h.k, by simpa using h.std, by simpa using h.cap, ?_⟩, fun _ => hl⟩
    intro hp j hj
    exact h.r1 hp j (by simpa using hj)
  · intro _ hg hp
    rw [L.child_id] at hp ⊢
    refine ⟨⟨?_, by simpa using h.std, ?_, ?_⟩, fun hn => by simp at hn⟩
    · refine inv_emits _ _ _ (fun e' he' => own_neutral e' (L.evs_panic _ _ he')) ?_
      refine inv_pollChild _ i (by simpa using h.std) (inv_gateW e i h.std h.k)
        (bits_gateW_std e i h.std hg) ?_
      have hb : e.w.bits i = true := by
        unfold Eng.gateGo at hg
        simp only [Bool.and_eq_true] at hg
        have := hg.2
        unfold World.isSet at this
        rw [h.std] at this
        exact this
      rcases h.k.bit i hb with hx | hx
      · exact Or.inl (by simpa using hx.2)
      · exact Or.inr (by simpa using hx)
    · simp [h.cap, L.n_panic]
    · intro hpre; exact absurd hpre (L.panic_dead _)
  · intro _ hg hp
    rw [L.child_id] at hp ⊢
    have hb : e.w.bits i = true := by
      unfold Eng.gateGo at hg
      simp only [Bool.and_eq_true] at hg
      have := hg.2
      unfold World.isSet at this
      rw [h.std] at this
      exact this
    have hel : P.eligible e.s i = true := by
      unfold Eng.gateGo at hg
      simp only [Bool.and_eq_true] at hg
      exact hg.1
    have hpc : Inv ((Eng.gateW P e i).pollChild i i) := by
      refine inv_pollChild _ i (by simpa using h.std) (inv_gateW e i h.std h.k)
        (bits_gateW_std e i h.std hg) ?_
      rcases h.k.bit i hb with hx | hx
      · exact Or.inl (by simpa using hx.2)
      · exact Or.inr (by simpa using hx)
    -- abbreviations
    generalize hr : e.w.resOf i = r at hp ⊢
    have hlr : ∀ j, lastRes (((Eng.gateW P e i).pollChild i i).emits (P.handle e.s i r).evs).trace j
        = if i = j then some r else lastRes e.w.trace j := by
      intro j
      rw [lastRes_emits_own _ _ (L.evs_handle _ _ _), lastRes_pollChild, gateW_resOf, hr]
      simp
    have hemits : Inv (((Eng.gateW P e i).pollChild i i).emits (P.handle e.s i r).evs) :=
      inv_emits _ _ _ (fun e' he' => own_neutral e' (L.evs_handle _ _ _ _ he')) hpc
    constructor
    · refine ⟨?_, by simpa using h.std, ?_, ?_⟩
      · -- kernel part after the re-arm
        simp only [Eng.applyH_w]
        cases hk : (P.handle e.s i r).kop with
        | nop => simpa [World.kop] using hemits
        | arm j =>
          obtain ⟨rfl, hne⟩ := L.arm _ _ _ _ hk
          simp only [World.kop]
          refine inv_setReady _ _ j (by simpa using h.std) hemits ?_
          left
          refine ⟨by simp, ?_⟩
          rw [hlr]; simpa using hne
        | armAll =>
          obtain ⟨hne, hall⟩ := L.armAll _ _ _ hk
          simp only [World.kop]
          refine inv_setAllReady _ (by simpa using h.std) hemits ?_
          intro j hj
          rw [hlr]
          by_cases hij : i = j
          · subst hij; simpa using hne
          · simp only [hij, if_false]
            intro hpend
            have := h.r1 hl j hpend
            rw [hall j (fun hh => hij hh.symm) (by simpa [h.cap] using hj)] at this
            exact Bool.noConfusion this
      · simp [h.cap, L.n_handle]
      · intro hpre j hj
        simp only [Eng.applyH_w, World.kop_trace, Eng.applyH_s] at hj ⊢
        rw [hlr] at hj
        by_cases hij : i = j
        · subst hij
          simp only [if_true, Option.some.injEq] at hj
          subst hj
          rw [L.pend_elig]; exact hel
        · simp only [hij, if_false] at hj
          exact L.mono _ _ _ _ (fun hh => hij hh.symm) hpre (h.r1 hl j hj)
    · intro hex
      simp only [Eng.applyH_s]
      by_cases hd : P.pre (P.handle e.s i r).s = none
      · exact hd
      · exact absurd hex (L.dead_exit _ _ _ hl hd)

end C16
end Fc

namespace Fc
namespace C16
open Mon

variable {P : Policy Fix}

theorem einv_scan (L : Lawful P) (l : List Nat) (e : Eng Fix) (h : EInv P e) (hl : P.pre e.s = none) :
    EInv P (Eng.scan P l e).1 ∧ ((Eng.scan P l e).2 = none → P.pre (Eng.scan P l e).1.s = none) := by
  have := Eng.scan_ind P (fun e => EInv P e ∧ P.pre e.s = none) (fun e => EInv P e)
    (fun e i hq => by
      have hv := einv_visit L e i hq.1 hq.2
      exact ⟨fun hn => ⟨hv.1, hv.2 hn⟩, fun _ _ => hv.1⟩) l e ⟨h, hl⟩
  cases hs : (Eng.scan P l e).2 with
  | none => exact ⟨(this.1 hs).1, fun _ => (this.1 hs).2⟩
  | some o => exact ⟨this.2 o hs, fun hn => by simp at hn⟩

theorem einv_emit (e : Eng Fix) (ev : Ev) (hn : neutral ev = true) (h : EInv P e) :
    EInv P (e.emit ev) := by
  refine ⟨inv_emit _ _ _ hn h.k, by simpa using h.std, by simpa using h.cap, ?_⟩
  intro hp j hj
  simp only [Eng.emit_w, World.emit_trace, lastRes_neutral ev _ _ hn] at hj
  exact h.r1 hp j hj

theorem einv_close (L : Lawful P) (r : Eng Fix × Option Outcome) (h : EInv P r.1)
    (hl : r.2 = none → P.pre r.1.s = none) : EInv P (Eng.close P r) := by
  unfold Eng.close
  split
  · exact einv_emit _ _ rfl h
  · rename_i hn
    refine einv_emit _ _ rfl ?_
    refine ⟨?_, by simpa using h.std, by simp [h.cap, L.n_finish], ?_⟩
    · simp only [Eng.applyH_w, L.finish_kop, World.kop]
      exact inv_emits _ _ _ (fun e' he' => own_neutral e' (L.evs_finish _ _ he')) h.k
    · intro hp j hj
      simp only [Eng.applyH_s] at hp ⊢
      simp only [Eng.applyH_w, World.kop_trace] at hj
      rw [lastRes_emits_own _ _ (L.evs_finish _)] at hj
      rw [L.finish_elig _ _ hp]
      exact h.r1 (hl hn) j hj

theorem einv_body (L : Lawful P) (e : Eng Fix) (h : EInv P e) (hl : P.pre e.s = none) :
    EInv P (Eng.body P e) := by
  have hstart : EInv P { e with s := P.start e.s } := by
    refine ⟨h.k, h.std, by simp [h.cap, L.n_start], ?_⟩
    intro _ j hj
    simp only [L.start_elig]
    exact h.r1 hl j hj
  unfold Eng.body
  split
  · exact einv_emit _ _ rfl hstart
  · have hs := einv_scan L (P.order e.s) _ hstart (L.start_live _ hl)
    exact einv_close L _ hs.1 hs.2

theorem einv_poll (L : Lawful P) (e : Eng Fix) (w : Nat) (h : EInv P e) : EInv P (Eng.poll P e w) := by
  unfold Eng.poll
  split
  · exact einv_emit _ _ rfl (einv_emit _ _ rfl h)
  · rename_i hp
    refine einv_body L _ ?_ hp
    refine ⟨inv_setWaker _ _ _ (inv_emit _ _ _ rfl h.k), by simpa using h.std, by simpa using h.cap, ?_⟩
    intro hp' j hj
    exact h.r1 hp' j (by simpa [lastRes] using hj)

theorem einv_fire (e : Eng Fix) (c a : Nat) (h : EInv P e) : EInv P (e.fire c a) := by
  refine ⟨inv_fire _ _ _ _ h.std h.k, by simpa using h.std, by simpa using h.cap, ?_⟩
  intro hp j hj
  simp only [Eng.fire_w, lastRes_fire] at hj
  exact h.r1 hp j hj

theorem einv_drop (L : Lawful P) (e : Eng Fix) (h : EInv P e) : EInv P (Eng.drop P e) := by
  unfold Eng.drop
  refine ⟨?_, by simpa using h.std, by simp [h.cap, L.n_drop], ?_⟩
  · refine inv_emit _ _ _ rfl ?_
    refine inv_emits _ _ _ (fun e' he' => own_neutral e' (L.evs_drop _ _ he')) ?_
    exact inv_emit _ _ _ rfl h.k
  · intro hp; exact absurd hp (L.drop_dead _)

theorem einv_step (L : Lawful P) (e : Eng Fix) (op : Op) (h : EInv P e) : EInv P (FEng.step P e op) := by
  cases op <;> simp only [FEng.step]
  · exact einv_poll L _ _ h
  · exact einv_fire _ _ _ h
  · exact einv_drop L _ h
  all_goals exact h

theorem einv_run (L : Lawful P) (ops : List Op) (e : Eng Fix) (h : EInv P e) :
    EInv P (ops.foldl (FEng.step P) e) := by
  induction ops generalizing e with
  | nil => exact h
  | cons op ops ih => exact ih _ (einv_step L e op h)

theorem einv_init (f : Fam) (n : Nat) (scripts : Nat → List Step)
    (m : Mode) (hmm : f.modeOf m = .std) :
    EInv f.policy (FEng.init f m n scripts) := by
  refine ⟨⟨rfl, ?_⟩, hmm, rfl, ?_⟩
  · intro i _; left; exact ⟨by simp, by simp [FEng.init, World.init, lastRes]⟩
  · intro _ j hj; simp [FEng.init, World.init, lastRes] at hj

end C16
end Fc
