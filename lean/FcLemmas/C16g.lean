/-
  FcLemmas/C16g.lean — selective polling for FutureGroup / StreamGroup (std mode).

  Part 1: the part of the `slab` key discipline the proof needs (the slot `Slab::insert_at`
          picks lies below the group's capacity), robust against the one way the model's slab
          can be corrupted (`remove` of a key whose stream already ended but whose key is still
          waiting in `key_removal_queue`).
  Part 2: the kernel invariant of FcLemmas/C16.lean, generalised from "slot `i` holds child `i`"
          to an arbitrary slot → member map.
  Part 3: the engine invariant over `Eng Grp` and its preservation by every group operation.
-/
import FcLemmas.C16
import FcLemmas.SimG
import FcLemmas.Fresh

set_option linter.unusedSimpArgs false
set_option linter.unusedVariables false

namespace Fc
namespace C16g
open Mon C16

/-! ### Part 1 — slab free list -/

/-- `L` is the chain `next, vac next, vac (vac next), …` of slots below `entries`, ending at
    `entries` -/
def FreeList (vac : Nat → Nat) (entries : Nat) : Nat → List Nat → Prop
  | n, [] => n = entries
  | n, x :: xs => n = x ∧ x < entries ∧ FreeList vac entries (vac x) xs

/-- what is known about `slab.next`: either the free chain reaches `entries` and is long enough
    (`entries ≤ chain length + len`), or the chain never leaves the slots below `entries`
    (a corrupted, cyclic chain) -/
def SlabP (vac : Nat → Nat) (entries next len : Nat) : Prop :=
  (∃ L, FreeList vac entries next L ∧ entries ≤ L.length + len) ∨
  (∃ S : Nat → Prop, S next ∧ ∀ x, S x → x < entries ∧ S (vac x))

theorem slabP_next_lt {vac : Nat → Nat} {entries next len cap : Nat}
    (h : SlabP vac entries next len) (hl : len < cap) (he : entries ≤ cap) : next < cap := by
  rcases h with ⟨L, hL, hlen⟩ | ⟨S, hn, hS⟩
  · cases L with
    | nil => simp [FreeList] at hL hlen; omega
    | cons x xs => simp only [FreeList] at hL; omega
  · have := (hS next hn).1; omega

theorem slabP_next_lt_of_ne {vac : Nat → Nat} {entries next len : Nat}
    (h : SlabP vac entries next len) (hne : next ≠ entries) : next < entries := by
  rcases h with ⟨L, hL, hlen⟩ | ⟨S, hn, hS⟩
  · cases L with
    | nil => simp [FreeList] at hL; omega
    | cons x xs => simp only [FreeList] at hL; omega
  · exact (hS next hn).1

theorem slabP_insert_eq {vac : Nat → Nat} {entries next len : Nat}
    (h : SlabP vac entries next len) (heq : next = entries) :
    SlabP vac (entries + 1) (next + 1) (len + 1) := by
  rcases h with ⟨L, hL, hlen⟩ | ⟨S, hn, hS⟩
  · cases L with
    | nil =>
      left; refine ⟨[], ?_, ?_⟩
      · simp [FreeList, heq]
      · simp at hlen ⊢; omega
    | cons x xs => simp only [FreeList] at hL; omega
  · have := (hS next hn).1; omega

theorem slabP_insert_ne {vac : Nat → Nat} {entries next len : Nat}
    (h : SlabP vac entries next len) (hne : next ≠ entries) :
    SlabP vac entries (vac next) (len + 1) := by
  rcases h with ⟨L, hL, hlen⟩ | ⟨S, hn, hS⟩
  · cases L with
    | nil => simp [FreeList] at hL; omega
    | cons x xs =>
      simp only [FreeList] at hL
      left; refine ⟨xs, ?_, ?_⟩
      · rw [hL.1]; exact hL.2.2
      · simp at hlen; omega
  · right; exact ⟨S, (hS next hn).2, hS⟩

theorem freeList_frame {vac : Nat → Nat} {entries : Nat} (k v : Nat) :
    ∀ (L : List Nat) (n : Nat), FreeList vac entries n L → k ∉ L →
      FreeList (upd vac k v) entries n L := by
  intro L
  induction L with
  | nil => intro n h _; exact h
  | cons x xs ih =>
    intro n h hk
    simp only [FreeList] at h ⊢
    simp only [List.mem_cons, not_or] at hk
    refine ⟨h.1, h.2.1, ?_⟩
    rw [upd_other _ _ _ _ (fun hx => hk.1 hx.symm)]
    exact ih _ h.2.2 hk.2

theorem freeList_prefix {vac : Nat → Nat} {entries : Nat} (k : Nat) :
    ∀ (L : List Nat) (n : Nat), FreeList vac entries n L → k ∈ L →
      ∃ S : Nat → Prop, S n ∧ S k ∧ ∀ x, S x → x < entries ∧ (x ≠ k → S (vac x)) := by
  intro L
  induction L with
  | nil => intro n _ hk; simp at hk
  | cons x xs ih =>
    intro n h hk
    simp only [FreeList] at h
    by_cases hxk : x = k
    · refine ⟨fun y => y = k, by rw [h.1, hxk], rfl, ?_⟩
      intro y hy
      subst hy
      exact ⟨by rw [← hxk]; exact h.2.1, fun hne => absurd rfl hne⟩
    · have hk' : k ∈ xs := by
        rcases List.mem_cons.mp hk with hh | hh
        · exact absurd hh.symm hxk
        · exact hh
      obtain ⟨S, hS1, hS2, hS3⟩ := ih _ h.2.2 hk'
      refine ⟨fun y => y = x ∨ S y, Or.inl h.1, Or.inr hS2, ?_⟩
      intro y hy
      rcases hy with hy | hy
      · subst hy
        exact ⟨h.2.1, fun _ => Or.inr hS1⟩
      · exact ⟨(hS3 y hy).1, fun hne => Or.inr ((hS3 y hy).2 hne)⟩

/-- `Slab::remove(k)` for ANY `k < entries` (occupied or not) -/
theorem slabP_remove {vac : Nat → Nat} {entries next len : Nat} (k : Nat)
    (h : SlabP vac entries next len) (hk : k < entries) :
    SlabP (upd vac k next) entries k (len - 1) := by
  rcases h with ⟨L, hL, hlen⟩ | ⟨S, hn, hS⟩
  · by_cases hkL : k ∈ L
    · obtain ⟨S, hS1, hS2, hS3⟩ := freeList_prefix k L next hL hkL
      right
      refine ⟨S, hS2, ?_⟩
      intro x hx
      refine ⟨(hS3 x hx).1, ?_⟩
      by_cases hxk : x = k
      · subst hxk; simpa using hS1
      · rw [upd_other _ _ _ _ hxk]; exact (hS3 x hx).2 hxk
    · left
      refine ⟨k :: L, ?_, ?_⟩
      · simp only [FreeList, upd_same]
        exact ⟨trivial, hk, freeList_frame k next L next hL hkL⟩
      · simp only [List.length_cons]; omega
  · right
    refine ⟨fun y => y = k ∨ S y, Or.inl rfl, ?_⟩
    intro x hx
    by_cases hxk : x = k
    · subst hxk
      exact ⟨hk, by simpa using Or.inr hn⟩
    · rcases hx with hx | hx
      · exact absurd hx hxk
      · rw [upd_other _ _ _ _ hxk]
        exact ⟨(hS x hx).1, Or.inr (hS x hx).2⟩

theorem mem_insertSorted (k x : Nat) : ∀ l : List Nat, x ∈ Grp.insertSorted k l → x = k ∨ x ∈ l := by
  intro l
  induction l with
  | nil => intro h; simpa [Grp.insertSorted] using h
  | cons y ys ih =>
    intro h
    simp only [Grp.insertSorted] at h
    split at h
    · simpa using h
    · split at h
      · exact Or.inr h
      · rcases List.mem_cons.mp h with hh | hh
        · exact Or.inr (by simp [hh])
        · rcases ih hh with h1 | h1
          · exact Or.inl h1
          · exact Or.inr (List.mem_cons_of_mem _ h1)

/-! ### Part 2 — kernel invariant for an arbitrary slot → member map -/

/-- the monitor accepted the trace so far, and a set readiness bit of an occupied slot is
    justified: its member is not waiting, or the sub-waker of the slot was invoked since the
    member's last poll began.  `cur` = the child whose poll is in progress. -/
structure InvM (mem : Nat → Option Nat) (w : World) (cur : Option Nat) : Prop where
  mon : holds_C16 w.trace = true
  bit : ∀ k c, w.bits k = true → mem k = some c →
    (cur ≠ some c ∧ lastRes w.trace c ≠ some .pend) ∨ firedSubSince w.trace c k = true

variable {mem : Nat → Option Nat}

theorem invm_emit (w : World) (cur : Option Nat) (e : Ev) (hn : neutral e = true)
    (h : InvM mem w cur) : InvM mem (w.emit e) cur := by
  constructor
  · simp [holds_neutral e _ hn, h.mon]
  · intro k c hk hc
    simp only [World.emit_trace, lastRes_neutral e _ _ hn, fss_neutral e _ _ _ hn]
    exact h.bit k c (by simpa using hk) hc

theorem invm_emits (w : World) (cur : Option Nat) (l : List Ev) (hn : ∀ e ∈ l, neutral e = true)
    (h : InvM mem w cur) : InvM mem (w.emits l) cur := by
  induction l generalizing w with
  | nil => simpa using h
  | cons e l ih =>
    rw [World.emits_cons]
    exact ih _ (fun e' he' => hn e' (List.mem_cons_of_mem _ he'))
      (invm_emit w cur e (hn e (List.mem_cons_self ..)) h)

theorem invm_setWaker (w : World) (cur : Option Nat) (p : Nat) (h : InvM mem w cur) :
    InvM mem (w.setWaker p) cur :=
  ⟨h.mon, h.bit⟩

theorem invm_clearReady (w : World) (cur : Option Nat) (i : Nat) (hm : w.mode = .std)
    (h : InvM mem w cur) : InvM mem (w.clearReady i) cur := by
  constructor
  · simpa using h.mon
  · intro j c hj hc
    rw [World.clearReady_bits_std w i hm] at hj
    simp only [World.clearReady_trace]
    by_cases hji : j = i
    · subst hji; simp at hj
    · rw [upd_other _ _ _ _ hji] at hj; exact h.bit j c hj hc

theorem invm_setReady (w : World) (cur : Option Nat) (i : Nat) (hm : w.mode = .std)
    (h : InvM mem w cur)
    (hi : ∀ c, mem i = some c →
      (cur ≠ some c ∧ lastRes w.trace c ≠ some .pend) ∨ firedSubSince w.trace c i = true) :
    InvM mem (w.setReady i) cur := by
  constructor
  · simpa using h.mon
  · intro j c hj hc
    rw [World.setReady_bits_std w i hm] at hj
    simp only [World.setReady_trace]
    by_cases hji : j = i
    · subst hji; exact hi c hc
    · rw [upd_other _ _ _ _ hji] at hj; exact h.bit j c hj hc

/-- the member map may change as long as every (new) member of a slot is justified -/
theorem invm_mem {mem' : Nat → Option Nat} (w : World) (cur : Option Nat) (h : InvM mem w cur)
    (hsub : ∀ k c, mem' k = some c →
      mem k = some c ∨ (cur ≠ some c ∧ lastRes w.trace c ≠ some .pend)) :
    InvM mem' w cur := by
  constructor
  · exact h.mon
  · intro k c hk hc
    rcases hsub k c hc with h1 | h1
    · exact h.bit k c hk h1
    · exact Or.inl h1

theorem resize_bits_std (w : World) (len j : Nat) (hm : w.mode = .std)
    (h : (w.resize len).bits j = true) : w.bits j = true ∨ w.cap ≤ j := by
  unfold World.resize at h
  split at h
  · rw [hm] at h
    simp only at h
    split at h
    · rename_i hc; exact Or.inr hc.1
    · exact Or.inl h
  · exact Or.inl h

theorem resize_cap (w : World) (len : Nat) (h : w.cap ≤ len) : (w.resize len).cap = len := by
  unfold World.resize
  split
  · cases hm : w.mode <;> simp
  · omega

/-- `resize` arms only slots that hold no member yet -/
theorem invm_resize (w : World) (len : Nat) (hm : w.mode = .std) (h : InvM mem w none)
    (hvac : ∀ j, w.cap ≤ j → mem j = none) : InvM mem (w.resize len) none := by
  constructor
  · rw [GEng.resize_trace]; exact h.mon
  · intro k c hk hc
    rw [GEng.resize_trace]
    rcases resize_bits_std w len k hm hk with h1 | h1
    · exact h.bit k c h1 hc
    · rw [hvac k h1] at hc; cases hc

theorem invm_fired (w : World) (cur : Option Nat) (c a : Nat) (wk : Option Wk)
    (h : InvM mem w cur) : InvM mem (w.emit (.fired c a wk)) cur := by
  constructor
  · simpa [holds_C16] using h.mon
  · intro k x hk hx
    simp only [World.emit_trace, lastRes]
    rcases h.bit k x (by simpa using hk) hx with h1 | h1
    · exact Or.inl h1
    · right
      cases wk with
      | none => simpa [firedSubSince] using h1
      | some q => cases q <;> simp [firedSubSince, h1]

theorem invm_fireWk (w : World) (cur : Option Nat) (c a : Nat) (wk : Wk) (hm : w.mode = .std)
    (h : InvM mem w cur) : InvM mem ((w.emit (.fired c a (some wk))).fireWk wk) cur := by
  have hbase := invm_fired w cur c a (some wk) h
  cases wk with
  | par p => exact invm_emit _ _ _ rfl hbase
  | sub s =>
    cases hb : w.bits s with
    | true =>
      have : (w.emit (.fired c a (some (.sub s)))).fireWk (.sub s) = w.emit (.fired c a (some (.sub s))) := by
        simp [World.fireWk, hm, hb]
      rw [this]; exact hbase
    | false =>
      cases hp : w.parent with
      | some p =>
        have : (w.emit (.fired c a (some (.sub s)))).fireWk (.sub s)
            = ((w.emit (.fired c a (some (.sub s)))).setReady s).emit (.woke p) := by
          simp [World.fireWk, hm, hb, hp]
        rw [this]
        refine invm_emit _ _ _ rfl ?_
        refine invm_setReady _ _ s (by simpa using hm) hbase ?_
        intro x _; right; simp [firedSubSince]
      | none =>
        have : (w.emit (.fired c a (some (.sub s)))).fireWk (.sub s)
            = ((w.emit (.fired c a (some (.sub s)))).setReady s).emit .wakePanic := by
          simp [World.fireWk, hm, hb, hp]
        rw [this]
        refine invm_emit _ _ _ rfl ?_
        refine invm_setReady _ _ s (by simpa using hm) hbase ?_
        intro x _; right; simp [firedSubSince]

theorem invm_fire (w : World) (cur : Option Nat) (c a : Nat) (hm : w.mode = .std)
    (h : InvM mem w cur) : InvM mem (w.fire c a) cur := by
  unfold World.fire
  split
  · exact invm_fired w cur c a none h
  · exact invm_fireWk w cur c a _ hm h

theorem invm_fires (w : World) (cur : Option Nat) (l : List (Nat × Nat)) (hm : w.mode = .std)
    (h : InvM mem w cur) : InvM mem (w.fires l) cur := by
  induction l generalizing w with
  | nil => exact h
  | cons p l ih =>
    rw [World.fires_cons]
    exact ih _ (by simpa using hm) (invm_fire w cur p.1 p.2 hm h)

/-- polling member `c` of slot `k` whose bit has just been cleared -/
theorem invm_pollChild (w : World) (c k : Nat) (hm : w.mode = .std) (h : InvM mem w none)
    (huniq : ∀ j, mem j = some c → j = k)
    (hclr : w.bits k = false)
    (hjust : lastRes w.trace c ≠ some .pend ∨ firedSubSince w.trace c k = true) :
    InvM mem (w.pollChild c k) none := by
  unfold World.pollChild
  have h1 : InvM mem { w with scripts := upd w.scripts c (w.scripts c).tail,
                              handed := upd w.handed c (w.wakerFor k :: w.handed c),
                              trace := .childBegin c k (w.wakerFor k) :: w.trace } (some c) := by
    constructor
    · simp only [holds_C16, h.mon, Bool.true_and]
      rcases hjust with hj | hj
      · simp [hj]
      · simp [hj]
    · intro j x hj hx
      simp only at hj
      by_cases hxc : x = c
      · subst hxc
        rw [huniq j hx, hclr] at hj
        exact Bool.noConfusion hj
      · simp only [lastRes, firedSubSince]
        simp only [show ¬ (c = x) from fun h => hxc h.symm, if_false]
        rcases h.bit j x hj hx with hb | hb
        · exact Or.inl ⟨by simpa using fun h => hxc h.symm, hb.2⟩
        · exact Or.inr hb
  have h2 := invm_fires _ (some c) (w.stepOf c).fires (by simpa using hm) h1
  constructor
  · simpa [holds_C16] using h2.mon
  · intro j x hj hx
    simp only [World.emit_trace, World.emit_bits] at hj ⊢
    simp only [lastRes, firedSubSince]
    rcases h2.bit j x hj hx with hb | hb
    · left
      have hne : c ≠ x := fun h => hb.1 (by rw [h])
      simp only [hne, if_false]
      exact ⟨by simp, hb.2⟩
    · exact Or.inr hb

theorem lastRes_emits_neutral (w : World) (l : List Ev) (hl : ∀ e ∈ l, neutral e = true) (j : Nat) :
    lastRes (w.emits l).trace j = lastRes w.trace j := by
  induction l generalizing w with
  | nil => rfl
  | cons e l ih =>
    rw [World.emits_cons, ih _ (fun e' he' => hl e' (List.mem_cons_of_mem _ he'))]
    simp only [World.emit_trace]
    exact lastRes_neutral e _ _ (hl e (List.mem_cons_self ..))

end C16g
end Fc
