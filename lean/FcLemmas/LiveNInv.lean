/-
  FcLemmas/LiveNInv.lean — the run invariant `LBN` of a nest of FUTURE combinators under the
  wake-only executor (Fc/ExecN.lean), and the facts about the inner instances' speculative polls.

  `FNest nc` packages what is known about the families involved: the outer policy and every inner
  policy are `Live2.FutLike` (join, try_join, race, race_ok — FcLemmas/Live2Inst.lean and
  `Live2.futLike_of_joinLike`), and the outer scan order has no repetitions.

  `LBN nc F s`:
    * `NInv` — the safety invariant of the nest (flat C01 invariants of both levels + link);
    * the flat liveness invariant `Live2.LB` of the OUTER instance with VIRTUAL scripts for the
      nested children (`setScripts s.out f`, `f` equal to the real scripts on the plain children):
      between top-level polls a nested child owns no script at all in the model (its next answer is
      computed from the inner instance when the poll happens), the virtual one stands for "whatever
      the inner instance will answer";
    * for every nested child that has not resolved: the flat liveness invariant `Live2.LB` of its
      inner instance, and it has not been released.

  Progress measure `mu`: scripted steps left of the plain children plus of the leaves of the
  unresolved nested children.
-/
import FcLemmas.LiveNGen
import Fc.ExecN
set_option linter.unusedSimpArgs false
set_option linter.unusedVariables false

namespace Fc
namespace LiveN
open Mon Live Nest

/-! ### flat lemmas in the form needed here -/

/-- `Live2.LB` does not look at the scripts except through `Fut` -/
theorem lb_rescript {P : Policy Fix} {I : Fix → List Ev → Prop} {m : Mode} {fv : Nat → Nat} {n : Nat}
    (e : Eng Fix) (f g : Nat → List Step) (h : Live2.LB P I m fv n (setScripts e f))
    (hfut : ∀ c, c < n → Fut fv (e.w.ss g) c) : Live2.LB P I m fv n (setScripts e g) := by
  refine ⟨h.mode, fun hm => ?_, fun hm => ?_, ⟨h.b20.la, h.b20.lp, h.b20.m20⟩, h.fi,
    ⟨hfut, h.wi.hw, h.wi.lw, h.wi.ep⟩, h.sp, h.lo, h.pf⟩
  · have b := h.std hm
    exact ⟨⟨b.ks.std, b.ks.cnt, b.ks.hi, b.ks.hand, b.ks.lwk, b.ks.par, b.ks.i2, b.ks.nowp⟩,
      b.cap, b.r1, b.out, b.mb, fun ha hl => ⟨(b.js ha hl).pw, (b.js ha hl).j⟩⟩
  · have b := h.dir hm
    exact ⟨⟨b.kd.dir, b.kd.hand, b.kd.lp, b.kd.nowp⟩, b.cap, b.r1, b.out, b.mb,
      fun ha hl => ⟨(b.jd ha hl).pw, (b.jd ha hl).wk, (b.jd ha hl).o, (b.jd ha hl).d⟩⟩

/-- C20 at a `Pending` poll end, read off `Live2.LB`: every child has been polled, and a waiting
    child whose wake-up was owed when the poll began was polled in it -/
theorem lb_c20 {P : Policy Fix} {I : Fix → List Ev → Prop} {J : Fix → List Ev → List Nat → Prop}
    {Fin : Bool → List Nat → Prop} {m : Mode} {fv : Nat → Nat} {n : Nat}
    (FL : Live2.FutLike P n I J Fin) (e e' : Eng Fix) (t0 : List Ev)
    (h' : Live2.LB P I m fv n e') (hlo : lastOut e'.w.trace = some .pending)
    (hab : atPollBegin e'.w.trace = t0)
    (hshape : ∃ o t, e'.w.trace = .pollEnd o :: t) :
    ∀ c, c < n → everPolled e'.w.trace c = true ∧
      (lastRes t0 c = some .pend → owes t0 c = true → polledSince e'.w.trace c = true) := by
  obtain ⟨o, t, ht⟩ := hshape
  have ho : o = .pending := by
    rw [ht] at hlo; simpa [lastOut] using hlo
  subst ho
  have hm20 := h'.b20.m20
  rw [FL.hn _ _ h'.fi, ht] at hm20
  rw [ht] at hab
  simp only [atPollBegin] at hab
  simp only [holds_C20, Bool.and_eq_true] at hm20
  have := hm20.2
  simp only [c20At, List.all_eq_true, List.mem_range] at this
  intro c hc
  have hcc := this c hc
  rw [hab] at hcc
  simp only [owned, hc, decide_true, if_true, Bool.not_true, Bool.false_or, Bool.and_eq_true,
    Bool.or_eq_true, Bool.not_eq_true', Bool.and_eq_false_imp, beq_iff_eq] at hcc
  rw [ht]
  refine ⟨by simpa [everPolled] using hcc.1, fun h1 h2 => ?_⟩
  rcases hcc.2 with h3 | h3
  · have := h3 h1; rw [h2] at this; exact Bool.noConfusion this
  · simpa [polledSince] using h3

/-- `spent = false` means alive -/
theorem alive_of_sp {t : List Ev} (h : spent false t = false) : alive t = true := by
  simp only [spent, Bool.or_eq_false_iff, Bool.not_eq_false'] at h
  exact h.1.2

theorem lastOutcome_of_lastOut : ∀ (t : List Ev) (o : Outcome), lastOut t = some o → lastOutcome t = o := by
  intro t
  induction t with
  | nil => intro o h; simp [lastOut] at h
  | cons e t ih =>
    intro o h
    cases e <;> simp_all [lastOut, lastOutcome]

theorem stepsLeft_le_of_poll {P : Policy Fix} (L : Lawful P) (k : Nat) (e : Eng Fix) (wid : Nat) :
    Exec.stepsLeft k (Eng.poll P e wid) ≤ Exec.stepsLeft k e :=
  total_le _ _ k (fun c _ => poll_scripts_le L e wid c)

/-! ### the families of a nest of futures -/

structure FNest (nc : NCase) where
  Io : Fix → List Ev → Prop
  Jo : Fix → List Ev → List Nat → Prop
  Fino : Bool → List Nat → Prop
  Ii : Nat → Fix → List Ev → Prop
  Ji : Nat → Fix → List Ev → List Nat → Prop
  Fini : Nat → Bool → List Nat → Prop
  fvo : Nat → Nat
  fvi : Nat → Nat → Nat
  flo : Live2.FutLike nc.outer.policy nc.n Io Jo Fino
  fli : ∀ c fam k, nc.inner c = some (fam, k) → Live2.FutLike fam.policy k (Ii c) (Ji c) (Fini c)
  nd : ∀ s, (nc.outer.policy.order s).Nodup
  fvn : ∀ c, (nc.inner c).isSome = true → fvo c = 9000 + c

/-- the mode of the outer instance's kernel -/
def mo (nc : NCase) : Mode := nc.outer.modeOf nc.mode

structure LBN (nc : NCase) (F : FNest nc) (s : St) : Prop where
  ninv : NInv nc s
  vo : ∃ f, (∀ c, nc.inner c = none → f c = s.out.w.scripts c) ∧
        Live2.LB nc.outer.policy F.Io (mo nc) F.fvo nc.n (setScripts s.out f)
  inn : ∀ c fam k, c < nc.n → nc.inner c = some (fam, k) → resolvedVal s.out.w.trace c = none →
        Live2.LB fam.policy (F.Ii c) (fam.modeOf nc.mode) (F.fvi c) k (s.inn c) ∧ s.gone c = false

/-- scripted steps left in outer slot `c` that still matter -/
def mIn (nc : NCase) (s : St) (c : Nat) : Nat :=
  match nc.inner c with
  | none => (s.out.w.scripts c).length
  | some (_, k) => if resolvedVal s.out.w.trace c = none then Exec.stepsLeft k (s.inn c) else 0

/-- the progress measure -/
def mu (nc : NCase) (s : St) : Nat := total (mIn nc s) nc.n

theorem mIn_plain {nc : NCase} {s : St} {c : Nat} (h : nc.inner c = none) :
    mIn nc s c = (s.out.w.scripts c).length := by simp [mIn, h]

theorem mIn_nested {nc : NCase} {s : St} {c : Nat} {fam : Fam} {k : Nat} (h : nc.inner c = some (fam, k))
    (hu : resolvedVal s.out.w.trace c = none) : mIn nc s c = Exec.stepsLeft k (s.inn c) := by
  simp [mIn, h, hu]

theorem mIn_resolved {nc : NCase} {s : St} {c : Nat} {fam : Fam} {k : Nat} (h : nc.inner c = some (fam, k))
    (hu : resolvedVal s.out.w.trace c ≠ none) : mIn nc s c = 0 := by
  simp [mIn, h, hu]

/-! ### the speculative poll of an inner instance -/

variable {nc : NCase} {F : FNest nc} {s : St}

theorem specE_eq {c : Nat} {fam : Fam} {k : Nat} (hin : nc.inner c = some (fam, k)) :
    specE nc s c = Eng.poll fam.policy (s.inn c) (s.polls c + 1) := by
  unfold specE; rw [innerPolicy_some nc c fam k hin]

theorem stepE_res_of_lastOut {c : Nat} {o : Outcome}
    (h : lastOut (specE nc s c).w.trace = some o) :
    (stepE nc s c).res = resOfOutcome c (itemsSoFar (specE nc s c).w.trace) o := by
  simp only [stepE]
  rw [lastOutcome_of_lastOut _ _ h]

/-- the answer an unresolved nested child would give now: it resolves, or it is `Pending` and the
    inner run invariant holds after the speculative poll -/
theorem spec_cases (h : LBN nc F s) {c : Nat} {fam : Fam} {k : Nat} (hc : c < nc.n)
    (hin : nc.inner c = some (fam, k)) (hun : resolvedVal s.out.w.trace c = none) :
    (stepE nc s c).res = .ready true (9000 + c) ∨
    ((stepE nc s c).res = .pend ∧
      Live2.LB fam.policy (F.Ii c) (fam.modeOf nc.mode) (F.fvi c) k (specE nc s c) ∧
      (∀ g, g < k → lastRes (s.inn c).w.trace g = some .pend → owes (s.inn c).w.trace g = true →
        Exec.stepsLeft k (specE nc s c) < Exec.stepsLeft k (s.inn c))) := by
  have hi := (h.inn c fam k hc hin hun).1
  rw [specE_eq hin]
  rcases Live2.lb_poll (F.fli c fam k hin) (s.inn c) (s.polls c + 1) hi with
    ⟨ok, vals, hv, _⟩ | ⟨h', hlo', _, _, hEE⟩
  · left
    rw [← specE_eq hin] at hv
    rw [stepE_res_of_lastOut hv]; rfl
  · right
    refine ⟨?_, h', hEE⟩
    rw [← specE_eq hin] at hlo'
    rw [stepE_res_of_lastOut hlo']; rfl

theorem spec_le (F : FNest nc) {c : Nat} {fam : Fam} {k : Nat} (hin : nc.inner c = some (fam, k)) :
    Exec.stepsLeft k (specE nc s c) ≤ Exec.stepsLeft k (s.inn c) := by
  rw [specE_eq hin]
  exact stepsLeft_le_of_poll (F.fli c fam k hin).conc.law k _ _

/-- a speculative poll in which the inner instance invoked ANY waker consumed a leaf's step -/
theorem spec_woke (h : LBN nc F s) {c : Nat} {fam : Fam} {k : Nat} (hc : c < nc.n)
    (hin : nc.inner c = some (fam, k)) (hun : resolvedVal s.out.w.trace c = none)
    (hw : wokeAny (specE nc s c).w.trace) :
    Exec.stepsLeft k (specE nc s c) < Exec.stepsLeft k (s.inn c) := by
  have hi := (h.inn c fam k hc hin hun).1
  have FL := F.fli c fam k hin
  rw [specE_eq hin] at hw ⊢
  obtain ⟨g, hg⟩ := poll_woke_polled FL.conc.law _ _ hw
  have hP := Live2.pend_poll FL (s.inn c) (s.polls c + 1) hi.mode hi.fi hi.wi hi.sp
  have := hP.ps g hg
  exact total_lt _ _ k (fun g _ => hP.le g) g this.1 this.2

end LiveN
end Fc
